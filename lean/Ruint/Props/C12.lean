import Ruint.Lemmas.GenLehmer
import Ruint.Lemmas.LehmerFrom
import Ruint.Lemmas.LehmerExtra
import Ruint.Lemmas.Gcd
import Ruint.Lemmas.GcdExt
import Ruint.Gen.LehmerFacts
import Ruint.Lemmas.GenGcdWrap

/-!
# C12 — gcd, lcm, extended gcd, Lehmer update matrices

Property theorems only (helper lemmas live in `Lemmas/Lehmer*.lean`, `Lemmas/Gcd*.lean`). Every theorem quantifies over
**all** widths `bits` and all operands below `2^bits`. The model functions (`Ruint.Lehmer.*` in `Model/Lehmer.lean`,
`Ruint.Gcd.*` in `Model/Gcd.lean`) are the ones the correspondence driver executes against the real
`Uint::{gcd, lcm, gcd_extended}` and `ruint::algorithms::LehmerMatrix::*`; `some _` = returns, `none` = panics.

Layering (DESIGN §3.3a): `from_u64`, `from_u64_prefix` (packed `u·2^32+v` words, twice-unrolled loop, all nine return
sites), `from_u128_prefix`, `apply_u128`, `compose` are modelled at word level with explicit wrapping; `Matrix::from`,
`apply`, `gcd`, `gcd_extended`, `lcm` are modelled on `Uint` *values* through the value-level meaning of the `Uint`
operations they call (owned by C01–C07).

Everything is closed end to end: no `_partial` theorem, no oracle hypothesis is left. The matrix contract
(`Lehmer.contract`) that the gcd theorems used as an interface is still evaluated by the driver on every matrix the
*implementation* produces (ops `mfrom`, `mpre`, `m128`, `mu64`, `gcdtrace`).
-/
namespace Ruint.C12
open Ruint Ruint.Lehmer Ruint.Gcd

/-! ## 1. Lehmer update matrices -/

/-- **`Matrix::from` — the property's clause, for the real (packed) model.** For every `a ≥ b` (any width): `from` does
    not panic, and the matrix is the identity or `apply` (wrapping `Uint` arithmetic, no panic) maps `(a, b)` to `(c, d)`
    with `c ≥ d` (indeed `c > d`), `d < b`, `gcd c d = gcd a b`; moreover `c ≤ a`. For `b = 0` it is the identity. -/
theorem matrix_from_spec (bits a b : ℕ) (ha : a < 2 ^ bits) (hba : b ≤ a) :
    ∃ m, matFrom a b = some m ∧
      (b = 0 → m = ident) ∧
      (m = ident ∨ ∃ c d, Lehmer.apply bits m a b = some (c, d) ∧ d < c ∧ d < b ∧ c ≤ a
        ∧ Nat.gcd c d = Nat.gcd a b) := by
  rcases Nat.eq_zero_or_pos b with hb | hb
  · subst hb
    by_cases hs : bitLen a ≤ 64
    · refine ⟨ident, ?_, fun _ => rfl, Or.inl rfl⟩
      unfold matFrom; rw [if_neg (by omega)]; simp only [hs, if_true]
      unfold fromU64; rw [if_neg (by omega), if_pos rfl]
    · push Not at hs
      obtain ⟨e, h63, hW⟩ := matFrom_prefix a 0 (Nat.zero_le _) hs
      refine ⟨ident, ?_, fun _ => rfl, Or.inl rfl⟩
      rw [e, Nat.zero_div]
      unfold fromU64Prefix
      rw [if_neg (by omega)]
      simp [LIMIT]
  · obtain ⟨m, hm, hc⟩ := matFrom_contract a b hba hb
    refine ⟨m, hm, fun h => by omega, ?_⟩
    rcases contract_cases a b m hc with hid | hg
    · exact Or.inl hid
    · obtain ⟨c, d, h1, _, h3, h4, h5, h6⟩ := apply_exact bits a b m ha hba hg
      exact Or.inr ⟨c, d, h1, h3, h4, h5, h6⟩

/-- the same in contract form (what `gcd`, `gcd_extended`, `inv_mod` rely on): determinant `±1` matching the sign flag,
    non-decreasing rows, lower-left entry `≥ 1`, and over ℤ `0 ≤ d < c`, `d < b` for `(c, d) = m·(a, b)`. -/
theorem matrix_from_contract (a b : ℕ) (hba : b ≤ a) (hb : 0 < b) :
    ∃ m, matFrom a b = some m ∧ contract a b m = true :=
  matFrom_contract a b hba hb

/-- **`from_u64_prefix`** (packed cofactors, twice-unrolled loop, Jebelean's tests): on its documented domain
    (`a0` has the top bit set, `a0 ≥ a1`) it does not panic, no word operation wraps, and the result is the identity or is
    valid for **every** pair of integers that start with the bits of `a0`, `a1`: for all `K ≥ 1`, `0 ≤ α, β < K` it meets
    the contract on `(a0·K + α, a1·K + β)`. -/
theorem from_u64_prefix_spec (a0 a1 : ℕ) (h63 : 2 ^ 63 ≤ a0) (hW : a0 < W) (hle : a1 ≤ a0) :
    ∃ m, fromU64Prefix a0 a1 = some m ∧
      ∀ K α β : ℕ, 1 ≤ K → α < K → β < K → contract (a0 * K + α) (a1 * K + β) m = true := by
  obtain ⟨m, hm, _⟩ := fromU64Prefix_contract a0 a1 1 0 0 h63 hW hle (le_refl _) (by norm_num) (by norm_num)
  refine ⟨m, hm, fun K α β hK hα hβ => ?_⟩
  obtain ⟨m', hm', hc⟩ := fromU64Prefix_contract a0 a1 K α β h63 hW hle hK hα hβ
  rw [hm] at hm'
  cases hm'
  exact hc

/-- outside the documented domain `from_u64_prefix` panics (dev profile: the two `debug_assert!`s). -/
theorem from_u64_prefix_panics (a0 a1 : ℕ) (h : a0 < 2 ^ 63 ∨ a0 < a1) : fromU64Prefix a0 a1 = none := by
  unfold fromU64Prefix; rw [if_pos h]

/-- **`from_u64`** (extended Euclid on words): for `r0 ≥ r1` no panic, no wrap; the identity iff `r1 = 0`, otherwise the
    matrix meets the contract, maps `(r0, r1)` to `(gcd r0 r1, 0)` and its entries are `≤ r0`. -/
theorem from_u64_spec (r0 r1 : ℕ) (hle : r1 ≤ r0) (hW : r0 < W) :
    ∃ m, fromU64 r0 r1 = some m ∧
      (r1 = 0 → m = ident) ∧
      (0 < r1 → good r0 r1 m = true
        ∧ applyZ m r0 r1 = ((Nat.gcd r0 r1 : ℤ), 0)
        ∧ m.1 ≤ r0 ∧ m.2.1 ≤ r0 ∧ m.2.2.1 ≤ r0 ∧ m.2.2.2.1 ≤ r0) :=
  fromU64_spec r0 r1 hle hW

/-- **`from_u128_prefix`**: for every `0 < r1 ≤ r0 < 2^128` (also values shorter than a word, which `Matrix::from`
    never passes) it does not panic and the result meets the contract on `(r0, r1)`. -/
theorem from_u128_prefix_spec (r0 r1 : ℕ) (h128 : r0 < 2 ^ 128) (hle : r1 ≤ r0) (hr1 : 0 < r1) :
    ∃ m, fromU128Prefix r0 r1 = some m ∧ contract r0 r1 m = true :=
  fromU128Prefix_contract r0 r1 h128 hle hr1

/-- `from_u128_prefix` panics (dev profile) exactly on `r0 < r1` (`debug_assert!`) and on `r0 = 0`
    (`r0 << 128`: shift overflow; it feeds a word without top bit to `from_u64_prefix` otherwise). -/
theorem from_u128_prefix_panics (r0 r1 : ℕ) (h : r0 < r1 ∨ r0 = 0) : fromU128Prefix r0 r1 = none := by
  unfold fromU128Prefix
  rcases h with h | h
  · rw [if_pos h]
  · subst h; split <;> rfl

/-- the model's loop in `from_u64_prefix` is left through its own exit test (`a3 < LIMIT`), never through fuel
    exhaustion: the packed model equals the half-step model with a fuel for which the half-step loop has terminated. -/
theorem from_u64_prefix_loop_exits (a0 a1 : ℕ) (h63 : 2 ^ 63 ≤ a0) (hW : a0 < W) (hle : a1 ≤ a0) :
    ∃ fuel, fromU64Prefix a0 a1 = some (Lh.prefixM LIMIT fuel a0 a1)
      ∧ (LIMIT ≤ a1 → LIMIT ≤ a0 - a0 / a1 * a1 → (Lh.loop LIMIT fuel (Lh.initSt a0 a1)).a3 < LIMIT) :=
  Lh.fromU64Prefix_eq' a0 a1 h63 hW hle

/-- the `debug_assert!`s inside `from_u64_prefix` (`a2 < a3` after the rotation, `a2 >= LIMIT`, `a2 >= v2`, `a2 >= u2`)
    hold in every state satisfying the loop invariant. -/
theorem from_u64_prefix_debug_asserts (A0 A1 : ℕ) (s : Lh.St) (ag : ℤ) (h : Lh.Inv A0 A1 LIMIT s ag)
    (hA : A0 < W) (hAle : A1 ≤ A0) : s.a3 < s.a2 ∧ LIMIT ≤ s.a2 ∧ s.v2 ≤ s.a2 ∧ s.u2 ≤ s.a2 :=
  Lh.inv_asserts A0 A1 LIMIT s ag h (by rw [← Lh.W_eq_LL]; exact hA) hAle

/-- **`apply`**: on a matrix meeting the contract the wrapping arithmetic is exact — no panic in `Uint::from`, and the
    wrapped results are the true integers `m·(a, b)`. -/
theorem apply_spec (bits a b : ℕ) (m : Mat) (ha : a < 2 ^ bits) (hba : b ≤ a) (h : good a b m = true) :
    ∃ c d : ℕ, Lehmer.apply bits m a b = some (c, d) ∧ applyZ m a b = ((c : ℤ), (d : ℤ)) ∧ d < c ∧ d < b ∧ c ≤ a
      ∧ Nat.gcd c d = Nat.gcd a b :=
  apply_exact bits a b m ha hba h

/-- **`apply_u128`**: the same on `u128`. -/
theorem apply_u128_spec (a b : ℕ) (m : Mat) (ha : a < 2 ^ 128) (hba : b ≤ a) (h : good a b m = true) :
    ∃ c d : ℕ, applyU128 m a b = (c, d) ∧ applyZ m a b = ((c : ℤ), (d : ℤ)) ∧ d < c ∧ d < b ∧ c ≤ a
      ∧ Nat.gcd c d = Nat.gcd a b := by
  obtain ⟨c, d, h1, h2, h3, h4, h5, h6⟩ := apply_exact 128 a b m ha hba h
  obtain ⟨_, _, _, _, _, _, _, _, e0, e1, e2, e3⟩ := good_facts a b m hba h
  refine ⟨c, d, ?_, h2, h3, h4, h5, h6⟩
  unfold Lehmer.apply at h1
  rw [if_neg (by norm_num), if_neg (by omega)] at h1
  unfold applyU128
  simp only at h1 ⊢
  split
  · next hs => rw [if_pos hs] at h1; exact Option.some.inj h1
  · next hs => rw [if_neg hs] at h1; exact Option.some.inj h1

/-- **`compose`** (no contract in the property; evidence): as long as the `u64` entries of the product do not
    overflow, the composed matrix acts as `m ∘ n` on every integer pair. -/
theorem compose_spec (m n : Mat)
    (h0 : m.1 * n.1 + m.2.1 * n.2.2.1 < W) (h1 : m.1 * n.2.1 + m.2.1 * n.2.2.2.1 < W)
    (h2 : m.2.2.1 * n.1 + m.2.2.2.1 * n.2.2.1 < W) (h3 : m.2.2.1 * n.2.1 + m.2.2.2.1 * n.2.2.2.1 < W) (x y : ℤ) :
    applyZ (compose m n) x y = applyZ m (applyZ n x y).1 (applyZ n x y).2 :=
  compose_applyZ m n h0 h1 h2 h3 x y

/-! ## 2. gcd -/

/-- **`gcd`**: for all widths and operands the result is the greatest common divisor (no panic). -/
theorem gcd_spec (bits a b : ℕ) (ha : a < 2 ^ bits) (hb : b < 2 ^ bits) :
    gcd bits a b = some (Nat.gcd a b) :=
  gcd_spec_of_oracle matFrom_contract bits a b ha hb

/-- `gcd(0, 0) = 0`, `gcd(a, 0) = a`, `gcd(0, b) = b`. -/
theorem gcd_zero (bits a : ℕ) (ha : a < 2 ^ bits) :
    gcd bits 0 0 = some 0 ∧ gcd bits a 0 = some a ∧ gcd bits 0 a = some a := by
  have h0 : 0 < 2 ^ bits := Nat.pow_pos (by norm_num)
  refine ⟨?_, ?_, ?_⟩
  · rw [gcd_spec bits 0 0 h0 h0]; rfl
  · rw [gcd_spec bits a 0 ha h0, Nat.gcd_zero_right]
  · rw [gcd_spec bits 0 a h0 ha, Nat.gcd_zero_left]

/-- the result is a common divisor and every common divisor divides it ("greatest"). -/
theorem gcd_greatest (bits a b : ℕ) (ha : a < 2 ^ bits) (hb : b < 2 ^ bits) :
    ∃ g, gcd bits a b = some g ∧ g ∣ a ∧ g ∣ b ∧ ∀ e, e ∣ a → e ∣ b → e ∣ g :=
  ⟨_, gcd_spec bits a b ha hb, Nat.gcd_dvd_left a b, Nat.gcd_dvd_right a b, fun _ h1 h2 => Nat.dvd_gcd h1 h2⟩

/-! ## 3. gcd_extended -/

/-- **`gcd_extended`**: `(g, x, y, sign)` with `g = gcd a b`, canonical cofactors, and the Bezout identity **exact over
    ℤ**: `a·x − b·y = g` if `sign`, else `b·y − a·x = g`. -/
theorem gcd_extended_spec (bits a b : ℕ) (ha : a < 2 ^ bits) (hb : b < 2 ^ bits) :
    ∃ g x y s, gcdExtended bits a b = some (g, x, y, s) ∧ g = Nat.gcd a b ∧ x < 2 ^ bits ∧ y < 2 ^ bits
      ∧ (s = true → (a : ℤ) * x - b * y = g) ∧ (s = false → (b : ℤ) * y - a * x = g) :=
  GcdExt.gcdExtended_spec_of_oracle matFrom_contract bits a b ha hb

/-- the property's wording: the identity evaluated with the wrapping `Uint` operations (modulo `2^bits`). -/
theorem gcd_extended_mod_spec (bits a b : ℕ) (ha : a < 2 ^ bits) (hb : b < 2 ^ bits) :
    ∃ g x y s, gcdExtended bits a b = some (g, x, y, s) ∧ g = Nat.gcd a b
      ∧ (s = true → usub (2 ^ bits) (umul (2 ^ bits) a x) (umul (2 ^ bits) b y) = g)
      ∧ (s = false → usub (2 ^ bits) (umul (2 ^ bits) b y) (umul (2 ^ bits) a x) = g) :=
  GcdExt.gcdExtended_mod_of_oracle matFrom_contract bits a b ha hb

/-! ## 4. lcm -/

/-- **`lcm`**: `Some(a·b / gcd)` exactly when that value is `< 2^bits` (`Some(0)` if either operand is 0), else `None`. -/
theorem lcm_spec (bits a b : ℕ) (ha : a < 2 ^ bits) (hb : b < 2 ^ bits) :
    lcm bits a b = some (if a = 0 ∨ b = 0 then some 0
                         else if a * b / Nat.gcd a b < 2 ^ bits then some (a * b / Nat.gcd a b) else none) :=
  lcm_spec_of_oracle matFrom_contract bits a b ha hb

/-- the value is the least common multiple. -/
theorem lcm_value (a b : ℕ) : a * b / Nat.gcd a b = Nat.lcm a b := rfl

/-! ## non-vacuity: the hypotheses are satisfiable and the model computes -/

example : fromU64 252 105 = some (2, 5, 5, 12, false) := by decide
example : matFrom 252 105 = some (2, 5, 5, 12, false) := by decide
example : good 252 105 (2, 5, 5, 12, false) = true := by decide
example : gcd 8 252 105 = some 21 := by decide
example : gcdExtended 8 252 105 = some (21, 2, 5, false) := by decide
example : lcm 8 12 18 = some (some 36) ∧ lcm 8 252 105 = some none := by decide


/-! ## Tie of the matrix kernels to the source (G)

`Ruint/Gen/WordsLehmer.lean` is regenerated from `src/algorithms/gcd/matrix.rs` by `tools/rs2lean.py` on every run:
`compose`, `apply_u128`, `from_u64` (the `loop`), `from_u64_prefix` (packed cofactors, the twice-unrolled `while`, all
nine return sites) and `from_u128_prefix`, with Rust's wrapping `u64`/`u128` semantics and loops as a step function
iterated by a fuelled combinator. On their documented domains the models the theorems above are about EQUAL the
generated definitions (run with the model's own fuel), so `matrix_from_spec`, `from_u64_prefix_spec`, … are statements
about what the source says now; a changed comparison, operand or return tuple breaks these obligations. -/

theorem gen_compose_eq (m n : Mat) : Ruint.Gen.lehmer_compose m n = compose m n :=
  Ruint.GenLehmer.compose_eq m n

theorem gen_apply_u128_eq (m : Mat) (a b : ℕ) : Ruint.Gen.lehmer_apply_u128 m a b = applyU128 m a b :=
  Ruint.GenLehmer.apply_u128_eq m a b

theorem gen_from_u64_prefix_eq (a0 a1 : ℕ) (h : ¬ (a0 < 2 ^ 63 ∨ a0 < a1)) :
    fromU64Prefix a0 a1 = some (Ruint.Gen.lehmer_from_u64_prefix (a1 + 1) a0 a1) :=
  Ruint.GenLehmer.from_u64_prefix_eq a0 a1 h

theorem gen_from_u128_prefix_eq (r0 r1 n : ℕ) (hn : bitLen r0 = n) (h64 : 64 ≤ n) (h128 : n ≤ 128) (hle : r1 ≤ r0) :
    fromU128Prefix r0 r1 = some (Ruint.Gen.lehmer_from_u128_prefix (r1 / 2 ^ (n - 64) + 1) r0 r1) :=
  Ruint.GenLehmer.from_u128_prefix_eq r0 r1 n hn h64 h128 hle

theorem gen_from_u64_eq (r0 r1 : ℕ) (hle : r1 ≤ r0) (hW : r0 < W) :
    fromU64 r0 r1 = some (Ruint.Gen.lehmer_from_u64 (r1 + 1) r0 r1) :=
  Ruint.GenLehmer.from_u64_eq r0 r1 hle hW

/-! ### the gcd family regenerated in value mode (`Gen/WordsGcd.lean`)

`algorithms::gcd`, `gcd_extended` (src/algorithms/gcd/mod.rs) and the `Uint` methods `gcd`, `lcm`, `gcd_extended` (src/gcd.rs)
as the source defines them — translated on every run with a `Uint` read as its numeric value and `LehmerMatrix::from` / `apply`
as the model functions of the theorems above — equal the L2 models: the swap at entry, the loop condition, the identity-matrix
fallback, the cofactor updates with their order, `even ^= !m.4`, the sign patch, the swap at exit, `lcm`'s
`checked_div(..).unwrap_or_default()` / `checked_mul` are the source's. The driver runs them. -/

theorem gen_gcd_eq (bits L a b : ℕ) (ha : a < 2 ^ bits) (hb : b < 2 ^ bits) (f : ℕ) (hf : min a b + 1 < f) :
    Ruint.Gen.val_gcd f bits L a b = Ruint.Gcd.gcd bits a b ∧ Ruint.Gen.val_uint_gcd f bits L a b = Ruint.Gcd.gcd bits a b :=
  ⟨Ruint.GenGcd.gcd_eq bits L a b ha hb f hf, Ruint.GenGcd.uint_gcd_eq bits L a b ha hb f hf⟩

theorem gen_gcd_extended_eq (bits L a b : ℕ) (ha : a < 2 ^ bits) (hb : b < 2 ^ bits) (f : ℕ) (hf : min a b + 1 < f) :
    Ruint.Gen.val_gcd_extended f bits L a b = Ruint.Gcd.gcdExtended bits a b
      ∧ Ruint.Gen.val_uint_gcd_extended f bits L a b = Ruint.Gcd.gcdExtended bits a b :=
  ⟨Ruint.GenGcd.gcd_extended_eq bits L a b ha hb f hf, Ruint.GenGcd.uint_gcd_extended_eq bits L a b ha hb f hf⟩

theorem gen_lcm_eq (bits L a b : ℕ) (ha : a < 2 ^ bits) (hb : b < 2 ^ bits) (f : ℕ) (hf : min a b + 1 < f) :
    Ruint.Gen.val_uint_lcm f bits L a b = Ruint.Gcd.lcm bits a b :=
  Ruint.GenGcd.uint_lcm_eq bits L a b ha hb f hf

end Ruint.C12
