import Ruint.Model.Bytes
import Ruint.Lemmas.Basic

/-! # C08 — byte encodings (property theorems; under construction) -/
namespace Ruint.C08
open Ruint Ruint.Bytes Ruint.Canon

/-- the decoders reject anything longer than `BYTES` (first branch), for every width and input. -/
theorem try_from_be_slice_too_long (bits : ℕ) (bs : List ℕ) (h : nbytes bits < bs.length) :
    tryFromBeSlice bits bs = .none := by
  unfold tryFromBeSlice
  simp [h]

end Ruint.C08
