import Ruint.Lemmas.Bytes
import Ruint.Lemmas.RsTactic
import Ruint.Lemmas.GenBytes
import Ruint.Gen.WordsUtils
import Ruint.Lemmas.GenUtils

/-!
# C08 — byte encodings are positional, round-trip, and range-check without panicking

Property theorems only. Every theorem quantifies over **all** widths `bits` (0, non-multiples of 8 and 64
included), all canonical values, all byte strings. The model functions (`Ruint.Bytes.*`, file
`Model/Bytes.lean`) are the ones the correspondence driver executes against the real `Uint` methods;
the decoders are modelled with both code paths (whole-limb fast path / byte accumulation loop).

`ofLE bs = Σ bs[i]·256^i`, `ofBE bs = ofLE bs.reverse`; `BYTES = nbytes bits = ⌈bits/8⌉`.
-/
namespace Ruint.C08
open Ruint Ruint.Bytes Ruint.Canon

/-- positional value of a little-endian byte string -/
abbrev ofLE (bs : List ℕ) : ℕ := wordOfLE bs
/-- positional value of a big-endian byte string -/
abbrev ofBE (bs : List ℕ) : ℕ := wordOfBE bs

theorem ofBE_eq (bs : List ℕ) : ofBE bs = ofLE bs.reverse := wordOfBE_eq bs

/-! ## encoders -/

/-- `as_le_slice` / `as_le_bytes` / `to_le_bytes_vec`: length `BYTES`, byte `i` is `val / 256^i % 256`,
    every element is a byte. -/
theorem as_le_slice_spec (bits : ℕ) (a : List ℕ) (ha : Canon bits a) :
    (asLeSlice bits a).length = nbytes bits
    ∧ (∀ i, i < nbytes bits → (asLeSlice bits a).getD i 0 = val a / 256 ^ i % 256)
    ∧ AllByte (asLeSlice bits a) ∧ ofLE (asLeSlice bits a) = val a := by
  rw [asLeSlice_eq bits a ha]
  refine ⟨by simp, fun i hi => bytesLE_getD _ _ i hi, bytesLE_allByte _ _, ?_⟩
  rw [ofLE, wordOfLE_bytesLE]
  exact Nat.mod_eq_of_lt (lt_of_lt_of_le ha.val_lt (two_pow_le_256 bits))

theorem as_le_bytes_spec (bits : ℕ) (a : List ℕ) :
    asLeBytes bits a = asLeSlice bits a ∧ toLeBytesVec bits a = asLeSlice bits a := ⟨rfl, rfl⟩

/-- `to_le_bytes::<N>()`: panics unless `N = BYTES`; otherwise the `BYTES` positional digits. -/
theorem to_le_bytes_spec (bits n : ℕ) (a : List ℕ) (ha : Canon bits a) :
    (n ≠ nbytes bits → toLeBytes bits n a = none)
    ∧ (n = nbytes bits → ∃ bs, toLeBytes bits n a = some bs ∧ bs.length = nbytes bits
        ∧ (∀ i, i < nbytes bits → bs.getD i 0 = val a / 256 ^ i % 256) ∧ ofLE bs = val a) := by
  unfold toLeBytes
  obtain ⟨h1, h2, _, h4⟩ := as_le_slice_spec bits a ha
  exact ⟨fun h => by simp [h], fun h => ⟨_, by simp [h], h1, h2, h4⟩⟩

/-- `to_be_bytes::<N>()` is the reversal: byte `i` is digit `BYTES − 1 − i`. -/
theorem to_be_bytes_spec (bits n : ℕ) (a : List ℕ) (ha : Canon bits a) :
    (n ≠ nbytes bits → toBeBytes bits n a = none)
    ∧ (n = nbytes bits → ∃ bs, toBeBytes bits n a = some bs ∧ bs = (asLeSlice bits a).reverse
        ∧ bs.length = nbytes bits
        ∧ (∀ i, i < nbytes bits → bs.getD i 0 = val a / 256 ^ (nbytes bits - 1 - i) % 256)
        ∧ ofBE bs = val a) := by
  unfold toBeBytes toLeBytes
  obtain ⟨h1, h2, _, h4⟩ := as_le_slice_spec bits a ha
  refine ⟨fun h => by simp [h], fun h => ⟨_, by simp [h], rfl, by simp [h1], ?_, ?_⟩⟩
  · intro i hi
    simp only [List.getD]
    rw [List.getElem?_reverse (by omega), h1]
    exact h2 _ (by omega)
  · rw [ofBE_eq, List.reverse_reverse]; exact h4

theorem to_be_bytes_vec_spec (bits : ℕ) (a : List ℕ) (ha : Canon bits a) :
    toBeBytesVec bits a = (asLeSlice bits a).reverse ∧ ofBE (toBeBytesVec bits a) = val a := by
  refine ⟨rfl, ?_⟩
  unfold toBeBytesVec toLeBytesVec asLeBytes
  rw [ofBE_eq, List.reverse_reverse]; exact (as_le_slice_spec bits a ha).2.2.2

/-- the trimmed little-endian forms are exactly the minimal base-256 digit string (`Nat.digits`):
    no trailing zero byte, empty for zero. -/
theorem le_bytes_trimmed_spec (bits : ℕ) (a : List ℕ) (ha : Canon bits a) :
    asLeBytesTrimmed bits a = Nat.digits 256 (val a)
    ∧ toLeBytesTrimmedVec bits a = Nat.digits 256 (val a) := by
  have : asLeBytesTrimmed bits a = Nat.digits 256 (val a) := by
    unfold asLeBytesTrimmed asLeBytes
    rw [trimEnd_eq_digits _ (as_le_slice_spec bits a ha).2.2.1]
    congr 1; exact (as_le_slice_spec bits a ha).2.2.2
  exact ⟨this, this⟩

/-- the trimmed big-endian form is the minimal digit string, most significant first. -/
theorem be_bytes_trimmed_spec (bits : ℕ) (a : List ℕ) (ha : Canon bits a) :
    toBeBytesTrimmedVec bits a = (Nat.digits 256 (val a)).reverse := by
  unfold toBeBytesTrimmedVec
  rw [(le_bytes_trimmed_spec bits a ha).2]

/-- `copy_le_bytes_to`: panics iff the buffer is shorter than `BYTES`; otherwise writes the digits to
    the front, leaves the rest, returns `BYTES`. -/
theorem copy_le_bytes_to_spec (bits : ℕ) (a buf : List ℕ) :
    (buf.length < nbytes bits → copyLeBytesTo bits a buf = none)
    ∧ (nbytes bits ≤ buf.length →
        copyLeBytesTo bits a buf = some (nbytes bits, asLeSlice bits a ++ buf.drop (nbytes bits))) := by
  unfold copyLeBytesTo
  exact ⟨fun h => by simp [h], fun h => by simp [Nat.not_lt.mpr h]⟩

/-- `checked_copy_le_bytes_to`: `None` and the buffer **untouched** when it is too short. -/
theorem checked_copy_le_bytes_to_spec (bits : ℕ) (a buf : List ℕ) :
    (buf.length < nbytes bits → checkedCopyLeBytesTo bits a buf = some (none, buf))
    ∧ (nbytes bits ≤ buf.length → checkedCopyLeBytesTo bits a buf
        = some (some (nbytes bits), asLeSlice bits a ++ buf.drop (nbytes bits))) := by
  unfold checkedCopyLeBytesTo copyLeBytesTo
  exact ⟨fun h => by simp [h], fun h => by simp [Nat.not_lt.mpr h]⟩

/-- `copy_be_bytes_to` (the `rchunks_mut(8)` loop): writes the big-endian digits. -/
theorem copy_be_bytes_to_spec (bits : ℕ) (a buf : List ℕ) (ha : Canon bits a) :
    (buf.length < nbytes bits → copyBeBytesTo bits a buf = none)
    ∧ (nbytes bits ≤ buf.length → copyBeBytesTo bits a buf
        = some (nbytes bits, (asLeSlice bits a).reverse ++ buf.drop (nbytes bits))) := by
  unfold copyBeBytesTo
  refine ⟨fun h => by simp [h], fun h => ?_⟩
  have hl : (buf.take (nbytes bits)).length = nbytes bits := by simp; omega
  rw [if_neg (Nat.not_lt.mpr h), copyBeRegion_eq a _ ha.2.1 (by rw [hl, ha.1]; exact nbytes_le bits), hl,
    asLeSlice_eq bits a ha]

theorem checked_copy_be_bytes_to_spec (bits : ℕ) (a buf : List ℕ) (ha : Canon bits a) :
    (buf.length < nbytes bits → checkedCopyBeBytesTo bits a buf = some (none, buf))
    ∧ (nbytes bits ≤ buf.length → checkedCopyBeBytesTo bits a buf
        = some (some (nbytes bits), (asLeSlice bits a).reverse ++ buf.drop (nbytes bits))) := by
  unfold checkedCopyBeBytesTo
  refine ⟨fun h => by simp [h], fun h => ?_⟩
  rw [if_neg (Nat.not_lt.mpr h), ((copy_be_bytes_to_spec bits a buf ha).2 h)]
  rfl

/-! ## decoders -/

/-- `try_from_le_slice` on ANY byte string: `Some(v)` exactly when the slice is at most `BYTES` long and
    denotes a number below `2^bits` (then `v` is canonical with that value); `None` otherwise.
    Both code paths. -/
theorem try_from_le_slice_spec (bits : ℕ) (bs : List ℕ) (h : AllByte bs) :
    (bs.length ≤ nbytes bits ∧ ofLE bs < 2 ^ bits →
      ∃ l, tryFromLeSlice bits bs = .ok l ∧ Canon bits l ∧ val l = ofLE bs)
    ∧ (¬ (bs.length ≤ nbytes bits ∧ ofLE bs < 2 ^ bits) → tryFromLeSlice bits bs = .none) := by
  by_cases hlen : bs.length ≤ nbytes bits
  · rw [tryFromLeSlice_eq bits bs h hlen]
    obtain ⟨c1, c2⟩ := checkTop_toLimbs bits (ofLE bs) (wordOfLE_lt_W bits bs h hlen)
    constructor
    · rintro ⟨_, hv⟩
      exact ⟨_, c1 hv, canon_toLimbs bits _ hv, val_toLimbs_of_lt bits _ hv⟩
    · intro hn
      exact c2 (by by_contra hc; exact hn ⟨hlen, by omega⟩)
  · constructor
    · rintro ⟨hl, _⟩; omega
    · intro _; unfold tryFromLeSlice; simp [Nat.lt_of_not_le hlen]

/-- `try_from_be_slice` on ANY byte string (both code paths). -/
theorem try_from_be_slice_spec (bits : ℕ) (bs : List ℕ) (h : AllByte bs) :
    (bs.length ≤ nbytes bits ∧ ofBE bs < 2 ^ bits →
      ∃ l, tryFromBeSlice bits bs = .ok l ∧ Canon bits l ∧ val l = ofBE bs)
    ∧ (¬ (bs.length ≤ nbytes bits ∧ ofBE bs < 2 ^ bits) → tryFromBeSlice bits bs = .none) := by
  rw [tryFromBeSlice_eq_le bits bs h, ofBE_eq]
  have := try_from_le_slice_spec bits bs.reverse h.reverse
  simpa using this

/-- the slice decoders never panic, whatever the input. -/
theorem try_from_slice_never_panics (bits : ℕ) (bs : List ℕ) (h : AllByte bs) :
    tryFromLeSlice bits bs ≠ .panic ∧ tryFromBeSlice bits bs ≠ .panic := by
  constructor
  · by_cases hc : bs.length ≤ nbytes bits ∧ ofLE bs < 2 ^ bits
    · obtain ⟨l, e, _⟩ := (try_from_le_slice_spec bits bs h).1 hc; rw [e]; simp
    · rw [(try_from_le_slice_spec bits bs h).2 hc]; simp
  · by_cases hc : bs.length ≤ nbytes bits ∧ ofBE bs < 2 ^ bits
    · obtain ⟨l, e, _⟩ := (try_from_be_slice_spec bits bs h).1 hc; rw [e]; simp
    · rw [(try_from_be_slice_spec bits bs h).2 hc]; simp

/-- `from_le_slice` / `from_be_slice`: the value when it fits, a panic otherwise. -/
theorem from_slice_spec (bits : ℕ) (bs : List ℕ) (h : AllByte bs) :
    (bs.length ≤ nbytes bits ∧ ofLE bs < 2 ^ bits →
      ∃ l, fromLeSlice bits bs = .ok l ∧ Canon bits l ∧ val l = ofLE bs)
    ∧ (¬ (bs.length ≤ nbytes bits ∧ ofLE bs < 2 ^ bits) → fromLeSlice bits bs = .panic)
    ∧ (bs.length ≤ nbytes bits ∧ ofBE bs < 2 ^ bits →
      ∃ l, fromBeSlice bits bs = .ok l ∧ Canon bits l ∧ val l = ofBE bs)
    ∧ (¬ (bs.length ≤ nbytes bits ∧ ofBE bs < 2 ^ bits) → fromBeSlice bits bs = .panic) := by
  unfold fromLeSlice fromBeSlice
  refine ⟨fun hc => ?_, fun hc => ?_, fun hc => ?_, fun hc => ?_⟩
  · obtain ⟨l, e, r⟩ := (try_from_le_slice_spec bits bs h).1 hc; exact ⟨l, by rw [e], r⟩
  · rw [(try_from_le_slice_spec bits bs h).2 hc]
  · obtain ⟨l, e, r⟩ := (try_from_be_slice_spec bits bs h).1 hc; exact ⟨l, by rw [e], r⟩
  · rw [(try_from_be_slice_spec bits bs h).2 hc]

/-- `from_le_bytes::<N>` / `from_be_bytes::<N>`: panic unless `N = BYTES`, then as the slice forms. -/
theorem from_bytes_spec (bits : ℕ) (bs : List ℕ) :
    (bs.length ≠ nbytes bits → fromLeBytes bits bs = .panic ∧ fromBeBytes bits bs = .panic)
    ∧ (bs.length = nbytes bits →
        fromLeBytes bits bs = fromLeSlice bits bs ∧ fromBeBytes bits bs = fromBeSlice bits bs) := by
  unfold fromLeBytes fromBeBytes
  exact ⟨fun h => by simp [h], fun h => by simp [h]⟩

/-! ## round trips -/

/-- decoding any of the little-endian encodings (fixed, vec, slice, trimmed) returns the value. -/
theorem le_round_trip (bits : ℕ) (a : List ℕ) (ha : Canon bits a) :
    tryFromLeSlice bits (asLeSlice bits a) = .ok a
    ∧ tryFromLeSlice bits (toLeBytesTrimmedVec bits a) = .ok a
    ∧ fromLeSlice bits (toLeBytesVec bits a) = .ok a
    ∧ (∀ bs, toLeBytes bits (nbytes bits) a = some bs → fromLeBytes bits bs = .ok a) := by
  obtain ⟨h1, _, h3, h4⟩ := as_le_slice_spec bits a ha
  have key : ∀ bs, AllByte bs → bs.length ≤ nbytes bits → ofLE bs = val a →
      tryFromLeSlice bits bs = .ok a := by
    intro bs hb hl hv
    obtain ⟨l, e, c, v⟩ := (try_from_le_slice_spec bits bs hb).1 ⟨hl, by rw [hv]; exact ha.val_lt⟩
    rw [e, canon_ext bits l a c ha (by rw [v, hv])]
  have k1 := key _ h3 (by omega) h4
  have htrim : tryFromLeSlice bits (toLeBytesTrimmedVec bits a) = .ok a := by
    unfold toLeBytesTrimmedVec asLeBytesTrimmed asLeBytes
    apply key _ (trimEnd_allByte _ h3) (le_trans (trimEnd_length_le _) (by omega))
    rw [ofLE, wordOfLE_trimEnd]; exact h4
  refine ⟨k1, htrim, ?_, ?_⟩
  · unfold fromLeSlice toLeBytesVec asLeBytes; rw [k1]
  · intro bs hbs
    unfold toLeBytes at hbs
    simp only [if_true] at hbs
    have : bs = asLeSlice bits a := by simpa using hbs.symm
    subst this
    unfold fromLeBytes fromLeSlice
    rw [if_pos h1, k1]

/-- decoding any of the big-endian encodings returns the value. -/
theorem be_round_trip (bits : ℕ) (a : List ℕ) (ha : Canon bits a) :
    tryFromBeSlice bits (toBeBytesVec bits a) = .ok a
    ∧ tryFromBeSlice bits (toBeBytesTrimmedVec bits a) = .ok a
    ∧ fromBeSlice bits (toBeBytesVec bits a) = .ok a
    ∧ (∀ bs, toBeBytes bits (nbytes bits) a = some bs → fromBeBytes bits bs = .ok a) := by
  obtain ⟨l1, l2, _, _⟩ := le_round_trip bits a ha
  obtain ⟨h1, _, h3, _⟩ := as_le_slice_spec bits a ha
  have k1 : tryFromBeSlice bits (toBeBytesVec bits a) = .ok a := by
    unfold toBeBytesVec toLeBytesVec asLeBytes
    rw [tryFromBeSlice_eq_le _ _ h3.reverse, List.reverse_reverse]; exact l1
  have k2 : tryFromBeSlice bits (toBeBytesTrimmedVec bits a) = .ok a := by
    unfold toBeBytesTrimmedVec
    have hb : AllByte (toLeBytesTrimmedVec bits a) := trimEnd_allByte _ h3
    rw [tryFromBeSlice_eq_le _ _ hb.reverse, List.reverse_reverse]; exact l2
  refine ⟨k1, k2, ?_, ?_⟩
  · unfold fromBeSlice; rw [k1]
  · intro bs hbs
    unfold toBeBytes toLeBytes at hbs
    simp only [if_true, Option.map_some] at hbs
    have : bs = (asLeSlice bits a).reverse := by simpa using hbs.symm
    subst this
    unfold fromBeBytes fromBeSlice
    have e : tryFromBeSlice bits (asLeSlice bits a).reverse = .ok a := k1
    rw [if_pos (by simp [h1]), e]

/-! ## the defect of the pinned tree, as a theorem about the pre-fix model -/

/-- before the fix the whole-limb fast path constructed the value with the asserting `from_limbs`:
    a full-length 60-bit input with excess high bits panicked instead of returning `None`. -/
theorem old_fast_path_panics : tryFromBeSliceOld 60 (List.replicate 8 255) = .panic := by
  decide +kernel

/-! Non-vacuity: concrete instances evaluated by the kernel (both paths, accept and reject). -/
example : tryFromBeSlice 60 (List.replicate 8 255) = .none := by decide +kernel
example : tryFromBeSlice 60 (15 :: List.replicate 7 255) = .ok [2 ^ 60 - 1] := by decide +kernel
example : tryFromLeSlice 12 [0xff, 0x0f] = .ok [0xfff] ∧ tryFromLeSlice 12 [0, 0x10] = .none := by
  decide +kernel
example : toBeBytesTrimmedVec 65 [0x100, 0] = [1, 0] := by decide +kernel


/-! ## Tie of `nbytes` to the source (G)

`Ruint.Gen.nbytes` is regenerated from `src/bytes.rs` by `tools/rs2lean.py` on every run; it equals the `BYTES` every
statement of this file uses (no `usize` overflow below `2^64 − 7`). -/
theorem gen_nbytes_eq (bits : ℕ) (h : bits + 7 < 2 ^ 64) : Ruint.Gen.nbytes bits = Ruint.Bytes.nbytes bits := by
  unfold Ruint.Gen.nbytes Ruint.Bytes.nbytes
  rs_norm
  rw [Nat.mod_eq_of_lt h]

/-! ### the byte-slice decoders regenerated whole from `src/bytes.rs` (`Gen/WordsBytes.lean`)

`try_from_le_slice` / `try_from_be_slice` — the functions every codec decoder funnels into — as the source defines them
(length guard, full-limb fast path with its range check, byte accumulation loop, `from_limbs` with its `assert!`), translated
on every run, equal the models above for every width below `2^64 - 7` bits and every byte string. The two raw-pointer word
reads of the fast paths are declared rewrites to `Rs.leWord` / `Rs.beWord` (trusted, `Gen/PreludeBytes.lean`). -/

theorem gen_try_from_le_slice_eq (bits : ℕ) (hN : nlimbs bits < 2 ^ 60) (hB : bits + 7 < 2 ^ 64) (bytes : List ℕ)
    (hb : AllByte bytes) (f : ℕ) (hf : nlimbs bits + bytes.length + 1 < f) :
    Ruint.GenBytes.toRes (Ruint.Gen.uint_try_from_le_slice f bits (nlimbs bits) bytes) = tryFromLeSlice bits bytes :=
  Ruint.GenBytes.try_from_le_slice_eq bits hN hB bytes hb f hf

theorem gen_try_from_be_slice_eq (bits : ℕ) (hN : nlimbs bits < 2 ^ 60) (hB : bits + 7 < 2 ^ 64) (bytes : List ℕ)
    (hb : AllByte bytes) (f : ℕ) (hf : nlimbs bits + bytes.length + 1 < f) :
    Ruint.GenBytes.toRes (Ruint.Gen.uint_try_from_be_slice f bits (nlimbs bits) bytes) = tryFromBeSlice bits bytes :=
  Ruint.GenBytes.try_from_be_slice_eq bits hN hB bytes hb f hf

/-- hence the decoders as the source defines them never reach the `assert!` of `from_limbs`, whatever the input -/
theorem gen_try_from_slice_never_panics (bits : ℕ) (hN : nlimbs bits < 2 ^ 60) (hB : bits + 7 < 2 ^ 64) (bytes : List ℕ)
    (hb : AllByte bytes) (f : ℕ) (hf : nlimbs bits + bytes.length + 1 < f) :
    Ruint.Gen.uint_try_from_le_slice f bits (nlimbs bits) bytes ≠ none
      ∧ Ruint.Gen.uint_try_from_be_slice f bits (nlimbs bits) bytes ≠ none := by
  have h := try_from_slice_never_panics bits bytes hb
  rw [← gen_try_from_le_slice_eq bits hN hB bytes hb f hf, ← gen_try_from_be_slice_eq bits hN hB bytes hb f hf] at h
  constructor
  · intro e; rw [e] at h; exact h.1 rfl
  · intro e; rw [e] at h; exact h.2 rfl

/-! ## The trimming helpers of `src/utils.rs` as regenerated from the source (G)

`as_le_bytes_trimmed` / `to_*_bytes_trimmed_vec` cut trailing zero bytes with `utils::trim_end_slice` / `trim_end_vec`, which are
`&slice[..last_idx(slice, value)]` with `last_idx = rposition(|b| b != value).map_or(0, |i| i + 1)`; `rem_up` is the byte count of
the top limb used by the codecs. The generated definitions have exactly that shape. -/

theorem gen_utils_shapes (l : List ℕ) (v a b : ℕ) :
    Ruint.Gen.utils_trim_end_slice l v = l.take (Ruint.Gen.utils_last_idx l v)
    ∧ Ruint.Gen.utils_last_idx l v = (match Rs.rposition (fun x => x != v) l with | some i => Rs.wadd 64 i 1 | none => 0)
    ∧ Ruint.Gen.utils_rem_up a b = (if decide (a % b > 0) then a % b else b) :=
  ⟨rfl, rfl, rfl⟩

/-- WHAT the generated `trim_end_slice` computes, for every slice and every value: the input is the result followed by copies
    of `value`, and the result does not end in `value` — i.e. exactly the trailing run of `value` is removed (these two facts
    determine the result uniquely). -/
theorem gen_trim_end_slice_spec (l : List ℕ) (v : ℕ) (h : l.length < 2 ^ 64) :
    l = Ruint.Gen.utils_trim_end_slice l v
          ++ List.replicate (l.length - (Ruint.Gen.utils_trim_end_slice l v).length) v
    ∧ (Ruint.Gen.utils_trim_end_slice l v).getLast? ≠ some v := by
  unfold Ruint.Gen.utils_trim_end_slice
  rw [Ruint.TrimEnd.gen_last_idx_eq l v h]
  refine ⟨?_, Ruint.TrimEnd.take_last v l⟩
  have hl : (l.take (Ruint.TrimEnd.idx v l)).length = Ruint.TrimEnd.idx v l := by
    rw [List.length_take]; exact Nat.min_eq_left (Ruint.TrimEnd.idx_le v l)
  rw [hl]
  exact Ruint.TrimEnd.take_append v l

/-- `trim_end_vec` (`vec.truncate(last_idx(vec, value))` through `&mut Vec<T>`), as generated, leaves in the vector what
    `trim_end_slice` returns — so the two trimmed encoders built on them cannot drift apart. -/
theorem gen_trim_end_vec_eq_slice (l : List ℕ) (v : ℕ) :
    Ruint.Gen.utils_trim_end_vec l v = Ruint.Gen.utils_trim_end_slice l v := rfl

example : Ruint.Gen.utils_trim_end_vec [0, 1, 0, 1, 0, 0] 0 = [0, 1, 0, 1] ∧ Ruint.Gen.utils_trim_end_vec [0, 0] 0 = [] := by
  decide

end Ruint.C08
