import Ruint.Base
/-! C20 — facade parity. Placeholder: theorems added by g9. -/
namespace Ruint.C20

-- theorems added by g9

end Ruint.C20
