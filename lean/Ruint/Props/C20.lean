import Ruint.Lemmas.FacadeC
import Ruint.Lemmas.GenBinOps
import Ruint.Gen.WordsFacade
import Ruint.Gen.WordsBitsFwd
import Ruint.Gen.WordsTraitMisc
import Ruint.Gen.WordsConv
import Ruint.Gen.WordsConv2

/-!
# C20 — operator, wrapper and trait facades agree with the inherent methods

The weight of this property is on the correspondence: harness `c20.rs` evaluates every facade entry
point (350 of them: 6 operator shapes × 8 operators, shifts by every primitive type and by `Uint`, the
`Bits` wrapper, num-traits, num-integer, subtle, `Sum`/`Product`, zeroize) **and** the corresponding
inherent method in the same process and the driver judges parity (including panic parity).
A pure forward has nothing to prove beyond that. The theorems below are for the facades that
compute something themselves (`Model/Facade.lean`): they equal the plain comparison / the inherent
method's value-level specification for every width and all operands.
-/
namespace Ruint.C20
open Ruint Ruint.Facade

/-- `ct_eq` (slice compare of the limbs) is `==` on the numbers. -/
theorem ct_eq_spec (bits : ℕ) (a b : List ℕ) (ha : Canon bits a) (hb : Canon bits b) :
    ctEq a b = decide (val a = val b) := by
  have h1 := ctEq_iff a b
  have h2 : a = b ↔ val a = val b :=
    ⟨fun h => by rw [h], fun h => val_inj a b (by rw [ha.1, hb.1]) ha.2.1 hb.2.1 h⟩
  rw [Bool.eq_iff_iff, h1, h2]; simp

/-- `ct_gt`: the big-endian limb scan with the `(equal, greater)` flags is `>` on the numbers. -/
theorem ct_gt_spec (bits : ℕ) (a b : List ℕ) (ha : Canon bits a) (hb : Canon bits b) :
    ctGt a b = decide (val a > val b) :=
  ctGt_eq a b (by rw [ha.1, hb.1]) ha.2.1 hb.2.1

/-- `ct_lt` is `<` on the numbers. -/
theorem ct_lt_spec (bits : ℕ) (a b : List ℕ) (ha : Canon bits a) (hb : Canon bits b) :
    ctLt a b = decide (val a < val b) :=
  ctLt_eq a b (by rw [ha.1, hb.1]) ha.2.1 hb.2.1

/-- `conditional_select(a, b, choice)` is `if choice { b } else { a }` (limb for limb, so canonical). -/
theorem conditional_select_spec (bits : ℕ) (a b : List ℕ) (c : Bool) (ha : Canon bits a) (hb : Canon bits b) :
    conditionalSelect a b c = if c then b else a :=
  conditionalSelect_eq a b c (by rw [ha.1, hb.1])

/-- `bit_ct` agrees with `bit` on its documented domain `index < BITS`; outside it panics (`none`)
    while `bit` returns `false` — the documented divergence recorded in the evidence. -/
theorem bit_ct_spec (bits : ℕ) (a : List ℕ) (i : ℕ) :
    (i < bits → bitCt bits a i = some (bit bits a i))
    ∧ (bits ≤ i → bitCt bits a i = none ∧ bit bits a i = false) := by
  refine ⟨bitCt_eq bits a i, fun h => ?_⟩
  unfold bitCt bit
  rw [if_neg (by omega), if_pos (by omega)]
  exact ⟨rfl, rfl⟩

/-- `a << b` / `a >> b` with a `Uint` amount `b` (own logic in `src/bits.rs`: width-0 shortcut, "any higher limb
    set" test, low limb as `usize`) shift by the VALUE of `b`: zero from `BITS` on, in particular for every
    amount of `2^64` or more. -/
theorem shift_by_uint_spec (bits a : ℕ) (rhs : List ℕ) (hb : bits < 2 ^ 64) (ha : a < 2 ^ bits) :
    shlUint bits a rhs = wshl bits a (val rhs) ∧ shrUint bits a rhs = wshr bits a (val rhs) :=
  shiftUint_eq bits a rhs hb ha

/-- `Integer::is_multiple_of` is divisibility, including the zero divisor (`0 ∣ a ↔ a = 0`). -/
theorem is_multiple_of_spec (a b : ℕ) : isMultipleOf a b = true ↔ b ∣ a := isMultipleOf_iff a b

/-- `is_odd` / `is_even` (through `bit(0)`) are the parity of the number at every non-empty width. -/
theorem is_odd_spec (bits a : ℕ) (h : 0 < bits) :
    isOdd bits a = decide (a % 2 = 1) ∧ isEven bits a = decide (a % 2 = 0) := by
  unfold isEven isOdd
  rw [if_neg (by omega)]
  refine ⟨rfl, ?_⟩
  by_cases h1 : a % 2 = 1
  · simp [h1]
  · have : a % 2 = 0 := by omega
    simp [this]

/-- `MulAdd::mul_add(x, a, b)` (two wrapping operators) is `x·a + b mod 2^bits`. -/
theorem mul_add_spec (bits x a b : ℕ) : mulAdd bits x a b = (x * a + b) % 2 ^ bits := mulAdd_eq bits x a b

/-- `PrimInt::pow(a, e: u32)` is `a^e mod 2^bits` for EVERY `u32` exponent, also one that is not representable
    at the width (`bits < 32`), where the inherent `pow` cannot even be called (repaired code; the facade
    used to panic there in `Uint::from(e)`). -/
theorem pow_u32_spec (bits a e : ℕ) (ha : a < 2 ^ bits) : powU32 bits a e = a ^ e % 2 ^ bits :=
  powU32_eq bits a e ha

/-- trait default `prev_multiple_of`: the greatest multiple of `b` not above `a`; panics iff `b = 0`. -/
theorem prev_multiple_of_spec (bits a b : ℕ) (ha : a < 2 ^ bits) :
    (0 < b → ∃ r, prevMultipleOf bits a b = some r ∧ b ∣ r ∧ r ≤ a ∧ a < r + b)
    ∧ (b = 0 → prevMultipleOf bits a b = none) := by
  refine ⟨fun hb => prevMultipleOf_spec bits a b hb ha, fun hb => ?_⟩
  subst hb; rfl

/-- trait default `next_multiple_of` (wrapping `+`): the least multiple `n` of `b` with `a ≤ n`,
    reduced modulo `2^bits` (so it is `n` itself whenever `n` fits); panics iff `b = 0`. -/
theorem next_multiple_of_spec (bits a b : ℕ) (ha : a < 2 ^ bits) (hb' : b < 2 ^ bits) :
    (0 < b → ∃ n, b ∣ n ∧ a ≤ n ∧ n < a + b ∧ nextMultipleOf bits a b = some (n % 2 ^ bits))
    ∧ (b = 0 → nextMultipleOf bits a b = none) := by
  refine ⟨fun hb => nextMultipleOf_spec bits a b hb ha hb', fun hb => ?_⟩
  subst hb; rfl

/-- `PrimInt::swap_bytes` (and `to_be`/`from_be` on a little-endian host) at byte-aligned widths:
    never fails, reverses the byte string, and is an involution. -/
theorem swap_bytes_spec (k v : ℕ) (hv : v < 2 ^ (8 * k)) :
    ∃ r, swapBytes (8 * k) v = some r ∧ r < 2 ^ (8 * k) ∧ leBytes k r = (leBytes k v).reverse
      ∧ swapBytes (8 * k) r = some v := swapBytes_spec k v hv

/-- `FromPrimitive::from_*` / `NumCast::from`: `Some(n)` exactly for `0 ≤ n < 2^bits`. -/
theorem from_prim_spec (bits : ℕ) (n : ℤ) :
    (0 ≤ n ∧ n < 2 ^ bits → fromPrim bits n = some n.toNat)
    ∧ (n < 0 ∨ 2 ^ bits ≤ n → fromPrim bits n = none) := by
  unfold fromPrim
  constructor
  · rintro ⟨h1, h2⟩
    rw [if_pos ⟨h1, by
      have : ((n.toNat : ℕ) : ℤ) < ((2 ^ bits : ℕ) : ℤ) := by push_cast; omega
      exact_mod_cast this⟩]
  · intro h
    rw [if_neg]
    rintro ⟨h1, h2⟩
    rcases h with h | h
    · omega
    · have : ((2 ^ bits : ℕ) : ℤ) ≤ ((n.toNat : ℕ) : ℤ) := by push_cast; omega
      have : 2 ^ bits ≤ n.toNat := by exact_mod_cast this
      omega

/-- `ToPrimitive::to_*`: `Some(a)` exactly when `a` fits the target's `cap` value bits. -/
theorem to_prim_spec (cap a : ℕ) : toPrim cap a = if a < 2 ^ cap then some a else none := rfl

/-- iterator `Product` is the wrapped mathematical product (at width 0 everything is 0). -/
theorem product_spec (bits : ℕ) (l : List ℕ) : product bits l = l.prod % 2 ^ bits := product_eq bits l

/-- iterator `Sum` is the wrapped mathematical sum. -/
theorem sum_spec (bits : ℕ) (l : List ℕ) : sum bits l % 2 ^ bits = l.sum % 2 ^ bits := by
  unfold sum
  rw [foldl_wadd, Nat.zero_add]

/-! Non-vacuity: concrete instances evaluated by the kernel (a 65-bit pair that differs only in the low
limb while the high limbs are equal; a pair ordered by the high limb against the low limb). -/
example : ctGt [5, 1] [7, 1] = false ∧ ctLt [5, 1] [7, 1] = true ∧ ctGt [0, 1] [W - 1, 0] = true := by
  decide +kernel
example : swapBytes 16 0x1234 = some 0x3412 ∧ swapBytes 12 0x123 = none := by decide +kernel
example : nextMultipleOf 8 0xfe 7 = some 3 ∧ prevMultipleOf 8 0x17 5 = some 0x14 := by decide +kernel

/-! ### the operator shapes of `impl_bin_op!` regenerated from `src/macros.rs` (`Gen/WordsBinOps.lean`)

Each of the six shapes (`a ∘ b`, `a ∘ &b`, `&a ∘ b`, `&a ∘ &b`, `a ∘= b`, `a ∘= &b`) of `+ - * / %` — the macro arms instantiated for
every invocation found in `src/add.rs`, `src/mul.rs`, `src/div.rs`, translated on every run — is the inherent wrapping method on
the same operands in the same order, panic outcome included; the inherent methods themselves are tied to the models in
C01 / C02 / C03. A swapped or substituted operand in one arm breaks this obligation whatever the inputs sampled. -/

theorem gen_bin_op_shapes (f bits L : Nat) (a b : List Nat) :
    (Ruint.Gen.op_add_assign_val f bits L a b = Ruint.Gen.uint_wrapping_add f bits L a b
      ∧ Ruint.Gen.op_add_assign_ref f bits L a b = Ruint.Gen.uint_wrapping_add f bits L a b
      ∧ Ruint.Gen.op_add_val_val f bits L a b = Ruint.Gen.uint_wrapping_add f bits L a b
      ∧ Ruint.Gen.op_add_val_ref f bits L a b = Ruint.Gen.uint_wrapping_add f bits L a b
      ∧ Ruint.Gen.op_add_ref_val f bits L a b = Ruint.Gen.uint_wrapping_add f bits L a b
      ∧ Ruint.Gen.op_add_ref_ref f bits L a b = Ruint.Gen.uint_wrapping_add f bits L a b)
    ∧ (Ruint.Gen.op_sub_assign_val f bits L a b = Ruint.Gen.uint_wrapping_sub f bits L a b
      ∧ Ruint.Gen.op_sub_assign_ref f bits L a b = Ruint.Gen.uint_wrapping_sub f bits L a b
      ∧ Ruint.Gen.op_sub_val_val f bits L a b = Ruint.Gen.uint_wrapping_sub f bits L a b
      ∧ Ruint.Gen.op_sub_val_ref f bits L a b = Ruint.Gen.uint_wrapping_sub f bits L a b
      ∧ Ruint.Gen.op_sub_ref_val f bits L a b = Ruint.Gen.uint_wrapping_sub f bits L a b
      ∧ Ruint.Gen.op_sub_ref_ref f bits L a b = Ruint.Gen.uint_wrapping_sub f bits L a b)
    ∧ (Ruint.Gen.op_mul_assign_val bits L a b = Ruint.Gen.uint_wrapping_mul bits L a b
      ∧ Ruint.Gen.op_mul_assign_ref bits L a b = Ruint.Gen.uint_wrapping_mul bits L a b
      ∧ Ruint.Gen.op_mul_val_val bits L a b = Ruint.Gen.uint_wrapping_mul bits L a b
      ∧ Ruint.Gen.op_mul_val_ref bits L a b = Ruint.Gen.uint_wrapping_mul bits L a b
      ∧ Ruint.Gen.op_mul_ref_val bits L a b = Ruint.Gen.uint_wrapping_mul bits L a b
      ∧ Ruint.Gen.op_mul_ref_ref bits L a b = Ruint.Gen.uint_wrapping_mul bits L a b)
    ∧ (Ruint.Gen.op_div_assign_val f bits L a b = Ruint.Gen.uint_wrapping_div f bits L a b
      ∧ Ruint.Gen.op_div_assign_ref f bits L a b = Ruint.Gen.uint_wrapping_div f bits L a b
      ∧ Ruint.Gen.op_div_val_val f bits L a b = Ruint.Gen.uint_wrapping_div f bits L a b
      ∧ Ruint.Gen.op_div_val_ref f bits L a b = Ruint.Gen.uint_wrapping_div f bits L a b
      ∧ Ruint.Gen.op_div_ref_val f bits L a b = Ruint.Gen.uint_wrapping_div f bits L a b
      ∧ Ruint.Gen.op_div_ref_ref f bits L a b = Ruint.Gen.uint_wrapping_div f bits L a b)
    ∧ (Ruint.Gen.op_rem_assign_val f bits L a b = Ruint.Gen.uint_wrapping_rem f bits L a b
      ∧ Ruint.Gen.op_rem_assign_ref f bits L a b = Ruint.Gen.uint_wrapping_rem f bits L a b
      ∧ Ruint.Gen.op_rem_val_val f bits L a b = Ruint.Gen.uint_wrapping_rem f bits L a b
      ∧ Ruint.Gen.op_rem_val_ref f bits L a b = Ruint.Gen.uint_wrapping_rem f bits L a b
      ∧ Ruint.Gen.op_rem_ref_val f bits L a b = Ruint.Gen.uint_wrapping_rem f bits L a b
      ∧ Ruint.Gen.op_rem_ref_ref f bits L a b = Ruint.Gen.uint_wrapping_rem f bits L a b) :=
  ⟨Ruint.GenBinOps.add_shapes f bits L a b, Ruint.GenBinOps.sub_shapes f bits L a b, Ruint.GenBinOps.mul_shapes bits L a b,
   Ruint.GenBinOps.div_shapes f bits L a b, Ruint.GenBinOps.rem_shapes f bits L a b⟩

/-! ## The num-traits / num-integer impls as regenerated from the source (G)

`Gen/WordsFacade.lean` holds one definition per method of every `impl … Trait for Uint<BITS, LIMBS>` block of
`src/support/num_traits.rs` and `src/support/num_integer.rs` that lies in the translated subset (62 methods; the file lists the
others). The theorems below state what each body is: the inherent method of the same meaning, applied to the same arguments in
the same order (`*_forwarders`), the same with the panic of the inherent method passed on (`*_panicking_forwarders`: `none` =
panic), with the `usize → u32` cast of the counting methods (`*_counts`), or a fixed small expression (`*_constants_and_steps`).
They are `rfl`-style facts about the regenerated text: an edit that redirects a facade to another method, swaps its arguments or
drops a cast changes the regenerated definition and breaks the proof. The inherent methods on the right are themselves
regenerated and tied to the models by C01–C06 / C03. -/

/-- each of these facade methods *is* the inherent method on the same arguments -/
theorem gen_facade_forwarders :
    (∀ (fuel : Nat) (BITS LIMBS : Nat) (self : List Nat) (other : List Nat), Ruint.Gen.nt_CheckedAdd_checked_add fuel BITS LIMBS self other = Ruint.Gen.uint_checked_add fuel BITS LIMBS self other)
    ∧ (∀ (fuel : Nat) (BITS LIMBS : Nat) (self : List Nat) (other : List Nat), Ruint.Gen.nt_CheckedMul_checked_mul fuel BITS LIMBS self other = Ruint.Gen.uint_checked_mul fuel BITS LIMBS self other)
    ∧ (∀ (fuel : Nat) (BITS LIMBS : Nat) (self : List Nat), Ruint.Gen.nt_CheckedNeg_checked_neg fuel BITS LIMBS self = Ruint.Gen.uint_checked_neg fuel BITS LIMBS self)
    ∧ (∀ (fuel : Nat) (BITS LIMBS : Nat) (self : List Nat) (other : Nat), Ruint.Gen.nt_CheckedShl_checked_shl fuel BITS LIMBS self other = Ruint.Gen.uint_checked_shl fuel BITS LIMBS self other)
    ∧ (∀ (fuel : Nat) (BITS LIMBS : Nat) (self : List Nat) (other : Nat), Ruint.Gen.nt_CheckedShr_checked_shr fuel BITS LIMBS self other = Ruint.Gen.uint_checked_shr fuel BITS LIMBS self other)
    ∧ (∀ (fuel : Nat) (BITS LIMBS : Nat) (self : List Nat) (other : List Nat), Ruint.Gen.nt_CheckedSub_checked_sub fuel BITS LIMBS self other = Ruint.Gen.uint_checked_sub fuel BITS LIMBS self other)
    ∧ (∀ (fuel : Nat) (BITS LIMBS : Nat) (self : List Nat), Ruint.Gen.nt_Inv_inv fuel BITS LIMBS self = Ruint.Gen.uint_inv_ring fuel BITS LIMBS self)
    ∧ (∀ (fuel : Nat) (BITS LIMBS : Nat) (self : List Nat) (v : List Nat), Ruint.Gen.nt_Saturating_saturating_add fuel BITS LIMBS self v = Ruint.Gen.uint_saturating_add fuel BITS LIMBS self v)
    ∧ (∀ (fuel : Nat) (BITS LIMBS : Nat) (self : List Nat) (v : List Nat), Ruint.Gen.nt_Saturating_saturating_sub fuel BITS LIMBS self v = Ruint.Gen.uint_saturating_sub fuel BITS LIMBS self v)
    ∧ (∀ (fuel : Nat) (BITS LIMBS : Nat) (self : List Nat), Ruint.Gen.nt_WrappingNeg_wrapping_neg fuel BITS LIMBS self = Ruint.Gen.uint_wrapping_neg fuel BITS LIMBS self)
    ∧ (∀ (fuel : Nat) (BITS LIMBS : Nat) (self : List Nat) (rhs : Nat), Ruint.Gen.nt_WrappingShl_wrapping_shl fuel BITS LIMBS self rhs = Ruint.Gen.uint_wrapping_shl fuel BITS LIMBS self rhs)
    ∧ (∀ (fuel : Nat) (BITS LIMBS : Nat) (self : List Nat) (rhs : Nat), Ruint.Gen.nt_WrappingShr_wrapping_shr fuel BITS LIMBS self rhs = Ruint.Gen.uint_wrapping_shr fuel BITS LIMBS self rhs)
    ∧ (∀ (fuel : Nat) (BITS LIMBS : Nat) (self : List Nat) (v : List Nat), Ruint.Gen.nt_OverflowingAdd_overflowing_add fuel BITS LIMBS self v = Ruint.Gen.uint_overflowing_add fuel BITS LIMBS self v)
    ∧ (∀ (fuel : Nat) (BITS LIMBS : Nat) (self : List Nat) (v : List Nat), Ruint.Gen.nt_OverflowingSub_overflowing_sub fuel BITS LIMBS self v = Ruint.Gen.uint_overflowing_sub fuel BITS LIMBS self v)
    ∧ (∀ (fuel : Nat) (BITS LIMBS : Nat) (self : List Nat) (v : List Nat), Ruint.Gen.nt_OverflowingMul_overflowing_mul fuel BITS LIMBS self v = Ruint.Gen.uint_overflowing_mul fuel BITS LIMBS self v)
    ∧ (∀ (fuel : Nat) (BITS LIMBS : Nat) (self : List Nat) (n : Nat), Ruint.Gen.nt_PrimInt_rotate_left fuel BITS LIMBS self n = Ruint.Gen.uint_rotate_left fuel BITS LIMBS self n)
    ∧ (∀ (fuel : Nat) (BITS LIMBS : Nat) (self : List Nat) (n : Nat), Ruint.Gen.nt_PrimInt_rotate_right fuel BITS LIMBS self n = Ruint.Gen.uint_rotate_right fuel BITS LIMBS self n)
    ∧ (∀ (fuel : Nat) (BITS LIMBS : Nat) (self : List Nat) (n : Nat), Ruint.Gen.nt_PrimInt_signed_shr fuel BITS LIMBS self n = Ruint.Gen.uint_arithmetic_shr fuel BITS LIMBS self n)
    ∧ (∀ (fuel : Nat) (BITS LIMBS : Nat) (self : List Nat), Ruint.Gen.nt_PrimInt_reverse_bits fuel BITS LIMBS self = Ruint.Gen.uint_reverse_bits fuel BITS LIMBS self)
    ∧ (∀ (BITS LIMBS : Nat) (self : List Nat), Ruint.Gen.ni_Integer_is_odd BITS LIMBS self = Ruint.Gen.uint_bit BITS LIMBS self 0) := by
  refine ⟨?_, ?_, ?_, ?_, ?_, ?_, ?_, ?_, ?_, ?_, ?_, ?_, ?_, ?_, ?_, ?_, ?_, ?_, ?_, ?_⟩ <;> intros <;> rfl

/-- facades of inherent methods that can panic (`none`): the result, panic included, is passed on unchanged -/
theorem gen_facade_panicking_forwarders :
    (∀ (fuel : Nat) (BITS LIMBS : Nat) (self : List Nat) (other : List Nat), Ruint.Gen.nt_CheckedDiv_checked_div fuel BITS LIMBS self other = Ruint.Gen.uint_checked_div fuel BITS LIMBS self other)
    ∧ (∀ (fuel : Nat) (BITS LIMBS : Nat) (self : List Nat) (other : List Nat), Ruint.Gen.nt_CheckedRem_checked_rem fuel BITS LIMBS self other = Ruint.Gen.uint_checked_rem fuel BITS LIMBS self other)
    ∧ (∀ (fuel : Nat) (BITS LIMBS : Nat) (self : List Nat) (v : List Nat), Ruint.Gen.nt_CheckedEuclid_checked_div_euclid fuel BITS LIMBS self v = Ruint.Gen.uint_checked_div fuel BITS LIMBS self v)
    ∧ (∀ (fuel : Nat) (BITS LIMBS : Nat) (self : List Nat) (v : List Nat), Ruint.Gen.nt_CheckedEuclid_checked_rem_euclid fuel BITS LIMBS self v = Ruint.Gen.uint_checked_rem fuel BITS LIMBS self v)
    ∧ (∀ (fuel : Nat) (BITS LIMBS : Nat) (self : List Nat) (v : List Nat), Ruint.Gen.nt_Euclid_div_euclid fuel BITS LIMBS self v = Ruint.Gen.uint_wrapping_div fuel BITS LIMBS self v)
    ∧ (∀ (fuel : Nat) (BITS LIMBS : Nat) (self : List Nat) (v : List Nat), Ruint.Gen.nt_Euclid_rem_euclid fuel BITS LIMBS self v = Ruint.Gen.uint_wrapping_rem fuel BITS LIMBS self v)
    ∧ (∀ (fuel : Nat) (BITS LIMBS : Nat) (self : List Nat) (other : List Nat), Ruint.Gen.ni_Integer_div_floor fuel BITS LIMBS self other = Ruint.Gen.uint_wrapping_div fuel BITS LIMBS self other)
    ∧ (∀ (fuel : Nat) (BITS LIMBS : Nat) (self : List Nat) (other : List Nat), Ruint.Gen.ni_Integer_mod_floor fuel BITS LIMBS self other = Ruint.Gen.uint_wrapping_rem fuel BITS LIMBS self other)
    ∧ (∀ (fuel : Nat) (BITS LIMBS : Nat) (self : List Nat) (other : List Nat), Ruint.Gen.ni_Integer_div_rem fuel BITS LIMBS self other = Ruint.Gen.uint_div_rem fuel BITS LIMBS self other)
    ∧ (∀ (fuel : Nat) (BITS LIMBS : Nat) (self : List Nat) (other : List Nat), Ruint.Gen.ni_Integer_div_ceil fuel BITS LIMBS self other = Ruint.Gen.uint_div_ceil fuel BITS LIMBS self other)
    ∧ (∀ (fuel : Nat) (BITS LIMBS : Nat) (self : List Nat) (other : List Nat), Ruint.Gen.ni_Integer_div_mod_floor fuel BITS LIMBS self other = Ruint.Gen.uint_div_rem fuel BITS LIMBS self other) := by
  refine ⟨?_, ?_, ?_, ?_, ?_, ?_, ?_, ?_, ?_, ?_, ?_⟩ <;> intros <;> (first | rfl | (simp only [Ruint.Gen.nt_CheckedDiv_checked_div, Ruint.Gen.nt_CheckedRem_checked_rem, Ruint.Gen.nt_CheckedEuclid_checked_div_euclid, Ruint.Gen.nt_CheckedEuclid_checked_rem_euclid, Ruint.Gen.nt_Euclid_div_euclid, Ruint.Gen.nt_Euclid_rem_euclid, Ruint.Gen.ni_Integer_div_floor, Ruint.Gen.ni_Integer_mod_floor, Ruint.Gen.ni_Integer_div_rem, Ruint.Gen.ni_Integer_div_ceil, Ruint.Gen.ni_Integer_div_mod_floor]; split <;> simp_all))

/-- `FromBytes`: `try_from_{le,be}_slice(bytes).unwrap()` — a panic of the decoder or a `None` is a panic -/
theorem gen_facade_from_bytes :
    (∀ (fuel : Nat) (BITS LIMBS : Nat) (bytes : List Nat), Ruint.Gen.nt_FromBytes_from_le_bytes fuel BITS LIMBS bytes = (Ruint.Gen.uint_try_from_le_slice fuel BITS LIMBS bytes).join)
    ∧ (∀ (fuel : Nat) (BITS LIMBS : Nat) (bytes : List Nat), Ruint.Gen.nt_FromBytes_from_be_bytes fuel BITS LIMBS bytes = (Ruint.Gen.uint_try_from_be_slice fuel BITS LIMBS bytes).join) := by
  refine ⟨?_, ?_⟩ <;> intros <;> (simp only [Ruint.Gen.nt_FromBytes_from_le_bytes, Ruint.Gen.nt_FromBytes_from_be_bytes]; split <;> simp_all <;> split <;> simp_all)

/-- the counting methods of `PrimInt`: the inherent count cast to `u32` -/
theorem gen_facade_counts :
    (∀ (fuel : Nat) (BITS LIMBS : Nat) (self : List Nat), Ruint.Gen.nt_PrimInt_count_ones fuel BITS LIMBS self = Ruint.Gen.uint_count_ones fuel BITS LIMBS self % 2 ^ 32)
    ∧ (∀ (fuel : Nat) (BITS LIMBS : Nat) (self : List Nat), Ruint.Gen.nt_PrimInt_count_zeros fuel BITS LIMBS self = Ruint.Gen.uint_count_zeros fuel BITS LIMBS self % 2 ^ 32)
    ∧ (∀ (fuel : Nat) (BITS LIMBS : Nat) (self : List Nat), Ruint.Gen.nt_PrimInt_leading_zeros fuel BITS LIMBS self = Ruint.Gen.uint_leading_zeros fuel BITS LIMBS self % 2 ^ 32)
    ∧ (∀ (fuel : Nat) (BITS LIMBS : Nat) (self : List Nat), Ruint.Gen.nt_PrimInt_leading_ones fuel BITS LIMBS self = Ruint.Gen.uint_leading_ones fuel BITS LIMBS self % 2 ^ 32)
    ∧ (∀ (BITS LIMBS : Nat) (self : List Nat), Ruint.Gen.nt_PrimInt_trailing_zeros BITS LIMBS self = Ruint.Gen.uint_trailing_zeros BITS LIMBS self % 2 ^ 32)
    ∧ (∀ (BITS LIMBS : Nat) (self : List Nat), Ruint.Gen.nt_PrimInt_trailing_ones BITS LIMBS self = Ruint.Gen.uint_trailing_ones BITS LIMBS self % 2 ^ 32) := by
  refine ⟨?_, ?_, ?_, ?_, ?_, ?_⟩ <;> intros <;> rfl

/-- `Zero`, `One`, `Bounded`, `MulAdd`, `MulAddAssign`, `is_even`, `inc`, `dec` -/
theorem gen_facade_constants_and_steps :
    (∀ (BITS LIMBS : Nat), Ruint.Gen.nt_Zero_zero BITS LIMBS = (List.replicate LIMBS 0))
    ∧ (∀ (BITS LIMBS : Nat) (self : List Nat), Ruint.Gen.nt_Zero_is_zero BITS LIMBS self = (self == (List.replicate LIMBS 0)))
    ∧ (∀ (BITS LIMBS : Nat), Ruint.Gen.nt_One_one BITS LIMBS = (Ruint.toLimbs LIMBS (1 % 2 ^ BITS)))
    ∧ (∀ (BITS LIMBS : Nat), Ruint.Gen.nt_Bounded_min_value BITS LIMBS = (List.replicate LIMBS 0))
    ∧ (∀ (BITS LIMBS : Nat), Ruint.Gen.nt_Bounded_max_value BITS LIMBS = (Ruint.Gen.uint_masked BITS LIMBS (List.replicate LIMBS (2 ^ 64 - 1))))
    ∧ (∀ (fuel : Nat) (BITS LIMBS : Nat) (self : List Nat) (a : List Nat) (b : List Nat), Ruint.Gen.nt_MulAdd_mul_add fuel BITS LIMBS self a b = (Ruint.Gen.uint_wrapping_add fuel BITS LIMBS (Ruint.Gen.uint_wrapping_mul BITS LIMBS self a) b))
    ∧ (∀ (fuel : Nat) (BITS LIMBS : Nat) (self : List Nat) (a : List Nat) (b : List Nat), Ruint.Gen.nt_MulAddAssign_mul_add_assign fuel BITS LIMBS self a b = Ruint.Gen.uint_wrapping_add fuel BITS LIMBS (Ruint.Gen.uint_wrapping_mul BITS LIMBS self a) b)
    ∧ (∀ (BITS LIMBS : Nat) (self : List Nat), Ruint.Gen.ni_Integer_is_even BITS LIMBS self = (!(Ruint.Gen.uint_bit BITS LIMBS self 0)))
    ∧ (∀ (fuel : Nat) (BITS LIMBS : Nat) (self : List Nat), Ruint.Gen.ni_Integer_dec fuel BITS LIMBS self = (Ruint.Gen.uint_wrapping_sub fuel BITS LIMBS self (Ruint.toLimbs LIMBS (1 % 2 ^ BITS))))
    ∧ (∀ (fuel : Nat) (BITS LIMBS : Nat) (self : List Nat), Ruint.Gen.ni_Integer_inc fuel BITS LIMBS self = (Ruint.Gen.uint_wrapping_add fuel BITS LIMBS self (Ruint.toLimbs LIMBS (1 % 2 ^ BITS)))) := by
  refine ⟨?_, ?_, ?_, ?_, ?_, ?_, ?_, ?_, ?_, ?_⟩ <;> intros <;> rfl

/-- `PrimInt::signed_shl` / `unsigned_shl` / `unsigned_shr`: the `Shl<usize>` / `Shr<usize>` operator impls (themselves
    `wrapping_shl` / `wrapping_shr`, `C05.gen_int_shift_shapes`) at the amount cast to `usize`. -/
theorem gen_facade_shift_operators :
    (∀ (fuel : Nat) (BITS LIMBS : Nat) (self : List Nat) (n : Nat),
        Ruint.Gen.nt_PrimInt_signed_shl fuel BITS LIMBS self n = Ruint.Gen.uint_wrapping_shl fuel BITS LIMBS self n)
    ∧ (∀ (fuel : Nat) (BITS LIMBS : Nat) (self : List Nat) (n : Nat),
        Ruint.Gen.nt_PrimInt_unsigned_shl fuel BITS LIMBS self n = Ruint.Gen.uint_wrapping_shl fuel BITS LIMBS self n)
    ∧ (∀ (fuel : Nat) (BITS LIMBS : Nat) (self : List Nat) (n : Nat),
        Ruint.Gen.nt_PrimInt_unsigned_shr fuel BITS LIMBS self n = Ruint.Gen.uint_wrapping_shr fuel BITS LIMBS self n) :=
  ⟨fun _ _ _ _ _ => rfl, fun _ _ _ _ _ => rfl, fun _ _ _ _ _ => rfl⟩

/-- `res.ok()`. -/
def okOpt {ε α : Type} : Except ε α → Option α
  | .ok v => some v
  | .error _ => none

/-- `ToPrimitive::to_{i64,u64,i128,u128}`: `self.try_into().ok()` — the `TryFrom<&Uint> for T` impl of the target type (tied to
    the C07 models by `C07.gen_to_int_eq` / `gen_to_128_eq`); `FromPrimitive::from_{i64,u64,i128,u128}`: `Self::try_from(n).ok()` —
    the `TryFrom<T> for Uint` impl of the source type (`C07.gen_try_from_u64_eq`, `gen_try_from_signed_eq`, …), its panic (`none`,
    the `from_limbs` assert — unreachable, C07) passed on. -/
theorem gen_facade_primitive_casts :
    (∀ (fuel BITS LIMBS : Nat) (self : List Nat),
        Ruint.Gen.nt_ToPrimitive_to_i64 fuel BITS LIMBS self = okOpt (Ruint.Gen.i64_try_from_uint fuel BITS LIMBS self))
    ∧ (∀ (fuel BITS LIMBS : Nat) (self : List Nat),
        Ruint.Gen.nt_ToPrimitive_to_u64 fuel BITS LIMBS self = okOpt (Ruint.Gen.u64_try_from_uint fuel BITS LIMBS self))
    ∧ (∀ (fuel BITS LIMBS : Nat) (self : List Nat),
        Ruint.Gen.nt_ToPrimitive_to_i128 fuel BITS LIMBS self = okOpt (Ruint.Gen.i128_try_from_uint fuel BITS LIMBS self))
    ∧ (∀ (fuel BITS LIMBS : Nat) (self : List Nat),
        Ruint.Gen.nt_ToPrimitive_to_u128 fuel BITS LIMBS self = okOpt (Ruint.Gen.u128_try_from_uint fuel BITS LIMBS self))
    ∧ (∀ (BITS LIMBS n : Nat),
        Ruint.Gen.nt_FromPrimitive_from_i64 BITS LIMBS n = (Ruint.Gen.uint_try_from_i64 BITS LIMBS n).map okOpt)
    ∧ (∀ (BITS LIMBS n : Nat),
        Ruint.Gen.nt_FromPrimitive_from_u64 BITS LIMBS n = (Ruint.Gen.uint_try_from_u64 BITS LIMBS n).map okOpt)
    ∧ (∀ (BITS LIMBS n : Nat),
        Ruint.Gen.nt_FromPrimitive_from_i128 BITS LIMBS n = (Ruint.Gen.uint_try_from_i128 BITS LIMBS n).map okOpt)
    ∧ (∀ (BITS LIMBS n : Nat),
        Ruint.Gen.nt_FromPrimitive_from_u128 BITS LIMBS n = (Ruint.Gen.uint_try_from_u128 BITS LIMBS n).map okOpt) := by
  refine ⟨?_, ?_, ?_, ?_, ?_, ?_, ?_, ?_⟩ <;> intros <;>
    simp only [Ruint.Gen.nt_ToPrimitive_to_i64, Ruint.Gen.nt_ToPrimitive_to_u64, Ruint.Gen.nt_ToPrimitive_to_i128,
      Ruint.Gen.nt_ToPrimitive_to_u128, Ruint.Gen.nt_FromPrimitive_from_i64, Ruint.Gen.nt_FromPrimitive_from_u64,
      Ruint.Gen.nt_FromPrimitive_from_i128, Ruint.Gen.nt_FromPrimitive_from_u128] <;>
    (split <;> simp_all [okOpt]) <;> (try (split <;> simp_all [okOpt]))

/-! ## The `forward!`ed methods of `Bits` as regenerated from the source (G)

`Gen/WordsBitsFwd.lean`: every line of every `forward! { … }` invocation in `src/bit_arr.rs` is matched against the arms of the
`forward!` macro as `macro_rules!` does (receiver form, `const` / `unsafe`, literal return type or `$res` wildcard, first match),
the arm's body is instantiated and translated with `Bits` read as the transparent wrapper it is (`self.0`, `.into()`,
`Bits::from`, `Bits(..)` are the identity — a declared modelling decision). Each is the `Uint` method of the same name on the
same arguments (the eight byte-array / limb-reference methods are outside the subset and listed in the generated file). -/

theorem gen_bits_forwarders :
    (∀ (fuel : Nat) (BITS LIMBS : Nat) (self : List Nat), Ruint.Gen.bits_reverse_bits fuel BITS LIMBS self = Ruint.Gen.uint_reverse_bits fuel BITS LIMBS self)
    ∧ (∀ (fuel : Nat) (BITS LIMBS : Nat) (self : List Nat), Ruint.Gen.bits_leading_zeros fuel BITS LIMBS self = Ruint.Gen.uint_leading_zeros fuel BITS LIMBS self)
    ∧ (∀ (fuel : Nat) (BITS LIMBS : Nat) (self : List Nat), Ruint.Gen.bits_leading_ones fuel BITS LIMBS self = Ruint.Gen.uint_leading_ones fuel BITS LIMBS self)
    ∧ (∀ (BITS LIMBS : Nat) (self : List Nat), Ruint.Gen.bits_trailing_zeros BITS LIMBS self = Ruint.Gen.uint_trailing_zeros BITS LIMBS self)
    ∧ (∀ (BITS LIMBS : Nat) (self : List Nat), Ruint.Gen.bits_trailing_ones BITS LIMBS self = Ruint.Gen.uint_trailing_ones BITS LIMBS self)
    ∧ (∀ (fuel : Nat) (BITS LIMBS : Nat) (self : List Nat) (rhs : Nat), Ruint.Gen.bits_checked_shl fuel BITS LIMBS self rhs = Ruint.Gen.uint_checked_shl fuel BITS LIMBS self rhs)
    ∧ (∀ (fuel : Nat) (BITS LIMBS : Nat) (self : List Nat) (rhs : Nat), Ruint.Gen.bits_checked_shr fuel BITS LIMBS self rhs = Ruint.Gen.uint_checked_shr fuel BITS LIMBS self rhs)
    ∧ (∀ (fuel : Nat) (BITS LIMBS : Nat) (self : List Nat) (rhs : Nat), Ruint.Gen.bits_overflowing_shl fuel BITS LIMBS self rhs = Ruint.Gen.uint_overflowing_shl fuel BITS LIMBS self rhs)
    ∧ (∀ (fuel : Nat) (BITS LIMBS : Nat) (self : List Nat) (rhs : Nat), Ruint.Gen.bits_overflowing_shr fuel BITS LIMBS self rhs = Ruint.Gen.uint_overflowing_shr fuel BITS LIMBS self rhs)
    ∧ (∀ (fuel : Nat) (BITS LIMBS : Nat) (self : List Nat) (rhs : Nat), Ruint.Gen.bits_wrapping_shl fuel BITS LIMBS self rhs = Ruint.Gen.uint_wrapping_shl fuel BITS LIMBS self rhs)
    ∧ (∀ (fuel : Nat) (BITS LIMBS : Nat) (self : List Nat) (rhs : Nat), Ruint.Gen.bits_wrapping_shr fuel BITS LIMBS self rhs = Ruint.Gen.uint_wrapping_shr fuel BITS LIMBS self rhs)
    ∧ (∀ (fuel : Nat) (BITS LIMBS : Nat) (self : List Nat) (rhs : Nat), Ruint.Gen.bits_rotate_left fuel BITS LIMBS self rhs = Ruint.Gen.uint_rotate_left fuel BITS LIMBS self rhs)
    ∧ (∀ (fuel : Nat) (BITS LIMBS : Nat) (self : List Nat) (rhs : Nat), Ruint.Gen.bits_rotate_right fuel BITS LIMBS self rhs = Ruint.Gen.uint_rotate_right fuel BITS LIMBS self rhs)
    ∧ (∀ (fuel : Nat) (BITS LIMBS : Nat) (bytes : List Nat), Ruint.Gen.bits_try_from_be_slice fuel BITS LIMBS bytes = Ruint.Gen.uint_try_from_be_slice fuel BITS LIMBS bytes)
    ∧ (∀ (fuel : Nat) (BITS LIMBS : Nat) (bytes : List Nat), Ruint.Gen.bits_try_from_le_slice fuel BITS LIMBS bytes = Ruint.Gen.uint_try_from_le_slice fuel BITS LIMBS bytes)
    ∧ (∀ (fuel : Nat) (BITS LIMBS : Nat) (src : List Nat) (radix : Nat), Ruint.Gen.bits_from_str_radix fuel BITS LIMBS src radix = Ruint.Gen.uint_from_str_radix fuel BITS LIMBS src radix)
    ∧ (∀ (BITS LIMBS : Nat) (limbs : List Nat), Ruint.Gen.bits_from_limbs BITS LIMBS limbs = Ruint.Gen.uint_from_limbs BITS LIMBS limbs) := by
  refine ⟨?_, ?_, ?_, ?_, ?_, ?_, ?_, ?_, ?_, ?_, ?_, ?_, ?_, ?_, ?_, ?_, ?_⟩ <;> intros <;>
    first
      | rfl
      | (simp only [Ruint.Gen.bits_try_from_be_slice, Ruint.Gen.bits_try_from_le_slice, Ruint.Gen.bits_from_limbs]; split <;> simp_all)

/-! ## The one-line trait impls of the core as regenerated from the source (G)

`Gen/WordsTraitMisc.lean`: `Neg` and `Not` (by value and by reference), `PartialOrd::partial_cmp`, `Default::default`,
`as_limbs`, `into_limbs`. Each is the inherent method / constant it is documented to be. -/

theorem gen_trait_misc_shapes (f bits L : ℕ) (a b : List ℕ) :
    Ruint.Gen.op_neg_val f bits L a = Ruint.Gen.uint_wrapping_neg f bits L a
    ∧ Ruint.Gen.op_neg_ref f bits L a = Ruint.Gen.uint_wrapping_neg f bits L a
    ∧ Ruint.Gen.op_not_val f bits L a = Ruint.Gen.uint_not f bits L a
    ∧ Ruint.Gen.op_not_ref f bits L a = Ruint.Gen.uint_not f bits L a
    ∧ Ruint.Gen.uint_partial_cmp f bits L a b = some (Ruint.Gen.uint_cmp f bits L a b)
    ∧ Ruint.Gen.uint_default bits L = List.replicate L 0
    ∧ Ruint.Gen.uint_as_limbs bits L a = a
    ∧ Ruint.Gen.uint_into_limbs bits L a = a :=
  ⟨rfl, rfl, rfl, rfl, rfl, rfl, rfl, rfl⟩

end Ruint.C20
