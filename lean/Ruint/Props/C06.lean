import Ruint.Lemmas.BitsRev
import Ruint.Lemmas.GenBits
import Ruint.Lemmas.GenBitsWrap
import Ruint.Lemmas.GenBitsIter
import Mathlib.Data.Nat.Size
import Ruint.Lemmas.GenUintModBits
import Ruint.Lemmas.GenBitOps

/-!
# C06 — bitwise logic, bit access and bit counting agree with the binary expansion

Property theorems only (helper lemmas live in `Lemmas/Bits.lean`, `Lemmas/BitsRev.lean`). Every theorem
quantifies over **all** widths `bits` (including 0, 1 and non-multiples of 64), all canonical values and
all indices. The binary expansion is `Nat.testBit (val a)`; `size x` is the number of significant bits
(`0` for `0`, else `⌊log₂ x⌋ + 1`); `bitCount n A` counts the set bits among positions `0..n-1`.
The model functions (`Ruint.Bits.*`, files `Model/Bits.lean`, `Model/BitsRev.lean`) are the ones the
correspondence driver executes against the real `Uint` methods and operators. The word primitives
(`clz64`, `ctz64`, `cto64`, `popcnt64`, `rev64`, `wnot`) have their own specs in `Lemmas/Bits.lean`
(`clz64_spec`, `ctz64_spec`, `popAux_eq_bitCount`, `rev64_testBit`); that the Rust `u64` intrinsics
match them is trusted and exercised by the correspondence.
-/
namespace Ruint.C06
open Ruint Ruint.Bits

/-- `!a` (method and both operator forms): canonical, value `2^bits − 1 − a`, i.e. exactly the low
    `bits` bits are inverted. -/
theorem not_spec (bits : ℕ) (a : List ℕ) (ha : Canon bits a) :
    Canon bits (Bits.not bits a)
    ∧ val (Bits.not bits a) = 2 ^ bits - 1 - val a
    ∧ ∀ i, (val (Bits.not bits a)).testBit i = (decide (i < bits) && !(val a).testBit i) := by
  obtain ⟨h1, h2⟩ := not_val bits a ha
  exact ⟨h1, h2, fun i => by rw [h2, testBit_not bits (val a) i ha.val_lt]⟩

/-- `&` (all six operator shapes): canonical, bit-by-bit conjunction. -/
theorem bitand_spec (bits : ℕ) (a b : List ℕ) (ha : Canon bits a) (hb : Canon bits b) :
    Canon bits (bitAnd a b)
    ∧ ∀ i, (val (bitAnd a b)).testBit i = ((val a).testBit i && (val b).testBit i) := by
  obtain ⟨h1, h2, h3⟩ := bitAnd_spec a b (by rw [ha.1, hb.1]) ha.2.1 hb.2.1
  refine ⟨⟨by rw [h2, ha.1], h3, ?_⟩, fun i => by rw [h1, Nat.testBit_and]⟩
  rw [h1]
  exact lt_of_le_of_lt Nat.and_le_left ha.val_lt

/-- `|` (all six operator shapes): canonical, bit-by-bit disjunction. -/
theorem bitor_spec (bits : ℕ) (a b : List ℕ) (ha : Canon bits a) (hb : Canon bits b) :
    Canon bits (bitOr a b)
    ∧ ∀ i, (val (bitOr a b)).testBit i = ((val a).testBit i || (val b).testBit i) := by
  obtain ⟨h1, h2, h3⟩ := bitOr_spec a b (by rw [ha.1, hb.1]) ha.2.1 hb.2.1
  refine ⟨⟨by rw [h2, ha.1], h3, ?_⟩, fun i => by rw [h1, Nat.testBit_or]⟩
  rw [h1]
  exact Nat.or_lt_two_pow ha.val_lt hb.val_lt

/-- `^` (all six operator shapes): canonical, bit-by-bit exclusive or. -/
theorem bitxor_spec (bits : ℕ) (a b : List ℕ) (ha : Canon bits a) (hb : Canon bits b) :
    Canon bits (bitXor a b)
    ∧ ∀ i, (val (bitXor a b)).testBit i = ((val a).testBit i ^^ (val b).testBit i) := by
  obtain ⟨h1, h2, h3⟩ := bitXor_spec a b (by rw [ha.1, hb.1]) ha.2.1 hb.2.1
  refine ⟨⟨by rw [h2, ha.1], h3, ?_⟩, fun i => by rw [h1, Nat.testBit_xor]⟩
  rw [h1]
  exact Nat.xor_lt_two_pow ha.val_lt hb.val_lt

/-- `bit(i)` reads exactly bit `i`; an index `≥ bits` reads `false`. -/
theorem bit_spec (bits : ℕ) (a : List ℕ) (i : ℕ) (ha : Canon bits a) :
    bit bits a i = (decide (i < bits) && (val a).testBit i) :=
  Bits.bit_spec bits a ha.2.1 i

/-- `set_bit(i, v)` writes exactly bit `i`; an index `≥ bits` writes nothing. -/
theorem set_bit_spec (bits : ℕ) (a : List ℕ) (i : ℕ) (v : Bool) (ha : Canon bits a) :
    Canon bits (setBit bits a i v)
    ∧ ∀ j, (val (setBit bits a i v)).testBit j
        = if j = i ∧ i < bits then v else (val a).testBit j :=
  setBit_spec bits a i v ha

/-- `byte(i)` is byte `i` of the value (`⌊a / 256^i⌋ mod 256`) and panics (`none`) exactly for
    `i ≥ BYTES = ⌈bits/8⌉`. -/
theorem byte_spec (bits : ℕ) (a : List ℕ) (i : ℕ) (ha : Canon bits a) :
    (i < (bits + 7) / 8 → byte bits a i = some (val a / 256 ^ i % 256))
    ∧ ((bits + 7) / 8 ≤ i → byte bits a i = none) := by
  unfold byte nbytes
  constructor
  · intro h; rw [if_pos h, byte_val a ha.2.1]
  · intro h; rw [if_neg (by omega)]

/-- `checked_byte(i)` is `Some(byte i)` for `i < BYTES` and `None` otherwise. -/
theorem checked_byte_spec (bits : ℕ) (a : List ℕ) (i : ℕ) (ha : Canon bits a) :
    (i < (bits + 7) / 8 → checkedByte bits a i = some (val a / 256 ^ i % 256))
    ∧ ((bits + 7) / 8 ≤ i → checkedByte bits a i = none) := by
  unfold checkedByte nbytes
  constructor
  · intro h; rw [if_pos h]; exact (byte_spec bits a i ha).1 h
  · intro h; rw [if_neg (by omega)]

/-- `leading_zeros = bits − (number of significant bits)` (includes the `MASK.leading_zeros()`
    correction at non-aligned widths and the all-zero case). -/
theorem leading_zeros_spec (bits : ℕ) (a : List ℕ) (ha : Canon bits a) :
    leadingZeros bits a = bits - size (val a) :=
  leadingZeros_spec bits a ha

/-- `bit_len` is the number of significant bits: `a < 2^bit_len`, and `2^(bit_len−1) ≤ a` for `a ≠ 0`. -/
theorem bit_len_spec (bits : ℕ) (a : List ℕ) (ha : Canon bits a) :
    bitLen bits a = size (val a)
    ∧ val a < 2 ^ bitLen bits a ∧ (val a ≠ 0 → 2 ^ (bitLen bits a - 1) ≤ val a) := by
  rw [bitLen_spec bits a ha]
  exact ⟨rfl, size_bounds (val a)⟩

theorem byte_len_spec (bits : ℕ) (a : List ℕ) (ha : Canon bits a) :
    byteLen bits a = (size (val a) + 7) / 8 := by
  unfold byteLen; rw [bitLen_spec bits a ha]

/-- `leading_ones` is the number of leading zeros of the complement `2^bits − 1 − a`. -/
theorem leading_ones_spec (bits : ℕ) (a : List ℕ) (ha : Canon bits a) :
    leadingOnes bits a = bits - size (2 ^ bits - 1 - val a) := by
  unfold leadingOnes
  obtain ⟨h1, h2⟩ := not_val bits a ha
  rw [leadingZeros_spec bits _ h1, h2]

/-- `trailing_zeros`: `bits` for zero; otherwise `2^tz` is the largest power of two dividing `a`. -/
theorem trailing_zeros_spec (bits : ℕ) (a : List ℕ) (ha : Canon bits a) :
    (val a = 0 → trailingZeros bits a = bits)
    ∧ (val a ≠ 0 → 2 ^ trailingZeros bits a ∣ val a ∧ ¬ 2 ^ (trailingZeros bits a + 1) ∣ val a) := by
  obtain ⟨h1, h2⟩ := trailingZeros_spec bits a ha
  refine ⟨h1, fun hne => ?_⟩
  obtain ⟨m, e, hm⟩ := h2 hne
  refine ⟨⟨m, e⟩, ?_⟩
  rintro ⟨q, hq⟩
  rw [pow_succ, Nat.mul_assoc] at hq
  have hp : 0 < 2 ^ trailingZeros bits a := by positivity
  have : m = 2 * q := Nat.eq_of_mul_eq_mul_left hp (by rw [← e, hq])
  omega

/-- `trailing_ones`: `2^to` is the largest power of two dividing `a + 1` (all `to` low bits are set and
    bit `to` is clear; `to = bits` exactly for `MAX`, whose successor is `2^bits`). -/
theorem trailing_ones_spec (bits : ℕ) (a : List ℕ) (ha : Canon bits a) :
    2 ^ trailingOnes bits a ∣ val a + 1 ∧ ¬ 2 ^ (trailingOnes bits a + 1) ∣ val a + 1 := by
  obtain ⟨m, e, hm⟩ := trailingOnes_spec bits a ha
  refine ⟨⟨m, e⟩, ?_⟩
  rintro ⟨q, hq⟩
  rw [pow_succ, Nat.mul_assoc] at hq
  have hp : 0 < 2 ^ trailingOnes bits a := by positivity
  have : m = 2 * q := Nat.eq_of_mul_eq_mul_left hp (by rw [← e, hq])
  omega

/-- `count_ones` is the number of set bits among the `bits` positions. -/
theorem count_ones_spec (bits : ℕ) (a : List ℕ) (ha : Canon bits a) :
    countOnes a = ((List.range bits).countP fun i => (val a).testBit i) :=
  countOnes_spec bits a ha

/-- `count_zeros` is the number of clear bits among the `bits` positions. -/
theorem count_zeros_spec (bits : ℕ) (a : List ℕ) (ha : Canon bits a) :
    countZeros bits a = ((List.range bits).countP fun i => !(val a).testBit i) := by
  unfold countZeros
  rw [countOnes_spec bits a ha]
  exact bitCount_compl bits (val a)

/-- `reverse_bits`: canonical, and bit `i` of the result is bit `bits−1−i` of the argument. -/
theorem reverse_bits_spec (bits : ℕ) (a : List ℕ) (ha : Canon bits a) :
    Canon bits (reverseBits bits a)
    ∧ ∀ i, (val (reverseBits bits a)).testBit i
        = (decide (i < bits) && (val a).testBit (bits - 1 - i)) :=
  reverseBits_spec bits a ha

/-- `is_power_of_two` ⇔ the value is `2^k` for some `k`. -/
theorem is_power_of_two_spec (bits : ℕ) (a : List ℕ) (ha : Canon bits a) :
    isPowerOfTwo a = true ↔ ∃ k, val a = 2 ^ k :=
  isPowerOfTwo_spec a ha.2.1

/-- `checked_next_power_of_two`: let `2^k` be the least power of two `≥ a` (it exists:
    `exists_least_pow`). The result is `Some(2^k)` if `2^k < 2^bits` and `None` otherwise. -/
theorem checked_next_power_of_two_spec (bits : ℕ) (a : List ℕ) (ha : Canon bits a) (k : ℕ)
    (hk1 : val a ≤ 2 ^ k) (hk2 : ∀ j, val a ≤ 2 ^ j → k ≤ j) :
    (k < bits → ∃ r, checkedNextPowerOfTwo bits a = some r ∧ Canon bits r ∧ val r = 2 ^ k)
    ∧ (bits ≤ k → checkedNextPowerOfTwo bits a = none) :=
  checkedNextPowerOfTwo_spec bits a ha k hk1 hk2

/-- `next_power_of_two` is the same value and panics (`none`) exactly when it does not fit. -/
theorem next_power_of_two_spec (bits : ℕ) (a : List ℕ) (ha : Canon bits a) (k : ℕ)
    (hk1 : val a ≤ 2 ^ k) (hk2 : ∀ j, val a ≤ 2 ^ j → k ≤ j) :
    (k < bits → ∃ r, nextPowerOfTwo bits a = some r ∧ Canon bits r ∧ val r = 2 ^ k)
    ∧ (bits ≤ k → nextPowerOfTwo bits a = none) :=
  checkedNextPowerOfTwo_spec bits a ha k hk1 hk2

/-- the hypothesis of the two theorems above is satisfiable for every value. -/
theorem next_power_of_two_exists (A : ℕ) : ∃ k, A ≤ 2 ^ k ∧ ∀ j, A ≤ 2 ^ j → k ≤ j :=
  exists_least_pow A

/-- `most_significant_bits = (⌊a / 2^e⌋, e)` with `e = max(bit_len − 64, 0)`: the top 64 significant
    bits and the matching exponent; hence `bits·2^e ≤ a < (bits+1)·2^e`, `bits < 2^64`, and
    `e = 0 ∨ 2^63 ≤ bits`. -/
theorem most_significant_bits_spec (bits : ℕ) (a : List ℕ) (ha : Canon bits a) :
    (mostSignificantBits a).2 = size (val a) - 64
    ∧ (mostSignificantBits a).1 = val a / 2 ^ (mostSignificantBits a).2
    ∧ (mostSignificantBits a).1 < 2 ^ 64
    ∧ ((mostSignificantBits a).2 = 0 ∨ 2 ^ 63 ≤ (mostSignificantBits a).1) := by
  obtain ⟨h1, h2⟩ := mostSignificantBits_spec a ha.2.1
  obtain ⟨b1, b2⟩ := size_bounds (val a)
  generalize (mostSignificantBits a).2 = e at *
  generalize (mostSignificantBits a).1 = b at *
  refine ⟨h1, h2, ?_, ?_⟩
  · rw [h2]
    apply Nat.div_lt_of_lt_mul
    rw [← pow_add]
    exact lt_of_lt_of_le b1 (Nat.pow_le_pow_right (by norm_num) (by omega))
  · by_cases he : e = 0
    · left; exact he
    · right
      have hne : val a ≠ 0 := by
        intro h0; rw [h0, size_zero] at h1; omega
      have b2 := b2 hne
      rw [h2, Nat.le_div_iff_mul_le (by positivity), ← pow_add]
      have : 63 + e = size (val a) - 1 := by omega
      rw [this]; exact b2

/-! Non-vacuity: concrete instances evaluated by the kernel on the model (non-aligned width 70:
top limb zero / masked top limb). -/
example : Canon 70 [5, 0] ∧ Canon 70 [W - 1, 63] := by
  refine ⟨⟨rfl, ?_, ?_⟩, ⟨rfl, ?_, ?_⟩⟩ <;> simp [AllLt, W]
example : leadingZeros 70 [5, 0] = 67 := by decide +kernel
example : trailingOnes 70 [W - 1, 63] = 70 := by decide +kernel
example : Bits.not 70 [5, 0] = [W - 6, 63] := by decide +kernel
example : reverseBits 70 [5, 0] = [0, 40] := by decide +kernel
example : checkedNextPowerOfTwo 70 [5, 0] = some [8, 0] := by decide +kernel
example : byte 70 [5, 0] 9 = none ∧ byte 70 [5, 0] 8 = some 0 := by decide +kernel

/-- `leading_zeros` in terms of the binary expansion: the top `lz` of the `bits` positions are clear
    and, unless the value is zero (`lz = bits`), the next one is set. -/
theorem leading_zeros_testBit (bits : ℕ) (a : List ℕ) (ha : Canon bits a) :
    leadingZeros bits a ≤ bits
    ∧ (∀ i, bits - leadingZeros bits a ≤ i → (val a).testBit i = false)
    ∧ (leadingZeros bits a < bits → (val a).testBit (bits - 1 - leadingZeros bits a) = true) := by
  rw [leading_zeros_spec bits a ha]
  have hle := size_le (val a) bits ha.val_lt
  obtain ⟨t1, t2⟩ := size_testBit (val a)
  refine ⟨by omega, fun i hi => t2 i (by omega), fun h => ?_⟩
  have hne : val a ≠ 0 := by
    intro h0; rw [h0, size_zero] at h; omega
  have : bits - 1 - (bits - size (val a)) = size (val a) - 1 := by omega
  rw [this]; exact t1 hne

/-- `leading_ones` in terms of the binary expansion: the top `lo` positions are set and, unless the
    value is `MAX` (`lo = bits`), the next one is clear. -/
theorem leading_ones_testBit (bits : ℕ) (a : List ℕ) (ha : Canon bits a) :
    leadingOnes bits a ≤ bits
    ∧ (∀ i, bits - leadingOnes bits a ≤ i → i < bits → (val a).testBit i = true)
    ∧ (leadingOnes bits a < bits → (val a).testBit (bits - 1 - leadingOnes bits a) = false) := by
  obtain ⟨n1, _, n3⟩ := not_spec bits a ha
  obtain ⟨z1, z2, z3⟩ := leading_zeros_testBit bits _ n1
  unfold leadingOnes
  refine ⟨z1, fun i hi hib => ?_, fun h => ?_⟩
  · have := z2 i hi
    rw [n3 i] at this
    simpa [hib] using this
  · have := z3 h
    rw [n3] at this
    have hlt : bits - 1 - leadingZeros bits (Bits.not bits a) < bits := by omega
    simpa [hlt] using this

/-- `trailing_zeros` in terms of the binary expansion: the low `tz` positions are clear and, unless the
    value is zero (`tz = bits`), position `tz` is set. -/
theorem trailing_zeros_testBit (bits : ℕ) (a : List ℕ) (ha : Canon bits a) :
    (∀ i, i < trailingZeros bits a → (val a).testBit i = false)
    ∧ (val a ≠ 0 → (val a).testBit (trailingZeros bits a) = true)
    ∧ (val a = 0 → trailingZeros bits a = bits) := by
  obtain ⟨h1, h2⟩ := trailingZeros_spec bits a ha
  by_cases h0 : val a = 0
  · refine ⟨fun i _ => by rw [h0]; exact Nat.zero_testBit i, fun h => absurd h0 h, h1⟩
  · obtain ⟨m, e, hm⟩ := h2 h0
    obtain ⟨p1, p2⟩ := testBit_pow_mul_odd (trailingZeros bits a) m hm
    rw [← e] at p1 p2
    exact ⟨p1, fun _ => p2, fun h => absurd h h0⟩

/-- `trailing_ones` in terms of the binary expansion: the low `to` positions are set and position `to`
    is clear (for `MAX`, `to = bits` and position `bits` is outside the word). -/
theorem trailing_ones_testBit (bits : ℕ) (a : List ℕ) (ha : Canon bits a) :
    trailingOnes bits a ≤ bits
    ∧ (∀ i, i < trailingOnes bits a → (val a).testBit i = true)
    ∧ (val a).testBit (trailingOnes bits a) = false := by
  obtain ⟨m, e, hm⟩ := trailingOnes_spec bits a ha
  obtain ⟨p1, p2⟩ := testBit_pow_mul_odd_pred (trailingOnes bits a) m hm
  have : 2 ^ trailingOnes bits a * m - 1 = val a := by omega
  rw [this] at p1 p2
  refine ⟨?_, p1, p2⟩
  by_contra hc
  push Not at hc
  have := p1 bits hc
  rw [val_testBit_lt bits a ha bits (le_refl _)] at this
  exact Bool.false_ne_true this

/-- `size` (the number of significant bits used in the statements above) is Mathlib's `Nat.size`. -/
theorem size_eq_natSize (x : ℕ) : size x = Nat.size x := by
  by_cases hx : x = 0
  · subst hx; simp [size]
  · obtain ⟨b1, b2⟩ := size_bounds x
    have b2 := b2 hx
    have h1 : Nat.size x ≤ size x := Nat.size_le.mpr b1
    have hs : size x ≠ 0 := by
      intro h0; rw [h0] at b1; simp at b1; exact hx b1
    have h2 : size x - 1 < Nat.size x := Nat.lt_size.mpr b2
    omega

/-! ## Whole-method tie to the source (G)

`Ruint.Gen.uint_bit`, `uint_set_bit`, `uint_not`, `uint_leading_zeros`, `uint_leading_ones`, `uint_count_ones`,
`uint_count_zeros`, `uint_bit_len`, `uint_byte_len` are regenerated from `src/bits.rs` by `tools/rs2lean.py` on every
run — the complete methods (range guards, `(limbs, bits)` split, the `while` loops, the downward scan of
`leading_zeros` with its early `return` and the `skipped + top - fixed` arithmetic in wrapping `usize`, `masked()`).
They are proved equal to the model for every width (`LIMBS < 2^57`, i.e. widths below `2^63` bits, so that the `usize`
bit counts of the source cannot wrap) and all canonical operands; the driver executes the generated methods. The
`u64` intrinsics `leading_zeros` / `count_ones` are the fixed prelude functions `Rs.clz` / `Rs.popcnt`, proved equal to
the model's word primitives. -/

theorem gen_bit_eq (bits : ℕ) (a : List ℕ) (i : ℕ) :
    Ruint.Gen.uint_bit bits (nlimbs bits) a i = bit bits a i := Ruint.GenBits.bit_eq bits _ a i

theorem gen_set_bit_eq (bits : ℕ) (a : List ℕ) (i : ℕ) (v : Bool) :
    Ruint.Gen.uint_set_bit bits (nlimbs bits) a i v = setBit bits a i v := Ruint.GenBits.set_bit_eq bits _ a i v

theorem gen_not_eq (bits : ℕ) (hN : nlimbs bits < 2 ^ 64) (a : List ℕ) (ha : Canon bits a) (f : ℕ) (hf : nlimbs bits < f) :
    Ruint.Gen.uint_not f bits (nlimbs bits) a = Bits.not bits a := Ruint.GenBits.not_eq bits hN a ha.1 f hf

theorem gen_leading_zeros_eq (bits : ℕ) (hN : nlimbs bits < 2 ^ 57) (a : List ℕ) (ha : Canon bits a) (f : ℕ)
    (hf : nlimbs bits < f) :
    Ruint.Gen.uint_leading_zeros f bits (nlimbs bits) a = leadingZeros bits a :=
  Ruint.GenBits.leading_zeros_eq bits hN a ha f hf

theorem gen_leading_ones_eq (bits : ℕ) (hN : nlimbs bits < 2 ^ 57) (a : List ℕ) (ha : Canon bits a) (f : ℕ)
    (hf : nlimbs bits < f) :
    Ruint.Gen.uint_leading_ones f bits (nlimbs bits) a = leadingOnes bits a :=
  Ruint.GenBits.leading_ones_eq bits hN a ha f hf

theorem gen_count_ones_eq (bits : ℕ) (hN : nlimbs bits < 2 ^ 57) (a : List ℕ) (ha : Canon bits a) (f : ℕ)
    (hf : nlimbs bits < f) :
    Ruint.Gen.uint_count_ones f bits (nlimbs bits) a = countOnes a :=
  Ruint.GenBits.count_ones_eq bits hN a ha.1 ha.2.1 f hf

theorem gen_count_zeros_eq (bits : ℕ) (hN : nlimbs bits < 2 ^ 57) (a : List ℕ) (ha : Canon bits a) (f : ℕ)
    (hf : nlimbs bits < f) :
    Ruint.Gen.uint_count_zeros f bits (nlimbs bits) a = countZeros bits a :=
  Ruint.GenBits.count_zeros_eq bits hN a ha f hf

theorem gen_bit_len_eq (bits : ℕ) (hN : nlimbs bits < 2 ^ 57) (a : List ℕ) (ha : Canon bits a) (f : ℕ)
    (hf : nlimbs bits < f) :
    Ruint.Gen.uint_bit_len f bits (nlimbs bits) a = bitLen bits a :=
  Ruint.GenBits.bit_len_eq bits hN a ha f hf

theorem gen_byte_len_eq (bits : ℕ) (hN : nlimbs bits < 2 ^ 57) (a : List ℕ) (ha : Canon bits a) (f : ℕ)
    (hf : nlimbs bits < f) :
    Ruint.Gen.uint_byte_len f bits (nlimbs bits) a = byteLen bits a :=
  Ruint.GenBits.byte_len_eq bits hN a ha f hf

theorem gen_is_power_of_two_eq (bits : ℕ) (hN : nlimbs bits < 2 ^ 57) (a : List ℕ) (ha : Canon bits a) :
    Ruint.Gen.uint_is_power_of_two (nlimbs bits + 1) bits (nlimbs bits) a = isPowerOfTwo a :=
  Ruint.GenBitsWrap.is_power_of_two_eq bits hN a ha

/-- `checked_next_power_of_two` of `src/special.rs` as generated (`is_power_of_two`, `bit_len`, `Self::ONE << exp`) -/
theorem gen_checked_next_power_of_two_eq (bits : ℕ) (hN : nlimbs bits < 2 ^ 57) (a : List ℕ) (ha : Canon bits a) :
    Ruint.Gen.uint_checked_next_power_of_two (nlimbs bits + 1) bits (nlimbs bits) a = checkedNextPowerOfTwo bits a :=
  Ruint.GenBitsWrap.checked_next_power_of_two_eq bits hN a ha

/-- `trailing_zeros`, `trailing_ones`, `most_significant_bits` as generated from `src/bits.rs` (iterator `position` /
    `rposition` with their closures, `map_or`, `unwrap_or`, the `u64` intrinsics `trailing_zeros` / `trailing_ones` /
    `leading_zeros` as the prelude's `Rs.ctz` / `Rs.clz`) equal the models; the driver runs them. -/
theorem gen_trailing_eq (bits : ℕ) (hN : nlimbs bits < 2 ^ 57) (a : List ℕ) (ha : Canon bits a) :
    Ruint.Gen.uint_trailing_zeros bits (nlimbs bits) a = trailingZeros bits a
    ∧ Ruint.Gen.uint_trailing_ones bits (nlimbs bits) a = trailingOnes bits a :=
  ⟨Ruint.GenBitsIter.trailing_zeros_eq bits hN a ha.1, Ruint.GenBitsIter.trailing_ones_eq bits hN a ha.1⟩

theorem gen_most_significant_bits_eq (bits : ℕ) (hN : nlimbs bits < 2 ^ 57) (a : List ℕ) (ha : Canon bits a) :
    Ruint.Gen.uint_most_significant_bits bits (nlimbs bits) a = mostSignificantBits a :=
  Ruint.GenBitsIter.most_significant_bits_eq bits hN a ha.1 ha.2.1

/-- `reverse_bits` as generated from `src/bits.rs` (`limbs.reverse()`, the `for limb in &mut self.limbs` loop over
    `u64::reverse_bits`, the final `>>=`) equals the model; the driver runs it. -/
theorem gen_reverse_bits_eq (bits : ℕ) (hN : nlimbs bits < 2 ^ 64) (a : List ℕ) (ha : Canon bits a) :
    Ruint.Gen.uint_reverse_bits (nlimbs bits + 1) bits (nlimbs bits) a = reverseBits bits a :=
  Ruint.GenBitsIter.reverse_bits_eq bits hN a ha.1

/-- `next_power_of_two` (`checked_next_power_of_two().unwrap()`: `none` = panic) as regenerated from `src/special.rs`
    equals the model. -/
theorem gen_next_power_of_two_eq (bits : ℕ) (hN : nlimbs bits < 2 ^ 57) (a : List ℕ) (ha : Canon bits a) :
    Ruint.Gen.uint_next_power_of_two (nlimbs bits + 1) bits (nlimbs bits) a = Ruint.Bits.nextPowerOfTwo bits a :=
  Ruint.GenUintMod.next_power_of_two_eq bits hN a ha

/-- the limb loop of `impl_bit_op!` (`BitOrAssign<&Uint>` etc., which the other five operator shapes forward to) as regenerated
    from `src/bits.rs` for `| & ^` equals the models of `bit_or_spec` / `bit_and_spec` / `bit_xor_spec`. -/
theorem gen_bit_op_assign_eq (bits L : ℕ) (a b : List ℕ) (ha : a.length = L) (hb : b.length = L) (hL : L < 2 ^ 64) (f : ℕ)
    (hf : L < f) :
    Ruint.Gen.uint_bitor_assign f bits L a b = Ruint.Bits.bitOr a b
    ∧ Ruint.Gen.uint_bitand_assign f bits L a b = Ruint.Bits.bitAnd a b
    ∧ Ruint.Gen.uint_bitxor_assign f bits L a b = Ruint.Bits.bitXor a b :=
  ⟨Ruint.GenBitOps.bitor_assign_eq bits L a b ha hb hL f hf, Ruint.GenBitOps.bitand_assign_eq bits L a b ha hb hL f hf,
   Ruint.GenBitOps.bitxor_assign_eq bits L a b ha hb hL f hf⟩

end Ruint.C06
