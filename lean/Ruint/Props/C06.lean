import Ruint.Model.BitsRev
namespace Ruint.C06
end Ruint.C06
