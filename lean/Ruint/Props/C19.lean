import Ruint.Lemmas.MacroLit
import Ruint.Lemmas.GenMacro
import Ruint.Lemmas.GenMacro2

/-!
# C19 — `uint!` literals equal run-time parsing of the same digits; bad literals are rejected

Property theorems only, about the model `Ruint.Macro.*` of `ruint-macro/src/lib.rs` that the correspondence driver
executes against the real macro (compile probes and direct calls of its private parsers).

A literal is `value ++ t :: bitsTxt` where `value = ⟨prefix⟩ ++ body` (`HasBase value base body`: prefix `0x`/`0o`/`0b`
or none), `body` consists of hexadecimal digit characters and `_` (`IsBody`), `t` is `U` or `B` and `bitsTxt` is a
non-empty run of decimal digits denoting a width `< 2^64`. `digitVals body` are the digit values, most significant
first. All statements hold for **every** such text: any number of digits, any width, any underscore placement.
-/
namespace Ruint.C19
open Ruint Ruint.Radix Ruint.Macro


/-- the suffix is recognised: right-most `U`/`B` followed by a `usize`; the hexadecimal-`B` rule does not apply. -/
theorem suffix_recognised (value body bitsTxt : List Char) (t : Char) (base : ℕ)
    (hbase : HasBase value base body) (hbody : IsBody body) (ht : t = 'U' ∨ t = 'B')
    (hne : bitsTxt ≠ []) (hdec : ∀ c ∈ bitsTxt, isDec c = true) (hn : decVal bitsTxt < 2 ^ 64)
    (hhexB : ¬ (t = 'B' ∧ base = 16 ∧ value.getLast? ≠ some '_')) :
    parseSuffix (value ++ t :: bitsTxt) = some (tyOf t, decVal bitsTxt, value) :=
  lit_suffix_recognised value body bitsTxt t base hbase hbody ht hne hdec hn hhexB

/-- **valid literal**: all digits below the base and the denoted value below `2^bits`. The macro expands to
    `<Uint|Bits>::<bits, nlimbs bits>::from_limbs(limbs)` where `limbs` is the canonical limb array of exactly that
    width whose value is the positional value of the digits — and the run-time parser (`from_str_radix`, C09 model) on
    the same digit text returns the same limbs. -/
theorem literal_valid (value body bitsTxt : List Char) (t : Char) (base : ℕ)
    (hbase : HasBase value base body) (hbody : IsBody body) (ht : t = 'U' ∨ t = 'B')
    (hne : bitsTxt ≠ []) (hdec : ∀ c ∈ bitsTxt, isDec c = true) (hn : decVal bitsTxt < 2 ^ 64)
    (hhexB : ¬ (t = 'B' ∧ base = 16 ∧ value.getLast? ≠ some '_'))
    (hvalid : ∀ d ∈ digitVals body, d < base)
    (hfit : Nat.ofDigits base (digitVals body).reverse < 2 ^ decVal bitsTxt) :
    ∃ limbs, transformLiteral (value ++ t :: bitsTxt) = .ok (tyOf t) (decVal bitsTxt) limbs
      ∧ Canon (decVal bitsTxt) limbs
      ∧ val limbs = Nat.ofDigits base (digitVals body).reverse
      ∧ fromStrRadix (decVal bitsTxt) base body = .ok limbs :=
  lit_literal_valid value body bitsTxt t base hbase hbody ht hne hdec hn hhexB hvalid hfit

/-- **value too large**: all digits valid but the denoted value is `≥ 2^bits`: compile-time error
    (`Value too large for …`). -/
theorem literal_too_large (value body bitsTxt : List Char) (t : Char) (base : ℕ)
    (hbase : HasBase value base body) (hbody : IsBody body) (ht : t = 'U' ∨ t = 'B')
    (hne : bitsTxt ≠ []) (hdec : ∀ c ∈ bitsTxt, isDec c = true) (hn : decVal bitsTxt < 2 ^ 64)
    (hhexB : ¬ (t = 'B' ∧ base = 16 ∧ value.getLast? ≠ some '_'))
    (hvalid : ∀ d ∈ digitVals body, d < base)
    (hbig : 2 ^ decVal bitsTxt ≤ Nat.ofDigits base (digitVals body).reverse) :
    transformLiteral (value ++ t :: bitsTxt) = .errLarge :=
  lit_literal_too_large value body bitsTxt t base hbase hbody ht hne hdec hn hhexB hvalid hbig

/-- **digit not valid in the base** (the first such digit, after digits that are fine; this includes a digit *equal*
    to the base): compile-time error (`Invalid digit … in base …`). -/
theorem literal_bad_digit (value pre post bitsTxt : List Char) (c t : Char) (base d : ℕ)
    (hbase : HasBase value base (pre ++ c :: post)) (hbody : IsBody (pre ++ c :: post)) (ht : t = 'U' ∨ t = 'B')
    (hne : bitsTxt ≠ []) (hdec : ∀ x ∈ bitsTxt, isDec x = true) (hn : decVal bitsTxt < 2 ^ 64)
    (hhexB : ¬ (t = 'B' ∧ base = 16 ∧ value.getLast? ≠ some '_'))
    (hpre : ∀ x ∈ digitVals pre, x < base) (hc : hexDigit c = some d) (hge : base ≤ d) :
    transformLiteral (value ++ t :: bitsTxt) = .errDigit c base :=
  lit_literal_bad_digit value pre post bitsTxt c t base d hbase hbody ht hne hdec hn hhexB hpre hc hge

/-! ## pass-through -/

/-- a token without `U`/`B` anywhere (ordinary numbers, ordinary suffixes such as `u8`, …) passes through. -/
theorem pass_no_suffix_letter (src : List Char) (h : ∀ c ∈ src, c ≠ 'U' ∧ c ≠ 'B') : transformLiteral src = .pass :=
  lit_pass_no_suffix_letter src h

/-- the text after the right-most `U`/`B` is not a `usize` (empty, not decimal, e.g. the closing quote of a string
    containing `U8`, or `≥ 2^64`): the token passes through. -/
theorem pass_not_a_width (value rest : List Char) (t : Char) (ht : t = 'U' ∨ t = 'B')
    (hr : ∀ c ∈ rest, c ≠ 'U' ∧ c ≠ 'B') (hw : parseUsize rest = none) :
    transformLiteral (value ++ t :: rest) = .pass :=
  lit_pass_not_a_width value rest t ht hr hw

/-- a hexadecimal literal that merely ends in `B<digits>` without a separating underscore passes through. -/
theorem pass_hex_B (body bitsTxt : List Char) (hdec : ∀ c ∈ bitsTxt, isDec c = true)
    (hu : ('0' :: 'x' :: body).getLast? ≠ some '_') :
    transformLiteral ('0' :: 'x' :: body ++ 'B' :: bitsTxt) = .pass :=
  lit_pass_hex_B body bitsTxt hdec hu

/-! ## the judgement the correspondence evaluates, for every text -/

/-- **for every literal text whatsoever** (any characters, any length): the model's outcome satisfies the property's
    judgement of the literal's *documented* shape, where the shape is recognised independently of the macro's parser
    (`Spec.Macro.shape`: trailing decimal digits, then `U`/`B`, then an integer-literal body — the same function the
    correspondence driver uses to judge the real macro's outcome):
    * no `U<digits>`/`B<digits>` at the end, or a hexadecimal literal merely ending in `B<digits>`: passes through;
    * `⟨prefix⟩⟨digits⟩[_]⟨U|B⟩⟨n⟩` with all digits below the base and value `< 2^n`: expands to the constant of width
      `n` whose limbs are `toLimbs (nlimbs n) value`;
    * otherwise (digit `≥` base, value `≥ 2^n`): a compile-time error raised by the macro. -/
theorem literal_judged (src : List Char) : JudgedShape (Spec.Macro.shape src) (transformLiteral src) :=
  transform_judged src

/-! ## the token walk -/

/-- non-literal tokens are untouched. -/
theorem walk_other (s : List Char) : transformTree (.other s) = .other s := by
  simp [transformTree]

/-- groups keep their delimiter and are transformed recursively, at any nesting depth. -/
theorem walk_group (d : ℕ) (ts : List Tok) : transformTree (.group d ts) = .group d (transformStream ts) := by
  simp [transformTree]

/-- a stream is transformed token by token, in order. -/
theorem walk_stream (t : Tok) (ts : List Tok) : transformStream (t :: ts) = transformTree t :: transformStream ts := by
  simp [transformStream]

/-- a literal that is not ours is left exactly as it was; one that is ours is replaced by its expansion. -/
theorem walk_literal (s : List Char) :
    (transformLiteral s = .pass → transformTree (.lit s) = .lit s)
    ∧ (transformLiteral s ≠ .pass → transformTree (.lit s) = .expanded (transformLiteral s)) := by
  constructor
  · intro h; simp [transformTree, h]
  · intro h
    unfold transformTree
    cases hh : transformLiteral s <;> simp_all

/-! ## non-vacuity -/

example : transformLiteral "0x10U256".toList = .ok .uint 256 [16, 0, 0, 0] := by decide +kernel
example : transformLiteral "1a_U64".toList = .errDigit 'a' 10 := by decide +kernel
example : transformLiteral "255_U8".toList = .ok .uint 8 [255] := by decide +kernel
example : transformLiteral "256_U8".toList = .errLarge := by decide +kernel
example : transformLiteral "0xAB5".toList = .pass := by decide +kernel
example : transformLiteral "0xA_B5".toList = .ok .bits 5 [10] := by decide +kernel
example : transformLiteral "18446744073709551616_U65".toList = .ok .uint 65 [0, 1] := by decide +kernel
example : transformLiteral "0_U0".toList = .ok .uint 0 [] := by decide +kernel
example : transformLiteral "12u8".toList = .pass := by decide +kernel
example : transformLiteral "\"U8\"".toList = .pass := by decide +kernel
example : HasBase "0x10".toList 16 "10".toList := HasBase.hex _
example : IsBody "1_000".toList := by unfold IsBody; decide

/-- `pad_limbs` of the proc macro — the step that decides "the literal's value is `≥ 2^bits`: compile error" (trim trailing zero
    limbs down to the limb count, pad up to it, then the length and top-limb test against the mask) — as regenerated from
    `ruint-macro/src/lib.rs` on every run equals the model of the theorems above, for every suffix width below `2^64 - 63` and
    every limb vector. -/
theorem gen_pad_limbs_eq (bits : ℕ) (hB : bits + 63 < 2 ^ 64) (limbs : List ℕ) (f : ℕ)
    (hf : limbs.length + nlimbs bits + 1 < f) :
    Ruint.Gen.macro_pad_limbs f bits limbs = padLimbs bits limbs :=
  Ruint.GenMacro.pad_limbs_eq bits hB limbs f hf

/-! ## Tie of `parse_digits` to the source (G)

`Ruint.Gen.macro_parse_digits` is regenerated from `ruint-macro/src/lib.rs` on every run: the byte-length test, `split_at(2)`
(which panics inside a multi-byte character: `none`), the `match` on the prefixes `"0x"`, `"0o"`, `"0b"`, the character loop with
its `match c` digit map (`char` range patterns, `c as u64 - '0' as u64`, `'_' => continue`, the two error returns), the
digit-against-base test and the `u128` multiply-accumulate over the limbs with the final `push(carry)`. Declared rewrites: the
two `format!` error strings are the codes `(0, c, 0)` / `(1, c, base)`. It is the model `parseDigits` that `transformLiteral`
(and the theorems above) are built on — for every literal text. -/

theorem gen_parse_digits_eq (cs : List Char) (hl : cs.length < 2 ^ 63) (f : ℕ) (hf : 2 * cs.length + 4 < f) :
    Ruint.GenMacro2.toRes (Ruint.Gen.macro_parse_digits f (cs.map Char.toNat)) = Ruint.Macro.parseDigits cs :=
  Ruint.GenMacro2.parse_digits_eq cs hl f hf

end Ruint.C19
