import Ruint.Lemmas.Macro

/-!
# C19 — `uint!` literals equal run-time parsing of the same digits; bad literals are rejected

Property theorems only, about the model `Ruint.Macro.*` of `ruint-macro/src/lib.rs` that the correspondence driver
executes against the real macro (compile probes and direct calls of its private parsers).

A literal is `value ++ t :: bitsTxt` where `value = ⟨prefix⟩ ++ body` (`HasBase value base body`: prefix `0x`/`0o`/`0b`
or none), `body` consists of hexadecimal digit characters and `_` (`IsBody`), `t` is `U` or `B` and `bitsTxt` is a
non-empty run of decimal digits denoting a width `< 2^64`. `digitVals body` are the digit values, most significant
first. All statements hold for **every** such text: any number of digits, any width, any underscore placement.
-/
namespace Ruint.C19
open Ruint Ruint.Radix Ruint.Macro

/-- the type named by the suffix letter -/
def tyOf (t : Char) : BaseType := if t = 'U' then .uint else .bits

/-- the suffix is recognised: right-most `U`/`B` followed by a `usize`; the hexadecimal-`B` rule does not apply. -/
theorem suffix_recognised (value body bitsTxt : List Char) (t : Char) (base : ℕ)
    (hbase : HasBase value base body) (hbody : IsBody body) (ht : t = 'U' ∨ t = 'B')
    (hne : bitsTxt ≠ []) (hdec : ∀ c ∈ bitsTxt, isDec c = true) (hn : decVal bitsTxt < 2 ^ 64)
    (hhexB : ¬ (t = 'B' ∧ base = 16 ∧ value.getLast? ≠ some '_')) :
    parseSuffix (value ++ t :: bitsTxt) = some (tyOf t, decVal bitsTxt, value) := by
  unfold parseSuffix
  rw [splitLast_spec value t bitsTxt ht (isDec_noUB bitsTxt hdec)]
  simp only [parseUsize_dec bitsTxt hne hdec hn]
  have hx := take_two_hex value body base hbase hbody
  have : ¬ ((if t = 'U' then BaseType.uint else BaseType.bits) = BaseType.bits ∧ value.take 2 = ['0', 'x']
      ∧ value.getLast? ≠ some '_') := by
    rintro ⟨h1, h2, h3⟩
    apply hhexB
    refine ⟨?_, hx.mp h2, h3⟩
    rcases ht with rfl | rfl
    · simp at h1
    · rfl
  simp only [this, if_false, tyOf]

/-- **valid literal**: all digits below the base and the denoted value below `2^bits`. The macro expands to
    `<Uint|Bits>::<bits, nlimbs bits>::from_limbs(limbs)` where `limbs` is the canonical limb array of exactly that
    width whose value is the positional value of the digits — and the run-time parser (`from_str_radix`, C09 model) on
    the same digit text returns the same limbs. -/
theorem literal_valid (value body bitsTxt : List Char) (t : Char) (base : ℕ)
    (hbase : HasBase value base body) (hbody : IsBody body) (ht : t = 'U' ∨ t = 'B')
    (hne : bitsTxt ≠ []) (hdec : ∀ c ∈ bitsTxt, isDec c = true) (hn : decVal bitsTxt < 2 ^ 64)
    (hhexB : ¬ (t = 'B' ∧ base = 16 ∧ value.getLast? ≠ some '_'))
    (hvalid : ∀ d ∈ digitVals body, d < base)
    (hfit : Nat.ofDigits base (digitVals body).reverse < 2 ^ decVal bitsTxt) :
    ∃ limbs, transformLiteral (value ++ t :: bitsTxt) = .ok (tyOf t) (decVal bitsTxt) limbs
      ∧ Canon (decVal bitsTxt) limbs
      ∧ val limbs = Nat.ofDigits base (digitVals body).reverse
      ∧ fromStrRadix (decVal bitsTxt) base body = .ok limbs := by
  obtain ⟨hb2, hb16⟩ := hbase.base_le
  have hbW : base < W := by unfold W; omega
  obtain ⟨l, d1, d2, d3⟩ := digitLoop_ok base hbW body [0] hbody
    (AllLt.cons W_pos AllLt.nil) hvalid
  have hv : val l = Nat.ofDigits base (digitVals body).reverse := by
    rw [d3, hornerFrom_eq]; simp
  obtain ⟨p1, _⟩ := padLimbs_spec (decVal bitsTxt) l d2
  obtain ⟨l2, q1, q2, q3⟩ := p1 (by rw [hv]; exact hfit)
  refine ⟨l2, ?_, q2, by rw [q3, hv], ?_⟩
  · unfold transformLiteral
    rw [suffix_recognised value body bitsTxt t base hbase hbody ht hne hdec hn hhexB]
    simp only [parseDigits_eq value body base hbase hbody, d1, q1]
  · have : ¬ base > 64 := by omega
    simp only [fromStrRadix, this, if_false, scan_body base (by omega) body hbody]
    rw [(fromBaseBE_ok_iff (decVal bitsTxt) base hb2 (digitVals body) l2).mpr ⟨hvalid, q2, by rw [q3, hv]⟩]

/-- **value too large**: all digits valid but the denoted value is `≥ 2^bits`: compile-time error
    (`Value too large for …`). -/
theorem literal_too_large (value body bitsTxt : List Char) (t : Char) (base : ℕ)
    (hbase : HasBase value base body) (hbody : IsBody body) (ht : t = 'U' ∨ t = 'B')
    (hne : bitsTxt ≠ []) (hdec : ∀ c ∈ bitsTxt, isDec c = true) (hn : decVal bitsTxt < 2 ^ 64)
    (hhexB : ¬ (t = 'B' ∧ base = 16 ∧ value.getLast? ≠ some '_'))
    (hvalid : ∀ d ∈ digitVals body, d < base)
    (hbig : 2 ^ decVal bitsTxt ≤ Nat.ofDigits base (digitVals body).reverse) :
    transformLiteral (value ++ t :: bitsTxt) = .errLarge := by
  obtain ⟨_, hb16⟩ := hbase.base_le
  have hbW : base < W := by unfold W; omega
  obtain ⟨l, d1, d2, d3⟩ := digitLoop_ok base hbW body [0] hbody
    (AllLt.cons W_pos AllLt.nil) hvalid
  have hv : val l = Nat.ofDigits base (digitVals body).reverse := by
    rw [d3, hornerFrom_eq]; simp
  obtain ⟨_, p2⟩ := padLimbs_spec (decVal bitsTxt) l d2
  unfold transformLiteral
  rw [suffix_recognised value body bitsTxt t base hbase hbody ht hne hdec hn hhexB]
  simp only [parseDigits_eq value body base hbase hbody, d1, p2 (by rw [hv]; exact hbig)]

/-- **digit not valid in the base** (the first such digit, after digits that are fine; this includes a digit *equal*
    to the base): compile-time error (`Invalid digit … in base …`). -/
theorem literal_bad_digit (value pre post bitsTxt : List Char) (c t : Char) (base d : ℕ)
    (hbase : HasBase value base (pre ++ c :: post)) (hbody : IsBody (pre ++ c :: post)) (ht : t = 'U' ∨ t = 'B')
    (hne : bitsTxt ≠ []) (hdec : ∀ x ∈ bitsTxt, isDec x = true) (hn : decVal bitsTxt < 2 ^ 64)
    (hhexB : ¬ (t = 'B' ∧ base = 16 ∧ value.getLast? ≠ some '_'))
    (hpre : ∀ x ∈ digitVals pre, x < base) (hc : hexDigit c = some d) (hge : base ≤ d) :
    transformLiteral (value ++ t :: bitsTxt) = .errDigit c base := by
  obtain ⟨_, hb16⟩ := hbase.base_le
  have hbW : base < W := by unfold W; omega
  have hpreB : IsBody pre := fun x hx => hbody x (by simp [hx])
  have := digitLoop_bad_digit base hbW pre c post [0] d hpreB (AllLt.cons W_pos AllLt.nil) hpre hc hge
  unfold transformLiteral
  rw [suffix_recognised value (pre ++ c :: post) bitsTxt t base hbase hbody ht hne hdec hn hhexB]
  simp only [parseDigits_eq value _ base hbase hbody, this]

/-! ## pass-through -/

/-- a token without `U`/`B` anywhere (ordinary numbers, ordinary suffixes such as `u8`, …) passes through. -/
theorem pass_no_suffix_letter (src : List Char) (h : ∀ c ∈ src, c ≠ 'U' ∧ c ≠ 'B') : transformLiteral src = .pass := by
  unfold transformLiteral parseSuffix
  rw [(splitLast_none_iff src).mpr h]

/-- the text after the right-most `U`/`B` is not a `usize` (empty, not decimal, e.g. the closing quote of a string
    containing `U8`, or `≥ 2^64`): the token passes through. -/
theorem pass_not_a_width (value rest : List Char) (t : Char) (ht : t = 'U' ∨ t = 'B')
    (hr : ∀ c ∈ rest, c ≠ 'U' ∧ c ≠ 'B') (hw : parseUsize rest = none) :
    transformLiteral (value ++ t :: rest) = .pass := by
  unfold transformLiteral parseSuffix
  rw [splitLast_spec value t rest ht hr]
  simp [hw]

/-- a hexadecimal literal that merely ends in `B<digits>` without a separating underscore passes through. -/
theorem pass_hex_B (body bitsTxt : List Char) (hdec : ∀ c ∈ bitsTxt, isDec c = true)
    (hu : ('0' :: 'x' :: body).getLast? ≠ some '_') :
    transformLiteral ('0' :: 'x' :: body ++ 'B' :: bitsTxt) = .pass := by
  have hs := splitLast_spec ('0' :: 'x' :: body) 'B' bitsTxt (Or.inr rfl) (isDec_noUB bitsTxt hdec)
  have hps : parseSuffix ('0' :: 'x' :: body ++ 'B' :: bitsTxt) = none := by
    unfold parseSuffix
    rw [hs]
    cases hp : parseUsize bitsTxt with
    | none => simp [hp]
    | some n =>
      have hu' : ¬ ('x' :: body).getLast? = some '_' := by simpa using hu
      simp [hp, hu']
  unfold transformLiteral
  rw [hps]

/-! ## the token walk -/

/-- non-literal tokens are untouched. -/
theorem walk_other (s : List Char) : transformTree (.other s) = .other s := by
  simp [transformTree]

/-- groups keep their delimiter and are transformed recursively, at any nesting depth. -/
theorem walk_group (d : ℕ) (ts : List Tok) : transformTree (.group d ts) = .group d (transformStream ts) := by
  simp [transformTree]

/-- a stream is transformed token by token, in order. -/
theorem walk_stream (t : Tok) (ts : List Tok) : transformStream (t :: ts) = transformTree t :: transformStream ts := by
  simp [transformStream]

/-- a literal that is not ours is left exactly as it was; one that is ours is replaced by its expansion. -/
theorem walk_literal (s : List Char) :
    (transformLiteral s = .pass → transformTree (.lit s) = .lit s)
    ∧ (transformLiteral s ≠ .pass → transformTree (.lit s) = .expanded (transformLiteral s)) := by
  constructor
  · intro h; simp [transformTree, h]
  · intro h
    unfold transformTree
    cases hh : transformLiteral s <;> simp_all

/-! ## non-vacuity -/

example : transformLiteral "0x10U256".toList = .ok .uint 256 [16, 0, 0, 0] := by decide +kernel
example : transformLiteral "1a_U64".toList = .errDigit 'a' 10 := by decide +kernel
example : transformLiteral "255_U8".toList = .ok .uint 8 [255] := by decide +kernel
example : transformLiteral "256_U8".toList = .errLarge := by decide +kernel
example : transformLiteral "0xAB5".toList = .pass := by decide +kernel
example : transformLiteral "0xA_B5".toList = .ok .bits 5 [10] := by decide +kernel
example : transformLiteral "18446744073709551616_U65".toList = .ok .uint 65 [0, 1] := by decide +kernel
example : transformLiteral "0_U0".toList = .ok .uint 0 [] := by decide +kernel
example : transformLiteral "12u8".toList = .pass := by decide +kernel
example : transformLiteral "\"U8\"".toList = .pass := by decide +kernel
example : HasBase "0x10".toList 16 "10".toList := HasBase.hex _
example : IsBody "1_000".toList := by unfold IsBody; decide

end Ruint.C19
