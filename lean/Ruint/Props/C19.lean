import Ruint.Model.Macro
import Ruint.Spec.Macro

namespace Ruint.C19
open Ruint Ruint.Macro

/-- the token walk leaves non-literal tokens untouched (placeholder while the lemma files are being written). -/
theorem transform_other (s : List Char) : transformTree (.other s) = .other s := by
  simp [transformTree]

end Ruint.C19
