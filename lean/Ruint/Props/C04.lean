import Ruint.Lemmas.History
import Ruint.Gen.GuardGraph
import Ruint.Lemmas.GenCore
import Ruint.Lemmas.GenCmp
import Ruint.Lemmas.GenUintModCanon
import Ruint.Lemmas.GenFls

/-!
# C04 — values stay canonical; `==`, `Hash`, `Ord` follow the number; ill-formed types are empty

Property theorems only, about the model functions the correspondence driver executes
(`Model/Canon.lean`, `Model/Cmp.lean`, `Model/History.lean`). All widths.

* (i)   `==`/`Hash` are functions of the limb array and canonical arrays are determined by their number;
* (ii)  `cmp`/`<`/`<=`/`min`/`max` (the reverse limb scan of `algorithms::cmp`) order by the number;
* (iii) constructors: `from_limbs` panics iff out of range, the `*_from_limbs_slice` family, `masked`;
* (iv)  closure: every modelled producer keeps the register file canonical, for every finite history;
* (v)   ill-formed `(BITS, LIMBS)`: the `LIMBS` const assertion, and — from the source, regenerated on every
        run — every public constant/constructor transitively mentions `Self::LIMBS` (guard graph).
-/
namespace Ruint.C04
open Ruint Ruint.Canon Ruint.History

/-! ## (i) equality and hashing -/

/-- derived `PartialEq` on canonical values is equality of numbers. -/
theorem eq_iff_val_eq (bits : ℕ) (a b : List ℕ) (ha : Canon bits a) (hb : Canon bits b) :
    a = b ↔ val a = val b :=
  ⟨fun h => by rw [h], canon_ext bits a b ha hb⟩

/-- the model of `==` used by the driver. -/
theorem eq_model_spec (bits : ℕ) (a b : List ℕ) (ha : Canon bits a) (hb : Canon bits b) :
    Cmp.eq a b = true ↔ val a = val b := by
  unfold Cmp.eq
  rw [beq_iff_eq]
  exact eq_iff_val_eq bits a b ha hb

/-- `Hash` (and anything else computed from the limb array — `==`, `DefaultHasher`, `HashMap` keys):
    equal numbers give equal results. -/
theorem hash_follows_value {α : Type} (f : List ℕ → α) (bits : ℕ) (a b : List ℕ)
    (ha : Canon bits a) (hb : Canon bits b) (h : val a = val b) : f a = f b := by
  rw [canon_ext bits a b ha hb h]

/-- without canonicity the statement is false: two limb arrays for the number 1 at width 1 differ
    (so a forgotten mask breaks `==`/`Hash`). -/
theorem noncanonical_breaks_eq : ∃ a b : List ℕ, a ≠ b ∧ a.length = nlimbs 1 ∧ b.length = nlimbs 1
    ∧ val a % 2 ^ 1 = val b % 2 ^ 1 :=
  ⟨[1], [3], by decide, rfl, rfl, by decide⟩

/-! ## (ii) ordering -/

/-- `Ord::cmp` (reverse limb scan) orders canonical values as their numbers. -/
theorem cmp_spec (bits : ℕ) (a b : List ℕ) (ha : Canon bits a) (hb : Canon bits b) :
    Cmp.cmp a b = compare (val a) (val b) :=
  Cmp.cmp_spec a b (by rw [ha.1, hb.1]) ha.2.1 hb.2.1

/-- `<`, `<=`, `>`, `>=` -/
theorem lt_le_spec (bits : ℕ) (a b : List ℕ) (ha : Canon bits a) (hb : Canon bits b) :
    (Cmp.lt a b = true ↔ val a < val b) ∧ (Cmp.le a b = true ↔ val a ≤ val b)
    ∧ (Cmp.gt a b = true ↔ val b < val a) ∧ (Cmp.ge a b = true ↔ val b ≤ val a) := by
  have hl : a.length = b.length := by rw [ha.1, hb.1]
  exact ⟨Cmp.lt_spec a b hl ha.2.1 hb.2.1, Cmp.le_spec a b hl ha.2.1 hb.2.1,
    Cmp.gt_spec a b hl ha.2.1 hb.2.1, Cmp.ge_spec a b hl ha.2.1 hb.2.1⟩

/-- `min` / `max`: canonical, with the numeric minimum / maximum. -/
theorem min_max_spec (bits : ℕ) (a b : List ℕ) (ha : Canon bits a) (hb : Canon bits b) :
    Canon bits (Cmp.min a b) ∧ val (Cmp.min a b) = Nat.min (val a) (val b)
    ∧ Canon bits (Cmp.max a b) ∧ val (Cmp.max a b) = Nat.max (val a) (val b) := by
  have hl : a.length = b.length := by rw [ha.1, hb.1]
  obtain ⟨m1, m2⟩ := Cmp.min_spec a b hl ha.2.1 hb.2.1
  obtain ⟨x1, x2⟩ := Cmp.max_spec a b hl ha.2.1 hb.2.1
  refine ⟨?_, m2, ?_, x2⟩
  · rcases m1 with h | h <;> rw [h] <;> assumption
  · rcases x1 with h | h <;> rw [h] <;> assumption

/-- `is_zero` -/
theorem is_zero_spec (bits : ℕ) (a : List ℕ) (ha : Canon bits a) : Cmp.isZero a = true ↔ val a = 0 := by
  unfold Cmp.isZero
  rw [beq_iff_eq, ha.1]
  have hz := zero_spec bits
  unfold Canon.zero at hz
  constructor
  · intro h; rw [h]; exact hz.2
  · intro h; exact canon_ext bits a _ ha hz.1 (by rw [h, hz.2])

/-! ## (iii) constructors -/

/-- `from_limbs`: returns the array iff it is canonical, panics on every other array. -/
theorem from_limbs_spec (bits : ℕ) (l : List ℕ) (hlen : l.length = nlimbs bits) (hl : AllLt l) :
    (Canon bits l → fromLimbs bits l = some l) ∧ (¬ Canon bits l → fromLimbs bits l = none)
    ∧ (Canon bits l ↔ ¬ (shouldMask bits = true ∧ mask bits < top l)) :=
  ⟨(fromLimbs_spec bits l hlen hl).1, (fromLimbs_spec bits l hlen hl).2, canon_iff_top bits l hlen hl⟩

/-- `masked()` / `apply_mask()` / `from_limbs_unmasked`: canonical, value reduced mod `2^bits`
    (this is also the model of the random generators: `fill limbs; mask`). -/
theorem masked_canon (bits : ℕ) (raw : List ℕ) (hlen : raw.length = nlimbs bits) (hl : AllLt raw) :
    Canon bits (masked bits raw) ∧ val (masked bits raw) = val raw % 2 ^ bits :=
  masked_spec bits raw hlen hl

/-- the generators named by the property. `rand` 0.8/0.9 (`rng.fill(limbs); apply_mask()`) and `proptest`
    (`from_limbs_unmasked(any [u64; LIMBS])`) are `masked raw` (`masked_canon`); `arbitrary` draws the last limb
    with `int_in_range(0..=MASK)` and `quickcheck` with `u64 & MASK`, then calls `from_limbs`:
    for ANY raw limbs the constructed array is canonical and `from_limbs` accepts it. -/
theorem generator_models_canon (bits : ℕ) (rest : List ℕ) (last : ℕ)
    (hlen : rest.length + 1 = nlimbs bits) (hr : AllLt rest) (hlast : last < W) :
    (last ≤ mask bits → Canon bits (rest ++ [last]) ∧ fromLimbs bits (rest ++ [last]) = some (rest ++ [last]))
    ∧ (Canon bits (rest ++ [last % (mask bits + 1)])
        ∧ fromLimbs bits (rest ++ [last % (mask bits + 1)]) = some (rest ++ [last % (mask bits + 1)])) := by
  have hl : (rest ++ [last]).length = nlimbs bits := by simp; omega
  have hall : AllLt (rest ++ [last]) := AllLt.append hr (AllLt.cons hlast AllLt.nil)
  constructor
  · intro hle
    have hc : Canon bits (rest ++ [last]) := by
      rw [canon_iff_top bits _ hl hall, top_append]
      rintro ⟨_, h⟩; omega
    exact ⟨hc, fromLimbs_canon bits _ hc⟩
  · have hc : Canon bits (rest ++ [last % (mask bits + 1)]) := by
      have hpos : 0 < bits := by
        by_contra h
        have : bits = 0 := by omega
        subst this; simp [nlimbs] at hlen
      have := (maskTop_spec bits hpos (rest ++ [last]) hl hall).1
      rwa [maskTop_append] at this
    exact ⟨hc, fromLimbs_canon bits _ hc⟩

/-- the limb-slice constructors: every variant returns a canonical value or rejects. -/
theorem limbs_slice_constructors_spec (bits : ℕ) (sl : List ℕ) (hsl : AllLt sl) :
    (∃ l o, overflowingFromLimbsSlice bits sl = some (l, o) ∧ Canon bits l
      ∧ val l = val sl % 2 ^ bits ∧ (o = true ↔ 2 ^ bits ≤ val sl))
    ∧ (2 ^ bits ≤ val sl → fromLimbsSlice bits sl = .panic ∧ checkedFromLimbsSlice bits sl = .none) :=
  ⟨overflowingFromLimbsSlice_spec bits sl hsl,
    fun h => ⟨((C07.from_limbs_slice_family_spec bits sl hsl).2 h).1,
      ((C07.from_limbs_slice_family_spec bits sl hsl).2 h).2.1⟩⟩

/-- the constants -/
theorem constants_canon (bits : ℕ) :
    (Canon bits (zero bits) ∧ val (zero bits) = 0)
    ∧ (Canon bits (max bits) ∧ val (max bits) = 2 ^ bits - 1)
    ∧ (∃ l, one bits = some l ∧ Canon bits l ∧ val l = 1 % 2 ^ bits) :=
  ⟨zero_spec bits, max_spec bits, one_spec bits⟩

/-! ## (iv) closure under histories -/

/-- one operation keeps the register file canonical. -/
theorem step_canon (bits : ℕ) (regs : Regs) (h : AllCanon bits regs) (op : Op) (hv : op.Valid) :
    AllCanon bits (step bits regs op) :=
  History.step_canon bits regs h op hv

/-- **closure**: after any finite history of modelled safe operations on canonical registers, every
    register is canonical (47 producers: constants, C01 add/sub/neg, C02 mul, C03 div/rem, C05
    shifts/rotates, C06 bit operations and next_power_of_two, Ord min/max, C07 conversions and limb-slice
    constructors, C08 decoders and round trips, C10 add_mod/mul_mod, C12 gcd, C13 pow, generator fills);
    each case is one reference to the producer's own specification theorem. -/
theorem run_canon (bits : ℕ) (hist : List Op) (regs : Regs) (h : AllCanon bits regs)
    (hv : ∀ op ∈ hist, op.Valid) : AllCanon bits (run bits regs hist) := by
  unfold run
  induction hist generalizing regs with
  | nil => exact h
  | cons op ops ih =>
    simp only [List.foldl_cons]
    exact ih _ (History.step_canon bits regs h op (hv op (by simp))) (fun o ho => hv o (by simp [ho]))

/-- hence `==`/`Hash`/`cmp` on any two registers after any history follow the numbers. -/
theorem run_eq_cmp (bits : ℕ) (hist : List Op) (regs : Regs) (h : AllCanon bits regs)
    (hv : ∀ op ∈ hist, op.Valid) (a b : List ℕ) (ha : a ∈ run bits regs hist)
    (hb : b ∈ run bits regs hist) :
    (a = b ↔ val a = val b) ∧ Cmp.cmp a b = compare (val a) (val b) := by
  have hc := run_canon bits hist regs h hv
  exact ⟨eq_iff_val_eq bits a b (hc a ha) (hc b hb), cmp_spec bits a b (hc a ha) (hc b hb)⟩

/-! ## (v) ill-formed types -/

/-- the associated const `Self::LIMBS` evaluates iff `LIMBS = nlimbs(BITS)`; for every other pair its
    evaluation — forced by any body that mentions it — fails at compile time. -/
theorem limbs_const_spec (bits limbs : ℕ) :
    (limbs = nlimbs bits → limbsConst bits limbs = some (nlimbs bits))
    ∧ (limbs ≠ nlimbs bits → limbsConst bits limbs = none) := by
  unfold limbsConst
  exact ⟨fun h => by simp [h], fun h => by simp [h]⟩

/-- the probe pairs are ill-formed -/
theorem probe_pairs_ill_formed :
    limbsConst 64 2 = none ∧ limbsConst 65 1 = none ∧ limbsConst 0 1 = none
    ∧ limbsConst 100 3 = none ∧ limbsConst 128 1 = none := by decide

/-- **(G)** in the current source every public constant/constructor that yields a `Uint` without taking
    one transitively mentions `Self::LIMBS` (graph regenerated from `src/` by `tools/props/c04.py`). -/
theorem guard_graph_reaches :
    ∀ p ∈ Gen.GuardGraph.publicProducers,
      reaches Gen.GuardGraph.edges p Gen.GuardGraph.limbsAssert = true := by
  decide +kernel

/-- **(G)** every place in `src/` that builds a `Uint` from the bare struct literal `Self { limbs }` — the only
    primitive way to make a value in safe code — sits in a function that reaches the `Self::LIMBS` assertion
    (sites re-extracted from all of `src/**/*.rs` on every run). -/
theorem raw_literals_guarded :
    ∀ o ∈ Gen.GuardGraph.rawLiteralOwners,
      reaches Gen.GuardGraph.edges o Gen.GuardGraph.limbsAssert = true := by
  decide +kernel

/-- **(G)** `algorithms::cmp`, on which `Ord` / `PartialOrd for Uint` rest, regenerated from `src/algorithms/mod.rs` on every run,
    is the model `Cmp.cmp` the ordering theorems above are about (all pairs of slices). -/
theorem gen_cmp_eq (l r : List ℕ) (h64 : min l.length r.length < 2 ^ 64) (f : ℕ) (hf : min l.length r.length < f) :
    Ruint.Gen.limb_cmp f l r = Cmp.cmp l r :=
  Ruint.GenCmp.limb_cmp_eq l r h64 f hf

/-- **(G)** no other place in `src/` builds a `Uint` from the bare struct literal (list re-extracted on every run): the
    closure argument covers every primitive construction site. -/
theorem no_raw_literal_elsewhere : Gen.GuardGraph.rawLiteralSitesOutside = [] := by
  decide +kernel

/-- **(G)** `bytemuck::Pod` (every bit pattern is a value, no constructor runs) is implemented only for widths that
    fill their limbs exactly, where every bit pattern is canonical (`impl_pod!` list re-extracted on every run). -/
theorem pod_pairs_aligned : ∀ p ∈ Gen.GuardGraph.podPairs, p.1 = 64 * p.2 := by
  decide +kernel

/-- **(G)** and `impl_pod!` is the only place that implements `Pod`/`AnyBitPattern` for `Uint`/`Bits`. -/
theorem pod_impl_only_in_macro : Gen.GuardGraph.podImplSites = 1 := by
  decide +kernel

/-- the checker really discriminates: in the pinned tree's graph (`masked` did not mention `Self::LIMBS`)
    `MAX → from_limbs_unmasked → masked` did not reach the assertion. -/
theorem guard_graph_detects_old_defect :
    reaches [[], [2], [3], []] 1 0 = false ∧ reaches [[], [2], [3], [0]] 1 0 = true := by
  decide +kernel

/-! Non-vacuity -/
example : Cmp.cmp [5, 1] [7, 0] = .gt ∧ Cmp.cmp [0, 1] [0, 1] = .eq := by decide +kernel
example : (run 65 [[1, 0], [W - 1, 1]] [.wadd 0 0 1, .max 1, .wneg 1 1]) = [[0, 0], [1, 0]] := by
  decide +kernel

/-! ## Tie of `mask` / `nlimbs` to the source (G)

`Ruint.Gen.mask` and `Ruint.Gen.nlimbs` are regenerated from `src/lib.rs` by `tools/rs2lean.py` on every
run. They equal the `mask` / `nlimbs` every model and every `Canon` statement of this development uses,
so "canonical" means what the source's `MASK` / `LIMBS` say now. -/

theorem gen_mask_eq (bits : ℕ) : Ruint.Gen.mask bits = Ruint.mask bits := Ruint.GenCore.mask_eq bits

theorem gen_nlimbs_eq (bits : ℕ) (h : bits + 63 < 2 ^ 64) : Ruint.Gen.nlimbs bits = Ruint.nlimbs bits :=
  Ruint.GenCore.nlimbs_eq bits h

/-! ### constructors and `Ord::cmp` regenerated whole (`Gen/WordsUintMod.lean`)

`Uint::from_limbs` (with its `assert!`: `none` = panic), `from_limbs_unmasked` and `Ord::cmp` as the source defines them,
translated on every run, equal the models of the theorems above. -/

theorem gen_from_limbs_eq (bits : ℕ) (hN : nlimbs bits < 2 ^ 64) (l : List ℕ) (hl : l.length = nlimbs bits) :
    Ruint.Gen.uint_from_limbs bits (nlimbs bits) l = Ruint.Canon.fromLimbs bits l :=
  Ruint.GenUintMod.from_limbs_eq bits hN l hl

theorem gen_from_limbs_unmasked_eq (bits : ℕ) (hN : nlimbs bits < 2 ^ 64) (l : List ℕ) (hl : l.length = nlimbs bits)
    (hw : Ruint.AllLt l) :
    Ruint.Gen.uint_from_limbs_unmasked bits (nlimbs bits) l = Ruint.Canon.fromLimbsUnmasked bits l :=
  Ruint.GenUintMod.from_limbs_unmasked_eq bits hN l hl hw

theorem gen_uint_cmp_eq (bits LIMBS : ℕ) (a b : List ℕ) (h64 : min a.length b.length < 2 ^ 64) (f : ℕ)
    (hf : min a.length b.length < f) :
    Ruint.Gen.uint_cmp f bits LIMBS a b = Ruint.Cmp.cmp a b :=
  Ruint.GenUintMod.cmp_eq bits LIMBS a b h64 f hf

/-! ### the limb-slice constructors regenerated whole (`Gen/WordsFls.lean`)

`overflowing_from_limbs_slice` (both arms, the `any` over the tail, the top-limb test and mask, `from_limbs` with its `assert!`),
`from_limbs_slice` (its `panic!` arm), `checked_…`, `wrapping_…`, `saturating_from_limbs_slice` as `src/lib.rs` defines them,
translated on every run, equal the models of the theorems above for every width and every slice of words. -/

theorem gen_overflowing_from_limbs_slice_eq (bits : ℕ) (hN : nlimbs bits < 2 ^ 64) (sl : List ℕ) (hw : Ruint.AllLt sl) :
    Ruint.Gen.uint_overflowing_from_limbs_slice bits (nlimbs bits) sl = overflowingFromLimbsSlice bits sl :=
  Ruint.GenFls.overflowing_from_limbs_slice_eq bits hN sl hw

open Ruint.GenFls in
theorem gen_from_limbs_slice_family_eq (bits : ℕ) (hN : nlimbs bits < 2 ^ 64) (sl : List ℕ) (hw : Ruint.AllLt sl) :
    toRes (Ruint.Gen.uint_from_limbs_slice bits (nlimbs bits) sl) = fromLimbsSlice bits sl
    ∧ toResO (Ruint.Gen.uint_checked_from_limbs_slice bits (nlimbs bits) sl) = checkedFromLimbsSlice bits sl
    ∧ toRes (Ruint.Gen.uint_wrapping_from_limbs_slice bits (nlimbs bits) sl) = wrappingFromLimbsSlice bits sl
    ∧ toRes (Ruint.Gen.uint_saturating_from_limbs_slice bits (nlimbs bits) sl) = saturatingFromLimbsSlice bits sl :=
  ⟨from_limbs_slice_eq bits hN sl hw, checked_from_limbs_slice_eq bits hN sl hw, wrapping_from_limbs_slice_eq bits hN sl hw,
   saturating_from_limbs_slice_eq bits hN sl hw⟩

end Ruint.C04
