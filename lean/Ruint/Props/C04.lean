import Ruint.Model.History
import Ruint.Lemmas.Basic

/-! # C04 — canonical values (property theorems; under construction) -/
namespace Ruint.C04
open Ruint

/-- `==`/`Hash` are functions of the limb array; canonical arrays are determined by their number. -/
theorem eq_iff_val_eq (bits : ℕ) (a b : List ℕ) (ha : Canon bits a) (hb : Canon bits b) :
    a = b ↔ val a = val b :=
  ⟨fun h => by rw [h], canon_ext bits a b ha hb⟩

end Ruint.C04
