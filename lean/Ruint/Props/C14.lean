import Ruint.Model.Div
import Ruint.Lemmas.Div.Dispatch
import Ruint.Lemmas.Div.NArr
import Ruint.Lemmas.Div.GenTie
import Ruint.Lemmas.Div.GenLoops
import Ruint.Lemmas.Div.LimbBridge
import Ruint.Lemmas.Div.GenSmall
import Ruint.Lemmas.Div.GenKnuthN
import Ruint.Lemmas.Div.GenKnuth
import Ruint.Lemmas.Div.GenDispatch
import Ruint.Lemmas.Div.GenRef
/-!
# C14 — limb-slice division kernels meet their documented contracts

Property theorems only. Every theorem is about the functions of `Ruint/Model/Div.lean`
(`Ruint.Div.div`, `divNxm`, `divNxmNormalized`, `divNx1`, `divNx1Normalized`, `divNx2`,
`divNx2Normalized`, `div2x1w`, `div3x2w`, `reciprocal`, `reciprocal2`) — the functions the driver
`Drv/C14.lean` executes against the real `ruint::algorithms::div::*`. Slices are little-endian lists of
words (`AllLt`: every limb `< 2^64`), `val` is the value in base `2^64`, `none` is a panic.

All statements are full strength: every slice length, every limb value, every normalised divisor; no
bound, no `_partial`. Hypotheses are the documented conditions of use (doc comments + `debug_assert`s),
except `div_nxm_normalized`, whose documented conditions are NOT sufficient (known finding
`div_nxm_normalized_doc_precondition`): `div_nxm_normalized_spec` carries the real precondition and
`div_nxm_normalized_doc_insufficient` is the kernel-checked witness.
The reciprocal theorem depends on the table extracted from the Rust source on every run
(`Ruint/Gen/RecipTable.lean`) only through `Ruint.Div.Recip.table_facts` (`Ruint/Gen/RecipTableFacts.lean`).
-/
set_option autoImplicit false
namespace Ruint.C14
open Ruint.Div

/-! ## `algorithms::div` -/

/-- **Zero divisor** (every limb zero, or the empty slice): `div` panics ("Divisor is zero"). -/
theorem div_zero_divisor_panics (num ds : List ℕ) (hnum : AllLt num) (hds : AllLt ds)
    (h0 : val ds = 0) : div num ds = none :=
  (div_spec num ds hnum hds).1 h0

/-- **`div` meets its contract** for every combination of slice lengths and leading-zero padding
    (numerator shorter or longer than the divisor): with a non-zero divisor it does not panic, leaves
    `⌊N/D⌋` in the numerator slice and `N mod D` in the divisor slice (same lengths as before, limbs are
    words). `N = q·D + r ∧ r < D` is the corollary `div_euclid`. -/
theorem div_contract (num ds : List ℕ) (hnum : AllLt num) (hds : AllLt ds) (hd : val ds ≠ 0) :
    ∃ q r, div num ds = some (q, r) ∧ val q = val num / val ds ∧ val r = val num % val ds
      ∧ q.length = num.length ∧ r.length = ds.length ∧ AllLt q ∧ AllLt r :=
  (div_spec num ds hnum hds).2 hd

/-- the Euclidean form of the contract: `numerator = quotient·divisor + remainder`, `remainder < divisor`. -/
theorem div_euclid (num ds : List ℕ) (hnum : AllLt num) (hds : AllLt ds) (hd : val ds ≠ 0) :
    ∃ q r, div num ds = some (q, r) ∧ val num = val q * val ds + val r ∧ val r < val ds := by
  obtain ⟨q, r, h, hq, hr, _⟩ := div_contract num ds hnum hds hd
  refine ⟨q, r, h, ?_, ?_⟩
  · rw [hq, hr, Nat.mul_comm]; exact (Nat.div_add_mod _ _).symm
  · rw [hr]; exact Nat.mod_lt _ (Nat.pos_of_ne_zero hd)

/-! ## the specialised kernels return the same quotient and remainder (`⌊N/D⌋`, `N mod D`) -/

/-- `div_nx1(limbs, d)`, any non-zero word divisor, normalised or not (the documented "highest limb of
    the numerator non-zero" is not needed): quotient in place, remainder returned. -/
theorem div_nx1_spec (l : List ℕ) (d : ℕ) (hl : AllLt l) (h1 : 1 ≤ d) (h2 : d < 2 ^ 64) :
    val (divNx1 l d).1 = val l / d ∧ (divNx1 l d).2 = val l % d
    ∧ (divNx1 l d).1.length = l.length ∧ AllLt (divNx1 l d).1 :=
  divNx1_spec l d hl h1 h2

/-- `div_nx1_normalized(u, d)`, `d ≥ 2^63`. -/
theorem div_nx1_normalized_spec (l : List ℕ) (d : ℕ) (hl : AllLt l) (h1 : 2 ^ 63 ≤ d) (h2 : d < 2 ^ 64) :
    val (divNx1Normalized l d).1 = val l / d ∧ (divNx1Normalized l d).2 = val l % d
    ∧ (divNx1Normalized l d).1.length = l.length ∧ AllLt (divNx1Normalized l d).1 :=
  divNx1Normalized_spec l d hl h1 h2

/-- `div_nx2(limbs, d)`, any `d ∈ [2^64, 2^128)`, normalised or not. -/
theorem div_nx2_spec (l : List ℕ) (d : ℕ) (hl : AllLt l) (h1 : 2 ^ 64 ≤ d) (h2 : d < 2 ^ 128) :
    val (divNx2 l d).1 = val l / d ∧ (divNx2 l d).2 = val l % d
    ∧ (divNx2 l d).1.length = l.length ∧ AllLt (divNx2 l d).1 :=
  divNx2_spec l d hl h1 h2

/-- `div_nx2_normalized(u, d)`, `d ∈ [2^127, 2^128)`. -/
theorem div_nx2_normalized_spec (l : List ℕ) (d : ℕ) (hl : AllLt l) (h1 : 2 ^ 127 ≤ d) (h2 : d < 2 ^ 128) :
    val (divNx2Normalized l d).1 = val l / d ∧ (divNx2Normalized l d).2 = val l % d
    ∧ (divNx2Normalized l d).1.length = l.length ∧ AllLt (divNx2Normalized l d).1 :=
  divNx2Normalized_spec l d hl h1 h2

/-- `div_nxm(numerator, divisor)` under exactly its documented conditions of use (divisor of at least
    three limbs with non-zero top limb, numerator at least as long): Knuth D with on-the-fly
    normalisation, all arms (zero digit, `shift = 0`, `shift > 0`, add-back, forced digit, `q_high`),
    in-place layout: quotient zero padded to `|numerator|` limbs in `numerator`, remainder in `divisor`. -/
theorem div_nxm_spec (num ds : List ℕ) (hnum : AllLt num) (hds : AllLt ds)
    (h3 : 3 ≤ ds.length) (hlen : ds.length ≤ num.length) (htop : 1 ≤ ds.getD (ds.length - 1) 0) :
    val (divNxm num ds).1 = val num / val ds ∧ val (divNxm num ds).2 = val num % val ds
    ∧ (divNxm num ds).1.length = num.length ∧ (divNxm num ds).2.length = ds.length
    ∧ AllLt (divNxm num ds).1 ∧ AllLt (divNxm num ds).2 :=
  divNxm_spec num ds hnum hds h3 hlen htop

/-- `div_nxm_normalized(numerator, divisor)` under its REAL precondition — normalised divisor of at least two
    limbs, `|numerator| > |divisor|`, and the top `|divisor|` numerator limbs below the divisor: no panic
    (the `debug_assert!(n21 <= d)` cannot fire), remainder in the low `n` limbs, quotient in the limbs above.

    Full statement as documented (hypotheses `2 ≤ |ds|`, `|ds| ≤ |num|`, top bit of `ds` set only) is FALSE:
    see `div_nxm_normalized_doc_insufficient`. -/
theorem div_nxm_normalized_spec (num ds : List ℕ) (hnum : AllLt num) (hds : AllLt ds)
    (h2 : 2 ≤ ds.length) (hlen : ds.length + 1 ≤ num.length)
    (htop : 2 ^ 63 ≤ ds.getD (ds.length - 1) 0)
    (hreal : val (num.drop (num.length - ds.length)) < val ds) :
    ∃ q r, divNxmNormalized num ds = some (r ++ q)
      ∧ val q = val num / val ds ∧ val r = val num % val ds
      ∧ r.length = ds.length ∧ q.length = num.length - ds.length ∧ AllLt q ∧ AllLt r := by
  have hW : W = 2 ^ 64 := rfl
  have h1lt : ds.getD (ds.length - 1) 0 < 2 ^ 64 := KFull.getD_lt ds _ hds (by omega)
  have h0lt : ds.getD (ds.length - 2) 0 < 2 ^ 64 := KFull.getD_lt ds _ hds (by omega)
  obtain ⟨d, hd⟩ : ∃ d, d = ds.getD (ds.length - 1) 0 * W + ds.getD (ds.length - 2) 0 := ⟨_, rfl⟩
  have hd1 : 2 ^ 127 ≤ d := by rw [hd, hW]; omega
  have hd2 : d < 2 ^ 128 := by rw [hd, hW]; omega
  have hv := reciprocal2_eq d hd1 hd2
  obtain ⟨q, r, k1, k2, k3, k4, k5, k6, k7⟩ := KN.divNxmNormArr_spec W num ds (reciprocal2 d) W_two hnum hds h2 hlen
    (by rw [hW]; omega) (by rw [← hd]; exact hv) (by rw [val_W, val_W]; exact hreal)
  rw [val_W, val_W, val_W, val_W] at k2
  rw [val_W, val_W] at k3
  obtain ⟨e1, e2⟩ := divmod_unique _ _ _ _ k2 k3
  refine ⟨q, r, ?_, e1, e2, k4, k5, k6, k7⟩
  unfold divNxmNormalized
  simp only []
  rw [← hd]; exact k1

/-- WITNESS that the documented conditions of `div_nxm_normalized` are insufficient (DESIGN §9):
    (i) `div_nxm_normalized(&mut [1, 2], &[0, 1 << 63])` — two limbs each, top bit set, numerator as long as
    the divisor, everything the doc comment asks for — panics; (ii) with `|num| > |div|` but the top limbs
    equal to the divisor (`[5, 0, 2^63]` by `[0, 2^63]`, true quotient `2^64`) the quotient left in the
    array is wrong. Both by kernel evaluation of the model. -/
theorem div_nxm_normalized_doc_insufficient :
    divNxmNormalized [1, 2] [0, 2 ^ 63] = none
    ∧ (divNxmNormalized [5, 0, 2 ^ 63] [0, 2 ^ 63]).map (fun o => val (o.drop 2))
        ≠ some (val [5, 0, 2 ^ 63] / val [0, 2 ^ 63]) := by
  constructor
  · decide +kernel
  · decide +kernel

/-- `div_2x1(u, d, v)` with `d` normalised, `u < d·2^64`, `v = reciprocal(d)`. -/
theorem div_2x1_spec (u d : ℕ) (h1 : 2 ^ 63 ≤ d) (h2 : d < 2 ^ 64) (hu : u / 2 ^ 64 < d) :
    div2x1w u d (reciprocal d) = (u / d, u % d) :=
  div2x1w_spec u d h1 h2 hu

/-- `div_3x2(u21, u0, d, v)` with `d ∈ [2^127, 2^128)`, `u21 < d`, `v = reciprocal_2(d)`. -/
theorem div_3x2_spec (u21 u0 d : ℕ) (h1 : 2 ^ 127 ≤ d) (h2 : d < 2 ^ 128) (hu : u21 < d) (hu0 : u0 < 2 ^ 64) :
    div3x2w u21 u0 d (reciprocal2 d) = ((u21 * 2 ^ 64 + u0) / d, (u21 * 2 ^ 64 + u0) % d) :=
  div3x2w_spec u21 u0 d h1 h2 hu hu0

/-! ## reciprocals -/

/-- `reciprocal(d) = ⌊(2^128 − 1)/d⌋ − 2^64` for EVERY normalised `d` (all `2^63` of them): table-seeded
    Newton iteration with `Wrapping<u64>` arithmetic; the table is the one in the Rust source. -/
theorem reciprocal_spec (d : ℕ) (h1 : 2 ^ 63 ≤ d) (h2 : d < 2 ^ 64) :
    reciprocal d = (2 ^ 128 - 1) / d - 2 ^ 64 := by
  rw [reciprocal_eq d h1 h2]
  unfold recipSpec W
  norm_num

/-- `reciprocal_2(d) = ⌊(2^192 − 1)/d⌋ − 2^64` for every normalised two-word `d`. -/
theorem reciprocal_2_spec (d : ℕ) (h1 : 2 ^ 127 ≤ d) (h2 : d < 2 ^ 128) :
    reciprocal2 d = (2 ^ 192 - 1) / d - 2 ^ 64 := by
  rw [reciprocal2_eq d h1 h2]
  unfold recip2Spec W
  norm_num

/-! ## (G) the definitions GENERATED from the Rust source (`Ruint/Gen/WordsDiv.lean`, `tools/rs2lean.py`, every run)

On the documented input ranges the source-generated `div_2x1_mg10`, `div_3x2_mg10`, `reciprocal_mg10`,
`reciprocal_2_mg10` ARE the hand-written models above (`gen_*_eq_model`), hence meet the same contracts
(`gen_*_spec`). An edit to a constant, shift, table entry or branch condition of these four Rust functions
changes the generated file and these obligations are re-checked against it. -/

theorem gen_reciprocal_eq_model (d : ℕ) (h1 : 2 ^ 63 ≤ d) (h2 : d < 2 ^ 64) :
    Ruint.Gen.reciprocal_mg10 d = reciprocal d :=
  GenTie.gen_reciprocal_eq d h1 h2

theorem gen_reciprocal_2_eq_model (d : ℕ) (h1 : 2 ^ 127 ≤ d) (h2 : d < 2 ^ 128) :
    Ruint.Gen.reciprocal_2_mg10 d = reciprocal2 d :=
  GenTie.gen_reciprocal_2_eq d h1 h2

theorem gen_div_2x1_eq_model (u d : ℕ) (h1 : 2 ^ 63 ≤ d) (h2 : d < 2 ^ 64) (hu : u / 2 ^ 64 < d) :
    Ruint.Gen.div_2x1_mg10 u d (Ruint.Gen.reciprocal_mg10 d) = div2x1w u d (reciprocal d) := by
  rw [GenTie.gen_reciprocal_eq d h1 h2, reciprocal_eq d h1 h2]
  exact GenTie.gen_div_2x1_eq u d _ h2 hu (GenTie.recipSpec_facts d h1 h2).2

theorem gen_div_3x2_eq_model (u21 u0 d : ℕ) (h1 : 2 ^ 127 ≤ d) (h2 : d < 2 ^ 128) (hu : u21 < d)
    (hu0 : u0 < 2 ^ 64) :
    Ruint.Gen.div_3x2_mg10 u21 u0 d (Ruint.Gen.reciprocal_2_mg10 d) = div3x2w u21 u0 d (reciprocal2 d) := by
  rw [GenTie.gen_reciprocal_2_eq d h1 h2, reciprocal2_eq d h1 h2]
  exact GenTie.gen_div_3x2_eq u21 u0 d _ h2 (GenTie.recip2Spec_facts d h1 h2).1 hu hu0
    (GenTie.recip2Spec_facts d h1 h2).2

/-- the generated `reciprocal_mg10` returns `⌊(2^128 − 1)/d⌋ − 2^64` for every normalised `d`. -/
theorem gen_reciprocal_spec (d : ℕ) (h1 : 2 ^ 63 ≤ d) (h2 : d < 2 ^ 64) :
    Ruint.Gen.reciprocal_mg10 d = (2 ^ 128 - 1) / d - 2 ^ 64 := by
  rw [gen_reciprocal_eq_model d h1 h2]; exact reciprocal_spec d h1 h2

/-- the generated `reciprocal_2_mg10` returns `⌊(2^192 − 1)/d⌋ − 2^64` for every normalised two-word `d`. -/
theorem gen_reciprocal_2_spec (d : ℕ) (h1 : 2 ^ 127 ≤ d) (h2 : d < 2 ^ 128) :
    Ruint.Gen.reciprocal_2_mg10 d = (2 ^ 192 - 1) / d - 2 ^ 64 := by
  rw [gen_reciprocal_2_eq_model d h1 h2]; exact reciprocal_2_spec d h1 h2

/-- the generated `div_2x1_mg10` (with the generated reciprocal) is exact. -/
theorem gen_div_2x1_spec (u d : ℕ) (h1 : 2 ^ 63 ≤ d) (h2 : d < 2 ^ 64) (hu : u / 2 ^ 64 < d) :
    Ruint.Gen.div_2x1_mg10 u d (Ruint.Gen.reciprocal_mg10 d) = (u / d, u % d) := by
  rw [gen_div_2x1_eq_model u d h1 h2 hu]; exact div_2x1_spec u d h1 h2 hu

/-- the generated `div_3x2_mg10` (with the generated two-word reciprocal) is exact. -/
theorem gen_div_3x2_spec (u21 u0 d : ℕ) (h1 : 2 ^ 127 ≤ d) (h2 : d < 2 ^ 128) (hu : u21 < d)
    (hu0 : u0 < 2 ^ 64) :
    Ruint.Gen.div_3x2_mg10 u21 u0 d (Ruint.Gen.reciprocal_2_mg10 d)
      = ((u21 * 2 ^ 64 + u0) / d, (u21 * 2 ^ 64 + u0) % d) := by
  rw [gen_div_3x2_eq_model u21 u0 d h1 h2 hu hu0]; exact div_3x2_spec u21 u0 d h1 h2 hu hu0

/-! ### the reference kernels (`reciprocal_ref`, `div_2x1_ref`), generated from the source, and their agreement with MG10 -/

/-- the generated `reciprocal_ref` (`u128::MAX / d` truncated to `u64`) is `⌊(2^128 − 1)/d⌋ − 2^64` for every
    normalised `d`: the truncation drops exactly the `2^64` bit. -/
theorem gen_reciprocal_ref_spec (d : ℕ) (h1 : 2 ^ 63 ≤ d) (h2 : d < 2 ^ 64) :
    Ruint.Gen.reciprocal_ref d = (2 ^ 128 - 1) / d - 2 ^ 64 :=
  GenRef.gen_reciprocal_ref_spec d h1 h2

/-- the table-seeded Newton reciprocal and the reference reciprocal, both as generated from the source, agree on
    every normalised `d` (the claim the crate's own test samples). -/
theorem gen_reciprocal_mg10_eq_ref (d : ℕ) (h1 : 2 ^ 63 ≤ d) (h2 : d < 2 ^ 64) :
    Ruint.Gen.reciprocal_mg10 d = Ruint.Gen.reciprocal_ref d := by
  rw [gen_reciprocal_spec d h1 h2, gen_reciprocal_ref_spec d h1 h2]

/-- the generated `div_2x1_ref` is exact on the documented domain (the `as u64` casts lose nothing). -/
theorem gen_div_2x1_ref_spec (u d : ℕ) (h1 : 2 ^ 63 ≤ d) (h2 : d < 2 ^ 64) (hu : u / 2 ^ 64 < d) :
    Ruint.Gen.div_2x1_ref u d = (u / d, u % d) :=
  GenRef.gen_div_2x1_ref_spec u d h1 h2 hu

/-- MG10 algorithm 4 with the MG10 reciprocal equals the reference 2-by-1 division, both as generated. -/
theorem gen_div_2x1_mg10_eq_ref (u d : ℕ) (h1 : 2 ^ 63 ≤ d) (h2 : d < 2 ^ 64) (hu : u / 2 ^ 64 < d) :
    Ruint.Gen.div_2x1_mg10 u d (Ruint.Gen.reciprocal_mg10 d) = Ruint.Gen.div_2x1_ref u d := by
  rw [gen_div_2x1_spec u d h1 h2 hu, gen_div_2x1_ref_spec u d h1 h2 hu]

example : Ruint.Gen.reciprocal_ref (2 ^ 63) = 2 ^ 64 - 1 ∧ Ruint.Gen.div_2x1_ref (2 ^ 127 + 5) (2 ^ 63 + 1) = ((2 ^ 127 + 5) / (2 ^ 63 + 1), (2 ^ 127 + 5) % (2 ^ 63 + 1)) := by
  constructor <;> decide +kernel

/-! ## the limb chains inside the Knuth model are the C15 models -/

/-- `submul_nx1` and `adc_n` as used by the `div_nxm` / `div_nxm_normalized` models (value-level forms) equal the
    C15 models `Ruint.Limb.submulNx1` (with the `u128`-wrapping `sbb`) and `Ruint.Limb.adcN`, which C15 checks
    limb for limb against `ruint::algorithms::{submul_nx1, adc_n}`. -/
theorem chain_kernels_are_c15_models (ls as : List ℕ) (b : ℕ) (hl : AllLt ls) :
    Ruint.Limb.submulNx1 W ls as b = Ruint.Div.submulNx1 W ls as b 0 0
    ∧ (∀ bs : List ℕ, ls.length = bs.length → Ruint.Limb.adcN W ls bs 0 = some (Ruint.Div.adcN W ls bs 0)) :=
  ⟨Bridge.submulNx1_eq_limb W W_two ls as b 0 0 hl Ruint.W_pos,
   fun bs h => Bridge.adcN_eq_limb W ls bs 0 h⟩

/-! ## non-vacuity: concrete inputs meeting each hypothesis set, evaluated through the model -/

example : div [7, 0, 5, 0] [3, 1, 0] = some ([0xfffffffffffffff1, 4, 0, 0], [52, 0, 0]) := by decide +kernel
example : div [1, 2] [0, 0] = none := by decide +kernel
example : div [7] [1, 2, 0, 0] = some ([0], [7, 0, 0, 0]) := by decide +kernel
example : (divNxm [0, 0, 0, 1] [1, 1, 1]).1.length = 4 := by decide +kernel
example : divNxmNormalized [1, 2, 3] [0, 2 ^ 63] = some [1, 2, 6] := by decide +kernel
example : reciprocal (2 ^ 63) = 2 ^ 64 - 1 := by decide +kernel
example : reciprocal2 (2 ^ 128 - 1) = 0 := by decide +kernel
example : divNx1 [5, 7] 3 = ([0x5555555555555557, 2], 0) := by decide +kernel

/-! ## Whole-function tie of the normalised `n×1` / `n×2` loops (G)

`Ruint.Gen.div_nx1_normalized` / `div_nx2_normalized` are regenerated from `src/algorithms/div/small.rs` on every run
(the reversed `iter_mut()` loop, `u128::join`, the calls of the generated `reciprocal*` / `div_2x1` / `div_3x2`) and
proved equal to the models on the functions' documented domain; the driver executes them. -/

theorem gen_div_nx1_normalized_eq (u : List ℕ) (d : ℕ) (hu : AllLt u) (h1 : 2 ^ 63 ≤ d) (h2 : d < 2 ^ 64)
    (h64 : u.length < 2 ^ 64) (f : ℕ) (hf : u.length < f) :
    Ruint.Gen.div_nx1_normalized f u d = divNx1Normalized u d :=
  Ruint.Div.GenLoops.div_nx1_normalized_eq u d hu h1 h2 h64 f hf

theorem gen_div_nx2_normalized_eq (u : List ℕ) (d : ℕ) (hu : AllLt u) (h1 : 2 ^ 127 ≤ d) (h2 : d < 2 ^ 128)
    (h64 : u.length < 2 ^ 64) (f : ℕ) (hf : u.length < f) :
    Ruint.Gen.div_nx2_normalized f u d = divNx2Normalized u d :=
  Ruint.Div.GenLoops.div_nx2_normalized_eq u d hu h1 h2 h64 f hf

/-! ### the remaining division functions, regenerated whole (`Gen/WordsKnuth.lean`)

`div_nx1`, `div_nx2` (shift on the fly, raw element access), `div_nxm_normalized`, `div_nxm` (Knuth's algorithm D in place:
sub-slices passed to `submul_nx1` / `adc_n`, the `q_high` arm, the copy-back epilogue) and the dispatcher `algorithms::div`
(trimming re-borrows, the `expect` panic as `none`) are translated from the Rust source on every run and proved equal to the
models the theorems above are about — for every slice length, on the functions' documented domains. With the ties of the
word kernels (`gen_*_eq_model`) the whole division stack from `algorithms::div` down to `u64`/`u128` arithmetic is tied to
the source by translation; the driver executes the generated functions. -/

theorem gen_div_nx1_eq (limbs : List ℕ) (divisor : ℕ) (hl : AllLt limbs) (hne : limbs ≠ [])
    (h0 : 0 < divisor) (h2 : divisor < 2 ^ 64) (h64 : limbs.length < 2 ^ 64) (f : ℕ) (hf : limbs.length < f) :
    Ruint.Gen.div_nx1 f limbs divisor = divNx1 limbs divisor :=
  Ruint.Div.GenSmall.div_nx1_eq limbs divisor hl hne h0 h2 h64 f hf

theorem gen_div_nx2_eq (limbs : List ℕ) (divisor : ℕ) (hl : AllLt limbs) (hne : limbs ≠ [])
    (h1 : 2 ^ 64 ≤ divisor) (h2 : divisor < 2 ^ 128) (h64 : limbs.length < 2 ^ 64) (f : ℕ) (hf : limbs.length < f) :
    Ruint.Gen.div_nx2 f limbs divisor = divNx2 limbs divisor :=
  Ruint.Div.GenSmall.div_nx2_eq limbs divisor hl hne h1 h2 h64 f hf

/-- Knuth's algorithm D as the source defines it = the array model of `div_nxm_spec`, all lengths. -/
theorem gen_div_nxm_eq (num ds : List ℕ) (hn : AllLt num) (hd : AllLt ds) (h3 : 3 ≤ ds.length)
    (hlen : ds.length ≤ num.length) (htop : 0 < ds.getD (ds.length - 1) 0) (h64 : num.length < 2 ^ 64)
    (f : ℕ) (hf : num.length + 1 < f) :
    Ruint.Gen.div_nxm f num ds = divNxm num ds :=
  Ruint.Div.GenKnuth.div_nxm_eq num ds hn hd h3 hlen htop h64 f hf

/-- `div_nxm_normalized` as the source defines it yields the model's result whenever the model does not panic
    (the model's `none` is the library's `debug_assert!`, which the translation does not contain). -/
theorem gen_div_nxm_normalized_eq (num ds r : List ℕ) (hn : AllLt num) (hd : AllLt ds) (h2 : 2 ≤ ds.length)
    (htop : 2 ^ 63 ≤ ds.getD (ds.length - 1) 0) (h64 : num.length < 2 ^ 64)
    (hm : divNxmNormalized num ds = some r) (f : ℕ) (hf : num.length + 1 < f) :
    Ruint.Gen.div_nxm_normalized f num ds = r :=
  Ruint.Div.GenKnuthN.div_nxm_normalized_eq num ds r hn hd h2 htop h64 hm f hf

/-- **`algorithms::div` as the source defines it = the model, totally**: every pair of word slices, including the panic on
    a zero (or empty) divisor. -/
theorem gen_div_eq (num ds : List ℕ) (hn : AllLt num) (hd : AllLt ds) (h64 : num.length < 2 ^ 64)
    (hd64 : ds.length < 2 ^ 64) (f : ℕ) (hf : num.length + 1 < f) :
    Ruint.Gen.div f num ds = Ruint.Div.div num ds :=
  Ruint.Div.GenDispatch.div_eq_of
    (fun l d a b c e g f h => Ruint.Div.GenSmall.div_nx1_eq l d a b c e g f h)
    (fun l d a b c e g f h => Ruint.Div.GenSmall.div_nx2_eq l d a b c e g f h)
    (fun n d a b c e g h f i => Ruint.Div.GenKnuth.div_nxm_eq n d a b c e g h f i)
    num ds hn hd h64 hd64 f hf

end Ruint.C14
