import Ruint.Model.Div
import Ruint.Lemmas.Div.Full
import Ruint.Lemmas.Div.NLoop
import Ruint.Lemmas.Div.Div2x1
/-! C14 property theorems (placeholder header; filled below). -/
set_option autoImplicit false
namespace Ruint.C14
open Ruint.Div

/-- `reciprocal` returns `⌊(2^128 − 1)/d⌋ − 2^64` for every normalised `d`. -/
theorem reciprocal_spec (d : ℕ) (h1 : 2 ^ 63 ≤ d) (h2 : d < 2 ^ 64) :
    reciprocal d = (2 ^ 128 - 1) / d - 2 ^ 64 := by
  unfold reciprocal
  rw [Recip.recip_spec d h1 h2]
  unfold Recip.recipSpec Recip.M
  norm_num

end Ruint.C14
