import Ruint.Model.Codec.Rlp
import Ruint.Model.Codec.Scale
import Ruint.Model.Codec.Fixed
import Ruint.Model.Codec.Der
import Ruint.Model.Codec.Serde
import Ruint.Model.Codec.Postgres
/-! # C16 — codec round trips, advertised lengths, reference encodings (theorems) -/
namespace Ruint.C16
open Ruint Ruint.Codec

/-- `ssz_bytes_len = BYTES`. -/
theorem ssz_bytes_len (bits : Nat) : Fixed.sszBytesLen bits = nbytes bits := rfl

end Ruint.C16
