import Ruint.Lemmas.Codec.Rlp
import Ruint.Lemmas.Codec.RlpParity
import Ruint.Lemmas.Codec.RlpBits
import Ruint.Lemmas.Codec.Scale
import Ruint.Lemmas.Codec.Fixed
import Ruint.Lemmas.Codec.Der
import Ruint.Lemmas.Codec.Serde
import Ruint.Lemmas.Codec.Postgres
import Ruint.Lemmas.Codec.PostgresNumeric
import Ruint.Lemmas.Codec.TableTie
/-!
# C16 — every codec integration round-trips and emits its format's reference encoding

Property theorems only (proofs live in `Lemmas/Codec/*`). Every theorem quantifies over **all** widths `bits`
and all values `v < 2^bits`; the functions are the ones of `Model/Codec/*` that the correspondence driver
(`Drv/Codec.lean`) executes against the real integrations. Byte strings are `List ℕ` with entries `< 256`.

Per format: (1) `dec (enc v) = v` (with arbitrary trailing bytes where the decoder tolerates them, and the
number of bytes consumed), (2) advertised length = number of bytes produced, (3) ruint's encoder (`encImpl`, with
its fast paths) = the format's definition (`enc`), incl. equality with the codec crate's `u64/u128` encoder.
Side conditions `byteLen (nbytes bits) ≤ 8`, `nbytes bits < 2^32`… say that `BYTES` fits the format's own
length field (`usize` / `u32`); they hold for every type that fits in memory.
-/
namespace Ruint.C16
open Ruint Ruint.Codec

/-! ## RLP (alloy-rlp, fastrlp 0.3 / 0.4, parity rlp) -/

/-- the reference encoding: `0x80` for zero, a single byte below `0x80` as itself, otherwise string header
    (short `0x80+n`, long `0xb7+k` + `k` minimal length bytes) + minimal big-endian bytes. -/
theorem rlp_reference (v : ℕ) :
    Rlp.enc v = if v = 0 then [0x80] else if v < 0x80 then [v]
      else Rlp.strHeader (byteLen v) ++ beTrim v := Rlp.enc_eq v

/-- the minimal big-endian bytes denote `v` and have no leading zero byte. -/
theorem rlp_payload_minimal (v : ℕ) :
    beVal (beTrim v) = v ∧ (beTrim v).length = byteLen v ∧ (beTrim v).headD 1 ≠ 0 ∧ IsBytes (beTrim v) :=
  ⟨beVal_beTrim v, beTrim_length v, beTrim_head_ne_zero v, beTrim_isBytes v⟩

/-- ruint's `Encodable::encode` (LIMBS ∈ {0,1,2} fast paths, `bit_len` match, 55-byte switch) = the reference. -/
theorem rlp_encode_is_reference (bits v : ℕ) (hv : v < 2 ^ bits) : Rlp.encImpl bits v = Rlp.enc v :=
  Rlp.encImpl_eq bits v hv

/-- the codec crate's own `u64`/`u128` encoder gives the same bytes (any value a primitive can hold). -/
theorem rlp_prim_is_reference (v : ℕ) (hv : v < 2 ^ 128) : Rlp.encPrim v = Rlp.enc v :=
  Rlp.encPrim_eq v (lt_of_lt_of_le hv (by norm_num))

/-- `length()` = number of bytes produced. -/
theorem rlp_length (v : ℕ) : Rlp.lengthImpl v = (Rlp.enc v).length := Rlp.lengthImpl_eq v

/-- round trip for alloy-rlp / fastrlp, short AND long form, trailing bytes left in the buffer. -/
theorem rlp_roundtrip (bits v : ℕ) (tail : List ℕ) (hv : v < 2 ^ bits) (hB : byteLen (nbytes bits) ≤ 8) :
    Rlp.dec bits (Rlp.enc v ++ tail) = .ok (v, (Rlp.enc v).length) := Rlp.dec_enc bits v tail hv hB

/-- round trip for parity `rlp`. -/
theorem rlp_parity_roundtrip (bits v : ℕ) (tail : List ℕ) (hv : v < 2 ^ bits) (hB : byteLen (nbytes bits) ≤ 8) :
    Rlp.decParity bits (Rlp.enc v ++ tail) = .ok v := Rlp.decParity_enc bits v tail hv hB

/-- `Bits` through parity rlp: the full `BYTES`-long big-endian string round-trips. -/
theorem rlp_bits_roundtrip (bits v : ℕ) (tail : List ℕ) (hv : v < 2 ^ bits) (hB : byteLen (nbytes bits) ≤ 8) :
    Rlp.decParityBits bits (Rlp.encBits bits v ++ tail) = .ok v := Rlp.decParityBits_enc bits v tail hv hB

/-! ## SCALE -/

/-- compact form: the four modes and their boundaries `2^6`, `2^14`, `2^30`; big-integer mode prefix
    `(n−4)·4+3`, `n = byte_len` little-endian bytes denoting `v`, the last one non-zero. -/
theorem scale_compact_modes (v : ℕ) :
    (v < 2 ^ 6 → Scale.encCompact v = [4 * v]) ∧
    (2 ^ 6 ≤ v → v < 2 ^ 14 → Scale.encCompact v = toLE 2 (4 * v + 1)) ∧
    (2 ^ 14 ≤ v → v < 2 ^ 30 → Scale.encCompact v = toLE 4 (4 * v + 2)) ∧
    (2 ^ 30 ≤ v → Scale.encCompact v = ((byteLen v - 4) * 4 + 3) :: leTrim v ∧ 4 ≤ byteLen v
        ∧ (leTrim v).length = byteLen v ∧ leVal (leTrim v) = v ∧ (leTrim v).reverse.headD 1 ≠ 0) :=
  Scale.encCompact_modes v

/-- compact `size_hint` = exact encoded length (after the fix). -/
theorem scale_compact_size_hint (v : ℕ) : Scale.sizeHintCompact v = (Scale.encCompact v).length :=
  Scale.sizeHintCompact_eq v

/-- the pinned tree's hint was wrong (31 vs 7 bytes at `U64(2^40)`) and underflowed at `U512(2^31)`. -/
theorem scale_compact_size_hint_pinned_defect :
    Scale.sizeHintCompactPinned 64 (2 ^ 40) = some 31 ∧ (Scale.encCompact (2 ^ 40)).length = 7
    ∧ Scale.sizeHintCompactPinned 512 (2 ^ 31) = none := Scale.sizeHintCompactPinned_defect

/-- compact round trip at every width up to the 536-bit compact bound. -/
theorem scale_compact_roundtrip (bits v : ℕ) (tail : List ℕ) (hv : v < 2 ^ bits) (hb : bits ≤ 536) :
    Scale.decCompact bits (Scale.encCompact v ++ tail) = .ok (v, (Scale.encCompact v).length) :=
  Scale.decCompact_enc bits v tail hv hb

/-- fixed form: `size_hint` is an upper bound, `max_encoded_len` (after the fix) exact. -/
theorem scale_fixed_lengths (bits v : ℕ) (hB : nbytes bits < 2 ^ 30) :
    (Scale.encFixed bits v).length ≤ Scale.sizeHintFixed bits
    ∧ (Scale.encFixed bits v).length = Scale.maxEncodedLen bits := Scale.encFixed_length bits v hB

theorem scale_fixed_roundtrip (bits v : ℕ) (tail : List ℕ) (hv : v < 2 ^ bits) (hB : nbytes bits < 2 ^ 32) :
    Scale.decFixed bits (Scale.encFixed bits v ++ tail) = .ok (v, (Scale.encFixed bits v).length) :=
  Scale.decFixed_enc bits v tail hv hB

/-! ## SSZ, borsh, binary serde: `BYTES` bytes, little- resp. big-endian -/

/-- fixed-width little-endian: exactly `BYTES` bytes denoting `v`. -/
theorem fixed_le_reference (bits v : ℕ) (hv : v < 2 ^ bits) :
    (toLE (nbytes bits) v).length = nbytes bits ∧ leVal (toLE (nbytes bits) v) = v ∧ IsBytes (toLE (nbytes bits) v) :=
  ⟨toLE_length _ _, leVal_toLE_of_lt _ _ (lt_of_lt_of_le hv (two_pow_le_pow_nbytes bits)), toLE_isBytes _ _⟩

/-- fixed-width big-endian (binary serde): exactly `BYTES` bytes denoting `v`. -/
theorem fixed_be_reference (bits v : ℕ) (hv : v < 2 ^ bits) :
    (toBE (nbytes bits) v).length = nbytes bits ∧ beVal (toBE (nbytes bits) v) = v ∧ IsBytes (toBE (nbytes bits) v) :=
  ⟨toBE_length _ _, beVal_toBE_of_lt _ _ (lt_of_lt_of_le hv (two_pow_le_pow_nbytes bits)), toBE_isBytes _ _⟩

/-- `ssz_bytes_len = BYTES` = number of bytes produced. -/
theorem ssz_bytes_len (bits v : ℕ) : (Fixed.encSsz bits v).length = Fixed.sszBytesLen bits ∧ Fixed.sszBytesLen bits = nbytes bits :=
  ⟨Fixed.encSsz_length bits v, rfl⟩

theorem ssz_roundtrip (bits v : ℕ) (hv : v < 2 ^ bits) : Fixed.decSsz bits (Fixed.encSsz bits v) = .ok v :=
  Fixed.decSsz_enc bits v hv

theorem borsh_roundtrip (bits v : ℕ) (tail : List ℕ) (hv : v < 2 ^ bits) :
    Fixed.decBorshReader bits (Fixed.encBorsh bits v ++ tail) = .ok (v, (Fixed.encBorsh bits v).length)
    ∧ Fixed.decBorsh bits (Fixed.encBorsh bits v) = .ok v :=
  ⟨Fixed.decBorshReader_enc bits v tail hv, Fixed.decBorsh_enc bits v hv⟩

theorem serde_binary_roundtrip (bits v : ℕ) (tail : List ℕ) (hv : v < 2 ^ bits) (hB : nbytes bits < 2 ^ 64) :
    Fixed.visitBytes bits (Fixed.encSerdeBinary bits v) = .ok v
    ∧ Fixed.decBincode bits (Fixed.encBincode bits v ++ tail) = .ok v :=
  ⟨Fixed.visitBytes_enc bits v hv, Fixed.decBincode_enc bits v tail hv hB⟩

/-! ## DER -/

/-- the content octets are the minimal two's complement of a non-negative integer: minimal big-endian bytes,
    preceded by a `00` sign byte exactly when the top bit would be set (or the value is zero). -/
theorem der_content (v : ℕ) :
    Der.content v = if v = 0 then [0] else if bitLen v % 8 = 0 then 0 :: beTrim v else beTrim v :=
  Der.content_eq v

/-- `value_len()` = number of content octets; hence `to_der` (header from `value_len`) is the canonical form. -/
theorem der_value_len (v : ℕ) : Der.valueLen v = (Der.content v).length ∧ Der.encImpl v = Der.enc v :=
  ⟨Der.valueLen_eq v, Der.encImpl_eq v⟩

theorem der_roundtrip (bits v : ℕ) (hv : v < 2 ^ bits) (hB : nbytes bits + 1 ≤ 0xfffffff) :
    Der.dec bits (Der.enc v) = .ok v := Der.dec_enc bits v hv hB

/-! ## human-readable serde (JSON) -/

/-- the quantity is `0x0` for zero and otherwise `0x` + exactly `⌈bit_len/4⌉` lower-case hex digits, the first of
    which is not `0` (minimal). -/
theorem json_reference (v : ℕ) :
    Serde.hexMinimal 0 = [48, 120, 48] ∧
    (v ≠ 0 → Serde.hexMinimal v = 48 :: 120 :: Serde.hexDigits (Serde.hexLen v) v
      ∧ ∃ d ds, Serde.hexDigits (Serde.hexLen v) v = Serde.hexDigit d :: ds ∧ 1 ≤ d ∧ d < 16) := by
  refine ⟨rfl, fun hv => ⟨by unfold Serde.hexMinimal; rw [if_neg hv], Serde.hexMinimal_minimal v hv⟩⟩

/-- `serde_json::from_str(to_string(v)) = v`, every width incl. 0. -/
theorem json_roundtrip (bits v : ℕ) (hv : v < 2 ^ bits) : Serde.decJson bits (Serde.encJson v) = some v :=
  Serde.decJson_encJson bits v hv

/-- `FromStr` reads the quantity back (used by postgres TEXT/JSON). -/
theorem from_str_quantity (bits v : ℕ) (hv : v < 2 ^ bits) : Serde.fromStr bits (Serde.hexMinimal v) = some v :=
  Serde.fromStr_hexMinimal bits v hv

/-! ## postgres -/

/-- for EVERY non-float column type whose `to_sql` of the value succeeds, `from_sql(to_sql v) = v`
    (BOOL, INT2, INT4, OID, INT8, MONEY, BYTEA, BIT, VARBIT, CHAR, TEXT, VARCHAR, JSON, JSONB, NUMERIC — the last
    through the base-10000 digit loop, trailing-zero trimming and weight). -/
theorem pg_roundtrip (ty : Pg.Ty) (bits v : ℕ) (e : List ℕ) (hv : v < 2 ^ bits)
    (h : Pg.toSql ty bits v = some e) : Pg.fromSql ty bits e = .ok v := by
  by_cases hty : ty = .numeric
  · subst hty; exact Pg.numeric_roundtrip bits v e hv h
  · exact Pg.roundtrip ty bits v e hv hty h

/-! ## limb-array identities: num-bigint, primitive-types, ark-ff, bytemuck -/

theorem limbs_identity (bits v : ℕ) (hv : v < 2 ^ bits) :
    val (Fixed.limbs bits v) = v ∧ Canon bits (Fixed.limbs bits v) := Fixed.limbs_roundtrip bits v hv

theorem bigint_roundtrip (bits v : ℕ) (hv : v < 2 ^ bits) : Fixed.fromBigInt bits false v = .ok v :=
  Fixed.fromBigInt_roundtrip bits v hv

/-! ## non-vacuity: concrete encodings computed by the model functions -/
example : Rlp.enc 1024 = [0x82, 0x04, 0x00] := by decide
example : Rlp.encImpl 256 1024 = [0x82, 0x04, 0x00] ∧ Rlp.lengthImpl 1024 = 3 := by decide
example : Rlp.dec 256 [0x82, 0x04, 0x00, 0x5a] = .ok (1024, 3) := by decide
example : Scale.encCompact 0x3fff = [0xfd, 0xff] ∧ Scale.encCompact 0x4000 = [0x02, 0x00, 0x01, 0x00] := by decide
example : Scale.encCompact (2 ^ 30) = [0x03, 0, 0, 0, 0x40] := by decide
example : Der.enc 128 = [0x02, 0x02, 0x00, 0x80] ∧ Der.enc 0 = [0x02, 0x01, 0x00] := by decide
example : Der.dec 256 [0x02, 0x02, 0x00, 0x80] = .ok 128 := by decide

/-! ### mode boundaries and prefix constants re-extracted from the codec sources (`Gen/CodecTable.lean`)

The bit-length ranges of SCALE `CompactRefUint::size_hint` / `encode_to` with their sizes, integer widths and mode tags, the
big-integer prefix constants and `COMPACT_BITS_LIMIT` (`src/support/scale.rs`), and the single-byte threshold, `MAX_BITS` and the
long-form comparison of alloy-rlp `length()` / `encode()` (`src/support/alloy_rlp.rs`) are extracted as data on every run;
interpreted row by row they are the encoder models of the theorems above, for every value. A changed boundary, size, width,
tag, prefix or comparison breaks this obligation for every input at once. -/

open Ruint.Codec.TableTie Ruint.Gen.CodecTable in
theorem gen_codec_tables (bits v : ℕ) :
    hintT scaleHintModes v = Ruint.Codec.Scale.sizeHintCompact v
    ∧ encT scaleEncModes scaleBig v = Ruint.Codec.Scale.encCompact v
    ∧ scaleBitsLimit = Ruint.Codec.Scale.compactBitsLimit
    ∧ rlpLengthT rlpLen v = Ruint.Codec.Rlp.lengthImpl v
    ∧ (2 < nlimbs bits → rlpEncT rlpSingle rlpMaxBits rlpLongCmp bits v = Ruint.Codec.Rlp.encImpl bits v) :=
  ⟨scale_hint_eq v, scale_enc_eq v, scale_limit_eq, rlp_lengthT_eq v, rlp_enc_eq bits v⟩

end Ruint.C16
