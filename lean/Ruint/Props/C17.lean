import Ruint.Lemmas.Codec.Rlp
import Ruint.Lemmas.Codec.RlpParity
import Ruint.Lemmas.Codec.RlpBits
import Ruint.Lemmas.Codec.Scale
import Ruint.Lemmas.Codec.Fixed
import Ruint.Lemmas.Codec.Der
import Ruint.Lemmas.Codec.RlpTrunc
import Ruint.Lemmas.Codec.TooLarge
import Ruint.Lemmas.Codec.DerTrunc
import Ruint.Lemmas.Codec.Serde
import Ruint.Lemmas.Codec.Postgres
import Ruint.Lemmas.Codec.TableTie
import Ruint.Lemmas.Codec.GenDer
/-!
# C17 — decoders are total on untrusted input: no out-of-range value, canonical decoders reject non-minimal input

The decoder models (`Model/Codec/*`) are TOTAL functions `bytes → Except Err (value × consumed)` (Lean checks
termination), so "terminates without panicking" holds of the model by construction; for the IMPLEMENTATION it is
carried by the correspondence (the real decoder's outcome must equal the model's `ok/err`; `panic` never matches).
The theorems here are the content: **range** (`ok v → v < 2^bits`), **denotation** (the consumed prefix denotes `v`),
and **canonicity** for alloy-rlp, fastrlp 0.3/0.4 and DER (`ok (v, n) → enc v = bs.take n`, so every non-minimal,
over-long, zero-padded or otherwise malformed input is an error), for ALL widths and ALL byte strings.
-/
namespace Ruint.C17
open Ruint Ruint.Codec

/-! ## the byte-slice parsers every decoder ends in -/

/-- `try_from_be_slice`: `Some v` iff at most `BYTES` bytes whose big-endian value is `v < 2^bits`. -/
theorem try_from_be_slice_spec (bits : ℕ) (bs : List ℕ) (v : ℕ) :
    tryFromBE bits bs = some v ↔ bs.length ≤ nbytes bits ∧ beVal bs = v ∧ v < 2 ^ bits :=
  tryFromBE_eq_some bits bs v

theorem try_from_le_slice_spec (bits : ℕ) (bs : List ℕ) (v : ℕ) :
    tryFromLE bits bs = some v ↔ bs.length ≤ nbytes bits ∧ leVal bs = v ∧ v < 2 ^ bits :=
  tryFromLE_eq_some bits bs v

/-! ## alloy-rlp, fastrlp 0.3, fastrlp 0.4 (canonical) -/

/-- an accepted input starts with the reference encoding of the returned value, exactly those bytes are consumed,
    and the value is in range. (Short and long form.) -/
theorem rlp_canonical (bits : ℕ) (bs : List ℕ) (hbs : IsBytes bs) (v n : ℕ) (h : Rlp.dec bits bs = .ok (v, n)) :
    v < 2 ^ bits ∧ n ≤ bs.length ∧ bs.take n = Rlp.enc v := Rlp.dec_canonical bits bs hbs v n h

/-- consequently every input that is not `enc v ++ tail` for an in-range `v` is an error: e.g. anything whose
    consumed prefix differs from the reference encoding of the value it would denote. -/
theorem rlp_rejects_noncanonical (bits : ℕ) (bs : List ℕ) (hbs : IsBytes bs)
    (h : ∀ v, v < 2 ^ bits → ¬ (Rlp.enc v).length ≤ bs.length ∨ bs.take (Rlp.enc v).length ≠ Rlp.enc v) :
    ∃ e, Rlp.dec bits bs = .error e := by
  match hd : Rlp.dec bits bs with
  | .error e => exact ⟨e, rfl⟩
  | .ok (v, n) =>
    exfalso
    obtain ⟨h1, h2, h3⟩ := Rlp.dec_canonical bits bs hbs v n hd
    have hl : (Rlp.enc v).length = n := by rw [← h3, List.length_take]; omega
    rcases h v h1 with h4 | h4
    · omega
    · rw [hl] at h4; exact h4 h3

/-- an input denoting a value `≥ 2^bits` is an error: the reference encoding of a too-large value is rejected
    with `Overflow` (whatever follows it). -/
theorem rlp_too_large (bits v : ℕ) (tail : List ℕ) (hv : 2 ^ bits ≤ v) (hB : byteLen (byteLen v) ≤ 8) :
    Rlp.dec bits (Rlp.enc v ++ tail) = .error .overflow := Rlp.dec_too_large bits v tail hv hB

/-- truncated input is an error: EVERY proper prefix of a reference encoding is rejected. -/
theorem rlp_truncated (bits v k : ℕ) (hv : v < 2 ^ bits) (hB : byteLen (nbytes bits) ≤ 8)
    (hk : k < (Rlp.enc v).length) : ∃ e, Rlp.dec bits ((Rlp.enc v).take k) = .error e :=
  Rlp.dec_truncated bits v k hv hB hk

/-- accepting is stable under appending bytes: the decoder only looks at the item it consumes. -/
theorem rlp_prefix_stable (bits : ℕ) (bs t : List ℕ) (hbs : IsBytes bs) (v n : ℕ) (h : Rlp.dec bits bs = .ok (v, n)) :
    Rlp.dec bits (bs ++ t) = .ok (v, n) := Rlp.dec_append bits bs t hbs v n h

/-- the error kinds of the brief, each witnessed on the model (non-canonical single byte, leading zero, overflow,
    truncated, list, non-canonical long form, long-form length with a leading zero). -/
theorem rlp_error_witnesses :
    Rlp.dec 256 [0x81, 0x05] = .error .nonCanonicalSingleByte
    ∧ Rlp.dec 64 [0x82, 0x00, 0x01] = .error .leadingZero
    ∧ Rlp.dec 8 [0x82, 0x01, 0x00] = .error .overflow
    ∧ Rlp.dec 256 [0x83, 0x01] = .error .inputTooShort
    ∧ Rlp.dec 256 [0xc2, 0x01, 0x02] = .error .unexpectedList
    ∧ Rlp.dec 256 [0xb8, 0x02, 0x01, 0x02] = .error .nonCanonicalSize
    ∧ Rlp.dec 512 [0xb9, 0x00, 0x38] = .error .leadingZero := by decide

/-! ## parity rlp (lenient towards non-minimal STRINGS by design; lists rejected after the fix) -/

theorem rlp_parity_sound (bits : ℕ) (bs : List ℕ) (v : ℕ) (h : Rlp.decParity bits bs = .ok v) :
    v < 2 ^ bits ∧ bs.headD 0 < 0xc0 ∧
      ∃ hl vl, Rlp.payloadInfo bs = .ok (hl, vl) ∧ hl + vl ≤ bs.length ∧ vl ≤ nbytes bits
        ∧ beVal ((bs.drop hl).take vl) = v := Rlp.decParity_sound bits bs v h

/-- a list item denotes no integer: rejected (the pinned tree returned `258` for `c2 01 02` and `0` for `c0`). -/
theorem rlp_parity_rejects_lists (bits : ℕ) (b : ℕ) (rest : List ℕ) (hb : 0xc0 ≤ b) :
    Rlp.decParity bits (b :: rest) = .error .rlpExpectedToBeData := by
  unfold Rlp.decParity
  rw [if_pos (by simpa using hb)]

/-- `Bits` through parity rlp: accepted ⇒ a payload of exactly `BYTES` bytes denoting a value in range. -/
theorem rlp_bits_sound (bits : ℕ) (bs : List ℕ) (v : ℕ) (h : Rlp.decParityBits bits bs = .ok v) :
    v < 2 ^ bits ∧ ∃ d, d.length = nbytes bits ∧ beVal d = v := Rlp.decParityBits_sound bits bs v h

/-! ## DER (canonical) -/

/-- an accepted input IS the canonical encoding of the returned in-range value (no trailing data, minimal length
    octets, minimal two's complement content with the sign byte exactly when needed). -/
theorem der_canonical (bits : ℕ) (bs : List ℕ) (hbs : IsBytes bs) (v : ℕ) (h : Der.dec bits bs = .ok v) :
    v < 2 ^ bits ∧ bs = Der.enc v := Der.dec_canonical bits bs hbs v h

/-- the canonical encoding of a value that does not fit the type is rejected. -/
theorem der_too_large (bits v : ℕ) (hv : 2 ^ bits ≤ v) (hL : (Der.content v).length ≤ 0xfffffff) :
    Der.dec bits (Der.enc v) = .error .noncanonical := Der.dec_too_large bits v hv hL

/-- truncated input is an error: EVERY proper prefix of a canonical DER INTEGER is rejected. -/
theorem der_truncated (bits v k : ℕ) (hL : (Der.content v).length ≤ 0xfffffff) (hk : k < (Der.enc v).length) :
    ∃ e, Der.dec bits ((Der.enc v).take k) = .error e := Der.dec_truncated bits v k hL hk

theorem der_error_witnesses :
    Der.dec 256 [0x02, 0x02, 0x00, 0x01] = .error .noncanonical      -- redundant sign byte
    ∧ Der.dec 256 [0x02, 0x01, 0x80] = .error .value                  -- negative
    ∧ Der.dec 256 [0x02, 0x81, 0x01, 0x01] = .error .length           -- non-minimal length octets
    ∧ Der.dec 8 [0x02, 0x02, 0x01, 0x00] = .error .noncanonical       -- too large
    ∧ Der.dec 256 [0x02, 0x02, 0x01] = .error .incomplete             -- truncated
    ∧ Der.dec 256 [0x02, 0x01, 0x01, 0x00] = .error .trailingData
    ∧ Der.dec 256 [0x04, 0x01, 0x01] = .error .tag
    ∧ Der.dec 256 [0x02, 0x80] = .error .indefiniteLength := by decide

/-! ## SCALE -/

theorem scale_compact_sound (bits : ℕ) (bs : List ℕ) (v n : ℕ) (h : Scale.decCompact bits bs = .ok (v, n)) :
    v < 2 ^ bits ∧ Scale.CompactDenotes bs v n ∧ Scale.denoteCompact bs = some (v, n) :=
  ⟨(Scale.decCompact_sound bits bs v n h).1, (Scale.decCompact_sound bits bs v n h).2,
    (Scale.decCompact_denote bits bs v n h).2⟩

theorem scale_fixed_sound (bits : ℕ) (bs : List ℕ) (v n : ℕ) (h : Scale.decFixed bits bs = .ok (v, n)) :
    v < 2 ^ bits ∧ n ≤ bs.length ∧
      ∃ len hl, Scale.decCompactU32 bs = .ok (len, hl) ∧ n = hl + len ∧ len ≤ nbytes bits
        ∧ leVal ((bs.drop hl).take len) = v := Scale.decFixed_sound bits bs v n h

/-! ## SSZ, borsh, bincode: fixed width — accepted input IS the encoding; wrong length is an error -/

theorem ssz_sound (bits : ℕ) (bs : List ℕ) (hbs : IsBytes bs) (v : ℕ) (h : Fixed.decSsz bits bs = .ok v) :
    v < 2 ^ bits ∧ bs = Fixed.encSsz bits v := Fixed.decSsz_sound bits bs hbs v h

/-- truncated (or over-long) SSZ input is an error (the pinned tree accepted shorter input). -/
theorem ssz_wrong_length (bits : ℕ) (bs : List ℕ) (h : bs.length ≠ nbytes bits) :
    Fixed.decSsz bits bs = .error .invalidByteLength := Fixed.decSsz_wrong_length bits bs h

theorem borsh_sound (bits : ℕ) (bs : List ℕ) (hbs : IsBytes bs) (v : ℕ) (h : Fixed.decBorsh bits bs = .ok v) :
    v < 2 ^ bits ∧ bs = Fixed.encBorsh bits v := Fixed.decBorsh_sound bits bs hbs v h

theorem borsh_reader_sound (bits : ℕ) (bs : List ℕ) (hbs : IsBytes bs) (v n : ℕ)
    (h : Fixed.decBorshReader bits bs = .ok (v, n)) :
    v < 2 ^ bits ∧ n = nbytes bits ∧ n ≤ bs.length ∧ bs.take n = Fixed.encBorsh bits v :=
  Fixed.decBorshReader_sound bits bs hbs v n h

theorem bincode_sound (bits : ℕ) (bs : List ℕ) (hbs : IsBytes bs) (v : ℕ) (h : Fixed.decBincode bits bs = .ok v) :
    v < 2 ^ bits ∧ 8 + nbytes bits ≤ bs.length ∧ leVal (bs.take 8) = nbytes bits
      ∧ (bs.drop 8).take (nbytes bits) = Fixed.encSerdeBinary bits v := Fixed.decBincode_sound bits bs hbs v h

/-! ## text: `FromStr`, serde_json, postgres -/

/-- `FromStr` (prefix sniffing, `_` ignored, digit loop with overflow check) only returns values in range. -/
theorem from_str_range (bits : ℕ) (s : List ℕ) (v : ℕ) (h : Serde.fromStr bits s = some v) : v < 2 ^ bits :=
  Serde.fromStr_range bits s v h

/-- `serde_json::from_slice` (string with escapes or number token): accepted ⇒ in range. -/
theorem json_range (bits : ℕ) (inp : List ℕ) (v : ℕ) (h : Serde.decJson bits inp = some v) : v < 2 ^ bits :=
  Serde.decJson_range bits inp v h

/-- postgres `from_sql`, EVERY column type (ints, MONEY, BYTEA, BIT/VARBIT, text, JSON(B), NUMERIC): accepted ⇒ in
    range. -/
theorem pg_range (ty : Pg.Ty) (bits : ℕ) (raw : List ℕ) (v : ℕ) (h : Pg.fromSql ty bits raw = .ok v) : v < 2 ^ bits :=
  Pg.fromSql_range ty bits raw v h

/-- the four inputs on which the pinned tree panicked are plain errors (or values) of the repaired decoder. -/
theorem pg_former_panics :
    Pg.fromSql .jsonb 64 [] = .error .pgParseError
    ∧ Pg.fromSql .json 64 [34] = .error .pgOther
    ∧ Pg.fromSql .bit 64 [0, 0, 0, 4] = .error .pgParseError
    ∧ Pg.fromSql .numeric 64 [0, 1, 0x7f, 0xff, 0, 0, 0, 0, 0, 1] = .error .pgOther
    ∧ Pg.fromSql .numeric 64 [0, 0, 0x7f, 0xff, 0, 0, 0, 0] = .ok 0 := by decide +kernel

/-! ## num-bigint -/
theorem bigint_sound (bits : ℕ) (neg : Bool) (mag v : ℕ) (h : Fixed.fromBigInt bits neg mag = .ok v) :
    v < 2 ^ bits ∧ neg = false ∧ v = mag := Fixed.fromBigInt_sound bits neg mag v h

/-- the accepted ranges of modes 1 and 2 and the 4-byte big-integer test of the SCALE compact decoder, re-extracted from
    `src/support/scale.rs` on every run (`Gen/CodecTable.scaleDec`): the decoder interpreted with the extracted constants is
    the model `decCompact` of the theorems above, for every width and every input. -/
theorem gen_scale_decoder_table (bits : ℕ) (bs : List ℕ) :
    Ruint.Codec.TableTie.decT Ruint.Gen.CodecTable.scaleDec bits bs = Ruint.Codec.Scale.decCompact bits bs :=
  Ruint.Codec.TableTie.scale_dec_eq bits bs

/-! ## Tie of the DER content decoders to the source (G)

`Ruint.Gen.der_from_der_slice` / `der_from_der_uint_slice` are regenerated from `src/support/der.rs` on every run: the slice
patterns with their guards (`[]`, `[0, byte, ..] if *byte < 0x80`, `[0, rest @ ..]`, `[byte, ..] if *byte >= 0x80`, `[0]`,
`[0, ..]`), their order, the `?`, and the call of the generated `try_from_be_slice` with `ok_or_else`. Declared rewrites: the
three error constructors of the `der` crate are the codes 0 (length), 1 (non-canonical), 2 (value). They are the models
`Der.fromDerSlice` / `Der.fromDerUintSlice` that `Der.dec` (and the theorems above) are built on — on every byte string, with
the accepted value canonical and no panic. -/

theorem gen_from_der_slice_eq (bits : ℕ) (hN : nlimbs bits < 2 ^ 60) (hB : bits + 7 < 2 ^ 64) (bs : List ℕ)
    (hb : ∀ x ∈ bs, x < 256) (f : ℕ) (hf : nlimbs bits + bs.length + 1 < f) :
    Ruint.GenDer.toRes (Ruint.Gen.der_from_der_slice f bits (nlimbs bits) bs) = some (Ruint.Codec.Der.fromDerSlice bits bs)
    ∧ (∀ l, Ruint.Gen.der_from_der_slice f bits (nlimbs bits) bs = some (.ok l) → Ruint.Canon bits l) :=
  Ruint.GenDer.from_der_slice_eq bits hN hB bs hb f hf

theorem gen_from_der_uint_slice_eq (bits : ℕ) (hN : nlimbs bits < 2 ^ 60) (hB : bits + 7 < 2 ^ 64) (bs : List ℕ)
    (hb : ∀ x ∈ bs, x < 256) (f : ℕ) (hf : nlimbs bits + bs.length + 1 < f) :
    Ruint.GenDer.toRes (Ruint.Gen.der_from_der_uint_slice f bits (nlimbs bits) bs)
      = some (Ruint.Codec.Der.fromDerUintSlice bits bs)
    ∧ (∀ l, Ruint.Gen.der_from_der_uint_slice f bits (nlimbs bits) bs = some (.ok l) → Ruint.Canon bits l) :=
  Ruint.GenDer.from_der_uint_slice_eq bits hN hB bs hb f hf

end Ruint.C17
