import Ruint.Model.Codec.Rlp
import Ruint.Model.Codec.Scale
import Ruint.Model.Codec.Fixed
import Ruint.Model.Codec.Der
import Ruint.Model.Codec.Serde
import Ruint.Model.Codec.Postgres
/-! # C17 — decoders are total on untrusted input (theorems) -/
namespace Ruint.C17
open Ruint Ruint.Codec

/-- `try_from_be_slice` only returns values below `2^bits`. -/
theorem tryFromBE_range (bits : Nat) (bs : List Nat) (v : Nat) (h : tryFromBE bits bs = some v) : v < 2 ^ bits := by
  unfold tryFromBE at h
  split at h
  · simp at h
  · split at h
    · simp at h; omega
    · simp at h

end Ruint.C17
