import Ruint.Model.DivUint
import Ruint.Lemmas.Div.Uint
import Ruint.Lemmas.Div.GenUintDiv
import Ruint.Props.C14
import Ruint.Lemmas.GenBinOps
/-!
# C03 — division and remainder satisfy the Euclidean contract at the `Uint` surface

Property theorems only, about the functions of `Ruint/Model/DivUint.lean` (which run the C14 model
`Ruint.Div.div` on the two limb arrays) — the functions the driver `Drv/C03.lean` executes against the
real `Uint` methods and operators. `Canon bits l`: `nlimbs bits` words with value `< 2^bits`.
`none` = panic; the checked forms return `some none` for `None`.

For every width `bits` (a variable, incl. 0 and non-multiples of 64) and all canonical operands:
* non-zero divisor: `div_rem` / `/` / `%` / `wrapping_*` / `checked_*` return the unique `(q, r)` with
  `n = q·d + r`, `0 ≤ r < d`, canonical, and never panic;
* zero divisor: the panicking forms panic, the checked forms yield `None`;
* `div_ceil = ⌈n/d⌉`; `checked_next_multiple_of` = the least multiple of `d` that is `≥ n` if it fits in
  `bits` bits, else `None` (and `None` for `d = 0`); `next_multiple_of` = its `unwrap` (repaired by the
  `fix:` commit; the pinned body `…unwrap(); todo!()` panicked on every input — `next_multiple_of_pinned_always_panics`).
All full strength, no `_partial`.
-/
set_option autoImplicit false
namespace Ruint.C03
open Ruint.DivU

/-- **Euclidean contract of `div_rem`**: for a non-zero divisor, no panic, `q = ⌊n/d⌋`, `r = n mod d`,
    both canonical. -/
theorem div_rem_spec (bits : ℕ) (n d : List ℕ) (hn : Canon bits n) (hd : Canon bits d) (h : val d ≠ 0) :
    ∃ q r, divRem bits n d = some (q, r) ∧ val q = val n / val d ∧ val r = val n % val d
      ∧ Canon bits q ∧ Canon bits r :=
  divRem_ok bits n d hn hd h

/-- uniqueness form: the returned pair is the unique `(q, r)` with `n = q·d + r`, `0 ≤ r < d`. -/
theorem div_rem_unique (bits : ℕ) (n d : List ℕ) (hn : Canon bits n) (hd : Canon bits d) (h : val d ≠ 0) :
    ∃ q r, divRem bits n d = some (q, r) ∧ val n = val q * val d + val r ∧ val r < val d
      ∧ ∀ q' r' : ℕ, val n = q' * val d + r' → r' < val d → q' = val q ∧ r' = val r := by
  obtain ⟨q, r, e, hq, hr, _, _⟩ := divRem_ok bits n d hn hd h
  refine ⟨q, r, e, ?_, ?_, ?_⟩
  · rw [hq, hr, Nat.mul_comm]; exact (Nat.div_add_mod _ _).symm
  · rw [hr]; exact Nat.mod_lt _ (Nat.pos_of_ne_zero h)
  · intro q' r' h1 h2
    obtain ⟨e1, e2⟩ := Ruint.Div.divmod_unique _ _ _ _ h1 h2
    rw [hq, hr]; exact ⟨e1, e2⟩

/-- `wrapping_div`, `/`, `/=` (all operand shapes) -/
theorem wrapping_div_spec (bits : ℕ) (n d : List ℕ) (hn : Canon bits n) (hd : Canon bits d) (h : val d ≠ 0) :
    ∃ q, wrappingDiv bits n d = some q ∧ val q = val n / val d ∧ Canon bits q := by
  obtain ⟨q, r, e, hq, _, cq, _⟩ := divRem_ok bits n d hn hd h
  exact ⟨q, by simp [wrappingDiv, e], hq, cq⟩

/-- `wrapping_rem`, `%`, `%=` (all operand shapes) -/
theorem wrapping_rem_spec (bits : ℕ) (n d : List ℕ) (hn : Canon bits n) (hd : Canon bits d) (h : val d ≠ 0) :
    ∃ r, wrappingRem bits n d = some r ∧ val r = val n % val d ∧ Canon bits r := by
  obtain ⟨q, r, e, _, hr, _, cr⟩ := divRem_ok bits n d hn hd h
  exact ⟨r, by simp [wrappingRem, e], hr, cr⟩

/-- `checked_div`: `None` exactly for a zero divisor, else `Some(⌊n/d⌋)`; never panics. -/
theorem checked_div_spec (bits : ℕ) (n d : List ℕ) (hn : Canon bits n) (hd : Canon bits d) :
    (val d = 0 → checkedDiv bits n d = some none)
    ∧ (val d ≠ 0 → ∃ q, checkedDiv bits n d = some (some q) ∧ val q = val n / val d ∧ Canon bits q) := by
  constructor
  · intro h; simp [checkedDiv, (isZero_iff d).mpr h]
  · intro h
    obtain ⟨q, e, hq, cq⟩ := wrapping_div_spec bits n d hn hd h
    exact ⟨q, by simp [checkedDiv, (isZero_false_iff d).mpr h, e], hq, cq⟩

/-- `checked_rem`: `None` exactly for a zero divisor, else `Some(n mod d)`; never panics. -/
theorem checked_rem_spec (bits : ℕ) (n d : List ℕ) (hn : Canon bits n) (hd : Canon bits d) :
    (val d = 0 → checkedRem bits n d = some none)
    ∧ (val d ≠ 0 → ∃ r, checkedRem bits n d = some (some r) ∧ val r = val n % val d ∧ Canon bits r) := by
  constructor
  · intro h; simp [checkedRem, (isZero_iff d).mpr h]
  · intro h
    obtain ⟨r, e, hr, cr⟩ := wrapping_rem_spec bits n d hn hd h
    exact ⟨r, by simp [checkedRem, (isZero_false_iff d).mpr h, e], hr, cr⟩

/-- **zero divisor panics in every panicking form** (`div_rem`, `/`, `%`, `wrapping_div`, `wrapping_rem`,
    `div_ceil`, `next_multiple_of`) — at every width, including `BITS = 0` where every divisor is zero. -/
theorem zero_divisor_panics (bits : ℕ) (n d : List ℕ) (hn : Canon bits n) (hd : Canon bits d) (h : val d = 0) :
    divRem bits n d = none ∧ wrappingDiv bits n d = none ∧ wrappingRem bits n d = none
    ∧ divCeil bits n d = none ∧ nextMultipleOf bits n d = none := by
  have e := divRem_zero bits n d hn hd h
  refine ⟨e, by simp [wrappingDiv, e], by simp [wrappingRem, e], by simp [divCeil, e], ?_⟩
  simp [nextMultipleOf, checkedNextMultipleOf, (isZero_iff d).mpr h]

/-- `div_ceil = ⌈n/d⌉` (written `(n + d − 1) / d` on ℕ), canonical, no panic for a non-zero divisor. -/
theorem div_ceil_spec (bits : ℕ) (n d : List ℕ) (hn : Canon bits n) (hd : Canon bits d) (h : val d ≠ 0) :
    ∃ c, divCeil bits n d = some c ∧ val c = (val n + val d - 1) / val d ∧ Canon bits c
      ∧ (val c - 1) * val d < val n + (if val n = 0 then 1 else 0) ∧ val n ≤ val c * val d := by
  obtain ⟨q, r, e, hq, hr, cq, cr⟩ := divRem_ok bits n d hn hd h
  have hdpos : 0 < val d := Nat.pos_of_ne_zero h
  obtain ⟨c0, c1⟩ := ceil_div (val n) (val d) hdpos
  have hbits := bits_pos_of_val_ne_zero bits d hd h
  have hdm := Nat.div_add_mod (val n) (val d)
  have hml := Nat.mod_lt (val n) hdpos
  have key : ∃ c, divCeil bits n d = some c ∧ val c = (val n + val d - 1) / val d ∧ Canon bits c := by
    by_cases hr0 : val r = 0
    · refine ⟨q, by simp [divCeil, e, (isZero_iff r).mpr hr0], ?_, cq⟩
      rw [c0 (by rw [← hr]; exact hr0), hq]
    · have hrne : val n % val d ≠ 0 := by rw [← hr]; exact hr0
      have h1 : 1 % 2 ^ bits = 1 := Nat.mod_eq_of_lt (Nat.one_lt_two_pow (by omega))
      obtain ⟨cc, cv⟩ := canon_ofVal bits (val q + 1 % 2 ^ bits)
      refine ⟨_, by simp [divCeil, e, (isZero_false_iff r).mpr hr0], ?_, cc⟩
      rw [cv, h1, c1 hrne, hq]
      apply Nat.mod_eq_of_lt
      -- q + 1 ≤ n: d ≥ 2 because the remainder is non-zero
      have hd2 : 2 ≤ val d := by
        by_contra hc
        have : val d = 1 := by omega
        rw [this, Nat.mod_one] at hrne; exact hrne rfl
      have : val n / val d + 1 ≤ val n := by
        have : 2 * (val n / val d) ≤ val d * (val n / val d) := Nat.mul_le_mul_right _ hd2
        omega
      exact lt_of_le_of_lt this hn.2.2
  obtain ⟨c, k1, k2, k3⟩ := key
  refine ⟨c, k1, k2, k3, ?_, ?_⟩
  · rw [k2]
    by_cases hr0 : val n % val d = 0
    · rw [c0 hr0]
      have : val n / val d * val d = val n := by rw [Nat.mul_comm]; omega
      by_cases hn0 : val n = 0
      · simp [hn0]
      · simp only [hn0, if_false, Nat.add_zero]
        have hq1 : 1 ≤ val n / val d := by
          rcases Nat.eq_zero_or_pos (val n / val d) with hz | hz
          · rw [hz] at this; omega
          · exact hz
        have : (val n / val d - 1) * val d + val d = val n / val d * val d := by
          rw [← Nat.add_one_mul]; congr 1; omega
        omega
    · rw [c1 hr0, Nat.add_sub_cancel]
      have : val n / val d * val d = val d * (val n / val d) := Nat.mul_comm _ _
      split <;> omega
  · rw [k2]
    exact (least_multiple (val n) (val d) hdpos).2.1

/-- **`checked_next_multiple_of`**: `None` for `d = 0`; otherwise, with `m` the least multiple of `d` that is
    `≥ n` (`d ∣ m`, `n ≤ m`, minimal): `Some(m)` (canonical) when `m < 2^bits`, `None` when it does not fit.
    Never panics. -/
theorem checked_next_multiple_of_spec (bits : ℕ) (n d : List ℕ) (hn : Canon bits n) (hd : Canon bits d) :
    (val d = 0 → checkedNextMultipleOf bits n d = some none)
    ∧ (val d ≠ 0 → ∃ m, (val d ∣ m ∧ val n ≤ m ∧ ∀ m', val d ∣ m' → val n ≤ m' → m ≤ m')
        ∧ (m < 2 ^ bits → ∃ c, checkedNextMultipleOf bits n d = some (some c) ∧ val c = m ∧ Canon bits c)
        ∧ (2 ^ bits ≤ m → checkedNextMultipleOf bits n d = some none)) := by
  constructor
  · intro h; simp [checkedNextMultipleOf, (isZero_iff d).mpr h]
  · intro h
    have hdpos : 0 < val d := Nat.pos_of_ne_zero h
    obtain ⟨q, r, e, hq, hr, cq, cr⟩ := divRem_ok bits n d hn hd h
    obtain ⟨c0, c1⟩ := ceil_div (val n) (val d) hdpos
    have hbits := bits_pos_of_val_ne_zero bits d hd h
    have hdm := Nat.div_add_mod (val n) (val d)
    have hz : isZero d = false := (isZero_false_iff d).mpr h
    refine ⟨(val n + val d - 1) / val d * val d, least_multiple (val n) (val d) hdpos, ?_, ?_⟩
    · intro hfit
      by_cases hr0 : val r = 0
      · refine ⟨n, by simp [checkedNextMultipleOf, hz, e, (isZero_iff r).mpr hr0], ?_, hn⟩
        have : val n % val d = 0 := by rw [← hr]; exact hr0
        rw [c0 this, Nat.mul_comm]; omega
      · have hrne : val n % val d ≠ 0 := by rw [← hr]; exact hr0
        have h1 : 1 % 2 ^ bits = 1 := Nat.mod_eq_of_lt (Nat.one_lt_two_pow (by omega))
        rw [c1 hrne] at hfit ⊢
        have hq1 : val q + 1 < 2 ^ bits := by
          rw [hq]
          have : val n / val d + 1 ≤ (val n / val d + 1) * val d := Nat.le_mul_of_pos_right _ hdpos
          omega
        obtain ⟨cc, cv⟩ := canon_ofVal bits ((val q + 1 % 2 ^ bits) * val d)
        refine ⟨_, ?_, ?_, cc⟩
        · simp only [checkedNextMultipleOf, hz, e, (isZero_false_iff r).mpr hr0, h1]
          simp only [Bool.false_eq_true, if_false, hq1, not_true_eq_false]
          rw [hq]; simp [hfit]
        · rw [cv, h1, hq]; exact Nat.mod_eq_of_lt hfit
    · intro hover
      have hrne : val n % val d ≠ 0 := by
        intro h0
        rw [c0 h0] at hover
        have : val n / val d * val d = val n := by rw [Nat.mul_comm]; omega
        have := hn.2.2
        omega
      have hr0 : val r ≠ 0 := by rw [hr]; exact hrne
      have h1 : 1 % 2 ^ bits = 1 := Nat.mod_eq_of_lt (Nat.one_lt_two_pow (by omega))
      rw [c1 hrne] at hover
      simp only [checkedNextMultipleOf, hz, e, (isZero_false_iff r).mpr hr0, h1]
      simp only [Bool.false_eq_true, if_false]
      rw [hq]
      split
      · rfl
      · rw [if_neg (by omega)]

/-- **`next_multiple_of`** (repaired): the least multiple of `d` that is `≥ n` when `d ≠ 0` and it fits;
    panics exactly when `d = 0` or it does not fit (as documented). -/
theorem next_multiple_of_spec (bits : ℕ) (n d : List ℕ) (hn : Canon bits n) (hd : Canon bits d) (h : val d ≠ 0) :
    ∃ m, (val d ∣ m ∧ val n ≤ m ∧ ∀ m', val d ∣ m' → val n ≤ m' → m ≤ m')
      ∧ (m < 2 ^ bits → ∃ c, nextMultipleOf bits n d = some c ∧ val c = m ∧ Canon bits c)
      ∧ (2 ^ bits ≤ m → nextMultipleOf bits n d = none) := by
  obtain ⟨m, hm, hfit, hover⟩ := (checked_next_multiple_of_spec bits n d hn hd).2 h
  refine ⟨m, hm, ?_, ?_⟩
  · intro hlt
    obtain ⟨c, e, hv, hc⟩ := hfit hlt
    exact ⟨c, by simp [nextMultipleOf, e], hv, hc⟩
  · intro hge
    simp [nextMultipleOf, hover hge]

/-- DEFECT (DESIGN §9, fixed by the `fix:` commit): the pinned `next_multiple_of`
    (`…unwrap(); todo!()`) panics on every input, contradicting the property for every `d ≠ 0` that fits. -/
theorem next_multiple_of_pinned_always_panics (bits : ℕ) (a b : List ℕ) :
    nextMultipleOfPinned bits a b = none := by
  unfold nextMultipleOfPinned; split; rfl

/-- **no non-zero divisor ever panics** in `div_rem`, `/`, `%`, `wrapping_*`, `checked_*`, `div_ceil`,
    `checked_next_multiple_of`. -/
theorem nonzero_divisor_never_panics (bits : ℕ) (n d : List ℕ) (hn : Canon bits n) (hd : Canon bits d)
    (h : val d ≠ 0) :
    divRem bits n d ≠ none ∧ wrappingDiv bits n d ≠ none ∧ wrappingRem bits n d ≠ none
    ∧ checkedDiv bits n d ≠ none ∧ checkedRem bits n d ≠ none ∧ divCeil bits n d ≠ none
    ∧ checkedNextMultipleOf bits n d ≠ none := by
  obtain ⟨_, _, e1, _⟩ := div_rem_spec bits n d hn hd h
  obtain ⟨_, e2, _⟩ := wrapping_div_spec bits n d hn hd h
  obtain ⟨_, e3, _⟩ := wrapping_rem_spec bits n d hn hd h
  obtain ⟨_, e4, _⟩ := (checked_div_spec bits n d hn hd).2 h
  obtain ⟨_, e5, _⟩ := (checked_rem_spec bits n d hn hd).2 h
  obtain ⟨_, e6, _⟩ := div_ceil_spec bits n d hn hd h
  obtain ⟨m, _, f1, f2⟩ := (checked_next_multiple_of_spec bits n d hn hd).2 h
  refine ⟨by simp [e1], by simp [e2], by simp [e3], by simp [e4], by simp [e5], by simp [e6], ?_⟩
  rcases Nat.lt_or_ge m (2 ^ bits) with hlt | hge
  · obtain ⟨_, e7, _⟩ := f1 hlt; simp [e7]
  · simp [f2 hge]

/-! ## non-vacuity -/
example : Canon 64 [23] ∧ Canon 64 [8] := by
  refine ⟨⟨rfl, ?_, by norm_num⟩, ⟨rfl, ?_, by norm_num⟩⟩ <;>
  · intro x hx; simp at hx; rw [hx]; unfold W; norm_num
example : divRem 64 [23] [8] = some ([2], [7]) := by decide +kernel
example : checkedNextMultipleOf 64 [23] [8] = some (some [24]) := by decide +kernel
example : nextMultipleOf 64 [23] [8] = some [24] := by decide +kernel
example : checkedNextMultipleOf 64 [2 ^ 64 - 1] [2] = some none := by decide +kernel
example : divCeil 128 [1, 1] [2, 0] = some [2 ^ 63 + 1, 0] := by decide +kernel
example : divRem 0 [] [] = none := by decide +kernel
example : checkedDiv 0 [] [] = some none := by decide +kernel

/-! ### the `Uint` division surface regenerated from `src/div.rs`, `src/cmp.rs`, `src/special.rs` (`Gen/WordsUintDiv.lean`)

`div_rem`, `wrapping_div`, `wrapping_rem`, `checked_div`, `checked_rem`, `div_ceil`, `checked_next_multiple_of`,
`next_multiple_of` and `is_zero` as the source defines them — translated on every run, over the generated `algorithms::div`
(`C14.gen_div_eq`), `wrapping_add`, `checked_add`, `checked_mul` — equal the models above on canonical operands, panic
outcome included. The driver executes them. -/

section gen
variable (bits : ℕ) (hN : nlimbs bits < 2 ^ 62) (a b : List ℕ) (ha : Canon bits a) (hb : Canon bits b) (f : ℕ)
include hN ha hb

theorem gen_div_rem_eq (hf : nlimbs bits + 1 < f) : Ruint.Gen.uint_div_rem f bits (nlimbs bits) a b = divRem bits a b :=
  Ruint.Div.GenUintDiv.div_rem_eq Ruint.C14.gen_div_eq bits hN a b ha hb f hf

theorem gen_wrapping_div_eq (hf : nlimbs bits + 1 < f) :
    Ruint.Gen.uint_wrapping_div f bits (nlimbs bits) a b = wrappingDiv bits a b :=
  Ruint.Div.GenUintDiv.wrapping_div_eq Ruint.C14.gen_div_eq bits hN a b ha hb f hf

theorem gen_wrapping_rem_eq (hf : nlimbs bits + 1 < f) :
    Ruint.Gen.uint_wrapping_rem f bits (nlimbs bits) a b = wrappingRem bits a b :=
  Ruint.Div.GenUintDiv.wrapping_rem_eq Ruint.C14.gen_div_eq bits hN a b ha hb f hf

theorem gen_checked_div_eq (hf : nlimbs bits + 1 < f) :
    Ruint.Gen.uint_checked_div f bits (nlimbs bits) a b = checkedDiv bits a b :=
  Ruint.Div.GenUintDiv.checked_div_eq Ruint.C14.gen_div_eq bits hN a b ha hb f hf

theorem gen_checked_rem_eq (hf : nlimbs bits + 1 < f) :
    Ruint.Gen.uint_checked_rem f bits (nlimbs bits) a b = checkedRem bits a b :=
  Ruint.Div.GenUintDiv.checked_rem_eq Ruint.C14.gen_div_eq bits hN a b ha hb f hf

theorem gen_div_ceil_eq (hf : nlimbs bits + 1 < f) :
    Ruint.Gen.uint_div_ceil f bits (nlimbs bits) a b = divCeil bits a b :=
  Ruint.Div.GenUintDiv.div_ceil_eq Ruint.C14.gen_div_eq bits hN a b ha hb f hf

theorem gen_checked_next_multiple_of_eq (hf : 3 * nlimbs bits + 1 < f) :
    Ruint.Gen.uint_checked_next_multiple_of f bits (nlimbs bits) a b = checkedNextMultipleOf bits a b :=
  Ruint.Div.GenUintDiv.checked_next_multiple_of_eq Ruint.C14.gen_div_eq bits hN a b ha hb f hf

theorem gen_next_multiple_of_eq (hf : 3 * nlimbs bits + 1 < f) :
    Ruint.Gen.uint_next_multiple_of f bits (nlimbs bits) a b = nextMultipleOf bits a b :=
  Ruint.Div.GenUintDiv.next_multiple_of_eq Ruint.C14.gen_div_eq bits hN a b ha hb f hf

end gen

theorem gen_is_zero_eq (bits : ℕ) (a : List ℕ) (ha : a.length = nlimbs bits) :
    Ruint.Gen.uint_is_zero bits (nlimbs bits) a = isZero a :=
  Ruint.Div.GenUintDiv.is_zero_eq bits a ha

/-- the six operator shapes of `/` and `%` (`impl_bin_op!`, regenerated from `src/macros.rs`) are `wrapping_div` / `wrapping_rem`
    on the same operands in the same order, panic outcome included. -/
theorem gen_div_rem_operator_shapes (f bits L : Nat) (a b : List Nat) :
    (Ruint.Gen.op_div_assign_val f bits L a b = Ruint.Gen.uint_wrapping_div f bits L a b
      ∧ Ruint.Gen.op_div_assign_ref f bits L a b = Ruint.Gen.uint_wrapping_div f bits L a b
      ∧ Ruint.Gen.op_div_val_val f bits L a b = Ruint.Gen.uint_wrapping_div f bits L a b
      ∧ Ruint.Gen.op_div_val_ref f bits L a b = Ruint.Gen.uint_wrapping_div f bits L a b
      ∧ Ruint.Gen.op_div_ref_val f bits L a b = Ruint.Gen.uint_wrapping_div f bits L a b
      ∧ Ruint.Gen.op_div_ref_ref f bits L a b = Ruint.Gen.uint_wrapping_div f bits L a b)
    ∧ (Ruint.Gen.op_rem_assign_val f bits L a b = Ruint.Gen.uint_wrapping_rem f bits L a b
      ∧ Ruint.Gen.op_rem_assign_ref f bits L a b = Ruint.Gen.uint_wrapping_rem f bits L a b
      ∧ Ruint.Gen.op_rem_val_val f bits L a b = Ruint.Gen.uint_wrapping_rem f bits L a b
      ∧ Ruint.Gen.op_rem_val_ref f bits L a b = Ruint.Gen.uint_wrapping_rem f bits L a b
      ∧ Ruint.Gen.op_rem_ref_val f bits L a b = Ruint.Gen.uint_wrapping_rem f bits L a b
      ∧ Ruint.Gen.op_rem_ref_ref f bits L a b = Ruint.Gen.uint_wrapping_rem f bits L a b) :=
  ⟨Ruint.GenBinOps.div_shapes f bits L a b, Ruint.GenBinOps.rem_shapes f bits L a b⟩

end Ruint.C03
