import Ruint.Model.DivUint
/-! C03 property theorems (filled in below). -/
set_option autoImplicit false
namespace Ruint.C03
open Ruint.DivU

/-- the pinned `next_multiple_of` (`…unwrap(); todo!()`) panics on every input: the DEFECT of DESIGN §9. -/
theorem next_multiple_of_pinned_always_panics (bits : Nat) (a b : List Nat) :
    nextMultipleOfPinned bits a b = none := by
  unfold nextMultipleOfPinned; split; rfl

end Ruint.C03
