import Ruint.Model.Shift
namespace Ruint.C05
end Ruint.C05
