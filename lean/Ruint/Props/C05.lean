import Ruint.Lemmas.Shift
import Ruint.Lemmas.GenShift
import Ruint.Lemmas.GenShiftWrap
import Ruint.Lemmas.GenShiftOps
import Ruint.Gen.WordsIntShift

/-!
# C05 — shifts and rotations move bits exactly and report lost bits exactly

Property theorems only (helper lemmas live in `Lemmas/Shift.lean`, `Lemmas/Bits.lean`). Every theorem
quantifies over **all** widths `bits` (including 0, 1 and non-multiples of 64), all canonical values and
**all** shift amounts `s : ℕ` (so also `s ≥ bits`, `s ≥ 64·LIMBS`, `s ≥ 2^64`).
The model functions (`Ruint.Shift.*`, file `Model/Shift.lean`) are the ones the correspondence
driver executes against the real `Uint` methods and operators; they mirror the limb algorithm of
`src/bits.rs` after the two `fix:` commits (lost-bit flags, `Uint`-typed amounts).
-/
namespace Ruint.C05
open Ruint Ruint.Bits Ruint.Shift

/-- `overflowing_shl`: canonical result, value `a·2^s mod 2^bits`, flag iff a non-zero bit is
    shifted out (`a·2^s ≥ 2^bits`). -/
theorem overflowing_shl_spec (bits : ℕ) (a : List ℕ) (s : ℕ) (ha : Canon bits a) :
    Canon bits (overflowingShl bits a s).1
    ∧ val (overflowingShl bits a s).1 = val a * 2 ^ s % 2 ^ bits
    ∧ ((overflowingShl bits a s).2 = true ↔ 2 ^ bits ≤ val a * 2 ^ s) :=
  overflowingShl_spec bits a s ha.1 ha.2.1

/-- `overflowing_shr`: canonical result, value `⌊a / 2^s⌋`, flag iff a non-zero bit is shifted out
    (`2^s ∤ a`). -/
theorem overflowing_shr_spec (bits : ℕ) (a : List ℕ) (s : ℕ) (ha : Canon bits a) :
    Canon bits (overflowingShr bits a s).1
    ∧ val (overflowingShr bits a s).1 = val a / 2 ^ s
    ∧ ((overflowingShr bits a s).2 = true ↔ ¬ 2 ^ s ∣ val a) := by
  obtain ⟨h1, h2, h3, h4⟩ := overflowingShr_spec bits a s ha.1 ha.2.1
  refine ⟨⟨h1, h2, ?_⟩, h3, ?_⟩
  · rw [h3]; exact lt_of_le_of_lt (Nat.div_le_self _ _) ha.val_lt
  · rw [h4, Nat.dvd_iff_mod_eq_zero]

theorem wrapping_shl_spec (bits : ℕ) (a : List ℕ) (s : ℕ) (ha : Canon bits a) :
    Canon bits (wrappingShl bits a s) ∧ val (wrappingShl bits a s) = val a * 2 ^ s % 2 ^ bits :=
  ⟨(overflowing_shl_spec bits a s ha).1, (overflowing_shl_spec bits a s ha).2.1⟩

theorem wrapping_shr_spec (bits : ℕ) (a : List ℕ) (s : ℕ) (ha : Canon bits a) :
    Canon bits (wrappingShr bits a s) ∧ val (wrappingShr bits a s) = val a / 2 ^ s :=
  ⟨(overflowing_shr_spec bits a s ha).1, (overflowing_shr_spec bits a s ha).2.1⟩

/-- `checked_shl = Some(a·2^s)` exactly when the product fits, `None` otherwise. -/
theorem checked_shl_spec (bits : ℕ) (a : List ℕ) (s : ℕ) (ha : Canon bits a) :
    (val a * 2 ^ s < 2 ^ bits →
      ∃ r, checkedShl bits a s = some r ∧ Canon bits r ∧ val r = val a * 2 ^ s)
    ∧ (2 ^ bits ≤ val a * 2 ^ s → checkedShl bits a s = none) := by
  obtain ⟨h1, h2, h3⟩ := overflowing_shl_spec bits a s ha
  unfold checkedShl
  generalize overflowingShl bits a s = r at *
  obtain ⟨v, f⟩ := r
  cases f
  · simp only at h1 h2 h3 ⊢
    have hlt : val a * 2 ^ s < 2 ^ bits := by
      by_contra hc; have := h3.2 (by omega); simp at this
    exact ⟨fun _ => ⟨v, rfl, h1, by rw [h2, Nat.mod_eq_of_lt hlt]⟩, fun h => by omega⟩
  · simp only at h3 ⊢
    have := h3.1 trivial
    exact ⟨fun h => by omega, fun _ => by simp⟩

/-- `checked_shr = Some(a / 2^s)` exactly when the division is exact, `None` otherwise. -/
theorem checked_shr_spec (bits : ℕ) (a : List ℕ) (s : ℕ) (ha : Canon bits a) :
    (2 ^ s ∣ val a → ∃ r, checkedShr bits a s = some r ∧ Canon bits r ∧ val r = val a / 2 ^ s)
    ∧ (¬ 2 ^ s ∣ val a → checkedShr bits a s = none) := by
  obtain ⟨h1, h2, h3⟩ := overflowing_shr_spec bits a s ha
  unfold checkedShr
  generalize overflowingShr bits a s = r at *
  obtain ⟨v, f⟩ := r
  cases f
  · simp only at h1 h2 h3 ⊢
    have hd : 2 ^ s ∣ val a := by
      by_contra hc; have := h3.2 hc; simp at this
    exact ⟨fun _ => ⟨v, rfl, h1, h2⟩, fun h => absurd hd h⟩
  · simp only at h3 ⊢
    have := h3.1 trivial
    exact ⟨fun h => absurd h this, fun _ => by simp⟩

/-- `saturating_shl = min(a·2^s, 2^bits − 1)`. -/
theorem saturating_shl_spec (bits : ℕ) (a : List ℕ) (s : ℕ) (ha : Canon bits a) :
    Canon bits (saturatingShl bits a s)
    ∧ val (saturatingShl bits a s) = min (val a * 2 ^ s) (2 ^ bits - 1) := by
  obtain ⟨h1, h2, h3⟩ := overflowing_shl_spec bits a s ha
  unfold saturatingShl
  generalize overflowingShl bits a s = r at *
  obtain ⟨v, f⟩ := r
  cases f
  · simp only at h1 h2 h3 ⊢
    have hlt : val a * 2 ^ s < 2 ^ bits := by
      by_contra hc; have := h3.2 (by omega); simp at this
    exact ⟨h1, by rw [h2, Nat.mod_eq_of_lt hlt]; omega⟩
  · simp only at h3 ⊢
    have := h3.1 trivial
    exact ⟨(maxU_canon bits).1, by rw [(maxU_canon bits).2]; omega⟩

/-- every integer-typed `<<` (`usize, u8..u64, isize, i8..i64` with a non-negative amount, by value,
    by reference, and the assign forms) is `wrapping_shl` by the amount's value. -/
theorem shl_int_spec (bits : ℕ) (a : List ℕ) (s : ℕ) (ha : Canon bits a) :
    Canon bits (shlInt bits a s) ∧ val (shlInt bits a s) = val a * 2 ^ s % 2 ^ bits :=
  wrapping_shl_spec bits a s ha

theorem shr_int_spec (bits : ℕ) (a : List ℕ) (s : ℕ) (ha : Canon bits a) :
    Canon bits (shrInt bits a s) ∧ val (shrInt bits a s) = val a / 2 ^ s :=
  wrapping_shr_spec bits a s ha

/-- `rotate_left` at the value level: with `k = s mod bits`, the result is
    `(a·2^k + ⌊a / 2^(bits−k)⌋) mod 2^bits` — the low `bits−k` bits move up by `k`, the top `k` bits
    wrap around to the bottom. (`bits = 0`: the only value is 0 and the formula reads `… mod 1`.) -/
theorem rotate_left_spec (bits : ℕ) (a : List ℕ) (s : ℕ) (ha : Canon bits a) :
    Canon bits (rotateLeft bits a s)
    ∧ val (rotateLeft bits a s)
        = (val a * 2 ^ (s % bits) + val a / 2 ^ (bits - s % bits)) % 2 ^ bits
    ∧ val (rotateLeft bits a s) = rotlNat bits (val a) (s % bits) := by
  unfold rotateLeft
  rcases Nat.eq_zero_or_pos bits with h0 | hpos
  · subst h0
    have ea := canon_zero_bits a ha
    subst ea
    simp [(zero_canon 0).1, (zero_canon 0).2, rotlNat, Nat.mod_one]
  · have hne : bits ≠ 0 := by omega
    simp only [hne, if_false]
    have hk : s % bits < bits := Nat.mod_lt _ hpos
    obtain ⟨l1, l2⟩ := wrapping_shl_spec bits a (s % bits) ha
    obtain ⟨r1, r2⟩ := wrapping_shr_spec bits a (bits - s % bits) ha
    obtain ⟨o1, o2, o3⟩ := bitOr_spec _ _ (by rw [l1.1, r1.1]) l1.2.1 r1.2.1
    obtain ⟨q1, q2, q3⟩ := rotl_or bits (val a) (s % bits) (by omega) ha.val_lt
    have hv : val (bitOr (wrappingShl bits a (s % bits)) (wrappingShr bits a (bits - s % bits)))
        = rotlNat bits (val a) (s % bits) := by rw [o1, l2, r2, q1]
    exact ⟨⟨by rw [o2, l1.1], o3, by rw [hv]; exact q3⟩, by rw [hv, q2], hv⟩

/-- `rotate_right` at the value level: with `k = s mod bits`, the result is
    `(⌊a / 2^k⌋ + a·2^(bits−k)) mod 2^bits`. -/
theorem rotate_right_spec (bits : ℕ) (a : List ℕ) (s : ℕ) (ha : Canon bits a) :
    Canon bits (rotateRight bits a s)
    ∧ val (rotateRight bits a s)
        = (val a / 2 ^ (s % bits) + val a * 2 ^ (bits - s % bits)) % 2 ^ bits
    ∧ val (rotateRight bits a s) = rotlNat bits (val a) ((bits - s % bits) % bits) := by
  unfold rotateRight
  rcases Nat.eq_zero_or_pos bits with h0 | hpos
  · subst h0
    have ea := canon_zero_bits a ha
    subst ea
    simp [(zero_canon 0).1, (zero_canon 0).2, rotlNat, Nat.mod_one]
  · have hne : bits ≠ 0 := by omega
    simp only [hne, if_false]
    obtain ⟨h1, h2, h3⟩ := rotate_left_spec bits a (bits - s % bits) ha
    refine ⟨h1, ?_, h3⟩
    rw [h2]
    have hk : s % bits < bits := Nat.mod_lt _ hpos
    by_cases hz : s % bits = 0
    · have hA := ha.val_lt
      rw [hz, Nat.sub_zero, Nat.mod_self, Nat.sub_zero, pow_zero, Nat.mul_one, Nat.div_one,
        Nat.div_eq_of_lt hA, Nat.add_zero, Nat.add_mul_mod_self_right]
    · have e1 : (bits - s % bits) % bits = bits - s % bits := Nat.mod_eq_of_lt (by omega)
      have e2 : bits - (bits - s % bits) = s % bits := by omega
      rw [e1, e2, Nat.add_comm]

/-- rotations are mutually inverse bijections of the `bits`-wide words. -/
theorem rotate_right_left (bits : ℕ) (a : List ℕ) (s : ℕ) (ha : Canon bits a) :
    rotateRight bits (rotateLeft bits a s) s = a := by
  obtain ⟨l1, _, l3⟩ := rotate_left_spec bits a s ha
  obtain ⟨r1, _, r3⟩ := rotate_right_spec bits (rotateLeft bits a s) s l1
  apply canon_ext bits _ _ r1 ha
  rw [r3, l3]
  rcases Nat.eq_zero_or_pos bits with h0 | hpos
  · subst h0
    have := ha.val_lt
    simp [rotlNat, Nat.mod_one] at this ⊢
  · have hk : s % bits < bits := Nat.mod_lt _ hpos
    by_cases hz : s % bits = 0
    · have hA := ha.val_lt
      simp [hz, rotlNat, Nat.mod_eq_of_lt hA, Nat.div_eq_of_lt hA]
    · have e1 : (bits - s % bits) % bits = bits - s % bits := Nat.mod_eq_of_lt (by omega)
      rw [e1]
      exact rotl_rotl_inv bits (val a) (s % bits) (by omega) ha.val_lt

theorem rotate_left_right (bits : ℕ) (a : List ℕ) (s : ℕ) (ha : Canon bits a) :
    rotateLeft bits (rotateRight bits a s) s = a := by
  obtain ⟨r1, _, r3⟩ := rotate_right_spec bits a s ha
  obtain ⟨l1, _, l3⟩ := rotate_left_spec bits (rotateRight bits a s) s r1
  apply canon_ext bits _ _ l1 ha
  rw [l3, r3]
  rcases Nat.eq_zero_or_pos bits with h0 | hpos
  · subst h0
    have := ha.val_lt
    simp [rotlNat, Nat.mod_one] at this ⊢
  · have hk : s % bits < bits := Nat.mod_lt _ hpos
    by_cases hz : s % bits = 0
    · have hA := ha.val_lt
      simp [hz, rotlNat, Nat.mod_eq_of_lt hA, Nat.div_eq_of_lt hA]
    · have e1 : (bits - s % bits) % bits = bits - s % bits := Nat.mod_eq_of_lt (by omega)
      rw [e1]
      have := rotl_rotl_inv bits (val a) (bits - s % bits) (by omega) ha.val_lt
      have e2 : bits - (bits - s % bits) = s % bits := by omega
      rwa [e2] at this

/-- rotation is the cyclic permutation of the `bits` bit positions: bit `i` of `rotate_left(a, s)`
    is bit `(i − s) mod bits` of `a`. -/
theorem rotate_left_testBit (bits : ℕ) (a : List ℕ) (s i : ℕ) (ha : Canon bits a) (hi : i < bits) :
    (val (rotateLeft bits a s)).testBit i = (val a).testBit ((i + bits - s % bits) % bits) := by
  rw [(rotate_left_spec bits a s ha).2.2]
  exact rotlNat_testBit bits (val a) (s % bits) i (Nat.le_of_lt (Nat.mod_lt _ (by omega))) ha.val_lt hi

/-- bit `i` of `rotate_right(a, s)` is bit `(i + s) mod bits` of `a`. -/
theorem rotate_right_testBit (bits : ℕ) (a : List ℕ) (s i : ℕ) (ha : Canon bits a) (hi : i < bits) :
    (val (rotateRight bits a s)).testBit i = (val a).testBit ((i + s) % bits) := by
  rw [(rotate_right_spec bits a s ha).2.2]
  have hpos : 0 < bits := by omega
  have hk : s % bits < bits := Nat.mod_lt _ hpos
  rw [rotlNat_testBit bits (val a) _ i (Nat.le_of_lt (Nat.mod_lt _ hpos)) ha.val_lt hi]
  congr 1
  by_cases hz : s % bits = 0
  · rw [hz, Nat.sub_zero, Nat.mod_self, Nat.sub_zero, Nat.add_mod_right]
    rw [Nat.add_mod, hz, Nat.add_zero, Nat.mod_mod]
  · rw [Nat.mod_eq_of_lt (show bits - s % bits < bits by omega)]
    have : i + bits - (bits - s % bits) = i + s % bits := by omega
    rw [this, Nat.add_mod_mod]

/-- `arithmetic_shr`: canonical; the value is the logical shift plus the sign fill; bit `i` of the
    result is bit `min (i+s) (bits−1)` of `a`, i.e. bit `BITS−1` is replicated into the vacated
    positions. -/
theorem arithmetic_shr_spec (bits : ℕ) (a : List ℕ) (s : ℕ) (ha : Canon bits a) :
    Canon bits (arithmeticShr bits a s)
    ∧ val (arithmeticShr bits a s)
        = val a / 2 ^ s + (if (val a).testBit (bits - 1) then 2 ^ bits - 2 ^ (bits - s) else 0)
    ∧ ∀ i, i < bits →
        (val (arithmeticShr bits a s)).testBit i = (val a).testBit (min (i + s) (bits - 1)) := by
  unfold arithmeticShr
  rcases Nat.eq_zero_or_pos bits with h0 | hpos
  · subst h0
    have ea := canon_zero_bits a ha
    subst ea
    simp [(zero_canon 0).1, (zero_canon 0).2]
  · have hne : bits ≠ 0 := by omega
    simp only [hne, if_false]
    obtain ⟨r1, r2⟩ := wrapping_shr_spec bits a s ha
    rw [bit_spec bits a ha.2.1]
    have hlt : bits - 1 < bits := by omega
    simp only [hlt, decide_true, Bool.true_and]
    cases hsign : (val a).testBit (bits - 1)
    · simp only [Bool.false_eq_true, if_false, Nat.add_zero]
      refine ⟨r1, r2, ?_⟩
      intro i hi
      rw [r2, Nat.testBit_div_two_pow]
      by_cases h : i + s ≤ bits - 1
      · rw [Nat.min_eq_left h]
      · rw [Nat.min_eq_right (by omega), hsign]
        exact Nat.testBit_lt_two_pow
          (lt_of_lt_of_le ha.val_lt (Nat.pow_le_pow_right (by norm_num) (by omega)))
    · simp only [if_true]
      obtain ⟨l1, l2⟩ := wrapping_shl_spec bits (maxU bits) (bits - s) (maxU_canon bits).1
      obtain ⟨o1, o2, o3⟩ := bitOr_spec _ _ (by rw [l1.1, r1.1]) r1.2.1 l1.2.1
      obtain ⟨q1, q2, q3⟩ := ashr_or bits (val a) s ha.val_lt
      have hv : val (bitOr (wrappingShr bits a s) (wrappingShl bits (maxU bits) (bits - s)))
          = val a / 2 ^ s + (2 ^ bits - 2 ^ (bits - s)) := by
        rw [o1, r2, l2, (maxU_canon bits).2, q1]
      refine ⟨⟨by rw [o2, r1.1], o3, by rw [hv]; exact q2⟩, hv, ?_⟩
      intro i hi
      rw [hv, q3 i hi]
      by_cases h : i + s < bits
      · simp only [h, if_true]; rw [Nat.min_eq_left (by omega)]
      · simp only [h, if_false]; rw [Nat.min_eq_right (by omega), hsign]

/-- `<<` with a `Uint`-typed amount of **any** magnitude (`BITS` is a `usize`, so `bits < 2^64`):
    the result is `a·2^t mod 2^bits` for the full value `t` of the amount. Covers `Shl<Uint>`,
    `Shl<&Uint>`, `ShlAssign<Uint>`, `ShlAssign<&Uint>`. -/
theorem shl_uint_spec (bits : ℕ) (a t : List ℕ) (hb : bits < 2 ^ 64) (ha : Canon bits a) :
    Canon bits (shlUint bits a t) ∧ val (shlUint bits a t) = val a * 2 ^ val t % 2 ^ bits := by
  unfold shlUint
  rcases Nat.eq_zero_or_pos bits with h0 | hpos
  · subst h0
    have ea := canon_zero_bits a ha
    subst ea
    simp [Nat.mod_one, ha]
  · have hne : bits ≠ 0 := by omega
    simp only [hne, if_false]
    cases t with
    | nil => simp only [List.drop_nil, List.headD_nil, val_nil]
             have : isNonzero [] = false := rfl
             simp only [this, Bool.false_eq_true, if_false]
             exact wrapping_shl_spec bits a 0 ha
    | cons x xs =>
      simp only [List.drop_succ_cons, List.drop_zero, List.headD_cons, val_cons]
      by_cases hnz : isNonzero xs = true
      · simp only [hnz, if_true]
        refine ⟨(zero_canon bits).1, ?_⟩
        rw [(zero_canon bits).2]
        have h1 : 1 ≤ val xs := Nat.one_le_iff_ne_zero.mpr ((isNonzero_iff xs).mp hnz)
        have h2 : bits ≤ x + W * val xs := by
          have : W * 1 ≤ W * val xs := Nat.mul_le_mul_left _ h1
          unfold W at *; omega
        obtain ⟨k, hk⟩ : 2 ^ bits ∣ 2 ^ (x + W * val xs) := pow_dvd_pow 2 h2
        rw [hk, ← Nat.mul_assoc, Nat.mul_comm (val a), Nat.mul_assoc, Nat.mul_mod_right]
      · simp only [hnz]
        have h0 : val xs = 0 := by
          by_contra hc; exact hnz ((isNonzero_iff xs).mpr hc)
        rw [h0, Nat.mul_zero, Nat.add_zero]
        exact wrapping_shl_spec bits a x ha

/-- `>>` with a `Uint`-typed amount of any magnitude: `⌊a / 2^t⌋`. -/
theorem shr_uint_spec (bits : ℕ) (a t : List ℕ) (hb : bits < 2 ^ 64) (ha : Canon bits a) :
    Canon bits (shrUint bits a t) ∧ val (shrUint bits a t) = val a / 2 ^ val t := by
  unfold shrUint
  rcases Nat.eq_zero_or_pos bits with h0 | hpos
  · subst h0
    have ea := canon_zero_bits a ha
    subst ea
    simp [ha]
  · have hne : bits ≠ 0 := by omega
    simp only [hne, if_false]
    cases t with
    | nil => simp only [List.drop_nil, List.headD_nil, val_nil]
             have : isNonzero [] = false := rfl
             simp only [this, Bool.false_eq_true, if_false]
             exact wrapping_shr_spec bits a 0 ha
    | cons x xs =>
      simp only [List.drop_succ_cons, List.drop_zero, List.headD_cons, val_cons]
      by_cases hnz : isNonzero xs = true
      · simp only [hnz, if_true]
        refine ⟨(zero_canon bits).1, ?_⟩
        rw [(zero_canon bits).2]
        have h1 : 1 ≤ val xs := Nat.one_le_iff_ne_zero.mpr ((isNonzero_iff xs).mp hnz)
        have h2 : bits ≤ x + W * val xs := by
          have : W * 1 ≤ W * val xs := Nat.mul_le_mul_left _ h1
          unfold W at *; omega
        have : val a < 2 ^ (x + W * val xs) :=
          lt_of_lt_of_le ha.val_lt (Nat.pow_le_pow_right (by norm_num) h2)
        rw [Nat.div_eq_of_lt this]
      · simp only [hnz]
        have h0 : val xs = 0 := by
          by_contra hc; exact hnz ((isNonzero_iff xs).mpr hc)
        rw [h0, Nat.mul_zero, Nat.add_zero]
        exact wrapping_shr_spec bits a x ha


/-! Non-vacuity: concrete instances of the three defect patterns of DESIGN §9, evaluated by the
kernel on the model (a bit leaving through a whole-limb move, through the top-limb mask, and a
`Uint` amount of `2^64`). -/
example : Canon 65 [0, 1] ∧ Canon 128 [0, 1] ∧ Canon 128 [1, 0] := by
  refine ⟨⟨rfl, ?_, ?_⟩, ⟨rfl, ?_, ?_⟩, ⟨rfl, ?_, ?_⟩⟩ <;> simp [AllLt, W]
example : overflowingShl 128 [0, 1] 64 = ([0, 0], true) := by decide +kernel
example : overflowingShl 65 [0, 1] 1 = ([0, 0], true) := by decide +kernel
example : overflowingShr 128 [1, 0] 64 = ([0, 0], true) := by decide +kernel
example : shlUint 128 [1, 0] [0, 1] = [0, 0] := by decide +kernel
example : rotateLeft 65 [1, 1] 64 = [2 ^ 63, 1] := by decide +kernel
example : arithmeticShr 65 [0, 1] 3 = [2 ^ 61 + 2 ^ 62 + 2 ^ 63, 1] := by decide +kernel

/-- two's-complement reading of a `bits`-wide word. -/
def sval (bits A : ℕ) : ℤ := if A.testBit (bits - 1) then (A : ℤ) - 2 ^ bits else A

/-- `arithmetic_shr` is floor division by `2^s` of the two's-complement value (for every `s`,
    including `s ≥ bits`, where the result is `0` or `−1`). -/
theorem arithmetic_shr_signed (bits : ℕ) (a : List ℕ) (s : ℕ) (ha : Canon bits a) (hpos : 0 < bits) :
    sval bits (val (arithmeticShr bits a s)) = sval bits (val a) / 2 ^ s := by
  obtain ⟨c, v, t⟩ := arithmetic_shr_spec bits a s ha
  have hA := ha.val_lt
  have htop := t (bits - 1) (by omega)
  have hmin : min (bits - 1 + s) (bits - 1) = bits - 1 := by omega
  rw [hmin] at htop
  unfold sval
  rw [htop]
  cases hsign : (val a).testBit (bits - 1)
  · simp only [Bool.false_eq_true, if_false]
    rw [hsign] at v
    simp only [Bool.false_eq_true, if_false, Nat.add_zero] at v
    rw [v]; push_cast; rfl
  · simp only [if_true]
    rw [hsign] at v
    simp only [if_true] at v
    rw [v]
    have hs2 : (2 : ℤ) ^ s > 0 := by positivity
    by_cases hs : s ≤ bits
    · have hle : 2 ^ (bits - s) ≤ 2 ^ bits := Nat.pow_le_pow_right (by norm_num) (by omega)
      have hsplit : (2 : ℤ) ^ bits = 2 ^ (bits - s) * 2 ^ s := by
        rw [← pow_add]; congr 1; omega
      have e : ((val a : ℤ) - 2 ^ bits) / 2 ^ s = (val a : ℤ) / 2 ^ s - 2 ^ (bits - s) := by
        rw [hsplit, Int.sub_mul_ediv_right _ _ (ne_of_gt hs2)]
      rw [e]
      push_cast [Nat.cast_sub hle]
      ring
    · have hb0 : bits - s = 0 := by omega
      have hlt : val a < 2 ^ s := lt_of_lt_of_le hA (Nat.pow_le_pow_right (by norm_num) (by omega))
      rw [hb0, pow_zero, Nat.div_eq_of_lt hlt, Nat.zero_add]
      have h1 : 1 ≤ 2 ^ bits := Nat.one_le_two_pow
      push_cast [Nat.cast_sub h1]
      have hneg : ((val a : ℤ) - 2 ^ bits) / 2 ^ s = -1 := by
        have hA' : (val a : ℤ) < 2 ^ bits := by exact_mod_cast hA
        have hlt' : (2 : ℤ) ^ bits ≤ 2 ^ s := by
          exact_mod_cast Nat.pow_le_pow_right (by norm_num) (by omega : bits ≤ s)
        have hnn : (0 : ℤ) ≤ val a := by positivity
        rw [Int.ediv_eq_iff_of_pos hs2]; constructor <;> nlinarith
      rw [hneg]; ring

/-- left shift moves bits exactly: bit `i` of `a << s` is bit `i − s` of `a` for `s ≤ i < bits`,
    and clear otherwise. -/
theorem shl_testBit (bits : ℕ) (a : List ℕ) (s i : ℕ) (ha : Canon bits a) :
    (val (wrappingShl bits a s)).testBit i
      = (decide (i < bits) && (decide (s ≤ i) && (val a).testBit (i - s))) := by
  rw [(wrapping_shl_spec bits a s ha).2, Nat.testBit_mod_two_pow, Nat.testBit_mul_two_pow]

/-- right shift moves bits exactly: bit `i` of `a >> s` is bit `i + s` of `a`. -/
theorem shr_testBit (bits : ℕ) (a : List ℕ) (s i : ℕ) (ha : Canon bits a) :
    (val (wrappingShr bits a s)).testBit i = (val a).testBit (i + s) := by
  rw [(wrapping_shr_spec bits a s ha).2, Nat.testBit_div_two_pow]

/-! ## Whole-method tie to the source (G)

`Ruint.Gen.uint_overflowing_shl`, `uint_overflowing_shr` and `uint_apply_mask` are regenerated from `src/bits.rs` /
`src/lib.rs` by `tools/rs2lean.py` on every run — the complete methods: the `(limbs, bits)` split, the early return
with `self != Self::ZERO`, the limb loop with the indexed store `r.limbs[i + limbs]` (resp. the downward walk
`LIMBS - 1 - i`), the carry recurrence with its two-step shift, the lost-bit loop over the limbs moved out whole, the
`> Self::MASK` test and `apply_mask`. They are proved equal to the model for every width and every shift amount, so
the theorems above are theorems about what the source says now. The driver executes the generated methods. -/

/-- **`Uint::overflowing_shl` as generated from the source** = the model (all widths, all amounts). -/
theorem gen_overflowing_shl_eq (bits : ℕ) (hN : nlimbs bits < 2 ^ 64) (a : List ℕ) (ha : Canon bits a) (s f : ℕ)
    (hf : nlimbs bits < f) :
    Ruint.Gen.uint_overflowing_shl f bits (nlimbs bits) a s = overflowingShl bits a s :=
  Ruint.GenShift.overflowing_shl_eq bits hN a ha.1 ha.2.1 s f hf

/-- **`Uint::overflowing_shr` as generated from the source** = the model (all widths, all amounts). -/
theorem gen_overflowing_shr_eq (bits : ℕ) (hN : nlimbs bits < 2 ^ 64) (a : List ℕ) (ha : Canon bits a) (s f : ℕ)
    (hf : nlimbs bits < f) :
    Ruint.Gen.uint_overflowing_shr f bits (nlimbs bits) a s = overflowingShr bits a s :=
  Ruint.GenShift.overflowing_shr_eq bits hN a ha.1 s f hf

/-- `apply_mask` as generated from `src/lib.rs` = the model's `maskTop`. -/
theorem gen_apply_mask_eq (bits : ℕ) (hb : 0 < bits) (hN : nlimbs bits < 2 ^ 64) (l : List ℕ)
    (hl : l.length = nlimbs bits) (hw : AllLt l) :
    Ruint.Gen.uint_apply_mask bits (nlimbs bits) l = maskTop bits l :=
  Ruint.GenShift.apply_mask_eq bits hb hN l hl hw

/-! ### the wrappers, regenerated from the source

`checked_shl/shr`, `saturating_shl` (a `match` on the `overflowing_*` pair), `wrapping_shl/shr` (`.0`), `arithmetic_shr`
(`self >> rhs`, `Self::MAX << BITS.saturating_sub(rhs)`, `|=`), `rotate_left` / `rotate_right` are translated too (the
`Shl<usize>` / `Shr<usize>` / `BitOr` operators on `Uint` are read as `wrapping_shl` / `wrapping_shr` / limb-wise `|`, which
is what `impl_shift!` / `impl_bit_op!` forward to) and equal the models; the driver runs the generated methods. -/

theorem gen_shift_wrappers_eq (bits : ℕ) (hN : nlimbs bits < 2 ^ 64) (a : List ℕ) (ha : Canon bits a) (s : ℕ) :
    Ruint.Gen.uint_wrapping_shl (nlimbs bits + 1) bits (nlimbs bits) a s = wrappingShl bits a s
    ∧ Ruint.Gen.uint_wrapping_shr (nlimbs bits + 1) bits (nlimbs bits) a s = wrappingShr bits a s
    ∧ Ruint.Gen.uint_checked_shl (nlimbs bits + 1) bits (nlimbs bits) a s = checkedShl bits a s
    ∧ Ruint.Gen.uint_checked_shr (nlimbs bits + 1) bits (nlimbs bits) a s = checkedShr bits a s
    ∧ Ruint.Gen.uint_saturating_shl (nlimbs bits + 1) bits (nlimbs bits) a s = saturatingShl bits a s :=
  ⟨Ruint.GenShiftWrap.wrapping_shl_eq bits hN a ha s, Ruint.GenShiftWrap.wrapping_shr_eq bits hN a ha s,
   Ruint.GenShiftWrap.checked_shl_eq bits hN a ha s, Ruint.GenShiftWrap.checked_shr_eq bits hN a ha s,
   Ruint.GenShiftWrap.saturating_shl_eq bits hN a ha s⟩

theorem gen_arithmetic_shr_eq (bits : ℕ) (hN : nlimbs bits < 2 ^ 64) (hb : bits < 2 ^ 64) (a : List ℕ) (ha : Canon bits a)
    (s : ℕ) :
    Ruint.Gen.uint_arithmetic_shr (nlimbs bits + 1) bits (nlimbs bits) a s = arithmeticShr bits a s :=
  Ruint.GenShiftWrap.arithmetic_shr_eq bits hN hb a ha s

theorem gen_rotate_eq (bits : ℕ) (hN : nlimbs bits < 2 ^ 64) (hb : bits < 2 ^ 64) (a : List ℕ) (ha : Canon bits a) (s : ℕ) :
    Ruint.Gen.uint_rotate_left (nlimbs bits + 1) bits (nlimbs bits) a s = rotateLeft bits a s
    ∧ Ruint.Gen.uint_rotate_right (nlimbs bits + 1) bits (nlimbs bits) a s = rotateRight bits a s :=
  ⟨Ruint.GenShiftWrap.rotate_left_eq bits hN hb a ha s, Ruint.GenShiftWrap.rotate_right_eq bits hN hb a ha s⟩

/-- `Shl<Uint>` / `Shr<Uint>` (and through them the `&Uint` and assign forms) as regenerated from `src/bits.rs` — the
    `BITS == 0` shortcut, the test of every limb of the amount above the lowest, the forward to `wrapping_shl` / `wrapping_shr` —
    equal the models of `shl_uint_spec` / `shr_uint_spec`. -/
theorem gen_shift_by_uint_eq (bits : ℕ) (hN : nlimbs bits < 2 ^ 64) (a rhs : List ℕ) (ha : Canon bits a) :
    Ruint.Gen.uint_shl_uint (nlimbs bits + 1) bits (nlimbs bits) a rhs = shlUint bits a rhs
    ∧ Ruint.Gen.uint_shr_uint (nlimbs bits + 1) bits (nlimbs bits) a rhs = shrUint bits a rhs :=
  ⟨Ruint.GenShiftOps.shl_uint_eq bits hN a rhs ha, Ruint.GenShiftOps.shr_uint_eq bits hN a rhs ha⟩

/-! ## The integer-typed `<<` / `>>` operator impls (`impl_shift!`) as regenerated from `src/bits.rs` (G)

`Gen/WordsIntShift.lean` holds the `@main` arm (`self.wrapping_shl(rhs as usize)`) and the `@assign` arm (`*self = *self << rhs`) of
`impl_shift!`, instantiated for every integer type found in its invocations. Each is `wrapping_shl` / `wrapping_shr` (tied to
the model by `gen_shift_wrappers_eq`) at the amount cast to `usize` — for a signed type narrower than `usize` the cast
sign-extends, so a negative amount becomes a huge one (the property quantifies over the non-negative amounts). -/

/-- `r as usize` for a signed `w`-bit integer given as its two's-complement pattern (`h = w - 1`). -/
def sext (h w r : ℕ) : ℕ := if decide (2 ^ h ≤ r) then r + (2 ^ 64 - 2 ^ w) else r

theorem gen_int_shift_shapes (f bits L : ℕ) (a : List ℕ) (r : ℕ) :
    Ruint.Gen.uint_shl_usize f bits L a r = Ruint.Gen.uint_wrapping_shl f bits L a r
    ∧ Ruint.Gen.uint_shr_usize f bits L a r = Ruint.Gen.uint_wrapping_shr f bits L a r
    ∧ Ruint.Gen.uint_shl_assign_usize f bits L a r = Ruint.Gen.uint_wrapping_shl f bits L a r
    ∧ Ruint.Gen.uint_shr_assign_usize f bits L a r = Ruint.Gen.uint_wrapping_shr f bits L a r
    ∧ Ruint.Gen.uint_shl_u8 f bits L a r = Ruint.Gen.uint_wrapping_shl f bits L a r
    ∧ Ruint.Gen.uint_shr_u8 f bits L a r = Ruint.Gen.uint_wrapping_shr f bits L a r
    ∧ Ruint.Gen.uint_shl_assign_u8 f bits L a r = Ruint.Gen.uint_wrapping_shl f bits L a r
    ∧ Ruint.Gen.uint_shr_assign_u8 f bits L a r = Ruint.Gen.uint_wrapping_shr f bits L a r
    ∧ Ruint.Gen.uint_shl_u16 f bits L a r = Ruint.Gen.uint_wrapping_shl f bits L a r
    ∧ Ruint.Gen.uint_shr_u16 f bits L a r = Ruint.Gen.uint_wrapping_shr f bits L a r
    ∧ Ruint.Gen.uint_shl_assign_u16 f bits L a r = Ruint.Gen.uint_wrapping_shl f bits L a r
    ∧ Ruint.Gen.uint_shr_assign_u16 f bits L a r = Ruint.Gen.uint_wrapping_shr f bits L a r
    ∧ Ruint.Gen.uint_shl_u32 f bits L a r = Ruint.Gen.uint_wrapping_shl f bits L a r
    ∧ Ruint.Gen.uint_shr_u32 f bits L a r = Ruint.Gen.uint_wrapping_shr f bits L a r
    ∧ Ruint.Gen.uint_shl_assign_u32 f bits L a r = Ruint.Gen.uint_wrapping_shl f bits L a r
    ∧ Ruint.Gen.uint_shr_assign_u32 f bits L a r = Ruint.Gen.uint_wrapping_shr f bits L a r
    ∧ Ruint.Gen.uint_shl_isize f bits L a r = Ruint.Gen.uint_wrapping_shl f bits L a r
    ∧ Ruint.Gen.uint_shr_isize f bits L a r = Ruint.Gen.uint_wrapping_shr f bits L a r
    ∧ Ruint.Gen.uint_shl_assign_isize f bits L a r = Ruint.Gen.uint_wrapping_shl f bits L a r
    ∧ Ruint.Gen.uint_shr_assign_isize f bits L a r = Ruint.Gen.uint_wrapping_shr f bits L a r
    ∧ Ruint.Gen.uint_shl_i8 f bits L a r = Ruint.Gen.uint_wrapping_shl f bits L a (sext 7 8 r)
    ∧ Ruint.Gen.uint_shr_i8 f bits L a r = Ruint.Gen.uint_wrapping_shr f bits L a (sext 7 8 r)
    ∧ Ruint.Gen.uint_shl_assign_i8 f bits L a r = Ruint.Gen.uint_wrapping_shl f bits L a (sext 7 8 r)
    ∧ Ruint.Gen.uint_shr_assign_i8 f bits L a r = Ruint.Gen.uint_wrapping_shr f bits L a (sext 7 8 r)
    ∧ Ruint.Gen.uint_shl_i16 f bits L a r = Ruint.Gen.uint_wrapping_shl f bits L a (sext 15 16 r)
    ∧ Ruint.Gen.uint_shr_i16 f bits L a r = Ruint.Gen.uint_wrapping_shr f bits L a (sext 15 16 r)
    ∧ Ruint.Gen.uint_shl_assign_i16 f bits L a r = Ruint.Gen.uint_wrapping_shl f bits L a (sext 15 16 r)
    ∧ Ruint.Gen.uint_shr_assign_i16 f bits L a r = Ruint.Gen.uint_wrapping_shr f bits L a (sext 15 16 r)
    ∧ Ruint.Gen.uint_shl_i32 f bits L a r = Ruint.Gen.uint_wrapping_shl f bits L a (sext 31 32 r)
    ∧ Ruint.Gen.uint_shr_i32 f bits L a r = Ruint.Gen.uint_wrapping_shr f bits L a (sext 31 32 r)
    ∧ Ruint.Gen.uint_shl_assign_i32 f bits L a r = Ruint.Gen.uint_wrapping_shl f bits L a (sext 31 32 r)
    ∧ Ruint.Gen.uint_shr_assign_i32 f bits L a r = Ruint.Gen.uint_wrapping_shr f bits L a (sext 31 32 r)
    ∧ Ruint.Gen.uint_shl_u64 f bits L a r = Ruint.Gen.uint_wrapping_shl f bits L a r
    ∧ Ruint.Gen.uint_shr_u64 f bits L a r = Ruint.Gen.uint_wrapping_shr f bits L a r
    ∧ Ruint.Gen.uint_shl_assign_u64 f bits L a r = Ruint.Gen.uint_wrapping_shl f bits L a r
    ∧ Ruint.Gen.uint_shr_assign_u64 f bits L a r = Ruint.Gen.uint_wrapping_shr f bits L a r
    ∧ Ruint.Gen.uint_shl_i64 f bits L a r = Ruint.Gen.uint_wrapping_shl f bits L a r
    ∧ Ruint.Gen.uint_shr_i64 f bits L a r = Ruint.Gen.uint_wrapping_shr f bits L a r
    ∧ Ruint.Gen.uint_shl_assign_i64 f bits L a r = Ruint.Gen.uint_wrapping_shl f bits L a r
    ∧ Ruint.Gen.uint_shr_assign_i64 f bits L a r = Ruint.Gen.uint_wrapping_shr f bits L a r := by
  refine ⟨rfl, rfl, rfl, rfl, rfl, rfl, rfl, rfl, rfl, rfl, rfl, rfl, rfl, rfl, rfl, rfl, rfl, rfl, rfl, rfl, rfl, rfl, rfl, rfl, rfl, rfl, rfl, rfl, rfl, rfl, rfl, rfl, rfl, rfl, rfl, rfl, rfl, rfl, rfl, rfl⟩

/-- a non-negative amount is passed on unchanged. -/
theorem sext_nonneg (h w r : ℕ) (hr : r < 2 ^ h) : sext h w r = r := by
  unfold sext; simp [Nat.not_le.mpr hr]

end Ruint.C05
