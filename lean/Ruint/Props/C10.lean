import Ruint.Model.Modular

/-! # C10 — modular arithmetic (placeholder while the lemmas are re-homed) -/
namespace Ruint.C10
open Ruint Ruint.Modular

theorem reduce_mod_zero (a : Nat) : reduceMod a 0 = 0 := by simp [reduceMod]

end Ruint.C10
