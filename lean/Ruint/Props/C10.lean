import Ruint.Lemmas.ModularInv
import Ruint.Lemmas.GenValue
import Ruint.Lemmas.ModularLimbs
import Ruint.Lemmas.GenUintModMod
import Ruint.Props.C14
import Ruint.Lemmas.GenGcdWrap

/-!
# C10 — modular arithmetic returns the canonical residue for every modulus

Property theorems only. The model functions (`Ruint.Modular.*`, file `Model/Modular.lean`) are the ones the
correspondence driver executes against `Uint::{reduce_mod, add_mod, mul_mod, pow_mod, inv_mod}`.
They are L2 models (DESIGN §3.3a): control structure mirrored (early returns for `m = 0` / `m ≤ 1`, reductions, the
carry out of `BITS` and the single conditional subtraction in `add_mod`, the `nlimbs(2·BITS)`-limb product buffer
and the division by the `LIMBS`-limb modulus in `mul_mod`, the square-and-multiply loop, `inv_mod`'s Lehmer loop with
one cofactor pair in two's complement, the `even` flag and the exit patch), body operations = value-level
specifications of the `Uint` operations (C01, C02, C03, C05, C14, C15) and the model of `LehmerMatrix::from` /
`Matrix::apply` proved under C12.

A `Uint<bits>` is a natural number below `2^bits`. **All widths** (`bits = 0` included), **all operands — not required
to be reduced — and all moduli** (`m = 0`, `1`, `2`, `2^k`, `2^bits − 1`, …).
-/
namespace Ruint.C10
open Ruint Ruint.Modular

/-- `reduce_mod = a mod m`, `0` for `m = 0`, result in `[0, m)`. -/
theorem reduce_mod_spec (a m : ℕ) :
    reduceMod a m = (if m = 0 then 0 else a % m) ∧ (0 < m → reduceMod a m < m) :=
  ⟨reduceMod_spec a m, reduceMod_lt a m⟩

/-- `add_mod = (a + b) mod m` for unreduced operands, whether or not the sum of the reduced operands carries out
    of `BITS`; `0` for `m = 0`; result in `[0, m)`. -/
theorem add_mod_spec (bits a b m : ℕ) (hm : m < 2 ^ bits) :
    addMod bits a b m = (if m = 0 then 0 else (a + b) % m) ∧ (0 < m → addMod bits a b m < m) := by
  have h := addMod_spec bits a b m hm
  refine ⟨h, fun hpos => ?_⟩
  rw [h]; simp only [show m ≠ 0 by omega, if_false]; exact Nat.mod_lt _ hpos

/-- `mul_mod = (a · b) mod m`: the full double-width product fits the `nlimbs(2·BITS)`-limb buffer
    (`debug_assert!(!overflow)` holds — "computed without intermediate overflow"), `0` for `m = 0`, result in `[0, m)`. -/
theorem mul_mod_spec (bits a b m : ℕ) (ha : a < 2 ^ bits) (hb : b < 2 ^ bits) :
    mulMod bits a b m = (if m = 0 then 0 else (a * b) % m) ∧ mulModOverflow bits a b = false
      ∧ (0 < m → mulMod bits a b m < m) :=
  ⟨(mulMod_spec bits a b m ha hb).1, (mulMod_spec bits a b m ha hb).2, mulMod_lt bits a b m⟩

/-- `pow_mod = a^e mod m` (square-and-multiply over `mul_mod`), `0` for `m = 0`, `0 = a^e mod 1` for `m = 1`,
    `0^0 mod m = 1 mod m`; result in `[0, m)`. -/
theorem pow_mod_spec (bits a e m : ℕ) (ha : a < 2 ^ bits) (he : e < 2 ^ bits) (hm : m < 2 ^ bits) :
    powMod bits a e m = (if m = 0 then 0 else a ^ e % m) ∧ (0 < m → powMod bits a e m < m) := by
  have h := powMod_spec bits a e m ha he hm
  refine ⟨h, fun hpos => ?_⟩
  rw [h]; simp only [show m ≠ 0 by omega, if_false]; exact Nat.mod_lt _ hpos

/-! ## limb level (L1): the models the driver runs for `reduce_mod`, `add_mod`, `mul_mod`

`Ruint.ModularL.*` (file `Model/ModularLimbs.lean`) work on limb lists and call the limb-level models of the callees:
`algorithms::cmp`, `algorithms::div` through `%=`, `overflowing_add`, wrapping `-=`, `algorithms::addmul` into the
`nlimbs(2·BITS)`-limb buffer and `algorithms::div` of that buffer by the `LIMBS`-limb modulus (the 2N-by-N shape that
no other entry point uses — `Ruint.C14.div_contract` covers every pair of slice lengths). -/

/-- `reduce_mod` on limbs: no panic, canonical result, `a mod m` (`0` for `m = 0`). -/
theorem reduce_mod_limbs_spec (bits : ℕ) (a m : List ℕ) (ha : Canon bits a) (hm : Canon bits m) :
    ∃ r, ModularL.reduceMod bits a m = some r ∧ Canon bits r
      ∧ val r = (if val m = 0 then 0 else val a % val m) := by
  obtain ⟨r, e, c, v⟩ := ModularL.reduceMod_refines bits a m ha hm
  exact ⟨r, e, c, by rw [v, reduceMod_spec]⟩

/-- `add_mod` on limbs: no panic, canonical result, `(a + b) mod m` (`0` for `m = 0`). -/
theorem add_mod_limbs_spec (bits : ℕ) (a b m : List ℕ) (ha : Canon bits a) (hb : Canon bits b)
    (hm : Canon bits m) :
    ∃ r, ModularL.addMod bits a b m = some r ∧ Canon bits r
      ∧ val r = (if val m = 0 then 0 else (val a + val b) % val m) := by
  obtain ⟨r, e, c, v⟩ := ModularL.addMod_refines bits a b m ha hb hm
  exact ⟨r, e, c, by rw [v, addMod_spec bits _ _ _ hm.val_lt]⟩

/-- `mul_mod` on limbs: no panic (`debug_assert!(!overflow)` holds, the divisor is non-zero), canonical result,
    `(a · b) mod m` (`0` for `m = 0`). -/
theorem mul_mod_limbs_spec (bits : ℕ) (a b m : List ℕ) (ha : Canon bits a) (hb : Canon bits b)
    (hm : Canon bits m) :
    ∃ r, ModularL.mulMod bits a b m = some r ∧ Canon bits r
      ∧ val r = (if val m = 0 then 0 else (val a * val b) % val m) := by
  obtain ⟨r, e, c, v⟩ := ModularL.mulMod_refines bits a b m ha hb hm
  exact ⟨r, e, c, by rw [v, (mulMod_spec bits _ _ _ ha.val_lt hb.val_lt).1]⟩

/-- `inv_mod(a, m)`: never panics; returns `Some(x)` **exactly when** `m ≥ 2 ∧ gcd(a, m) = 1`, and then `x < m` and
    `a·x ≡ 1 (mod m)`; `None` otherwise (`m = 0`, `m = 1`, `a ≡ 0`, common factor). `a` need not be reduced.
    The matrices are those of the model of `LehmerMatrix::from`, whose contract is a theorem (C12), so nothing is
    assumed about them. -/
theorem inv_mod_spec (bits a m : ℕ) (ha : a < 2 ^ bits) (hm : m < 2 ^ bits) :
    ∃ r, invMod bits a m = some r
      ∧ ((∃ x, r = some x) ↔ (2 ≤ m ∧ Nat.gcd a m = 1))
      ∧ (∀ x, r = some x → x < m ∧ (a * x) % m = 1) := by
  obtain ⟨r, h1, h2, h3⟩ := invMod_spec bits a m ha hm
  refine ⟨r, h1, ?_, h3⟩
  cases r with
  | none =>
    have := h2.1 rfl
    simp only [reduceCtorEq, exists_false, false_iff]; exact this
  | some x =>
    have : ¬ ¬ (2 ≤ m ∧ Nat.gcd a m = 1) := fun hn => by
      have := h2.2 hn; simp at this
    simp only [Option.some.injEq, exists_eq', true_iff]
    exact not_not.1 this

/-- the inverse is unique: any `y < m` with `a·y ≡ 1` equals the returned value. -/
theorem inv_mod_unique (bits a m x y : ℕ) (ha : a < 2 ^ bits) (hm : m < 2 ^ bits)
    (h : invMod bits a m = some (some x)) (hy : y < m) (hay : (a * y) % m = 1) : y = x := by
  obtain ⟨r, h1, _, h3⟩ := invMod_spec bits a m ha hm
  rw [h] at h1
  have hr : r = some x := by injection h1 with h1; exact h1.symm
  obtain ⟨hx, hax⟩ := h3 x hr
  -- y = y·(a·x) = (y·a)·x = x (mod m)
  have e1 : (y * (a * x)) % m = y % m := by
    rw [Nat.mul_mod, hax, Nat.mul_one, Nat.mod_mod]
  have e2 : (y * (a * x)) % m = x % m := by
    have : y * (a * x) = (a * y) * x := by ring
    rw [this, Nat.mul_mod, hay, Nat.one_mul, Nat.mod_mod]
  rw [Nat.mod_eq_of_lt hy] at e1
  rw [Nat.mod_eq_of_lt hx] at e2
  omega

/-! Non-vacuity: concrete instances evaluated by the kernel at a 65-bit width (two limbs, masked top limb):
unreduced operands, a sum that carries out of `BITS`, a product needing all four limbs, and an inverse. -/
example : addMod 65 0x1ffffffffffffffff 0x1fffffffffffffffe 0x1ffffffffffffffff = 0x1fffffffffffffffe := by
  decide +kernel
example : mulMod 65 0x1ffffffffffffffff 0x1fffffffffffffffe 0x1fffffffffffffffd = 2 := by decide +kernel
example : powMod 65 3 0x1ffffffffffffffff 0x1fffffffffffffffd = 0x26ef2daade6ed811 := by decide +kernel
example : invMod 65 3 0x1fffffffffffffffd = some (some 0xaaaaaaaaaaaaaaaa) := by decide +kernel
example : invMod 64 4 6 = some none := by decide +kernel
/-- limb level: a 4-limb product divided by a 2-limb modulus with an un-normalised top limb (Knuth is not reached
    for two limbs: `div_nx2`); and by a one-limb modulus padded with a zero limb. -/
example : ModularL.mulMod 65 [0xffffffffffffffff, 1] [0xfffffffffffffffe, 1] [0xfffffffffffffffd, 1] = some [2, 0] := by
  decide +kernel
example : ModularL.mulMod 65 [0xffffffffffffffff, 1] [0xfffffffffffffffe, 1] [7, 0] = some [6, 0] := by
  decide +kernel

/-! ## Tie of the value-level wrappers to the source (G, value mode)

`Ruint.Gen.val_reduce_mod`, `val_add_mod`, `val_pow_mod` are regenerated from `src/modular.rs` on every run in the
translator's *value mode* (a `Uint` is its numeric value; `overflowing_add`, comparisons, `-=`, `>>=`, `limbs[0] & 1` are
their value-level meanings; `mul_mod` is the model's `mulMod`): the zero-modulus guards, the single conditional
subtraction of `add_mod`, the `modulus <= 1` early return, the loop condition `exp > 0` and the parity test of `pow_mod`
are the source's. They are equal to the L2 models the theorems above are about (`pow_mod` with the model's own fuel). -/

theorem gen_reduce_mod_eq (bits L a m : ℕ) : Ruint.Gen.val_reduce_mod bits L a m = reduceMod a m :=
  Ruint.GenValue.reduce_mod_eq bits L a m

theorem gen_add_mod_eq (bits L a b m : ℕ) (hm : m < 2 ^ bits) :
    Ruint.Gen.val_add_mod bits L a b m = addMod bits a b m :=
  Ruint.GenValue.add_mod_eq bits L a b m hm

theorem gen_pow_mod_eq (bits L a e m : ℕ) :
    Ruint.Gen.val_pow_mod bits bits L a e m = powMod bits a e m :=
  Ruint.GenValue.pow_mod_eq bits L a e m

/-- `mul_mod` at the limb level as regenerated from `src/modular.rs` (zero product buffer of `nlimbs(2·BITS)` limbs — a
    declared rewrite of the raw-pointer view —, the generated `addmul`, the generated `algorithms::div`, the remainder
    returned) equals the limb-level model, whose value the theorems above give. -/
theorem gen_mul_mod_limbs_eq (bits : ℕ) (hB : 2 * bits + 63 < 2 ^ 64) (a b m : List ℕ)
    (ha : Canon bits a) (hb : Canon bits b) (hm : Canon bits m) (f : ℕ) (hf : 4 * nlimbs bits + 2 < f) :
    Ruint.Gen.uint_mul_mod f bits (nlimbs bits) a b m = Ruint.ModularL.mulMod bits a b m :=
  Ruint.GenUintMod.mul_mod_eq Ruint.C14.gen_div_eq bits hB a b m ha hb hm f hf

/-- `algorithms::inv_mod` and `Uint::inv_mod` as regenerated in value mode from src/algorithms/gcd/mod.rs / src/modular.rs
    (guards, reduction of the operand, the Lehmer loop with its cofactor updates, the final `a == ONE` test and sign choice)
    equal the L2 model of `inv_mod_spec`. -/
theorem gen_inv_mod_eq (bits L num modulus : ℕ) (hn : num < 2 ^ bits) (hm : modulus < 2 ^ bits) (f : ℕ)
    (hf : modulus + 1 < f) :
    Ruint.Gen.val_inv_mod f bits L num modulus = Ruint.Modular.invMod bits num modulus
      ∧ Ruint.Gen.val_uint_inv_mod f bits L num modulus = Ruint.Modular.invMod bits num modulus :=
  ⟨Ruint.GenGcd.inv_mod_eq bits L num modulus hn hm f hf, Ruint.GenGcd.uint_inv_mod_eq bits L num modulus hn hm f hf⟩

end Ruint.C10
