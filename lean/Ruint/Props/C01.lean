import Ruint.Lemmas.Add
import Ruint.Lemmas.GenUintWrap
import Ruint.Lemmas.GenUint
import Ruint.Lemmas.GenBinOps
import Ruint.Lemmas.GenFolds

/-!
# C01 — addition, subtraction and negation are exact in the ring mod 2^BITS

Property theorems only (helper lemmas live in `Lemmas/`). Every theorem quantifies over **all**
widths `bits` (including 0, 1 and non-multiples of 64) and all canonical operands.
The model functions (`Ruint.Add.*`, file `Model/Add.lean`) are the ones the correspondence
driver executes against the real `Uint` methods.
-/
namespace Ruint.C01
open Ruint Ruint.Add

/-- `overflowing_add`: canonical result, value `(a+b) mod 2^bits`, flag iff `a+b ≥ 2^bits`. -/
theorem overflowing_add_spec (bits : ℕ) (a b : List ℕ) (ha : Canon bits a) (hb : Canon bits b) :
    Canon bits (overflowingAdd bits a b).1
    ∧ val (overflowingAdd bits a b).1 = (val a + val b) % 2 ^ bits
    ∧ ((overflowingAdd bits a b).2 = true ↔ 2 ^ bits ≤ val a + val b) := by
  rcases Nat.eq_zero_or_pos bits with h0 | hpos
  · subst h0
    have ea := canon_zero_bits a ha
    have eb := canon_zero_bits b hb
    subst ea eb
    simp [overflowingAdd, (zero_canon 0).1, (zero_canon 0).2]
  · have hne : bits ≠ 0 := by omega
    obtain ⟨c1, c2, c3⟩ := addChain_spec a b false (by rw [ha.1, hb.1]) ha.2.1 hb.2.1
    simp only [overflowingAdd, hne, if_false]
    generalize hr : addChain a b false = r at *
    obtain ⟨rl, rc⟩ := r
    simp only at c1 c2 c3 ⊢
    rw [ha.1] at c1 c2
    obtain ⟨m1, m2, m3⟩ := maskTop_spec bits hpos rl c2 c3
    obtain ⟨v1, v2⟩ := oadd_value bits (nlimbs bits) (val a) (val b) (val rl) rc.toNat
      (pow_dvd_W bits) (by simpa using c1) ha.val_lt hb.val_lt
    refine ⟨m1, by rw [m2, v1], ?_⟩
    rw [← v2, Bool.or_eq_true, decide_eq_true_eq, gt_iff_lt, m3]
    cases rc <;> simp

/-- `overflowing_sub`: canonical result, value `(a−b) mod 2^bits`, flag iff `a < b`. -/
theorem overflowing_sub_spec (bits : ℕ) (a b : List ℕ) (ha : Canon bits a) (hb : Canon bits b) :
    Canon bits (overflowingSub bits a b).1
    ∧ val (overflowingSub bits a b).1 = (val a + 2 ^ bits - val b) % 2 ^ bits
    ∧ ((overflowingSub bits a b).2 = true ↔ val a < val b) := by
  rcases Nat.eq_zero_or_pos bits with h0 | hpos
  · subst h0
    have ea := canon_zero_bits a ha
    have eb := canon_zero_bits b hb
    subst ea eb
    simp [overflowingSub, (zero_canon 0).1, (zero_canon 0).2]
  · have hne : bits ≠ 0 := by omega
    obtain ⟨c1, c2, c3⟩ := subChain_spec a b false (by rw [ha.1, hb.1]) ha.2.1 hb.2.1
    simp only [overflowingSub, hne, if_false]
    generalize hr : subChain a b false = r at *
    obtain ⟨rl, rc⟩ := r
    simp only at c1 c2 c3 ⊢
    rw [ha.1] at c1 c2
    obtain ⟨m1, m2, m3⟩ := maskTop_spec bits hpos rl c2 c3
    have hrl := val_lt_pow rl c3
    rw [c2] at hrl
    obtain ⟨v1, v2⟩ := osub_value bits (nlimbs bits) (val a) (val b) (val rl) rc.toNat
      (pow_dvd_W bits) (Bool.toNat_le rc) hrl (by simpa using c1) ha.val_lt hb.val_lt
    refine ⟨m1, by rw [m2, v1], ?_⟩
    rw [← v2, Bool.or_eq_true, decide_eq_true_eq, gt_iff_lt, m3]
    cases rc <;> simp

/-- `overflowing_neg`: `(−a) mod 2^bits`, flag iff `a ≠ 0`. -/
theorem overflowing_neg_spec (bits : ℕ) (a : List ℕ) (ha : Canon bits a) :
    Canon bits (overflowingNeg bits a).1
    ∧ val (overflowingNeg bits a).1 = (2 ^ bits - val a) % 2 ^ bits
    ∧ ((overflowingNeg bits a).2 = true ↔ 0 < val a) := by
  have := overflowing_sub_spec bits (zero bits) a (zero_canon bits).1 ha
  rw [(zero_canon bits).2, Nat.zero_add] at this
  exact this

theorem wrapping_add_spec (bits : ℕ) (a b : List ℕ) (ha : Canon bits a) (hb : Canon bits b) :
    Canon bits (wrappingAdd bits a b) ∧ val (wrappingAdd bits a b) = (val a + val b) % 2 ^ bits :=
  ⟨(overflowing_add_spec bits a b ha hb).1, (overflowing_add_spec bits a b ha hb).2.1⟩

theorem wrapping_sub_spec (bits : ℕ) (a b : List ℕ) (ha : Canon bits a) (hb : Canon bits b) :
    Canon bits (wrappingSub bits a b)
    ∧ val (wrappingSub bits a b) = (val a + 2 ^ bits - val b) % 2 ^ bits :=
  ⟨(overflowing_sub_spec bits a b ha hb).1, (overflowing_sub_spec bits a b ha hb).2.1⟩

theorem wrapping_neg_spec (bits : ℕ) (a : List ℕ) (ha : Canon bits a) :
    Canon bits (wrappingNeg bits a) ∧ val (wrappingNeg bits a) = (2 ^ bits - val a) % 2 ^ bits :=
  ⟨(overflowing_neg_spec bits a ha).1, (overflowing_neg_spec bits a ha).2.1⟩

/-- `checked_add = Some(a+b)` exactly when the true sum fits, `None` otherwise. -/
theorem checked_add_spec (bits : ℕ) (a b : List ℕ) (ha : Canon bits a) (hb : Canon bits b) :
    (val a + val b < 2 ^ bits →
      ∃ r, checkedAdd bits a b = some r ∧ Canon bits r ∧ val r = val a + val b)
    ∧ (2 ^ bits ≤ val a + val b → checkedAdd bits a b = none) := by
  obtain ⟨h1, h2, h3⟩ := overflowing_add_spec bits a b ha hb
  unfold checkedAdd
  generalize overflowingAdd bits a b = r at *
  obtain ⟨v, f⟩ := r
  cases f
  · simp only at h1 h2 h3 ⊢
    have hlt : val a + val b < 2 ^ bits := by
      by_contra hc; have := h3.2 (by omega); simp at this
    exact ⟨fun _ => ⟨v, rfl, h1, by rw [h2, Nat.mod_eq_of_lt hlt]⟩, fun h => by omega⟩
  · simp only at h3 ⊢
    have := h3.1 trivial
    exact ⟨fun h => by omega, fun _ => by simp⟩

/-- `checked_sub = Some(a−b)` exactly when `b ≤ a`. -/
theorem checked_sub_spec (bits : ℕ) (a b : List ℕ) (ha : Canon bits a) (hb : Canon bits b) :
    (val b ≤ val a →
      ∃ r, checkedSub bits a b = some r ∧ Canon bits r ∧ val r = val a - val b)
    ∧ (val a < val b → checkedSub bits a b = none) := by
  obtain ⟨h1, h2, h3⟩ := overflowing_sub_spec bits a b ha hb
  unfold checkedSub
  generalize overflowingSub bits a b = r at *
  obtain ⟨v, f⟩ := r
  have hA := ha.val_lt
  cases f
  · simp only at h1 h2 h3 ⊢
    have hle : val b ≤ val a := by
      by_contra hc; have := h3.2 (by omega); simp at this
    refine ⟨fun _ => ⟨v, rfl, h1, ?_⟩, fun h => by omega⟩
    have : val a + 2 ^ bits - val b = (val a - val b) + 2 ^ bits := by omega
    rw [h2, this, Nat.add_mod_right, Nat.mod_eq_of_lt (by omega)]
  · simp only at h3 ⊢
    have := h3.1 trivial
    exact ⟨fun h => by omega, fun _ => by simp⟩

/-- `checked_neg = Some(0)` exactly for `a = 0`. -/
theorem checked_neg_spec (bits : ℕ) (a : List ℕ) (ha : Canon bits a) :
    (val a = 0 → ∃ r, checkedNeg bits a = some r ∧ Canon bits r ∧ val r = 0)
    ∧ (0 < val a → checkedNeg bits a = none) := by
  have h := checked_sub_spec bits (zero bits) a (zero_canon bits).1 ha
  rw [(zero_canon bits).2] at h
  refine ⟨fun h0 => ?_, fun hp => h.2 hp⟩
  obtain ⟨r, e1, e2, e3⟩ := h.1 (by omega)
  exact ⟨r, e1, e2, by omega⟩

/-- `saturating_add = min(a+b, 2^bits − 1)`. -/
theorem saturating_add_spec (bits : ℕ) (a b : List ℕ) (ha : Canon bits a) (hb : Canon bits b) :
    Canon bits (saturatingAdd bits a b)
    ∧ val (saturatingAdd bits a b) = min (val a + val b) (2 ^ bits - 1) := by
  obtain ⟨h1, h2, h3⟩ := overflowing_add_spec bits a b ha hb
  unfold saturatingAdd
  generalize overflowingAdd bits a b = r at *
  obtain ⟨v, f⟩ := r
  cases f
  · simp only at h1 h2 h3 ⊢
    have hlt : val a + val b < 2 ^ bits := by
      by_contra hc; have := h3.2 (by omega); simp at this
    exact ⟨h1, by rw [h2, Nat.mod_eq_of_lt hlt]; omega⟩
  · simp only at h3 ⊢
    have := h3.1 trivial
    exact ⟨(max_canon bits).1, by rw [(max_canon bits).2]; omega⟩

/-- `saturating_sub = max(a−b, 0)` (truncated subtraction on ℕ). -/
theorem saturating_sub_spec (bits : ℕ) (a b : List ℕ) (ha : Canon bits a) (hb : Canon bits b) :
    Canon bits (saturatingSub bits a b) ∧ val (saturatingSub bits a b) = val a - val b := by
  obtain ⟨h1, h2, h3⟩ := overflowing_sub_spec bits a b ha hb
  unfold saturatingSub
  generalize overflowingSub bits a b = r at *
  obtain ⟨v, f⟩ := r
  have hA := ha.val_lt
  cases f
  · simp only at h1 h2 h3 ⊢
    have hle : val b ≤ val a := by
      by_contra hc; have := h3.2 (by omega); simp at this
    have : val a + 2 ^ bits - val b = (val a - val b) + 2 ^ bits := by omega
    exact ⟨h1, by rw [h2, this, Nat.add_mod_right, Nat.mod_eq_of_lt (by omega)]⟩
  · simp only at h3 ⊢
    have := h3.1 trivial
    exact ⟨(zero_canon bits).1, by rw [(zero_canon bits).2]; omega⟩

/-- `abs_diff = |a − b|`. -/
theorem abs_diff_spec (bits : ℕ) (a b : List ℕ) (ha : Canon bits a) (hb : Canon bits b) :
    Canon bits (absDiff bits a b)
    ∧ val (absDiff bits a b) = (if val a < val b then val b - val a else val a - val b) := by
  unfold absDiff ltLimbs
  have hA := ha.val_lt
  have hB := hb.val_lt
  by_cases h : val a < val b
  · simp only [h, decide_true, if_true]
    obtain ⟨h1, h2⟩ := wrapping_sub_spec bits b a hb ha
    refine ⟨h1, ?_⟩
    have : val b + 2 ^ bits - val a = (val b - val a) + 2 ^ bits := by omega
    rw [h2, this, Nat.add_mod_right, Nat.mod_eq_of_lt (by omega)]
  · simp only [h, decide_false, if_false]
    obtain ⟨h1, h2⟩ := wrapping_sub_spec bits a b ha hb
    refine ⟨h1, ?_⟩
    have : val a + 2 ^ bits - val b = (val a - val b) + 2 ^ bits := by omega
    simp only [Bool.false_eq_true, if_false]
    rw [h2, this, Nat.add_mod_right, Nat.mod_eq_of_lt (by omega)]

/-- iterator `Sum` equals the wrapped mathematical sum. -/
theorem sum_spec (bits : ℕ) (l : List (List ℕ)) (hl : ∀ x ∈ l, Canon bits x) :
    Canon bits (sum bits l) ∧ val (sum bits l) = (l.map val).sum % 2 ^ bits := by
  have key : ∀ (l : List (List ℕ)) (acc : List ℕ), (∀ x ∈ l, Canon bits x) → Canon bits acc →
      Canon bits (l.foldl (wrappingAdd bits) acc)
      ∧ val (l.foldl (wrappingAdd bits) acc) = (val acc + (l.map val).sum) % 2 ^ bits := by
    intro l
    induction l with
    | nil =>
      intro acc _ hacc
      exact ⟨hacc, by simp [Nat.mod_eq_of_lt hacc.val_lt]⟩
    | cons x xs ih =>
      intro acc hx hacc
      obtain ⟨w1, w2⟩ := wrapping_add_spec bits acc x hacc (hx x (by simp))
      obtain ⟨i1, i2⟩ := ih (wrappingAdd bits acc x) (fun y hy => hx y (by simp [hy])) w1
      refine ⟨i1, ?_⟩
      simp only [List.foldl_cons, List.map_cons, List.sum_cons]
      rw [i2, w2, Nat.mod_add_mod, Nat.add_assoc]
  have := key l (zero bits) hl (zero_canon bits).1
  rw [(zero_canon bits).2, Nat.zero_add] at this
  exact this

/-! ## Tie to the source (G)

The word primitives `carryingAdd` / `borrowingSub` used by the chains above are not hand-written:
they are `Ruint.Gen.carrying_add` / `borrowing_sub`, regenerated from `src/algorithms/mod.rs` by
`tools/rs2lean.py` on every run (file `Ruint/Gen/Words.lean`). The two theorems below re-prove their
contract against what the source says now; every theorem of this file depends on them. -/

theorem gen_carrying_add_spec (a b : ℕ) (c : Bool) (ha : a < W) (hb : b < W) :
    (Ruint.Gen.carrying_add a b c).1 + W * (Ruint.Gen.carrying_add a b c).2.toNat = a + b + c.toNat
    ∧ (Ruint.Gen.carrying_add a b c).1 < W := carryingAdd_spec a b c ha hb

theorem gen_borrowing_sub_spec (a b : ℕ) (c : Bool) (ha : a < W) (hb : b < W) :
    (Ruint.Gen.borrowing_sub a b c).1 + b + c.toNat
      = a + W * (Ruint.Gen.borrowing_sub a b c).2.toNat
    ∧ (Ruint.Gen.borrowing_sub a b c).1 < W := borrowingSub_spec a b c ha hb

/-! ## Whole-function tie to the source (G)

`Ruint.Gen.uint_overflowing_add` / `uint_overflowing_sub` / `uint_masked` are regenerated from `src/add.rs` and
`src/lib.rs` by `tools/rs2lean.py` on every run — the complete methods: the `BITS == 0` early return, the
`while i < LIMBS` limb loop (a step function iterated by `Rs.loop`), the flag `carry | limbs[LIMBS-1] > MASK` and the
final `masked()`. On well-formed operands (`LIMBS = nlimbs BITS` words each) the models the theorems of this file are
about EQUAL the generated functions, so `overflowing_add_spec`, `overflowing_sub_spec` and everything derived from them
(checked/saturating/wrapping forms, neg, abs_diff, Sum) are statements about what the source says now. -/

theorem gen_masked_eq (bits : ℕ) (hb : 0 < bits) (hN : nlimbs bits < 2 ^ 64) (l : List ℕ)
    (hl : l.length = nlimbs bits) (hw : AllLt l) :
    Ruint.Gen.uint_masked bits (nlimbs bits) l = maskTop bits l :=
  Ruint.GenUint.masked_eq bits hb hN l hl hw

theorem gen_overflowing_add_eq (bits : ℕ) (hN : nlimbs bits < 2 ^ 64) (a b : List ℕ)
    (ha : Canon bits a) (hb : Canon bits b) :
    Ruint.Gen.uint_overflowing_add (nlimbs bits + 1) bits (nlimbs bits) a b = overflowingAdd bits a b :=
  Ruint.GenUint.overflowing_add_eq bits hN a b ha.1 hb.1 ha.2.1 hb.2.1

theorem gen_overflowing_sub_eq (bits : ℕ) (hN : nlimbs bits < 2 ^ 64) (a b : List ℕ)
    (ha : Canon bits a) (hb : Canon bits b) :
    Ruint.Gen.uint_overflowing_sub (nlimbs bits + 1) bits (nlimbs bits) a b = overflowingSub bits a b :=
  Ruint.GenUint.overflowing_sub_eq bits hN a b ha.1 hb.1 ha.2.1 hb.2.1

/-! Non-vacuity: concrete non-trivial instances (a carry chain through an all-ones limb into the
masked top limb of a 65-bit value), evaluated by the kernel. -/
example : Canon 65 [W - 1, 1] ∧ Canon 65 [1, 0] := by
  refine ⟨⟨rfl, ?_, ?_⟩, ⟨rfl, ?_, ?_⟩⟩ <;> simp [AllLt, W] 
example : overflowingAdd 65 [W - 1, 1] [1, 0] = ([0, 0], true) := by decide +kernel

/-! ### the wrappers of `src/add.rs`, regenerated from the source

`checked_*` / `saturating_*` (a `match` on the `overflowing_*` pair), `wrapping_*` (`.0`), `overflowing_neg`
(`Self::ZERO.overflowing_sub(self)`), `abs_diff` (`if self < other`, the numeric order of C04) are translated too and equal
the models on well-formed operands; the driver runs the generated functions for every named method. -/

theorem gen_overflowing_neg_eq (bits : ℕ) (hN : nlimbs bits < 2 ^ 64) (a : List ℕ) (ha : Canon bits a) :
    Ruint.Gen.uint_overflowing_neg (nlimbs bits + 1) bits (nlimbs bits) a = overflowingNeg bits a :=
  Ruint.GenUintWrap.overflowing_neg_eq bits hN a ha.1 ha.2.1

theorem gen_checked_eq (bits : ℕ) (hN : nlimbs bits < 2 ^ 64) (a b : List ℕ) (ha : Canon bits a) (hb : Canon bits b) :
    Ruint.Gen.uint_checked_add (nlimbs bits + 1) bits (nlimbs bits) a b = checkedAdd bits a b
    ∧ Ruint.Gen.uint_checked_sub (nlimbs bits + 1) bits (nlimbs bits) a b = checkedSub bits a b
    ∧ Ruint.Gen.uint_checked_neg (nlimbs bits + 1) bits (nlimbs bits) a = checkedNeg bits a :=
  ⟨Ruint.GenUintWrap.checked_add_eq bits hN a b ha.1 hb.1 ha.2.1 hb.2.1,
   Ruint.GenUintWrap.checked_sub_eq bits hN a b ha.1 hb.1 ha.2.1 hb.2.1,
   Ruint.GenUintWrap.checked_neg_eq bits hN a ha.1 ha.2.1⟩

theorem gen_saturating_eq (bits : ℕ) (hN : nlimbs bits < 2 ^ 64) (a b : List ℕ) (ha : Canon bits a) (hb : Canon bits b) :
    Ruint.Gen.uint_saturating_add (nlimbs bits + 1) bits (nlimbs bits) a b = saturatingAdd bits a b
    ∧ Ruint.Gen.uint_saturating_sub (nlimbs bits + 1) bits (nlimbs bits) a b = saturatingSub bits a b :=
  ⟨Ruint.GenUintWrap.saturating_add_eq bits hN a b ha.1 hb.1 ha.2.1 hb.2.1,
   Ruint.GenUintWrap.saturating_sub_eq bits hN a b ha.1 hb.1 ha.2.1 hb.2.1⟩

theorem gen_wrapping_eq (bits : ℕ) (hN : nlimbs bits < 2 ^ 64) (a b : List ℕ) (ha : Canon bits a) (hb : Canon bits b) :
    Ruint.Gen.uint_wrapping_add (nlimbs bits + 1) bits (nlimbs bits) a b = wrappingAdd bits a b
    ∧ Ruint.Gen.uint_wrapping_sub (nlimbs bits + 1) bits (nlimbs bits) a b = wrappingSub bits a b
    ∧ Ruint.Gen.uint_wrapping_neg (nlimbs bits + 1) bits (nlimbs bits) a = wrappingNeg bits a :=
  ⟨Ruint.GenUintWrap.wrapping_add_eq bits hN a b ha.1 hb.1 ha.2.1 hb.2.1,
   Ruint.GenUintWrap.wrapping_sub_eq bits hN a b ha.1 hb.1 ha.2.1 hb.2.1,
   Ruint.GenUintWrap.wrapping_neg_eq bits hN a ha.1 ha.2.1⟩

theorem gen_abs_diff_eq (bits : ℕ) (hN : nlimbs bits < 2 ^ 64) (a b : List ℕ) (ha : Canon bits a) (hb : Canon bits b) :
    Ruint.Gen.uint_abs_diff (nlimbs bits + 1) bits (nlimbs bits) a b = absDiff bits a b :=
  Ruint.GenUintWrap.abs_diff_eq bits hN a b ha.1 hb.1 ha.2.1 hb.2.1

/-- the six operator shapes of `+` and `-` (`impl_bin_op!`, regenerated from `src/macros.rs` for the invocations in `src/add.rs`)
    are `wrapping_add` / `wrapping_sub` on the same operands in the same order. -/
theorem gen_add_sub_operator_shapes (f bits L : Nat) (a b : List Nat) :
    (Ruint.Gen.op_add_assign_val f bits L a b = Ruint.Gen.uint_wrapping_add f bits L a b
      ∧ Ruint.Gen.op_add_assign_ref f bits L a b = Ruint.Gen.uint_wrapping_add f bits L a b
      ∧ Ruint.Gen.op_add_val_val f bits L a b = Ruint.Gen.uint_wrapping_add f bits L a b
      ∧ Ruint.Gen.op_add_val_ref f bits L a b = Ruint.Gen.uint_wrapping_add f bits L a b
      ∧ Ruint.Gen.op_add_ref_val f bits L a b = Ruint.Gen.uint_wrapping_add f bits L a b
      ∧ Ruint.Gen.op_add_ref_ref f bits L a b = Ruint.Gen.uint_wrapping_add f bits L a b)
    ∧ (Ruint.Gen.op_sub_assign_val f bits L a b = Ruint.Gen.uint_wrapping_sub f bits L a b
      ∧ Ruint.Gen.op_sub_assign_ref f bits L a b = Ruint.Gen.uint_wrapping_sub f bits L a b
      ∧ Ruint.Gen.op_sub_val_val f bits L a b = Ruint.Gen.uint_wrapping_sub f bits L a b
      ∧ Ruint.Gen.op_sub_val_ref f bits L a b = Ruint.Gen.uint_wrapping_sub f bits L a b
      ∧ Ruint.Gen.op_sub_ref_val f bits L a b = Ruint.Gen.uint_wrapping_sub f bits L a b
      ∧ Ruint.Gen.op_sub_ref_ref f bits L a b = Ruint.Gen.uint_wrapping_sub f bits L a b) :=
  ⟨Ruint.GenBinOps.add_shapes f bits L a b, Ruint.GenBinOps.sub_shapes f bits L a b⟩

/-- iterator `Sum` (by value and by reference: `iter.fold(Self::ZERO, Self::wrapping_add)`) as regenerated from `src/add.rs`
    equals the model of `sum_spec` on every list of canonical values. -/
theorem gen_sum_eq (bits : ℕ) (hN : nlimbs bits < 2 ^ 64) (l : List (List ℕ)) (hl : ∀ x ∈ l, Canon bits x) :
    Ruint.Gen.uint_sum (nlimbs bits + 1) bits (nlimbs bits) l = sum bits l
    ∧ Ruint.Gen.uint_sum_ref (nlimbs bits + 1) bits (nlimbs bits) l = sum bits l := by
  have key : List.foldl (fun acc_ x_ => Ruint.Gen.uint_wrapping_add (nlimbs bits + 1) bits (nlimbs bits) acc_ x_)
      (List.replicate (nlimbs bits) 0) l = List.foldl (wrappingAdd bits) (zero bits) l := by
    have hz : List.replicate (nlimbs bits) 0 = zero bits := rfl
    rw [hz]
    exact Ruint.GenFolds.foldl_congr_canon (Canon bits) _ _
      (fun a x ha hx => (wrapping_add_spec bits a x ha hx).1)
      (fun a x ha hx => Ruint.GenUintWrap.wrapping_add_eq bits hN a x ha.1 hx.1 ha.2.1 hx.2.1)
      l (zero bits) (Ruint.Add.zero_canon bits).1 hl
  exact ⟨key, key⟩

end Ruint.C01
