import Ruint.Lemmas.Pow
import Ruint.Lemmas.GenValue
import Ruint.Lemmas.Log
import Ruint.Lemmas.Root
import Ruint.Lemmas.C13Spec
import Ruint.Lemmas.GenLog
import Ruint.Lemmas.GenRoot

/-!
# C13 — powers, integer logarithms and integer roots are exact

Property theorems only (helper lemmas live in `Lemmas/{Pow,Log,Root}.lean`). Every theorem quantifies
over **all** widths `bits` (including 0, 1, 2, 3 where the constants 2 and 10 do not fit) and all
operands `< 2^bits`. The model functions (`Ruint.Pow.*`, `Ruint.Log.*`, `Ruint.Root.*`) are the ones
the correspondence driver executes against the real `Uint` methods (L2 models, DESIGN §3.3a: control
structure mirrored, body operations by their value-level specs).

libm is not modelled. The float-derived first guess of `log` (`est`) and of `root` (`g`) is a
**parameter** of the model; the theorems state exactly what they need of it (`Log.estOk`,
`Root.guessOk`), the harness reads the real guess through `verif_hooks::tap`, and the driver evaluates
the hypothesis on every case (`pred:false hyp …` when it fails).
-/
namespace Ruint.C13
open Ruint Ruint.Pow Ruint.Log Ruint.Root

/-! ## pow -/

/-- `overflowing_pow` at every non-empty width: value `a^e mod 2^bits`, flag iff `a^e ≥ 2^bits`
    (for every exponent, however large; `0^0 = 1` because `0^0 = 1` in `ℕ`). -/
theorem overflowing_pow_spec (bits a e : ℕ) (hb : 0 < bits) (ha : a < 2 ^ bits) :
    (overflowingPow bits a e).1 = a ^ e % 2 ^ bits
    ∧ ((overflowingPow bits a e).2 = true ↔ 2 ^ bits ≤ a ^ e) := by
  rw [overflowingPow_eq bits a e hb ha]
  simp

/-- `0^0 = 1`, no overflow, for `BITS > 0`. -/
theorem overflowing_pow_zero_zero (bits : ℕ) (hb : 0 < bits) : overflowingPow bits 0 0 = (1, false) := by
  have h2 := two_le_two_pow bits hb
  rw [overflowingPow_eq bits 0 0 hb (by omega)]
  have h1 : 1 % 2 ^ bits = 1 := Nat.mod_eq_of_lt (by omega)
  have : ¬ (2 ^ bits ≤ 1) := by omega
  simp [h1, this]

/-- `BITS = 0`: the only value is `0`, the result is `(0, false)` (as documented). -/
theorem overflowing_pow_bits_zero (a e : ℕ) (ha : a < 2 ^ 0) : overflowingPow 0 a e = (0, false) := by
  simp at ha
  simp [overflowingPow, ha]

/-- `wrapping_pow` = `a^e mod 2^bits` at every width. -/
theorem wrapping_pow_spec (bits a e : ℕ) (ha : a < 2 ^ bits) :
    wrappingPow bits a e = a ^ e % 2 ^ bits := wrappingPow_eq bits a e ha

/-- `pow` = `a^e mod 2^bits` at every width. -/
theorem pow_spec (bits a e : ℕ) (ha : a < 2 ^ bits) : Pow.pow bits a e = a ^ e % 2 ^ bits :=
  wrappingPow_eq bits a e ha

/-- `checked_pow`: `Some(a^e)` iff `a^e < 2^bits`. -/
theorem checked_pow_spec (bits a e : ℕ) (hb : 0 < bits) (ha : a < 2 ^ bits) :
    checkedPow bits a e = if a ^ e < 2 ^ bits then some (a ^ e) else none :=
  checkedPow_eq bits a e hb ha

/-- `saturating_pow`: `min (a^e) MAX`. -/
theorem saturating_pow_spec (bits a e : ℕ) (hb : 0 < bits) (ha : a < 2 ^ bits) :
    saturatingPow bits a e = min (a ^ e) (2 ^ bits - 1) := by
  unfold saturatingPow
  rw [overflowingPow_eq bits a e hb ha]
  by_cases h : 2 ^ bits ≤ a ^ e
  · have : min (a ^ e) (2 ^ bits - 1) = 2 ^ bits - 1 := by omega
    simp [h, this]
  · have h' : a ^ e < 2 ^ bits := by omega
    have : min (a ^ e) (2 ^ bits - 1) = a ^ e := by omega
    simp [h, this, Nat.mod_eq_of_lt h']

/-- `BITS = 0`: `checked_pow = Some(0)`, `saturating_pow = 0`. -/
theorem checked_saturating_pow_bits_zero (a e : ℕ) (ha : a < 2 ^ 0) :
    checkedPow 0 a e = some 0 ∧ saturatingPow 0 a e = 0 := by
  simp at ha
  simp [checkedPow, saturatingPow, overflowingPow, ha]

/-- `approx_pow2` on integer-valued exponents (its integer post-processing: `try_from`, `checked_shl`,
    rounding shift, with `exp2(0) = 1`): `0` below `-1`, `1` for `-1, 0`, exactly `2^n` for
    `1 ≤ n < bits`, `None` from `n = bits` on (and for `1` at `bits = 0`). -/
theorem approx_pow2_int_spec (bits : ℕ) (n : ℤ) :
    approxPow2Int bits n =
      if n ≤ -2 then some 0
      else if n ≤ 0 then (if bits = 0 then none else some 1)
      else if n < (bits : ℤ) then some (2 ^ n.toNat) else none := approxPow2Int_eq bits n

/-- `approx_pow2`, integer post-processing for any `bits` word and `shift`: exact `mant·2^(shift−63)` for
    `shift ≥ 63`, round-half-up of `mant / 2^(63−shift)` below, `None` iff the value does not fit. -/
theorem approx_pow2_post_spec (bits mant shift : ℕ) :
    approxPow2Post bits mant shift =
      (let v := if shift ≥ 63 then mant * 2 ^ (shift - 63)
                else (mant + 2 ^ (63 - shift - 1)) / 2 ^ (63 - shift)
       if v < 2 ^ bits then some v else none) := approxPow2Post_eq bits mant shift

/-- the driver's independent oracle for `pow` (MSB-first, saturating) is `(a^e mod m, min (a^e) m)`. -/
theorem spec_pow_oracle (m a e : ℕ) : specPow m a e = (a ^ e % m, min (a ^ e) m) :=
  C13Spec.specPow_spec m a e

/-! ## log

FULL STATEMENT (the property): for every non-zero value and base ≥ 2, `log`/`log10`/`checked_log`/`checked_log10` return
`⌊log_base(value)⌋`. The code starts from a libm-derived float estimate (`approx_log2`, f64 `log2`); libm is not modelled
in Lean, so the estimate `est` is a parameter of the model and the theorems named `…_partial` below carry the hypothesis
`estOk` on it (`est < 2^bits ∧ (est ≤ ⌊log⌋ + 1 ∨ base^est < 2^bits)`). What is missing for the full statement is exactly
"the f64 estimate satisfies `estOk`" — a fact about libm and the host FPU. It is shown necessary
(`log_estimate_hypothesis_needed`), and it is evaluated on the REAL estimate of every correspondence case (hook tap; a
falsifying case is reported). Everything else (`log2`, `checked_log2`, the `None`/no-panic clauses at every width, and
totality for every estimate) is proved unconditionally. -/

/-- **`log` is exact** given the hypothesis on the float estimate: for `2 ≤ base`, `0 < x`, if
    `est < 2^bits` and (`est ≤ ⌊log⌋ + 1` or `base^est` does not overflow) the two correction loops
    return `L = ⌊log_base x⌋` — no panic, within the fuel (`est + 1` resp. `bits + 1` iterations). -/
theorem log_spec_partial (bits x base est L : ℕ) (hb : 2 ≤ base) (hbM : base < 2 ^ bits)
    (hx : 0 < x) (hxM : x < 2 ^ bits) (hL1 : base ^ L ≤ x) (hL2 : x < base ^ (L + 1))
    (hest : estOk bits base est L = true) :
    Log.log bits x base est = .ok L := by
  unfold estOk at hest
  simp only [Bool.and_eq_true, Bool.or_eq_true, decide_eq_true_eq] at hest
  obtain ⟨r, h1, h2⟩ := log_total_exact bits x base est hb hbM hx hxM hest.1
  rw [h1, h2 L hL1 hL2 hest.2]

/-- `log` never panics and always terminates on valid operands, whatever the float estimate is. -/
theorem log_total (bits x base est : ℕ) (hb : 2 ≤ base) (hbM : base < 2 ^ bits)
    (hx : 0 < x) (hxM : x < 2 ^ bits) (hest : est < 2 ^ bits) :
    ∃ r, Log.log bits x base est = .ok r := by
  obtain ⟨r, h1, _⟩ := log_total_exact bits x base est hb hbM hx hxM hest
  exact ⟨r, h1⟩

/-- the estimate hypothesis of `log_spec_partial` cannot be dropped: at `U3`, `x = 3`, `base = 3`, an estimate
    of `3` (two too high, `3^3` overflows) makes the loops return `2` although `⌊log₃ 3⌋ = 1`. -/
theorem log_estimate_hypothesis_needed :
    Log.log 3 3 3 3 = .ok 2 ∧ 3 ^ 1 ≤ 3 ∧ 3 < 3 ^ (1 + 1) ∧ estOk 3 3 3 1 = false := by decide

/-- **`checked_log` at every width, for every estimate**: never panics, terminates, and returns `None`
    exactly for `x = 0 ∨ base < 2` (at `bits < 2` that is always). -/
theorem checked_log_none_iff (bits x base est : ℕ) (hbM : base < 2 ^ bits) (hxM : x < 2 ^ bits)
    (hest : est < 2 ^ bits) :
    ∃ o, checkedLog bits x base est = .ok o ∧ (o = none ↔ (x = 0 ∨ base < 2)) := by
  unfold checkedLog
  by_cases h : bitLen base < 2 || x = 0
  · rw [if_pos h]
    refine ⟨none, rfl, ?_⟩
    simp only [Bool.or_eq_true, decide_eq_true_eq, bitLen_lt_two_iff] at h
    simp only [true_iff]
    omega
  · rw [if_neg h]
    simp only [Bool.or_eq_true, decide_eq_true_eq, bitLen_lt_two_iff, not_or] at h
    obtain ⟨r, h1⟩ := log_total bits x base est (by omega) hbM (by omega) hxM hest
    rw [h1]
    refine ⟨some r, rfl, ?_⟩
    simp only [reduceCtorEq, false_iff]
    omega

/-- `checked_log` returns `Some(⌊log⌋)` under the estimate hypothesis. -/
theorem checked_log_spec_partial (bits x base est L : ℕ) (hb : 2 ≤ base) (hbM : base < 2 ^ bits)
    (hx : 0 < x) (hxM : x < 2 ^ bits) (hL1 : base ^ L ≤ x) (hL2 : x < base ^ (L + 1))
    (hest : estOk bits base est L = true) :
    checkedLog bits x base est = .ok (some L) := by
  unfold checkedLog
  have h : ¬ ((bitLen base < 2 || x = 0) = true) := by
    simp only [Bool.or_eq_true, decide_eq_true_eq, bitLen_lt_two_iff]
    omega
  rw [if_neg h, log_spec_partial bits x base est L hb hbM hx hxM hL1 hL2 hest]

/-- **`checked_log2` at every width** (including 0 and 1, where `2` does not fit), for every estimate:
    `None` for zero, `Some(⌊log2 x⌋)` otherwise. No float is involved (`base == 2` arm). -/
theorem checked_log2_spec (bits x est : ℕ) (hxM : x < 2 ^ bits) :
    (x = 0 → checkedLog2 bits x est = .ok none)
    ∧ ∀ L, 2 ^ L ≤ x → x < 2 ^ (L + 1) → checkedLog2 bits x est = .ok (some L) := by
  unfold checkedLog2 checkedLogConst
  by_cases hfit : 2 < 2 ^ bits
  · rw [if_pos hfit]
    constructor
    · intro h0; simp [checkedLog, h0]
    · intro L h1 h2
      have hx : 0 < x := lt_of_lt_of_le (by positivity) h1
      unfold checkedLog
      have hbl : bitLen 2 = 2 := by decide
      have h : ¬ ((bitLen 2 < 2 || x = 0) = true) := by
        simp only [hbl, Bool.or_eq_true, decide_eq_true_eq]; omega
      rw [if_neg h]
      unfold Log.log
      rw [if_neg (by omega), if_neg (by simpa using hfit), if_neg (by omega), if_pos rfl,
        bitLen_sub_one x L hx h1 h2]
  · rw [if_neg hfit]
    constructor
    · intro h0; simp [h0]
    · intro L h1 h2
      have hx : 0 < x := lt_of_lt_of_le (by positivity) h1
      -- x < 2^bits ≤ 2, so x = 1 and L = 0
      have hL : L = 0 := by
        rcases Nat.eq_zero_or_pos L with h | h
        · exact h
        · have : 2 ^ 1 ≤ 2 ^ L := Nat.pow_le_pow_right (by omega) h
          omega
      rw [if_neg (by omega), hL]

/-- **`log2` at every width**: `⌊log2 x⌋` for non-zero `x` (panics for zero, as documented). -/
theorem log2_spec (bits x est L : ℕ) (hxM : x < 2 ^ bits) (h1 : 2 ^ L ≤ x) (h2 : x < 2 ^ (L + 1)) :
    Log.log2 bits x est = .ok L := by
  have hx : 0 < x := lt_of_lt_of_le (by positivity) h1
  unfold Log.log2 logConst
  by_cases hfit : 2 < 2 ^ bits
  · rw [if_pos hfit]
    unfold Log.log
    rw [if_neg (by omega), if_neg (by simpa using hfit), if_neg (by omega), if_pos rfl,
      bitLen_sub_one x L hx h1 h2]
  · rw [if_neg hfit, if_neg (by omega)]
    have hL : L = 0 := by
      rcases Nat.eq_zero_or_pos L with h | h
      · exact h
      · have : 2 ^ 1 ≤ 2 ^ L := Nat.pow_le_pow_right (by omega) h
        omega
    rw [hL]

/-- **`checked_log10` at every width** (including `bits < 4`, where `10` does not fit): never panics
    and is `None` exactly for zero, for every estimate. -/
theorem checked_log10_none_iff (bits x est : ℕ) (hxM : x < 2 ^ bits) (hest : est < 2 ^ bits) :
    ∃ o, checkedLog10 bits x est = .ok o ∧ (o = none ↔ x = 0) := by
  unfold checkedLog10 checkedLogConst
  by_cases hfit : 10 < 2 ^ bits
  · rw [if_pos hfit]
    obtain ⟨o, h1, h2⟩ := checked_log_none_iff bits x 10 est hfit hxM hest
    exact ⟨o, h1, by rw [h2]; omega⟩
  · rw [if_neg hfit]
    by_cases h0 : x = 0
    · exact ⟨none, by simp [h0], by simp [h0]⟩
    · exact ⟨some 0, by simp [h0], by simp [h0]⟩

/-- `checked_log10` returns `Some(⌊log10 x⌋)` for non-zero `x` (estimate hypothesis as in `log_spec_partial`;
    it is not used when `10` does not fit, i.e. `bits < 4`). -/
theorem checked_log10_spec_partial (bits x est L : ℕ) (hxM : x < 2 ^ bits)
    (hL1 : 10 ^ L ≤ x) (hL2 : x < 10 ^ (L + 1)) (hest : 10 < 2 ^ bits → estOk bits 10 est L = true) :
    checkedLog10 bits x est = .ok (some L) := by
  have hx : 0 < x := lt_of_lt_of_le (by positivity) hL1
  unfold checkedLog10 checkedLogConst
  by_cases hfit : 10 < 2 ^ bits
  · rw [if_pos hfit]
    exact checked_log_spec_partial bits x 10 est L (by omega) hfit hx hxM hL1 hL2 (hest hfit)
  · rw [if_neg hfit, if_neg (by omega)]
    have hL : L = 0 := by
      rcases Nat.eq_zero_or_pos L with h | h
      · exact h
      · have : 10 ^ 1 ≤ 10 ^ L := Nat.pow_le_pow_right (by omega) h
        omega
    rw [hL]

/-- `log10` returns `⌊log10 x⌋` for non-zero `x` at every width. -/
theorem log10_spec_partial (bits x est L : ℕ) (hxM : x < 2 ^ bits)
    (hL1 : 10 ^ L ≤ x) (hL2 : x < 10 ^ (L + 1)) (hest : 10 < 2 ^ bits → estOk bits 10 est L = true) :
    Log.log10 bits x est = .ok L := by
  have hx : 0 < x := lt_of_lt_of_le (by positivity) hL1
  unfold Log.log10 logConst
  by_cases hfit : 10 < 2 ^ bits
  · rw [if_pos hfit]
    exact log_spec_partial bits x 10 est L (by omega) hfit hx hxM hL1 hL2 (hest hfit)
  · rw [if_neg hfit, if_neg (by omega)]
    have hL : L = 0 := by
      rcases Nat.eq_zero_or_pos L with h | h
      · exact h
      · have : 10 ^ 1 ≤ 10 ^ L := Nat.pow_le_pow_right (by omega) h
        omega
    rw [hL]

/-- the driver's oracle for the floor logarithm is the floor logarithm. -/
theorem spec_ilog_oracle (base x : ℕ) (hb : 2 ≤ base) (hx : 1 ≤ x) :
    base ^ (ilog base x) ≤ x ∧ x < base ^ (ilog base x + 1) := C13Spec.ilog_spec base x hb hx

/-! ## root

FULL STATEMENT (the property): for every degree ≥ 1, `root` returns `⌊value^(1/degree)⌋` and terminates. The first Newton
guess is libm-derived (`approx_pow2(approx_log2(x)/k)`); it is the parameter `g` of the model, and `root_spec_partial`
carries the hypothesis `guessOk` on it (needed only when the Newton loop is reached). Missing for the full statement:
"the f64-derived first guess satisfies `guessOk`" — a fact about libm; shown necessary (`root_guess_hypothesis_needed`),
evaluated on the real guess of every correspondence case. Termination with an explicit bound is `root_loop_terminates`. -/

/-- **`root` is exact**: for every degree `k ≥ 1`, `root x k = s` with `s^k ≤ x < (s+1)^k`, at every
    width. When the Newton loop is reached (`x ≠ 0`, `1 < k < bits`) the first guess `g` must satisfy
    `guessOk`: `1 ≤ g` and `(k−1)·max(g, 2s) + x / min(g, s)^(k−1) < 2^bits` — the bound on `result`
    along the run (`[min g s, max g (2s)]`) under which the code's wrapping `+`, `*` and
    `saturating_shl` provably do not wrap. Termination: the model's fuel `2x + g + 4` suffices. -/
theorem root_spec_partial (bits x k g s : ℕ) (hk : 1 ≤ k) (hxM : x < 2 ^ bits)
    (hlo : s ^ k ≤ x) (hhi : x < (s + 1) ^ k)
    (hg : x ≠ 0 → k < bits → k ≠ 1 → guessOk bits x k g s = true) :
    root bits x k g = .ok s := root_eq bits x k g s hk hxM hlo hhi hg

/-- **Termination with an explicit iteration bound**: from the first guess `g` the loop stops with the
    floor root after at most `mu s false g` iterations, where `mu = (s − g) + s + 3` for `g ≤ s`
    (capped doubling up, one overshoot, stop) and `(g − s) + 2` for `g > s` (strict descent). -/
theorem root_loop_terminates (bits x j g s f : ℕ) (hbits : 0 < bits) (hj : 1 ≤ j) (hx : 1 ≤ x)
    (hxM : x < 2 ^ bits) (hlo : s ^ (j + 1) ≤ x) (hhi : x < (s + 1) ^ (j + 1))
    (hg : guessOk bits x (j + 1) g s = true) (hf : mu s false g ≤ f) :
    rootLoop bits x j f false g = .ok s := by
  unfold guessOk at hg
  simp only [Bool.and_eq_true, decide_eq_true_eq, Nat.add_sub_cancel] at hg
  have hs1 := root_pos x (j + 1) s hx hhi
  exact rootLoop_spec bits x j s (min g s) (max g (2 * s)) hbits hj hx hxM hlo hhi
    (by omega) (by omega) (by omega) hg.2 f false g (by omega) (by omega) (by simp) hf

/-- the driver's oracle for the floor root is the floor root. -/
theorem spec_iroot_oracle (x k : ℕ) (hk : 1 ≤ k) :
    (iroot x k) ^ k ≤ x ∧ x < (iroot x k + 1) ^ k := C13Spec.iroot_spec x k hk

/-- degree 0 panics (documented). -/
theorem root_degree_zero (bits x g : ℕ) : root bits x 0 g = .panic := by simp [root]

/-- the guess hypothesis of `root_spec_partial` cannot be dropped: the code's arithmetic wraps. `U8`, `x = 255`,
    `k = 2`, started from `g = 1`: `division + deg_m1 * result = 255 + 1` wraps to `0`, the next
    `result` is `0` and `self / 0` panics. -/
theorem root_guess_hypothesis_needed : root 8 255 2 1 = .panic ∧ guessOk 8 255 2 1 15 = false := by
  decide

/-! ## exhaustive cross-checks at tiny widths (kernel evaluation; **not** the theorems — these only
    re-confirm `root_spec_partial` / `log_spec_partial` on every input of the small widths, for **every** first guess /
    estimate, and show that an exact first guess always satisfies `guessOk`) -/

/-- widths `≤ 5`, all `x`, all degrees reaching the loop, **all** guesses `g < 2^bits`: `guessOk → root = oracle`
    (`C13Spec.rootCross`, a `List.range` enumeration). -/
theorem crosscheck_root_widths_le_5 : C13Spec.rootCross 6 = true := by decide +kernel
/-- widths `≤ 8`: an exact first guess `g = s` always satisfies `guessOk` and gives the oracle's root. -/
theorem crosscheck_root_exact_guess_ok_widths_le_8 : C13Spec.rootExactGuessOk 9 = true := by decide +kernel
/-- widths `≤ 5`, all `(x, base)`, **all** estimates: `estOk → log = oracle`. -/
theorem crosscheck_log_widths_le_5 : C13Spec.logCross 6 = true := by decide +kernel

/-! ## non-vacuity: the hypotheses are satisfiable and the model computes -/

example : overflowingPow 64 36 13 = (0x3f4c09ffa4000000, true) := by decide +kernel
example : overflowingPow 68 36 13 = (0x093f4c09ffa4000000, false) := by decide +kernel
example : Log.log 64 1000 10 3 = .ok 3 ∧ estOk 64 10 3 3 = true := by decide +kernel
example : Log.log 64 999 10 3 = .ok 2 ∧ estOk 64 10 3 2 = true := by decide +kernel
example : checkedLog10 3 5 0 = .ok (some 0) ∧ checkedLog2 1 1 0 = .ok (some 0) ∧ checkedLog 1 1 1 0 = .ok none := by
  decide
example : root 64 1000000 3 97 = .ok 100 ∧ guessOk 64 1000000 3 97 100 = true := by decide +kernel
example : approxPow2Int 128 65 = some (2 ^ 65) ∧ approxPow2Int 128 128 = none ∧ approxPow2Int 0 0 = none := by decide +kernel
example : root 64 999999 3 200 = .ok 99 ∧ guessOk 64 999999 3 200 99 = true := by decide +kernel

/-! ## Tie of the `pow` wrappers to the source (G, value mode)

`Ruint.Gen.val_overflowing_pow` / `val_wrapping_pow` are regenerated from `src/pow.rs` on every run in the translator's
*value mode* (a `Uint` is its numeric value; `overflowing_mul`, `wrapping_mul`, `bit`, `is_zero`, `>>=` are their
value-level meanings — theorems of C02/C05/C06): the `BITS == 0` early return, the loop condition, the two overflow flags
and their update order are the source's. They are equal to the models the theorems above are about, fuel for fuel. -/

theorem gen_overflowing_pow_eq (bits L a e : ℕ) :
    Ruint.Gen.val_overflowing_pow (e + 1) bits L a e = overflowingPow bits a e :=
  Ruint.GenValue.overflowing_pow_eq bits L a e

theorem gen_wrapping_pow_eq (bits L a e : ℕ) :
    Ruint.Gen.val_wrapping_pow (e + 1) bits L a e = wrappingPow bits a e :=
  Ruint.GenValue.wrapping_pow_eq bits L a e

theorem gen_checked_saturating_pow_eq (bits L a e : ℕ) :
    Ruint.Gen.val_checked_pow (e + 1) bits L a e = checkedPow bits a e
    ∧ Ruint.Gen.val_saturating_pow (e + 1) bits L a e = saturatingPow bits a e
    ∧ Ruint.Gen.val_pow (e + 1) bits L a e = Pow.pow bits a e :=
  ⟨Ruint.GenValue.checked_pow_eq bits L a e, Ruint.GenValue.saturating_pow_eq bits L a e,
   Ruint.GenValue.pow_eq bits L a e⟩

/-! ## Tie of `log` and its wrappers to the source (G, value mode)

`Ruint.Gen.val_log`, `val_checked_log`, `val_log2`, `val_log10`, `val_checked_log2`, `val_checked_log10` are regenerated from
`src/log.rs` on every run in value mode, with the libm-derived first estimate as the parameter `est` (one declared rewrite:
the three lines computing `approx_log2() / approx_log2()` and converting it). The early returns, the `base == 2` shortcut, the
two correction loops over `checked_pow` / `checked_add` (`if let Some`, `while let Some`), the `assert!`s (`none` = panic) and
the `try_from(2)` / `try_from(10)` guards of the wrappers are the source's. With enough fuel they are the models the theorems
above are about, on every run on which the model itself does not run out of fuel (`log_total` bounds that). `bits ≤ 2^64`
is needed: `bit_len() - 1` is a `usize` subtraction (`log_eq_needs_hbits` in `Lemmas/GenLog.lean` proves the failure beyond). -/

theorem gen_log_eq (bits L x base est : ℕ) (hbits : bits ≤ 2 ^ 64) (hx : x < 2 ^ bits) (hb : base < 2 ^ bits)
    (he : est < 2 ^ bits) (hm : Log.log bits x base est ≠ .fuel) (f : ℕ) (hf : est + bits + 2 < f) :
    Ruint.GenLog.toRes (Ruint.Gen.val_log f bits L x base est) = Log.log bits x base est :=
  Ruint.GenLog.log_eq bits L x base est hbits hx hb he hm f hf

theorem gen_checked_log_eq (bits L x base est : ℕ) (hbits : bits ≤ 2 ^ 64) (hx : x < 2 ^ bits) (hb : base < 2 ^ bits)
    (he : est < 2 ^ bits) (hm : Log.checkedLog bits x base est ≠ .fuel) (f : ℕ) (hf : est + bits + 2 < f) :
    Ruint.GenLog.toRes (Ruint.Gen.val_checked_log f bits L x base est) = Log.checkedLog bits x base est :=
  Ruint.GenLog.checked_log_eq bits L x base est hbits hx hb he hm f hf

theorem gen_log2_log10_eq (bits L x est : ℕ) (hbits : bits ≤ 2 ^ 64) (hx : x < 2 ^ bits) (he : est < 2 ^ bits)
    (f : ℕ) (hf : est + bits + 2 < f) :
    (Log.log2 bits x est ≠ .fuel → Ruint.GenLog.toRes (Ruint.Gen.val_log2 f bits L x est) = Log.log2 bits x est)
    ∧ (Log.log10 bits x est ≠ .fuel → Ruint.GenLog.toRes (Ruint.Gen.val_log10 f bits L x est) = Log.log10 bits x est)
    ∧ (Log.checkedLog2 bits x est ≠ .fuel →
        Ruint.GenLog.toRes (Ruint.Gen.val_checked_log2 f bits L x est) = Log.checkedLog2 bits x est)
    ∧ (Log.checkedLog10 bits x est ≠ .fuel →
        Ruint.GenLog.toRes (Ruint.Gen.val_checked_log10 f bits L x est) = Log.checkedLog10 bits x est) :=
  ⟨fun hm => Ruint.GenLog.log2_eq bits L x est hbits hx he hm f hf,
   fun hm => Ruint.GenLog.log10_eq bits L x est hbits hx he hm f hf,
   fun hm => Ruint.GenLog.checked_log2_eq bits L x est hbits hx he hm f hf,
   fun hm => Ruint.GenLog.checked_log10_eq bits L x est hbits hx he hm f hf⟩

/-! ## Tie of `root` to the source (G, value mode)

`Ruint.Gen.val_root` is regenerated from `src/root.rs` on every run in value mode with the libm-derived first guess as the
parameter `guess` (one declared rewrite: the `approx_pow2(approx_log2() / degree)` line). The `degree > 0` assert, the three
early returns, the `Self::from(degree - 1)` / `Self::from(degree)` conversions (which panic when the degree does not fit),
the Newton loop with its `match (decreasing, iter.cmp(&result))` (tuple / `Ordering` / or-patterns, `break result`, the
`min(iter, result.saturating_shl(1))` cap), the wrapping `+` and `*` and the division-by-zero panics of `/` are the source's.
With enough fuel it is the model `Root.root` the theorems above are about. -/

theorem gen_root_eq (bits L x k g : ℕ) (hx : x < 2 ^ bits) (hg : g < 2 ^ bits) (hk : k < 2 ^ 64)
    (hm : Ruint.Root.root bits x k g ≠ .fuel) (f : ℕ) (hf : Ruint.Root.rootFuel x g + bits + 2 < f) :
    Ruint.GenLog.toRes (Ruint.Gen.val_root f bits L x k g) = Ruint.Root.root bits x k g :=
  Ruint.GenRoot.root_eq bits L x k g hx hg hk hm f hf

end Ruint.C13
