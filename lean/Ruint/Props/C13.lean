import Ruint.Model.Pow
import Ruint.Model.Log
import Ruint.Model.Root
/-! C13 — placeholder while the correspondence is brought up (theorems follow). -/
namespace Ruint.C13
open Ruint.Pow

theorem overflowing_pow_bits_zero (a e : Nat) : overflowingPow 0 a e = (a, false) := by
  simp [overflowingPow]

end Ruint.C13
