import Ruint.Lemmas.FloatTryG
import Ruint.Props.C06
import Ruint.Gen.WordsToFloat
import Ruint.Lemmas.GenFloat
import Ruint.Lemmas.FloatMsb
import Ruint.Lemmas.FloatOld
import Ruint.Lemmas.FloatOrd
import Ruint.Lemmas.FloatQ

/-!
# C18 — float conversions round predictably and classify special values

Property theorems only. The model (`Ruint.Float.*`, file `Model/Float.lean`) is a bit-level IEEE-754
model written for this purpose (Lean's `Float` is opaque to the kernel and is not used); the functions
below are the ones the correspondence driver executes against the real `Uint::try_from(f64/f32)`,
`saturating_from`, `wrapping_from`, `f64::from(&Uint)`, `f32::from(&Uint)`. A float is its bit pattern;
`decode` gives `nan | inf sign | fin sign m e` with value `(-1)^sign · m · 2^e`. `floorHalf m e` is
`⌊m·2^e + 1/2⌋` (see `floorHalf_nonneg_exp`, `floorHalf_neg_exp` in `Lemmas/FloatTryD.lean`).
All theorems hold at every width `bits` (including `0` and `≥ 1024`, where `2^BITS` is `+∞` as an `f64`).
-/
namespace Ruint.C18
open Ruint Ruint.Float

/-- NaN (any payload, either sign) ↦ `NotANumber`. -/
theorem try_from_f64_nan (bits x : ℕ) (h : decode b64 x = .nan) : tryFromF64 bits x = .notANumber := by
  unfold tryFromF64
  rw [unfold_tryF]
  have : isNaN b64 x = true := by unfold isNaN; rw [h]
  rw [if_pos this]

/-- every float below zero (negative non-zero finite, or `-∞`) ↦ `ValueNegative`. -/
theorem try_from_f64_negative (bits x : ℕ)
    (h : (∃ m e, decode b64 x = .fin true m e ∧ m ≠ 0) ∨ decode b64 x = .inf true) :
    ∃ w, tryFromF64 bits x = .negative w := by
  unfold tryFromF64
  rw [unfold_tryF]
  rcases h with ⟨m, e, hx, hm⟩ | hx
  · have h1 : isNaN b64 x = false := isNaN_of_fin x m true e hx
    have h2 : lt b64 x zero = true := (lt_zero_iff x m true e hx).mpr ⟨rfl, hm⟩
    rw [h1, h2]; exact ⟨_, rfl⟩
  · have h1 : isNaN b64 x = false := by unfold isNaN; rw [hx]
    have h2 : lt b64 x zero = true := by unfold lt zero; rw [hx, decode_zero]; rfl
    rw [h1, h2]; exact ⟨_, rfl⟩

/-- `-0.0 ↦ Ok(0)`. -/
theorem try_from_f64_neg_zero (bits : ℕ) : tryFromF64 bits (2 ^ 63) = .ok 0 := by
  have hx : decode b64 (2 ^ 63) = .fin true 0 (-1074) := by decide +kernel
  have := (tryFromF64_fin bits (2 ^ 63) 0 true (-1074) (by norm_num) hx (Or.inr rfl)).1
  rw [floorHalf_zero] at this
  exact this (by positivity)

/-- `+∞ ↦ ValueTooLarge` at every width (also where `2^BITS` itself overflows to `+∞`). -/
theorem try_from_f64_pos_inf (bits : ℕ) : tryFromF64 bits b64.infBits = .tooLarge 0 := by
  unfold tryFromF64
  rw [unfold_tryF]
  have h1 : isNaN b64 b64.infBits = false := by decide +kernel
  have h2 : lt b64 b64.infBits zero = false := by decide +kernel
  have h3 : ge b64 b64.infBits (exp2Int b64 bits) = true := by
    unfold ge
    rw [decode_inf64]
    rcases Nat.lt_or_ge 1023 bits with hb | hb
    · rw [exp2Int_inf bits hb, decode_inf64]; rfl
    · rw [exp2Int_eq bits hb, decode_pow2 bits (by omega) (by omega)]; rfl
  rw [h1, h2, h3]
  simp only [Bool.false_eq_true, if_false, if_true]
  -- the wrapped payload: `inf % modulus = NaN ↦ ZERO`
  have h4 : fmod b64 b64.infBits (exp2Int b64 bits) = b64.nanBits := by
    unfold fmod
    rw [decode_inf64]
    rcases Nat.lt_or_ge 1023 bits with hb | hb
    · rw [exp2Int_inf bits hb, decode_inf64]
    · rw [exp2Int_eq bits hb, decode_pow2 bits (by omega) (by omega)]
  rw [h4, unfold_tryF]
  have h5 : isNaN b64 b64.nanBits = true := by decide +kernel
  rw [if_pos h5]


/-- **`try_from_f64_spec`** — a finite non-negative `f64` (`x = m·2^e`, or `-0.0`) converts to
    `Ok(⌊x + 1/2⌋)` exactly when that integer is `< 2^bits`, and to `ValueTooLarge` otherwise, at every
    width. (Repaired code; before commit f6c7d9d this failed on odd integers in `[2^52, 2^53)`, see the
    witnesses below.) -/
theorem try_from_f64_spec (bits x m : ℕ) (neg : Bool) (e : ℤ) (hx64 : x < 2 ^ 64)
    (hx : decode b64 x = .fin neg m e) (hnn : neg = false ∨ m = 0) :
    (floorHalf m e < 2 ^ bits → tryFromF64 bits x = .ok (floorHalf m e))
    ∧ (2 ^ bits ≤ floorHalf m e → ∃ w, tryFromF64 bits x = .tooLarge w) :=
  tryFromF64_fin bits x m neg e hx64 hx hnn

/-- the meaning of `floorHalf`: integers are unchanged, `m / 2^s` gets half a unit added before flooring. -/
theorem floorHalf_meaning (m s : ℕ) (hs : 1 ≤ s) :
    floorHalf m 0 = m ∧ (∀ k : ℕ, floorHalf m (k : ℤ) = m * 2 ^ k)
    ∧ floorHalf m (-(s : ℤ)) = (2 * m + 2 ^ s) / (2 * 2 ^ s) := by
  refine ⟨by simp [floorHalf], fun k => by simp [floorHalf], ?_⟩
  unfold floorHalf
  rw [if_neg (by omega)]
  have : (- -(s : ℤ)).toNat = s := by omega
  rw [this, pow_succ, Nat.mul_comm (2 ^ s) 2]

/-- over the rationals: `floorHalf m e = ⌊m·2^e + 1/2⌋` — the `floor(f + 1/2)` of the property statement,
    computed exactly. -/
theorem floorHalf_is_floor (m : ℕ) (e : ℤ) :
    (floorHalf m e : ℤ) = ⌊(m : ℚ) * (2 : ℚ) ^ e + 1 / 2⌋ := floorHalf_eq_floor m e

/-- `try_from(f32)` obeys the same specification (the widening to `f64` is exact). -/
theorem try_from_f32_spec (bits x m : ℕ) (neg : Bool) (e : ℤ)
    (hx : decode b32 x = .fin neg m e) (hnn : neg = false ∨ m = 0) :
    (floorHalf m e < 2 ^ bits → tryFromF32 bits x = .ok (floorHalf m e))
    ∧ (2 ^ bits ≤ floorHalf m e → ∃ w, tryFromF32 bits x = .tooLarge w) := by
  obtain ⟨h64, m', e', hd, hfl, hz, _⟩ := f32ToF64_fin x m neg e hx
  have hnn' : neg = false ∨ m' = 0 := by
    rcases hnn with h | h
    · exact Or.inl h
    · exact Or.inr (hz h)
  have := tryFromF64_fin bits (f32ToF64 x) m' neg e' h64 hd hnn'
  rw [hfl] at this
  exact this

/-- `f32` NaN ↦ `NotANumber`. -/
theorem try_from_f32_nan (bits x : ℕ) (h : decode b32 x = .nan) : tryFromF32 bits x = .notANumber := by
  unfold tryFromF32
  apply try_from_f64_nan
  unfold f32ToF64; rw [h]; decide +kernel

/-- every `f32` below zero ↦ `ValueNegative`. -/
theorem try_from_f32_negative (bits x : ℕ)
    (h : (∃ m e, decode b32 x = .fin true m e ∧ m ≠ 0) ∨ decode b32 x = .inf true) :
    ∃ w, tryFromF32 bits x = .negative w := by
  unfold tryFromF32
  apply try_from_f64_negative
  rcases h with ⟨m, e, hx, hm⟩ | hx
  · obtain ⟨_, m', e', hd, _, _, hnz⟩ := f32ToF64_fin x m true e hx
    exact Or.inl ⟨m', e', hd, hnz hm⟩
  · exact Or.inr (f32ToF64_inf x true hx)

/-- `f32` `+∞ ↦ ValueTooLarge`. -/
theorem try_from_f32_pos_inf (bits : ℕ) : tryFromF32 bits b32.infBits = .tooLarge 0 := by
  have : f32ToF64 b32.infBits = b64.infBits := by decide +kernel
  unfold tryFromF32
  rw [this, try_from_f64_pos_inf]

/-- the saturating form: `MAX` above the range, `0` for negatives and NaN, else the rounded value;
    i.e. `min ⌊x + 1/2⌋ (2^bits - 1)` on finite non-negative input. -/
theorem saturating_from_f64_spec (bits x m : ℕ) (neg : Bool) (e : ℤ) (hx64 : x < 2 ^ 64)
    (hx : decode b64 x = .fin neg m e) (hnn : neg = false ∨ m = 0) :
    saturating bits (tryFromF64 bits x) = some (min (floorHalf m e) (2 ^ bits - 1)) := by
  obtain ⟨h1, h2⟩ := tryFromF64_fin bits x m neg e hx64 hx hnn
  have hp : 0 < 2 ^ bits := by positivity
  rcases Nat.lt_or_ge (floorHalf m e) (2 ^ bits) with h | h
  · rw [h1 h]; simp only [saturating]; congr 1; omega
  · obtain ⟨w, hw⟩ := h2 h
    rw [hw]; simp only [saturating]; congr 1; omega

theorem saturating_from_f64_nan (bits x : ℕ) (h : decode b64 x = .nan) :
    saturating bits (tryFromF64 bits x) = some 0 := by
  rw [try_from_f64_nan bits x h]; rfl

theorem saturating_from_f64_negative (bits x : ℕ)
    (h : (∃ m e, decode b64 x = .fin true m e ∧ m ≠ 0) ∨ decode b64 x = .inf true) :
    saturating bits (tryFromF64 bits x) = some 0 := by
  obtain ⟨w, hw⟩ := try_from_f64_negative bits x h
  rw [hw]; rfl

theorem saturating_from_f64_pos_inf (bits : ℕ) :
    saturating bits (tryFromF64 bits b64.infBits) = some (2 ^ bits - 1) := by
  rw [try_from_f64_pos_inf]; rfl

/-- totality: on every `u64` bit pattern the conversion returns one of the four documented outcomes — the
    three `assert!`s of the source (`is_normal`, `sign == 0`, `biased_exponent >= 1023`) never fire. -/
theorem try_from_f64_total (bits x : ℕ) (hx64 : x < 2 ^ 64) : tryFromF64 bits x ≠ .panic := by
  cases hd : decode b64 x with
  | nan => rw [try_from_f64_nan bits x hd]; simp
  | inf neg =>
    cases neg
    · rw [inf_pattern x hx64 hd, try_from_f64_pos_inf]; simp
    · obtain ⟨w, hw⟩ := try_from_f64_negative bits x (Or.inr hd)
      rw [hw]; simp
  | fin neg m e =>
    by_cases hneg : neg = true ∧ m ≠ 0
    · obtain ⟨hn, hm⟩ := hneg
      subst hn
      obtain ⟨w, hw⟩ := try_from_f64_negative bits x (Or.inl ⟨m, e, hd, hm⟩)
      rw [hw]; simp
    · have hnn : neg = false ∨ m = 0 := by
        cases neg
        · exact Or.inl rfl
        · right; by_contra hc; exact hneg ⟨rfl, hc⟩
      obtain ⟨h1, h2⟩ := try_from_f64_spec bits x m neg e hx64 hd hnn
      rcases Nat.lt_or_ge (floorHalf m e) (2 ^ bits) with h | h
      · rw [h1 h]; simp
      · obtain ⟨w, hw⟩ := h2 h
        rw [hw]; simp


/-! ## the defect that was repaired (DESIGN §9): `value + 0.5` is a tie on odd integers in `[2^52, 2^53)`

`tryFromF64Old` is the model of the code before commit f6c7d9d. The kernel evaluates it on the witnesses:
`U64::try_from(4503599627370497.0)` returned `2^52 + 2`, and `U53::try_from(2^53 - 1)` was rejected,
whereas the repaired model (and `try_from_f64_spec`) give the exact integers. -/
/-- the defect in general: before the repair every integer `m ∈ [2^52, 2^53 - 1)` that fits came back as
    `m + m % 2`, i.e. odd ones `+1` (the specification, and the repaired code, give `m`). -/
theorem old_code_tie (bits x m : ℕ) (hx : decode b64 x = .fin false m 0) (hm : 2 ^ 52 ≤ m)
    (hm' : m + 1 < 2 ^ 53) (hfit : m + 1 < 2 ^ bits) :
    tryFromF64Old bits x = .ok (m + m % 2) ∧ floorHalf m 0 = m :=
  ⟨tryFromF64Old_tie bits x m hx hm hm' hfit, by simp [floorHalf]⟩

theorem old_code_violates_spec_witness :
    tryFromF64Old 64 0x4330000000000001 = .ok (2 ^ 52 + 2)
    ∧ decode b64 0x4330000000000001 = .fin false (2 ^ 52 + 1) 0
    ∧ floorHalf (2 ^ 52 + 1) 0 = 2 ^ 52 + 1 := by decide +kernel

theorem old_code_violates_spec_witness_u53 :
    tryFromF64Old 53 0x433fffffffffffff = .tooLarge 0
    ∧ tryFromF64 53 0x433fffffffffffff = .ok (2 ^ 53 - 1) := by decide +kernel

/-! Non-vacuity: concrete instances evaluated by the kernel (halves round up, `123.499 ↦ 123`,
    the largest `f64` fits 1024 bits and not 1023, a subnormal, `f32::MAX`). -/
example : tryFromF64 7 0x405ee00000000000 = .ok 124 ∧ tryFromF64 7 0x405edff3b645a1cb = .ok 123 := by
  decide +kernel
example : tryFromF64 1024 0x7fefffffffffffff = .ok (2 ^ 1024 - 2 ^ 971)
    ∧ tryFromF64 1023 0x7fefffffffffffff = .tooLarge (2 ^ 1023 - 2 ^ 971) := by decide +kernel
example : tryFromF64 64 1 = .ok 0 ∧ tryFromF32 128 0x7f7fffff = .ok (2 ^ 128 - 2 ^ 104) := by decide +kernel
example : tryFromF64 8 0xc071230000000000 = .negative 0xee := by decide +kernel


/-! ## `f64::from(&Uint)` / `f32::from(&Uint)`

`toFloatV f v` is the conversion as a function of the value (`most_significant_bits` described on the
value: `msbSpec`), `toFloat f limbs` is the same on the limb list as the code runs it (`msb`). A format is
`Wide` when its mantissa fits 64 bits and `2^64` is finite — binary64 and binary32 both are
(`b64_wide`, `b32_wide`). `p = f.mb + 1` is the precision (53 resp. 24), `L = bitLen v`,
`k = L - p` the number of bits that do not fit, `lo = v / 2^k` the `p`-bit prefix:
`lo·2^k ≤ v < (lo+1)·2^k` are the two neighbouring representable numbers. -/

/-- **`to_float_faithful`** — for a value with at least `p` bits the result is `R·2^k` with `R = lo` or
    `R = lo + 1` (one of the two representable neighbours of the exact value), `R = lo` when the value is
    representable (exact), and it is `+∞` exactly when the chosen neighbour is `2^(bias+1)` (not finite),
    which happens only for `v ≥ infThreshold f = 2^(bias+1) - 2^(bias-p)`, the first value that
    round-to-nearest sends to infinity (`2^1024 - 2^970` for `f64`, `2^128 - 2^103` for `f32`). -/
theorem to_float_faithful (f : Fmt) (hw : f.Wide) (v : ℕ) (hL : f.mb + 1 ≤ bitLen v) :
    v / 2 ^ (bitLen v - (f.mb + 1)) * 2 ^ (bitLen v - (f.mb + 1)) ≤ v
    ∧ v < (v / 2 ^ (bitLen v - (f.mb + 1)) + 1) * 2 ^ (bitLen v - (f.mb + 1))
    ∧ ∃ R, (R = v / 2 ^ (bitLen v - (f.mb + 1)) ∨ R = v / 2 ^ (bitLen v - (f.mb + 1)) + 1)
      ∧ (v % 2 ^ (bitLen v - (f.mb + 1)) = 0 → R = v / 2 ^ (bitLen v - (f.mb + 1)))
      ∧ (R * 2 ^ (bitLen v - (f.mb + 1)) < 2 ^ (f.bias + 1) →
          IsVal (decode f (toFloatV f v)) (R * 2 ^ (bitLen v - (f.mb + 1))))
      ∧ (2 ^ (f.bias + 1) ≤ R * 2 ^ (bitLen v - (f.mb + 1)) →
          toFloatV f v = f.infBits ∧ infThreshold f ≤ v) := by
  have hv : 0 < v := by
    rcases Nat.eq_zero_or_pos v with h | h
    · subst h; rw [bitLen_zero] at hL; omega
    · exact h
  have hp : 0 < 2 ^ (bitLen v - (f.mb + 1)) := by positivity
  refine ⟨Nat.div_mul_le_self _ _, ?_, toFloatV_top f hw v hv hL⟩
  have := Nat.div_add_mod v (2 ^ (bitLen v - (f.mb + 1)))
  have hm := Nat.mod_lt v hp
  rw [Nat.add_mul, Nat.one_mul, Nat.mul_comm]
  omega

/-- values with fewer than `p` bits (and zero) convert exactly. -/
theorem to_float_exact_small (f : Fmt) (hw : f.Wide) (v : ℕ) (hL : bitLen v < f.mb + 1) :
    (v = 0 → toFloatV f v = 0) ∧ (0 < v → IsVal (decode f (toFloatV f v)) v) :=
  ⟨fun h => by subst h; exact toFloatV_zero f hw.1, fun h => toFloatV_short f hw v h hL⟩

/-- the conversion is monotone in the value: as bit patterns, and in the IEEE order `<=` of the floats
    they denote (`+∞` is the largest; the result is never NaN). -/
theorem to_float_monotone (f : Fmt) (hw : f.Wide) (v w : ℕ) (h : v ≤ w) :
    toFloatV f v ≤ toFloatV f w ∧ (decode f (toFloatV f v)).le (decode f (toFloatV f w)) = true :=
  ⟨toFloatV_mono f hw v w h, toFloatV_mono_le f hw v w h⟩

/-- `most_significant_bits` as the code computes it on the limbs (`rposition`, `leading_zeros`, the two top
    limbs fused) is the top-64-bits decomposition of the value, for every limb count. -/
theorem most_significant_bits_spec (l : List ℕ) (hl : AllLt l) : msb l = msbSpec (val l) := msb_eq_spec l hl

/-- hence the limb-level model the driver runs is the value-level function the theorems above are about. -/
theorem to_float_limbs (f : Fmt) (bits : ℕ) (l : List ℕ) (hl : Canon bits l) :
    toFloat f l = toFloatV f (val l) := by
  unfold toFloat toFloatV; rw [msb_eq_spec l hl.2.1]

/-- instances: binary64 and binary32. -/
theorem to_f64_f32_wide : b64.Wide ∧ b32.Wide ∧ infThreshold b64 = 2 ^ 1024 - 2 ^ 970
    ∧ infThreshold b32 = 2 ^ 128 - 2 ^ 103 := ⟨b64_wide, b32_wide, by decide +kernel, by decide +kernel⟩

example : toFloatV b64 (2 ^ 64 - 1) = 0x43f0000000000000 ∧ toFloatV b64 (2 ^ 1024 - 2 ^ 970) = b64.infBits
    ∧ toFloatV b64 (2 ^ 1024 - 2 ^ 970 - 1) = 0x7fefffffffffffff := by decide +kernel
example : toFloat b64 [0, 0x0000000000000400, 0x8000000000000000] = toFloatV b64 (val [0, 0x400, 0x8000000000000000]) := by
  decide +kernel

/-! ## Tie of `f64::from(&Uint)` / `f32::from(&Uint)` to the source (G)

`Ruint.Gen.f64_from_uint` / `f32_from_uint` are regenerated from `src/from.rs` on every run: the call of the (generated)
`most_significant_bits`, the two `as Self` casts, the product and `exp2` — with the float operations read as the IEEE model's
`ofNat` (round to nearest even), `mul` and `exp2Int` (libm's `exp2` on an integer argument is taken to be the exact power of two).
They are the value-level function `toFloatV` the theorems above are about; the driver runs them. -/

theorem gen_to_float_eq (bits : ℕ) (hN : nlimbs bits < 2 ^ 57) (l : List ℕ) (hl : Canon bits l) :
    Ruint.Gen.f64_from_uint bits (nlimbs bits) l = toFloatV b64 (val l)
    ∧ Ruint.Gen.f32_from_uint bits (nlimbs bits) l = toFloatV b32 (val l) := by
  have hg := Ruint.C06.gen_most_significant_bits_eq bits hN l hl
  obtain ⟨h2, h1, _, _⟩ := Ruint.C06.most_significant_bits_spec bits l hl
  have hs : Ruint.Bits.size (val l) = Ruint.Float.bitLen (val l) := rfl
  have hm : Ruint.Gen.uint_most_significant_bits bits (nlimbs bits) l = msbSpec (val l) := by
    rw [hg]
    unfold msbSpec
    apply Prod.ext
    · simp only; rw [h1, h2, hs]
    · simp only; rw [h2, hs]
  unfold Ruint.Gen.f64_from_uint Ruint.Gen.f32_from_uint toFloatV toFloatOf
  refine ⟨?_, ?_⟩ <;> simp only [hm]

/-! ## Tie of `TryFrom<f64>` / `TryFrom<f32> for Uint` to the source (G, value mode over the IEEE model)

`Ruint.Gen.val_try_from_f64` is regenerated from `src/from.rs` on every run: an `f64` is its bit pattern, the float literals are
converted to their binary64 patterns by the translator, `is_nan`, `<`, `>=`, `abs`, `%`, `+`, `is_normal` and
`(BITS as f64).exp2()` are the model's operations, `to_bits` is the identity, and the function's two recursive calls (on `|value|`
and on `value % modulus`) are recursion on fuel. The order of the range checks, the `2^52` rounding guard, the field extraction
(`>> 63`, `>> 52 & 0x7ff`, the mantissa), the three asserts, the exponent comparisons, the `?` and the overflow flag of
`overflowing_shl` are the source's. With the fuel the model uses (3) it is the model the theorems above are about; a recursive
call never panics and never recurses further (proved in `Lemmas/GenFloat.lean`), so any fuel `≥ 3` gives the same. -/

theorem gen_try_from_f64_eq (bits L x : ℕ) (hbits : bits + 52 < 2 ^ 64) :
    Ruint.GenFloat.toRes (Ruint.Gen.val_try_from_f64 3 bits L x) = tryFromF64 bits x :=
  Ruint.GenFloat.try_from_f64_eq bits L x hbits

theorem gen_try_from_f64_any_fuel (bits L : ℕ) (hbits : bits + 52 < 2 ^ 64) (f x : ℕ) (hf : f = 0 ∨ 3 ≤ f) :
    Ruint.GenFloat.toRes (Ruint.Gen.val_try_from_f64 f bits L x) = tryFromF64F true f bits x :=
  Ruint.GenFloat.try_from_f64F_eq bits L hbits f x hf

/-- `TryFrom<f32>`: the widening cast, then `TryFrom<f64>`. -/
theorem gen_try_from_f32_eq (bits L x : ℕ) (hbits : bits + 52 < 2 ^ 64) :
    Ruint.GenFloat.toRes (Ruint.Gen.val_try_from_f32 3 bits L x) = tryFromF32 bits x := by
  have h := Ruint.GenFloat.try_from_f64_eq bits L (f32ToF64 x) hbits
  unfold Ruint.Gen.val_try_from_f32 tryFromF32
  rw [← h]
  cases Ruint.Gen.val_try_from_f64 3 bits L (f32ToF64 x) <;> rfl

end Ruint.C18
