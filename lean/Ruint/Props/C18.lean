import Ruint.Model.Float
/-! C18 — placeholder while the theorems are being re-homed (g9). -/
namespace Ruint.C18
end Ruint.C18
