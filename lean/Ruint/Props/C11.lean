import Ruint.Lemmas.RedcGen
import Ruint.Gen.RedcFacts
import Ruint.Lemmas.GenRedcLoops
import Ruint.Lemmas.GenRedcSquare
import Ruint.Lemmas.GenUintModRedc

/-!
# C11 — Montgomery multiplication and squaring compute `a·b·R⁻¹ mod m`

Property theorems only. The model functions (`Ruint.Redc.*`, file `Model/Redc.lean`) are the ones the
correspondence driver executes against `ruint::algorithms::{mul_redc, square_redc}::<N>` and
`Uint::{mul_redc, square_redc}`; they mirror the Rust loops limb by limb (CIOS with the two interleaved
carries, `carrying_double_mul_add` with its two-level carry, the threshold arms, `reduce1_carry`/`sub`,
the `debug_assert!`s, `from_limbs`' assertion) and are instantiated here exactly as in the driver: base
`W = 2^64`, thresholds `keepMul`/`keepSq` from the **generated** `Ruint/Gen/RedcConsts.lean`, whose soundness
facts (`Ruint/Gen/RedcFacts.lean`) are re-proved on every run — a changed constant or comparison breaks an
obligation here. Every theorem quantifies over **all** limb counts `N ≥ 1` / widths and all operands.

`R = W^N`. "`inv·m₀ ≡ −1 (mod 2^64)`" is `(inv * m₀) % W = W - 1`; it implies that `m` is odd.
A `some r` result means that no `debug_assert!`/`assert!` of the source fires.
-/
namespace Ruint.C11
open Ruint Ruint.Redc Ruint.Gen.RedcConsts

/-- **`mul_redc::<N>`** (slice level, every `N ≥ 1`): for word limbs, `inv·m₀ ≡ −1 (mod 2^64)` and
    `a, b < m`: the call returns (no assertion fires) `N` words `r` with `r < m` and `r·2^(64N) ≡ a·b (mod m)`. -/
theorem mul_redc_spec (inv : ℕ) (a b md : List ℕ)
    (hN : 1 ≤ md.length) (hla : a.length = md.length) (hlb : b.length = md.length)
    (ha : AllLt a) (hb : AllLt b) (hmd : AllLt md)
    (hinv : (inv * md.headD 0) % W = W - 1) (haM : val a < val md) (hbM : val b < val md) :
    ∃ r, mulRedc W keepMul inv a b md = some r ∧ r.length = md.length ∧ AllLt r
      ∧ val r < val md ∧ (W ^ md.length * val r) % val md = (val a * val b) % val md := by
  have := mulRedc_spec W keepMul inv a b md hN hla hlb ha hb hmd hinv
    (by rw [valB_W, valB_W]; exact haM) (by rw [valB_W, valB_W]; exact hbM)
    (fun top h => Ruint.Gen.RedcFacts.keepMul_sound top h)
  simpa only [valB_W, allLtB_W] using this

/-- hence `mul_redc = a·b·R⁻¹ mod m` for any inverse `R'` of `R = 2^(64N)` modulo `m`. -/
theorem mul_redc_value (inv : ℕ) (a b md : List ℕ)
    (hN : 1 ≤ md.length) (hla : a.length = md.length) (hlb : b.length = md.length)
    (ha : AllLt a) (hb : AllLt b) (hmd : AllLt md)
    (hinv : (inv * md.headD 0) % W = W - 1) (haM : val a < val md) (hbM : val b < val md)
    (ri : ℕ) (hri : (W ^ md.length * ri) % val md = 1) :
    ∃ r, mulRedc W keepMul inv a b md = some r ∧ val r = (val a * val b * ri) % val md := by
  obtain ⟨r, h1, _, _, h4, h5⟩ := mul_redc_spec inv a b md hN hla hlb ha hb hmd hinv haM hbM
  exact ⟨r, h1, redc_unique _ _ ri _ _ h4 h5 hri⟩

/-- **`square_redc::<N>`** (slice level, every `N ≥ 1`): returns `N` words `r < m` with
    `r·2^(64N) ≡ a² (mod m)`; no assertion fires (in particular `carry_outer ≤ 2` inside the loop, `≤ 1` at the
    end, and the narrow arm never loses a carry). -/
theorem square_redc_spec (inv : ℕ) (a md : List ℕ)
    (hN : 1 ≤ md.length) (hla : a.length = md.length)
    (ha : AllLt a) (hmd : AllLt md)
    (hinv : (inv * md.headD 0) % W = W - 1) (haM : val a < val md) :
    ∃ r, squareRedc W keepSq inv a md = some r ∧ r.length = md.length ∧ AllLt r
      ∧ val r < val md ∧ (W ^ md.length * val r) % val md = (val a * val a) % val md := by
  have := squareRedc_spec W keepSq inv a md (by unfold W; omega) hN hla ha hmd hinv
    (by rw [valB_W, valB_W]; exact haM)
    (fun top h => Ruint.Gen.RedcFacts.keepSq_sound top h)
  simpa only [valB_W, allLtB_W] using this

theorem square_redc_value (inv : ℕ) (a md : List ℕ)
    (hN : 1 ≤ md.length) (hla : a.length = md.length)
    (ha : AllLt a) (hmd : AllLt md)
    (hinv : (inv * md.headD 0) % W = W - 1) (haM : val a < val md)
    (ri : ℕ) (hri : (W ^ md.length * ri) % val md = 1) :
    ∃ r, squareRedc W keepSq inv a md = some r ∧ val r = (val a * val a * ri) % val md := by
  obtain ⟨r, h1, _, _, h4, h5⟩ := square_redc_spec inv a md hN hla ha hmd hinv haM
  exact ⟨r, h1, redc_unique _ _ ri _ _ h4 h5 hri⟩

/-- `mul_redc` and `square_redc` agree: `square_redc(a) = mul_redc(a, a)` as limb arrays. -/
theorem square_redc_eq_mul_redc (inv : ℕ) (a md : List ℕ)
    (hN : 1 ≤ md.length) (hla : a.length = md.length)
    (ha : AllLt a) (hmd : AllLt md)
    (hinv : (inv * md.headD 0) % W = W - 1) (haM : val a < val md) :
    squareRedc W keepSq inv a md = mulRedc W keepMul inv a a md := by
  obtain ⟨r, h1, l1, w1, b1, c1⟩ := square_redc_spec inv a md hN hla ha hmd hinv haM
  obtain ⟨s, h2, l2, w2, b2, c2⟩ := mul_redc_spec inv a a md hN hla hla ha ha hmd hinv haM haM
  rw [h1, h2]
  congr 1
  apply val_inj r s (by rw [l1, l2]) w1 w2
  have key : Nat.ModEq (val md) (W ^ md.length * val r) (W ^ md.length * val s) := by
    unfold Nat.ModEq; rw [c1, c2]
  have hcop : Nat.gcd (val md) (W ^ md.length) = 1 := by
    have : Nat.Coprime (W ^ md.length) (val md) := by
      apply Nat.Coprime.pow_left
      cases hmd' : md with
      | nil => rw [hmd'] at hN; simp at hN
      | cons m0 ms =>
        rw [hmd'] at hinv
        simp only [List.headD_cons] at hinv
        simp only [val_cons]
        exact (Nat.coprime_add_mul_left_right W m0 (val ms)).mpr
          (coprime_of_inv W inv m0 (by unfold W; omega) hinv)
    exact Nat.Coprime.symm this
  have h3 : val r % val md = val s % val md := Nat.ModEq.cancel_left_of_coprime hcop key
  rwa [Nat.mod_eq_of_lt b1, Nat.mod_eq_of_lt b2] at h3

/-! ## `Uint::mul_redc`, `Uint::square_redc` -/

/-- **`Uint::<BITS, LIMBS>::mul_redc`** for every width `BITS > 0` (including widths that are not a multiple of
    64): canonical operands and modulus, `inv·m₀ ≡ −1`, `a, b < m`: returns a canonical `Uint` `r < m` with
    `r·2^(64·LIMBS) ≡ a·b (mod m)` — neither `from_limbs` nor any `debug_assert!` panics. -/
theorem uint_mul_redc_spec (bits inv : ℕ) (a b md : List ℕ) (hbits : 0 < bits)
    (ha : Canon bits a) (hb : Canon bits b) (hmd : Canon bits md)
    (hinv : (inv * md.headD 0) % W = W - 1) (haM : val a < val md) (hbM : val b < val md) :
    ∃ r, uintMulRedc keepMul bits inv a b md = some r ∧ Canon bits r ∧ val r < val md
      ∧ (W ^ nlimbs bits * val r) % val md = (val a * val b) % val md := by
  have hn := nlimbs_pos bits hbits
  obtain ⟨r, h1, h2, h3, h4, h5⟩ := mul_redc_spec inv a b md (by rw [hmd.1]; exact hn)
    (by rw [ha.1, hmd.1]) (by rw [hb.1, hmd.1]) ha.2.1 hb.2.1 hmd.2.1 hinv haM hbM
  rw [hmd.1] at h2 h5
  obtain ⟨f1, f2⟩ := fromLimbsChecked_ok bits hbits r md h2 h3 hmd h4
  refine ⟨r, ?_, f2, h4, h5⟩
  have hne : bits ≠ 0 := by omega
  simp only [uintMulRedc, hne, if_false, h1, f1]

/-- **`Uint::<BITS, LIMBS>::square_redc`** for every width `BITS > 0`. -/
theorem uint_square_redc_spec (bits inv : ℕ) (a md : List ℕ) (hbits : 0 < bits)
    (ha : Canon bits a) (hmd : Canon bits md)
    (hinv : (inv * md.headD 0) % W = W - 1) (haM : val a < val md) :
    ∃ r, uintSquareRedc keepSq bits inv a md = some r ∧ Canon bits r ∧ val r < val md
      ∧ (W ^ nlimbs bits * val r) % val md = (val a * val a) % val md := by
  have hn := nlimbs_pos bits hbits
  obtain ⟨r, h1, h2, h3, h4, h5⟩ := square_redc_spec inv a md (by rw [hmd.1]; exact hn)
    (by rw [ha.1, hmd.1]) ha.2.1 hmd.2.1 hinv haM
  rw [hmd.1] at h2 h5
  obtain ⟨f1, f2⟩ := fromLimbsChecked_ok bits hbits r md h2 h3 hmd h4
  refine ⟨r, ?_, f2, h4, h5⟩
  have hne : bits ≠ 0 := by omega
  simp only [uintSquareRedc, hne, if_false, h1, f1]

/-- `BITS = 0`: both wrappers return `ZERO` (the empty limb list) without touching their arguments. -/
theorem uint_redc_zero_bits (inv : ℕ) (a b md : List ℕ) :
    uintMulRedc keepMul 0 inv a b md = some [] ∧ uintSquareRedc keepSq 0 inv a md = some [] := by
  simp [uintMulRedc, uintSquareRedc]

/-- the extra-carry thresholds of the current source are sound (generated facts, re-proved each run): `mul_redc`
    drops the carry only when `2·Mod ≤ 2^(64N)` (its accumulator is `< 2·Mod`), `square_redc` takes the narrow arm
    only when `3·Mod ≤ 2^(64N)` (its accumulator is `< 3·Mod`). These are the weakest conditions the two loops
    need, so a threshold edit that keeps the code correct keeps the obligation. -/
theorem thresholds_sound :
    (∀ top, keepMul top = false → 2 * (top + 1) ≤ 2 ^ 64)
    ∧ (∀ top, keepSq top = false → 3 * (top + 1) ≤ 2 ^ 64) :=
  ⟨Ruint.Gen.RedcFacts.keepMul_sound, Ruint.Gen.RedcFacts.keepSq_sound⟩

/-- **Tie to the source text**: on word inputs the model's word primitives (generic base, at `B = W`) are equal to
    the definitions generated from the current Rust source by `tools/rs2lean.py` (`carrying_mul_add`,
    `carrying_double_mul_add` of `mul_redc.rs`; `carrying_add`, `borrowing_sub` of `algorithms/mod.rs`), whose
    contracts are re-proved on every run: an edit of one of these helpers that changes its meaning breaks this
    obligation even if no sampled input notices. -/
theorem word_primitives_match_source (l r a c : ℕ) (f : Bool)
    (hl : l < W) (hr : r < W) (ha : a < W) (hc : c < W) :
    Ruint.Gen.carrying_mul_add l r a c = carryingMulAdd W l r a c
    ∧ Ruint.Gen.carrying_double_mul_add l r a c f = carryingDoubleMulAdd W l r a c f
    ∧ Ruint.Gen.carrying_add l r f = carryingAdd W l r f
    ∧ Ruint.Gen.borrowing_sub l r f = borrowingSub W l r f :=
  ⟨gen_carrying_mul_add_eq l r a c hl hr ha hc, gen_carrying_double_mul_add_eq l r a c f hl hr ha hc,
   gen_carrying_add_eq l r f hl hr, gen_borrowing_sub_eq l r f hl hr⟩

/-! ## Whole-function tie to the source (G)

`Ruint.Gen.mul_redc`, `Ruint.Gen.square_redc`, `Ruint.Gen.reduce1_carry` and `Ruint.Gen.redc_sub` are regenerated from
`src/algorithms/mul_redc.rs` by `tools/rs2lean.py` on every run — the complete functions: both nested `for`
loops of the CIOS multiplication with the indexed reads and writes of `result`, the reduction factor computed
at `i == 0`, the shifted store `result[i - 1] = value`, the "add carries" step with the threshold arm, the
`zip` loop of `sub`, and the final `carry | !borrow` selection. They are proved equal to the model for **every**
limb count `N ≥ 1` and all operands (no word-size hypotheses are needed: both sides wrap identically). The driver
executes the generated function for the slice-level operation. The `debug_assert!`s are not translated; they are
the model's `ok` flag. -/

/-- `sub` of `mul_redc.rs` (the `zip` loop) as generated from the source = the model's `sub`. -/
theorem gen_redc_sub_eq (l r : List ℕ) (hlr : l.length = r.length) (hN : l.length < 2 ^ 64) (f : ℕ) (hf : l.length < f) :
    Ruint.Gen.redc_sub f l.length l r = Ruint.Redc.sub W l r false :=
  Ruint.GenRedcLoops.redc_sub_eq l r hlr hN f hf

/-- `reduce1_carry` as generated from the source = the model's. -/
theorem gen_reduce1_carry_eq (v md : List ℕ) (c : Bool) (hl : v.length = md.length) (hN : v.length < 2 ^ 64)
    (f : ℕ) (hf : v.length < f) :
    Ruint.Gen.reduce1_carry f v.length v md c = reduce1Carry W v md c :=
  Ruint.GenRedcLoops.reduce1_carry_eq v md c hl hN f hf

/-- **`mul_redc::<N>` as generated from the source** returns exactly what the model returns (the model additionally
    reports whether a `debug_assert!` fired): every `N ≥ 1` (below `2^64` limbs), every operand. -/
theorem gen_mul_redc_eq (a b md : List ℕ) (inv : ℕ) (hN : 0 < md.length) (hN64 : md.length < 2 ^ 64)
    (ha : a.length = md.length) (hb : b.length = md.length) (fuel : ℕ) (hf : md.length < fuel) :
    mulRedc W keepMul inv a b md
      = if (mulRedcCore W keepMul inv a b md).2 then some (Ruint.Gen.mul_redc fuel md.length a b md inv) else none := by
  rw [Ruint.GenRedcLoops.mul_redc_eq a b md inv hN hN64 ha hb fuel hf]
  rfl

/-- **`square_redc::<N>` as generated from the source** (outer loop, the doubled-product row loop
    `for j in (i + 1)..N` with its two-level carry, the reduction row loop `for j in 1..N` with the shifted store,
    both threshold arms, `reduce1_carry`) returns exactly what the model returns: every `N ≥ 1`, every operand. -/
theorem gen_square_redc_eq (a md : List ℕ) (inv : ℕ) (hN : 0 < md.length) (hN64 : md.length < 2 ^ 64)
    (ha : a.length = md.length) (fuel : ℕ) (hf : md.length < fuel) :
    squareRedc W keepSq inv a md
      = if (squareRedcCore W keepSq inv a md).2 then some (Ruint.Gen.square_redc fuel md.length a md inv) else none := by
  rw [Ruint.GenRedcSquare.square_redc_eq a md inv hN hN64 ha fuel hf]
  rfl

/-! Non-vacuity: concrete instances evaluated by the kernel. `m = 2^128 − 159` (top limb `2^64 − 1`: the
carry-keeping arms, accumulator overflows `2^128`), `a = m − 1`, `b = m − 2`, `inv = −m⁻¹ mod 2^64`;
and a 65-bit `Uint` (`m = 2^65 − 49`, top limb `1`: the carry-dropping arms, masked top limb). -/
example : (0xb5efe63d2eb11b5f * 0xffffffffffffff61) % W = W - 1 := by decide +kernel
example : mulRedc W keepMul 0xb5efe63d2eb11b5f [0xffffffffffffff60, 0xffffffffffffffff]
    [0xffffffffffffff5f, 0xffffffffffffffff] [0xffffffffffffff61, 0xffffffffffffffff]
    = some [0x6bdfcc7a5d623681, 0x6236bdfcc7a5d623] := by decide +kernel
example : squareRedc W keepSq 0xb5efe63d2eb11b5f [0xffffffffffffff60, 0xffffffffffffffff]
    [0xffffffffffffff61, 0xffffffffffffffff] = some [0xb5efe63d2eb11af1, 0xb11b5efe63d2eb11] := by decide +kernel
example : uintMulRedc keepMul 65 0x7d6343eb1a1f58d1 [0xffffffffffffffce, 1] [0xffffffffffffffcc, 1]
    [0xffffffffffffffcf, 1] = some [0x8c6be6d64f8a49d9, 1] := by decide +kernel

/-! ### the `Uint` wrappers regenerated from `src/modular.rs`

`Uint::mul_redc` / `Uint::square_redc` (the `BITS == 0` arm, the generated kernels, `from_limbs` with its `assert!`) as the
source defines them yield the model's result whenever the model succeeds (the model's `none` also covers the library's
`debug_assert!`s, which the translation does not contain). -/

theorem gen_uint_mul_redc_eq (bits : ℕ) (hN : nlimbs bits < 2 ^ 64) (a b md : List ℕ) (inv : ℕ)
    (ha : a.length = nlimbs bits) (hb : b.length = nlimbs bits) (hmd : md.length = nlimbs bits)
    (f : ℕ) (hf : nlimbs bits < f) (r : List ℕ)
    (hm : Ruint.Redc.uintMulRedc keepMul bits inv a b md = some r) :
    Ruint.Gen.uint_mul_redc f bits (nlimbs bits) a b md inv = some r :=
  Ruint.GenUintMod.mul_redc_eq bits hN a b md inv ha hb hmd f hf r hm

theorem gen_uint_square_redc_eq (bits : ℕ) (hN : nlimbs bits < 2 ^ 64) (a md : List ℕ) (inv : ℕ)
    (ha : a.length = nlimbs bits) (hmd : md.length = nlimbs bits)
    (f : ℕ) (hf : nlimbs bits < f) (r : List ℕ)
    (hm : Ruint.Redc.uintSquareRedc keepSq bits inv a md = some r) :
    Ruint.Gen.uint_square_redc f bits (nlimbs bits) a md inv = some r :=
  Ruint.GenUintMod.square_redc_eq bits hN a md inv ha hmd f hf r hm

end Ruint.C11
