import Ruint.Model.Redc
import Ruint.Gen.RedcFacts

/-! # C11 — Montgomery `mul_redc` / `square_redc` (placeholder while the lemmas are re-homed) -/
namespace Ruint.C11
open Ruint Ruint.Redc

/-- `BITS = 0`: both wrappers return `ZERO` (the empty limb list) without touching their arguments. -/
theorem uint_redc_zero_bits (k : Nat → Bool) (inv : Nat) (a b md : List Nat) :
    uintMulRedc k 0 inv a b md = some [] ∧ uintSquareRedc k 0 inv a md = some [] := by
  simp [uintMulRedc, uintSquareRedc]

end Ruint.C11
