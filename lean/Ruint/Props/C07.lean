import Ruint.Model.Conv
import Ruint.Lemmas.Basic

/-! # C07 — integer conversions (property theorems; under construction) -/
namespace Ruint.C07
open Ruint Ruint.Conv Ruint.Canon

theorem low1_length (n x : ℕ) : (low1 n x).length = n := by
  cases n <;> simp [low1]

end Ruint.C07
