import Ruint.Lemmas.Conv
import Ruint.Lemmas.GenConv
import Ruint.Lemmas.GenFls
import Ruint.Lemmas.GenConv2

/-!
# C07 — integer conversions accept exactly the representable range, preserving value

Property theorems only, about the model functions of `Model/Conv.lean` / `Model/Canon.lean` that the
correspondence driver executes. All widths `bits`; every primitive type is a `Prim` (width, signedness)
with `width ≤ 64 ∨ width = 128` (`bool` = 1, `usize`/`isize` = 64); source values are integers in the range
of their type; limb slices have any length.
-/
namespace Ruint.C07
open Ruint Ruint.Conv Ruint.Canon

/-- a Rust primitive integer type (or `bool`) -/
def PrimOk (t : Prim) : Prop := 1 ≤ t.width ∧ (t.width ≤ 64 ∨ t.width = 128)

/-! ## primitive → `Uint` -/

/-- `TryFrom<u64>`: `Ok(v)` iff `v < 2^bits`; else `ValueTooLarge(bits, v mod 2^bits)`. -/
theorem try_from_u64_spec (bits v : ℕ) (hv : v < 2 ^ 64) :
    (v < 2 ^ bits → ∃ l, tryFromU64 bits v = .ok l ∧ Canon bits l ∧ val l = v)
    ∧ (2 ^ bits ≤ v → ∃ l, tryFromU64 bits v = .tooLarge bits l ∧ Canon bits l ∧ val l = v % 2 ^ bits) :=
  tryFromU64_spec bits v hv

/-- `TryFrom<u128>` (all three arms, repaired payload). -/
theorem try_from_u128_spec (bits v : ℕ) (hv : v < 2 ^ 128) :
    (v < 2 ^ bits → ∃ l, tryFromU128 bits v = .ok l ∧ Canon bits l ∧ val l = v)
    ∧ (2 ^ bits ≤ v → ∃ l, tryFromU128 bits v = .tooLarge bits l ∧ Canon bits l ∧ val l = v % 2 ^ bits) :=
  tryFromU128_spec bits v (by unfold W; norm_num at hv ⊢; omega)

/-- the pinned tree's payload (`limbs[1] %= MASK`) was wrong: `U65` from `3·2^64 + 5`. -/
theorem old_u128_payload_wrong :
    tryFromU128Old 65 (3 * 2 ^ 64 + 5) = .tooLarge 65 [5, 0]
    ∧ tryFromU128 65 (3 * 2 ^ 64 + 5) = .tooLarge 65 [5, 1]
    ∧ (3 * 2 ^ 64 + 5) % 2 ^ 65 = val [5, 1] := by
  decide +kernel

/-- **`Uint::try_from(v : T)`** for every primitive `T` and every `v : T`:
    `Ok` iff `0 ≤ v < 2^bits` (value preserved); `ValueNegative(bits, p)` for `v < 0` with
    `p = (v as uN) mod 2^bits`, which is `v mod 2^bits` whenever `bits ≤ N`;
    `ValueTooLarge(bits, v mod 2^bits)` for `v ≥ 2^bits`. Payloads are canonical. -/
theorem try_from_spec (bits : ℕ) (t : Prim) (ht : PrimOk t) (v : ℤ) (hv : t.inRange v = true) :
    (0 ≤ v ∧ v < 2 ^ bits → ∃ l, tryFrom bits t v = .ok l ∧ Canon bits l ∧ (val l : ℤ) = v)
    ∧ (v < 0 → ∃ l, tryFrom bits t v = .negative bits l ∧ Canon bits l
        ∧ (val l : ℤ) = v % 2 ^ t.width % 2 ^ bits
        ∧ (bits ≤ t.width → (val l : ℤ) = v % 2 ^ bits))
    ∧ (2 ^ bits ≤ v → ∃ l, tryFrom bits t v = .tooLarge bits l ∧ Canon bits l
        ∧ (val l : ℤ) = v % 2 ^ bits) := by
  obtain ⟨hw1, hw⟩ := ht
  unfold Prim.inRange Prim.min Prim.max at hv
  simp only [Bool.and_eq_true, decide_eq_true_eq] at hv
  have hp2 : (2 : ℤ) ^ t.width = 2 * 2 ^ (t.width - 1) := by
    rw [← pow_succ']; congr 1; omega
  have hpp : (0 : ℤ) < 2 ^ (t.width - 1) := by positivity
  -- in both signednesses a non-negative `v` goes through the unsigned conversion of `v.toNat`
  have hlow : t.signed = false → 0 ≤ v := by
    intro hs; simp only [hs, Bool.false_eq_true, if_false] at hv; exact hv.1
  have hhigh : v < 2 ^ t.width := by
    cases hs : t.signed
    · simp only [hs, Bool.false_eq_true, if_false] at hv; omega
    · simp only [hs, if_true] at hv; omega
  have hnn : 0 ≤ v → tryFrom bits t v = tryFromUnsigned bits t.width v.toNat := by
    intro h0
    unfold tryFrom
    cases hs : t.signed
    · simp
    · simp only [if_true]; exact tryFromSigned_nonneg bits t.width v h0 hhigh
  have hnat : 0 ≤ v → v.toNat < 2 ^ t.width := by
    intro h0; zify; rw [Int.toNat_of_nonneg h0]; exact hhigh
  refine ⟨?_, ?_, ?_⟩
  · rintro ⟨h0, hb⟩
    obtain ⟨s1, _⟩ := tryFromUnsigned_spec bits t.width v.toNat hw (hnat h0)
    obtain ⟨l, e, c, hval⟩ := s1 (by zify; rw [Int.toNat_of_nonneg h0]; exact hb)
    exact ⟨l, by rw [hnn h0, e], c, by rw [hval, Int.toNat_of_nonneg h0]⟩
  · intro hneg
    have hs : t.signed = true := by
      by_contra hc
      have := hlow (by simpa using hc)
      omega
    obtain ⟨l, e, c, hval⟩ := tryFromSigned_neg bits t.width v hw hneg
    have hcast : (val l : ℤ) = v % 2 ^ t.width % 2 ^ bits := by
      rw [hval]; push_cast; rw [asUnsigned_cast]
    refine ⟨l, by unfold tryFrom; simp only [hs, if_true]; exact e, c, hcast, fun hle => ?_⟩
    rw [hcast]
    exact Int.emod_emod_of_dvd v (pow_dvd_pow 2 hle)
  · intro hb
    have h0 : 0 ≤ v := le_trans (by positivity) hb
    obtain ⟨_, s2⟩ := tryFromUnsigned_spec bits t.width v.toNat hw (hnat h0)
    obtain ⟨l, e, c, hval⟩ := s2 (by zify; rw [Int.toNat_of_nonneg h0]; exact hb)
    refine ⟨l, by rw [hnn h0, e], c, ?_⟩
    rw [hval]; push_cast; rw [Int.toNat_of_nonneg h0]

/-- `Uint::from`: the value when it fits, a panic otherwise. -/
theorem from_spec (bits : ℕ) (t : Prim) (ht : PrimOk t) (v : ℤ) (hv : t.inRange v = true) :
    (0 ≤ v ∧ v < 2 ^ bits → ∃ l, «from» bits t v = .ok l ∧ Canon bits l ∧ (val l : ℤ) = v)
    ∧ (¬ (0 ≤ v ∧ v < 2 ^ bits) → «from» bits t v = .panic) := by
  obtain ⟨h1, h2, h3⟩ := try_from_spec bits t ht v hv
  unfold «from»
  constructor
  · intro h; obtain ⟨l, e, r⟩ := h1 h; exact ⟨l, by rw [e], r⟩
  · intro h
    by_cases hneg : v < 0
    · obtain ⟨l, e, _⟩ := h2 hneg; rw [e]
    · obtain ⟨l, e, _⟩ := h3 (by omega); rw [e]

/-- `Uint::wrapping_from`: `v mod 2^bits` for every `v ≥ 0`, and for negative `v` whenever
    `bits ≤ width(T)` (in general `(v as uN) mod 2^bits`). Always canonical, never a panic. -/
theorem wrapping_from_spec (bits : ℕ) (t : Prim) (ht : PrimOk t) (v : ℤ) (hv : t.inRange v = true) :
    ∃ l, wrappingFrom bits t v = .ok l ∧ Canon bits l
      ∧ (val l : ℤ) = v % 2 ^ t.width % 2 ^ bits
      ∧ (0 ≤ v ∨ bits ≤ t.width → (val l : ℤ) = v % 2 ^ bits) := by
  obtain ⟨h1, h2, h3⟩ := try_from_spec bits t ht v hv
  have hp : (0 : ℤ) < 2 ^ bits := by positivity
  have hhigh : 0 ≤ v → v % 2 ^ t.width = v := by
    intro h0
    unfold Prim.inRange Prim.max at hv
    simp only [Bool.and_eq_true, decide_eq_true_eq] at hv
    have hp2 : (2 : ℤ) ^ t.width = 2 * 2 ^ (t.width - 1) := by
      rw [← pow_succ']; congr 1; have := ht.1; omega
    have hpp : (0 : ℤ) < 2 ^ (t.width - 1) := by positivity
    apply Int.emod_eq_of_lt h0
    cases hs : t.signed
    · simp only [hs, Bool.false_eq_true, if_false] at hv; omega
    · simp only [hs, if_true] at hv; omega
  unfold wrappingFrom
  by_cases hneg : v < 0
  · obtain ⟨l, e, c, p1, p2⟩ := h2 hneg
    rw [e]
    refine ⟨l, rfl, c, p1, fun h => ?_⟩
    rcases h with h | h
    · omega
    · exact p2 h
  · have h0 : 0 ≤ v := by omega
    by_cases hb : v < 2 ^ bits
    · obtain ⟨l, e, c, p⟩ := h1 ⟨h0, hb⟩
      rw [e]
      have : v % 2 ^ bits = v := Int.emod_eq_of_lt h0 hb
      exact ⟨l, rfl, c, by rw [hhigh h0, this, p], fun _ => by rw [this, p]⟩
    · obtain ⟨l, e, c, p⟩ := h3 (by omega)
      rw [e]
      exact ⟨l, rfl, c, by rw [hhigh h0, p], fun _ => p⟩

/-- `Uint::saturating_from`: `0` for negative, `MAX` for too large, else the value. -/
theorem saturating_from_spec (bits : ℕ) (t : Prim) (ht : PrimOk t) (v : ℤ) (hv : t.inRange v = true) :
    ∃ l, saturatingFrom bits t v = .ok l ∧ Canon bits l
      ∧ (val l : ℤ) = Max.max 0 (Min.min v (2 ^ bits - 1)) := by
  obtain ⟨h1, h2, h3⟩ := try_from_spec bits t ht v hv
  have hp : (0 : ℤ) < 2 ^ bits := by positivity
  unfold saturatingFrom
  by_cases hneg : v < 0
  · obtain ⟨l, e, _⟩ := h2 hneg
    rw [e]
    refine ⟨_, rfl, (zero_spec bits).1, ?_⟩
    rw [(zero_spec bits).2]
    have : Min.min v (2 ^ bits - 1) = v := min_eq_left (by omega)
    rw [this, max_eq_left (by omega)]; rfl
  · have h0 : 0 ≤ v := by omega
    by_cases hb : v < 2 ^ bits
    · obtain ⟨l, e, c, p⟩ := h1 ⟨h0, hb⟩
      rw [e]
      refine ⟨l, rfl, c, ?_⟩
      rw [p, min_eq_left (by omega), max_eq_right h0]
    · obtain ⟨l, e, _⟩ := h3 (by omega)
      rw [e]
      refine ⟨_, rfl, (max_spec bits).1, ?_⟩
      rw [(max_spec bits).2, min_eq_right (by omega), max_eq_right (by omega)]
      have : 1 ≤ 2 ^ bits := Nat.one_le_two_pow
      push_cast [Nat.cast_sub this]; ring

/-! ## limb slices (any length) -/

/-- `overflowing_from_limbs_slice`: never panics; `(slice mod 2^bits, slice ≥ 2^bits)`, canonical. -/
theorem overflowing_from_limbs_slice_spec (bits : ℕ) (sl : List ℕ) (hsl : AllLt sl) :
    ∃ l o, overflowingFromLimbsSlice bits sl = some (l, o) ∧ Canon bits l
      ∧ val l = val sl % 2 ^ bits ∧ (o = true ↔ 2 ^ bits ≤ val sl) :=
  overflowingFromLimbsSlice_spec bits sl hsl

/-- `from_limbs_slice` (panics), `checked_` (`None`), `wrapping_` (mod), `saturating_` (`MAX`). -/
theorem from_limbs_slice_family_spec (bits : ℕ) (sl : List ℕ) (hsl : AllLt sl) :
    (val sl < 2 ^ bits → ∃ l, Canon bits l ∧ val l = val sl ∧ fromLimbsSlice bits sl = .ok l
        ∧ checkedFromLimbsSlice bits sl = .ok l ∧ wrappingFromLimbsSlice bits sl = .ok l
        ∧ saturatingFromLimbsSlice bits sl = .ok l)
    ∧ (2 ^ bits ≤ val sl → fromLimbsSlice bits sl = .panic ∧ checkedFromLimbsSlice bits sl = .none
        ∧ (∃ l, wrappingFromLimbsSlice bits sl = .ok l ∧ Canon bits l ∧ val l = val sl % 2 ^ bits)
        ∧ saturatingFromLimbsSlice bits sl = .ok (max bits)) := by
  obtain ⟨l, o, e, c, hval, ho⟩ := overflowingFromLimbsSlice_spec bits sl hsl
  unfold fromLimbsSlice checkedFromLimbsSlice wrappingFromLimbsSlice saturatingFromLimbsSlice
  rw [e]
  constructor
  · intro h
    have : o = false := by
      cases o
      · rfl
      · have := ho.mp rfl; omega
    subst this
    exact ⟨l, c, by rw [hval, Nat.mod_eq_of_lt h], rfl, rfl, rfl, rfl⟩
  · intro h
    have : o = true := ho.mpr h
    subst this
    exact ⟨rfl, rfl, ⟨l, rfl, c, hval⟩, rfl⟩

/-- `from_limbs` (exactly `LIMBS` limbs): the value iff it is below `2^bits`, a panic otherwise. -/
theorem from_limbs_spec (bits : ℕ) (l : List ℕ) (hlen : l.length = nlimbs bits) (hl : AllLt l) :
    (val l < 2 ^ bits → fromLimbs bits l = some l) ∧ (2 ^ bits ≤ val l → fromLimbs bits l = none) := by
  obtain ⟨h1, h2⟩ := fromLimbs_spec bits l hlen hl
  exact ⟨fun h => h1 ⟨hlen, hl, h⟩, fun h => h2 (fun hc => by have := hc.val_lt; omega)⟩

/-! ## `Uint` ↔ `Uint` of another width -/

/-- `Uint<dst>::uint_try_from(Uint<src>)`: `Ok` iff the value fits, else
    `ValueTooLarge(dst, v mod 2^dst)`. -/
theorem uint_try_from_spec (dst src : ℕ) (a : List ℕ) (ha : Canon src a) :
    (val a < 2 ^ dst → ∃ l, uintTryFrom dst a = .ok l ∧ Canon dst l ∧ val l = val a)
    ∧ (2 ^ dst ≤ val a → ∃ l, uintTryFrom dst a = .tooLarge dst l ∧ Canon dst l
        ∧ val l = val a % 2 ^ dst) := by
  obtain ⟨l, o, e, c, hval, ho⟩ := overflowingFromLimbsSlice_spec dst a ha.2.1
  unfold uintTryFrom
  rw [e]
  constructor
  · intro h
    have : o = false := by
      cases o
      · rfl
      · have := ho.mp rfl; omega
    subst this
    exact ⟨l, rfl, c, by rw [hval, Nat.mod_eq_of_lt h]⟩
  · intro h
    have : o = true := ho.mpr h
    subst this
    exact ⟨l, rfl, c, hval⟩

/-- `Uint<src>::uint_try_to::<Uint<dst>>()`: `Ok` iff it fits, else
    `Overflow(dst, v mod 2^dst, MAX_dst)`. -/
theorem uint_try_to_spec (dst src : ℕ) (a : List ℕ) (ha : Canon src a) :
    (val a < 2 ^ dst → ∃ l, uintTryTo dst a = .ok l ∧ Canon dst l ∧ val l = val a)
    ∧ (2 ^ dst ≤ val a → ∃ l, uintTryTo dst a = .overflow dst l (max dst) ∧ Canon dst l
        ∧ val l = val a % 2 ^ dst ∧ val (max dst) = 2 ^ dst - 1) := by
  obtain ⟨l, o, e, c, hval, ho⟩ := overflowingFromLimbsSlice_spec dst a ha.2.1
  unfold uintTryTo
  rw [e]
  constructor
  · intro h
    have : o = false := by
      cases o
      · rfl
      · have := ho.mp rfl; omega
    subst this
    exact ⟨l, rfl, c, by rw [hval, Nat.mod_eq_of_lt h]⟩
  · intro h
    have : o = true := ho.mpr h
    subst this
    exact ⟨l, rfl, c, hval, (max_spec dst).2⟩

/-! ## `Uint` → primitive -/

/-- `to_int!` targets (`i8 … u64, isize, usize`): `Ok(val)` iff `val ≤ T::MAX`; otherwise
    `Overflow(bits, val as T, T::MAX)` where `val as T` is `val mod 2^N` in two's complement. -/
theorem to_int_spec (t : Prim) (hw1 : 1 ≤ t.width) (hw : t.width ≤ 64) (bits : ℕ) (a : List ℕ)
    (ha : Canon bits a) :
    ((val a : ℤ) ≤ t.max → toInt t bits a = .ok (val a))
    ∧ (t.max < (val a : ℤ) → toInt t bits a = .overflow bits (castTo t (val a)) t.max) := by
  have hdvd : 2 ^ t.width ∣ W := by unfold W; exact pow_dvd_pow 2 hw
  have hcast : castTo t (limb a 0) = castTo t (val a) := by
    rw [limb_zero a ha.2.1, castTo_mod t _ _ hdvd]
  unfold toInt
  simp only
  rw [bitLen_model bits a ha]
  by_cases h0 : bits = 0
  · subst h0
    have := canon_zero_bits a ha
    subst this
    simp only [if_true, val_nil, Nat.cast_zero]
    refine ⟨fun _ => trivial, fun h => ?_⟩
    unfold Prim.max at h
    have : (0 : ℤ) < 2 ^ (t.width - 1) := by positivity
    have : (0 : ℤ) < 2 ^ t.width := by positivity
    split at h <;> omega
  · simp only [h0, if_false]
    have hmax : t.max = (2 : ℤ) ^ (if t.signed then t.width - 1 else t.width) - 1 := by
      unfold Prim.max; split <;> rfl
    have hiff : bitLen (val a) > (if t.signed then t.width - 1 else t.width) ↔ t.max < (val a : ℤ) := by
      rw [bitLen_gt_iff, hmax]
      constructor
      · intro h; have : ((2 ^ (if t.signed then t.width - 1 else t.width) : ℕ) : ℤ) ≤ val a := by exact_mod_cast h
        push_cast at this; omega
      · intro h
        have : ((2 ^ (if t.signed then t.width - 1 else t.width) : ℕ) : ℤ) ≤ val a := by push_cast; omega
        exact_mod_cast this
    constructor
    · intro hle
      rw [if_neg (by rw [hiff]; omega), hcast, castTo_fits t _ hw1 hle]
    · intro hgt
      rw [if_pos (hiff.mpr hgt), hcast]

/-- `i128` / `u128` targets. -/
theorem to_int128_spec (t : Prim) (hw : t.width = 128) (bits : ℕ) (a : List ℕ) (ha : Canon bits a) :
    ((val a : ℤ) ≤ t.max → toInt128 t bits a = .ok (val a))
    ∧ (t.max < (val a : ℤ) → toInt128 t bits a = .overflow bits (castTo t (val a)) t.max) := by
  have hWW : W * W = 2 ^ 128 := by unfold W; norm_num
  have hdvd : 2 ^ t.width ∣ W * W := by rw [hw, hWW]
  have hdvd1 : 2 ^ t.width ∣ W * 2 ^ 64 := by rw [hw]; unfold W; norm_num
  have hcast2 : castTo t (limb a 0 + W * limb a 1) = castTo t (val a) := by
    rw [limb_zero_one a ha.2.1, castTo_mod t _ _ hdvd]
  unfold toInt128
  simp only
  rw [bitLen_model bits a ha]
  by_cases h0 : bits = 0
  · subst h0
    have := canon_zero_bits a ha
    subst this
    simp only [if_true, val_nil, Nat.cast_zero]
    refine ⟨fun _ => trivial, fun h => ?_⟩
    unfold Prim.max at h
    have : (0 : ℤ) < 2 ^ (t.width - 1) := by positivity
    have : (0 : ℤ) < 2 ^ t.width := by positivity
    split at h <;> omega
  · simp only [h0, if_false]
    have hmax : t.max = (2 : ℤ) ^ (if t.signed then 127 else 128) - 1 := by
      unfold Prim.max; rw [hw]; split <;> rfl
    have hiff : bitLen (val a) > (if t.signed then 127 else 128) ↔ t.max < (val a : ℤ) := by
      rw [bitLen_gt_iff, hmax]
      constructor
      · intro h; have : ((2 ^ (if t.signed then 127 else 128) : ℕ) : ℤ) ≤ val a := by exact_mod_cast h
        push_cast at this; omega
      · intro h
        have : ((2 ^ (if t.signed then 127 else 128) : ℕ) : ℤ) ≤ val a := by push_cast; omega
        exact_mod_cast this
    by_cases hb : bits ≤ 64
    · simp only [hb, if_true]
      -- one limb: the value is below 2^64 and always fits
      have hlt : val a < 2 ^ 64 := lt_of_lt_of_le ha.val_lt (Nat.pow_le_pow_right (by norm_num) hb)
      have hfit : (val a : ℤ) ≤ t.max := by
        rw [hmax]
        have : (2 : ℤ) ^ 64 ≤ 2 ^ (if t.signed then 127 else 128) :=
          pow_le_pow_right₀ (by norm_num) (by split <;> norm_num)
        have : (val a : ℤ) < 2 ^ 64 := by exact_mod_cast hlt
        omega
      have hl0 : limb a 0 = val a := by
        rw [limb_zero a ha.2.1, Nat.mod_eq_of_lt (by unfold W; exact hlt)]
      refine ⟨fun _ => ?_, fun h => by omega⟩
      rw [hl0, castTo_fits t _ (by omega) hfit]
    · simp only [hb, if_false]
      constructor
      · intro hle
        rw [if_neg (by rw [hiff]; omega), hcast2, castTo_fits t _ (by omega) hle]
      · intro hgt
        rw [if_pos (hiff.mpr hgt), hcast2]

/-- `bool` target: `Ok(val = 1)` iff `val ≤ 1`; otherwise `Overflow(bits, bit 0, true)`. -/
theorem to_bool_spec (bits : ℕ) (a : List ℕ) (ha : Canon bits a) :
    (val a ≤ 1 → toBool bits a = .ok (val a))
    ∧ (1 < val a → toBool bits a = .overflow bits ((val a % 2 : ℕ) : ℤ) 1) := by
  unfold Conv.toBool
  rw [bitLen_model bits a ha]
  by_cases h0 : bits = 0
  · subst h0
    have := canon_zero_bits a ha
    subst this
    simp
  · simp only [h0, if_false]
    have hiff : bitLen (val a) > 1 ↔ 1 < val a := by rw [bitLen_gt_iff]; norm_num; omega
    have hl0 := limb_zero a ha.2.1
    constructor
    · intro hle
      rw [if_neg (by rw [hiff]; omega)]
      have : limb a 0 = val a := by rw [hl0, Nat.mod_eq_of_lt (by unfold W; omega)]
      rw [this]
      rcases Nat.lt_or_ge (val a) 1 with h | h
      · have : val a = 0 := by omega
        simp [this]
      · have : val a = 1 := by omega
        simp [this]
    · intro hgt
      rw [if_pos (hiff.mpr hgt)]
      have : limb a 0 % 2 = val a % 2 := by
        rw [hl0]; exact Nat.mod_mod_of_dvd _ (by unfold W; norm_num)
      congr 1
      omega

/-- **`T::try_from(&uint)`, `to`, `wrapping_to`, `saturating_to`** for every integer target `T`:
    success iff the value fits; wrapping = value mod `2^N` read as two's complement for signed targets;
    saturating = `T::MAX`; `to` panics exactly on overflow. -/
theorem try_to_spec (t : Prim) (ht : PrimOk t) (bits : ℕ) (a : List ℕ) (ha : Canon bits a) :
    ((val a : ℤ) ≤ t.max → tryTo false t bits a = .ok (val a) ∧ «to» false t bits a = some (val a)
        ∧ wrappingTo false t bits a = val a ∧ saturatingTo false t bits a = val a)
    ∧ (t.max < (val a : ℤ) → tryTo false t bits a = .overflow bits (castTo t (val a)) t.max
        ∧ «to» false t bits a = none ∧ wrappingTo false t bits a = castTo t (val a)
        ∧ saturatingTo false t bits a = t.max) := by
  have key : ((val a : ℤ) ≤ t.max → tryTo false t bits a = .ok (val a))
      ∧ (t.max < (val a : ℤ) → tryTo false t bits a = .overflow bits (castTo t (val a)) t.max) := by
    unfold tryTo
    simp only [Bool.false_eq_true, if_false]
    by_cases h128 : t.width = 128
    · simp only [h128, if_true]; exact to_int128_spec t h128 bits a ha
    · simp only [h128, if_false]
      exact to_int_spec t ht.1 (by have := ht.2; omega) bits a ha
  unfold «to» wrappingTo saturatingTo
  exact ⟨fun h => by rw [key.1 h]; exact ⟨rfl, rfl, rfl, rfl⟩,
    fun h => by rw [key.2 h]; exact ⟨rfl, rfl, rfl, rfl⟩⟩

/-- the same for `bool`. -/
theorem try_to_bool_spec (bits : ℕ) (a : List ℕ) (ha : Canon bits a) :
    (val a ≤ 1 → tryTo true boolT bits a = .ok (val a) ∧ «to» true boolT bits a = some (val a))
    ∧ (1 < val a → tryTo true boolT bits a = .overflow bits ((val a % 2 : ℕ) : ℤ) 1
        ∧ «to» true boolT bits a = none ∧ saturatingTo true boolT bits a = 1
        ∧ wrappingTo true boolT bits a = ((val a % 2 : ℕ) : ℤ)) := by
  obtain ⟨h1, h2⟩ := to_bool_spec bits a ha
  unfold «to» wrappingTo saturatingTo tryTo
  simp only [if_true]
  exact ⟨fun h => by rw [h1 h]; exact ⟨rfl, rfl⟩, fun h => by rw [h2 h]; exact ⟨rfl, rfl, rfl, rfl⟩⟩

/-- what `x as T` means: `x mod 2^N`, minus `2^N` when the sign bit is set (signed targets). -/
theorem cast_to_spec (t : Prim) (x : ℕ) :
    castTo t x = if t.signed ∧ 2 ^ (t.width - 1) ≤ x % 2 ^ t.width
      then ((x % 2 ^ t.width : ℕ) : ℤ) - 2 ^ t.width else ((x % 2 ^ t.width : ℕ) : ℤ) := by
  unfold castTo
  simp only [Bool.and_eq_true, decide_eq_true_eq]

/-! Non-vacuity: boundary instances evaluated by the kernel. -/
example : tryFrom 7 ⟨8, true⟩ (-128) = .negative 7 [0] := by decide +kernel
example : tryFrom 200 ⟨8, true⟩ (-1) = .negative 200 [255, 0, 0, 0] := by decide +kernel
example : tryTo false ⟨8, true⟩ 65 [2 ^ 64 - 128, 1] = .overflow 65 (-128) 127 := by decide +kernel
example : tryTo false ⟨128, true⟩ 129 [0, 2 ^ 63, 0] = .overflow 129 (-(2 ^ 127)) (2 ^ 127 - 1) := by
  decide +kernel

/-! ### conversions regenerated whole from `src/from.rs` (`Gen/WordsConv.lean`)

`TryFrom<u64>`, `TryFrom<u128>`, `const_from_u64`, and `TryFrom<&Uint>` for every primitive target (the `to_int!` macro body
instantiated per type, `u128`, `i128`, `bool`) as the source defines them, translated on every run, equal the models of the
theorems above. In the generated code primitive integers are two's-complement bit patterns and an error is (variant index,
fields): `GenConv.toToRes`, `toPat`, `toPatB` are the maps. The signed `TryFrom` impls, `from` / `wrapping_from` /
`saturating_from` / `to…` (matches on the error variants) and `Uint`↔`Uint` stay hand-modelled (correspondence). -/

open Ruint.GenConv in
theorem gen_try_from_u64_eq (bits : ℕ) (hN : nlimbs bits < 2 ^ 64) (value : ℕ) (hv : value < 2 ^ 64) :
    toToRes (Ruint.Gen.uint_try_from_u64 bits (nlimbs bits) value) = tryFromU64 bits value :=
  try_from_u64_eq bits hN value hv

open Ruint.GenConv in
theorem gen_try_from_u128_eq (bits : ℕ) (hN : nlimbs bits < 2 ^ 64) (value : ℕ) (hv : value < 2 ^ 128) :
    toToRes (Ruint.Gen.uint_try_from_u128 bits (nlimbs bits) value) = tryFromU128 bits value :=
  try_from_u128_eq bits hN value hv

theorem gen_const_from_u64_eq (bits : ℕ) (hN : nlimbs bits < 2 ^ 64) (x : ℕ) (hx : x < 2 ^ 64) :
    Ruint.Gen.uint_const_from_u64 bits (nlimbs bits) x = Ruint.Canon.constFromU64 bits x :=
  Ruint.GenConv.const_from_u64_eq bits hN x hx

section toPrim
open Ruint.GenConv
variable (bits : ℕ) (hN : nlimbs bits < 2 ^ 57) (l : List ℕ) (hl : Canon bits l) (f : ℕ) (hf : nlimbs bits < f)
include hN hl hf

/-- the ten `to_int!` targets -/
theorem gen_to_int_eq :
    Ruint.Gen.i8_try_from_uint f bits (nlimbs bits) l = toPat ⟨8, true⟩ (toInt ⟨8, true⟩ bits l)
    ∧ Ruint.Gen.u8_try_from_uint f bits (nlimbs bits) l = toPat ⟨8, false⟩ (toInt ⟨8, false⟩ bits l)
    ∧ Ruint.Gen.i16_try_from_uint f bits (nlimbs bits) l = toPat ⟨16, true⟩ (toInt ⟨16, true⟩ bits l)
    ∧ Ruint.Gen.u16_try_from_uint f bits (nlimbs bits) l = toPat ⟨16, false⟩ (toInt ⟨16, false⟩ bits l)
    ∧ Ruint.Gen.i32_try_from_uint f bits (nlimbs bits) l = toPat ⟨32, true⟩ (toInt ⟨32, true⟩ bits l)
    ∧ Ruint.Gen.u32_try_from_uint f bits (nlimbs bits) l = toPat ⟨32, false⟩ (toInt ⟨32, false⟩ bits l)
    ∧ Ruint.Gen.i64_try_from_uint f bits (nlimbs bits) l = toPat ⟨64, true⟩ (toInt ⟨64, true⟩ bits l)
    ∧ Ruint.Gen.u64_try_from_uint f bits (nlimbs bits) l = toPat ⟨64, false⟩ (toInt ⟨64, false⟩ bits l)
    ∧ Ruint.Gen.isize_try_from_uint f bits (nlimbs bits) l = toPat ⟨64, true⟩ (toInt ⟨64, true⟩ bits l)
    ∧ Ruint.Gen.usize_try_from_uint f bits (nlimbs bits) l = toPat ⟨64, false⟩ (toInt ⟨64, false⟩ bits l) :=
  ⟨i8_try_from_uint_eq bits hN l hl f hf, u8_try_from_uint_eq bits hN l hl f hf, i16_try_from_uint_eq bits hN l hl f hf,
   u16_try_from_uint_eq bits hN l hl f hf, i32_try_from_uint_eq bits hN l hl f hf, u32_try_from_uint_eq bits hN l hl f hf,
   i64_try_from_uint_eq bits hN l hl f hf, u64_try_from_uint_eq bits hN l hl f hf, isize_try_from_uint_eq bits hN l hl f hf,
   usize_try_from_uint_eq bits hN l hl f hf⟩

theorem gen_to_128_eq :
    Ruint.Gen.u128_try_from_uint f bits (nlimbs bits) l = toPat ⟨128, false⟩ (toInt128 ⟨128, false⟩ bits l)
    ∧ Ruint.Gen.i128_try_from_uint f bits (nlimbs bits) l = toPat ⟨128, true⟩ (toInt128 ⟨128, true⟩ bits l) :=
  ⟨u128_try_from_uint_eq bits hN l hl f hf, i128_try_from_uint_eq bits hN l hl f hf⟩

theorem gen_to_bool_eq : Ruint.Gen.bool_try_from_uint f bits (nlimbs bits) l = toPatB (toBool bits l) :=
  bool_try_from_uint_eq bits hN l hl f hf

end toPrim

/-- `Uint` ← `Uint` of another width (`UintTryFrom<Uint<..>>`, `from_uint`, `checked_from_uint`) as regenerated from
    `src/from.rs` over the regenerated `overflowing_from_limbs_slice` equals the models. -/
theorem gen_uint_from_uint_eq (bs ls bits : ℕ) (hN : nlimbs bits < 2 ^ 64) (sl : List ℕ) (hw : Ruint.AllLt sl) :
    Ruint.GenFls.toToRes (Ruint.Gen.uint_try_from_uint bits (nlimbs bits) sl) = uintTryFrom bits sl
    ∧ Ruint.GenFls.toRes (Ruint.Gen.uint_from_uint bs ls bits (nlimbs bits) sl) = Ruint.Canon.fromLimbsSlice bits sl
    ∧ Ruint.GenFls.toResO (Ruint.Gen.uint_checked_from_uint bs ls bits (nlimbs bits) sl) = Ruint.Canon.checkedFromLimbsSlice bits sl :=
  ⟨Ruint.GenFls.try_from_uint_eq bits hN sl hw, Ruint.GenFls.from_uint_eq bs ls bits hN sl hw,
   Ruint.GenFls.checked_from_uint_eq bs ls bits hN sl hw⟩

/-! ### the rest of `src/from.rs` regenerated (`Gen/WordsConv2.lean`)

The six signed `TryFrom` impls (`impl_from_signed_int!` instantiated per type) equal `tryFromSigned`; `from`, `saturating_from`,
`wrapping_from` — as functions of the `Result` that the trait-dispatched `Self::uint_try_from(value)` yields (a declared
rewrite) — equal the models whenever that result is the model's `tryFrom`; `wrapping_to` / `saturating_to` likewise over the
`Result` of `self.uint_try_to()`. With the ties above every function of `src/from.rs` except the float conversions (C18) and
`UintTryTo<Uint>` is tied to the source by translation. -/

open Ruint.GenConv in
theorem gen_try_from_signed_eq (bits : ℕ) (hN : nlimbs bits < 2 ^ 64) (v : ℤ) :
    (-(2 ^ 7 : ℤ) ≤ v → v < 2 ^ 7 →
      toToRes (Ruint.Gen.uint_try_from_i8 bits (nlimbs bits) (asUnsigned 8 v)) = tryFromSigned bits 8 v)
    ∧ (-(2 ^ 15 : ℤ) ≤ v → v < 2 ^ 15 →
      toToRes (Ruint.Gen.uint_try_from_i16 bits (nlimbs bits) (asUnsigned 16 v)) = tryFromSigned bits 16 v)
    ∧ (-(2 ^ 31 : ℤ) ≤ v → v < 2 ^ 31 →
      toToRes (Ruint.Gen.uint_try_from_i32 bits (nlimbs bits) (asUnsigned 32 v)) = tryFromSigned bits 32 v)
    ∧ (-(2 ^ 63 : ℤ) ≤ v → v < 2 ^ 63 →
      toToRes (Ruint.Gen.uint_try_from_i64 bits (nlimbs bits) (asUnsigned 64 v)) = tryFromSigned bits 64 v)
    ∧ (-(2 ^ 63 : ℤ) ≤ v → v < 2 ^ 63 →
      toToRes (Ruint.Gen.uint_try_from_isize bits (nlimbs bits) (asUnsigned 64 v)) = tryFromSigned bits 64 v)
    ∧ (-(2 ^ 127 : ℤ) ≤ v → v < 2 ^ 127 →
      toToRes (Ruint.Gen.uint_try_from_i128 bits (nlimbs bits) (asUnsigned 128 v)) = tryFromSigned bits 128 v) :=
  ⟨Ruint.GenConv2.try_from_i8_eq bits hN v, Ruint.GenConv2.try_from_i16_eq bits hN v, Ruint.GenConv2.try_from_i32_eq bits hN v,
   Ruint.GenConv2.try_from_i64_eq bits hN v, Ruint.GenConv2.try_from_isize_eq bits hN v, Ruint.GenConv2.try_from_i128_eq bits hN v⟩

open Ruint.GenConv in
theorem gen_from_family_eq (bits : ℕ) (hN : nlimbs bits < 2 ^ 64) (t : Prim) (v : ℤ)
    (r : Except (ℕ × ℕ × List ℕ) (List ℕ)) (hr : toToRes (some r) = tryFrom bits t v)
    (htag : ∀ e, r = .error e → e.1 ≤ 1) :
    «from» bits t v = (match Ruint.Gen.uint_from_res bits (nlimbs bits) r with | some l => Ruint.Canon.Res.ok l | none => .panic)
    ∧ saturatingFrom bits t v = Ruint.Canon.Res.ok (Ruint.Gen.uint_saturating_from_res bits (nlimbs bits) r)
    ∧ wrappingFrom bits t v = Ruint.Canon.Res.ok (Ruint.Gen.uint_wrapping_from_res bits (nlimbs bits) r) :=
  ⟨Ruint.GenConv2.from_eq bits t v r hr, Ruint.GenConv2.saturatingFrom_eq_of_tag bits hN t v r hr htag,
   Ruint.GenConv2.wrappingFrom_eq_of_tag bits t v r hr htag⟩

open Ruint.GenConv in
theorem gen_to_family_eq (isBool : Bool) (t : Prim) (bits L : ℕ) (l : List ℕ) :
    Ruint.Gen.uint_wrapping_to_res bits L (toPat t (tryTo isBool t bits l)) = asUnsigned t.width (wrappingTo isBool t bits l)
    ∧ Ruint.Gen.uint_saturating_to_res bits L (toPat t (tryTo isBool t bits l)) = asUnsigned t.width (saturatingTo isBool t bits l) :=
  ⟨Ruint.GenConv2.wrapping_to_eq isBool t bits L l, Ruint.GenConv2.saturating_to_eq isBool t bits L l⟩

end Ruint.C07
