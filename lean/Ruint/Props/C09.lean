import Ruint.Lemmas.Radix
import Ruint.Lemmas.Fmt
import Ruint.Lemmas.Str
import Ruint.Lemmas.GenRadixBE
import Ruint.Lemmas.GenRadixLE
import Ruint.Lemmas.StrTable
import Ruint.Lemmas.GenStr
import Mathlib.Tactic.IntervalCases

/-!
# C09 — radix conversion, parsing and formatting agree with positional notation

Property theorems only. Every theorem quantifies over **all** widths `bits`, all values / digit lists / strings and
all bases in the stated range. The model functions (`Ruint.Radix.*`, `Ruint.Fmt.*`) are the ones the
correspondence driver executes against the real `Uint` methods. Positional notation is Mathlib's
`Nat.digits` / `Nat.ofDigits` (little-endian) and core's `Nat.toDigits` (text).
-/
namespace Ruint.C09
open Ruint Ruint.Radix Ruint.Fmt Ruint.Gen Ruint.Spec.Radix Ruint.Spec.Fmt

/-! ## digit iterators -/

/-- `to_base_le(base).collect()` yields exactly the base-`base` digits of the value, least significant first
    (no digits for zero), for every base `≥ 2`. -/
theorem to_base_le_spec (bits base v : ℕ) (hb : 2 ≤ base) (hv : v < 2 ^ bits) :
    toBaseLE bits base v = some (Nat.digits base v) := by
  have : base > 1 := by omega
  simp only [toBaseLE, this, if_true]
  rw [collect_eq base hb bits v hv]

/-- `to_base_be(base)` yields the same digits, most significant first. -/
theorem to_base_be_spec (bits base v : ℕ) (hb : 2 ≤ base) (hv : v < 2 ^ bits) :
    toBaseBE bits base v = some (Nat.digits base v).reverse := by
  have : base > 1 := by omega
  simp only [toBaseBE, this, if_true]
  rw [collect_eq base hb bits v hv]

/-- both iterators panic (`assert!(base > 1)`) for `base < 2`. -/
theorem to_base_panics (bits base v : ℕ) (hb : base < 2) :
    toBaseLE bits base v = none ∧ toBaseBE bits base v = none := by
  have : ¬ base > 1 := by omega
  simp [toBaseLE, toBaseBE, this]

/-- one call of `SpigotLittle::next` on the limb array (short division by a word with a `u128` remainder):
    `None` exactly when the number *before* the step is zero, else the digit `value mod base`; the state becomes
    `value / base`, again a well-formed limb array. For every base in `[2, 2^64)`. -/
theorem spigot_next_limbs_spec (base : ℕ) (hb : 2 ≤ base) (hbW : base < 2 ^ 64) (l : List ℕ) (hl : AllLt l) :
    (spigotNextLimbs base l).1 = (if val l = 0 then none else some (val l % base))
    ∧ val (spigotNextLimbs base l).2 = val l / base
    ∧ (spigotNextLimbs base l).2.length = l.length
    ∧ AllLt (spigotNextLimbs base l).2 :=
  spigotNextLimbs_spec base hb hbW l hl

/-- the limb-level spigot run to exhaustion yields `Nat.digits base (val l)`. -/
theorem spigot_limbs_digits (bits base : ℕ) (hb : 2 ≤ base) (hbW : base < 2 ^ 64) (l : List ℕ) (hl : Canon bits l) :
    collectLimbs base (bits + 1) l = Nat.digits base (val l) := by
  rw [collectLimbs_eq base hb hbW _ l hl.2.1, collect_eq base hb bits _ hl.2.2]

/-! ## `from_base_le` / `from_base_be` -/

/-- `from_base_le` returns `Ok v` exactly when every digit is `< base` and the digits denote `v < 2^bits`. -/
theorem from_base_le_ok_iff (bits base : ℕ) (hb : 2 ≤ base) (ds : List ℕ) (v : ℕ) :
    fromBaseLE bits base ds = .ok v ↔ (∀ d ∈ ds, d < base) ∧ Nat.ofDigits base ds = v ∧ v < 2 ^ bits := by
  rw [fromBaseLE_eq_ref bits base hb, refLE_ok_iff]
  simp only [sumFrom, Nat.zero_add, Nat.one_mul]
  constructor
  · rintro ⟨h1, h2, h3⟩
    refine ⟨h1, h2, ?_⟩
    by_cases hds : ds = []
    · subst hds; simp at h2; subst h2; positivity
    · exact h3 hds
  · rintro ⟨h1, h2, h3⟩
    exact ⟨h1, h2, fun _ => h3⟩

/-- all digits valid and the denoted value does not fit: `Overflow`. -/
theorem from_base_le_overflow (bits base : ℕ) (hb : 2 ≤ base) (ds : List ℕ) (hv : ∀ d ∈ ds, d < base)
    (h : 2 ^ bits ≤ Nat.ofDigits base ds) : fromBaseLE bits base ds = .error .overflow := by
  rw [fromBaseLE_eq_ref bits base hb]
  exact refLE_overflow bits base ds 0 1 (by positivity) hv (by simpa [sumFrom] using h)

/-- a digit `≥ base` after a valid prefix: `InvalidDigit(digit, base)` — unless the prefix alone already denotes a
    value `≥ 2^bits`, in which case the code has returned `Overflow` before reaching the digit
    (this is the precedence of the code; the property allows either error for an input wrong in two ways). -/
theorem from_base_le_invalid_digit (bits base : ℕ) (hb : 2 ≤ base) (pre : List ℕ) (d : ℕ) (post : List ℕ)
    (hv : ∀ x ∈ pre, x < base) (hd : base ≤ d) :
    fromBaseLE bits base (pre ++ d :: post) =
      if Nat.ofDigits base pre < 2 ^ bits then .error (.invalidDigit d base) else .error .overflow := by
  rw [fromBaseLE_eq_ref bits base hb, refLE_invalid bits base pre d post 0 1 (by positivity) hv hd]
  simp [sumFrom]

/-- `base < 2`: `InvalidBase`, whatever the digits. -/
theorem from_base_invalid_base (bits base : ℕ) (hb : base < 2) (ds : List ℕ) :
    fromBaseLE bits base ds = .error (.invalidBase base) ∧ fromBaseBE bits base ds = .error (.invalidBase base) := by
  simp [fromBaseLE, fromBaseBE, hb]

/-- `from_base_be` (limb-level Horner with the `u128` carry and the top-limb mask test) returns `Ok l` exactly when
    every digit is `< base` and `l` is the canonical limb array of the denoted value (which is then `< 2^bits`). -/
theorem from_base_be_ok_iff (bits base : ℕ) (hb : 2 ≤ base) (ds : List ℕ) (l : List ℕ) :
    fromBaseBE bits base ds = .ok l ↔
      (∀ d ∈ ds, d < base) ∧ Canon bits l ∧ val l = Nat.ofDigits base ds.reverse :=
  fromBaseBE_ok_iff bits base hb ds l

/-- all digits valid and the denoted value does not fit: `Overflow`. -/
theorem from_base_be_overflow (bits base : ℕ) (hb : 2 ≤ base) (ds : List ℕ) (hv : ∀ d ∈ ds, d < base)
    (h : 2 ^ bits ≤ Nat.ofDigits base ds.reverse) : fromBaseBE bits base ds = .error .overflow := by
  have hc := fromBaseBE_cases bits base hb ds
  have hr : refBE bits base ds 0 = .error .overflow :=
    refBE_overflow bits base ds 0 (by positivity) hv (by rw [hornerFrom_eq]; simpa using h)
  cases hf : fromBaseBE bits base ds with
  | error e => rw [hf] at hc; simp only at hc; rw [hr] at hc; injection hc with hc; rw [hc]
  | ok l => rw [hf] at hc; rw [hr] at hc; cases hc.2

/-- a digit `≥ base` after a valid prefix (big-endian): `InvalidDigit`, unless the prefix already overflowed. -/
theorem from_base_be_invalid_digit (bits base : ℕ) (hb : 2 ≤ base) (pre : List ℕ) (d : ℕ) (post : List ℕ)
    (hv : ∀ x ∈ pre, x < base) (hd : base ≤ d) :
    fromBaseBE bits base (pre ++ d :: post) =
      if Nat.ofDigits base pre.reverse < 2 ^ bits then .error (.invalidDigit d base) else .error .overflow := by
  have hc := fromBaseBE_cases bits base hb (pre ++ d :: post)
  have hr := refBE_invalid bits base (by omega) pre d post 0 (by positivity) hv hd
  rw [hornerFrom_eq] at hr
  simp only [Nat.zero_mul, Nat.zero_add] at hr
  by_cases hlt : Nat.ofDigits base pre.reverse < 2 ^ bits
  · simp only [hlt, if_true] at hr ⊢
    cases hf : fromBaseBE bits base (pre ++ d :: post) with
    | error e => rw [hf] at hc; simp only at hc; rw [hr] at hc; injection hc with hc; rw [hc]
    | ok l => rw [hf] at hc; rw [hr] at hc; cases hc.2
  · simp only [hlt, if_false] at hr ⊢
    cases hf : fromBaseBE bits base (pre ++ d :: post) with
    | error e => rw [hf] at hc; simp only at hc; rw [hr] at hc; injection hc with hc; rw [hc]
    | ok l => rw [hf] at hc; rw [hr] at hc; cases hc.2

/-- round trip: `from_base_le(base, to_base_le(base)) = Ok(self)`. -/
theorem from_base_le_to_base_le (bits base v : ℕ) (hb : 2 ≤ base) (hv : v < 2 ^ bits) :
    ∃ ds, toBaseLE bits base v = some ds ∧ fromBaseLE bits base ds = .ok v :=
  ⟨_, to_base_le_spec bits base v hb hv,
    (from_base_le_ok_iff bits base hb _ v).mpr
      ⟨fun _ hd => Nat.digits_lt_base (by omega) hd, Nat.ofDigits_digits base v, hv⟩⟩

/-- round trip: `from_base_be(base, to_base_be(base)) = Ok(self)` (as canonical limbs). -/
theorem from_base_be_to_base_be (bits base : ℕ) (hb : 2 ≤ base) (l : List ℕ) (hl : Canon bits l) :
    ∃ ds, toBaseBE bits base (val l) = some ds ∧ fromBaseBE bits base ds = .ok l :=
  ⟨_, to_base_be_spec bits base (val l) hb hl.2.2,
    (from_base_be_ok_iff bits base hb _ l).mpr
      ⟨fun _ hd => Nat.digits_lt_base (by omega) (List.mem_reverse.mp hd), hl,
        by rw [List.reverse_reverse, Nat.ofDigits_digits]⟩⟩

/-! ## `from_str_radix`, `FromStr` -/

/-- the code's two character tables are exactly the documented alphabets (`0-9a-z` case-insensitive with `_` ignored
    up to radix 36; `A-Z a-z 0-9`, `+`/`-` = 62, `/`/`,`/`_` = 63, `=`/CR/LF ignored above), for every radix and
    every Unicode character. -/
theorem alphabet_exact (radix : ℕ) (c : Char) : toCls (classify radix c) = docClass radix c :=
  classify_eq_doc radix c

/-- a string inside the alphabet is parsed as `from_base_be` of its documented digit values
    (so every `from_base_be` theorem above transfers to strings). -/
theorem from_str_radix_alphabet (bits radix : ℕ) (h64 : radix ≤ 64) (src : List Char) (ds : List ℕ)
    (hd : docDigits radix src = some ds) :
    fromStrRadix bits radix src =
      (match fromBaseBE bits radix ds with
       | .ok l => .ok l
       | .error e => .error (.base e)) := by
  have : ¬ radix > 64 := by omega
  simp only [fromStrRadix, this, if_false, scan_docDigits radix src ds hd]
  cases fromBaseBE bits radix ds <;> rfl

/-- `from_str_radix` returns `Ok` exactly for strings over the documented alphabet whose digits are all below the
    radix and whose denoted value fits; the result is the canonical limb array of that value. -/
theorem from_str_radix_ok_iff (bits radix : ℕ) (h2 : 2 ≤ radix) (h64 : radix ≤ 64) (src : List Char) (l : List ℕ) :
    fromStrRadix bits radix src = .ok l ↔
      ∃ ds, docDigits radix src = some ds ∧ (∀ d ∈ ds, d < radix) ∧ Canon bits l
        ∧ val l = Nat.ofDigits radix ds.reverse := by
  constructor
  · intro h
    cases hd : docDigits radix src with
    | some ds =>
      rw [from_str_radix_alphabet bits radix h64 src ds hd] at h
      cases hf : fromBaseBE bits radix ds with
      | error e => rw [hf] at h; cases h
      | ok l' =>
        rw [hf] at h
        injection h with h; subst h
        exact ⟨ds, rfl, (from_base_be_ok_iff bits radix h2 ds l').mp hf⟩
    | none =>
      exfalso
      obtain ⟨pre, ds, c, post, e1, e2, e3⟩ := docDigits_none radix src hd
      have : ¬ radix > 64 := by omega
      simp only [fromStrRadix, this, if_false, e1, scan_bad radix pre ds c post e2 e3] at h
      cases hf : fromBaseBE bits radix ds <;> rw [hf] at h <;> cases h
  · rintro ⟨ds, hd, hrest⟩
    rw [from_str_radix_alphabet bits radix h64 src ds hd, (from_base_be_ok_iff bits radix h2 ds l).mpr hrest]

/-- a string over the alphabet, digits below the radix, value `≥ 2^bits`: `Overflow`. -/
theorem from_str_radix_overflow (bits radix : ℕ) (h2 : 2 ≤ radix) (h64 : radix ≤ 64) (src : List Char) (ds : List ℕ)
    (hd : docDigits radix src = some ds) (hv : ∀ d ∈ ds, d < radix) (h : 2 ^ bits ≤ Nat.ofDigits radix ds.reverse) :
    fromStrRadix bits radix src = .error (.base .overflow) := by
  rw [from_str_radix_alphabet bits radix h64 src ds hd, from_base_be_overflow bits radix h2 ds hv h]

/-- a digit of the alphabet that is `≥ radix` (after digits that are valid): `InvalidDigit(digit, radix)` from
    `from_base_be` — or `Overflow` if the digits before it already overflow. -/
theorem from_str_radix_digit_ge_radix (bits radix : ℕ) (h2 : 2 ≤ radix) (h64 : radix ≤ 64) (src : List Char)
    (pre : List ℕ) (d : ℕ) (post : List ℕ) (hd : docDigits radix src = some (pre ++ d :: post))
    (hv : ∀ x ∈ pre, x < radix) (hge : radix ≤ d) :
    fromStrRadix bits radix src =
      .error (.base (if Nat.ofDigits radix pre.reverse < 2 ^ bits then .invalidDigit d radix else .overflow)) := by
  rw [from_str_radix_alphabet bits radix h64 src _ hd, from_base_be_invalid_digit bits radix h2 pre d post hv hge]
  by_cases hlt : Nat.ofDigits radix pre.reverse < 2 ^ bits <;> simp [hlt]

/-- the first character outside the alphabet: `InvalidDigit(char)` — unless `from_base_be` has already failed on the
    digits before it, whose error is returned first (`?` before the latch is read). -/
theorem from_str_radix_bad_char (bits radix : ℕ) (h64 : radix ≤ 64) (pre : List Char) (ds : List ℕ) (c : Char)
    (post : List Char) (hd : docDigits radix pre = some ds) (hc : docClass radix c = .bad) :
    fromStrRadix bits radix (pre ++ c :: post) =
      (match fromBaseBE bits radix ds with
       | .ok _ => .error (.invalidChar c)
       | .error e => .error (.base e)) := by
  have : ¬ radix > 64 := by omega
  simp only [fromStrRadix, this, if_false, scan_bad radix pre ds c post hd hc]
  cases fromBaseBE bits radix ds <;> rfl

/-- `radix > 64`: `InvalidRadix`; `radix < 2`: `from_base_be`'s `InvalidBase` (before any character is read). -/
theorem from_str_radix_bad_radix (bits radix : ℕ) (src : List Char) :
    (64 < radix → fromStrRadix bits radix src = .error (.invalidRadix radix))
    ∧ (radix < 2 → fromStrRadix bits radix src = .error (.base (.invalidBase radix))) := by
  constructor
  · intro h; simp [fromStrRadix, h]
  · intro h
    have : ¬ radix > 64 := by omega
    simp [fromStrRadix, this, fromBaseBE, h]

/-- `FromStr`: the `is_char_boundary(2)` / `split_at(2)` prefix sniffing is "leading `0x`/`0o`/`0b` (either case)
    selects radix 16/8/2 and is dropped, otherwise decimal", for every (also multi-byte) string. -/
theorem from_str_prefix (bits : ℕ) (src : List Char) :
    fromStr bits src = fromStrRadix bits (sniff src).2 (sniff src).1 :=
  fromStr_sniff bits src

/-! ## formatting -/

/-- the `(MAX, WIDTH)` rows regenerated from `src/fmt.rs` on this run satisfy `MAX = base^WIDTH`, `1 < MAX < 2^64`. -/
theorem fmt_table_ok : FmtTable.binary.Ok ∧ FmtTable.octal.Ok ∧ FmtTable.decimal.Ok ∧ FmtTable.hexadecimal.Ok :=
  ⟨FmtTable.binary_ok, FmtTable.octal_ok, FmtTable.decimal_ok, FmtTable.hexadecimal_ok⟩

/-- the digit text written by `write_digits!` (chunks of `to_base_be(MAX)`, first unpadded, the rest zero-padded to
    `WIDTH`) is the positional notation of the value in the trait's base — core's `Nat.toDigits`, upper-cased for
    `{:X}` — and it fits the `DisplayBuffer::<BITS>` (no panic), for every width and every non-zero value. -/
theorem fmt_body_spec (t : Trait) (bits v : ℕ) (h0 : 0 < v) (hv : v < 2 ^ bits) :
    body t bits v = some (digitText t v) := by
  have hrow := trait_row_ok t
  have hb := trait_base_ge t
  have hmax : 2 ≤ t.row.max := hrow.2.1
  unfold body
  rw [to_base_be_spec bits t.row.max v hmax hv]
  simp only
  rw [chunks_eq_txt t.row hrow hb t.upper v h0, txt_length]
  have hlen : (Nat.digits t.row.base v).length ≤ bits := by
    rw [Nat.digits_length_le_iff (by omega)]
    exact lt_of_lt_of_le hv (Nat.pow_le_pow_left hb bits)
  have : ¬ (Nat.digits t.row.base v).length > bits := by omega
  simp only [this, if_false]
  rw [digitText_eq t v h0]

/-- **formatting**: for every trait, every flag combination (`+`, `#`, `0`, fill, alignment, width), every width and
    value, `Uint` prints what a primitive integer of the same value prints: `pad_integral` applied to the prefix and
    the positional notation. -/
theorem fmt_spec (t : Trait) (s : Fmt.Spec) (bits v : ℕ) (hv : v < 2 ^ bits) :
    fmtUint t s bits v = some (specFmt t s v) := by
  obtain ⟨_, hp, _⟩ := trait_base t
  unfold fmtUint specFmt
  by_cases hz : nlimbs bits = 0 ∨ v = 0
  · have v0 : v = 0 := by
      rcases hz with h | h
      · have : bits = 0 := by unfold nlimbs at h; omega
        subst this; simpa using hv
      · exact h
    subst v0
    have : digitText t 0 = ['0'] := by
      cases t <;> simp [digitText, traitBase]
    simp [this, hp]
  · have h0 : 0 < v := by
      by_contra h; exact hz (Or.inr (by omega))
    simp only [hz, if_false, fmt_body_spec t bits v h0 hv, hp]

/-! ## non-vacuity: the hypotheses are met by concrete cases and the model computes what the code does -/

example : toBaseLE 64 10 123456789 = some [9, 8, 7, 6, 5, 4, 3, 2, 1] := by decide +kernel
example : toBaseBE 64 10 0 = some [] := by decide +kernel
example : collectLimbs 10000000000000000000 129 [0, 1] = [8446744073709551616, 1] := by decide +kernel
example : fromBaseBE 8 10 [2, 5, 5] = .ok [255] := by decide +kernel
example : fromBaseBE 8 10 [2, 5, 6] = .error .overflow := by decide +kernel
example : fromBaseBE 8 10 [2, 10] = .error (.invalidDigit 10 10) := by decide +kernel
example : fromBaseBE 8 10 [9, 9, 9, 10] = .error .overflow := by decide +kernel
example : fromBaseLE 8 16 [15, 15, 0, 0] = .ok 255 := by decide +kernel
example : fromBaseLE 8 16 [15, 15, 0, 1] = .error .overflow := by decide +kernel
example : fromBaseLE 8 16 [15, 15, 0, 16] = .error (.invalidDigit 16 16) := by decide +kernel
example : fromBaseLE 0 10 [0, 0] = .ok 0 := by decide +kernel
example : fromStrRadix 64 64 "g".toList = .ok [32] := by decide +kernel
example : fromStrRadix 64 10 "1_000".toList = .ok [1000] := by decide +kernel
example : fromStrRadix 8 10 "25!".toList = .error (.invalidChar '!') := by decide +kernel
example : fromStrRadix 8 10 "25x".toList = .error (.base (.invalidDigit 33 10)) := by decide +kernel
example : fromStrRadix 8 10 "999!".toList = .error (.base .overflow) := by decide +kernel
example : fromStr 64 "0xfF".toList = .ok [255] := by decide +kernel
example : fromStr 64 "1é".toList = .error (.invalidChar 'é') := by decide +kernel
example : fmtUint .lowerHex { alt := true, zero := true, width := some 10 } 64 255 = some "0x000000ff".toList := by
  decide +kernel
example : fmtUint .display { fill := '*', align := some .center, plus := true, width := some 30 } 128 10000000000000000001
    = some "****+10000000000000000001*****".toList := by decide +kernel

/-! ## whole functions regenerated from `src/base_convert.rs` (tools/rs2lean.py, `Gen/WordsRadix.lean`)

`from_base_be`, `from_base_le` and `SpigotLittle::next` as the Rust source defines them — translated on every run — are proved
equal to the models above for every width, every word base and every word digit string; the driver executes them. An error
of a generated function is (variant index in the declaration order of `BaseConvertError`, fields): `GenRadixBE.errT`. -/

theorem gen_from_base_be_eq (bits base : ℕ) (digits : List ℕ) (hN : nlimbs bits < 2 ^ 64) (hb : base < 2 ^ 64)
    (hd : Ruint.AllLt digits) (hl : digits.length < 2 ^ 64) (f : ℕ) (hf : nlimbs bits + digits.length < f) :
    Ruint.Gen.uint_from_base_be f bits (nlimbs bits) base digits
      = Ruint.GenRadixBE.mapErr (Ruint.Radix.fromBaseBE bits base digits) :=
  Ruint.GenRadixBE.from_base_be_eq bits base digits hN hb hd hl f hf

theorem gen_spigot_next_eq (base : ℕ) (limbs : List ℕ) (hb0 : 0 < base) (hb : base < 2 ^ 64) (hl : Ruint.AllLt limbs)
    (h64 : limbs.length < 2 ^ 64) (f : ℕ) (hf : limbs.length < f) :
    Ruint.Gen.spigot_next f base limbs
      = ((Ruint.Radix.spigotNextLimbs base limbs).2, (Ruint.Radix.spigotNextLimbs base limbs).1) :=
  Ruint.GenRadixBE.spigot_next_eq base limbs hb0 hb hl h64 f hf

/-- the generated `from_base_le` (limb level) refines the value-level model: same error, or a result with the model's value -/
theorem gen_from_base_le_eq (bits base : ℕ) (digits : List ℕ) (hN : nlimbs bits < 2 ^ 64) (hb : base < 2 ^ 64)
    (hd : Ruint.AllLt digits) (hl : digits.length < 2 ^ 64) (f : ℕ) (hf : nlimbs bits + digits.length + 1 < f) :
    Except.map Ruint.val (Ruint.Gen.uint_from_base_le f bits (nlimbs bits) base digits)
      = Ruint.GenRadixLE.mapErr (Ruint.Radix.fromBaseLE bits base digits) :=
  Ruint.GenRadixLE.from_base_le_eq bits base digits hN hb hd hl f hf

/-- … and every value it returns is canonical -/
theorem gen_from_base_le_canon (bits base : ℕ) (digits : List ℕ) (hN : nlimbs bits < 2 ^ 64) (hb : base < 2 ^ 64)
    (hd : Ruint.AllLt digits) (hl : digits.length < 2 ^ 64) (f : ℕ) (hf : nlimbs bits + digits.length + 1 < f) (r : List ℕ)
    (h : Ruint.Gen.uint_from_base_le f bits (nlimbs bits) base digits = .ok r) : Ruint.Canon bits r :=
  Ruint.GenRadixLE.from_base_le_canon bits base digits hN hb hd hl f hf r h

/-- the two `match c` tables of `from_str_radix` and its radix bounds, as extracted from `src/string.rs` on every run
    (`Gen/StrTable.lean`), interpreted row by row, classify every character at every radix exactly as the model's `classify`
    does — the function the parsing theorems above are about; `radixMax` is the model's bound 64. A changed, added, removed or
    reordered arm (such as the base-64 rows `'g'..'z'` that were once missing) breaks this obligation for every input at once. -/
theorem gen_classify_eq (radix : ℕ) (c : Char) :
    Ruint.StrTable.classifyT Ruint.Gen.StrTable.low Ruint.Gen.StrTable.high Ruint.Gen.StrTable.lowMax radix c = classify radix c
    ∧ Ruint.Gen.StrTable.radixMax = 64 :=
  ⟨Ruint.StrTable.classify_eq radix c, Ruint.StrTable.radixMax_eq⟩

/-! ## The exhaustive character sweep of the correspondence run

The driver's `sweep` operation compares implementation and model on **every** Unicode scalar value `c`, as the second
character of `"1c"` (`"Bc"` above radix 36: the digit 1 of that alphabet). It evaluates the model only on the characters
`classify` does not reject; for the others the model's outcome is this theorem (so the sweep's model column is the model's
output for every character). -/

theorem sweep_lead_ok (radix : ℕ) (h2 : 2 ≤ radix) (h64 : radix ≤ 64) : fromBaseBE 64 radix [1] = .ok [1] := by
  interval_cases radix <;> decide +kernel

theorem sweep_default_outcome (radix : ℕ) (h2 : 2 ≤ radix) (h64 : radix ≤ 64) (c : Char)
    (hc : classify radix c = .bad) :
    fromStrRadix 64 radix [if radix ≤ 36 then '1' else 'B', c] = .error (.invalidChar c) := by
  have hv := sweep_lead_ok radix h2 h64
  have h1 : classify radix (if radix ≤ 36 then '1' else 'B') = .digit 1 := by
    by_cases h : radix ≤ 36
    · simp only [h, if_true, classify]; decide
    · simp only [h, if_false, classify]; decide
  unfold fromStrRadix
  have hr : ¬ radix > 64 := by omega
  simp only [hr, if_false, scan, h1, hc, hv]

/-! ## Tie of `from_str_radix` and `FromStr::from_str` to the source (G)

`Ruint.Gen.uint_from_str_radix` / `uint_from_str` are regenerated from `src/string.rs` on every run. A `&str` is the list of its
code points; the character loop (`chars().filter_map(..)`, evaluated eagerly — DESIGN §0.2), both `match c` tables as `char`
range / literal / or-patterns, `u64::from(c)`, the `err` latch, `from_base_be(radix, digits)?` with the `From` conversion of its
error, `err.map_or(Ok(value), Err)`, and `from_str`'s `is_char_boundary(2)`, `split_at(2)` (a byte offset) and the match on the
string prefixes are the source's. They are the model parsers the theorems above are about — for every string and every radix a
`u64` can hold. (Error tuples: `(0, c, _, _)` = `InvalidDigit(c)`, `(1, r, _, _)` = `InvalidRadix(r)`, `(2, k, a, b)` =
`BaseConvertError` with `(k, a, b)` as in `gen_from_base_be_eq`.) -/

theorem gen_from_str_radix_eq (bits radix : ℕ) (hN : nlimbs bits < 2 ^ 64) (hr : radix < 2 ^ 64) (cs : List Char)
    (hl : cs.length < 2 ^ 64) (f : ℕ) (hf : nlimbs bits + cs.length + 1 < f) :
    Ruint.GenStr.toRes (Ruint.Gen.uint_from_str_radix f bits (nlimbs bits) (cs.map Char.toNat) radix)
      = fromStrRadix bits radix cs :=
  Ruint.GenStr.from_str_radix_eq bits radix hN hr cs hl f hf

theorem gen_from_str_eq (bits : ℕ) (hN : nlimbs bits < 2 ^ 64) (cs : List Char) (hl : cs.length < 2 ^ 64) (f : ℕ)
    (hf : nlimbs bits + cs.length + 1 < f) :
    Ruint.GenStr.toRes (Ruint.Gen.uint_from_str f bits (nlimbs bits) (cs.map Char.toNat)) = fromStr bits cs :=
  Ruint.GenStr.from_str_eq bits hN cs hl f hf

end Ruint.C09
