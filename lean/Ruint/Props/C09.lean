import Ruint.Lemmas.Radix
-- import Ruint.Lemmas.Fmt
-- import Ruint.Lemmas.Str

/-!
# C09 — radix conversion, parsing and formatting agree with positional notation

Property theorems only. Every theorem quantifies over **all** widths `bits`, all values / digit lists / strings and
all bases in the stated range. The model functions (`Ruint.Radix.*`, `Ruint.Fmt.*`) are the ones the
correspondence driver executes against the real `Uint` methods. Positional notation is Mathlib's
`Nat.digits` / `Nat.ofDigits` (little-endian) and core's `Nat.toDigits` (text).
-/
namespace Ruint.C09
open Ruint Ruint.Radix

/-! ## digit iterators -/

/-- `to_base_le(base).collect()` yields exactly the base-`base` digits of the value, least significant first
    (no digits for zero), for every base `≥ 2`. -/
theorem to_base_le_spec (bits base v : ℕ) (hb : 2 ≤ base) (hv : v < 2 ^ bits) :
    toBaseLE bits base v = some (Nat.digits base v) := by
  have : base > 1 := by omega
  simp only [toBaseLE, this, if_true]
  rw [collect_eq base hb bits v hv]

/-- `to_base_be(base)` yields the same digits, most significant first. -/
theorem to_base_be_spec (bits base v : ℕ) (hb : 2 ≤ base) (hv : v < 2 ^ bits) :
    toBaseBE bits base v = some (Nat.digits base v).reverse := by
  have : base > 1 := by omega
  simp only [toBaseBE, this, if_true]
  rw [collect_eq base hb bits v hv]

/-- both iterators panic (`assert!(base > 1)`) for `base < 2`. -/
theorem to_base_panics (bits base v : ℕ) (hb : base < 2) :
    toBaseLE bits base v = none ∧ toBaseBE bits base v = none := by
  have : ¬ base > 1 := by omega
  simp [toBaseLE, toBaseBE, this]

/-- one call of `SpigotLittle::next` on the limb array (short division by a word with a `u128` remainder):
    `None` exactly when the number *before* the step is zero, else the digit `value mod base`; the state becomes
    `value / base`, again a well-formed limb array. For every base in `[2, 2^64)`. -/
theorem spigot_next_limbs_spec (base : ℕ) (hb : 2 ≤ base) (hbW : base < 2 ^ 64) (l : List ℕ) (hl : AllLt l) :
    (spigotNextLimbs base l).1 = (if val l = 0 then none else some (val l % base))
    ∧ val (spigotNextLimbs base l).2 = val l / base
    ∧ (spigotNextLimbs base l).2.length = l.length
    ∧ AllLt (spigotNextLimbs base l).2 :=
  spigotNextLimbs_spec base hb hbW l hl

/-- the limb-level spigot run to exhaustion yields `Nat.digits base (val l)`. -/
theorem spigot_limbs_digits (bits base : ℕ) (hb : 2 ≤ base) (hbW : base < 2 ^ 64) (l : List ℕ) (hl : Canon bits l) :
    collectLimbs base (bits + 1) l = Nat.digits base (val l) := by
  rw [collectLimbs_eq base hb hbW _ l hl.2.1, collect_eq base hb bits _ hl.2.2]

/-! ## `from_base_le` / `from_base_be` -/

/-- `from_base_le` returns `Ok v` exactly when every digit is `< base` and the digits denote `v < 2^bits`. -/
theorem from_base_le_ok_iff (bits base : ℕ) (hb : 2 ≤ base) (ds : List ℕ) (v : ℕ) :
    fromBaseLE bits base ds = .ok v ↔ (∀ d ∈ ds, d < base) ∧ Nat.ofDigits base ds = v ∧ v < 2 ^ bits := by
  rw [fromBaseLE_eq_ref bits base hb, refLE_ok_iff]
  simp only [sumFrom, Nat.zero_add, Nat.one_mul]
  constructor
  · rintro ⟨h1, h2, h3⟩
    refine ⟨h1, h2, ?_⟩
    by_cases hds : ds = []
    · subst hds; simp at h2; subst h2; positivity
    · exact h3 hds
  · rintro ⟨h1, h2, h3⟩
    exact ⟨h1, h2, fun _ => h3⟩

/-- all digits valid and the denoted value does not fit: `Overflow`. -/
theorem from_base_le_overflow (bits base : ℕ) (hb : 2 ≤ base) (ds : List ℕ) (hv : ∀ d ∈ ds, d < base)
    (h : 2 ^ bits ≤ Nat.ofDigits base ds) : fromBaseLE bits base ds = .error .overflow := by
  rw [fromBaseLE_eq_ref bits base hb]
  exact refLE_overflow bits base ds 0 1 (by positivity) hv (by simpa [sumFrom] using h)

/-- a digit `≥ base` after a valid prefix: `InvalidDigit(digit, base)` — unless the prefix alone already denotes a
    value `≥ 2^bits`, in which case the code has returned `Overflow` before reaching the digit
    (this is the precedence of the code; the property allows either error for an input wrong in two ways). -/
theorem from_base_le_invalid_digit (bits base : ℕ) (hb : 2 ≤ base) (pre : List ℕ) (d : ℕ) (post : List ℕ)
    (hv : ∀ x ∈ pre, x < base) (hd : base ≤ d) :
    fromBaseLE bits base (pre ++ d :: post) =
      if Nat.ofDigits base pre < 2 ^ bits then .error (.invalidDigit d base) else .error .overflow := by
  rw [fromBaseLE_eq_ref bits base hb, refLE_invalid bits base pre d post 0 1 (by positivity) hv hd]
  simp [sumFrom]

/-- `base < 2`: `InvalidBase`, whatever the digits. -/
theorem from_base_invalid_base (bits base : ℕ) (hb : base < 2) (ds : List ℕ) :
    fromBaseLE bits base ds = .error (.invalidBase base) ∧ fromBaseBE bits base ds = .error (.invalidBase base) := by
  simp [fromBaseLE, fromBaseBE, hb]

/-- `from_base_be` (limb-level Horner with the `u128` carry and the top-limb mask test) returns `Ok l` exactly when
    every digit is `< base` and `l` is the canonical limb array of the denoted value (which is then `< 2^bits`). -/
theorem from_base_be_ok_iff (bits base : ℕ) (hb : 2 ≤ base) (ds : List ℕ) (l : List ℕ) :
    fromBaseBE bits base ds = .ok l ↔
      (∀ d ∈ ds, d < base) ∧ Canon bits l ∧ val l = Nat.ofDigits base ds.reverse := by
  have hc := fromBaseBE_cases bits base hb ds
  constructor
  · intro h
    rw [h] at hc
    obtain ⟨c, r⟩ := hc
    obtain ⟨r1, r2, _⟩ := (refBE_ok_iff bits base (by omega) ds 0 (val l)).mp r
    refine ⟨r1, c, ?_⟩
    rw [← r2, hornerFrom_eq]; simp
  · rintro ⟨h1, h2, h3⟩
    have hr : refBE bits base ds 0 = .ok (val l) :=
      (refBE_ok_iff bits base (by omega) ds 0 (val l)).mpr
        ⟨h1, by rw [hornerFrom_eq, h3]; simp, fun _ => h2.2.2⟩
    cases hf : fromBaseBE bits base ds with
    | error e => rw [hf] at hc; simp only at hc; rw [hr] at hc; cases hc
    | ok l' =>
      rw [hf] at hc
      obtain ⟨c, r⟩ := hc
      rw [hr] at r
      have : val l = val l' := by injection r
      rw [canon_ext bits l l' h2 c this]

/-- all digits valid and the denoted value does not fit: `Overflow`. -/
theorem from_base_be_overflow (bits base : ℕ) (hb : 2 ≤ base) (ds : List ℕ) (hv : ∀ d ∈ ds, d < base)
    (h : 2 ^ bits ≤ Nat.ofDigits base ds.reverse) : fromBaseBE bits base ds = .error .overflow := by
  have hc := fromBaseBE_cases bits base hb ds
  have hr : refBE bits base ds 0 = .error .overflow :=
    refBE_overflow bits base ds 0 (by positivity) hv (by rw [hornerFrom_eq]; simpa using h)
  cases hf : fromBaseBE bits base ds with
  | error e => rw [hf] at hc; simp only at hc; rw [hr] at hc; injection hc with hc; rw [hc]
  | ok l => rw [hf] at hc; rw [hr] at hc; cases hc.2

/-- a digit `≥ base` after a valid prefix (big-endian): `InvalidDigit`, unless the prefix already overflowed. -/
theorem from_base_be_invalid_digit (bits base : ℕ) (hb : 2 ≤ base) (pre : List ℕ) (d : ℕ) (post : List ℕ)
    (hv : ∀ x ∈ pre, x < base) (hd : base ≤ d) :
    fromBaseBE bits base (pre ++ d :: post) =
      if Nat.ofDigits base pre.reverse < 2 ^ bits then .error (.invalidDigit d base) else .error .overflow := by
  have hc := fromBaseBE_cases bits base hb (pre ++ d :: post)
  have hr := refBE_invalid bits base (by omega) pre d post 0 (by positivity) hv hd
  rw [hornerFrom_eq] at hr
  simp only [Nat.zero_mul, Nat.zero_add] at hr
  by_cases hlt : Nat.ofDigits base pre.reverse < 2 ^ bits
  · simp only [hlt, if_true] at hr ⊢
    cases hf : fromBaseBE bits base (pre ++ d :: post) with
    | error e => rw [hf] at hc; simp only at hc; rw [hr] at hc; injection hc with hc; rw [hc]
    | ok l => rw [hf] at hc; rw [hr] at hc; cases hc.2
  · simp only [hlt, if_false] at hr ⊢
    cases hf : fromBaseBE bits base (pre ++ d :: post) with
    | error e => rw [hf] at hc; simp only at hc; rw [hr] at hc; injection hc with hc; rw [hc]
    | ok l => rw [hf] at hc; rw [hr] at hc; cases hc.2

/-- round trip: `from_base_le(base, to_base_le(base)) = Ok(self)`. -/
theorem from_base_le_to_base_le (bits base v : ℕ) (hb : 2 ≤ base) (hv : v < 2 ^ bits) :
    ∃ ds, toBaseLE bits base v = some ds ∧ fromBaseLE bits base ds = .ok v :=
  ⟨_, to_base_le_spec bits base v hb hv,
    (from_base_le_ok_iff bits base hb _ v).mpr
      ⟨fun _ hd => Nat.digits_lt_base (by omega) hd, Nat.ofDigits_digits base v, hv⟩⟩

/-- round trip: `from_base_be(base, to_base_be(base)) = Ok(self)` (as canonical limbs). -/
theorem from_base_be_to_base_be (bits base : ℕ) (hb : 2 ≤ base) (l : List ℕ) (hl : Canon bits l) :
    ∃ ds, toBaseBE bits base (val l) = some ds ∧ fromBaseBE bits base ds = .ok l :=
  ⟨_, to_base_be_spec bits base (val l) hb hl.2.2,
    (from_base_be_ok_iff bits base hb _ l).mpr
      ⟨fun _ hd => Nat.digits_lt_base (by omega) (List.mem_reverse.mp hd), hl,
        by rw [List.reverse_reverse, Nat.ofDigits_digits]⟩⟩

end Ruint.C09
