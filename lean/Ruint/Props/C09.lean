import Ruint.Model.Radix
import Ruint.Model.Fmt
import Ruint.Spec.Radix

namespace Ruint.C09
open Ruint Ruint.Radix

/-- `base < 2` is `InvalidBase` (placeholder while the lemma files are being written). -/
theorem from_base_be_invalid_base (bits base : Nat) (ds : List Nat) (h : base < 2) :
    fromBaseBE bits base ds = .error (.invalidBase base) := by
  simp [fromBaseBE, h]

end Ruint.C09
