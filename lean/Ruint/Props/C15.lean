import Ruint.Model.MulKernels
import Ruint.Model.ShiftKernels
/-! # C15 — limb-slice kernels (placeholder; theorems follow) -/
namespace Ruint.C15
end Ruint.C15
