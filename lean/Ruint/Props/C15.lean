import Ruint.Lemmas.AddmulN
import Ruint.Lemmas.ShiftKernels
import Ruint.Lemmas.Add
import Ruint.Gen.AddmulN
import Ruint.Lemmas.GenCore
import Ruint.Lemmas.GenKernels
import Ruint.Lemmas.GenCmp
import Ruint.Lemmas.GenAddmul

/-!
# C15 — limb-slice multiply, accumulate, add, subtract, shift, compare kernels are exact

Property theorems only. The functions are the executable models of `Model/MulKernels.lean`
(`Ruint.Limb.*`, instantiated at the limb base `W = 2^64`) and `Model/ShiftKernels.lean`
(`Ruint.ShiftK.*`) — the ones the correspondence driver `Drv/C15.lean` runs against the real
`ruint::algorithms::*`. Every theorem holds for **all** slice lengths (`0..∞`, independently per
argument where the code allows it) and all limb contents (`AllLt` = every limb is a `u64`).
-/
namespace Ruint.C15
open Ruint Ruint.Limb Ruint.ShiftK

/-! ## `addmul`, `addmul_n` -/

/-- `addmul(lhs, a, b)`: for all three lengths and contents, the accumulator keeps its length, holds
    `(lhs + a·b) mod 2^(64·len)`, and the returned flag is true exactly when the true value
    `lhs + a·b` does not fit the accumulator. -/
theorem addmul_spec (lhs a b : List ℕ) (hl : AllLt lhs) :
    (addmul W lhs a b).1.length = lhs.length
    ∧ AllLt (addmul W lhs a b).1
    ∧ val (addmul W lhs a b).1 = (val lhs + val a * val b) % W ^ lhs.length
    ∧ ((addmul W lhs a b).2 = true ↔ W ^ lhs.length ≤ val lhs + val a * val b) := by
  obtain ⟨h1, h2, h3, h4⟩ := Limb.addmul_spec W two_le_W lhs a b hl
  simp only [valB_W] at h1 h3
  exact ⟨h2, h4, h1, h3⟩

/-- `addmul_n(lhs, a, b)`: the wrapping equal-length form — each unrolled body (1, 2, 3, 4 limbs)
    and the generic fall-through; unequal lengths hit the `assert_eq!` (`none` = panic). -/
theorem addmul_n_spec (lhs a b : List ℕ) (hl : AllLt lhs) :
    (lhs.length = a.length ∧ lhs.length = b.length →
      ∃ r, addmulN W lhs a b = some r ∧ r.length = lhs.length ∧ AllLt r
        ∧ val r = (val lhs + val a * val b) % W ^ lhs.length)
    ∧ (¬ (lhs.length = a.length ∧ lhs.length = b.length) → addmulN W lhs a b = none) := by
  obtain ⟨h1, h2⟩ := Limb.addmulN_spec W two_le_W lhs a b hl
  refine ⟨fun h => ?_, h2⟩
  obtain ⟨r, e1, e2, e3, e4⟩ := h1 h
  simp only [valB_W] at e3
  exact ⟨r, e1, e2, e4, e3⟩

/-! ## `mul_nx1`, `addmul_nx1`, `submul_nx1`, `add_nx1` -/

/-- `mul_nx1(lhs, a)`: `lhs' + W^n·carry = lhs·a`; result limbs and carry are words and are the
    low part / the exact carry word. -/
theorem mul_nx1_spec (lhs : List ℕ) (a : ℕ) (hl : AllLt lhs) (ha : a < W) :
    val (mulNx1 W lhs a).1 + W ^ lhs.length * (mulNx1 W lhs a).2 = val lhs * a
    ∧ (mulNx1 W lhs a).1.length = lhs.length ∧ AllLt (mulNx1 W lhs a).1 ∧ (mulNx1 W lhs a).2 < W
    ∧ val (mulNx1 W lhs a).1 = (val lhs * a) % W ^ lhs.length
    ∧ (mulNx1 W lhs a).2 = (val lhs * a) / W ^ lhs.length := by
  obtain ⟨h1, h2, h3⟩ := mulNx1Go_spec W W_pos lhs a 0
  have h4 := mulNx1Go_carry W lhs a 0 hl ha W_pos
  simp only [valB_W, Nat.add_zero] at h1
  unfold mulNx1
  have hlt := val_lt_pow _ h3
  rw [h2] at hlt
  obtain ⟨c1, c2⟩ := carry_form _ _ _ _ hlt h1
  exact ⟨h1, h2, h3, h4, c1, c2⟩

/-- `addmul_nx1(lhs, a, b)` (`|lhs| = |a|`): `lhs' + W^n·carry = lhs + a·b`. -/
theorem addmul_nx1_spec (lhs a : List ℕ) (b : ℕ) (h : lhs.length = a.length)
    (hl : AllLt lhs) (ha : AllLt a) (hb : b < W) :
    val (addmulNx1 W lhs a b).1 + W ^ lhs.length * (addmulNx1 W lhs a b).2 = val lhs + val a * b
    ∧ (addmulNx1 W lhs a b).1.length = lhs.length ∧ AllLt (addmulNx1 W lhs a b).1
    ∧ (addmulNx1 W lhs a b).2 < W
    ∧ val (addmulNx1 W lhs a b).1 = (val lhs + val a * b) % W ^ lhs.length
    ∧ (addmulNx1 W lhs a b).2 = (val lhs + val a * b) / W ^ lhs.length := by
  obtain ⟨h1, h2⟩ := addmulNx1Go_spec W lhs a b 0 h
  have h3 := addmulNx1Go_lt W W_pos lhs a b 0 hl
  have h4 := addmulNx1Go_carry W lhs a b 0 h hl ha hb W_pos
  simp only [valB_W, Nat.add_zero] at h1
  unfold addmulNx1
  have hlt := val_lt_pow _ h3
  rw [h2] at hlt
  obtain ⟨c1, c2⟩ := carry_form _ _ _ _ hlt h1
  exact ⟨h1, h2, h3, h4, c1, c2⟩

/-- `submul_nx1(lhs, a, b)` (`|lhs| = |a|`): `lhs' + a·b = lhs + W^n·ret`; the returned word
    (`borrow + carry`, which does not overflow) is exactly `⌈(a·b − lhs) / W^n⌉` (0 if `a·b ≤ lhs`). -/
theorem submul_nx1_spec (lhs a : List ℕ) (b : ℕ) (h : lhs.length = a.length)
    (hl : AllLt lhs) (ha : AllLt a) (hb : b < W) :
    val (submulNx1 W lhs a b).1 + val a * b = val lhs + W ^ lhs.length * (submulNx1 W lhs a b).2
    ∧ (submulNx1 W lhs a b).1.length = lhs.length ∧ AllLt (submulNx1 W lhs a b).1
    ∧ (submulNx1 W lhs a b).2 < W
    ∧ (submulNx1 W lhs a b).2 = (val a * b + W ^ lhs.length - 1 - val lhs) / W ^ lhs.length
    ∧ val (submulNx1 W lhs a b).1
        = val lhs + W ^ lhs.length * (submulNx1 W lhs a b).2 - val a * b := by
  obtain ⟨h1, h2, h3⟩ := submulNx1Go_spec W two_le_W lhs a b 0 0 h hl W_pos
  simp only [valB_W, Nat.add_zero] at h1
  unfold submulNx1
  have hlt := val_lt_pow _ h3
  rw [h2] at hlt
  have hlhs := val_lt_pow _ hl
  obtain ⟨c1, c2⟩ := borrow_form _ _ _ _ _ hlt hlhs h1
  refine ⟨h1, h2, h3, ?_, c1, c2⟩
  -- ret < W : W^n·ret ≤ lhs' + a·b < W^n + W^n·(W−1)
  have hav := val_lt_pow _ ha
  rw [← h] at hav
  generalize (submulNx1Go W lhs a b 0 0).2 = ret at *
  generalize val (submulNx1Go W lhs a b 0 0).1 = x at *
  generalize W ^ lhs.length = P at *
  by_contra hcon
  push Not at hcon
  have : P * W ≤ P * ret := Nat.mul_le_mul_left P hcon
  have : val a * b ≤ (P - 1) * (W - 1) := Nat.mul_le_mul (by omega) (by omega)
  have hP : 0 < P := by omega
  have hW := W_pos
  have e : (P - 1) * (W - 1) + P + (W - 1) = P * W := by
    obtain ⟨p, rfl⟩ : ∃ p, P = p + 1 := ⟨P - 1, by omega⟩
    obtain ⟨w, hw⟩ : ∃ w, W = w + 1 := ⟨W - 1, by omega⟩
    rw [hw]; simp only [Nat.add_sub_cancel]; ring
  omega

/-- `add_nx1(lhs, a)`: `lhs' + W^n·carry = lhs + a` (both early exits included). -/
theorem add_nx1_spec (lhs : List ℕ) (a : ℕ) (hl : AllLt lhs) :
    val (addNx1 W lhs a).1 + W ^ lhs.length * (addNx1 W lhs a).2 = val lhs + a
    ∧ (addNx1 W lhs a).1.length = lhs.length ∧ AllLt (addNx1 W lhs a).1
    ∧ val (addNx1 W lhs a).1 = (val lhs + a) % W ^ lhs.length
    ∧ (addNx1 W lhs a).2 = (val lhs + a) / W ^ lhs.length := by
  obtain ⟨h1, h2⟩ := addNx1_spec W lhs a
  have h3 := addNx1_lt W W_pos lhs a hl
  simp only [valB_W] at h1
  have hlt := val_lt_pow _ h3
  rw [h2] at hlt
  obtain ⟨c1, c2⟩ := carry_form _ _ _ _ hlt h1
  exact ⟨h1, h2, h3, c1, c2⟩

/-! ## `adc_n`, `sbb_n`, `adc`, `sbb`, `carrying_add`, `borrowing_sub` -/

/-- `adc_n(lhs, rhs, carry)` for **any** carry word: `lhs' + W^n·carry' = lhs + rhs[..n] + carry`;
    it panics (index out of bounds, `none`) exactly when `rhs` is shorter than `lhs`. -/
theorem adc_n_spec (lhs rhs : List ℕ) (carry : ℕ) :
    (lhs.length ≤ rhs.length →
      ∃ r, adcN W lhs rhs carry = some r
        ∧ val r.1 + W ^ lhs.length * r.2 = val lhs + val (rhs.take lhs.length) + carry
        ∧ r.1.length = lhs.length ∧ AllLt r.1
        ∧ val r.1 = (val lhs + val (rhs.take lhs.length) + carry) % W ^ lhs.length
        ∧ r.2 = (val lhs + val (rhs.take lhs.length) + carry) / W ^ lhs.length)
    ∧ (rhs.length < lhs.length ↔ adcN W lhs rhs carry = none) := by
  refine ⟨fun h => ?_, (adcN_none W lhs rhs carry).symm⟩
  obtain ⟨r, e, h1, h2, h3⟩ := adcN_spec W W_pos lhs rhs carry h
  simp only [valB_W] at h1
  have hlt := val_lt_pow _ h3
  rw [h2] at hlt
  obtain ⟨c1, c2⟩ := carry_form _ _ _ _ hlt h1
  exact ⟨r, e, h1, h2, h3, c1, c2⟩

/-- `sbb_n(lhs, rhs, borrow)` for **any** borrow word: `lhs' + rhs[..n] + borrow = lhs + W^n·borrow'`,
    i.e. `borrow' = ⌈(rhs + borrow − lhs)/W^n⌉` (0 if no borrow); panics exactly when `rhs` is shorter. -/
theorem sbb_n_spec (lhs rhs : List ℕ) (borrow : ℕ) (hl : AllLt lhs) (hr : AllLt rhs)
    (hb : borrow < W) :
    (lhs.length ≤ rhs.length →
      ∃ r, sbbN W lhs rhs borrow = some r
        ∧ val r.1 + val (rhs.take lhs.length) + borrow = val lhs + W ^ lhs.length * r.2
        ∧ r.1.length = lhs.length ∧ AllLt r.1 ∧ r.2 < W
        ∧ r.2 = (val (rhs.take lhs.length) + borrow + W ^ lhs.length - 1 - val lhs) / W ^ lhs.length
        ∧ val r.1 = val lhs + W ^ lhs.length * r.2 - (val (rhs.take lhs.length) + borrow))
    ∧ (rhs.length < lhs.length ↔ sbbN W lhs rhs borrow = none) := by
  refine ⟨fun h => ?_, (sbbN_none W lhs rhs borrow).symm⟩
  obtain ⟨r, e, h1, h2, h3, h4⟩ :=
    sbbN_spec W two_le_W lhs rhs borrow h hl (fun y hy => hr y (List.mem_of_mem_take hy)) hb
  simp only [valB_W] at h1
  have hlt := val_lt_pow _ h3
  rw [h2] at hlt
  have hlhs := val_lt_pow _ hl
  obtain ⟨c1, c2⟩ := borrow_form (W ^ lhs.length) (val r.1) (val lhs)
    (val (rhs.take lhs.length) + borrow) r.2 hlt hlhs (by omega)
  exact ⟨r, e, h1, h2, h3, h4, c1, c2⟩

/-- `adc`: `(lhs + rhs + carry)` split into low word and carry word (any carry word). -/
theorem adc_word_spec (l r c : ℕ) :
    (adc W l r c).1 = (l + r + c) % W ∧ (adc W l r c).2 = (l + r + c) / W := ⟨rfl, rfl⟩

/-- `sbb` on words (any borrow word): `low + rhs + borrow = lhs + W·out`, `out ∈ {0,1,2}`. -/
theorem sbb_word_spec (l r c : ℕ) (hl : l < W) (hr : r < W) (hc : c < W) :
    (sbb W l r c).1 + r + c = l + W * (sbb W l r c).2 ∧ (sbb W l r c).1 < W
    ∧ (sbb W l r c).2 ≤ 2 ∧ (c ≤ 1 → (sbb W l r c).2 ≤ 1) := by
  obtain ⟨h1, h2, h3, _, h5⟩ := Limb.sbb_spec W l r c two_le_W hl hr hc
  exact ⟨h1, h2, h3, h5⟩

/-- `carrying_add`: `r + W·carry' = lhs + rhs + carry`. -/
theorem carrying_add_spec (a b : ℕ) (c : Bool) (ha : a < W) (hb : b < W) :
    (Add.carryingAdd a b c).1 + W * (Add.carryingAdd a b c).2.toNat = a + b + c.toNat
    ∧ (Add.carryingAdd a b c).1 < W := Add.carryingAdd_spec a b c ha hb

/-- `borrowing_sub`: `r + rhs + borrow = lhs + W·borrow'`. -/
theorem borrowing_sub_spec (a b : ℕ) (c : Bool) (ha : a < W) (hb : b < W) :
    (Add.borrowingSub a b c).1 + b + c.toNat = a + W * (Add.borrowingSub a b c).2.toNat
    ∧ (Add.borrowingSub a b c).1 < W := Add.borrowingSub_spec a b c ha hb

/-! ## `shift_left_small`, `shift_right_small` (all `amount < 64`, including 0 — after the fix) -/

/-- `shift_left_small(limbs, amount)`: `limbs' + W^n·out = limbs · 2^amount`: the shifted limbs
    and exactly the bits shifted out of the top. -/
theorem shift_left_small_spec (limbs : List ℕ) (amount : ℕ) (h : amount < 64) (hx : AllLt limbs) :
    val (shlSmall limbs amount).1 + W ^ limbs.length * (shlSmall limbs amount).2
      = val limbs * 2 ^ amount
    ∧ (shlSmall limbs amount).1.length = limbs.length ∧ AllLt (shlSmall limbs amount).1
    ∧ val (shlSmall limbs amount).1 = (val limbs * 2 ^ amount) % W ^ limbs.length
    ∧ (shlSmall limbs amount).2 = (val limbs * 2 ^ amount) / W ^ limbs.length := by
  obtain ⟨h1, h2, h3, _⟩ := shlSmall_spec limbs amount h hx
  have hlt := val_lt_pow _ h2
  rw [h3] at hlt
  obtain ⟨c1, c2⟩ := carry_form _ _ _ _ hlt h1
  exact ⟨h1, h3, h2, c1, c2⟩

/-- `shift_right_small(limbs, amount)`: the limbs of `⌊limbs / 2^amount⌋` and the `amount` bits
    shifted out of the bottom, left-aligned in the returned word. -/
theorem shift_right_small_spec (limbs : List ℕ) (amount : ℕ) (h : amount < 64) (hx : AllLt limbs) :
    val (shrSmall limbs amount).1 = val limbs / 2 ^ amount
    ∧ (shrSmall limbs amount).2 = (val limbs % 2 ^ amount) * 2 ^ (64 - amount)
    ∧ (shrSmall limbs amount).1.length = limbs.length ∧ AllLt (shrSmall limbs amount).1 := by
  obtain ⟨h1, h2, h3, h4⟩ := shrSmall_spec limbs amount h hx
  exact ⟨h1, h2, h4, h3⟩

/-- The defect that was fixed: the original loops evaluated `x >> 64` for `amount = 0` (a panic
    under overflow checks), although `0 < 64` meets the stated precondition. -/
theorem shift_small_orig_amount0_fails :
    shlSmallOrig [1, 2] 0 = none ∧ shrSmallOrig [1, 2] 0 = none := by decide

/-! ## `cmp` -/

/-- `cmp` orders equal-length slices as the integers they denote. -/
theorem cmp_spec (l r : List ℕ) (h : l.length = r.length) (hl : AllLt l) (hr : AllLt r) :
    Limb.cmp l r = compare (val l) (val r) := by
  unfold Limb.cmp
  rw [cmpLimbs_spec W l r h hl hr, valB_W, valB_W, h]
  cases compare (val l) (val r) <;> simp

/-- `cmp` as written, for any two lengths: the common low `min` limbs decide (as integers); only
    if they are equal does the length comparison decide. -/
theorem cmp_any_length (l r : List ℕ) (hl : AllLt l) (hr : AllLt r) :
    Limb.cmp l r = (compare (val (l.take (min l.length r.length))) (val (r.take (min l.length r.length)))).then
      (compare l.length r.length) := by
  unfold Limb.cmp
  rw [cmpLimbs_take, cmpLimbs_spec W _ _ (by simp) (fun y hy => hl y (List.mem_of_mem_take hy))
    (fun y hy => hr y (List.mem_of_mem_take hy)), valB_W, valB_W]
  cases compare (val _) (val _) <;> simp [Ordering.then]

/-! ## generated facts (G): the unrolled bodies as re-extracted from `src/algorithms/mul.rs` on this run

`Ruint/Gen/AddmulN.lean` is rewritten from the current source by `tools/props/c15.py: translate` before
every build. These theorems tie the *source text* of `addmul_1..4` (which limb each `mac` targets, which
operand limbs it multiplies, where the carry goes) to the specification, independently of any sampled
input: a changed index or a dropped carry in the source breaks the proof. -/

theorem gen_addmul1_spec (l0 a0 b0 : ℕ) (hl : AllLt [l0]) :
    (Gen.AddmulN.addmul1 W l0 a0 b0).length = 1 ∧ AllLt (Gen.AddmulN.addmul1 W l0 a0 b0)
    ∧ val (Gen.AddmulN.addmul1 W l0 a0 b0) = (val [l0] + val [a0] * val [b0]) % W ^ 1 := by
  have e : Gen.AddmulN.addmul1 W l0 a0 b0 = mulLow W [l0] [a0] [b0] := by
    simp [Gen.AddmulN.addmul1, mulLow, addmulNx1Go, mac, Nat.mul_comm]
  obtain ⟨m1, m2, m3⟩ := mulLow_mod W W_pos [l0] [a0] [b0] (by simp) hl
  simp only [valB_W] at m1
  rw [e]; exact ⟨m2, m3, m1⟩

theorem gen_addmul2_spec (l0 l1 a0 a1 b0 b1 : ℕ) (hl : AllLt [l0, l1]) :
    (Gen.AddmulN.addmul2 W l0 l1 a0 a1 b0 b1).length = 2
    ∧ AllLt (Gen.AddmulN.addmul2 W l0 l1 a0 a1 b0 b1)
    ∧ val (Gen.AddmulN.addmul2 W l0 l1 a0 a1 b0 b1)
        = (val [l0, l1] + val [a0, a1] * val [b0, b1]) % W ^ 2 := by
  have e : Gen.AddmulN.addmul2 W l0 l1 a0 a1 b0 b1 = mulLow W [l0, l1] [a0, a1] [b0, b1] := by
    simp [Gen.AddmulN.addmul2, mulLow, addmulNx1Go, mac, Nat.mul_comm]
  obtain ⟨m1, m2, m3⟩ := mulLow_mod W W_pos [l0, l1] [a0, a1] [b0, b1] (by simp) hl
  simp only [valB_W] at m1
  rw [e]; exact ⟨m2, m3, m1⟩

theorem gen_addmul3_spec (l0 l1 l2 a0 a1 a2 b0 b1 b2 : ℕ) (hl : AllLt [l0, l1, l2]) :
    (Gen.AddmulN.addmul3 W l0 l1 l2 a0 a1 a2 b0 b1 b2).length = 3
    ∧ AllLt (Gen.AddmulN.addmul3 W l0 l1 l2 a0 a1 a2 b0 b1 b2)
    ∧ val (Gen.AddmulN.addmul3 W l0 l1 l2 a0 a1 a2 b0 b1 b2)
        = (val [l0, l1, l2] + val [a0, a1, a2] * val [b0, b1, b2]) % W ^ 3 := by
  have e : Gen.AddmulN.addmul3 W l0 l1 l2 a0 a1 a2 b0 b1 b2
      = mulLow W [l0, l1, l2] [a0, a1, a2] [b0, b1, b2] := by
    simp [Gen.AddmulN.addmul3, mulLow, addmulNx1Go, mac, Nat.mul_comm]
  obtain ⟨m1, m2, m3⟩ := mulLow_mod W W_pos [l0, l1, l2] [a0, a1, a2] [b0, b1, b2] (by simp) hl
  simp only [valB_W] at m1
  rw [e]; exact ⟨m2, m3, m1⟩

theorem gen_addmul4_spec (l0 l1 l2 l3 a0 a1 a2 a3 b0 b1 b2 b3 : ℕ) (hl : AllLt [l0, l1, l2, l3]) :
    (Gen.AddmulN.addmul4 W l0 l1 l2 l3 a0 a1 a2 a3 b0 b1 b2 b3).length = 4
    ∧ AllLt (Gen.AddmulN.addmul4 W l0 l1 l2 l3 a0 a1 a2 a3 b0 b1 b2 b3)
    ∧ val (Gen.AddmulN.addmul4 W l0 l1 l2 l3 a0 a1 a2 a3 b0 b1 b2 b3)
        = (val [l0, l1, l2, l3] + val [a0, a1, a2, a3] * val [b0, b1, b2, b3]) % W ^ 4 := by
  have e : Gen.AddmulN.addmul4 W l0 l1 l2 l3 a0 a1 a2 a3 b0 b1 b2 b3
      = mulLow W [l0, l1, l2, l3] [a0, a1, a2, a3] [b0, b1, b2, b3] := by
    simp [Gen.AddmulN.addmul4, mulLow, addmulNx1Go, mac, Nat.mul_comm]
  obtain ⟨m1, m2, m3⟩ :=
    mulLow_mod W W_pos [l0, l1, l2, l3] [a0, a1, a2, a3] [b0, b1, b2, b3] (by simp) hl
  simp only [valB_W] at m1
  rw [e]; exact ⟨m2, m3, m1⟩

/-- the lengths `addmul_n` sends to an unrolled body are exactly the arms the model has. -/
theorem gen_dispatch : Gen.AddmulN.unrolledLengths = [1, 2, 3, 4] := rfl

/-! ## Tie of the word primitives `adc` / `sbb` to the source (G)

`Ruint.Gen.adc` / `Ruint.Gen.sbb` (and the `DoubleWord` helpers they call) are regenerated from
`src/algorithms/ops.rs` / `mod.rs` by `tools/rs2lean.py` on every run. On words they equal the
model's `adc` / `sbb`, so the chain theorems above are about what the source says now. The proofs
are semantic (`rs_norm` + `omega`): neutral rewrites of the Rust functions keep them valid. -/

theorem gen_adc_eq (l r c : ℕ) (hl : l < W) (hr : r < W) (hc : c < W) :
    Ruint.Gen.adc l r c = adc W l r c := by
  unfold Ruint.Gen.adc Ruint.Gen.dw_split Ruint.Gen.dw_low Ruint.Gen.dw_high adc
  rs_norm
  unfold W at *
  refine Prod.ext ?_ ?_ <;> simp only <;> omega

theorem gen_sbb_eq (l r c : ℕ) (hl : l < W) (hr : r < W) (hc : c < W) :
    Ruint.Gen.sbb l r c = sbb W l r c := by
  unfold Ruint.Gen.sbb Ruint.Gen.dw_low Ruint.Gen.dw_high sbb
  rs_norm
  unfold W at *
  refine Prod.ext ?_ ?_ <;> simp only <;> omega

/-- the generated `adc`/`sbb` meet the word contracts directly (independent of the model). -/
theorem gen_adc_spec (a b c : ℕ) (ha : a < W) (hb : b < W) (hc : c < W) :
    (Ruint.Gen.adc a b c).1 + W * (Ruint.Gen.adc a b c).2 = a + b + c
    ∧ (Ruint.Gen.adc a b c).1 < W ∧ (Ruint.Gen.adc a b c).2 < W :=
  Ruint.GenCore.adc_spec a b c ha hb hc

theorem gen_sbb_spec (a b c : ℕ) (ha : a < W) (hb : b < W) (hc : c < W) :
    (Ruint.Gen.sbb a b c).1 + b + c = a + W * (Ruint.Gen.sbb a b c).2
    ∧ (Ruint.Gen.sbb a b c).1 < W ∧ (Ruint.Gen.sbb a b c).2 < W :=
  Ruint.GenCore.sbb_spec a b c ha hb hc

/-! ## Whole-kernel tie of the slice kernels to the source (G)

`Ruint.Gen.adc_n`, `sbb_n` (`src/algorithms/add.rs`), `add_nx1` (both early exits), `mul_nx1`, `addmul_nx1`, `submul_nx1`
(`mul.rs`), `shift_left_small`, `shift_right_small` (`shift.rs`, the reversed iterator) are regenerated by `tools/rs2lean.py`
on every run — the complete functions, `for i in 0..lhs.len()` as an index loop with `lhs[i]` reads and writes and the `&mut` slice returned next to the
carry. On word slices with `|lhs| ≤ |rhs|` the models `adcN` / `sbbN` of `adc_n_spec` / `sbb_n_spec` EQUAL them. -/

theorem gen_adc_n_eq (lhs rhs : List ℕ) (c : ℕ) (hl : lhs.length ≤ rhs.length) (hn : lhs.length < 2 ^ 64)
    (hwl : AllLt lhs) (hwr : AllLt rhs) (hc : c < W) :
    adcN W lhs rhs c = some (Ruint.Gen.adc_n (lhs.length + 1) lhs rhs c) :=
  Ruint.GenKernels.adc_n_eq lhs rhs c hl hn hwl hwr hc

theorem gen_sbb_n_eq (lhs rhs : List ℕ) (c : ℕ) (hl : lhs.length ≤ rhs.length) (hn : lhs.length < 2 ^ 64)
    (hwl : AllLt lhs) (hwr : AllLt rhs) (hc : c < W) :
    sbbN W lhs rhs c = some (Ruint.Gen.sbb_n (lhs.length + 1) lhs rhs c) :=
  Ruint.GenKernels.sbb_n_eq lhs rhs c hl hn hwl hwr hc

theorem gen_add_nx1_eq (lhs : List ℕ) (a : ℕ) (hn : lhs.length < 2 ^ 64) (hw : AllLt lhs) (ha : a < W) :
    Ruint.Gen.add_nx1 (lhs.length + 1) lhs a = addNx1 W lhs a :=
  Ruint.GenKernels.add_nx1_eq lhs a hn hw ha

theorem gen_mul_nx1_eq (lhs : List ℕ) (a : ℕ) (hn : lhs.length < 2 ^ 64) (hw : AllLt lhs) (ha : a < W) :
    Ruint.Gen.mul_nx1 (lhs.length + 1) lhs a = mulNx1 W lhs a :=
  Ruint.GenKernels.mul_nx1_eq lhs a hn hw ha

theorem gen_addmul_nx1_eq (lhs a : List ℕ) (b : ℕ) (hl : lhs.length = a.length) (hn : a.length < 2 ^ 64)
    (hwl : AllLt lhs) (hwa : AllLt a) (hb : b < W) :
    Ruint.Gen.addmul_nx1 (a.length + 1) lhs a b = addmulNx1 W lhs a b :=
  Ruint.GenKernels.addmul_nx1_eq lhs a b hl hn hwl hwa hb

/-- `submul_nx1`: the generated function returns `borrow + carry` as a `u64` sum; it equals the model's plain sum
    because that sum is a word (`submul_nx1_spec`). -/
theorem gen_submul_nx1_eq (lhs a : List ℕ) (b : ℕ) (hl : lhs.length = a.length) (hn : a.length < 2 ^ 64)
    (hwl : AllLt lhs) (hwa : AllLt a) (hb : b < W) :
    Ruint.Gen.submul_nx1 (a.length + 1) lhs a b = submulNx1 W lhs a b := by
  rw [Ruint.GenKernels.submul_nx1_eq' lhs a b hl hn hwl hwa hb]
  have h := (submul_nx1_spec lhs a b hl hwl hwa hb).2.2.2.1
  have e : (submulNx1 W lhs a b).2 % 2 ^ 64 = (submulNx1 W lhs a b).2 := Nat.mod_eq_of_lt h
  rw [e]

theorem gen_shift_left_small_eq (limbs : List ℕ) (amount : ℕ) (ham : amount ≤ 64) (hn : limbs.length < 2 ^ 64) :
    Ruint.Gen.shift_left_small (limbs.length + 1) limbs amount = shlSmall limbs amount :=
  Ruint.GenKernels.shift_left_small_eq limbs amount ham hn

theorem gen_shift_right_small_eq (limbs : List ℕ) (amount : ℕ) (ham : amount ≤ 64) (hn : limbs.length < 2 ^ 64) :
    Ruint.Gen.shift_right_small (limbs.length + 1) limbs amount = shrSmall limbs amount :=
  Ruint.GenKernels.shift_right_small_eq limbs amount ham hn

/-! ## non-vacuity: concrete branch witnesses evaluated by the kernel -/

-- short-window arm + early carry: 1-limb accumulator, 2×2-limb product overflows
example : addmul W [5] [W - 1, W - 1] [W - 1, 1] = ([6], true) := by decide +kernel
-- trimming advances the window past zero low limbs; product lands exactly on the top limb
example : addmul W [7, 8, 9] [0, 3] [0, 4] = ([7, 8, 21], false) := by decide +kernel
-- zero-trimmed operand exhausts the window: overflow although the accumulator is untouched
example : addmul W [7] [0, 3] [4] = ([7], true) := by decide +kernel
-- exact fit on the boundary `W^2 - 1`
example : addmul W [W - 1, 0] [W - 1] [W - 1] = ([0, W - 1], false) := by decide +kernel
example : addmulN W [1, 2] [W - 1, W - 1] [W - 1, W - 1] = some [2, 2] := by decide +kernel
example : submulNx1 W [0, 0] [W - 1, W - 1] (W - 1) = ([W - 1, 0], W - 1) := by decide +kernel
example : shlSmall [1 <<< 63, 1] 1 = ([0, 3], 0) ∧ shrSmall [1, 1] 1 = ([1 <<< 63, 0], 1 <<< 63) := by
  decide +kernel
example : Limb.cmp [5] [3, 0] = .gt := by decide +kernel

/-- **`algorithms::cmp` as generated from `src/algorithms/mod.rs`** (common-prefix slicing, downward loop, the `match` on
    `i8::from(>) - i8::from(<)` with its early returns, final length comparison) equals the model for ALL pairs of slices
    (any two lengths, any limbs); the driver runs the generated function. -/
theorem gen_cmp_eq (l r : List ℕ) (h64 : min l.length r.length < 2 ^ 64) (f : ℕ) (hf : min l.length r.length < f) :
    Ruint.Gen.limb_cmp f l r = Ruint.Limb.cmp l r :=
  Ruint.GenCmp.limb_cmp_eq' l r h64 f hf

/-- **`algorithms::addmul` as generated from `src/algorithms/mul.rs`** — the four `while let` trimming loops with their slice
    patterns, the re-borrowing of `lhs` (`lhs = rest`, `lhs = &mut lhs[1..]`: translated as a window plus the limbs already
    in front of it), the operand swap, the `for &b in b` loop with `split_at_mut`, the short-window arm and its `break`, over
    the generated `addmul_nx1` / `add_nx1` — equals the model for ALL slice lengths on word limbs; the driver runs it. -/
theorem gen_addmul_eq (lhs a b : List ℕ) (hwl : AllLt lhs) (hwa : AllLt a) (hwb : AllLt b)
    (hl64 : lhs.length < 2 ^ 64) (ha64 : a.length < 2 ^ 64) (hb64 : b.length < 2 ^ 64)
    (fuel : ℕ) (hf : lhs.length + a.length + b.length < fuel) :
    Ruint.Gen.addmul fuel lhs a b = addmul W lhs a b :=
  Ruint.GenAddmul.addmul_eq lhs a b hwl hwa hwb hl64 ha64 hb64 fuel hf

end Ruint.C15
