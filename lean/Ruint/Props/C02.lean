import Ruint.Lemmas.InvRing
import Ruint.Lemmas.GenMulWrap
import Ruint.Lemmas.GenInvRing
import Ruint.Gen.InvRingConsts
import Ruint.Lemmas.GenUintModMul
import Ruint.Lemmas.GenBinOps
import Ruint.Lemmas.GenFolds

/-!
# C02 — multiplication is exact: wrapping, overflow flag, widening product, ring inverse

Property theorems only. Every theorem quantifies over **all** widths `bits` (and all pairs
`(bits, bitsRhs)` for the widening product), including 0, 1 and non-multiples of 64, and all canonical
operands. The functions are the executable models of `Model/Mul.lean` (`Ruint.Mul.*`, built on the
limb kernels `Ruint.Limb.addmul` / `addmulN` of C15 at base `W = 2^64`) — the ones the correspondence
driver `Drv/C02.lean` runs against the real `Uint` methods and operators.
-/
namespace Ruint.C02
open Ruint Ruint.Mul Ruint.Add

/-- `overflowing_mul`: canonical result, value `a·b mod 2^bits`, flag iff `a·b ≥ 2^bits`
    (flag = `addmul`'s overflow OR bits of the top limb above the mask, as in `mul.rs`). -/
theorem overflowing_mul_spec (bits : ℕ) (a b : List ℕ) (ha : Canon bits a) (hb : Canon bits b) :
    Canon bits (overflowingMul bits a b).1
    ∧ val (overflowingMul bits a b).1 = (val a * val b) % 2 ^ bits
    ∧ ((overflowingMul bits a b).2 = true ↔ 2 ^ bits ≤ val a * val b) :=
  overflowingMul_spec bits a b ha hb

/-- `wrapping_mul` (and `*`, `*=` in all six operand shapes, which delegate to it): `addmul_n` path
    with the unrolled 1–4 limb bodies; canonical result with value `a·b mod 2^bits`. -/
theorem wrapping_mul_spec (bits : ℕ) (a b : List ℕ) (ha : Canon bits a) (hb : Canon bits b) :
    Canon bits (wrappingMul bits a b) ∧ val (wrappingMul bits a b) = (val a * val b) % 2 ^ bits :=
  wrappingMul_spec bits a b ha hb

/-- the two multiplication kernels agree: `wrapping_mul` is the value of `overflowing_mul`. -/
theorem wrapping_eq_overflowing (bits : ℕ) (a b : List ℕ) (ha : Canon bits a) (hb : Canon bits b) :
    wrappingMul bits a b = (overflowingMul bits a b).1 := by
  obtain ⟨w1, w2⟩ := wrappingMul_spec bits a b ha hb
  obtain ⟨o1, o2, _⟩ := overflowingMul_spec bits a b ha hb
  exact canon_ext bits _ _ w1 o1 (by rw [w2, o2])

/-- `checked_mul = Some(a·b)` exactly when the true product fits, `None` otherwise. -/
theorem checked_mul_spec (bits : ℕ) (a b : List ℕ) (ha : Canon bits a) (hb : Canon bits b) :
    (val a * val b < 2 ^ bits →
      ∃ r, checkedMul bits a b = some r ∧ Canon bits r ∧ val r = val a * val b)
    ∧ (2 ^ bits ≤ val a * val b → checkedMul bits a b = none) := by
  obtain ⟨h1, h2, h3⟩ := overflowingMul_spec bits a b ha hb
  unfold checkedMul
  generalize overflowingMul bits a b = r at *
  obtain ⟨v, f⟩ := r
  cases f
  · simp only at h1 h2 h3 ⊢
    have hlt : val a * val b < 2 ^ bits := by
      by_contra hc; have := h3.2 (by omega); simp at this
    exact ⟨fun _ => ⟨v, rfl, h1, by rw [h2, Nat.mod_eq_of_lt hlt]⟩, fun h => by omega⟩
  · simp only at h3 ⊢
    have := h3.1 trivial
    exact ⟨fun h => by omega, fun _ => by simp⟩

/-- `saturating_mul = min(a·b, 2^bits − 1)`. -/
theorem saturating_mul_spec (bits : ℕ) (a b : List ℕ) (ha : Canon bits a) (hb : Canon bits b) :
    Canon bits (saturatingMul bits a b)
    ∧ val (saturatingMul bits a b) = min (val a * val b) (2 ^ bits - 1) := by
  obtain ⟨h1, h2, h3⟩ := overflowingMul_spec bits a b ha hb
  unfold saturatingMul
  generalize overflowingMul bits a b = r at *
  obtain ⟨v, f⟩ := r
  cases f
  · simp only at h1 h2 h3 ⊢
    have hlt : val a * val b < 2 ^ bits := by
      by_contra hc; have := h3.2 (by omega); simp at this
    exact ⟨h1, by rw [h2, Nat.mod_eq_of_lt hlt]; omega⟩
  · simp only at h3 ⊢
    have := h3.1 trivial
    exact ⟨(max_canon bits).1, by rw [(max_canon bits).2]; omega⟩

/-- `widening_mul`: for **every** pair of widths the result is the full integer product, canonical
    at width `bits + bitsRhs` (so the code's `debug_assert!` on the top limb holds), and the kernel
    never reports overflow. -/
theorem widening_mul_spec (bits bitsRhs : ℕ) (a b : List ℕ) (ha : Canon bits a)
    (hb : Canon bitsRhs b) :
    Canon (bits + bitsRhs) (wideningMul bits bitsRhs a b)
    ∧ val (wideningMul bits bitsRhs a b) = val a * val b :=
  ⟨(wideningMul_spec bits bitsRhs a b ha hb).1, (wideningMul_spec bits bitsRhs a b ha hb).2.1⟩

/-- `widening_mul` as written, with its two `assert_eq!`s on the const-generic arguments: it returns
    (the product) exactly when `BITS_RES = BITS + BITS_RHS` and `LIMBS_RES = nlimbs(BITS_RES)`. -/
theorem widening_mul_generic (bits bitsRhs bitsRes limbsRes : ℕ) (a b : List ℕ) :
    (bitsRes = bits + bitsRhs ∧ limbsRes = nlimbs bitsRes →
      wideningMulG bits bitsRhs bitsRes limbsRes a b = some (wideningMul bits bitsRhs a b))
    ∧ (¬ (bitsRes = bits + bitsRhs ∧ limbsRes = nlimbs bitsRes) →
      wideningMulG bits bitsRhs bitsRes limbsRes a b = none) := by
  constructor
  · rintro ⟨h1, h2⟩
    subst h1; subst h2
    simp [wideningMulG, wideningMul, zero]
  · intro h
    have : bitsRes ≠ bits + bitsRhs ∨ limbsRes ≠ nlimbs bitsRes := by
      by_contra hc; push Not at hc; exact h hc
    simp [wideningMulG, this]

/-- `inv_ring`: `Some(r)` with `a·r ≡ 1 (mod 2^bits)`, `r` canonical, exactly when `bits > 0` and `a`
    is odd; `None` otherwise. -/
theorem inv_ring_spec (bits : ℕ) (a : List ℕ) (ha : Canon bits a) :
    (0 < bits ∧ val a % 2 = 1 →
      ∃ r, invRing bits a = some r ∧ Canon bits r ∧ (val a * val r) % 2 ^ bits = 1 % 2 ^ bits)
    ∧ (¬ (0 < bits ∧ val a % 2 = 1) → invRing bits a = none) :=
  invRing_spec bits a ha

/-- the statement's "exactly": an inverse is returned iff `bits > 0 ∧ a` odd. -/
theorem inv_ring_some_iff (bits : ℕ) (a : List ℕ) (ha : Canon bits a) :
    (∃ r, invRing bits a = some r) ↔ (0 < bits ∧ val a % 2 = 1) := by
  obtain ⟨h1, h2⟩ := invRing_spec bits a ha
  constructor
  · rintro ⟨r, hr⟩
    by_contra hc
    rw [h2 hc] at hr
    simp at hr
  · intro h
    obtain ⟨r, hr, _⟩ := h1 h
    exact ⟨r, hr⟩

/-- no even value has an inverse at all, so `None` is the only correct answer there. -/
theorem even_has_no_inverse (bits a r : ℕ) (hb : 0 < bits) (ha : a % 2 = 0) :
    (a * r) % 2 ^ bits ≠ 1 % 2 ^ bits := by
  intro h
  have h2 : 2 ∣ 2 ^ bits := dvd_pow_self 2 (by omega)
  have h1 : 1 % 2 ^ bits = 1 := by
    apply Nat.mod_eq_of_lt
    calc 1 < 2 ^ 1 := by norm_num
      _ ≤ 2 ^ bits := Nat.pow_le_pow_right (by norm_num) hb
  rw [h1] at h
  have := Nat.mod_mod_of_dvd (a * r) h2
  rw [h] at this
  have h3 : (a * r) % 2 = 0 := by rw [Nat.mul_mod, ha]; simp
  omega

/-- iterator `Product` equals the wrapped mathematical product (`ZERO` at width 0). -/
theorem product_spec (bits : ℕ) (l : List (List ℕ)) (hl : ∀ x ∈ l, Canon bits x) :
    Canon bits (product bits l) ∧ val (product bits l) = (l.map val).prod % 2 ^ bits := by
  unfold product
  rcases Nat.eq_zero_or_pos bits with h0 | hpos
  · subst h0
    simp only [if_true]
    exact ⟨(zero_canon 0).1, by rw [(zero_canon 0).2]; simp [Nat.mod_one]⟩
  · have hne : bits ≠ 0 := by omega
    simp only [hne, if_false]
    have h1 : 1 < 2 ^ bits := by
      calc 1 < 2 ^ 1 := by norm_num
        _ ≤ 2 ^ bits := Nat.pow_le_pow_right (by norm_num) hpos
    have hone : Canon bits (one bits) ∧ val (one bits) = 1 :=
      ⟨canon_toLimbs bits 1 h1, val_toLimbs_of_lt bits 1 h1⟩
    have key : ∀ (l : List (List ℕ)) (acc : List ℕ), (∀ x ∈ l, Canon bits x) → Canon bits acc →
        Canon bits (l.foldl (wrappingMul bits) acc)
        ∧ val (l.foldl (wrappingMul bits) acc) = (val acc * (l.map val).prod) % 2 ^ bits := by
      intro l
      induction l with
      | nil =>
        intro acc _ hacc
        exact ⟨hacc, by simp [Nat.mod_eq_of_lt hacc.val_lt]⟩
      | cons x xs ih =>
        intro acc hx hacc
        obtain ⟨w1, w2⟩ := wrappingMul_spec bits acc x hacc (hx x (by simp))
        obtain ⟨i1, i2⟩ := ih (wrappingMul bits acc x) (fun y hy => hx y (by simp [hy])) w1
        refine ⟨i1, ?_⟩
        simp only [List.foldl_cons, List.map_cons, List.prod_cons]
        rw [i2, w2, Nat.mod_mul_mod, Nat.mul_assoc]
    have := key l (one bits) hl hone.1
    rw [hone.2, Nat.one_mul] at this
    exact this

/-! ## generated facts (G): the first-limb block of `inv_ring` as re-extracted from `src/mul.rs` on this run

`Ruint/Gen/InvRingConsts.lean` is rewritten from the current source (`W2`, `W3`, the seed expression, the
number of `inv *= W2 - n * inv` lines) by `tools/props/c02.py: translate` before every build. A changed
constant or a dropped Newton step breaks this proof even if no sampled input notices (in release builds
the `debug_assert_eq!` that would catch it is compiled out). -/
theorem gen_inv64_correct (n : ℕ) (hodd : n % 2 = 1) : (n * Gen.InvRing.inv64 n) % W = 1 := by
  have e : Gen.InvRing.inv64 n = Mul.inv64 n := rfl
  rw [e]; exact inv64_correct n hodd

/-! Non-vacuity: concrete non-trivial instances evaluated by the kernel. -/
-- U65: 2^64 · 2^64 overflows through the kernel flag (result limbs zero)
example : overflowingMul 65 [0, 1] [0, 1] = ([0, 0], true) := by decide +kernel
-- U65: (2^64+1)·1 fits; 2^63 · 4 = 2^65 overflows only through the masked top limb
example : overflowingMul 65 [1 <<< 63, 0] [4, 0] = ([0, 0], true) := by decide +kernel
example : wideningMul 2 3 [3] [7] = [21] := by decide +kernel
example : invRing 8 [3] = some [171] ∧ invRing 8 [2] = none ∧ invRing 0 [] = none := by decide +kernel
example : invRing 128 [3, 0] = some [0xaaaaaaaaaaaaaaab, 0xaaaaaaaaaaaaaaaa] := by decide +kernel

/-! ## Tie of the `Uint` multiplication methods to the source (G)

`Ruint.Gen.uint_overflowing_mul`, `uint_wrapping_mul`, `uint_checked_mul`, `uint_saturating_mul` are regenerated from
`src/mul.rs` on every run: `Self::ZERO`, the call of `algorithms::addmul` on `&mut result.limbs` (the callee is
`Ruint.Gen.addmul`, itself regenerated from `algorithms/mul.rs` and proved equal to the C15 model; `addmul_n` — unrolled macro
bodies — is the C15 model function), the `BITS > 0` guard, the flag `|= limbs[LIMBS-1] > MASK`, `apply_mask()`, the
`match` of the checked / saturating forms. They equal the models of the theorems above; the driver runs them. -/

theorem gen_overflowing_mul_eq (bits : ℕ) (hN : nlimbs bits < 2 ^ 62) (a b : List ℕ) (ha : Canon bits a) (hb : Canon bits b) :
    Ruint.Gen.uint_overflowing_mul (3 * nlimbs bits + 1) bits (nlimbs bits) a b = overflowingMul bits a b :=
  Ruint.GenMulWrap.overflowing_mul_eq bits hN a b ha.1 hb.1 ha.2.1 hb.2.1

theorem gen_wrapping_mul_eq (bits : ℕ) (hN : nlimbs bits < 2 ^ 64) (a b : List ℕ) (ha : Canon bits a) (hb : Canon bits b) :
    Ruint.Gen.uint_wrapping_mul bits (nlimbs bits) a b = wrappingMul bits a b :=
  Ruint.GenMulWrap.wrapping_mul_eq bits hN a b ha.1 hb.1

theorem gen_checked_saturating_mul_eq (bits : ℕ) (hN : nlimbs bits < 2 ^ 62) (a b : List ℕ) (ha : Canon bits a)
    (hb : Canon bits b) :
    Ruint.Gen.uint_checked_mul (3 * nlimbs bits + 1) bits (nlimbs bits) a b = checkedMul bits a b
    ∧ Ruint.Gen.uint_saturating_mul (3 * nlimbs bits + 1) bits (nlimbs bits) a b = saturatingMul bits a b :=
  ⟨Ruint.GenMulWrap.checked_mul_eq bits hN a b ha.1 hb.1 ha.2.1 hb.2.1,
   Ruint.GenMulWrap.saturating_mul_eq bits hN a b ha.1 hb.1 ha.2.1 hb.2.1⟩

/-- **`Uint::inv_ring` as generated from the source** (guard, the `Wrapping<u64>` seed block with its four Newton steps, the
    doubling loop `result *= Self::from(2) - self * result` — the `Uint` operators read as `wrapping_mul` / `wrapping_sub` —,
    `apply_mask`) equals the model; the driver runs it. -/
theorem gen_inv_ring_eq (bits : ℕ) (hN : nlimbs bits < 2 ^ 63) (a : List ℕ) (ha : Canon bits a) :
    Ruint.Gen.uint_inv_ring (nlimbs bits + 1) bits (nlimbs bits) a = invRing bits a :=
  Ruint.GenInvRing.inv_ring_eq bits hN a ha.1

/-- `widening_mul` as regenerated from `src/mul.rs` (both `assert_eq!`s: `none` = panic; the generated `addmul` into a zero
    result of the caller-chosen limb count) equals the model of `widening_mul_generic`, for all four const parameters. -/
theorem gen_widening_mul_eq (bits bitsRhs bitsRes limbsRes : ℕ) (hB : bits + bitsRhs + 63 < 2 ^ 64) (a b : List ℕ)
    (ha : Ruint.AllLt a) (hb : Ruint.AllLt b) (hla : a.length < 2 ^ 64) (hlb : b.length < 2 ^ 64) (f : ℕ)
    (hlen : limbsRes + a.length + b.length < f) :
    Ruint.Gen.uint_widening_mul f bitsRhs (nlimbs bitsRhs) bitsRes limbsRes bits (nlimbs bits) a b
      = Ruint.Mul.wideningMulG bits bitsRhs bitsRes limbsRes a b :=
  Ruint.GenUintMod.widening_mul_eq bits bitsRhs bitsRes limbsRes hB a b ha hb hla hlb f hlen

/-- the six operator shapes of `*` (`impl_bin_op!`, regenerated from `src/macros.rs`) are `wrapping_mul` on the same operands. -/
theorem gen_mul_operator_shapes (bits L : Nat) (a b : List Nat) :
    Ruint.Gen.op_mul_assign_val bits L a b = Ruint.Gen.uint_wrapping_mul bits L a b
      ∧ Ruint.Gen.op_mul_assign_ref bits L a b = Ruint.Gen.uint_wrapping_mul bits L a b
      ∧ Ruint.Gen.op_mul_val_val bits L a b = Ruint.Gen.uint_wrapping_mul bits L a b
      ∧ Ruint.Gen.op_mul_val_ref bits L a b = Ruint.Gen.uint_wrapping_mul bits L a b
      ∧ Ruint.Gen.op_mul_ref_val bits L a b = Ruint.Gen.uint_wrapping_mul bits L a b
      ∧ Ruint.Gen.op_mul_ref_ref bits L a b = Ruint.Gen.uint_wrapping_mul bits L a b :=
  Ruint.GenBinOps.mul_shapes bits L a b

/-- iterator `Product` (by value and by reference: the `BITS == 0` shortcut, `iter.fold(Self::ONE, Self::wrapping_mul)`) as
    regenerated from `src/mul.rs` equals the model of `product_spec` on every list of canonical values. -/
theorem gen_product_eq (bits : ℕ) (hN : nlimbs bits < 2 ^ 64) (l : List (List ℕ)) (hl : ∀ x ∈ l, Canon bits x) :
    Ruint.Gen.uint_product bits (nlimbs bits) l = product bits l
    ∧ Ruint.Gen.uint_product_ref bits (nlimbs bits) l = product bits l := by
  have key : (if (bits == 0) = true then List.replicate (nlimbs bits) 0
      else List.foldl (fun acc_ x_ => Ruint.Gen.uint_wrapping_mul bits (nlimbs bits) acc_ x_)
        (Ruint.toLimbs (nlimbs bits) (1 % 2 ^ bits)) l) = product bits l := by
    unfold product
    by_cases h0 : bits = 0
    · subst h0; rfl
    · have hb : (bits == 0) = false := by simpa using h0
      have h1 : 1 % 2 ^ bits = 1 := Nat.mod_eq_of_lt (Nat.one_lt_two_pow h0)
      simp only [hb, h0, if_false, Bool.false_eq_true, h1]
      have hone : Canon bits (one bits) := Ruint.canon_toLimbs bits 1 (Nat.one_lt_two_pow h0)
      exact Ruint.GenFolds.foldl_congr_canon (Canon bits) _ _
        (fun a x ha hx => (wrapping_mul_spec bits a x ha hx).1)
        (fun a x ha hx => Ruint.GenMulWrap.wrapping_mul_eq bits hN a x ha.1 hx.1)
        l (one bits) hone hl
  exact ⟨key, key⟩

end Ruint.C02
