import Ruint.Model.Mul
/-! # C02 — multiplication (placeholder; theorems follow) -/
namespace Ruint.C02
end Ruint.C02
