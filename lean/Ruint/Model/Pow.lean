import Ruint.Base
/-!
# Model of `src/pow.rs` (C13) — L2 model (DESIGN §3.3a)

Values are naturals `< 2^bits`. The control structure of the Rust code is mirrored (same loop, same
two overflow flags, same early exit for `BITS == 0`); each body operation is the value-level
specification of the `Uint` operation it calls:

* `overflowing_mul a b = (a*b mod 2^bits, 2^bits ≤ a*b)`   (C02)
* `wrapping_mul a b   = a*b mod 2^bits`
* `exp.bit(0)` = `exp % 2 = 1`, `exp >>= 1` = `exp / 2`, `exp.is_zero()` = `exp = 0`   (C05/C06)

Core Lean only: the correspondence driver executes exactly these functions.
-/
namespace Ruint.Pow

/-- outcome of an operation that can panic (`fuel` = the model's loop fuel ran out; the theorems
    show it never happens with the fuel the entry points pass). -/
inductive Res (α : Type) where
  | ok : α → Res α
  | panic : Res α
  | fuel : Res α
deriving DecidableEq, Repr

/-- value-level spec of `overflowing_mul` with modulus `m = 2^bits`. -/
def omul (m a b : Nat) : Nat × Bool := (a * b % m, decide (m ≤ a * b))

/-- the loop of `overflowing_pow`; state: `self` (running base), `exp`, `result`, `overflow`,
    `base_overflow`. -/
def loop (m : Nat) : Nat → Nat → Nat → Nat → Bool → Bool → Nat × Bool
  | 0, _, _, result, ov, _ => (result, ov)
  | fuel + 1, base, exp, result, ov, bov =>
      if exp = 0 then (result, ov) else
        -- `if exp.bit(0) { (r, o) = result.overflowing_mul(self); overflow |= o | base_overflow }`
        let p : Nat × Bool :=
          if exp % 2 = 1 then
            let r := omul m result base
            (r.1, ov || r.2 || bov)
          else (result, ov)
        -- `(s, o) = self.overflowing_mul(self); base_overflow |= o; exp >>= 1`
        let s := omul m base base
        loop m fuel s.1 (exp / 2) p.1 p.2 (bov || s.2)

/-- `Uint::overflowing_pow`. `BITS == 0` returns `(self, false)`; `Self::ONE = 1` otherwise. -/
def overflowingPow (bits a e : Nat) : Nat × Bool :=
  if bits = 0 then (a, false) else loop (2 ^ bits) (e + 1) a e 1 false false

/-- the loop of `wrapping_pow`. -/
def wloop (m : Nat) : Nat → Nat → Nat → Nat → Nat
  | 0, _, _, result => result
  | fuel + 1, base, exp, result =>
      if exp = 0 then result else
        let r := if exp % 2 = 1 then result * base % m else result
        wloop m fuel (base * base % m) (exp / 2) r

/-- `Uint::wrapping_pow` (and `pow`, which forwards to it). -/
def wrappingPow (bits a e : Nat) : Nat :=
  if bits = 0 then a else wloop (2 ^ bits) (e + 1) a e 1

def pow (bits a e : Nat) : Nat := wrappingPow bits a e

/-- `Uint::checked_pow`. -/
def checkedPow (bits a e : Nat) : Option Nat :=
  match overflowingPow bits a e with
  | (x, false) => some x
  | (_, true) => none

/-- `Uint::saturating_pow` (`Self::MAX = 2^bits − 1`). -/
def saturatingPow (bits a e : Nat) : Nat :=
  match overflowingPow bits a e with
  | (x, false) => x
  | (_, true) => 2 ^ bits - 1

/-! ### independent executable spec used by the driver's spec column

`a^e` cannot be computed for a 4096-bit exponent; `specPow` returns `(a^e mod m, min (a^e) m)` by a
most-significant-bit-first square-and-multiply in which the true value is tracked **saturated at `m`**
(a different algorithm from the code's least-significant-bit-first loop with two flags).
`Lemmas/C13Spec.lean` proves `specPow m a e = (a^e % m, min (a^e) m)`. -/

def specStep (m a : Nat) (vc : Nat × Nat) (b : Bool) : Nat × Nat :=
  let v := vc.1 * vc.1 % m
  let c := min (vc.2 * vc.2) m
  if b then (v * a % m, min (c * a) m) else (v, c)

def specGo (m a e : Nat) : Nat → Nat × Nat → Nat × Nat
  | 0, s => s
  | i + 1, s => specGo m a e i (specStep m a s ((e / 2 ^ i) % 2 == 1))

def specPow (m a e : Nat) : Nat × Nat := specGo m a e (Nat.log2 e + 1) (1 % m, min 1 m)

/-! ### `approx_pow2`: integer post-processing

libm is not modelled: `approx_pow2(exp)` computes `bits = (exp.fract().exp2() * 2^63) as u64` and
`shift = exp.trunc()`; everything after that is integer arithmetic and is mirrored here
(`try_from`, `checked_shl` with the repaired C05 flag semantics, the round-to-nearest right shift). -/

/-- the integer part of `approx_pow2` after `bits` (`mant`, a `u64`) and `shift` are known. -/
def approxPow2Post (bits mant shift : Nat) : Option Nat :=
  if shift ≥ 63 then
    -- `Self::try_from(bits).ok()?.checked_shl(shift - 63)?`
    if mant < 2 ^ bits then
      let v := mant * 2 ^ (shift - 63)
      if v < 2 ^ bits then some v else none
    else none
  else
    -- `(bits >> shift') + ((bits >> (shift' - 1)) & 1)`, `shift' = 63 - shift`; `Self::try_from(..).ok()`
    let sh := 63 - shift
    let b := mant / 2 ^ sh + (mant / 2 ^ (sh - 1)) % 2
    if b < 2 ^ bits then some b else none

/-- `approx_pow2(n as f64)` for an integer `n`: the float comparisons `exp < ln2(1.5)`, `exp < -1.0`,
    `exp > BITS` on an integer-valued `exp`, `fract = 0`, `exp2(0) = 1` hence `bits = 2^63`. -/
def approxPow2Int (bits : Nat) (n : Int) : Option Nat :=
  if n ≤ 0 then
    if n < -1 then some 0
    else if 1 < 2 ^ bits then some 1 else none       -- `Self::try_from(1).ok()`
  else if n > (bits : Int) then none
  else approxPow2Post bits (2 ^ 63) n.toNat

end Ruint.Pow
