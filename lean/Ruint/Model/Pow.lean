import Ruint.Base
/-!
# Model of `src/pow.rs` (C13) — L2 model (DESIGN §3.3a)

Values are naturals `< 2^bits`. The control structure of the Rust code is mirrored (same loop, same
two overflow flags, same early exit for `BITS == 0`); each body operation is the value-level
specification of the `Uint` operation it calls:

* `overflowing_mul a b = (a*b mod 2^bits, 2^bits ≤ a*b)`   (C02)
* `wrapping_mul a b   = a*b mod 2^bits`
* `exp.bit(0)` = `exp % 2 = 1`, `exp >>= 1` = `exp / 2`, `exp.is_zero()` = `exp = 0`   (C05/C06)

Core Lean only: the correspondence driver executes exactly these functions.
-/
namespace Ruint.Pow

/-- outcome of an operation that can panic (`fuel` = the model's loop fuel ran out; the theorems
    show it never happens with the fuel the entry points pass). -/
inductive Res (α : Type) where
  | ok : α → Res α
  | panic : Res α
  | fuel : Res α
deriving DecidableEq, Repr

/-- value-level spec of `overflowing_mul` with modulus `m = 2^bits`. -/
def omul (m a b : Nat) : Nat × Bool := (a * b % m, decide (m ≤ a * b))

/-- the loop of `overflowing_pow`; state: `self` (running base), `exp`, `result`, `overflow`,
    `base_overflow`. -/
def loop (m : Nat) : Nat → Nat → Nat → Nat → Bool → Bool → Nat × Bool
  | 0, _, _, result, ov, _ => (result, ov)
  | fuel + 1, base, exp, result, ov, bov =>
      if exp = 0 then (result, ov) else
        -- `if exp.bit(0) { (r, o) = result.overflowing_mul(self); overflow |= o | base_overflow }`
        let p : Nat × Bool :=
          if exp % 2 = 1 then
            let r := omul m result base
            (r.1, ov || r.2 || bov)
          else (result, ov)
        -- `(s, o) = self.overflowing_mul(self); base_overflow |= o; exp >>= 1`
        let s := omul m base base
        loop m fuel s.1 (exp / 2) p.1 p.2 (bov || s.2)

/-- `Uint::overflowing_pow`. `BITS == 0` returns `(self, false)`; `Self::ONE = 1` otherwise. -/
def overflowingPow (bits a e : Nat) : Nat × Bool :=
  if bits = 0 then (a, false) else loop (2 ^ bits) (e + 1) a e 1 false false

/-- the loop of `wrapping_pow`. -/
def wloop (m : Nat) : Nat → Nat → Nat → Nat → Nat
  | 0, _, _, result => result
  | fuel + 1, base, exp, result =>
      if exp = 0 then result else
        let r := if exp % 2 = 1 then result * base % m else result
        wloop m fuel (base * base % m) (exp / 2) r

/-- `Uint::wrapping_pow` (and `pow`, which forwards to it). -/
def wrappingPow (bits a e : Nat) : Nat :=
  if bits = 0 then a else wloop (2 ^ bits) (e + 1) a e 1

def pow (bits a e : Nat) : Nat := wrappingPow bits a e

/-- `Uint::checked_pow`. -/
def checkedPow (bits a e : Nat) : Option Nat :=
  match overflowingPow bits a e with
  | (x, false) => some x
  | (_, true) => none

/-- `Uint::saturating_pow` (`Self::MAX = 2^bits − 1`). -/
def saturatingPow (bits a e : Nat) : Nat :=
  match overflowingPow bits a e with
  | (x, false) => x
  | (_, true) => 2 ^ bits - 1

end Ruint.Pow
