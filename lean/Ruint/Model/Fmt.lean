import Ruint.Model.Radix
import Ruint.Gen.FmtTable
/-!
# Model of `src/fmt.rs` (`write_digits!`) and of `core::fmt::Formatter::pad_integral`  (C09)

`padIntegral` is std code: it is modelled from its documented behaviour / source (sign `+`, `#` prefix,
sign-aware zero padding, fill / alignment with right alignment as the default for numbers) and is part of the
trusted base; the harness validates it against `u128`'s own formatting on every case that fits.
The `(base, MAX, WIDTH, PREFIX)` rows come from `Ruint/Gen/FmtTable.lean`, regenerated from `src/fmt.rs`.
-/
namespace Ruint.Fmt
open Ruint.Radix Ruint.Gen Ruint.Gen.FmtTable

inductive Align
  | left | right | center
  deriving DecidableEq, Repr

/-- the parts of a format spec `[[fill]align][+][#][0][width]` that integer formatting reads. -/
structure Spec where
  fill : Char := ' '
  align : Option Align := none
  plus : Bool := false
  alt : Bool := false
  zero : Bool := false
  width : Option Nat := none

/-- `Formatter::padding(n, default)`: how many fill characters go before / after. -/
def padding (align : Option Align) (default : Align) (n : Nat) : Nat × Nat :=
  match align.getD default with
  | .left => (0, n)
  | .right => (n, 0)
  | .center => (n / 2, (n + 1) / 2)

/-- `Formatter::pad_integral(true, prefix, buf)`. -/
def padIntegral (s : Spec) (pfx buf : List Char) : List Char :=
  let sign : List Char := if s.plus then ['+'] else []
  let pre : List Char := if s.alt then pfx else []
  let width := buf.length + sign.length + pre.length
  match s.width with
  | none => sign ++ pre ++ buf
  | some min =>
    if width ≥ min then sign ++ pre ++ buf
    else if s.zero then
      -- sign-aware zero padding: fill := '0', align := Right, sign and prefix before the padding
      sign ++ pre ++ List.replicate (min - width) '0' ++ buf
    else
      let (a, b) := padding s.align .right (min - width)
      List.replicate a s.fill ++ sign ++ pre ++ buf ++ List.replicate b s.fill

/-- `{:b}`/`{:o}`/`{}`/`{:x}`/`{:X}` of one `u64` chunk without padding. -/
def u64Digits (b : Nat) (upper : Bool) (c : Nat) : List Char :=
  let ds := if c = 0 then ['0'] else (digitsLE b c).reverse.map Nat.digitChar
  if upper then ds.map Char.toUpper else ds

/-- `{:0width$}`: left-pad with `'0'` to `w` characters. -/
def zeroPad (w : Nat) (l : List Char) : List Char := List.replicate (w - l.length) '0' ++ l

/-- the `for (i, spigot) in to_base_be(MAX).enumerate()` loop: first chunk unpadded, the rest padded to `WIDTH`. -/
def chunksText (row : Row) (upper : Bool) : Bool → List Nat → List Char
  | _, [] => []
  | first, c :: cs =>
    zeroPad (if first then 0 else row.width) (u64Digits row.base upper c) ++ chunksText row upper false cs

inductive Trait
  | display | debug | binary | octal | lowerHex | upperHex
  deriving DecidableEq, Repr

def Trait.row : Trait → Row
  | .display | .debug => FmtTable.decimal
  | .binary => FmtTable.binary
  | .octal => FmtTable.octal
  | .lowerHex | .upperHex => FmtTable.hexadecimal

def Trait.upper : Trait → Bool
  | .upperHex => true
  | _ => false

/-- the digit text written into the `DisplayBuffer` (no sign/prefix/padding); `none` = panic
    (`assert!(base > 1)` or `DisplayBuffer::<BITS>` overflow followed by `.unwrap()`). -/
def body (t : Trait) (bits v : Nat) : Option (List Char) :=
  match toBaseBE bits t.row.max v with
  | none => none
  | some chunks =>
    let buf := chunksText t.row t.upper true chunks
    if buf.length > bits then none else some buf

/-- `write_digits!` — `Display`/`Debug`/`Binary`/`Octal`/`LowerHex`/`UpperHex` for `Uint`. -/
def fmtUint (t : Trait) (s : Spec) (bits v : Nat) : Option (List Char) :=
  if nlimbs bits = 0 ∨ v = 0 then some (padIntegral s t.row.pfx.toList ['0'])
  else
    match body t bits v with
    | none => none
    | some buf => some (padIntegral s t.row.pfx.toList buf)

end Ruint.Fmt
