import Ruint.Model.Add
import Ruint.Model.Canon
import Ruint.Model.Conv
import Ruint.Model.Bytes
import Ruint.Model.Cmp
import Ruint.Model.Mul
import Ruint.Model.Shift
import Ruint.Model.BitsRev
import Ruint.Model.DivUint
import Ruint.Model.ModularLimbs
import Ruint.Model.Gcd
import Ruint.Model.Pow
/-!
# Histories of safe operations over a register file (C04 closure)

`Op` lists the value-producing operations whose limb-level models exist in `Ruint/Model`.
`eval` gives the value an operation writes (from the current registers), `step` writes it, `run` folds a
history. `Props/C04.lean` proves `run_canon : AllCanon regs → AllCanon (run regs history)`;
adding an operation = one constructor here + one line in `eval` + one lemma reference in `eval_canon`.
-/
namespace Ruint.History
open Ruint

abbrev Regs := List (List Nat)

/-- read a register (`ZERO` when out of range — histories only use existing registers) -/
def rd (bits : Nat) (regs : Regs) (i : Nat) : List Nat := regs.getD i (Canon.zero bits)

inductive Op where
  -- constants
  | zero (d : Nat) | one (d : Nat) | max (d : Nat)
  -- C01
  | wadd (d a b : Nat) | wsub (d a b : Nat) | wneg (d a : Nat)
  | sadd (d a b : Nat) | ssub (d a b : Nat) | absdiff (d a b : Nat)
  -- Ord
  | min (d a b : Nat) | maxOf (d a b : Nat)
  -- C07: primitive → Uint (`t`, value), limb slices, Uint<bits> → Uint<w> → Uint<bits>
  | wfrom (d : Nat) (t : Conv.Prim) (v : Int)
  | sfrom (d : Nat) (t : Conv.Prim) (v : Int)
  | wfls (d : Nat) (sl : List Nat) | sfls (d : Nat) (sl : List Nat)
  | via (d a w : Nat)
  -- C08: decoders on given bytes (register unchanged on `None`), encode→decode round trips
  | tryLe (d : Nat) (bytes : List Nat) | tryBe (d : Nat) (bytes : List Nat)
  | rtLe (d a : Nat) | rtBe (d a : Nat) | rtLeTrim (d a : Nat) | rtBeTrim (d a : Nat)
  -- generators: `rng.fill(limbs); apply_mask()` with the raw limbs the RNG produced
  | fill (d : Nat) (raw : List Nat)
  -- identity through `from_limbs(*as_limbs())`
  | rtLimbs (d a : Nat)
  -- C02 / C05 / C06 (models and theorems owned by those properties)
  | wmul (d a b : Nat) | smul (d a b : Nat)
  | wshl (d a s : Nat) | wshr (d a s : Nat) | rotl (d a s : Nat) | rotr (d a s : Nat) | ashr (d a s : Nat)
  | not (d a : Nat) | and (d a b : Nat) | or (d a b : Nat) | xor (d a b : Nat)
  | setbit (d a i : Nat) (v : Bool) | revbits (d a : Nat)
  -- producers owned by C03 / C10 / C12 / C13 / C06 (their own models; closure from their own theorems)
  | div (d a b : Nat) | rem (d a b : Nat) | gcd (d a b : Nat)
  | addmod (d a b m : Nat) | mulmod (d a b m : Nat) | wpow (d a e : Nat) | npow2 (d a : Nat)
  deriving Repr

def resOk : Canon.Res → Option (List Nat)
  | .ok l => some l
  | _ => none

/-- destination register and the value written (`none`: nothing is written). -/
def eval (bits : Nat) (regs : Regs) : Op → Option (Nat × List Nat)
  | .zero d => some (d, Canon.zero bits)
  | .one d => (Canon.one bits).map (d, ·)
  | .max d => some (d, Canon.max bits)
  | .wadd d a b => some (d, Add.wrappingAdd bits (rd bits regs a) (rd bits regs b))
  | .wsub d a b => some (d, Add.wrappingSub bits (rd bits regs a) (rd bits regs b))
  | .wneg d a => some (d, Add.wrappingNeg bits (rd bits regs a))
  | .sadd d a b => some (d, Add.saturatingAdd bits (rd bits regs a) (rd bits regs b))
  | .ssub d a b => some (d, Add.saturatingSub bits (rd bits regs a) (rd bits regs b))
  | .absdiff d a b => some (d, Add.absDiff bits (rd bits regs a) (rd bits regs b))
  | .min d a b => some (d, Cmp.min (rd bits regs a) (rd bits regs b))
  | .maxOf d a b => some (d, Cmp.max (rd bits regs a) (rd bits regs b))
  | .wfrom d t v => (resOk (Conv.wrappingFrom bits t v)).map (d, ·)
  | .sfrom d t v => (resOk (Conv.saturatingFrom bits t v)).map (d, ·)
  | .wfls d sl => (resOk (Canon.wrappingFromLimbsSlice bits sl)).map (d, ·)
  | .sfls d sl => (resOk (Canon.saturatingFromLimbsSlice bits sl)).map (d, ·)
  | .via d a w =>
      -- `a.wrapping_to::<Uint<w>>().wrapping_to::<Uint<bits>>()`
      match Canon.wrappingFromLimbsSlice w (rd bits regs a) with
      | .ok m => (resOk (Canon.wrappingFromLimbsSlice bits m)).map (d, ·)
      | _ => none
  | .tryLe d bytes => (resOk (Bytes.tryFromLeSlice bits bytes)).map (d, ·)
  | .tryBe d bytes => (resOk (Bytes.tryFromBeSlice bits bytes)).map (d, ·)
  | .rtLe d a => (resOk (Bytes.tryFromLeSlice bits (Bytes.toLeBytesVec bits (rd bits regs a)))).map (d, ·)
  | .rtBe d a => (resOk (Bytes.tryFromBeSlice bits (Bytes.toBeBytesVec bits (rd bits regs a)))).map (d, ·)
  | .rtLeTrim d a =>
      (resOk (Bytes.tryFromLeSlice bits (Bytes.toLeBytesTrimmedVec bits (rd bits regs a)))).map (d, ·)
  | .rtBeTrim d a =>
      (resOk (Bytes.tryFromBeSlice bits (Bytes.toBeBytesTrimmedVec bits (rd bits regs a)))).map (d, ·)
  | .fill d raw => some (d, Canon.masked bits ((raw ++ List.replicate (nlimbs bits) 0).take (nlimbs bits)))
  | .rtLimbs d a => (Canon.fromLimbs bits (rd bits regs a)).map (d, ·)
  | .wmul d a b => some (d, Mul.wrappingMul bits (rd bits regs a) (rd bits regs b))
  | .smul d a b => some (d, Mul.saturatingMul bits (rd bits regs a) (rd bits regs b))
  | .wshl d a s => some (d, Shift.wrappingShl bits (rd bits regs a) s)
  | .wshr d a s => some (d, Shift.wrappingShr bits (rd bits regs a) s)
  | .rotl d a s => some (d, Shift.rotateLeft bits (rd bits regs a) s)
  | .rotr d a s => some (d, Shift.rotateRight bits (rd bits regs a) s)
  | .ashr d a s => some (d, Shift.arithmeticShr bits (rd bits regs a) s)
  | .not d a => some (d, Bits.not bits (rd bits regs a))
  | .and d a b => some (d, Bits.bitAnd (rd bits regs a) (rd bits regs b))
  | .or d a b => some (d, Bits.bitOr (rd bits regs a) (rd bits regs b))
  | .xor d a b => some (d, Bits.bitXor (rd bits regs a) (rd bits regs b))
  | .setbit d a i v => some (d, Bits.setBit bits (rd bits regs a) i v)
  | .revbits d a => some (d, Bits.reverseBits bits (rd bits regs a))
  -- `if rhs.is_zero() { lhs } else { lhs / rhs }` (the history harness never divides by zero)
  | .div d a b =>
      if DivU.isZero (rd bits regs b) then some (d, rd bits regs a)
      else (DivU.wrappingDiv bits (rd bits regs a) (rd bits regs b)).map (d, ·)
  | .rem d a b =>
      if DivU.isZero (rd bits regs b) then some (d, rd bits regs a)
      else (DivU.wrappingRem bits (rd bits regs a) (rd bits regs b)).map (d, ·)
  -- value-level (L2) models: the result is the canonical limb array of the returned number
  | .gcd d a b =>
      (Gcd.gcd bits (val (rd bits regs a)) (val (rd bits regs b))).map fun g => (d, toLimbs (nlimbs bits) g)
  | .addmod d a b m => (ModularL.addMod bits (rd bits regs a) (rd bits regs b) (rd bits regs m)).map (d, ·)
  | .mulmod d a b m => (ModularL.mulMod bits (rd bits regs a) (rd bits regs b) (rd bits regs m)).map (d, ·)
  | .wpow d a e =>
      some (d, toLimbs (nlimbs bits) (Pow.wrappingPow bits (val (rd bits regs a)) (val (rd bits regs e))))
  | .npow2 d a => (Bits.checkedNextPowerOfTwo bits (rd bits regs a)).map (d, ·)

def step (bits : Nat) (regs : Regs) (op : Op) : Regs :=
  match eval bits regs op with
  | some (d, v) => regs.set d v
  | none => regs

def run (bits : Nat) (regs : Regs) (h : List Op) : Regs := h.foldl (step bits) regs

end Ruint.History
