import Ruint.Model.DivCore
import Ruint.Gen.RecipTable
/-!
# `reciprocal_mg10` / `reciprocal_2_mg10` as the code computes them (`src/algorithms/div/reciprocal.rs`)

Core Lean only. This is the ONLY model file that depends on the table regenerated from the Rust source
(`Ruint/Gen/RecipTable.lean`), so a changed table entry re-checks exactly the reciprocal theorems and what
is built on them.
-/
namespace Ruint.Div

/-! ## `reciprocal_mg10` (64-bit only: the constants of MG10 Alg. 3 are width specific) -/
namespace Recip

/-- the table, extracted from `src/algorithms/div/reciprocal.rs` (regenerated on every run) -/
def TABLE : Array Nat := Ruint.Gen.recipTable

def M : Nat := 2 ^ 64
def wsub (a b : Nat) : Nat := (a + M - b % M) % M
def wmul (a b : Nat) : Nat := (a * b) % M
def wadd (a b : Nat) : Nat := (a + b) % M

/-- `reciprocal_mg10` exactly as the Rust code computes it (`Wrapping<u64>` arithmetic). -/
def recipModel (d : Nat) : Nat :=
  let d0 := d % 2
  let d9 := d / 2 ^ 55
  let d40 := wadd 1 (d / 2 ^ 24)
  let d63 := (wadd d 1) / 2
  let v0 := TABLE[d9 - 256]!
  let v1 := wsub (wsub (wmul v0 (2 ^ 11)) ((wmul (wmul v0 v0) d40) / 2 ^ 40)) 1
  let v2 := wadd (wmul v1 (2 ^ 13)) ((wmul v1 (wsub (2 ^ 60) (wmul v1 d40))) / 2 ^ 47)
  let e := wsub (if d0 = 1 then v2 / 2 else 0) (wmul v2 d63)
  let v3 := wadd ((v2 * e / M) / 2) (wmul v2 (2 ^ 31))
  wsub (wsub v3 ((v3 * d + d) / M)) d

def recipSpec (d : Nat) : Nat := (M * M - 1) / d - M

/-! per-row quantities of the error analysis (`table_facts` in `Ruint/Gen/RecipTableFacts.lean`) -/
def rowLo (i : Nat) : Nat := (256 + i) * 2 ^ 31 + 1
def rowHi (i : Nat) : Nat := (257 + i) * 2 ^ 31
/-- ceil of the scaled endpoint requirement (scale 256) -/
def need (v0 T : Nat) : Nat :=
  let num : Int := 256 * (v0 * v0 : Int) * T * T + 256 * 2 ^ 100 - 256 * (2 ^ 11 * (v0 : Int) - 1) * T * 2 ^ 40
  let den : Int := (T : Int) * 2 ^ 40
  (Int.toNat (-((-num) / den)))
def aRow (i : Nat) : Nat := max (need (TABLE[i]!) (rowLo i)) (need (TABLE[i]!) (rowHi i))

end Recip

namespace KFull
/-- `reciprocal_2(d)` as the code computes it: Alg. 6 blocks on top of the table-based one-word `reciprocal`. -/
def recip2Code (d : Nat) : Nat :=
  let W := 2 ^ 64
  let s := R2.blk1 W (d / W) (d % W) (Recip.recipModel (d / W))
  R2.blk2 W d (d % W) s.1 s.2
end KFull

end Ruint.Div
