import Ruint.Model.MulKernels
import Ruint.Model.Add
/-!
# Model of `src/mul.rs`  (C02)

`Uint<BITS, LIMBS>` = list of `nlimbs bits` words; the limb kernels are `Ruint.Limb.*` at base `W`.
-/
namespace Ruint.Mul
open Ruint Ruint.Limb Ruint.Add

/-- `overflowing_mul`: `addmul` into `ZERO`; `if BITS > 0 { overflow |= top > MASK; apply_mask }`. -/
def overflowingMul (bits : Nat) (a b : List Nat) : List Nat × Bool :=
  let r := addmul W (zero bits) a b
  if bits > 0 then
    let overflow := r.2 || decide (r.1.getLast?.getD 0 > mask bits)
    (maskTop bits r.1, overflow)
  else (r.1, r.2)

def checkedMul (bits : Nat) (a b : List Nat) : Option (List Nat) :=
  match overflowingMul bits a b with
  | (v, false) => some v
  | _ => none

def saturatingMul (bits : Nat) (a b : List Nat) : List Nat :=
  match overflowingMul bits a b with
  | (v, false) => v
  | _ => max bits

/-- `wrapping_mul`: `addmul_n` into `ZERO` (unrolled bodies for 1..4 limbs), then the mask.
    `addmul_n` panics only on unequal lengths, impossible inside `Uint` (`getD` default unused). -/
def wrappingMul (bits : Nat) (a b : List Nat) : List Nat :=
  let r := (addmulN W (zero bits) a b).getD []
  if bits > 0 then maskTop bits r else r

/-- `widening_mul`: `assert_eq!(BITS_RES, BITS + BITS_RHS)`, `assert_eq!(LIMBS_RES, nlimbs(BITS_RES))`
    (`none` = panic), then `addmul` into a zero result of `LIMBS_RES` limbs. -/
def wideningMulG (bits bitsRhs bitsRes limbsRes : Nat) (a b : List Nat) : Option (List Nat) :=
  if bitsRes ≠ bits + bitsRhs ∨ limbsRes ≠ nlimbs bitsRes then none
  else some (addmul W (List.replicate limbsRes 0) a b).1

/-- `widening_mul` with the correct const-generic arguments. -/
def wideningMul (bits bitsRhs : Nat) (a b : List Nat) : List Nat :=
  (addmul W (zero (bits + bitsRhs)) a b).1

/-- one `inv *= W2 - n * inv` on `Wrapping<u64>`. -/
def newton64 (n inv : Nat) : Nat := (inv * ((2 + W - (n * inv) % W) % W)) % W

/-- the first-limb block of `inv_ring`: seed `(n * 3) ^ 2`, four doublings. -/
def inv64 (n : Nat) : Nat :=
  let inv := ((n * 3) % W) ^^^ 2
  let inv := newton64 n inv
  let inv := newton64 n inv
  let inv := newton64 n inv
  let inv := newton64 n inv
  inv

/-- `Self::from(2)` (only evaluated when `LIMBS ≥ 2`). -/
def two (bits : Nat) : List Nat := toLimbs (nlimbs bits) 2

/-- `Self::ONE` for `bits > 0`. -/
def one (bits : Nat) : List Nat := toLimbs (nlimbs bits) 1

/-- `while correct_limbs < LIMBS { result *= Self::from(2) - self * result; correct_limbs *= 2; }`
    (`fuel` bounds the number of iterations; `LIMBS` is always enough). -/
def invLoop (bits : Nat) (a : List Nat) : Nat → Nat → List Nat → List Nat
  | 0, _, result => result
  | fuel + 1, correct, result =>
      if correct < nlimbs bits then
        invLoop bits a fuel (correct * 2)
          (wrappingMul bits result (wrappingSub bits (two bits) (wrappingMul bits a result)))
      else result

/-- `result = ZERO; result.limbs[0] = v` -/
def setLow (bits v : Nat) : List Nat :=
  match zero bits with
  | [] => []
  | _ :: rest => v :: rest

/-- `inv_ring`. -/
def invRing (bits : Nat) (a : List Nat) : Option (List Nat) :=
  if bits = 0 ∨ (a.headD 0) % 2 = 0 then none
  else
    let result := setLow bits (inv64 (a.headD 0))
    let result := invLoop bits a (nlimbs bits) 1 result
    some (maskTop bits result)

/-- `Product`: `if BITS == 0 { return ZERO }; iter.fold(ONE, wrapping_mul)`. -/
def product (bits : Nat) (l : List (List Nat)) : List Nat :=
  if bits = 0 then zero bits else l.foldl (wrappingMul bits) (one bits)

end Ruint.Mul
