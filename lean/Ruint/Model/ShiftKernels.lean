import Ruint.Base
/-!
# Model of `src/algorithms/shift.rs`: `shift_left_small`, `shift_right_small`  (C15)

64-bit limbs. `x << amount` on a `u64` is `(x * 2^amount) % W`, `x >> k` is `x / 2^k`, `|` is `|||`.
The only stated precondition is `amount < 64` (`debug_assert!`).

The model follows the code *after* the `fix:` commit that added the `amount == 0` early return; the
original code evaluated `*limb >> (64 - 0)` (overflow panic in debug builds, unshifted garbage in
release builds) — that outcome is `shlSmallOrig`/`shrSmallOrig`, kept for the defect witness.
-/
namespace Ruint.ShiftK

/-- the `for limb in limbs` loop of `shift_left_small`, `overflow` is the running word. -/
def shlLoop (amount : Nat) : List Nat → Nat → List Nat × Nat
  | [], overflow => ([], overflow)
  | limb :: rest, overflow =>
      let value := ((limb * 2 ^ amount) % W) ||| overflow
      let overflow' := limb / 2 ^ (64 - amount)
      let r := shlLoop amount rest overflow'
      (value :: r.1, r.2)

/-- `shift_left_small(limbs, amount)`: shifted limbs and the bits shifted out of the top. -/
def shlSmall (limbs : List Nat) (amount : Nat) : List Nat × Nat :=
  if amount = 0 then (limbs, 0) else shlLoop amount limbs 0

/-- the `for limb in limbs.iter_mut().rev()` loop of `shift_right_small`: the limbs above are
    processed first; `.2` is `overflow` after the loop has passed this suffix. -/
def shrLoop (amount : Nat) : List Nat → List Nat × Nat
  | [] => ([], 0)
  | limb :: rest =>
      let r := shrLoop amount rest
      let value := (limb / 2 ^ amount) ||| r.2
      let overflow' := (limb * 2 ^ (64 - amount)) % W
      (value :: r.1, overflow')

/-- `shift_right_small(limbs, amount)`: shifted limbs and the bits shifted out of the bottom
    (left-aligned in a word). -/
def shrSmall (limbs : List Nat) (amount : Nat) : List Nat × Nat :=
  if amount = 0 then (limbs, 0) else shrLoop amount limbs

/-- outcome of the code before the fix: `amount = 0` with a non-empty slice evaluates `x >> 64`,
    an arithmetic-overflow panic (`none`) under `overflow-checks`. -/
def shlSmallOrig (limbs : List Nat) (amount : Nat) : Option (List Nat × Nat) :=
  if amount = 0 ∧ limbs ≠ [] then none else some (shlLoop amount limbs 0)

def shrSmallOrig (limbs : List Nat) (amount : Nat) : Option (List Nat × Nat) :=
  if amount = 0 ∧ limbs ≠ [] then none else some (shrLoop amount limbs)

end Ruint.ShiftK
