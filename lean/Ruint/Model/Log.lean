import Ruint.Model.Pow
/-!
# Model of `src/log.rs` (C13) — L2 model (DESIGN §3.3a)

`log` computes a floating-point estimate (`approx_log2(self) / approx_log2(base)`, converted to `Self`)
and then corrects it with two loops that use `checked_pow`. libm is outside the proof: the estimate
enters the model as the **parameter** `est` (the harness reads the real one through
`verif_hooks::tap`, the driver runs the model from it and evaluates the theorem's hypothesis on it).

Mirrored: the asserts (panics), `Self::from(2)` (panics when `2` does not fit, i.e. `bits < 2`), the
`base == 2` and `self < base` early returns, the down-loop with its *overflow ⇒ decrement once and
stop* arm and the `assert!(!result.is_zero())`, the up-loop with `checked_add(ONE)`, and — for the
`log2`/`log10` entry points — the repaired handling of constants that do not fit the type
(`fix:` commit for the defect `c13_log_small_width_panic`, see `Props/C13.lean`).
Value-level specs used for the body operations: `checked_pow` (the model of `Pow.lean`),
`checked_add`, wrapping `-=`, comparisons, `bit_len`.
-/
namespace Ruint.Log
open Ruint.Pow

/-- `Uint::bit_len`. -/
def bitLen (x : Nat) : Nat := if x = 0 then 0 else Nat.log2 x + 1

/-- first correction loop of `log` (fuel `f`, current `result`). -/
def downLoop (bits base x : Nat) : Nat → Nat → Res Nat
  | 0, _ => .fuel
  | f + 1, r =>
    match checkedPow bits base r with
    | some v =>
      if v > x then
        -- `assert!(!result.is_zero()); result -= ONE; continue`
        if r = 0 then .panic else downLoop bits base x f (r - 1)
      else .ok r
    | none =>
      -- "Overflow, so definitely larger than `value`": `result -= ONE` (wrapping), then `break`
      .ok ((r + 2 ^ bits - 1) % 2 ^ bits)

/-- second correction loop of `log`. -/
def upLoop (bits base x : Nat) : Nat → Nat → Res Nat
  | 0, _ => .fuel
  | f + 1, r =>
    -- `while let Some(trial) = result.checked_add(ONE)`
    if r + 1 < 2 ^ bits then
      match checkedPow bits base (r + 1) with
      | some v => if v ≤ x then upLoop bits base x f (r + 1) else .ok r
      | none => .ok r
    else .ok r

/-- `Uint::log` with the float estimate `est` as a parameter. -/
def log (bits x base est : Nat) : Res Nat :=
  if x = 0 then .panic                       -- assert!(!self.is_zero())
  else if ¬ (2 < 2 ^ bits) then .panic       -- `Self::from(2)` does not fit
  else if base < 2 then .panic               -- assert!(base >= 2)
  else if base = 2 then .ok (bitLen x - 1)
  else if x < base then .ok 0
  else
    match downLoop bits base x (est + 1) est with
    | .ok r => upLoop bits base x (bits + 1) r
    | e => e

/-- `Uint::checked_log` (repaired: `base < 2` is tested as `base.bit_len() < 2`, which needs no
    constant `2`). -/
def checkedLog (bits x base est : Nat) : Res (Option Nat) :=
  if bitLen base < 2 || x = 0 then .ok none
  else
    match log bits x base est with
    | .ok r => .ok (some r)
    | .panic => .panic
    | .fuel => .fuel

/-- `checked_log{2,10}` (repaired): `Self::try_from(c)`; when `c` does not fit, every non-zero value is
    below `c`, so the logarithm is `0`. -/
def checkedLogConst (c bits x est : Nat) : Res (Option Nat) :=
  if c < 2 ^ bits then checkedLog bits x c est
  else .ok (if x = 0 then none else some 0)

/-- `log{2,10}` (repaired). -/
def logConst (c bits x est : Nat) : Res Nat :=
  if c < 2 ^ bits then log bits x c est
  else if x = 0 then .panic else .ok 0

def checkedLog2 (bits x est : Nat) := checkedLogConst 2 bits x est
def checkedLog10 (bits x est : Nat) := checkedLogConst 10 bits x est
def log2 (bits x est : Nat) := logConst 2 bits x est
def log10 (bits x est : Nat) := logConst 10 bits x est

/-- executable floor logarithm used by the driver's spec column and to evaluate the estimate
    hypothesis: the largest `L` with `base^(L+1) ≤ x` fails, by repeated multiplication. -/
def ilogLoop (base x : Nat) : Nat → Nat → Nat → Nat
  | 0, _, l => l
  | f + 1, p, l => if p * base ≤ x then ilogLoop base x f (p * base) (l + 1) else l

/-- `⌊log_base x⌋` for `base ≥ 2`, `x ≥ 1`. -/
def ilog (base x : Nat) : Nat := ilogLoop base x (Nat.log2 x + 1) 1 0

/-- the hypothesis on the float estimate under which `log` is exact (`L` = the true floor log). -/
def estOk (bits base est L : Nat) : Bool :=
  decide (est < 2 ^ bits) && (decide (est ≤ L + 1) || decide (base ^ est < 2 ^ bits))

end Ruint.Log
