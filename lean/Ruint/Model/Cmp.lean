import Ruint.Base
/-!
# Model of `algorithms::cmp` (`src/algorithms/mod.rs`) and `Ord`/`PartialOrd`/`PartialEq` for `Uint`
(`src/cmp.rs`, the `#[derive(PartialEq, Eq, Hash)]` on the limb array in `src/lib.rs`) — C04
-/
namespace Ruint.Cmp

/-- the `for i in (0..l).rev()` loop on the two slices, given most-significant-first:
    return at the first differing limb. -/
def scan : List Nat → List Nat → Ordering
  | x :: xs, y :: ys => if x > y then .gt else if x < y then .lt else scan xs ys
  | _, _ => .eq

/-- `algorithms::cmp(left, right)`: scan the common prefix from the top, then compare lengths. -/
def cmp (left right : List Nat) : Ordering :=
  let l := min left.length right.length
  match scan (left.take l).reverse (right.take l).reverse with
  | .eq => compare left.length right.length
  | o => o

/-- derived `PartialEq` on `[u64; LIMBS]` -/
def eq (a b : List Nat) : Bool := a == b

/-- `PartialOrd::lt` etc. through `partial_cmp = Some(cmp)` -/
def lt (a b : List Nat) : Bool := cmp a b == .lt
def le (a b : List Nat) : Bool := cmp a b != .gt
def gt (a b : List Nat) : Bool := cmp a b == .gt
def ge (a b : List Nat) : Bool := cmp a b != .lt

/-- `Ord::min` (std default): `match cmp(a, b) { Greater => b, _ => a }` -/
def min (a b : List Nat) : List Nat := if cmp a b == .gt then b else a
/-- `Ord::max` (std default): `match cmp(a, b) { Greater => a, _ => b }` -/
def max (a b : List Nat) : List Nat := if cmp a b == .gt then a else b

/-- `Uint::is_zero`: `*self == Self::ZERO` -/
def isZero (a : List Nat) : Bool := a == List.replicate a.length 0

end Ruint.Cmp
