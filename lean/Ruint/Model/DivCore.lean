import Ruint.Base
/-!
# Word-level division kernels of `src/algorithms/div/{small,reciprocal}.rs` and the limb chains they use

Core Lean only. `Nat` limbs, explicit `%`/`/` where Rust wraps/shifts. The kernels are stated over a
generic word base (`W`/`B` is a parameter) and instantiated at `2^64` in `Ruint/Model/Div.lean`; the
proofs never use the numeral, and tiny bases can be enumerated by `decide` as a model sanity check.
`x <<< s` on a `u64` is `(x * T) % W` with `T = 2^s`, `x >>> (64 - s)` is `x / U` with `U = 2^(64-s)`,
and `a | b` of two words with disjoint bits is `a + b` (the disjointness is a lemma, `fused_digit`).
-/
namespace Ruint.Div

/-- value of a little-endian limb list in base `W` -/
def val (W : Nat) : List Nat → Nat
  | [] => 0
  | x :: xs => x + W * val W xs

/-- all limbs are `< W` -/
def AllLt (W : Nat) (l : List Nat) : Prop := ∀ x ∈ l, x < W

/-- single-limb `sbb` (`ops.rs`): `(low, borrow_out)` with `low + rhs + borrow = lhs + W*out`. -/
def sbb (W : Nat) (lhs rhs borrow : Nat) : Nat × Nat :=
  let x := rhs + borrow
  if x ≤ lhs then (lhs - x, 0) else
    let bo := (x - lhs + W - 1) / W
    (lhs + bo * W - x, bo)

/-- `submul_nx1` (`mul.rs`): `lhs -= a*b`; returns `borrow + carry`. -/
def submulNx1 (W : Nat) : List Nat → List Nat → Nat → Nat → Nat → List Nat × Nat
  | l :: ls, a :: as, b, carry, borrow =>
      let p := a * b + carry
      let s := sbb W l (p % W) borrow
      let r := submulNx1 W ls as b (p / W) s.2
      (s.1 :: r.1, r.2)
  | ls, _, _, carry, borrow => (ls, borrow + carry)

/-- carry chain `adc_n` (`add.rs`) -/
def adcN (W : Nat) : List Nat → List Nat → Nat → List Nat × Nat
  | a :: as, b :: bs, c =>
      let s := a + b + c
      let r := adcN W as bs (s / W)
      (s % W :: r.1, r.2)
  | _, _, c => ([], c)

/-- The one-word reciprocal as specified: `v = ⌊(B² − 1)/d⌋ − B`. -/
def recipSpec (B d : Nat) : Nat := (B * B - 1) / d - B

/-- The two-word reciprocal as specified: `v = ⌊(W³ − 1)/d⌋ − W`. -/
def recip2Spec (W d : Nat) : Nat := (W * W * W - 1) / d - W

/-- `div_2x1_mg10` as computed by the Rust code (wrapping u64/u128 arithmetic), base `B`.
    `u` is the `u128` numerator, returns `(q, r)`. -/
def div2x1 (B u d v : Nat) : Nat × Nat :=
  let q := u + (u / B) * v
  let q0 := q % B
  let q1 := (q / B + 1) % B
  let r := (u % B + B - (q1 * d) % B) % B
  let p := if r > q0 then ((q1 + B - 1) % B, (r + d) % B) else (q1, r)
  if p.2 ≥ d then ((p.1 + 1) % B, p.2 - d) else p

/-- `div_3x2_mg10` as computed by the Rust code (wrapping u64/u128 arithmetic), base `W`. -/
def div3x2 (W u21 u0 d v : Nat) : Nat × Nat :=
  let q := (u21 / W) * v + u21
  let qh := q / W
  let ql := q % W
  let r1 := (u21 % W + W - (qh * (d / W)) % W) % W
  let t := (d % W) * qh
  let r := (r1 * W + u0 + 2 * (W * W) - t % (W * W) - d) % (W * W)
  let q1 := (qh + 1) % W
  let p := if r / W ≥ ql then ((q1 + W - 1) % W, (r + d) % (W * W)) else (q1, r)
  if p.2 ≥ d then ((p.1 + 1) % W, p.2 - d) else p

/-! ## `reciprocal_2_mg10` (MG10 Alg. 6), generic base -/
namespace R2

def recipSpec (W d : Nat) : Nat := (W * W - 1) / d - W
def recip2Spec (W d : Nat) : Nat := (W * W * W - 1) / d - W

/-- first block: from `v`, `p = (d1*v % W + d0) % W` to adjusted `(v, p)` -/
def blk1 (W d1 d0 v : Nat) : Nat × Nat :=
  let p := (d1 * v % W + d0) % W
  if p < d0 then
    let v := (v + W - 1) % W
    let s : Nat × Nat := if p ≥ d1 then ((v + W - 1) % W, p - d1) else (v, p)
    (s.1, (s.2 + W - d1) % W)
  else (v, p)

/-- second block -/
def blk2 (W d d0 v p : Nat) : Nat :=
  let t := v * d0
  let t1 := t / W
  let t0 := t % W
  let p := (p + t1) % W
  if p < t1 then
    let v := (v + W - 1) % W
    if p * W + t0 ≥ d then (v + W - 1) % W else v
  else v

/-- Alg. 6 on top of the *specified* one-word reciprocal (used by the generic-base proof) -/
def recip2 (W d : Nat) : Nat :=
  let s := blk1 W (d / W) (d % W) (recipSpec W (d / W))
  blk2 W d (d % W) s.1 s.2

end R2


end Ruint.Div
