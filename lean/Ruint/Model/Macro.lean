import Ruint.Model.Radix
/-!
# Model of the `uint!` proc macro (`ruint-macro/src/lib.rs`)  (C19)

Literals are `List Char` (the text of `Literal::to_string()`); byte indices of the Rust code are mirrored with
UTF-8 sizes where they matter (`value.len() >= 2`, `split_at(2)`).
-/
namespace Ruint.Macro
open Ruint.Radix

inductive BaseType
  | uint | bits
  deriving DecidableEq, Repr

/-- `source.rfind(['U','B'])` + `split_at` + `suffix.split_at(1)`: the text before the right-most `U`/`B`,
    that character, and the text after it. -/
def splitLast : List Char → Option (List Char × Char × List Char)
  | [] => none
  | c :: cs =>
    match splitLast cs with
    | some (v, t, b) => some (c :: v, t, b)
    | none => if c = 'U' ∨ c = 'B' then some ([], c, cs) else none

def decVal (cs : List Char) : Nat := cs.foldl (fun a c => a * 10 + (c.toNat - '0'.toNat)) 0

def isDec (c : Char) : Bool := '0'.toNat ≤ c.toNat && c.toNat ≤ '9'.toNat

/-- `str::parse::<usize>()` (64-bit host): optional single leading `+`, at least one ASCII digit, no overflow. -/
def stripPlus : List Char → List Char
  | '+' :: r => r
  | s => s

def parseUsize (s : List Char) : Option Nat :=
  let ds := stripPlus s
  if ds.isEmpty then none
  else if ds.all isDec then
    let v := decVal ds
    if v < 2 ^ 64 then some v else none
  else none

/-- `parse_suffix`. -/
def parseSuffix (source : List Char) : Option (BaseType × Nat × List Char) :=
  match splitLast source with
  | none => none
  | some (value, t, bitsTxt) =>
    let ty := if t = 'U' then BaseType.uint else BaseType.bits
    match parseUsize bitsTxt with
    | none => none
    | some bits =>
      -- Ignore hexadecimal Bits literals without `_` before the suffix.
      if ty = .bits ∧ value.take 2 = ['0', 'x'] ∧ value.getLast? ≠ some '_' then none
      else some (ty, bits, value)

inductive DigitsErr
  | invalidChar (c : Char)
  | invalidDigit (c : Char) (base : Nat)
  | panic
  deriving DecidableEq, Repr

/-- the `match c` digit map of `parse_digits` (`_` is handled by the caller). -/
def hexDigit (c : Char) : Option Nat :=
  if inRange '0' '9' c then some (c.toNat - '0'.toNat)
  else if inRange 'a' 'f' c then some (c.toNat - 'a'.toNat + 10)
  else if inRange 'A' 'F' c then some (c.toNat - 'A'.toNat + 10)
  else none

/-- "Multiply result by base and add digit": the carry chain, then `if carry > 0 { limbs.push(carry) }`. -/
def accumulate (base : Nat) (limbs : List Nat) (digit : Nat) : List Nat :=
  let (r, carry) := mulAddChain base limbs digit
  if carry > 0 then r ++ [carry] else r

/-- the digit-vs-base test of `parse_digits`, as written in the source. -/
def digitRejected (digit base : Nat) : Bool := digit ≥ base

/-- the `for c in digits.chars()` loop of `parse_digits`. -/
def digitLoop (base : Nat) : List Char → List Nat → Except DigitsErr (List Nat)
  | [], limbs => .ok limbs
  | c :: cs, limbs =>
    match hexDigit c with
    | some d =>
      if digitRejected d base then .error (.invalidDigit c base)
      else digitLoop base cs (accumulate base limbs d)
    | none =>
      if c = '_' then digitLoop base cs limbs
      else .error (.invalidChar c)

def utf8Len (cs : List Char) : Nat := cs.foldl (fun a c => a + c.utf8Size) 0

/-- `parse_digits`. (`split_at(2)` panics inside a multi-byte character: outcome `panic`.) -/
def parseDigits (value : List Char) : Except DigitsErr (List Nat) :=
  if utf8Len value ≥ 2 then
    if ¬ isCharBoundary value 2 then .error .panic
    else
      let (pfx, rest) := splitAtByte value 2
      if pfx = ['0', 'x'] then digitLoop 16 rest [0]
      else if pfx = ['0', 'o'] then digitLoop 8 rest [0]
      else if pfx = ['0', 'b'] then digitLoop 2 rest [0]
      else digitLoop 10 value [0]
  else digitLoop 10 value [0]

/-- `while limbs.len() > num_limbs && limbs.last() == Some(&0) { limbs.pop(); }` on the reversed list. -/
def popZerosRev (n : Nat) : List Nat → List Nat
  | 0 :: xs => if xs.length + 1 > n then popZerosRev n xs else 0 :: xs
  | l => l

/-- `pad_limbs`. -/
def padLimbs (bits : Nat) (limbs : List Nat) : Option (List Nat) :=
  let n := nlimbs bits
  let l1 := (popZerosRev n limbs.reverse).reverse
  let l2 := l1 ++ List.replicate (n - l1.length) 0
  if l2.length > n ∨ l2.getLast?.getD 0 > mask bits then none else some l2

/-- what `transform_literal` + `transform_tree` make of one literal token. -/
inductive Expansion
  | pass                                                  -- `Ok(None)`: the literal is left as it is
  | ok (ty : BaseType) (bits : Nat) (limbs : List Nat)     -- `<ty>::<bits, nlimbs>::from_limbs([limbs])`
  | errChar (c : Char)                                     -- compile_error!("Invalid character ..")
  | errDigit (c : Char) (base : Nat)                       -- compile_error!("Invalid digit ..")
  | errLarge                                               -- compile_error!("Value too large ..")
  | panic
  deriving DecidableEq, Repr

def transformLiteral (source : List Char) : Expansion :=
  match parseSuffix source with
  | none => .pass
  | some (ty, bits, value) =>
    match parseDigits value with
    | .error (.invalidChar c) => .errChar c
    | .error (.invalidDigit c b) => .errDigit c b
    | .error .panic => .panic
    | .ok limbs =>
      match padLimbs bits limbs with
      | none => .errLarge
      | some l => .ok ty bits l

/-! ## the token walk -/

/-- input token trees: literals, groups (delimiter kept as an opaque tag), anything else. -/
inductive Tok
  | lit (s : List Char)
  | group (delim : Nat) (ts : List Tok)
  | other (s : List Char)

/-- output token trees. -/
inductive Out
  | lit (s : List Char)
  | group (delim : Nat) (ts : List Out)
  | other (s : List Char)
  | expanded (e : Expansion)

mutual
/-- `transform_tree` -/
def transformTree : Tok → Out
  | .lit s =>
    match transformLiteral s with
    | .pass => .lit s
    | e => .expanded e
  | .group d ts => .group d (transformStream ts)
  | .other s => .other s
/-- `transform_stream` -/
def transformStream : List Tok → List Out
  | [] => []
  | t :: ts => transformTree t :: transformStream ts
end

end Ruint.Macro
