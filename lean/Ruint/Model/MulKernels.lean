import Ruint.Base
/-!
# Model of the limb-slice kernels of `src/algorithms/{mul,add,ops,mod}.rs`  (C15; C02/C03/C10/C14 build on it)

Little-endian limb lists `List Nat`. Every function takes the limb base `B` as its first argument; the
driver and the property theorems instantiate it at `W = 2^64` (`valB W = val`, lemma `valB_W`). The
proofs never use the numeral, and tiny bases let the kernel enumerate a model completely
(`Props/C15.lean`, sanity examples).

A `u128` intermediate is a `Nat` below `B*B`; `split()` is `(t % B, t / B)`. Where the Rust comment
says "can not overflow" the model uses plain `Nat` arithmetic and the theorems prove the bound
(result words `< B`), so a wrap would have been visible as a failed proof.
-/
namespace Ruint.Limb

/-! ## `ops.rs` -/

/-- `adc`: `u128::from(lhs) + u128::from(rhs) + u128::from(carry)`, then `split()`.
    The carry is any word (the signature is `u64`), so the carry out can be 2. -/
def adc (B lhs rhs carry : Nat) : Nat × Nat :=
  let result := lhs + rhs + carry
  (result % B, result / B)

/-- `sbb`: two `wrapping_sub`s in `u128` (modulus `B*B`), result `(low, high.wrapping_neg())`. -/
def sbb (B lhs rhs borrow : Nat) : Nat × Nat :=
  let D := B * B
  let r1 := (lhs + D - rhs) % D
  let result := (r1 + D - borrow) % D
  (result % B, (B - result / B) % B)

/-! ## `add.rs` -/

/-- `adc_n`: `for i in 0..lhs.len() { (lhs[i], carry) = adc(lhs[i], rhs[i], carry) }`.
    `rhs` may be longer than `lhs` (extra limbs are ignored); if it is shorter the index `rhs[i]`
    panics: `none`. -/
def adcN (B : Nat) : List Nat → List Nat → Nat → Option (List Nat × Nat)
  | [], _, c => some ([], c)
  | _ :: _, [], _ => none
  | a :: as, b :: bs, c =>
      let s := adc B a b c
      match adcN B as bs s.2 with
      | some r => some (s.1 :: r.1, r.2)
      | none => none

/-- `sbb_n`: same loop with `sbb`. -/
def sbbN (B : Nat) : List Nat → List Nat → Nat → Option (List Nat × Nat)
  | [], _, c => some ([], c)
  | _ :: _, [], _ => none
  | a :: as, b :: bs, c =>
      let s := sbb B a b c
      match sbbN B as bs s.2 with
      | some r => some (s.1 :: r.1, r.2)
      | none => none

/-! ## `mul.rs` -/

/-- `add_nx1`: `lhs += a`, returns the carry. Both early exits (`a == 0` before and inside the loop)
    are kept. -/
def addNx1 (B : Nat) : List Nat → Nat → List Nat × Nat
  | [], a => ([], a)
  | l :: ls, a =>
      if a = 0 then (l :: ls, 0)
      else
        let t := l + a               -- `u128::add(*lhs, a)`
        let r := addNx1 B ls (t / B)
        (t % B :: r.1, r.2)

/-- `mul_nx1` loop with running carry: `(*lhs, carry) = u128::muladd(*lhs, a, carry).split()`. -/
def mulNx1Go (B : Nat) : List Nat → Nat → Nat → List Nat × Nat
  | [], _, c => ([], c)
  | x :: xs, a, c =>
      let t := x * a + c
      let r := mulNx1Go B xs a (t / B)
      (t % B :: r.1, r.2)

/-- `mul_nx1`: `lhs *= a`, returns the carry. -/
def mulNx1 (B : Nat) (lhs : List Nat) (a : Nat) : List Nat × Nat := mulNx1Go B lhs a 0

/-- `addmul_nx1` loop with running carry: `(lhs[i], carry) = u128::muladd2(a[i], b, carry, lhs[i]).split()`.
    The Rust requires `lhs.len() == a.len()` (`assume!`); the recursion stops with the shorter list,
    leaving the rest of `lhs` untouched. -/
def addmulNx1Go (B : Nat) : List Nat → List Nat → Nat → Nat → List Nat × Nat
  | l :: ls, a :: as, b, c =>
      let t := a * b + c + l
      let r := addmulNx1Go B ls as b (t / B)
      (t % B :: r.1, r.2)
  | ls, _, _, c => (ls, c)

/-- `addmul_nx1`: `lhs += a * b`, returns the carry. -/
def addmulNx1 (B : Nat) (lhs a : List Nat) (b : Nat) : List Nat × Nat := addmulNx1Go B lhs a b 0

/-- `submul_nx1` loop: product limb by `muladd`, subtraction by `sbb`; two running words. -/
def submulNx1Go (B : Nat) : List Nat → List Nat → Nat → Nat → Nat → List Nat × Nat
  | l :: ls, a :: as, b, carry, borrow =>
      let p := a * b + carry                 -- `u128::muladd(a[i], b, carry)`
      let s := sbb B l (p % B) borrow
      let r := submulNx1Go B ls as b (p / B) s.2
      (s.1 :: r.1, r.2)
  | ls, _, _, carry, borrow => (ls, borrow + carry)

/-- `submul_nx1`: `lhs -= a * b`, returns `borrow + carry`. -/
def submulNx1 (B : Nat) (lhs a : List Nat) (b : Nat) : List Nat × Nat := submulNx1Go B lhs a b 0 0

/-! ### `addmul` -/

/-- `while let [0, rest @ ..] = a { a = rest; if let [_, rest @ ..] = lhs { lhs = rest; } }`
    Returns (limbs of `lhs` skipped, remaining window, remaining `a`). -/
def stripFront : List Nat → List Nat → List Nat × List Nat × List Nat
  | win, 0 :: as =>
      match win with
      | [] => let r := stripFront [] as; (r.1, r.2.1, r.2.2)
      | l :: ls => let r := stripFront ls as; (l :: r.1, r.2.1, r.2.2)
  | win, as => ([], win, as)

/-- `while let [rest @ .., 0] = a { a = rest; }` -/
def stripBack : List Nat → List Nat
  | [] => []
  | x :: xs =>
      match stripBack xs with
      | [] => if x = 0 then [] else [x]
      | y :: ys => x :: y :: ys

/-- one row when the window is long enough: `split_at_mut(a.len())`, `addmul_nx1` on the target,
    `add_nx1` of the carry into the rest. -/
def row (B : Nat) (win a : List Nat) (b : Nat) : List Nat × Nat :=
  let r1 := addmulNx1 B (win.take a.length) a b
  let r2 := addNx1 B (win.drop a.length) r1.2
  (r1.1 ++ r2.1, r2.2)

/-- the `for &b in b` loop of `addmul`; `ov` is the running `overflow` flag; every iteration
    finalises one limb (`lhs = &mut lhs[1..]`). -/
def rows (B : Nat) : List Nat → List Nat → List Nat → Bool → List Nat × Bool
  | win, _, [], ov => (win, ov)
  | win, a, b :: bs, ov =>
      if a.length ≤ win.length then
        let r := row B win a b
        let ov' := ov || decide (r.2 ≠ 0)
        match r.1 with
        | [] => ([], ov')          -- unreachable: `a` is non-empty here
        | w :: ws => let rest := rows B ws a bs ov'; (w :: rest.1, rest.2)
      else
        match win with
        | [] => ([], true)         -- `overflow = true; if lhs.is_empty() { break; }`
        | _ :: _ =>
          let r := addmulNx1 B win (a.take win.length) b   -- carry dropped
          match r.1 with
          | [] => ([], true)
          | w :: ws => let rest := rows B ws a bs true; (w :: rest.1, rest.2)

/-- the complete `addmul`: returns the new accumulator (same length) and the overflow flag. -/
def addmul (B : Nat) (lhs a b : List Nat) : List Nat × Bool :=
  let s1 := stripFront lhs a
  let a' := stripBack s1.2.2
  let s2 := stripFront s1.2.1 b
  let b' := stripBack s2.2.2
  if a' = [] ∨ b' = [] then (lhs, false)
  else if s2.2.1 = [] then (lhs, true)
  else
    let r := if b'.length > a'.length then rows B s2.2.1 b' a' false else rows B s2.2.1 a' b' false
    (s1.1 ++ s2.1 ++ r.1, r.2)

/-! ### `addmul_n` -/

/-- `mac`: `prod = u128::muladd2(a, b, c, *lhs)`; returns `(new *lhs, carry)`. -/
def mac (B l a b c : Nat) : Nat × Nat :=
  let prod := a * b + c + l
  (prod % B, prod / B)

def addmul1 (B l0 a0 b0 : Nat) : List Nat :=
  let (l0, _) := mac B l0 a0 b0 0
  [l0]

def addmul2 (B l0 l1 a0 a1 b0 b1 : Nat) : List Nat :=
  let (l0, carry) := mac B l0 a0 b0 0
  let (l1, _) := mac B l1 a0 b1 carry
  let (l1, _) := mac B l1 a1 b0 0
  [l0, l1]

def addmul3 (B l0 l1 l2 a0 a1 a2 b0 b1 b2 : Nat) : List Nat :=
  let (l0, carry) := mac B l0 a0 b0 0
  let (l1, carry) := mac B l1 a0 b1 carry
  let (l2, _) := mac B l2 a0 b2 carry
  let (l1, carry) := mac B l1 a1 b0 0
  let (l2, _) := mac B l2 a1 b1 carry
  let (l2, _) := mac B l2 a2 b0 0
  [l0, l1, l2]

def addmul4 (B l0 l1 l2 l3 a0 a1 a2 a3 b0 b1 b2 b3 : Nat) : List Nat :=
  let (l0, carry) := mac B l0 a0 b0 0
  let (l1, carry) := mac B l1 a0 b1 carry
  let (l2, carry) := mac B l2 a0 b2 carry
  let (l3, _) := mac B l3 a0 b3 carry
  let (l1, carry) := mac B l1 a1 b0 0
  let (l2, carry) := mac B l2 a1 b1 carry
  let (l3, _) := mac B l3 a1 b2 carry
  let (l2, carry) := mac B l2 a2 b0 0
  let (l3, _) := mac B l3 a2 b1 carry
  let (l3, _) := mac B l3 a3 b0 0
  [l0, l1, l2, l3]

/-- `addmul_n`: `assert_eq!` on the lengths (`none` = panic), unrolled bodies for 1..4 limbs,
    `addmul` (flag discarded) otherwise. -/
def addmulN (B : Nat) (lhs a b : List Nat) : Option (List Nat) :=
  if lhs.length ≠ a.length ∨ lhs.length ≠ b.length then none
  else
    match lhs, a, b with
    | [], _, _ => some []
    | [l0], [a0], [b0] => some (addmul1 B l0 a0 b0)
    | [l0, l1], [a0, a1], [b0, b1] => some (addmul2 B l0 l1 a0 a1 b0 b1)
    | [l0, l1, l2], [a0, a1, a2], [b0, b1, b2] => some (addmul3 B l0 l1 l2 a0 a1 a2 b0 b1 b2)
    | [l0, l1, l2, l3], [a0, a1, a2, a3], [b0, b1, b2, b3] =>
        some (addmul4 B l0 l1 l2 l3 a0 a1 a2 a3 b0 b1 b2 b3)
    | _, _, _ => some (addmul B lhs a b).1

/-! ## `mod.rs`: `cmp` -/

/-- the `for i in (0..l).rev()` loop of `cmp` on the common prefix `left[..l]`, `right[..l]`:
    the most significant differing limb decides. -/
def cmpLimbs : List Nat → List Nat → Ordering
  | x :: xs, y :: ys =>
      match cmpLimbs xs ys with
      | .eq => compare x y
      | o => o
  | _, _ => .eq

/-- `cmp`: limbs of the common prefix from the top, then `left.len().cmp(&right.len())`. -/
def cmp (left right : List Nat) : Ordering :=
  match cmpLimbs left right with
  | .eq => compare left.length right.length
  | o => o

end Ruint.Limb
