import Ruint.Model.Pow
/-!
# Model of `src/root.rs` (C13) — L2 model (DESIGN §3.3a)

`root` starts Newton's iteration from `approx_pow2(approx_log2(self) / degree)`. libm is outside the
proof: the first guess enters the model as the **parameter** `g` (the harness reports the real one, the
driver runs the model from it and evaluates the theorem's hypothesis on it).

Mirrored: the `degree > 0` assert, the three early returns, and the loop with the `decreasing` flag,
the `min(iter, result.saturating_shl(1))` cap, and the code's **wrapping** `+` and `*`
(`division + deg_m1 * result` are `Uint` operators, which wrap). Body operations by their value-level
specs: `checked_pow` (the model of `Pow.lean`), `/` (panics on a zero divisor), wrapping `+`, `*`,
`saturating_shl(1)` (repaired C05 semantics: `MAX` iff a set bit is shifted out, i.e. `2·r ≥ 2^bits`),
`cmp`, `min`.
-/
namespace Ruint.Root
open Ruint.Pow

/-- `result.saturating_shl(1)`. -/
def sshl1 (bits r : Nat) : Nat := if 2 * r < 2 ^ bits then 2 * r else 2 ^ bits - 1

/-- one evaluation of `iter` (`none` = division by zero panic). `j = degree − 1`. -/
def iter (bits x j r : Nat) : Option Nat :=
  let m := 2 ^ bits
  -- `result.checked_pow(deg_m1).map_or(ZERO, |power| self / power)`
  let division : Option Nat :=
    match checkedPow bits r j with
    | none => some 0
    | some p => if p = 0 then none else some (x / p)
  match division with
  | none => none
  | some d => some (((d + (j * r) % m) % m) / (j + 1))

/-- the Newton loop of `root`: fuel, `decreasing`, `result`. -/
def rootLoop (bits x j : Nat) : Nat → Bool → Nat → Res Nat
  | 0, _, _ => .fuel
  | f + 1, dec, r =>
    match iter bits x j r with
    | none => .panic
    | some it =>
      if it = r then .ok r                        -- (_, Equal)
      else if r < it then
        (if dec then .ok r                         -- (true, Greater)
         else rootLoop bits x j f false (min it (sshl1 bits r)))   -- (false, Greater)
      else rootLoop bits x j f true it             -- (_, Less)

/-- fuel passed by `root`: enough for every run covered by the theorem (`Lemmas/Root.lean`), which
    needs at most `μ ≤ |g − s| + s + 3` iterations, and `s ≤ x`. -/
def rootFuel (x g : Nat) : Nat := 2 * x + g + 4

/-- `Uint::root` with the first guess `g` as a parameter. -/
def root (bits x k g : Nat) : Res Nat :=
  if k = 0 then .panic                 -- assert!(degree > 0)
  else if x = 0 then .ok 0
  else if k ≥ bits then .ok 1
  else if k = 1 then .ok x
  else rootLoop bits x (k - 1) (rootFuel x g) false g

/-- executable floor root for the driver's spec column: bisection on `r^k ≤ x`. -/
def irootLoop (x k : Nat) : Nat → Nat → Nat → Nat
  | 0, lo, _ => lo
  | f + 1, lo, hi =>
    if hi ≤ lo + 1 then lo
    else
      let mid := (lo + hi) / 2
      if mid ^ k ≤ x then irootLoop x k f mid hi else irootLoop x k f lo mid

/-- `⌊x^(1/k)⌋` for `k ≥ 1`: invariant `lo^k ≤ x < hi^k`, start `hi = 2^(⌊log2 x⌋/k + 1)`. -/
def iroot (x k : Nat) : Nat :=
  if x = 0 then 0
  else if Nat.log2 x < k then 1        -- x < 2^k
  else
  let hi := 2 ^ (Nat.log2 x / k + 1)
  irootLoop x k (Nat.log2 x / k + 2) 0 hi

/-- the hypothesis on the first guess under which the wrapping arithmetic of the loop provably does
    not wrap (`s` = the true root): all iterates stay in `[min g s, max g (2s)]`. -/
def guessOk (bits x k g s : Nat) : Bool :=
  decide (1 ≤ g) &&
  decide ((k - 1) * (max g (2 * s)) + x / (min g s) ^ (k - 1) < 2 ^ bits)

end Ruint.Root
