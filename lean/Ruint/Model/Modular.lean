import Ruint.Base
import Ruint.Model.Lehmer
/-!
# Model of `src/modular.rs` (`reduce_mod`, `add_mod`, `mul_mod`, `pow_mod`) and of `inv_mod`
# (`src/algorithms/gcd/mod.rs`)

Layer L2 (DESIGN §3.3a; the limb-level L1 versions of `reduce_mod`, `add_mod`, `mul_mod` are in
`Model/ModularLimbs.lean` and are proved to refine the functions below): the *control structure* of each function is mirrored (same early returns, same
reductions, same conditional subtraction, same loops and flags), the body operations are the value-level
specifications of the `Uint` operations they call — a `Uint<BITS>` is a `Nat` below `2^bits`, and every
place where the Rust operation wraps carries an explicit `% 2^bits`:

| Rust | here | licensed by |
|---|---|---|
| `is_zero`, `>=`, `<=`, `==`, `>` on `Uint` | the comparison of values | C04 / C15 `cmp` |
| `self %= modulus`, `a / b` | `%`, `/` on `Nat` | C03 (`div_rem`) |
| `overflowing_add` | `((a + b) % 2^bits, 2^bits ≤ a + b)` | `Ruint.C01.overflowing_add_spec` |
| `-=`, `-`, `+`, `*` (wrapping) | `wsub`, `wadd`, `wmul` | C01, C02 |
| `algorithms::addmul(product, a, b)` into `nlimbs(2·BITS)` zeroed limbs | `(a * b) % W^len`, flag `W^len ≤ a * b` | C15 `addmul` |
| `algorithms::div(product, modulus)` | remainder `product % modulus` left in the divisor | C14 `div` |
| `exp >>= 1`, `exp.limbs[0] & 1` | `exp / 2`, `exp % 2` | C05, C06 |
| `LehmerMatrix::from(a, b)`, `Matrix::apply` | `Ruint.Lehmer.matFrom`, `Ruint.Lehmer.apply` (`Model/Lehmer.lean`) | C12 (`matFrom_contract`, `apply_exact`) |
-/
namespace Ruint.Modular

/-- wrapping `+`, `-`, `*` of `Uint<bits>` on values `< 2^bits`. -/
def wadd (bits x y : Nat) : Nat := (x + y) % 2 ^ bits
def wsub (bits x y : Nat) : Nat := (x + 2 ^ bits - y % 2 ^ bits) % 2 ^ bits
def wmul (bits x y : Nat) : Nat := (x * y) % 2 ^ bits

/-- `reduce_mod`: `if modulus.is_zero() { return ZERO }; if self >= modulus { self %= modulus }; self` -/
def reduceMod (a m : Nat) : Nat :=
  if m = 0 then 0
  else if a ≥ m then a % m else a

/-- `add_mod`: reduce both inputs, `overflowing_add`, one conditional subtraction
    (`if overflow || result >= modulus { result -= modulus }`). -/
def addMod (bits a b m : Nat) : Nat :=
  let lhs := reduceMod a m
  let rhs := reduceMod b m
  let sum := lhs + rhs
  let result := sum % 2 ^ bits
  let overflow := decide (2 ^ bits ≤ sum)
  if overflow || decide (result ≥ m) then wsub bits result m else result

/-- the flag returned by `addmul` in `mul_mod` (`debug_assert!(!overflow)`). -/
def mulModOverflow (bits a b : Nat) : Bool := decide (W ^ nlimbs (2 * bits) ≤ a * b)

/-- `mul_mod`: `m = 0 → 0`; full product into `nlimbs(2·BITS)` limbs; `algorithms::div` by the modulus,
    the remainder is left in the `LIMBS` limbs of the divisor, which is returned. -/
def mulMod (bits a b m : Nat) : Nat :=
  if m = 0 then 0
  else
    let productLen := nlimbs (2 * bits)
    let product := (a * b) % W ^ productLen
    product % m

/-- the `while exp > ZERO` loop of `pow_mod`. -/
def powModLoop (bits m : Nat) : Nat → Nat → Nat → Nat → Nat
  | 0, _, _, result => result
  | fuel + 1, base, exp, result =>
    if exp > 0 then
      let result := if exp % 2 = 1 then mulMod bits result base m else result
      let base := mulMod bits base base m
      powModLoop bits m fuel base (exp / 2) result
    else result

/-- `pow_mod`: `if BITS == 0 || modulus <= ONE { return ZERO }`, then square-and-multiply from `ONE`.
    (`exp < 2^bits` is `0` after `bits` shifts: `bits` is enough fuel.) -/
def powMod (bits a e m : Nat) : Nat :=
  if bits = 0 ∨ m ≤ 1 then 0
  else powModLoop bits m bits a e 1

/-! ## `inv_mod` -/

open Ruint.Lehmer in
/-- state of the `inv_mod` loop: `a`, `b`, the cofactor pair `t0`, `t1` (two's complement in `Uint<bits>`),
    and the `even` flag. -/
structure InvSt where
  a : Nat
  b : Nat
  t0 : Nat
  t1 : Nat
  even : Bool
  deriving Repr

open Ruint.Lehmer in
/-- one iteration of the `while b != ZERO` loop with the matrix `m = LehmerMatrix::from(a, b)`.
    `none` = panic (`Uint::from(m.i)` inside `Matrix::apply` when an entry does not fit the width). -/
def invStep (bits : Nat) (m : Mat) (s : InvSt) : Option InvSt :=
  let M := 2 ^ bits
  if m = ident then
    -- `let q = a / b; a -= q * b; swap(a, b); t0 -= q * t1; swap(t0, t1); even = !even`
    let q := s.a / s.b
    some { a := s.b, b := usub M s.a (umul M q s.b),
           t0 := s.t1, t1 := usub M s.t0 (umul M q s.t1), even := !s.even }
  else
    -- `m.apply(&mut a, &mut b); m.apply(&mut t0, &mut t1); even ^= !m.4`
    match Lehmer.apply bits m s.a s.b, Lehmer.apply bits m s.t0 s.t1 with
    | some (a, b), some (t0, t1) =>
      some { a := a, b := b, t0 := t0, t1 := t1, even := Bool.xor s.even (!m.2.2.2.2) }
    | _, _ => none

open Ruint.Lehmer in
/-- the loop; the matrix is computed by the model of `LehmerMatrix::from` (`Ruint.Lehmer.matFrom`, C12).
    Fuel exhaustion is unreachable (`b` strictly decreases). -/
def invLoop (bits : Nat) : Nat → InvSt → Option InvSt
  | 0, s => some s
  | f + 1, s =>
    if s.b = 0 then some s
    else
      match matFrom s.a s.b with
      | none => none
      | some m =>
        match invStep bits m s with
        | none => none
        | some s' => invLoop bits f s'

/-- `algorithms::inv_mod(num, modulus)` / `Uint::inv_mod`. Outer `none` = panic (never: theorem). -/
def invMod (bits num modulus : Nat) : Option (Option Nat) :=
  if bits = 0 ∨ modulus = 0 then some none
  else
    let a := modulus
    let b := if num ≥ a then num % a else num
    if b = 0 then some none
    else
      match invLoop bits (b + 1) { a := a, b := b, t0 := 0, t1 := 1, even := true } with
      | none => none
      | some s =>
        -- `if a == ONE { Some(if even { modulus + t0 } else { t0 }) } else { None }`
        if s.a = 1 then some (some (if s.even then wadd bits modulus s.t0 else s.t0))
        else some none

open Ruint.Lehmer in
/-- the matrices `LehmerMatrix::from` answers along the loop (the driver compares them with the real ones). -/
def invTrace (bits : Nat) : Nat → InvSt → List Mat
  | 0, _ => []
  | f + 1, s =>
    if s.b = 0 then []
    else
      match matFrom s.a s.b with
      | none => []
      | some m =>
        match invStep bits m s with
        | none => [m]
        | some s' => m :: invTrace bits f s'

end Ruint.Modular
