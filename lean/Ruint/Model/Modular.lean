import Ruint.Base
/-!
# Model of `src/modular.rs` (`reduce_mod`, `add_mod`, `mul_mod`, `pow_mod`) and of `inv_mod`
# (`src/algorithms/gcd/mod.rs`)

Layer L2 (DESIGN §3.3a): the *control structure* of each function is mirrored (same early returns, same
reductions, same conditional subtraction, same loops and flags), the body operations are the value-level
specifications of the `Uint` operations they call — a `Uint<BITS>` is a `Nat` below `2^bits`, and every
place where the Rust operation wraps carries an explicit `% 2^bits`:

| Rust | here | licensed by |
|---|---|---|
| `is_zero`, `>=`, `<=`, `==`, `>` on `Uint` | the comparison of values | C04 / C15 `cmp` |
| `self %= modulus`, `a / b` | `%`, `/` on `Nat` | C03 (`div_rem`) |
| `overflowing_add` | `((a + b) % 2^bits, 2^bits ≤ a + b)` | `Ruint.C01.overflowing_add_spec` |
| `-=`, `-`, `+`, `*` (wrapping) | `wsub`, `wadd`, `wmul` | C01, C02 |
| `algorithms::addmul(product, a, b)` into `nlimbs(2·BITS)` zeroed limbs | `(a * b) % W^len`, flag `W^len ≤ a * b` | C15 `addmul` |
| `algorithms::div(product, modulus)` | remainder `product % modulus` left in the divisor | C14 `div` |
| `exp >>= 1`, `exp.limbs[0] & 1` | `exp / 2`, `exp % 2` | C05, C06 |
| `LehmerMatrix::from(a, b)` | an **oracle**: the list of matrices the loop consumes (C12) | checked per step by `goodAt` |
-/
namespace Ruint.Modular

/-- wrapping `+`, `-`, `*` of `Uint<bits>` on values `< 2^bits`. -/
def wadd (bits x y : Nat) : Nat := (x + y) % 2 ^ bits
def wsub (bits x y : Nat) : Nat := (x + 2 ^ bits - y % 2 ^ bits) % 2 ^ bits
def wmul (bits x y : Nat) : Nat := (x * y) % 2 ^ bits

/-- `reduce_mod`: `if modulus.is_zero() { return ZERO }; if self >= modulus { self %= modulus }; self` -/
def reduceMod (a m : Nat) : Nat :=
  if m = 0 then 0
  else if a ≥ m then a % m else a

/-- `add_mod`: reduce both inputs, `overflowing_add`, one conditional subtraction
    (`if overflow || result >= modulus { result -= modulus }`). -/
def addMod (bits a b m : Nat) : Nat :=
  let lhs := reduceMod a m
  let rhs := reduceMod b m
  let sum := lhs + rhs
  let result := sum % 2 ^ bits
  let overflow := decide (2 ^ bits ≤ sum)
  if overflow || decide (result ≥ m) then wsub bits result m else result

/-- the flag returned by `addmul` in `mul_mod` (`debug_assert!(!overflow)`). -/
def mulModOverflow (bits a b : Nat) : Bool := decide (W ^ nlimbs (2 * bits) ≤ a * b)

/-- `mul_mod`: `m = 0 → 0`; full product into `nlimbs(2·BITS)` limbs; `algorithms::div` by the modulus,
    the remainder is left in the `LIMBS` limbs of the divisor, which is returned. -/
def mulMod (bits a b m : Nat) : Nat :=
  if m = 0 then 0
  else
    let productLen := nlimbs (2 * bits)
    let product := (a * b) % W ^ productLen
    product % m

/-- the `while exp > ZERO` loop of `pow_mod`. -/
def powModLoop (bits m : Nat) : Nat → Nat → Nat → Nat → Nat
  | 0, _, _, result => result
  | fuel + 1, base, exp, result =>
    if exp > 0 then
      let result := if exp % 2 = 1 then mulMod bits result base m else result
      let base := mulMod bits base base m
      powModLoop bits m fuel base (exp / 2) result
    else result

/-- `pow_mod`: `if BITS == 0 || modulus <= ONE { return ZERO }`, then square-and-multiply from `ONE`.
    (`exp < 2^bits` is `0` after `bits` shifts: `bits` is enough fuel.) -/
def powMod (bits a e m : Nat) : Nat :=
  if bits = 0 ∨ m ≤ 1 then 0
  else powModLoop bits m bits a e 1

/-! ## `inv_mod` -/

/-- `LehmerMatrix`: `Matrix(.0, .1, .2, .3, .4)`. -/
structure Mat where
  m0 : Nat
  m1 : Nat
  m2 : Nat
  m3 : Nat
  sign : Bool
  deriving DecidableEq, Repr

def Mat.ident : Mat := ⟨1, 0, 0, 1, true⟩

/-- `Matrix::apply` (wrapping `Uint` arithmetic). -/
def applyW (bits : Nat) (m : Mat) (a b : Nat) : Nat × Nat :=
  if m.sign then
    (wsub bits (wmul bits m.m0 a) (wmul bits m.m1 b), wsub bits (wmul bits m.m3 b) (wmul bits m.m2 a))
  else
    (wsub bits (wmul bits m.m1 b) (wmul bits m.m0 a), wsub bits (wmul bits m.m2 a) (wmul bits m.m3 b))

/-- the contract of `LehmerMatrix::from(a, b)` for `a ≥ b > 0` (C12; `Lh.prefix_valid` in the design
    probes): identity, or determinant `±1` as the sign says, non-decreasing rows, and the image `(c, d)`
    satisfies `0 ≤ d < c`, `d < b`. Decidable; evaluated on every matrix the model consumes. -/
def goodAt (m : Mat) (a b : Nat) : Bool :=
  m = Mat.ident ||
  (decide (m.m0 ≤ m.m2) && decide (m.m1 ≤ m.m3) &&
    (if m.sign then
      decide (m.m0 * m.m3 = m.m1 * m.m2 + 1)
      -- c = m0·a − m1·b, d = m3·b − m2·a
      && decide (m.m2 * a ≤ m.m3 * b)
      && decide (m.m3 * b - m.m2 * a + m.m1 * b < m.m0 * a)
      && decide (m.m3 * b - m.m2 * a < b)
    else
      decide (m.m0 * m.m3 + 1 = m.m1 * m.m2)
      -- c = m1·b − m0·a, d = m2·a − m3·b
      && decide (m.m3 * b ≤ m.m2 * a)
      && decide (m.m2 * a - m.m3 * b + m.m0 * a < m.m1 * b)
      && decide (m.m2 * a - m.m3 * b < b)))

structure InvSt where
  a : Nat
  b : Nat
  t0 : Nat
  t1 : Nat
  even : Bool
  deriving Repr

/-- one iteration of the `while b != ZERO` loop with the matrix `m` the oracle answered. -/
def invStep (bits : Nat) (m : Mat) (s : InvSt) : InvSt :=
  if m = Mat.ident then
    -- `let q = a / b; a -= q * b; swap(a, b); t0 -= q * t1; swap(t0, t1); even = !even`
    let q := s.a / s.b
    { a := s.b, b := wsub bits s.a (wmul bits q s.b),
      t0 := s.t1, t1 := wsub bits s.t0 (wmul bits q s.t1), even := !s.even }
  else
    -- `m.apply(&mut a, &mut b); m.apply(&mut t0, &mut t1); even ^= !m.4`
    let ab := applyW bits m s.a s.b
    let t := applyW bits m s.t0 s.t1
    { a := ab.1, b := ab.2, t0 := t.1, t1 := t.2, even := xor s.even (!m.sign) }

/-- the loop. `tr` is the oracle: the matrices answered by `LehmerMatrix::from`, in order; when the list
    is exhausted the identity is used (= plain Euclid steps, so `tr = []` is the Euclidean algorithm).
    The flag is cleared (and the loop stopped) when a consumed matrix violates `goodAt`. -/
def invLoop (bits : Nat) : Nat → List Mat → InvSt → InvSt × Bool
  | 0, _, s => (s, true)
  | fuel + 1, tr, s =>
    if s.b = 0 then (s, true)
    else
      let m := tr.headD Mat.ident
      if goodAt m s.a s.b then invLoop bits fuel tr.tail (invStep bits m s)
      else (s, false)

/-- `inv_mod(num, modulus)` over the oracle `tr`. Returns the result and the monitored flag
    "every consumed matrix met the contract". -/
def invMod (bits : Nat) (tr : List Mat) (num modulus : Nat) : Option Nat × Bool :=
  if bits = 0 ∨ modulus = 0 then (none, true)
  else
    let a := modulus
    let b := if num ≥ a then num % a else num
    if b = 0 then (none, true)
    else
      let r := invLoop bits (b + 1) tr { a := a, b := b, t0 := 0, t1 := 1, even := true }
      let s := r.1
      if s.a = 1 then (some (if s.even then wadd bits modulus s.t0 else s.t0), r.2)
      else (none, r.2)

/-- number of oracle answers the loop consumed (the driver compares it with the length of the trace). -/
def invSteps (bits : Nat) : Nat → List Mat → InvSt → Nat
  | 0, _, _ => 0
  | fuel + 1, tr, s =>
    if s.b = 0 then 0
    else
      let m := tr.headD Mat.ident
      if goodAt m s.a s.b then invSteps bits fuel tr.tail (invStep bits m s) + 1 else 0

end Ruint.Modular
