import Ruint.Model.Lehmer
/-!
# Model of `src/algorithms/gcd/mod.rs` (`gcd`, `gcd_extended`) and `src/gcd.rs` (`Uint::{gcd, lcm, gcd_extended}`)

Level L2 (DESIGN §3.3a): the control structure is mirrored (swap at entry, `while b != 0`, identity-matrix
fallback = full-precision Euclid step, cofactor tracking, `even`, sign patch, swap at exit); the `Uint`
operations in the loop bodies are their value-level meaning on `Nat` with an explicit `% 2^bits` wherever
the Rust operation wraps (`*`, `-`, `-=`); `a / b`, `a %= b`, comparisons are exact.
`none` = panic (never produced on canonical inputs: theorem `gcd_total`).
-/
namespace Ruint.Gcd
open Ruint Ruint.Lehmer

/-- the `while b != Uint::ZERO` loop of `gcd`. Fuel exhaustion is unreachable (`b` strictly decreases). -/
def gcdLoop (bits : Nat) : Nat → Nat → Nat → Option Nat
  | 0, a, _ => some a
  | f + 1, a, b =>
    if b = 0 then some a
    else
      match matFrom a b with
      | none => none
      | some m =>
        if m = ident then gcdLoop bits f b (a % b)       -- `a %= b; swap`
        else
          match apply bits m a b with
          | none => none
          | some (c, d) => gcdLoop bits f c d

/-- `algorithms::gcd` / `Uint::gcd`. -/
def gcd (bits a b : Nat) : Option Nat :=
  let (a, b) := if b > a then (b, a) else (a, b)
  gcdLoop bits (b + 1) a b

/-- state of the `gcd_extended` loop -/
structure XSt where
  (a b s0 s1 t0 t1 : Nat)
  (even : Bool)
deriving Repr

/-- one iteration of the `gcd_extended` loop body with the matrix `m`. -/
def xStep (bits : Nat) (m : Mat) (s : XSt) : Option XSt :=
  let M := 2 ^ bits
  if m = ident then
    let q := s.a / s.b
    -- `a -= q * b; swap(a, b); s0 -= q * s1; swap; t0 -= q * t1; swap; even = !even`
    some { a := s.b, b := usub M s.a (umul M q s.b),
           s0 := s.s1, s1 := usub M s.s0 (umul M q s.s1),
           t0 := s.t1, t1 := usub M s.t0 (umul M q s.t1), even := !s.even }
  else
    match apply bits m s.a s.b, apply bits m s.s0 s.s1, apply bits m s.t0 s.t1 with
    | some (a, b), some (s0, s1), some (t0, t1) =>
      some { a := a, b := b, s0 := s0, s1 := s1, t0 := t0, t1 := t1,
             even := Bool.xor s.even (!m.2.2.2.2) }
    | _, _, _ => none

def xLoop (bits : Nat) : Nat → XSt → Option XSt
  | 0, s => some s
  | f + 1, s =>
    if s.b = 0 then some s
    else
      match matFrom s.a s.b with
      | none => none
      | some m =>
        match xStep bits m s with
        | none => none
        | some s' => xLoop bits f s'

/-- `algorithms::gcd_extended` / `Uint::gcd_extended`: `(gcd, x, y, sign)`. -/
def gcdExtended (bits a b : Nat) : Option (Nat × Nat × Nat × Bool) :=
  if bits = 0 then some (0, 0, 0, false)
  else
    let M := 2 ^ bits
    let swapped := decide (a < b)
    let (a, b) := if swapped then (b, a) else (a, b)
    match xLoop bits (b + 1) { a := a, b := b, s0 := 1, s1 := 0, t0 := 0, t1 := 1, even := true } with
    | none => none
    | some s =>
      let (s0, t0) := if s.even then (s.s0, usub M 0 s.t0) else (usub M 0 s.s0, s.t0)
      if swapped then some (s.a, t0, s0, !s.even) else some (s.a, s0, t0, s.even)

/-- `Uint::lcm`: `other.checked_div(gcd).unwrap_or_default()`, then `self.checked_mul(_)`. -/
def lcm (bits a b : Nat) : Option (Option Nat) :=
  match gcd bits a b with
  | none => none
  | some g =>
    let other := if g = 0 then 0 else b / g
    if a * other < 2 ^ bits then some (some (a * other)) else some none

end Ruint.Gcd
