import Ruint.Base
/-!
# Model of the bit-level part of `src/bits.rs` and `src/special.rs` (C06)

Limb lists, little-endian, `Nat` limbs (`< W = 2^64`). A `Uint<BITS, LIMBS>` is a list of
`nlimbs bits` words. Word primitives (`u64::leading_zeros`, `trailing_zeros`, `trailing_ones`,
`count_ones`, `reverse_bits`, `!`) are small structural functions with their own specs in
`Lemmas/Bits.lean`; that the Rust intrinsics agree with them is what the correspondence checks.

`reverse_bits` and `(checked_)next_power_of_two` use shifts and live in `Model/BitsRev.lean`.
-/
namespace Ruint.Bits
open Ruint

/-! ## word primitives (arguments are words `< 2^64`) -/

/-- `!x` on `u64`. -/
def wnot (x : Nat) : Nat := W - 1 - x

def bitLenAux : Nat → Nat → Nat
  | 0, _ => 0
  | f + 1, x => if x = 0 then 0 else bitLenAux f (x / 2) + 1

/-- number of significant bits of a word (`64 - leading_zeros`). -/
def bitLen64 (x : Nat) : Nat := bitLenAux 64 x

/-- `u64::leading_zeros`. -/
def clz64 (x : Nat) : Nat := 64 - bitLen64 x

def ctzAux : Nat → Nat → Nat
  | 0, _ => 0
  | f + 1, x => if x % 2 = 1 then 0 else ctzAux f (x / 2) + 1

/-- `u64::trailing_zeros` (64 for zero). -/
def ctz64 (x : Nat) : Nat := if x = 0 then 64 else ctzAux 64 x

/-- `u64::trailing_ones` = `(!x).trailing_zeros()`. -/
def cto64 (x : Nat) : Nat := ctz64 (wnot x)

def popAux : Nat → Nat → Nat
  | 0, _ => 0
  | f + 1, x => x % 2 + popAux f (x / 2)

/-- `u64::count_ones`. -/
def popcnt64 (x : Nat) : Nat := popAux 64 x

def revAux : Nat → Nat → Nat → Nat
  | 0, _, acc => acc
  | f + 1, x, acc => revAux f (x / 2) (2 * acc + x % 2)

/-- `u64::reverse_bits`. -/
def rev64 (x : Nat) : Nat := revAux 64 x 0

/-! ## `Uint` level -/

/-- `Uint::ZERO` (own copy: this file depends on `Ruint.Base` only). -/
def zero (bits : Nat) : List Nat := List.replicate (nlimbs bits) 0

/-- `Uint::MAX`: all-ones limbs, top limb masked. -/
def maxU (bits : Nat) : List Nat := maskTop bits (List.replicate (nlimbs bits) (W - 1))

/-- `Uint::BYTES`. -/
def nbytes (bits : Nat) : Nat := (bits + 7) / 8

/-- `Uint::not`: `BITS == 0` early return, limb-wise `!`, then `masked()`. -/
def not (bits : Nat) (a : List Nat) : List Nat :=
  if bits = 0 then zero bits else maskTop bits (a.map wnot)

/-- `BitAndAssign<&Uint>`: `for i in 0..LIMBS { self.limbs[i] &= rhs.limbs[i] }` (all six operator
    shapes forward to it). -/
def bitAnd (a b : List Nat) : List Nat := List.zipWith (· &&& ·) a b
def bitOr (a b : List Nat) : List Nat := List.zipWith (· ||| ·) a b
def bitXor (a b : List Nat) : List Nat := List.zipWith (· ^^^ ·) a b

/-- `bit`: out-of-range index reads `false`; else `limbs[i/64] & (1 << i%64) != 0`. -/
def bit (bits : Nat) (a : List Nat) (index : Nat) : Bool :=
  if index ≥ bits then false
  else (a.getD (index / 64) 0 &&& 2 ^ (index % 64)) != 0

/-- `set_bit`: out-of-range index writes nothing. -/
def setBit (bits : Nat) (a : List Nat) (index : Nat) (value : Bool) : List Nat :=
  if index ≥ bits then a
  else a.modify (index / 64) fun x =>
    if value then x ||| 2 ^ (index % 64) else x &&& wnot (2 ^ (index % 64))

/-- `byte` (little-endian host): `self.as_le_slice()[index]`, the slice has `BYTES` elements and is
    the little-endian byte view of the limb array. `none` = panic (index out of bounds). -/
def byte (bits : Nat) (a : List Nat) (index : Nat) : Option Nat :=
  if index < nbytes bits then some (a.getD (index / 8) 0 / 256 ^ (index % 8) % 256) else none

/-- `checked_byte`: `None` for `index >= BYTES`. -/
def checkedByte (bits : Nat) (a : List Nat) (index : Nat) : Option Nat :=
  if index < nbytes bits then byte bits a index else none

/-- index of the highest limb that is not zero (`rposition(|l| l != 0)` / the downward scan of
    `leading_zeros`). -/
def rposNonzero : List Nat → Option Nat
  | [] => none
  | x :: xs =>
    match rposNonzero xs with
    | some i => some (i + 1)
    | none => if x ≠ 0 then some 0 else none

/-- `iter().position(p)`. -/
def position (p : Nat → Bool) : List Nat → Option Nat
  | [] => none
  | x :: xs => if p x then some 0 else (position p xs).map (· + 1)

/-- `leading_zeros`: scan from the top limb; at the first non-zero limb `i` return
    `(LIMBS-1-i)*64 + limb.leading_zeros() - MASK.leading_zeros()`; all zero → `BITS`. -/
def leadingZeros (bits : Nat) (a : List Nat) : Nat :=
  match rposNonzero a with
  | some i =>
    let n := nlimbs bits - 1 - i
    let skipped := n * 64
    let fixed := clz64 (mask bits)
    let top := clz64 (a.getD i 0)
    skipped + top - fixed
  | none => bits

/-- `leading_ones = not(self).leading_zeros()`. -/
def leadingOnes (bits : Nat) (a : List Nat) : Nat := leadingZeros bits (not bits a)

/-- `trailing_zeros`: first non-zero limb `n` → `n*64 + limb.trailing_zeros()`, else `BITS`. -/
def trailingZeros (bits : Nat) (a : List Nat) : Nat :=
  match position (fun l => l != 0) a with
  | some n => n * 64 + ctz64 (a.getD n 0)
  | none => bits

/-- `trailing_ones`: first limb `!= u64::MAX` at `n` → `n*64 + limb.trailing_ones()`, else `BITS`. -/
def trailingOnes (bits : Nat) (a : List Nat) : Nat :=
  match position (fun l => l != W - 1) a with
  | some n => n * 64 + cto64 (a.getD n 0)
  | none => bits

/-- `count_ones`: sum of the limbs' `count_ones`. -/
def countOnes (a : List Nat) : Nat := a.foldl (fun t l => t + popcnt64 l) 0

/-- `count_zeros = BITS - count_ones`. -/
def countZeros (bits : Nat) (a : List Nat) : Nat := bits - countOnes a

/-- `bit_len = BITS - leading_zeros`. -/
def bitLen (bits : Nat) (a : List Nat) : Nat := bits - leadingZeros bits a

/-- `byte_len = (bit_len + 7) / 8`. -/
def byteLen (bits : Nat) (a : List Nat) : Nat := (bitLen bits a + 7) / 8

/-- `most_significant_bits`. -/
def mostSignificantBits (a : List Nat) : Nat × Nat :=
  let firstSetLimb := (rposNonzero a).getD 0
  if firstSetLimb = 0 then (a.headD 0, 0)
  else
    let hi := a.getD firstSetLimb 0
    let lo := a.getD (firstSetLimb - 1) 0
    let lz := clz64 hi
    let b := if lz > 0 then (hi * 2 ^ lz) % W ||| lo / 2 ^ (64 - lz) else hi
    (b, firstSetLimb * 64 - lz)

/-- `is_power_of_two = (count_ones == 1)`. -/
def isPowerOfTwo (a : List Nat) : Bool := countOnes a == 1

end Ruint.Bits
