import Ruint.Model.Canon
import Ruint.Model.Bits
/-!
# Model of `src/from.rs` — integer conversions (C07)

Every macro arm as written: `TryFrom<u64>` (the `LIMBS <= 1` arm with the wrapped payload),
`TryFrom<u128>` (three arms), `impl_from_unsigned_int!` (`as u64`), `impl_from_signed_int!`
(`is_negative`, `as $uint`, error re-wrapping), `from/wrapping_from/saturating_from`,
`to_int!` (`bit_len() > CAPACITY`), the `i128`/`u128`/`bool` targets, `to/wrapping_to/saturating_to`,
and `Uint`↔`Uint` through `overflowing_from_limbs_slice`.

Primitive integers are `Int`s in the range of their type; an `as` cast to an `N`-bit unsigned type is
`% 2^N`, to a signed one is `% 2^N` read as two's complement.
`value & MASK` is `value % (MASK + 1)` (all masks are `2^k - 1`), as in `Ruint.maskTop`.
`bit_len` is the limb-level model of C06 (`Ruint.Bits.bitLen`: `BITS - leading_zeros`); its value-level
meaning `bitLen (val limbs)` is C06's theorem `Bits.bitLen_spec`.
-/
namespace Ruint.Conv
open Ruint Ruint.Canon

/-- `Result<Uint, ToUintError<Uint>>` (+ panic) -/
inductive ToRes where
  | ok (l : List Nat)
  | tooLarge (bits : Nat) (l : List Nat)
  | negative (bits : Nat) (l : List Nat)
  | panic
  deriving DecidableEq, Repr

/-- `from_limbs` lifted: a panic inside a conversion is the outcome `panic`. -/
def withLimbs (bits : Nat) (l : List Nat) (k : List Nat → ToRes) : ToRes :=
  match fromLimbs bits l with
  | some r => k r
  | none => .panic

/-- `impl TryFrom<u64> for Uint` -/
def tryFromU64 (bits value : Nat) : ToRes :=
  let n := nlimbs bits
  if n ≤ 1 then
    if value > mask bits then
      -- Construct wrapped value
      let limbs := if n = 1 then [value % (mask bits + 1)] else []
      withLimbs bits limbs (.tooLarge bits)
    else if n = 0 then .ok (zero bits)
    else withLimbs bits (low1 n value) .ok
  else withLimbs bits (low1 n value) .ok

/-- `[0; LIMBS]` with `limbs[0] = lo; limbs[1] = hi` (for `LIMBS ≥ 2`) -/
def low2 (n lo hi : Nat) : List Nat :=
  match n with
  | 0 => []
  | 1 => [lo]
  | n + 2 => lo :: hi :: List.replicate n 0

/-- `impl TryFrom<u128> for Uint`. `wrapMod` is the modulus used to build the wrapped payload of the
    two-limb arm: the repaired code has `limbs[1] &= MASK` (`% (MASK+1)`); the pinned tree had
    `limbs[1] %= MASK`. -/
def tryFromU128With (wrapMod : Nat → Nat) (bits value : Nat) : ToRes :=
  let n := nlimbs bits
  if value ≤ W - 1 then tryFromU64 bits value
  else if n < 2 then
    -- `Self::try_from(value as u64).and_then(|n| Err(ValueTooLarge(BITS, n)))`
    match tryFromU64 bits (value % W) with
    | .ok r => .tooLarge bits r
    | e => e
  else
    let lo := value % W
    let hi := value / W % W
    if n = 2 ∧ hi > mask bits then
      withLimbs bits (low2 n lo (hi % wrapMod bits)) (.tooLarge bits)
    else withLimbs bits (low2 n lo hi) .ok

def tryFromU128 : Nat → Nat → ToRes := tryFromU128With (fun bits => mask bits + 1)
/-- the pinned tree's arm (`%= Self::MASK`), kept to state the defect. `x % 0 = x` never arises:
    the arm is only reached with `LIMBS = 2`, where `MASK ≥ 1`. -/
def tryFromU128Old : Nat → Nat → ToRes := tryFromU128With (fun bits => mask bits)

/-- source primitive types -/
structure Prim where
  width : Nat
  signed : Bool
  deriving DecidableEq, Repr

def Prim.min (t : Prim) : Int := if t.signed then -(2 ^ (t.width - 1) : Int) else 0
def Prim.max (t : Prim) : Int := if t.signed then 2 ^ (t.width - 1) - 1 else 2 ^ t.width - 1
def Prim.inRange (t : Prim) (v : Int) : Bool := decide (t.min ≤ v) && decide (v ≤ t.max)

/-- `value as uN` for an `N`-bit type -/
def asUnsigned (width : Nat) (v : Int) : Nat := (v % (2 ^ width : Int)).toNat

/-- `x as T` for a word/u128 `x` (truncate, then two's complement if signed) -/
def castTo (t : Prim) (x : Nat) : Int :=
  let r := x % 2 ^ t.width
  if t.signed && decide (2 ^ (t.width - 1) ≤ r) then (r : Int) - 2 ^ t.width else r

/-- unsigned sources go through `value as u64` (or are `u64`/`u128` themselves). -/
def tryFromUnsigned (bits width value : Nat) : ToRes :=
  if width = 128 then tryFromU128 bits value else tryFromU64 bits value

/-- `impl_from_signed_int!($int, $uint)` -/
def tryFromSigned (bits width : Nat) (v : Int) : ToRes :=
  if v < 0 then
    match tryFromUnsigned bits width (asUnsigned width v) with
    | .ok n | .tooLarge _ n => .negative bits n
    | _ => .panic   -- `unreachable!()`
  else tryFromUnsigned bits width (asUnsigned width v)

/-- `Uint::try_from(value : T)` -/
def tryFrom (bits : Nat) (t : Prim) (v : Int) : ToRes :=
  if t.signed then tryFromSigned bits t.width v else tryFromUnsigned bits t.width v.toNat

/-- `Uint::from` : `Err(e) => panic!` -/
def «from» (bits : Nat) (t : Prim) (v : Int) : Res :=
  match tryFrom bits t v with
  | .ok n => .ok n
  | _ => .panic

/-- `Uint::saturating_from` -/
def saturatingFrom (bits : Nat) (t : Prim) (v : Int) : Res :=
  match tryFrom bits t v with
  | .ok n => .ok n
  | .tooLarge _ _ => .ok (max bits)
  | .negative _ _ => .ok (zero bits)
  | .panic => .panic

/-- `Uint::wrapping_from` -/
def wrappingFrom (bits : Nat) (t : Prim) (v : Int) : Res :=
  match tryFrom bits t v with
  | .ok n | .tooLarge _ n | .negative _ n => .ok n
  | .panic => .panic

/-! ## `Uint` → primitive -/

/-- value-level meaning of `Uint::bit_len` (C06): number of significant bits. -/
def bitLen (v : Nat) : Nat := if v = 0 then 0 else Nat.log2 v + 1

/-- `Result<T, FromUintError<T>>`: `Overflow(bits, wrapped, max)` -/
inductive FromRes where
  | ok (v : Int)
  | overflow (bits : Nat) (wrapped : Int) (max : Int)
  deriving DecidableEq, Repr

def limb (l : List Nat) (i : Nat) : Nat := l.getD i 0

/-- `to_int!` for `i8 u8 i16 u16 i32 u32 i64 u64 isize usize` -/
def toInt (t : Prim) (bits : Nat) (l : List Nat) : FromRes :=
  let capacity := if t.signed then t.width - 1 else t.width
  if bits = 0 then .ok 0
  else if Bits.bitLen bits l > capacity then .overflow bits (castTo t (limb l 0)) t.max
  else .ok (castTo t (limb l 0))

/-- `TryFrom<&Uint> for i128` / `for u128` (`cap` = 127 / 128) -/
def toInt128 (t : Prim) (bits : Nat) (l : List Nat) : FromRes :=
  let capacity := if t.signed then 127 else 128
  if bits = 0 then .ok 0
  else
    let result := castTo t (limb l 0)
    if bits ≤ 64 then .ok result
    else
      -- `result |= (limbs[1] as i128) << 64`
      let result := castTo t (limb l 0 + W * limb l 1)
      if Bits.bitLen bits l > capacity then .overflow bits result t.max else .ok result

/-- `TryFrom<&Uint> for bool` (values `0`/`1`) -/
def toBool (bits : Nat) (l : List Nat) : FromRes :=
  if bits = 0 then .ok 0
  else if Bits.bitLen bits l > 1 then .overflow bits (limb l 0 % 2) 1
  else .ok (if limb l 0 ≠ 0 then 1 else 0)

def boolT : Prim := ⟨1, false⟩

/-- `T::try_from(&uint)`; `isBool` selects the `bool` impl (its `Prim` is width 1, unsigned). -/
def tryTo (isBool : Bool) (t : Prim) (bits : Nat) (l : List Nat) : FromRes :=
  if isBool then toBool bits l
  else if t.width = 128 then toInt128 t bits l
  else toInt t bits l

/-- `Uint::to` : `.expect(..)`; `none` = panic -/
def «to» (isBool : Bool) (t : Prim) (bits : Nat) (l : List Nat) : Option Int :=
  match tryTo isBool t bits l with
  | .ok v => some v
  | .overflow .. => none

def wrappingTo (isBool : Bool) (t : Prim) (bits : Nat) (l : List Nat) : Int :=
  match tryTo isBool t bits l with
  | .ok v => v
  | .overflow _ w _ => w

def saturatingTo (isBool : Bool) (t : Prim) (bits : Nat) (l : List Nat) : Int :=
  match tryTo isBool t bits l with
  | .ok v => v
  | .overflow _ _ m => m

/-! ## `Uint` ↔ `Uint` of another width -/

/-- `UintTryFrom<Uint<BITS_SRC,_>> for Uint<BITS,_>` -/
def uintTryFrom (bits : Nat) (src : List Nat) : ToRes :=
  match overflowingFromLimbsSlice bits src with
  | some (n, true) => .tooLarge bits n
  | some (n, false) => .ok n
  | none => .panic

/-- result of `UintTryTo<Uint<BITS_DST,_>>`: `Overflow(BITS_DST, wrapped, MAX)` -/
inductive UURes where
  | ok (l : List Nat)
  | overflow (bits : Nat) (wrapped : List Nat) (max : List Nat)
  | panic
  deriving DecidableEq, Repr

def uintTryTo (dstBits : Nat) (src : List Nat) : UURes :=
  match overflowingFromLimbsSlice dstBits src with
  | some (n, true) => .overflow dstBits n (max dstBits)
  | some (n, false) => .ok n
  | none => .panic

end Ruint.Conv
