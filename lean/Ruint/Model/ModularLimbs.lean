import Ruint.Model.Add
import Ruint.Model.MulKernels
import Ruint.Model.DivUint
/-!
# Limb-level (L1) models of `reduce_mod`, `add_mod`, `mul_mod` (`src/modular.rs`)

A `Uint<BITS, LIMBS>` is a list of `nlimbs bits` words. The functions call the limb-level models of the operations
the Rust code calls: `algorithms::cmp` (`Ruint.Limb.cmp`, C15) for `>=`, `algorithms::div` through `%=`
(`Ruint.DivU.wrappingRem` = `Ruint.Div.div`, C03/C14: small divisors, Knuth D, …), `overflowing_add` /
wrapping `-=` (`Ruint.Add.*`, C01), `algorithms::addmul` into a zeroed `nlimbs(2·BITS)`-limb buffer
(`Ruint.Limb.addmul`, C15) and `algorithms::div` of that buffer by the `LIMBS`-limb modulus — the 2N-by-N shape.
`none` = panic. `Lemmas/ModularLimbs.lean` proves them equal to the value-level models of `Model/Modular.lean`.
-/
namespace Ruint.ModularL
open Ruint

/-- `self >= other` on `Uint`: `algorithms::cmp` of the two limb arrays is not `Less`. -/
def ge (a b : List Nat) : Bool := Limb.cmp a b != Ordering.lt

/-- `reduce_mod`: `if modulus.is_zero() { return ZERO }; if self >= modulus { self %= modulus }; self` -/
def reduceMod (bits : Nat) (a m : List Nat) : Option (List Nat) :=
  if DivU.isZero m then some (Add.zero bits)
  else if ge a m then DivU.wrappingRem bits a m
  else some a

/-- `add_mod`: reduce both inputs, `overflowing_add`, `if overflow || result >= modulus { result -= modulus }`. -/
def addMod (bits : Nat) (a b m : List Nat) : Option (List Nat) :=
  match reduceMod bits a m, reduceMod bits b m with
  | some lhs, some rhs =>
    let (result, overflow) := Add.overflowingAdd bits lhs rhs
    if overflow || ge result m then some (Add.wrappingSub bits result m) else some result
  | _, _ => none

/-- `mul_mod`: `addmul` of the operands into `nlimbs(2·BITS)` zero limbs (`debug_assert!(!overflow)`), then
    `algorithms::div(product, &mut modulus.limbs)`; the remainder left in the divisor's limbs is returned. -/
def mulMod (bits : Nat) (a b m : List Nat) : Option (List Nat) :=
  if DivU.isZero m then some (Add.zero bits)
  else
    let (product, overflow) := Limb.addmul W (List.replicate (nlimbs (2 * bits)) 0) a b
    if overflow then none
    else
      match Div.div product m with
      | none => none
      | some (_, r) => some r

end Ruint.ModularL
