import Ruint.Model.DivCore
/-!
# Knuth division: `div_nxm` and `div_nxm_normalized` of `src/algorithms/div/knuth.rs`

Core Lean only. The loop body is stated on a decomposed window/divisor (`kstepD`, `nstep`), then on
plain lists (`kstepL`, `nstepL`), then on the in-place array layout the Rust code uses
(`window`, `arrStep`, `arrLoop`, `divNxmArr`; `narrStep`, `narrLoop`, `divNxmNormArr`).
`W = T * U` with `T = 2^shift`, `U = 2^(64 - shift)`.
-/
namespace Ruint.Div

namespace KStep

/-- one Knuth step on a decomposed window/divisor, `W = T*U`, window `low' ++ [nm,c0,c1,c2]`,
    divisor `dlow' ++ [dm,e0,e1]`, mirroring the body of `div_nxm`. -/
def kstepD (T U : Nat) (low' : List Nat) (nm c0 c1 c2 : Nat) (dlow' : List Nat) (dm e0 e1 : Nat) (d v : Nat) : Nat × List Nat :=
  let W := T * U
  let ds := dlow' ++ [dm, e0, e1]
  let n21 := ((c2 * W + c1) * T) % (W * W) + c0 / U
  let n0 := (c0 * T) % W + nm / U
  if n21 < d then
    let s := div3x2 W n21 n0 d v
    if s.1 = 0 then (0, low' ++ [nm, c0, c1])
    else if T = 1 then
      let sm := submulNx1 W (low' ++ [nm]) (dlow' ++ [dm]) s.1 0 0
      let rr := (s.2 + W * W - sm.2) % (W * W)
      let w' := sm.1 ++ [rr % W, rr / W]
      if s.2 < sm.2 then ((s.1 + W - 1) % W, (adcN W w' ds 0).1) else (s.1, w')
    else
      let sm := submulNx1 W (low' ++ [nm, c0, c1]) ds s.1 0 0
      if sm.2 ≠ c2 then ((s.1 + W - 1) % W, (adcN W sm.1 ds 0).1) else (s.1, sm.1)
  else
    let sm := submulNx1 W (low' ++ [nm, c0, c1]) ds (W - 1) 0 0
    (W - 1, sm.1)

end KStep

namespace KLoop
open KStep

/-- the loop body on plain lists: window `w` (`n+1` limbs), divisor `ds` (`n` limbs). -/
def kstepL (T U : Nat) (w ds : List Nat) (d v : Nat) : Nat × List Nat :=
  let k := ds.length - 3
  kstepD T U (w.take k) (w.getD k 0) (w.getD (k + 1) 0) (w.getD (k + 2) 0) (w.getD (k + 3) 0)
    (ds.take k) (ds.getD k 0) (ds.getD (k + 1) 0) (ds.getD (k + 2) 0) d v

end KLoop

namespace KArr
open KStep KLoop

/-- `numerator[j ..= j+n]` with `numerator.get(j + n).unwrap_or_default()`. -/
def window (num : List Nat) (j n : Nat) : List Nat :=
  let w := (num.drop j).take (n + 1)
  if w.length = n + 1 then w else w ++ [0]

/-- one iteration on the array: the window is replaced by remainder ++ [digit]; at `j = m` the digit goes to `q_high`. -/
def arrStep (T U : Nat) (ds : List Nat) (d v : Nat) (st : List Nat × Nat) (j : Nat) : List Nat × Nat :=
  let n := ds.length
  let s := kstepL T U (window st.1 j n) ds d v
  if j + n < st.1.length then (st.1.take j ++ s.2 ++ [s.1] ++ st.1.drop (j + n + 1), st.2)
  else (st.1.take j ++ s.2 ++ st.1.drop (j + n), s.1)

/-- `for j in (0..k).rev()`. -/
def arrLoop (T U : Nat) (ds : List Nat) (d v : Nat) : Nat → List Nat × Nat → List Nat × Nat
  | 0, st => st
  | k + 1, st => arrLoop T U ds d v k (arrStep T U ds d v st k)

/-- `div_nxm` on arrays: returns (numerator', divisor'). -/
def divNxmArr (T U : Nat) (num ds : List Nat) (d v : Nat) : List Nat × List Nat :=
  let n := ds.length
  let m := num.length - n
  let st := arrLoop T U ds d v (m + 1) (num, 0)
  (st.1.drop n ++ [st.2] ++ List.replicate (n - 1) 0, st.1.take n)

end KArr

namespace KN
open KStep

/-- one iteration of `div_nxm_normalized` on a decomposed window `low ++ [c0,c1,c2]` / divisor
    `dlow ++ [e0,e1]` (`n ≥ 2`, no shift, no zero-digit skip, overflow arm first). -/
def nstep (W : Nat) (low : List Nat) (c0 c1 c2 : Nat) (dlow : List Nat) (e0 e1 v : Nat) : Nat × List Nat :=
  let d := e1 * W + e0
  let ds := dlow ++ [e0, e1]
  let n21 := c2 * W + c1
  if n21 = d then
    let sm := submulNx1 W (low ++ [c0, c1]) ds (W - 1) 0 0
    (W - 1, sm.1)
  else
    let s := div3x2 W n21 c0 d v
    let sm := submulNx1 W low dlow s.1 0 0
    let rr := (s.2 + W * W - sm.2) % (W * W)
    let w' := sm.1 ++ [rr % W, rr / W]
    if s.2 < sm.2 then ((s.1 + W - 1) % W, (adcN W w' ds 0).1) else (s.1, w')

/-- the loop body of `div_nxm_normalized` on plain lists: window `w` (`n+1` limbs), divisor `ds` (`n ≥ 2` limbs). -/
def nstepL (W : Nat) (w ds : List Nat) (v : Nat) : Nat × List Nat :=
  let k := ds.length - 2
  nstep W (w.take k) (w.getD k 0) (w.getD (k + 1) 0) (w.getD (k + 2) 0)
    (ds.take k) (ds.getD k 0) (ds.getD (k + 1) 0) v

/-- one iteration of `div_nxm_normalized` on the array: `numerator[j ..= j+n]` is replaced by
    remainder ++ [digit]. `none` = the `debug_assert!(n21 <= d)` fires (quick profile: assertions on). -/
def narrStep (W : Nat) (ds : List Nat) (v : Nat) (num : List Nat) (j : Nat) : Option (List Nat) :=
  let n := ds.length
  let w := (num.drop j).take (n + 1)
  let d := ds.getD (n - 1) 0 * W + ds.getD (n - 2) 0
  let n21 := w.getD n 0 * W + w.getD (n - 1) 0
  if n21 > d then none
  else
    let s := nstepL W w ds v
    some (num.take j ++ s.2 ++ [s.1] ++ num.drop (j + n + 1))

/-- `for j in (0..k).rev()` of `div_nxm_normalized`. -/
def narrLoop (W : Nat) (ds : List Nat) (v : Nat) : Nat → List Nat → Option (List Nat)
  | 0, num => some num
  | k + 1, num =>
    match narrStep W ds v num k with
    | none => none
    | some num' => narrLoop W ds v k num'

/-- `div_nxm_normalized` on arrays: the numerator afterwards (remainder in the low `n` limbs, quotient above).
    `none` = panic: `numerator.len() - n - 1` underflows when `|numerator| = |divisor|`, or a
    `debug_assert!(n21 <= d)` fires. -/
def divNxmNormArr (W : Nat) (num ds : List Nat) (v : Nat) : Option (List Nat) :=
  let n := ds.length
  if num.length < n + 1 then none
  else narrLoop W ds v (num.length - n) num

end KN

end Ruint.Div
