import Ruint.Base
/-!
# Model of the constructors of `src/lib.rs` (C04, shared with C07/C08)

`from_limbs`, `from_limbs_unmasked`/`masked`/`apply_mask`, `overflowing_from_limbs_slice` and its
`from_/checked_/wrapping_/saturating_` variants, the constants `ZERO`, `MAX`, and the associated
`LIMBS` constant with its compile-time assertion.

A panic is the explicit outcome `none` of an `Option` (documented per function).
-/
namespace Ruint.Canon

/-- `Self::SHOULD_MASK = BITS > 0 && Self::MASK != u64::MAX` -/
def shouldMask (bits : Nat) : Bool := decide (bits > 0) && decide (mask bits ≠ W - 1)

/-- last limb, `0` for the empty array (the code only reads it when `LIMBS > 0`). -/
def top (l : List Nat) : Nat := l.getLast?.getD 0

/-- `Uint::from_limbs`: `if SHOULD_MASK { assert!(limbs[LIMBS-1] <= MASK) }`. `none` = panic. -/
def fromLimbs (bits : Nat) (l : List Nat) : Option (List Nat) :=
  if shouldMask bits && decide (top l > mask bits) then none else some l

/-- `masked()` / `apply_mask()`: `if SHOULD_MASK { limbs[LIMBS-1] &= MASK }`.
    (`t &&& mask = t % (mask+1)` for the masks `2^k-1`; `maskTop` of `Base.lean`). -/
def masked (bits : Nat) (l : List Nat) : List Nat :=
  if shouldMask bits then maskTop bits l else l

/-- `from_limbs_unmasked` -/
def fromLimbsUnmasked (bits : Nat) (l : List Nat) : List Nat := masked bits l

/-- `Uint::ZERO = from_limbs([0; LIMBS])` -/
def zero (bits : Nat) : List Nat := List.replicate (nlimbs bits) 0

/-- `Uint::MAX = from_limbs_unmasked([u64::MAX; LIMBS])` -/
def max (bits : Nat) : List Nat := fromLimbsUnmasked bits (List.replicate (nlimbs bits) (W - 1))

/-- `[0; LIMBS]` with `limbs[0] = x` (for `LIMBS ≥ 1`) -/
def low1 (n x : Nat) : List Nat :=
  match n with
  | 0 => []
  | n + 1 => x :: List.replicate n 0

/-- `const_from_u64` (saturating; used by `ONE`). `none` = panic (never: theorem). -/
def constFromU64 (bits x : Nat) : Option (List Nat) :=
  if bits = 0 ∨ (bits < 64 ∧ x ≥ 2 ^ bits) then some (max bits)
  else fromLimbs bits (low1 (nlimbs bits) x)

/-- `Uint::ONE = const_from_u64(1)` -/
def one (bits : Nat) : Option (List Nat) := constFromU64 bits 1

/-- replace the last limb by `f last` -/
def mapTop (f : Nat → Nat) : List Nat → List Nat
  | [] => []
  | [t] => [f t]
  | x :: xs => x :: mapTop f xs

/-- `overflowing_from_limbs_slice` for a type with `n = LIMBS` limbs.
    Returns `none` if the inner `from_limbs` would panic (it never does: theorem). -/
def overflowingFromLimbsSlice (bits : Nat) (slice : List Nat) : Option (List Nat × Bool) :=
  let n := nlimbs bits
  if slice.length < n then
    -- zero-extend
    (fromLimbs bits (slice ++ List.replicate (n - slice.length) 0)).map fun r => (r, false)
  else
    let head := slice.take n
    let tail := slice.drop n
    let overflow := tail.any (· ≠ 0)
    if n > 0 then
      let overflow := overflow || decide (top head > mask bits)
      let limbs := mapTop (· % (mask bits + 1)) head
      (fromLimbs bits limbs).map fun r => (r, overflow)
    else
      (fromLimbs bits head).map fun r => (r, overflow)

/-- outcome of a constructor that may panic -/
inductive Res where
  | ok (l : List Nat)
  | none
  | panic
  deriving DecidableEq, Repr

/-- `from_limbs_slice`: panics on overflow. -/
def fromLimbsSlice (bits : Nat) (slice : List Nat) : Res :=
  match overflowingFromLimbsSlice bits slice with
  | some (n, false) => .ok n
  | some (_, true) => .panic
  | none => .panic

/-- `checked_from_limbs_slice` -/
def checkedFromLimbsSlice (bits : Nat) (slice : List Nat) : Res :=
  match overflowingFromLimbsSlice bits slice with
  | some (n, false) => .ok n
  | some (_, true) => .none
  | none => .panic

/-- `wrapping_from_limbs_slice` -/
def wrappingFromLimbsSlice (bits : Nat) (slice : List Nat) : Res :=
  match overflowingFromLimbsSlice bits slice with
  | some (n, _) => .ok n
  | none => .panic

/-- `saturating_from_limbs_slice` -/
def saturatingFromLimbsSlice (bits : Nat) (slice : List Nat) : Res :=
  match overflowingFromLimbsSlice bits slice with
  | some (n, false) => .ok n
  | some (_, true) => .ok (max bits)
  | none => .panic

/-! ## ill-formed `(BITS, LIMBS)` pairs

`impl Uint<BITS, LIMBS> { pub const LIMBS: usize = { let limbs = nlimbs(BITS); assert!(LIMBS == limbs, ..); limbs } }`
Evaluating the associated const fails (a compile-time error) unless the parameter `LIMBS` is `nlimbs(BITS)`.
Rust evaluates an associated const whenever a monomorphised body (or a const initialiser) mentions it, so a
constant/constructor is rejected for an ill-formed type exactly when its body transitively mentions
`Self::LIMBS` — the "guard graph" extracted from the source into `Ruint/Gen/GuardGraph.lean`. -/

/-- evaluation of the associated const `Self::LIMBS`; `none` = the compile-time assertion fails. -/
def limbsConst (bits limbs : Nat) : Option Nat :=
  if limbs = nlimbs bits then some (nlimbs bits) else none

/-- nodes reachable from the set `s` within `fuel` rounds along `edges` (adjacency lists by index). -/
def reachSet (edges : List (List Nat)) : Nat → List Nat → List Nat
  | 0, s => s
  | fuel + 1, s =>
    let next := ((s.flatMap fun i => edges.getD i []).filter fun j => !s.contains j).eraseDups
    if next.isEmpty then s else reachSet edges fuel (s ++ next)

/-- `target` is reachable from `start` (transitively mentioned by its body). -/
def reaches (edges : List (List Nat)) (start target : Nat) : Bool :=
  (reachSet edges edges.length [start]).contains target

end Ruint.Canon
