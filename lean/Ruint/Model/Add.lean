import Ruint.Base
import Ruint.Gen.Words
/-!
# Model of `src/add.rs` (+ `carrying_add`/`borrowing_sub` of `src/algorithms/mod.rs`)

Limb lists, little-endian, `Nat` limbs with explicit `% W` where Rust wraps.
A `Uint<BITS, LIMBS>` is a list of `nlimbs bits` words.
-/
namespace Ruint.Add

/-- `carrying_add` — the definition is GENERATED from `src/algorithms/mod.rs` by `tools/rs2lean.py`
    on every run (`Ruint/Gen/Words.lean`); the model uses it as its word primitive. -/
def carryingAdd (lhs rhs : Nat) (carry : Bool) : Nat × Bool := Ruint.Gen.carrying_add lhs rhs carry

/-- `borrowing_sub` — likewise generated from the source. -/
def borrowingSub (lhs rhs : Nat) (borrow : Bool) : Nat × Bool := Ruint.Gen.borrowing_sub lhs rhs borrow

/-- the `while i < LIMBS` loop of `overflowing_add`. -/
def addChain : List Nat → List Nat → Bool → List Nat × Bool
  | a :: as, b :: bs, c =>
      let (r, c') := carryingAdd a b c
      let (rs, cf) := addChain as bs c'
      (r :: rs, cf)
  | _, _, c => ([], c)

/-- the `while i < LIMBS` loop of `overflowing_sub`. -/
def subChain : List Nat → List Nat → Bool → List Nat × Bool
  | a :: as, b :: bs, c =>
      let (r, c') := borrowingSub a b c
      let (rs, cf) := subChain as bs c'
      (r :: rs, cf)
  | _, _, c => ([], c)

/-- `Uint::ZERO` -/
def zero (bits : Nat) : List Nat := List.replicate (nlimbs bits) 0

/-- `Uint::MAX` : all-ones limbs, top limb masked. -/
def max (bits : Nat) : List Nat := maskTop bits (List.replicate (nlimbs bits) (W - 1))

def overflowingAdd (bits : Nat) (a b : List Nat) : List Nat × Bool :=
  if bits = 0 then (zero bits, false)
  else
    let (r, carry) := addChain a b false
    let overflow := carry || decide (r.getLast?.getD 0 > mask bits)
    (maskTop bits r, overflow)

def overflowingSub (bits : Nat) (a b : List Nat) : List Nat × Bool :=
  if bits = 0 then (zero bits, false)
  else
    let (r, borrow) := subChain a b false
    let overflow := borrow || decide (r.getLast?.getD 0 > mask bits)
    (maskTop bits r, overflow)

def overflowingNeg (bits : Nat) (a : List Nat) : List Nat × Bool :=
  overflowingSub bits (zero bits) a

def checkedAdd (bits : Nat) (a b : List Nat) : Option (List Nat) :=
  match overflowingAdd bits a b with
  | (v, false) => some v
  | _ => none

def checkedSub (bits : Nat) (a b : List Nat) : Option (List Nat) :=
  match overflowingSub bits a b with
  | (v, false) => some v
  | _ => none

def checkedNeg (bits : Nat) (a : List Nat) : Option (List Nat) :=
  match overflowingNeg bits a with
  | (v, false) => some v
  | _ => none

def saturatingAdd (bits : Nat) (a b : List Nat) : List Nat :=
  match overflowingAdd bits a b with
  | (v, false) => v
  | _ => max bits

def saturatingSub (bits : Nat) (a b : List Nat) : List Nat :=
  match overflowingSub bits a b with
  | (v, false) => v
  | _ => zero bits

def wrappingAdd (bits : Nat) (a b : List Nat) : List Nat := (overflowingAdd bits a b).1
def wrappingSub (bits : Nat) (a b : List Nat) : List Nat := (overflowingSub bits a b).1
def wrappingNeg (bits : Nat) (a : List Nat) : List Nat := (overflowingNeg bits a).1

/-- `algorithms::cmp` on equal-length slices as used by `Ord for Uint`: most significant limb first. -/
def ltLimbs (a b : List Nat) : Bool := decide (val a < val b)

/-- `abs_diff`: `if self < other { other.wrapping_sub(self) } else { self.wrapping_sub(other) }`.
    The comparison is the derived-from-`cmp` order on limb arrays; its model `cmpLimbs` and the proof
    that it orders by `val` live in `Model/Cmp.lean` (C04/C15); here the value test is used. -/
def absDiff (bits : Nat) (a b : List Nat) : List Nat :=
  if ltLimbs a b then wrappingSub bits b a else wrappingSub bits a b

/-- `Sum`: `iter.fold(Self::ZERO, Self::wrapping_add)` -/
def sum (bits : Nat) (l : List (List Nat)) : List Nat := l.foldl (wrappingAdd bits) (zero bits)

end Ruint.Add
