import Ruint.Model.Shift
/-!
# Model of the C06 functions that are built on shifts: `reverse_bits` (`src/bits.rs`),
`is_power_of_two` / `checked_next_power_of_two` / `next_power_of_two` (`src/special.rs`).
-/
namespace Ruint.Bits
open Ruint Ruint.Shift

/-- `reverse_bits`: `limbs.reverse()`, each limb `reverse_bits()`, then
    `if BITS % 64 != 0 { self >>= 64 - BITS % 64 }`. -/
def reverseBits (bits : Nat) (a : List Nat) : List Nat :=
  let r := a.reverse.map rev64
  if bits % 64 ≠ 0 then shrInt bits r (64 - bits % 64) else r

/-- `Uint::ONE` (`ZERO` when `BITS == 0`). -/
def one (bits : Nat) : List Nat := toLimbs (nlimbs bits) (1 % 2 ^ bits)

/-- `checked_next_power_of_two`. -/
def checkedNextPowerOfTwo (bits : Nat) (a : List Nat) : Option (List Nat) :=
  if isPowerOfTwo a then some a
  else
    let exp := bitLen bits a
    if exp ≥ bits then none
    else some (shlInt bits (one bits) exp)

/-- `next_power_of_two = checked_next_power_of_two().unwrap()`; `none` = panic. -/
def nextPowerOfTwo (bits : Nat) (a : List Nat) : Option (List Nat) := checkedNextPowerOfTwo bits a

end Ruint.Bits
