import Ruint.Base
/-!
# Model of `src/algorithms/mul_redc.rs` (+ the `Uint::{mul,square}_redc` wrappers of `src/modular.rs`)

Limb lists, little-endian, `Nat` limbs in a **generic base `B`** (the driver and the property theorems
instantiate `B = W = 2^64`); explicit `% B`, `% (B*B)` where Rust wraps in `u64` / `u128`.
A fixed-size array `[u64; N]` is a list of length `N`.

The two carry thresholds (`modulus[N-1] >= 0x7fff_ffff_ffff_ffff`, `>= 0x3fff_ffff_ffff_ffff`) are
**parameters** `keepMul keepSq : Nat → Bool` (functions of the top limb of the modulus); they are
regenerated from the Rust source into `Ruint/Gen/RedcConsts.lean` on every run, where the hypotheses the
theorems need about them are re-proved.

`debug_assert!`s are mirrored: every function threads an `ok : Bool` flag that is cleared when an assertion
as written in the source would fire (the harness is built with `debug-assertions = on`); the top-level
functions return `none` (= panic) in that case.
-/
namespace Ruint.Redc

/-- `carrying_mul_add`: `lhs * rhs + add + carry` in `u128` (`wrapping_mul`, `wrapping_add`: the whole
    chain is arithmetic mod `B²`), returned as `(wide as u64, (wide >> 64) as u64)`. -/
def carryingMulAdd (B lhs rhs add carry : Nat) : Nat × Nat :=
  let wide := (lhs * rhs + add + carry) % (B * B)
  (wide % B, wide / B)

/-- `carrying_double_mul_add`: `2 * lhs * rhs + add + carry_lo + 2^64 * carry_hi` with the two
    `overflowing_add`s on `u128` and the returned flag `carry_1 | carry_2`. -/
def carryingDoubleMulAdd (B lhs rhs add carryLo : Nat) (carryHi : Bool) : Nat × Nat × Bool :=
  let wide := (lhs * rhs) % (B * B)
  let s1 := wide + wide
  let carry1 := decide (B * B ≤ s1)
  let wide := s1 % (B * B)
  let carries := (add + carryLo + carryHi.toNat * B) % (B * B)
  let s2 := wide + carries
  let carry2 := decide (B * B ≤ s2)
  let wide := s2 % (B * B)
  (wide % B, wide / B, carry1 || carry2)

/-- `carrying_add` of `algorithms/mod.rs` in base `B`. -/
def carryingAdd (B lhs rhs : Nat) (carry : Bool) : Nat × Bool :=
  let s1 := lhs + rhs
  let r1 := s1 % B
  let c1 := decide (B ≤ s1)
  let s2 := r1 + carry.toNat
  let r2 := s2 % B
  let c2 := decide (B ≤ s2)
  (r2, c1 || c2)

/-- `borrowing_sub` of `algorithms/mod.rs` in base `B`. -/
def borrowingSub (B lhs rhs : Nat) (borrow : Bool) : Nat × Bool :=
  let r1 := (lhs + B - rhs) % B
  let b1 := decide (lhs < rhs)
  let r2 := (r1 + B - borrow.toNat) % B
  let b2 := decide (r1 < borrow.toNat)
  (r2, b1 || b2)

/-- `sub` of `mul_redc.rs`: limb-wise `borrowing_sub`, returns the difference and the final borrow. -/
def sub (B : Nat) : List Nat → List Nat → Bool → List Nat × Bool
  | l :: ls, r :: rs, bw =>
      let (v, bw') := borrowingSub B l r bw
      let rest := sub B ls rs bw'
      (v :: rest.1, rest.2)
  | _, _, bw => ([], bw)

/-- `reduce1_carry`: `if carry | !borrow { reduced } else { value }`. -/
def reduce1Carry (B : Nat) (value modulus : List Nat) (carry : Bool) : List Nat :=
  let (reduced, borrow) := sub B value modulus false
  if carry || !borrow then reduced else value

/-! ## `mul_redc` -/

/-- the `for i in 0..N` loop of `mul_redc` at positions `i ≥ 1` (`result[i - 1] = value`):
    returns the shifted limbs and the two running carries. -/
def mulInner (B b m : Nat) : List Nat → List Nat → List Nat → Nat → Nat → List Nat × Nat × Nat
  | a :: as, mo :: ms, r :: rs, c1, c2 =>
      let (v1, c1') := carryingMulAdd B a b r c1
      let (v2, c2') := carryingMulAdd B mo m v1 c2
      let rest := mulInner B b m as ms rs c1' c2'
      (v2 :: rest.1, rest.2.1, rest.2.2)
  | _, _, _, c1, c2 => ([], c1, c2)

/-- state of the outer loop: `result`, `carry`, and the conjunction of the `debug_assert`s so far. -/
structure MulSt where
  res : List Nat
  carry : Bool
  ok : Bool

/-- one iteration of `for b in b` (position `i = 0` computes the reduction factor `m`, then `mulInner`,
    then "add carries" with the threshold arm). `keep` = `modulus[N - 1] >= 0x7fff_ffff_ffff_ffff`. -/
def mulOuter (B inv : Nat) (keep : Bool) (b : Nat) (a md : List Nat) (s : MulSt) : MulSt :=
  match a, md, s.res with
  | a0 :: as, m0 :: ms, r0 :: rs =>
      let (v1, c1) := carryingMulAdd B a0 b r0 0
      let m := (v1 * inv) % B
      let (v2, c2) := carryingMulAdd B m0 m v1 0
      -- `debug_assert_eq!(value, 0)`
      let ok1 := decide (v2 = 0)
      let rest := mulInner B b m as ms rs c1 c2
      let (top, nextCarry) := carryingAdd B rest.2.1 rest.2.2 s.carry
      if keep then
        { res := rest.1 ++ [top], carry := nextCarry, ok := s.ok && ok1 }
      else
        -- `debug_assert!(!next_carry)`; the carry variable keeps its old value
        { res := rest.1 ++ [top], carry := s.carry, ok := s.ok && ok1 && !nextCarry }
  | _, _, _ => s

/-- `for b in b { … }` -/
def mulLoop (B inv : Nat) (keep : Bool) (a md : List Nat) : List Nat → MulSt → MulSt
  | [], s => s
  | b :: bs, s => mulLoop B inv keep a md bs (mulOuter B inv keep b a md s)

/-- the three `debug_assert_eq!`s at the head of `mul_redc` (`cmp` = comparison of values, C15). -/
def preOk (B inv : Nat) (a md : List Nat) : Bool :=
  decide ((inv * md.headD 0) % B = B - 1) && decide (valB B a < valB B md)

/-- `mul_redc::<N>(a, b, modulus, inv)`; second component `false` = a `debug_assert` fired. -/
def mulRedcCore (B : Nat) (keepMul : Nat → Bool) (inv : Nat) (a b md : List Nat) : List Nat × Bool :=
  let keep := keepMul (md.getLastD 0)
  let ok0 := preOk B inv a md && decide (valB B b < valB B md)
  let s := mulLoop B inv keep a md b { res := List.replicate md.length 0, carry := false, ok := ok0 }
  (reduce1Carry B s.res md s.carry, s.ok)

def mulRedc (B : Nat) (keepMul : Nat → Bool) (inv : Nat) (a b md : List Nat) : Option (List Nat) :=
  let r := mulRedcCore B keepMul inv a b md
  if r.2 then some r.1 else none

/-! ## `square_redc` -/

/-- `for j in (i + 1)..N { carrying_double_mul_add(a[i], a[j], result[j], carry_lo, carry_hi) }` -/
def sqRow (B ai : Nat) : List Nat → List Nat → Nat → Bool → List Nat × Nat × Bool
  | aj :: as, r :: rs, clo, chi =>
      let (v, clo', chi') := carryingDoubleMulAdd B ai aj r clo chi
      let rest := sqRow B ai as rs clo' chi'
      (v :: rest.1, rest.2.1, rest.2.2)
  | _, _, clo, chi => ([], clo, chi)

/-- `for j in 1..N { (value, carry) = carrying_mul_add(modulus[j], m, result[j], carry); result[j-1] = value }` -/
def redRow (B m : Nat) : List Nat → List Nat → Nat → List Nat × Nat
  | mo :: ms, r :: rs, c =>
      let (v, c') := carryingMulAdd B mo m r c
      let rest := redRow B m ms rs c'
      (v :: rest.1, rest.2)
  | _, _, c => ([], c)

structure SqSt where
  res : List Nat
  carryOuter : Nat
  ok : Bool

/-- iteration `i` of `for i in 0..N`; `ai :: as = a[i..]`. `keep` = `modulus[N - 1] >= 0x3fff_ffff_ffff_ffff`. -/
def sqOuter (B inv : Nat) (keep : Bool) (i ai : Nat) (as md : List Nat) (s : SqSt) : SqSt :=
  match s.res.drop i, md with
  | ri :: rs, m0 :: ms =>
      -- add limb product
      let (v, clo) := carryingMulAdd B ai ai ri 0
      let row := sqRow B ai as rs clo false
      let res1 := s.res.take i ++ v :: row.1
      let carryLo := row.2.1
      let carryHi := row.2.2
      -- add m times modulus to result and shift one limb
      let r0 := res1.headD 0
      let m := (r0 * inv) % B
      let (v0, c) := carryingMulAdd B m m0 r0 0
      let ok1 := decide (v0 = 0)
      let red := redRow B m ms res1.tail c
      let carry := red.2
      if keep then
        let wide := (s.carryOuter + carryLo + carryHi.toNat * B + carry) % (B * B)
        let co := wide / B
        -- `debug_assert!(carry_outer <= 2)`
        { res := red.1 ++ [wide % B], carryOuter := co, ok := s.ok && ok1 && decide (co ≤ 2) }
      else
        -- `debug_assert!(!carry_hi); debug_assert_eq!(carry_outer, 0);`
        -- `carry_lo.overflowing_add(carry)`, `debug_assert!(!carry)`
        let sum := carryLo + carry
        { res := red.1 ++ [sum % B], carryOuter := s.carryOuter,
          ok := s.ok && ok1 && !carryHi && decide (s.carryOuter = 0) && decide (sum < B) }
  | _, _ => s

/-- `for i in 0..N { … }`, recursion over the not-yet-used suffix `a[i..]`. -/
def sqLoop (B inv : Nat) (keep : Bool) (md : List Nat) : List Nat → Nat → SqSt → SqSt
  | [], _, s => s
  | ai :: as, i, s => sqLoop B inv keep md as (i + 1) (sqOuter B inv keep i ai as md s)

/-- `square_redc::<N>(a, modulus, inv)`; second component `false` = a `debug_assert` fired. -/
def squareRedcCore (B : Nat) (keepSq : Nat → Bool) (inv : Nat) (a md : List Nat) : List Nat × Bool :=
  let keep := keepSq (md.getLastD 0)
  let s := sqLoop B inv keep md a 0
    { res := List.replicate md.length 0, carryOuter := 0, ok := preOk B inv a md }
  -- `debug_assert!(carry_outer <= 1)`
  (reduce1Carry B s.res md (decide (s.carryOuter > 0)), s.ok && decide (s.carryOuter ≤ 1))

def squareRedc (B : Nat) (keepSq : Nat → Bool) (inv : Nat) (a md : List Nat) : Option (List Nat) :=
  let r := squareRedcCore B keepSq inv a md
  if r.2 then some r.1 else none

/-! ## `Uint::mul_redc`, `Uint::square_redc` (`src/modular.rs`) -/

/-- `Uint::from_limbs` (hard `assert!` on the top limb when the width is not limb-aligned) followed by
    `debug_assert!(result < modulus)`. -/
def fromLimbsChecked (bits : Nat) (r md : List Nat) : Option (List Nat) :=
  if (bits % 64 ≠ 0 && decide (r.getLastD 0 > mask bits)) then none
  else if decide (val r < val md) then some r else none

/-- `Uint::<BITS, LIMBS>::mul_redc(self, other, modulus, inv)`: `BITS == 0` returns `ZERO`. -/
def uintMulRedc (keepMul : Nat → Bool) (bits inv : Nat) (a b md : List Nat) : Option (List Nat) :=
  if bits = 0 then some []
  else match mulRedc W keepMul inv a b md with
    | none => none
    | some r => fromLimbsChecked bits r md

/-- `Uint::<BITS, LIMBS>::square_redc(self, modulus, inv)`. -/
def uintSquareRedc (keepSq : Nat → Bool) (bits inv : Nat) (a md : List Nat) : Option (List Nat) :=
  if bits = 0 then some []
  else match squareRedc W keepSq inv a md with
    | none => none
    | some r => fromLimbsChecked bits r md

end Ruint.Redc
