import Ruint.Model.Canon
/-!
# Model of `src/bytes.rs` (+ `trim_end_*` of `src/utils.rs`) — C08

A `Uint<BITS, LIMBS>` is a list of `nlimbs bits` words; bytes are `Nat`s `< 256`.
Little-endian host (the `cfg(target_endian = "big")` arms are out of scope).

* encoders: the limb array reinterpreted as bytes (`as_le_slice`), copies, reversal, trimming,
  `copy_{le,be}_bytes_to` and their checked forms;
* decoders: `try_from_{be,le}_slice` with **both** code paths (whole-limb fast path when
  `BYTES % 8 = 0 ∧ len = BYTES`; the accumulation loop + top-limb check), and the panicking forms.
-/
namespace Ruint.Bytes
open Ruint Ruint.Canon

/-- `Self::BYTES = (BITS + 7) / 8` -/
def nbytes (bits : Nat) : Nat := (bits + 7) / 8

/-- the `n` low base-256 digits of `v`, least significant first (`u64::to_le_bytes` for `n = 8`). -/
def bytesLE : Nat → Nat → List Nat
  | 0, _ => []
  | n + 1, v => v % 256 :: bytesLE n (v / 256)

/-- the limb array seen as bytes in memory on a little-endian host. -/
def memBytes (limbs : List Nat) : List Nat := limbs.flatMap (bytesLE 8)

/-- `as_le_slice`: `slice::from_raw_parts(limbs.as_ptr().cast(), BYTES)` -/
def asLeSlice (bits : Nat) (limbs : List Nat) : List Nat := (memBytes limbs).take (nbytes bits)

/-- `as_le_bytes` (little-endian host: the borrowed slice) -/
def asLeBytes := asLeSlice

/-- `trim_end_slice(slice, &0)` / `trim_end_vec`: cut after the last non-zero element
    (`rposition(|b| b != 0).map_or(0, |i| i + 1)`). -/
def trimEnd : List Nat → List Nat
  | [] => []
  | x :: xs =>
    match trimEnd xs with
    | [] => if x = 0 then [] else [x]
    | t => x :: t

def asLeBytesTrimmed (bits : Nat) (limbs : List Nat) : List Nat := trimEnd (asLeBytes bits limbs)

/-- `to_le_bytes::<N>()`: `assert!(N == Self::BYTES)` then a copy of the slice. `none` = panic. -/
def toLeBytes (bits n : Nat) (limbs : List Nat) : Option (List Nat) :=
  if n = nbytes bits then some (asLeSlice bits limbs) else none

/-- `to_be_bytes::<N>()`: `to_le_bytes` then the in-place reversal loop. -/
def toBeBytes (bits n : Nat) (limbs : List Nat) : Option (List Nat) :=
  (toLeBytes bits n limbs).map List.reverse

def toLeBytesVec (bits : Nat) (limbs : List Nat) : List Nat := asLeBytes bits limbs
def toLeBytesTrimmedVec (bits : Nat) (limbs : List Nat) : List Nat := asLeBytesTrimmed bits limbs
def toBeBytesVec (bits : Nat) (limbs : List Nat) : List Nat := (toLeBytesVec bits limbs).reverse
def toBeBytesTrimmedVec (bits : Nat) (limbs : List Nat) : List Nat :=
  (toLeBytesTrimmedVec bits limbs).reverse

/-- `copy_le_bytes_to`: `debug_assert!(buf.len() >= BYTES)` (release: the slicing panics), then
    `buf[..BYTES].copy_from_slice(as_le_slice)`. `none` = panic. -/
def copyLeBytesTo (bits : Nat) (limbs buf : List Nat) : Option (Nat × List Nat) :=
  if buf.length < nbytes bits then none
  else some (nbytes bits, asLeSlice bits limbs ++ buf.drop (nbytes bits))

/-- `checked_copy_le_bytes_to`: `None` (buffer untouched) when too short. Outer `none` = panic. -/
def checkedCopyLeBytesTo (bits : Nat) (limbs buf : List Nat) : Option (Option Nat × List Nat) :=
  if buf.length < nbytes bits then some (none, buf)
  else (copyLeBytesTo bits limbs buf).map fun (n, b) => (some n, b)

/-- `u64::to_be_bytes` -/
def wordBytesBE (w : Nat) : List Nat := (bytesLE 8 w).reverse

/-- the `rchunks_mut(8)` loop of `copy_be_bytes_to` over the region `buf[..BYTES]`:
    the last (up to) 8 bytes of the region receive the low limb's big-endian bytes
    `be[8 - chunk.len()..]`, and so on towards the front; `zip` stops at the shorter side. -/
def copyBeRegion : List Nat → List Nat → List Nat
  | [], region => region
  | l :: ls, region =>
    if region.isEmpty then region
    else
      let c := min 8 region.length
      copyBeRegion ls (region.take (region.length - c)) ++ (wordBytesBE l).drop (8 - c)

def copyBeBytesTo (bits : Nat) (limbs buf : List Nat) : Option (Nat × List Nat) :=
  if buf.length < nbytes bits then none
  else some (nbytes bits, copyBeRegion limbs (buf.take (nbytes bits)) ++ buf.drop (nbytes bits))

def checkedCopyBeBytesTo (bits : Nat) (limbs buf : List Nat) : Option (Option Nat × List Nat) :=
  if buf.length < nbytes bits then some (none, buf)
  else (copyBeBytesTo bits limbs buf).map fun (n, b) => (some n, b)

/-! ## decoders -/

/-- `u64::from_le_bytes` of a chunk -/
def wordOfLE : List Nat → Nat
  | [] => 0
  | b :: bs => b + 256 * wordOfLE bs

/-- `u64::from_be_bytes` of a chunk -/
def wordOfBE (bs : List Nat) : Nat := bs.foldl (fun a b => a * 256 + b) 0

/-- fast path of `try_from_le_slice`: limb `i` = `from_le_bytes(bytes[8i .. 8i+8])` -/
def chunksLE : Nat → List Nat → List Nat
  | 0, _ => []
  | n + 1, bs => wordOfLE (bs.take 8) :: chunksLE n (bs.drop 8)

/-- fast path of `try_from_be_slice`: limb `i` = `from_be_bytes(*end.sub((i + 1) * 8))`,
    i.e. the 8 bytes ending `8i` before the end. -/
def chunksBE : Nat → List Nat → List Nat
  | 0, _ => []
  | n + 1, bs => wordOfBE (bs.drop (bs.length - 8)) :: chunksBE n (bs.take (bs.length - 8))

/-- `limbs[k] += d` -/
def addAt : List Nat → Nat → Nat → List Nat
  | [], _, _ => []
  | x :: xs, 0, d => (x + d) :: xs
  | x :: xs, k + 1, d => x :: addAt xs k d

/-- the accumulation loop `while i < len { limbs[i / 8] += (byte_i as u64) << ((i % 8) * 8); i += 1 }`
    with `byteAt i` the byte consumed at step `i`; `fuel` = remaining iterations. -/
def accLoop (byteAt : Nat → Nat) : Nat → Nat → List Nat → List Nat
  | 0, _, l => l
  | fuel + 1, i, l => accLoop byteAt fuel (i + 1) (addAt l (i / 8) (byteAt i * 256 ^ (i % 8)))

/-- common tail of both decoders after the limbs are filled:
    `if LIMBS > 0 && limbs[LIMBS-1] > MASK { return None }; Some(from_limbs(limbs))` -/
def checkTop (bits : Nat) (limbs : List Nat) : Res :=
  if nlimbs bits > 0 && decide (top limbs > mask bits) then .none
  else match fromLimbs bits limbs with
    | some l => .ok l
    | none => .panic

/-- `try_from_le_slice` (repaired code: the fast path range-checks before constructing). -/
def tryFromLeSlice (bits : Nat) (bytes : List Nat) : Res :=
  if bytes.length > nbytes bits then .none
  else if nbytes bits % 8 = 0 ∧ bytes.length = nbytes bits then
    checkTop bits (chunksLE (nlimbs bits) bytes)
  else
    checkTop bits (accLoop (fun i => bytes.getD i 0) bytes.length 0 (List.replicate (nlimbs bits) 0))

/-- `try_from_be_slice` (repaired code). In the loop `c = len - 1 - i` after `c -= 1`. -/
def tryFromBeSlice (bits : Nat) (bytes : List Nat) : Res :=
  if bytes.length > nbytes bits then .none
  else if nbytes bits % 8 = 0 ∧ bytes.length = nbytes bits then
    checkTop bits (chunksBE (nlimbs bits) bytes)
  else
    checkTop bits (accLoop (fun i => bytes.getD (bytes.length - 1 - i) 0) bytes.length 0
      (List.replicate (nlimbs bits) 0))

/-- the pre-fix fast path: `return Some(Self::from_limbs(limbs))` without the range check
    (kept to state the defect as a theorem). -/
def tryFromBeSliceOld (bits : Nat) (bytes : List Nat) : Res :=
  if bytes.length > nbytes bits then .none
  else if nbytes bits % 8 = 0 ∧ bytes.length = nbytes bits then
    match fromLimbs bits (chunksBE (nlimbs bits) bytes) with
    | some l => .ok l
    | none => .panic
  else
    checkTop bits (accLoop (fun i => bytes.getD (bytes.length - 1 - i) 0) bytes.length 0
      (List.replicate (nlimbs bits) 0))

/-- `from_le_slice`: `None => panic!` -/
def fromLeSlice (bits : Nat) (bytes : List Nat) : Res :=
  match tryFromLeSlice bits bytes with
  | .ok l => .ok l
  | _ => .panic

def fromBeSlice (bits : Nat) (bytes : List Nat) : Res :=
  match tryFromBeSlice bits bytes with
  | .ok l => .ok l
  | _ => .panic

/-- `from_le_bytes::<N>(bytes)`: `assert!(N == Self::BYTES)` then `from_le_slice`. -/
def fromLeBytes (bits : Nat) (bytes : List Nat) : Res :=
  if bytes.length = nbytes bits then fromLeSlice bits bytes else .panic

def fromBeBytes (bits : Nat) (bytes : List Nat) : Res :=
  if bytes.length = nbytes bits then fromBeSlice bits bytes else .panic

end Ruint.Bytes
