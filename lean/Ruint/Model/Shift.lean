import Ruint.Model.Bits
/-!
# Model of the shift / rotate part of `src/bits.rs` (C05)

`overflowing_shl/shr` exactly as written: `(limbs, bits) = (rhs / 64, rhs % 64)`, the early return
for `limbs >= LIMBS`, the per-limb loop with the carry recurrence, the final mask (shl only), and the
lost-bit flag (carry out of the last kept limb, OR limbs moved out whole, OR bits removed by the mask —
the code after the `fix:` commit for DESIGN §9 C05). Words are `Nat < W`; `x << k` on `u64` is `(x * 2^k) % W`, `x >> k` is `x / 2^k`,
`|` is `|||`.
-/
namespace Ruint.Shift
open Ruint Ruint.Bits

/-- the `for i in 0..LIMBS - limbs` loop of `overflowing_shl` over the limbs that stay
    (little-endian): `r[i+limbs] = (x << bits) | carry; carry = (x >> (64 - bits - 1)) >> 1`. -/
def shlLoop (b : Nat) : List Nat → Nat → List Nat × Nat
  | [], carry => ([], carry)
  | x :: xs, carry =>
    let r := (x * 2 ^ b) % W ||| carry
    let carry' := x / 2 ^ (64 - b - 1) / 2
    let (rs, cf) := shlLoop b xs carry'
    (r :: rs, cf)

/-- the `for i in 0..LIMBS - limbs` loop of `overflowing_shr`; the list is the kept limbs **most
    significant first** (`x = self.limbs[LIMBS-1-i]`): `r = (x >> bits) | carry;
    carry = (x << (64 - bits - 1)) << 1` (both `<<` wrap at 64 bits). -/
def shrLoop (b : Nat) : List Nat → Nat → List Nat × Nat
  | [], carry => ([], carry)
  | x :: xs, carry =>
    let r := x / 2 ^ b ||| carry
    let carry' := ((x * 2 ^ (64 - b - 1)) % W * 2) % W
    let (rs, cf) := shrLoop b xs carry'
    (r :: rs, cf)

/-- `self != Self::ZERO` (derived `PartialEq` on the limb array). -/
def isNonzero (a : List Nat) : Bool := a.any (· != 0)

/-- `overflowing_shl`. -/
def overflowingShl (bits : Nat) (a : List Nat) (rhs : Nat) : List Nat × Bool :=
  let limbs := rhs / 64
  let b := rhs % 64
  if limbs ≥ nlimbs bits then (zero bits, isNonzero a)
  else
    let (r, carry) := shlLoop b (a.take (nlimbs bits - limbs)) 0
    let r := List.replicate limbs 0 ++ r
    -- `for i in LIMBS - limbs..LIMBS { overflow |= self.limbs[i] != 0 }`, `r.limbs[LIMBS-1] > MASK`
    let overflow := carry != 0 || isNonzero (a.drop (nlimbs bits - limbs))
      || decide (r.getLast?.getD 0 > mask bits)
    (maskTop bits r, overflow)

/-- `overflowing_shr`. -/
def overflowingShr (bits : Nat) (a : List Nat) (rhs : Nat) : List Nat × Bool :=
  let limbs := rhs / 64
  let b := rhs % 64
  if limbs ≥ nlimbs bits then (zero bits, isNonzero a)
  else
    let (r, carry) := shrLoop b (a.drop limbs).reverse 0
    let r := r.reverse ++ List.replicate limbs 0
    -- `for i in 0..limbs { overflow |= self.limbs[i] != 0 }`
    let overflow := carry != 0 || isNonzero (a.take limbs)
    (r, overflow)

def checkedShl (bits : Nat) (a : List Nat) (rhs : Nat) : Option (List Nat) :=
  match overflowingShl bits a rhs with
  | (v, false) => some v
  | _ => none

def saturatingShl (bits : Nat) (a : List Nat) (rhs : Nat) : List Nat :=
  match overflowingShl bits a rhs with
  | (v, false) => v
  | _ => maxU bits

def wrappingShl (bits : Nat) (a : List Nat) (rhs : Nat) : List Nat := (overflowingShl bits a rhs).1

def checkedShr (bits : Nat) (a : List Nat) (rhs : Nat) : Option (List Nat) :=
  match overflowingShr bits a rhs with
  | (v, false) => some v
  | _ => none

def wrappingShr (bits : Nat) (a : List Nat) (rhs : Nat) : List Nat := (overflowingShr bits a rhs).1

/-- `arithmetic_shr`: `sign = bit(BITS-1); r = self >> rhs; if sign { r |= MAX << BITS.saturating_sub(rhs) }`. -/
def arithmeticShr (bits : Nat) (a : List Nat) (rhs : Nat) : List Nat :=
  if bits = 0 then zero bits
  else
    let sign := bit bits a (bits - 1)
    let r := wrappingShr bits a rhs
    if sign then bitOr r (wrappingShl bits (maxU bits) (bits - rhs)) else r

/-- `rotate_left`: `rhs % BITS`, `(self << rhs) | (self >> (BITS - rhs))`. -/
def rotateLeft (bits : Nat) (a : List Nat) (rhs : Nat) : List Nat :=
  if bits = 0 then zero bits
  else
    let rhs := rhs % bits
    bitOr (wrappingShl bits a rhs) (wrappingShr bits a (bits - rhs))

/-- `rotate_right`: `rhs % BITS`, `self.rotate_left(BITS - rhs)`. -/
def rotateRight (bits : Nat) (a : List Nat) (rhs : Nat) : List Nat :=
  if bits = 0 then zero bits
  else
    let rhs := rhs % bits
    rotateLeft bits a (bits - rhs)

/-- `Shl<$int> for Uint`: `self.wrapping_shl(rhs as usize)`; the amount reaches the model as the
    non-negative integer value (all integer types up to 64 bits cast losslessly). The `&$int`,
    `ShlAssign<$int>` and `ShlAssign<&$int>` forms forward to this one. -/
def shlInt (bits : Nat) (a : List Nat) (rhs : Nat) : List Nat := wrappingShl bits a rhs
def shrInt (bits : Nat) (a : List Nat) (rhs : Nat) : List Nat := wrappingShr bits a rhs

/-- `Shl<Uint> for Uint`: `if BITS == 0 { return self }`; any non-zero limb above the first in the
    amount (amount `≥ 2^64`) → `ZERO`; else `self.wrapping_shl(rhs.as_limbs()[0] as usize)`.
    (`&Uint`, `ShlAssign<Uint>`, `ShlAssign<&Uint>` forward to it.) -/
def shlUint (bits : Nat) (a : List Nat) (rhs : List Nat) : List Nat :=
  if bits = 0 then a
  else if isNonzero (rhs.drop 1) then zero bits
  else wrappingShl bits a (rhs.headD 0)

def shrUint (bits : Nat) (a : List Nat) (rhs : List Nat) : List Nat :=
  if bits = 0 then a
  else if isNonzero (rhs.drop 1) then zero bits
  else wrappingShr bits a (rhs.headD 0)

end Ruint.Shift
