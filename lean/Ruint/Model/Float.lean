import Ruint.Base
/-!
# Bit-level IEEE-754 model (binary64 / binary32) and the float conversions of `src/from.rs` (C18)

Lean's `Float` is opaque to the kernel and is **not** used. A float is its bit pattern (`Nat`);
`decode` gives the class and, for finite values, `(sign, m, e)` with value `(-1)^sign · m · 2^e`.
`rne` is round-to-nearest-even of an exact dyadic `m · 2^e` to the format, including subnormals and
overflow to infinity. Arithmetic the Rust code performs on floats (`value + 0.5`, `value % modulus`,
`bits as f64`, `f32 as f64`, `x * exp2(k)`, comparisons) is *exact result, then `rne`*, which is what
IEEE-754 prescribes; each such step is validated against the host FPU by the `hw_*` operations of the
C18 harness on every run.

Core Lean only (this file is linked into the driver executable).
-/
namespace Ruint.Float

/-- An IEEE-754 binary interchange format: `eb` exponent bits, `mb` stored fraction bits. -/
structure Fmt where
  eb : Nat
  mb : Nat

def b64 : Fmt := ⟨11, 52⟩
def b32 : Fmt := ⟨8, 23⟩

namespace Fmt
def bias (f : Fmt) : Nat := 2 ^ (f.eb - 1) - 1
/-- the all-ones biased exponent (infinities and NaNs). -/
def emaxB (f : Fmt) : Nat := 2 ^ f.eb - 1
/-- exponent of the least significant mantissa bit for biased exponent 1 and for subnormals
    (`-1074` for binary64, `-149` for binary32). -/
def qmin (f : Fmt) : Int := 1 - (f.bias : Int) - (f.mb : Int)
def infBits (f : Fmt) : Nat := f.emaxB * 2 ^ f.mb
def signBit (f : Fmt) : Nat := 2 ^ (f.eb + f.mb)
/-- the canonical quiet NaN (`f64::NAN`). -/
def nanBits (f : Fmt) : Nat := f.infBits + 2 ^ (f.mb - 1)
end Fmt

/-- Decoded float: value of `fin neg m e` is `(-1)^neg · m · 2^e`. -/
inductive Dec where
  | nan
  | inf (neg : Bool)
  | fin (neg : Bool) (m : Nat) (e : Int)
deriving DecidableEq, Repr

def decode (f : Fmt) (x : Nat) : Dec :=
  let frac := x % 2 ^ f.mb
  let be := (x / 2 ^ f.mb) % 2 ^ f.eb
  let neg := decide ((x / 2 ^ (f.mb + f.eb)) % 2 = 1)
  if be = f.emaxB then (if frac = 0 then .inf neg else .nan)
  else if be = 0 then .fin neg frac f.qmin
  else .fin neg (2 ^ f.mb + frac) (f.qmin + ((be - 1 : Nat) : Int))

/-- number of significant bits. -/
def bitLen (n : Nat) : Nat := if n = 0 then 0 else Nat.log2 n + 1

/-- `m / 2^k` rounded to nearest, ties to the even quotient. -/
def rneShift (m k : Nat) : Nat :=
  let q := m / 2 ^ k
  let r := m % 2 ^ k
  if 2 ^ k < 2 * r ∨ (2 * r = 2 ^ k ∧ q % 2 = 1) then q + 1 else q

/-- magnitude bits (sign bit clear) of `m · 2^e` rounded to nearest-even in format `f`:
    choose the exponent `q` of the last kept bit (`p = mb+1` significant bits, not below `qmin`),
    round the mantissa, and assemble `(q - qmin)·2^mb + M` — a mantissa carry (`M = 2^p`) and the
    subnormal/normal boundary are absorbed by the addition; results at or above the infinity pattern
    are infinity. -/
def rneMag (f : Fmt) (m : Nat) (e : Int) : Nat :=
  if m = 0 then 0
  else
    let q : Int := max (e + (bitLen m : Int) - ((f.mb + 1 : Nat) : Int)) f.qmin
    let M := if q ≤ e then m * 2 ^ (e - q).toNat else rneShift m (q - e).toNat
    let r := (q - f.qmin).toNat * 2 ^ f.mb + M
    if f.infBits ≤ r then f.infBits else r

def sgn (f : Fmt) (neg : Bool) : Nat := if neg then f.signBit else 0

/-- bit pattern of `(-1)^neg · m · 2^e` rounded to nearest-even. -/
def rne (f : Fmt) (neg : Bool) (m : Nat) (e : Int) : Nat := sgn f neg + rneMag f m e

def inf (f : Fmt) (neg : Bool) : Nat := sgn f neg + f.infBits

/-! ## classification and comparison -/

def isNaN (f : Fmt) (x : Nat) : Bool := match decode f x with | .nan => true | _ => false

/-- `is_normal`: neither zero, subnormal, infinite nor NaN. -/
def isNormal (f : Fmt) (x : Nat) : Bool :=
  let be := (x / 2 ^ f.mb) % 2 ^ f.eb
  be != 0 && be != f.emaxB

/-- `abs`: clear the sign bit. -/
def abs (f : Fmt) (x : Nat) : Nat := x % f.signBit

def sInt (neg : Bool) (n : Nat) : Int := if neg then - (n : Int) else (n : Int)

/-- IEEE `<` on decoded values (`false` when either side is NaN; `-0 < +0` is false). -/
def Dec.lt : Dec → Dec → Bool
  | .nan, _ => false
  | _, .nan => false
  | .inf n1, .inf n2 => n1 && !n2
  | .inf n1, .fin _ _ _ => n1
  | .fin _ _ _, .inf n2 => !n2
  | .fin n1 m1 e1, .fin n2 m2 e2 =>
    let c := min e1 e2
    decide (sInt n1 (m1 * 2 ^ (e1 - c).toNat) < sInt n2 (m2 * 2 ^ (e2 - c).toNat))

/-- IEEE `<=`. -/
def Dec.le : Dec → Dec → Bool
  | .nan, _ => false
  | _, .nan => false
  | .inf n1, .inf n2 => n1 || !n2
  | .inf n1, .fin _ _ _ => n1
  | .fin _ _ _, .inf n2 => !n2
  | .fin n1 m1 e1, .fin n2 m2 e2 =>
    let c := min e1 e2
    decide (sInt n1 (m1 * 2 ^ (e1 - c).toNat) ≤ sInt n2 (m2 * 2 ^ (e2 - c).toNat))

def lt (f : Fmt) (x y : Nat) : Bool := (decode f x).lt (decode f y)
def ge (f : Fmt) (x y : Nat) : Bool := (decode f y).le (decode f x)

/-! ## arithmetic: exact result, then `rne` -/

/-- `x + y`. -/
def add (f : Fmt) (x y : Nat) : Nat :=
  match decode f x, decode f y with
  | .nan, _ => f.nanBits
  | _, .nan => f.nanBits
  | .inf n1, .inf n2 => if n1 = n2 then inf f n1 else f.nanBits
  | .inf n1, .fin _ _ _ => inf f n1
  | .fin _ _ _, .inf n2 => inf f n2
  | .fin n1 m1 e1, .fin n2 m2 e2 =>
    let c := min e1 e2
    let s : Int := sInt n1 (m1 * 2 ^ (e1 - c).toNat) + sInt n2 (m2 * 2 ^ (e2 - c).toNat)
    if s = 0 then sgn f (n1 && n2)   -- exact zero: +0 unless both operands are negative (zeros)
    else rne f (decide (s < 0)) s.natAbs c

/-- `x * y`. -/
def mul (f : Fmt) (x y : Nat) : Nat :=
  match decode f x, decode f y with
  | .nan, _ => f.nanBits
  | _, .nan => f.nanBits
  | .inf n1, .inf n2 => inf f (n1 != n2)
  | .inf n1, .fin n2 m2 _ => if m2 = 0 then f.nanBits else inf f (n1 != n2)
  | .fin n1 m1 _, .inf n2 => if m1 = 0 then f.nanBits else inf f (n1 != n2)
  | .fin n1 m1 e1, .fin n2 m2 e2 => rne f (n1 != n2) (m1 * m2) (e1 + e2)

/-- `x % y` (C `fmod`): exact, sign of `x`. -/
def fmod (f : Fmt) (x y : Nat) : Nat :=
  match decode f x, decode f y with
  | .nan, _ => f.nanBits
  | _, .nan => f.nanBits
  | .inf _, _ => f.nanBits
  | .fin _ _ _, .inf _ => x
  | .fin n1 m1 e1, .fin _ m2 e2 =>
    if m2 = 0 then f.nanBits
    else
      let c := min e1 e2
      rne f n1 ((m1 * 2 ^ (e1 - c).toNat) % (m2 * 2 ^ (e2 - c).toNat)) c

/-- `(k as fN).exp2()` for a non-negative integer `k`: `2^k`, or `+∞` beyond the exponent range.
    (libm; exactness on integer arguments is checked against the host for every reachable `k`.) -/
def exp2Int (f : Fmt) (k : Nat) : Nat :=
  if k ≤ f.bias then (k + f.bias) * 2 ^ f.mb else f.infBits

/-- `n as fN` for an unsigned integer. -/
def ofNat (f : Fmt) (n : Nat) : Nat := rne f false n 0

/-- `x as f64` for an `f32` (exact). -/
def f32ToF64 (x : Nat) : Nat :=
  match decode b32 x with
  | .nan => b64.nanBits
  | .inf n => inf b64 n
  | .fin n m e => rne b64 n m e

/-- the constant `0.5`. -/
def half (f : Fmt) : Nat := (f.bias - 1) * 2 ^ f.mb
/-- the constant `+0.0`. -/
def zero : Nat := 0

/-! ## `TryFrom<f64>` / `TryFrom<f32>` for `Uint` (src/from.rs), value level -/

/-- outcome of `Uint::try_from(float)`; payloads are values `< 2^bits`. -/
inductive Res where
  | ok (v : Nat)
  | tooLarge (w : Nat)
  | negative (w : Nat)
  | notANumber
  | panic
deriving DecidableEq, Repr

/-- `TryFrom<u64>` (value level): `Ok(v)` when it fits, else `ValueTooLarge(v & MASK)`. -/
def tryFromU64 (bits v : Nat) : Res :=
  if v < 2 ^ bits then .ok v else .tooLarge (v % 2 ^ bits)

/-- `overflowing_shl` (value level, as documented: flag iff bits are lost). -/
def oshl (bits v k : Nat) : Nat × Bool := ((v * 2 ^ k) % 2 ^ bits, decide (2 ^ bits ≤ v * 2 ^ k))

/-- `wrapping_neg`. -/
def wneg (bits v : Nat) : Nat := (2 ^ bits - v) % 2 ^ bits

/-- `2^52` as an `f64`: from here on every finite `f64` is an integer. -/
def two52 : Nat := (52 + 1023) * 2 ^ 52

/-- the part of `try_from(f64)` after the range checks: rounding offset, field extraction, shift.
    `fixed = false` is the code before the C18 repair (`value + 0.5` unconditionally), `fixed = true`
    the repaired code (`+ 0.5` only below `2^52`). -/
def tfMain (fixed : Bool) (bits x : Nat) : Res :=
  if !isNormal b64 x then .panic                        -- assert!(value.is_normal())
  else
    let v := if fixed && ge b64 x two52 then x else add b64 x (half b64)
    let sign := v / 2 ^ 63
    if sign ≠ 0 then .panic                              -- assert!(sign == 0)
    else
      let be := (v / 2 ^ 52) % 2 ^ 11
      if be < 1023 then .panic                           -- assert!(biased_exponent >= 1023)
      else
        let exponent := be - 1023
        let mantissa := 2 ^ 52 + v % 2 ^ 52
        if exponent > bits + 52 then .tooLarge 0
        else if exponent ≤ 52 then tryFromU64 bits (mantissa / 2 ^ (52 - exponent))
        else
          match tryFromU64 bits mantissa with
          | .ok n =>
            let (n', ov) := oshl bits n (exponent - 52)
            if ov then .tooLarge n' else .ok n'
          | r => r                                       -- `?`

/-- `try_from(f64)` with the source's recursion (on `|value|` and on `value % modulus`) as fuel. -/
def tryFromF64F (fixed : Bool) : Nat → Nat → Nat → Res
  | 0, _, _ => .panic
  | fuel + 1, bits, x =>
    if isNaN b64 x then .notANumber
    else if lt b64 x zero then
      let w := match tryFromF64F fixed fuel bits (abs b64 x) with
        | .ok n => n
        | .tooLarge n => n
        | _ => 0
      .negative (wneg bits w)
    else
      let modulus := exp2Int b64 bits
      if ge b64 x modulus then
        let w := match tryFromF64F fixed fuel bits (fmod b64 x modulus) with
          | .ok n => n
          | .tooLarge n => n
          | _ => 0
        .tooLarge w
      else if lt b64 x (half b64) then .ok 0
      else tfMain fixed bits x

/-- `Uint::<bits>::try_from(f64)` on the repaired tree. -/
def tryFromF64 (bits x : Nat) : Res := tryFromF64F true 3 bits x
/-- the same before the repair (kept for the defect witness). -/
def tryFromF64Old (bits x : Nat) : Res := tryFromF64F false 3 bits x

/-- `try_from(f32)`: `Self::try_from(value as f64)`. -/
def tryFromF32 (bits x : Nat) : Res := tryFromF64 bits (f32ToF64 x)
def tryFromF32Old (bits x : Nat) : Res := tryFromF64Old bits (f32ToF64 x)

/-- `saturating_from`: `Ok(n) → n`, `ValueTooLarge → MAX`, `ValueNegative | NotANumber → ZERO`. -/
def saturating (bits : Nat) : Res → Option Nat
  | .ok n => some n
  | .tooLarge _ => some (2 ^ bits - 1)
  | .negative _ => some 0
  | .notANumber => some 0
  | .panic => none

/-- `wrapping_from`: the wrapped payload; `NotANumber → ZERO`. -/
def wrapping : Res → Option Nat
  | .ok n => some n
  | .tooLarge n => some n
  | .negative n => some n
  | .notANumber => some 0
  | .panic => none

/-- `Uint::from`: panics on every error. -/
def fromOrPanic : Res → Option Nat
  | .ok n => some n
  | _ => none

/-! ## `From<&Uint> for f64 / f32` -/

/-- `rposition(|limb| limb != 0).unwrap_or(0)`. -/
def firstSetLimb : List Nat → Nat
  | [] => 0
  | _ :: xs => if xs.any (· != 0) then firstSetLimb xs + 1 else 0

/-- `u64::leading_zeros`. -/
def lz64 (x : Nat) : Nat := 64 - bitLen x

/-- `most_significant_bits` of `src/bits.rs` on the limb list. -/
def msb (l : List Nat) : Nat × Nat :=
  let i := firstSetLimb l
  if i = 0 then (l.headD 0, 0)
  else
    let hi := l.getD i 0
    let lo := l.getD (i - 1) 0
    let z := lz64 hi
    let b := if z > 0 then ((hi * 2 ^ z) % W) ||| (lo / 2 ^ (64 - z)) else hi
    (b, i * 64 - z)

/-- value-level description of `most_significant_bits`: the top 64 bits and how many were cut. -/
def msbSpec (v : Nat) : Nat × Nat :=
  let e := bitLen v - 64
  (v / 2 ^ e, e)

/-- `(bits as fN) * (exponent as fN).exp2()`. -/
def toFloatOf (f : Fmt) (p : Nat × Nat) : Nat := mul f (ofNat f p.1) (exp2Int f p.2)

/-- `f64::from(&Uint)` / `f32::from(&Uint)` on limbs. -/
def toFloat (f : Fmt) (l : List Nat) : Nat := toFloatOf f (msb l)
/-- the same on the value (what the theorems are stated about; `msb_eq_spec` links the two). -/
def toFloatV (f : Fmt) (v : Nat) : Nat := toFloatOf f (msbSpec v)

/-! ## independent specifications (used by the driver's spec column and by the theorems) -/

/-- `⌊m·2^e + 1/2⌋` for a non-negative dyadic. -/
def floorHalf (m : Nat) (e : Int) : Nat :=
  if 0 ≤ e then m * 2 ^ e.toNat
  else (2 * m + 2 ^ (-e).toNat) / 2 ^ ((-e).toNat + 1)

/-- largest float pattern of format `f` whose value is `≤ v` (round toward zero; `v` a natural number). -/
def roundDown (f : Fmt) (v : Nat) : Nat :=
  if v = 0 then 0
  else
    let k := bitLen v - (f.mb + 1)
    let r := rneMag f (v / 2 ^ k) k          -- exact: at most `mb+1` significant bits
    if r = f.infBits then f.infBits - 1 else r

/-- is `v` exactly representable in `f`? -/
def representable (f : Fmt) (v : Nat) : Bool :=
  v = 0 || (v % 2 ^ (bitLen v - (f.mb + 1)) = 0 && bitLen v ≤ f.bias + 1)

/-- first natural number that round-to-nearest-even sends to `+∞`
    (`2^1024 − 2^970` for binary64, `2^128 − 2^103` for binary32). -/
def infThreshold (f : Fmt) : Nat := 2 ^ (f.bias + 1) - 2 ^ (f.bias - f.mb - 1)

end Ruint.Float
