import Ruint.Model.Div
/-!
# Model of the `Uint` division surface: `src/div.rs`, `next_multiple_of`/`checked_next_multiple_of` of `src/special.rs`

A `Uint<BITS, LIMBS>` is a list of `nlimbs bits` words. `div_rem` is `algorithms::div` on the two limb
arrays (L0 model `Ruint.Div.div`, C14). `none` = panic; the checked forms return `Option (Option _)`
(outer `none` = panic, never produced for them — a theorem).

`div_ceil` and `checked_next_multiple_of` are L2 compositions (DESIGN §3.3a): the control structure is
mirrored, `q + ONE`, `checked_add(ONE)` and `checked_mul(rhs)` enter by their value-level meaning
(`(a + b) % 2^bits`, `a + b < 2^bits`, `a * b < 2^bits`: the C01/C02 theorems).
-/
namespace Ruint.DivU
open Ruint.Div

/-- `is_zero`: `*self == Self::ZERO` (all limbs zero) -/
def isZero (a : List Nat) : Bool := a.all (· == 0)

/-- `div_rem`: `algorithms::div(&mut self.limbs, &mut rhs.limbs); (self, rhs)`. -/
def divRem (_bits : Nat) (a b : List Nat) : Option (List Nat × List Nat) := div a b

/-- `wrapping_div` (and `/`, `/=` in all six operand shapes, via `impl_bin_op!`) -/
def wrappingDiv (bits : Nat) (a b : List Nat) : Option (List Nat) := (divRem bits a b).map (·.1)

/-- `wrapping_rem` (and `%`, `%=`) -/
def wrappingRem (bits : Nat) (a b : List Nat) : Option (List Nat) := (divRem bits a b).map (·.2)

/-- `checked_div` -/
def checkedDiv (bits : Nat) (a b : List Nat) : Option (Option (List Nat)) :=
  if isZero b then some none else (wrappingDiv bits a b).map some

/-- `checked_rem` -/
def checkedRem (bits : Nat) (a b : List Nat) : Option (Option (List Nat)) :=
  if isZero b then some none else (wrappingRem bits a b).map some

/-- `Uint` from a value, as the wrapped L1 operations produce it -/
def ofVal (bits v : Nat) : List Nat := toLimbs (nlimbs bits) (v % 2 ^ bits)

/-- `div_ceil`: `let (q, r) = self.div_rem(rhs); if r.is_zero() { q } else { q + Self::ONE }` -/
def divCeil (bits : Nat) (a b : List Nat) : Option (List Nat) :=
  match divRem bits a b with
  | none => none
  | some (q, r) => if isZero r then some q else some (ofVal bits (val q + 1 % 2 ^ bits))

/-- `checked_next_multiple_of` -/
def checkedNextMultipleOf (bits : Nat) (a b : List Nat) : Option (Option (List Nat)) :=
  if isZero b then some none
  else
    match divRem bits a b with
    | none => none
    | some (q, r) =>
      if isZero r then some (some a)
      else
        -- `let q = q.checked_add(Self::ONE)?;`
        let q1 := val q + 1 % 2 ^ bits
        if ¬ (q1 < 2 ^ bits) then some none
        else
          -- `q.checked_mul(rhs)`
          let p := q1 * val b
          if p < 2 ^ bits then some (some (ofVal bits p)) else some none

/-- `next_multiple_of` as repaired (`fix:` commit): `self.checked_next_multiple_of(rhs).unwrap()`. -/
def nextMultipleOf (bits : Nat) (a b : List Nat) : Option (List Nat) :=
  match checkedNextMultipleOf bits a b with
  | some (some v) => some v
  | _ => none

/-- `next_multiple_of` on the pinned tree: `self.checked_next_multiple_of(rhs).unwrap(); todo!()` — always panics. -/
def nextMultipleOfPinned (bits : Nat) (a b : List Nat) : Option (List Nat) :=
  match checkedNextMultipleOf bits a b with
  | _ => none

end Ruint.DivU
