import Ruint.Model.DivKnuth
import Ruint.Model.DivRecip
/-!
# `ruint::algorithms::div` and its public kernels, 64-bit limbs (`src/algorithms/div/*.rs`)

These are the functions the C14 driver executes and the C14/C03 theorems are about. Slices are
little-endian `List Nat`; an in-place kernel returns the contents of its slices afterwards.
`none` = panic. `leading_zeros` of a non-zero word `x` is `63 - Nat.log2 x`.
-/
namespace Ruint.Div

/-- `u64::leading_zeros` for a non-zero word -/
def lz (x : Nat) : Nat := 63 - Nat.log2 x

/-- `reciprocal` (= `reciprocal_mg10`) -/
def reciprocal (d : Nat) : Nat := Recip.recipModel d

/-- `reciprocal_2` (= `reciprocal_2_mg10`), `d` the `u128` divisor -/
def reciprocal2 (d : Nat) : Nat := KFull.recip2Code d

/-- `div_2x1` (= `div_2x1_mg10`) on `u128 u`, words `d v` -/
def div2x1w (u d v : Nat) : Nat × Nat := div2x1 W u d v

/-- `div_3x2` (= `div_3x2_mg10`) on `u128 u21`, word `u0`, `u128 d`, word `v` -/
def div3x2w (u21 u0 d v : Nat) : Nat × Nat := div3x2 W u21 u0 d v

/-- `for u in u.iter_mut().rev() { (q, r) = div_2x1(join(r, *u), d, v); *u = q }`, little-endian list,
    returns (quotient limbs, remainder). -/
def nx1Loop (B d v : Nat) : List Nat → List Nat × Nat
  | [] => ([], 0)
  | u :: us =>
      let r := nx1Loop B d v us
      let s := div2x1 B (r.2 * B + u) d v
      (s.1 :: r.1, s.2)

/-- `div_nx1_normalized(u, d)`: (limbs afterwards = quotient, returned remainder) -/
def divNx1Normalized (u : List Nat) (d : Nat) : List Nat × Nat :=
  nx1Loop W d (reciprocal d) u

/-- the shift-on-the-fly loop of `div_nx1`, little-endian list; `b` is the limb just below the list
    (its top bits feed the lowest fused digit; `0` below the whole array: `first << shift`).
    At the empty list `b` is the top limb: initial remainder `last >> (64 - shift)`.
    Fused digit `(x << shift) | (b >> (64 - shift))` = `(x * T) % B + b / U`. -/
def nx1ShLoop (B T U d v : Nat) : Nat → List Nat → List Nat × Nat
  | b, [] => ([], b / U)
  | b, x :: xs =>
      let r := nx1ShLoop B T U d v x xs
      let s := div2x1 B (r.2 * B + ((x * T) % B + b / U)) d v
      (s.1 :: r.1, s.2)

/-- `div_nx1(limbs, divisor)`: (limbs afterwards = quotient, returned remainder) -/
def divNx1 (limbs : List Nat) (divisor : Nat) : List Nat × Nat :=
  let shift := lz divisor
  if shift = 0 then divNx1Normalized limbs divisor
  else
    let T := 2 ^ shift
    let U := 2 ^ (64 - shift)
    let d := (divisor * T) % W
    let r := nx1ShLoop W T U d (reciprocal d) 0 limbs
    (r.1, r.2 / T)

/-- `for u in u.iter_mut().rev() { (q, r) = div_3x2(remainder, *u, d, v); *u = q }` -/
def nx2Loop (B d v : Nat) : List Nat → List Nat × Nat
  | [] => ([], 0)
  | u :: us =>
      let r := nx2Loop B d v us
      let s := div3x2 B r.2 u d v
      (s.1 :: r.1, s.2)

/-- `div_nx2_normalized(u, d)`, `d` a `u128` -/
def divNx2Normalized (u : List Nat) (d : Nat) : List Nat × Nat :=
  nx2Loop W d (reciprocal2 d) u

/-- the shift-on-the-fly loop of `div_nx2` (as `nx1ShLoop`, over `div_3x2`) -/
def nx2ShLoop (B T U d v : Nat) : Nat → List Nat → List Nat × Nat
  | b, [] => ([], b / U)
  | b, x :: xs =>
      let r := nx2ShLoop B T U d v x xs
      let s := div3x2 B r.2 ((x * T) % B + b / U) d v
      (s.1 :: r.1, s.2)

/-- `div_nx2(limbs, divisor)`, `divisor` a `u128` in `[2^64, 2^128)` -/
def divNx2 (limbs : List Nat) (divisor : Nat) : List Nat × Nat :=
  let shift := lz (divisor / W)
  if shift = 0 then divNx2Normalized limbs divisor
  else
    let T := 2 ^ shift
    let U := 2 ^ (64 - shift)
    let d := (divisor * T) % (W * W)
    let r := nx2ShLoop W T U d (reciprocal2 d) 0 limbs
    (r.1, r.2 / T)

/-- `div_nxm(numerator, divisor)`: (numerator afterwards = quotient zero padded, divisor afterwards = remainder) -/
def divNxm (num ds : List Nat) : List Nat × List Nat :=
  let n := ds.length
  let sh := lz (ds.getD (n - 1) 0)
  let T := 2 ^ sh
  let U := 2 ^ (64 - sh)
  let d := (ds.getD (n - 1) 0 * 2 ^ 64 + ds.getD (n - 2) 0) * T + ds.getD (n - 3) 0 / U
  KArr.divNxmArr T U num ds d (reciprocal2 d)

/-- `div_nxm_normalized(numerator, divisor)`: numerator afterwards (remainder in the low `n` limbs,
    quotient in the limbs above); `none` = panic. -/
def divNxmNormalized (num ds : List Nat) : Option (List Nat) :=
  let n := ds.length
  let d := ds.getD (n - 1) 0 * W + ds.getD (n - 2) 0
  KN.divNxmNormArr W num ds (reciprocal2 d)

/-- `l[..=i]` for `i = l.iter().rposition(|x| x != 0)`; `[]` when every limb is zero. -/
def trim : List Nat → List Nat
  | [] => []
  | x :: xs =>
    match trim xs with
    | [] => if x = 0 then [] else [x]
    | t => x :: t

/-- the dispatch of `algorithms::div` on the trimmed operands (`numerator.len() >= divisor.len() >= 1`):
    (quotient limbs, remainder limbs) -/
def divDispatch (nt dt : List Nat) : List Nat × List Nat :=
  if dt.length ≤ 2 then
    if dt.length = 1 then
      if nt.length = 1 then ([nt.getD 0 0 / dt.getD 0 0], [nt.getD 0 0 % dt.getD 0 0])
      else
        let r := divNx1 nt (dt.getD 0 0)
        (r.1, [r.2])
    else
      let r := divNx2 nt (dt.getD 1 0 * W + dt.getD 0 0)
      (r.1, [r.2 % W, r.2 / W])
  else divNxm nt dt

/-- `algorithms::div(numerator, divisor)`: (numerator afterwards = quotient, divisor afterwards = remainder);
    `none` = panic ("Divisor is zero"). -/
def div (num ds : List Nat) : Option (List Nat × List Nat) :=
  let dt := trim ds
  if dt.isEmpty then none
  else
    let nt := trim num
    if nt.isEmpty then
      -- empty numerator: `divisor.fill(0)` on the trimmed divisor
      some (num, List.replicate dt.length 0 ++ ds.drop dt.length)
    else if nt.length < dt.length then
      -- numerator smaller than divisor: (q, r) = (0, numerator)
      some (List.replicate nt.length 0 ++ num.drop nt.length,
            nt ++ List.replicate (dt.length - nt.length) 0 ++ ds.drop dt.length)
    else
      let qr := divDispatch nt dt
      some (qr.1 ++ num.drop nt.length, qr.2 ++ ds.drop dt.length)

end Ruint.Div
