import Ruint.Base
/-!
# Model of `src/base_convert.rs` and `src/string.rs`  (C09)

Layering (DESIGN §3.3a):
* `spigotNext` / `collect` / `toBaseLE` / `toBaseBE` and `fromBaseLE` are **L2**: the control structure of the
  Rust code is mirrored (one short division of the whole number per `next()`, `None` when the number before
  the step was zero; running `power`, break on its overflow, zero-tail loop), the bodies use the value-level
  specifications of the word kernels (`remainder/quotient by a word`, `addmul_nx1`, `mul_nx1` — C15/C14).
  `spigotNextLimbs` is the limb-level (L1) short division of `SpigotLittle::next`; `Lemmas/Radix.lean` proves
  it refines `spigotNext`.
* `fromBaseBE` is limb level: the `u128` carry chain of the Horner step is `mulAddChain`.
* `fromStrRadix` / `fromStr` work on `List Char` (the `chars()` of the `&str`).
-/
namespace Ruint.Radix

/-! ## digits -/

/-- little-endian base-`b` digits of `v` (fuel-recursive; `digitsLE` gives enough fuel).
    `Lemmas/Radix.lean`: `digitsLE b v = Nat.digits b v` for `b ≥ 2`. -/
def digitsAux (b : Nat) : Nat → Nat → List Nat
  | 0, _ => []
  | f + 1, v => if v = 0 then [] else v % b :: digitsAux b f (v / b)

def digitsLE (b v : Nat) : List Nat := digitsAux b v v

/-- value of little-endian digits (Horner) — `Nat.ofDigits` without Mathlib. -/
def ofDigitsLE (b : Nat) : List Nat → Nat
  | [] => 0
  | d :: ds => d + b * ofDigitsLE b ds

/-! ## `SpigotLittle` -/

/-- `SpigotLittle::next` (L2): the digit is `None` when the number *before* the step is zero;
    the state becomes the quotient. -/
def spigotNext (base v : Nat) : Option Nat × Nat :=
  (if v = 0 then none else some (v % base), v / base)

/-- the short-division loop of `SpigotLittle::next` on big-endian limbs:
    `remainder = (remainder << 64) | limb; limb = (remainder / base) as u64; remainder %= base`. -/
def shortDivBE (base : Nat) : List Nat → Nat → List Nat × Nat
  | [], r => ([], r)
  | x :: xs, r =>
    let cur := r * W + x
    let q := (cur / base) % W
    let r' := cur % base
    let (qs, rf) := shortDivBE base xs r'
    (q :: qs, rf)

/-- `SpigotLittle::next` on the (little-endian) limb array: `zero |= limb` over all limbs. -/
def spigotNextLimbs (base : Nat) (l : List Nat) : Option Nat × List Nat :=
  let (qs, r) := shortDivBE base l.reverse 0
  (if l.all (· == 0) then none else some (r % W), qs.reverse)

/-- `.collect()` of the spigot: call `next` until `None`. -/
def collect (base : Nat) : Nat → Nat → List Nat
  | 0, _ => []
  | f + 1, v =>
    match spigotNext base v with
    | (none, _) => []
    | (some d, v') => d :: collect base f v'

/-- the same on limbs (used by the driver to cross-check the two levels). -/
def collectLimbs (base : Nat) : Nat → List Nat → List Nat
  | 0, _ => []
  | f + 1, l =>
    match spigotNextLimbs base l with
    | (none, _) => []
    | (some d, l') => d :: collectLimbs base f l'

/-- `to_base_le(base).collect()`; `none` = the `assert!(base > 1)` panic. `v < 2^bits`, so `bits + 1`
    calls of `next` reach the `None`. -/
def toBaseLE (bits base v : Nat) : Option (List Nat) :=
  if base > 1 then some (collect base (bits + 1) v) else none

/-- `to_base_be`: collects `to_base_le` into a `Vec` and pops from the back. -/
def toBaseBE (bits base v : Nat) : Option (List Nat) :=
  if base > 1 then some (collect base (bits + 1) v).reverse else none

/-! ## `from_base_le` / `from_base_be` -/

inductive BaseErr
  | overflow
  | invalidBase (b : Nat)
  | invalidDigit (d b : Nat)
  deriving DecidableEq, Repr

/-- the two loops over "following digits must be zero" (also the whole of the `BITS == 0` arm). -/
def zeroTail (base : Nat) : List Nat → Option BaseErr
  | [] => none
  | d :: ds =>
    if d ≥ base then some (.invalidDigit d base)
    else if d ≠ 0 then some .overflow
    else zeroTail base ds

/-- main loop of `from_base_le` (L2). `n = LIMBS`. `addmul_nx1(result, power, digit)` stores
    `total % W^n` and returns the carry limb `total / W^n`; `top > MASK ⇔ stored ≥ 2^bits`. -/
def fromBaseLELoop (bits base : Nat) : List Nat → Nat → Nat → Except BaseErr Nat
  | [], result, _ => .ok result
  | d :: ds, result, power =>
    if d ≥ base then .error (.invalidDigit d base)
    else
      let n := nlimbs bits
      let total := result + power * d
      let carry := total / W ^ n
      let stored := total % W ^ n
      if carry ≠ 0 ∨ stored ≥ 2 ^ bits then .error .overflow
      else
        let ptotal := power * base
        let pcarry := ptotal / W ^ n
        let pstored := ptotal % W ^ n
        if pcarry ≠ 0 ∨ pstored ≥ 2 ^ bits then
          -- `break`: following digits must be zero
          match zeroTail base ds with
          | some e => .error e
          | none => .ok stored
        else fromBaseLELoop bits base ds stored pstored

def fromBaseLE (bits base : Nat) (digits : List Nat) : Except BaseErr Nat :=
  if base < 2 then .error (.invalidBase base)
  else if bits = 0 then
    match zeroTail base digits with
    | some e => .error e
    | none => .ok 0
  else fromBaseLELoop bits base digits 0 1

/-- the inner `for limb in &mut result.limbs` loop of `from_base_be` (and of the macro's `parse_digits`):
    `carry += limb * base; limb = carry as u64; carry >>= 64`. Returns the new limbs and the final carry. -/
def mulAddChain (base : Nat) : List Nat → Nat → List Nat × Nat
  | [], c => ([], c)
  | x :: xs, c =>
    let t := c + x * base
    let (r, cf) := mulAddChain base xs (t / W)
    (t % W :: r, cf)

/-- the `for digit in digits` loop of `from_base_be`, on limbs. -/
def fromBaseBELoop (bits base : Nat) : List Nat → List Nat → Except BaseErr (List Nat)
  | [], r => .ok r
  | d :: ds, r =>
    if d ≥ base then .error (.invalidDigit d base)
    else
      let (r', carry) := mulAddChain base r d
      if carry > 0 ∨ (nlimbs bits ≠ 0 ∧ r'.getLast?.getD 0 > mask bits) then .error .overflow
      else fromBaseBELoop bits base ds r'

def fromBaseBE (bits base : Nat) (digits : List Nat) : Except BaseErr (List Nat) :=
  if base < 2 then .error (.invalidBase base)
  else fromBaseBELoop bits base digits (List.replicate (nlimbs bits) 0)

/-! ## `from_str_radix`, `FromStr` -/

inductive ParseErr
  | invalidChar (c : Char)
  | invalidRadix (r : Nat)
  | base (e : BaseErr)
  deriving DecidableEq, Repr

/-- what the `filter_map` closure does with one character (before the latch). -/
inductive CharClass
  | digit (d : Nat)
  | ignored
  | bad
  deriving DecidableEq, Repr

def inRange (lo hi c : Char) : Bool := lo.toNat ≤ c.toNat && c.toNat ≤ hi.toNat

/-- the two `match c` tables of `from_str_radix`. -/
def classify (radix : Nat) (c : Char) : CharClass :=
  if radix ≤ 36 then
    if inRange '0' '9' c then .digit (c.toNat - '0'.toNat)
    else if inRange 'a' 'z' c then .digit (c.toNat - 'a'.toNat + 10)
    else if inRange 'A' 'Z' c then .digit (c.toNat - 'A'.toNat + 10)
    else if c = '_' then .ignored
    else .bad
  else
    if inRange 'A' 'Z' c then .digit (c.toNat - 'A'.toNat)
    else if inRange 'a' 'z' c then .digit (c.toNat - 'a'.toNat + 26)
    else if inRange '0' '9' c then .digit (c.toNat - '0'.toNat + 52)
    else if c = '+' ∨ c = '-' then .digit 62
    else if c = '/' ∨ c = ',' ∨ c = '_' then .digit 63
    else if c = '=' ∨ c = '\r' ∨ c = '\n' then .ignored
    else .bad

/-- the digit stream produced by `src.chars().filter_map(..)` together with the final state of the
    `err` latch: digits up to the first bad character (afterwards the closure yields nothing). -/
def scan (radix : Nat) : List Char → List Nat × Option Char
  | [] => ([], none)
  | c :: cs =>
    match classify radix c with
    | .digit d => let (ds, e) := scan radix cs; (d :: ds, e)
    | .ignored => scan radix cs
    | .bad => ([], some c)

/-- `from_str_radix`. `from_base_be(radix, digits)?` returns its error first (whatever the latch holds);
    otherwise the latched character error wins over the value. -/
def fromStrRadix (bits radix : Nat) (src : List Char) : Except ParseErr (List Nat) :=
  if radix > 64 then .error (.invalidRadix radix)
  else
    let (digits, err) := scan radix src
    match fromBaseBE bits radix digits with
    | .error e => .error (.base e)
    | .ok v =>
      match err with
      | some c => .error (.invalidChar c)
      | none => .ok v

/-- `str::is_char_boundary(k)` over the characters of the string (UTF-8 sizes). -/
def isCharBoundary : List Char → Nat → Bool
  | _, 0 => true
  | [], _ + 1 => false
  | c :: cs, k + 1 => if k + 1 < c.utf8Size then false else isCharBoundary cs (k + 1 - c.utf8Size)

/-- `split_at(k)` at a character boundary: the characters before byte `k`, and the rest. -/
def splitAtByte : List Char → Nat → List Char × List Char
  | cs, 0 => ([], cs)
  | [], _ + 1 => ([], [])
  | c :: cs, k + 1 =>
    if k + 1 < c.utf8Size then ([], c :: cs)
    else let (a, b) := splitAtByte cs (k + 1 - c.utf8Size); (c :: a, b)

/-- `FromStr::from_str`: prefix sniffing. -/
def fromStr (bits : Nat) (src : List Char) : Except ParseErr (List Nat) :=
  let (src', radix) :=
    if isCharBoundary src 2 then
      let (pfx, rest) := splitAtByte src 2
      if pfx = ['0', 'x'] ∨ pfx = ['0', 'X'] then (rest, 16)
      else if pfx = ['0', 'o'] ∨ pfx = ['0', 'O'] then (rest, 8)
      else if pfx = ['0', 'b'] ∨ pfx = ['0', 'B'] then (rest, 2)
      else (src, 10)
    else (src, 10)
  fromStrRadix bits radix src'

end Ruint.Radix
