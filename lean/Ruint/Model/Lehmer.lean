import Ruint.Base
/-!
# Model of `src/algorithms/gcd/matrix.rs` (`LehmerMatrix`)

Level L0/L2: the matrix constructors work on machine words (`u64`, `u128`), modelled on `Nat` with an explicit
`% W` / `% 2^128` at every operation that wraps in Rust (`wadd`/`wsub`/`wmul`); `Matrix::from` and `Matrix::apply`
work on `Uint` *values* (`Nat` below `2^bits`) through the value-level meaning of the `Uint` operations they
call (`bit_len`, `>>`, `try_into`, `Uint::from(u64)`, wrapping `*` and `-`).

A panic (`assert!`, `debug_assert!` in the dev profile the harness is built with, `Uint::from` on a word that
does not fit, shift overflow) is the outcome `none`.
-/
namespace Ruint.Lehmer
open Ruint

/-- `Matrix(.0, .1, .2, .3, .4)`; signs are implicit, `.4 = true` means `[[+,-],[-,+]]`. -/
abbrev Mat := Nat × Nat × Nat × Nat × Bool

/-- `Matrix::IDENTITY` -/
def ident : Mat := (1, 0, 0, 1, true)

/-- `const LIMIT: u64 = 1 << 32` -/
def LIMIT : Nat := 2 ^ 32

/-- `u64` wrapping add / sub / mul (release semantics; the theorems show no wrap ever happens). -/
def wadd (x y : Nat) : Nat := (x + y) % W
def wsub (x y : Nat) : Nat := (x + W - y) % W
def wmul (x y : Nat) : Nat := (x * y) % W

/-! ## `compose` -/

/-- `Matrix::compose` (`u64` arithmetic). -/
def compose (m n : Mat) : Mat :=
  (wadd (wmul m.1 n.1) (wmul m.2.1 n.2.2.1),
   wadd (wmul m.1 n.2.1) (wmul m.2.1 n.2.2.2.1),
   wadd (wmul m.2.2.1 n.1) (wmul m.2.2.2.1 n.2.2.1),
   wadd (wmul m.2.2.1 n.2.1) (wmul m.2.2.2.1 n.2.2.2.1),
   Bool.xor m.2.2.2.2 (!n.2.2.2.2))

/-! ## `apply`, `apply_u128` -/

/-- wrapping `Uint` multiplication / subtraction at value level, `M = 2^bits`. -/
def umul (M x y : Nat) : Nat := (x * y) % M
def usub (M x y : Nat) : Nat := (x + M - y) % M

/-- `Matrix::apply` on `Uint<bits>` values. `Uint::from(self.i)` panics when the word does not fit. -/
def apply (bits : Nat) (m : Mat) (a b : Nat) : Option (Nat × Nat) :=
  if bits = 0 then some (a, b)
  else
    let M := 2 ^ bits
    if M ≤ m.1 ∨ M ≤ m.2.1 ∨ M ≤ m.2.2.1 ∨ M ≤ m.2.2.2.1 then none
    else if m.2.2.2.2 then
      some (usub M (umul M m.1 a) (umul M m.2.1 b), usub M (umul M m.2.2.2.1 b) (umul M m.2.2.1 a))
    else
      some (usub M (umul M m.2.1 b) (umul M m.1 a), usub M (umul M m.2.2.1 a) (umul M m.2.2.2.1 b))

/-- `Matrix::apply_u128`: everything `wrapping_*` on `u128`. -/
def applyU128 (m : Mat) (a b : Nat) : Nat × Nat :=
  let M := 2 ^ 128
  if m.2.2.2.2 then
    (usub M (umul M m.1 a) (umul M m.2.1 b), usub M (umul M m.2.2.2.1 b) (umul M m.2.2.1 a))
  else
    (usub M (umul M m.2.1 b) (umul M m.1 a), usub M (umul M m.2.2.1 a) (umul M m.2.2.2.1 b))

/-! ## `from_u64` — extended Euclid on words -/

/-- the `loop` of `from_u64` (unrolled once, as in the source). Fuel exhaustion is unreachable
    (`r1` strictly decreases per round); it returns the current even-orientation matrix. -/
def fromU64Loop : Nat → Nat → Nat → Nat → Nat → Nat → Nat → Mat
  | 0, _, _, q00, q01, q10, q11 => (q00, q01, q10, q11, true)
  | f + 1, r0, r1, q00, q01, q10, q11 =>
    let q := r0 / r1
    let r0 := wsub r0 (wmul q r1)
    let q00 := wadd q00 (wmul q q10)
    let q01 := wadd q01 (wmul q q11)
    if r0 = 0 then (q10, q11, q00, q01, false)
    else
      let q := r1 / r0
      let r1 := wsub r1 (wmul q r0)
      let q10 := wadd q10 (wmul q q00)
      let q11 := wadd q11 (wmul q q01)
      if r1 = 0 then (q00, q01, q10, q11, true)
      else fromU64Loop f r0 r1 q00 q01 q10 q11

/-- `Matrix::from_u64`. `none` = `debug_assert!(r0 >= r1)` fails. -/
def fromU64 (r0 r1 : Nat) : Option Mat :=
  if r0 < r1 then none
  else if r1 = 0 then some ident
  else some (fromU64Loop (r1 + 1) r0 r1 1 0 0 1)

/-! ## `from_u64_prefix` — packed cofactors `k = u·2^32 + v`, loop unrolled twice -/

/-- loop state: the last three remainders, the last four packed cofactor words, the parity flag. -/
structure PSt where
  (a1 a2 a3 k0 k1 k2 k3 : Nat)
  (even : Bool)
deriving Repr

/-- one half of the loop body:
    `a1 = a2; a2 = a3; a3 = a1; k0 = k1; k1 = k2; k2 = k3; k3 = k1; q = a3 / a2; a3 -= q*a2; k3 += q*k2`. -/
def pHalf (s : PSt) : PSt :=
  let a1 := s.a2
  let a2 := s.a3
  let a3 := a1
  let k0 := s.k1
  let k1 := s.k2
  let k2 := s.k3
  let k3 := k1
  let q := a3 / a2
  { a1 := a1, a2 := a2, a3 := wsub a3 (wmul q a2), k0 := k0, k1 := k1, k2 := k2,
    k3 := wadd k3 (wmul q k2), even := s.even }

/-- `while a3 >= LIMIT { half; if a3 < LIMIT { even = false; break }; half }` -/
def pLoop : Nat → PSt → PSt
  | 0, s => s
  | f + 1, s =>
    if LIMIT ≤ s.a3 then
      let s1 := pHalf s
      if s1.a3 < LIMIT then { s1 with even := false }
      else pLoop f (pHalf s1)
    else s

/-- unpack the `k` words and apply Jebelean's exactness conditions (the six final return sites). -/
def pSelect (s : PSt) : Mat :=
  let u0 := s.k0 / LIMIT
  let u1 := s.k1 / LIMIT
  let u2 := s.k2 / LIMIT
  let u3 := s.k3 / LIMIT
  let v0 := s.k0 % LIMIT
  let v1 := s.k1 % LIMIT
  let v2 := s.k2 % LIMIT
  let v3 := s.k3 % LIMIT
  if s.even then
    if wadd u2 u1 ≤ wsub s.a1 s.a2 then
      if u3 ≤ s.a3 ∧ wadd v3 v2 ≤ wsub s.a2 s.a3 then (u2, v2, u3, v3, true)
      else (u1, v1, u2, v2, false)
    else (u0, v0, u1, v1, true)
  else
    if wadd v2 v1 ≤ wsub s.a1 s.a2 then
      if v3 ≤ s.a3 ∧ wadd u3 u2 ≤ wsub s.a2 s.a3 then (u2, v2, u3, v3, false)
      else (u1, v1, u2, v2, true)
    else (u0, v0, u1, v1, false)

/-- `Matrix::from_u64_prefix`. `none` = one of the two leading `debug_assert!`s fails
    (`a0 >= 1 << 63`, `a0 >= a1`; documented panics). -/
def fromU64Prefix (a0 a1 : Nat) : Option Mat :=
  if a0 < 2 ^ 63 ∨ a0 < a1 then none
  else
    let k0 := 2 ^ 32
    let k1 := 1
    if a1 < LIMIT then some ident
    else
      let q := a0 / a1
      let a2 := wsub a0 (wmul q a1)
      let k2 := wadd k0 (wmul q k1)
      if a2 < LIMIT then
        let u2 := k2 / LIMIT
        let v2 := k2 % LIMIT
        if v2 ≤ a2 ∧ u2 ≤ wsub a1 a2 then some (0, 1, u2, v2, false)
        else some ident
      else
        let q := a1 / a2
        let a3 := wsub a1 (wmul q a2)
        let k3 := wadd k1 (wmul q k2)
        some (pSelect (pLoop (a1 + 1)
          { a1 := a1, a2 := a2, a3 := a3, k0 := k0, k1 := k1, k2 := k2, k3 := k3, even := true }))

/-! ## `from_u128_prefix`, `Matrix::from` -/

/-- `bit_len` of a value (`BITS - leading_zeros`). -/
def bitLen (x : Nat) : Nat := if x = 0 then 0 else Nat.log2 x + 1

/-- `Matrix::from_u128_prefix`. `s = r0.leading_zeros()`; `r0 << 128` (for `r0 = 0`) is a shift
    overflow panic in the dev profile; `debug_assert!(r0 >= r1)`. -/
def fromU128Prefix (r0 r1 : Nat) : Option Mat :=
  if r0 < r1 then none
  else if r0 = 0 then none
  else
    let s := 128 - bitLen r0
    let r0s := (r0 * 2 ^ s) % 2 ^ 128
    let r1s := (r1 * 2 ^ s) % 2 ^ 128
    fromU64Prefix ((r0s / 2 ^ 64) % W) ((r1s / 2 ^ 64) % W)

/-- `Matrix::from` on `Uint` values. `none` = `assert!(a >= b)` fails. -/
def matFrom (a b : Nat) : Option Mat :=
  if a < b then none
  else
    let s := bitLen a
    if s ≤ 64 then fromU64 a b
    else if s ≤ 128 then fromU128Prefix a b
    else fromU128Prefix (a / 2 ^ (s - 128)) (b / 2 ^ (s - 128))

/-! ## the contract of a Lehmer update matrix (decidable; evaluated by the driver on the implementation's matrices) -/

def sgn (b : Bool) : Int := if b then 1 else -1

/-- `Matrix::apply` over the integers (no wrapping): what the update *means*. -/
def applyZ (m : Mat) (x y : Int) : Int × Int :=
  if m.2.2.2.2 then ((m.1 : Int) * x - m.2.1 * y, (m.2.2.2.1 : Int) * y - m.2.2.1 * x)
  else ((m.2.1 : Int) * y - m.1 * x, (m.2.2.1 : Int) * x - m.2.2.2.1 * y)

/-- non-identity part of the contract: determinant `±1` matching the sign flag, non-decreasing rows,
    lower-left entry `≥ 1`, and over ℤ `0 ≤ d < c`, `d < b` for `(c, d) = m·(a, b)`. -/
def good (a b : Nat) (m : Mat) : Bool :=
  decide ((m.1 : Int) * m.2.2.2.1 - m.2.1 * m.2.2.1 = sgn m.2.2.2.2)
  && decide (m.1 ≤ m.2.2.1) && decide (m.2.1 ≤ m.2.2.2.1) && decide (1 ≤ m.2.2.1)
  && decide (0 ≤ (applyZ m a b).2) && decide ((applyZ m a b).2 < (applyZ m a b).1)
  && decide ((applyZ m a b).2 < (b : Int))

/-- the matrix-oracle contract used by `gcd`, `gcd_extended` (and `inv_mod`). -/
def contract (a b : Nat) (m : Mat) : Bool := m == ident || good a b m

end Ruint.Lehmer
