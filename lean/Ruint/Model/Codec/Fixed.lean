import Ruint.Model.Codec.Bytes
/-!
# Fixed-width codecs: SSZ, borsh, bincode / binary serde, limb-array identities   (core Lean only)
`src/support/{ssz,borsh,serde,num_bigint,primitive_types,bytemuck,ark_ff,ark_ff_04}.rs`
-/
namespace Ruint.Codec.Fixed
open Ruint Ruint.Codec

/-! ## SSZ: `BYTES` little-endian bytes, fixed length -/
def encSsz (bits v : Nat) : List Nat := toLE (nbytes bits) v
def sszBytesLen (bits : Nat) : Nat := nbytes bits

/-- `from_ssz_bytes` AFTER the fix: the length must be exactly `BYTES` (the pinned tree accepted shorter input)
    and an out-of-range value is an error (the pinned tree panicked in `from_le_slice`). -/
def decSsz (bits : Nat) (bs : List Nat) : Except Err Nat :=
  if bs.length ≠ nbytes bits then .error .invalidByteLength
  else match tryFromLE bits bs with
    | none => .error .bytesInvalid
    | some v => .ok v

/-! ## borsh: `BYTES` little-endian bytes -/
def encBorsh (bits v : Nat) : List Nat := toLE (nbytes bits) v

/-- `deserialize_reader`: `read_exact(BYTES)` then `try_from_le_slice`; value and bytes consumed. -/
def decBorshReader (bits : Nat) (bs : List Nat) : DecResult :=
  if bs.length < nbytes bits then .error .unexpectedEof
  else match tryFromLE bits (bs.take (nbytes bits)) with
    | none => .error .invalidData
    | some v => .ok (v, nbytes bits)

/-- `borsh::from_slice`: additionally rejects trailing bytes. -/
def decBorsh (bits : Nat) (bs : List Nat) : Except Err Nat :=
  match decBorshReader bits bs with
  | .error e => .error e
  | .ok (v, n) => if n < bs.length then .error .invalidData else .ok v

/-! ## binary serde (through bincode 1.3, fixed-int little-endian `u64` length prefix): `BYTES` big-endian bytes -/
def encSerdeBinary (bits v : Nat) : List Nat := toBE (nbytes bits) v
def encBincode (bits v : Nat) : List Nat := toLE 8 (nbytes bits) ++ encSerdeBinary bits v

/-- `ByteVisitor::visit_bytes`. -/
def visitBytes (bits : Nat) (bs : List Nat) : Except Err Nat :=
  if bs.length ≠ nbytes bits then .error .custom
  else match tryFromBE bits bs with
    | none => .error .custom
    | some v => .ok v

/-- `bincode::deserialize` (trailing bytes allowed). -/
def decBincode (bits : Nat) (bs : List Nat) : Except Err Nat :=
  if bs.length < 8 then .error .io
  else
    let len := leVal (bs.take 8)
    let rest := bs.drop 8
    if rest.length < len then .error .io else visitBytes bits (rest.take len)

/-! ## limb-array identities: num-bigint (`to_u64_digits`), primitive-types `U*`, ark-ff `BigInt`, bytemuck -/

/-- the value as `n` 64-bit limbs, little-endian (`into_limbs`). -/
def limbs (bits v : Nat) : List Nat := toLimbs (nlimbs bits) v

/-- `BigUint::to_u64_digits`: limbs without trailing zeros. -/
def bigUintDigits (v : Nat) : List Nat := toLimbs ((bitLen v + 63) / 64) v

/-- `TryFrom<BigUint>` / `TryFrom<BigInt>` (through `overflowing_from_limbs_slice`). -/
def fromBigInt (bits : Nat) (neg : Bool) (mag : Nat) : Except Err Nat :=
  if neg then .error .valueNegative
  else if mag < 2 ^ bits then .ok mag else .error .valueTooLarge

/-- `bytemuck::bytes_of`: the in-memory image = limbs as little-endian bytes (little-endian host). -/
def podBytes (bits v : Nat) : List Nat := toLE (8 * nlimbs bits) v

end Ruint.Codec.Fixed
