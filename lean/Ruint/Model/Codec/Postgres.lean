import Ruint.Model.Codec.Serde
/-!
# postgres `ToSql` / `FromSql`: `src/support/postgres.rs`   (core Lean only)
All parsing is ruint's own code. Float columns (`FLOAT4`, `FLOAT8`) belong to C18 and are not modelled.
-/
namespace Ruint.Codec.Pg
open Ruint Ruint.Codec Ruint.Codec.Serde

inductive Ty
  | bool | int2 | int4 | oid | int8 | money | bytea | bit | varbit | char | text | varchar | json | jsonb | numeric
  | unsupported
  deriving DecidableEq, Repr

def Ty.ofString : String → Option Ty
  | "BOOL" => some .bool | "INT2" => some .int2 | "INT4" => some .int4 | "OID" => some .oid
  | "INT8" => some .int8 | "MONEY" => some .money | "BYTEA" => some .bytea | "BIT" => some .bit
  | "VARBIT" => some .varbit | "CHAR" => some .char | "TEXT" => some .text | "VARCHAR" => some .varchar
  | "JSON" => some .json | "JSONB" => some .jsonb | "NUMERIC" => some .numeric
  | "TIMESTAMP" => some .unsupported
  | _ => none

/-- `rem_up a 8`. -/
def remUp8 (a : Nat) : Nat := if a % 8 = 0 then 8 else a % 8

/-- big-endian base-10000 digits of `v` (`to_base_be(10000)`): empty for zero. -/
def digits10k : Nat → Nat → List Nat → List Nat
  | 0, _, acc => acc
  | fuel + 1, v, acc => if v = 0 then acc else digits10k fuel (v / 10000) (v % 10000 :: acc)

def trimEndZeros (l : List Nat) : List Nat := (l.reverse.dropWhile (· == 0)).reverse

/-- `to_sql`: `none` = `Err(_)`. -/
def toSql (ty : Ty) (bits v : Nat) : Option (List Nat) :=
  match ty with
  | .bool => if v ≤ 1 then some [v] else none
  | .int2 => if v < 2 ^ 15 then some (toBE 2 v) else none
  | .int4 => if v < 2 ^ 31 then some (toBE 4 v) else none
  | .oid => if v < 2 ^ 32 then some (toBE 4 v) else none
  | .int8 => if v < 2 ^ 63 then some (toBE 8 v) else none
  | .money => if v * 100 < 2 ^ 63 then some (toBE 8 (v * 100)) else none
  | .bytea => some (toBE (nbytes bits) v)
  | .bit | .varbit =>
    if bits = 0 then (if ty = .bit then none else some [0, 0, 0, 0])
    else if 2 ^ 31 ≤ bits then none
    else
      let padding := 8 - remUp8 bits
      some (toBE 4 bits ++ toBE (nbytes bits) (v * 2 ^ padding))
  | .char | .text | .varchar => some (hexMinimal v)
  | .json => some (34 :: (hexMinimal v ++ [34]))
  | .jsonb => some (1 :: 34 :: (hexMinimal v ++ [34]))
  | .numeric =>
    let ds := digits10k (bitLen v + 1) v []
    let exponent := ds.length - 1
    let ds' := trimEndZeros ds
    if 2 ^ 15 ≤ ds.length then none
    else some (toBE 2 ds'.length ++ toBE 2 exponent ++ [0, 0, 0, 0] ++ (ds'.map (toBE 2)).flatten)
  | .unsupported => none

/-- value of a big-endian two's complement byte string of `n` bytes. -/
def signedBE (bs : List Nat) : Int :=
  let u := beVal bs
  if 2 ^ (8 * bs.length - 1) ≤ u then (u : Int) - (2 ^ (8 * bs.length) : Nat) else u

/-- the `FromSql` outcome: value or one of `Overflow` / `ParseError` (the two `FromSqlError`s) / `Other`. -/
abbrev R := Except Err Nat

def fitOther (bits : Nat) (x : Int) : R :=
  if 0 ≤ x ∧ x.toNat < 2 ^ bits then .ok x.toNat else .error .pgOther

def ofOpt (e : Err) : Option Nat → R
  | some v => .ok v
  | none => .error e

/-- the NUMERIC digit loop: digits are consumed until the first out-of-range digit (flag), the
    `exponent + 1 - digits` zeros are appended regardless, and `from_base_be`'s overflow is reported first. -/
def numericDigits (bits : Nat) : List Nat → Nat → Bool → Nat → R
  | [], acc, bad, zeros =>
    -- append zeros
    let rec pad : Nat → Nat → R
      | 0, a => if bad then .error .pgParseError else .ok a
      | z + 1, a => if a = 0 then pad 0 0 else
          let a' := a * 10000
          if a' < 2 ^ bits then pad z a' else .error .pgOther
    pad zeros acc
  | [_], acc, bad, zeros => numericDigits bits [] acc bad zeros
  | hi :: lo :: rest, acc, bad, zeros =>
    if bad then numericDigits bits rest acc bad zeros
    else
      let d := signedBE [hi, lo]
      if d < 0 ∨ 10000 ≤ d then numericDigits bits rest acc true zeros
      else
        let acc' := acc * 10000 + d.toNat
        if acc' < 2 ^ bits then numericDigits bits rest acc' false zeros else .error .pgOther

/-- `from_sql` AFTER the fixes (empty JSONB, lone `"`, BIT payload length, NUMERIC weight arithmetic in `i32`). -/
def fromSql (ty : Ty) (bits : Nat) (raw : List Nat) : R :=
  match ty with
  | .bool =>
    if raw = [0] then .ok 0
    else if raw = [1] then (if bits = 0 then .error .pgOther else .ok 1)
    else .error .pgParseError
  | .int2 => if raw.length ≠ 2 then .error .pgOther else fitOther bits (signedBE raw)
  | .int4 => if raw.length ≠ 4 then .error .pgOther else fitOther bits (signedBE raw)
  | .oid => if raw.length ≠ 4 then .error .pgOther else fitOther bits (beVal raw)
  | .int8 => if raw.length ≠ 8 then .error .pgOther else fitOther bits (signedBE raw)
  | .money => if raw.length ≠ 8 then .error .pgOther else fitOther bits (Int.tdiv (signedBE raw) 100)
  | .bytea => ofOpt .pgOverflow (tryFromBE bits raw)
  | .bit | .varbit =>
    if raw.length < 4 then .error .pgParseError
    else
      let len := signedBE (raw.take 4)
      if len < 0 then .error .pgOther
      else
        let len := len.toNat
        let payload := raw.drop 4
        if payload.length ≠ (len + 7) / 8 then .error .pgParseError
        else
          let padding := 8 - remUp8 len
          -- shifting the whole string right by `padding` bits keeps its length
          let shifted := toBE payload.length (beVal payload / 2 ^ padding)
          ofOpt .pgOverflow (tryFromBE bits shifted)
  | .char | .text | .varchar =>
    if raw.any (fun b => 128 ≤ b) then .error .pgOther else ofOpt .pgOther (fromStr bits raw)
  | .json | .jsonb =>
    let body : Except Err (List Nat) :=
      if ty = .jsonb then
        (match raw with
         | [] => .error .pgParseError
         | v :: rest => if v = 1 then .ok rest else .error .pgParseError)
      else .ok raw
    match body with
    | .error e => .error e
    | .ok s =>
      if s.any (fun b => 128 ≤ b) then .error .pgOther
      else
        let inner := if 2 ≤ s.length ∧ s.head? = some 34 ∧ s.getLast? = some 34 then (s.drop 1).dropLast else s
        ofOpt .pgOther (fromStr bits inner)
  | .numeric =>
    if raw.length < 8 then .error .pgParseError
    else
      let digits := signedBE (raw.take 2)
      let exponent := signedBE ((raw.drop 2).take 2)
      let sign := signedBE ((raw.drop 4).take 2)
      let dscale := signedBE ((raw.drop 6).take 2)
      let payload := raw.drop 8
      if digits < 0 ∨ exponent < 0 ∨ sign ≠ 0 ∨ dscale ≠ 0 ∨ digits > exponent + 1
          ∨ payload.length ≠ digits.toNat * 2 then .error .pgParseError
      else numericDigits bits payload 0 false (exponent + 1 - digits).toNat
  | .unsupported => .error .pgOther

end Ruint.Codec.Pg
