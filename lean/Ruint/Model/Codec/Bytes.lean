import Ruint.Base
/-!
# Byte-level vocabulary of the codec models (C16 / C17)  — core Lean only

Byte strings are `List Nat` with entries `< 256`. The codec models are **L2** models (DESIGN §3.3a): they work on
the *value* of a `Uint` and use the value-level specs of the L1 byte operations
(`to_be_bytes`, `to_le_bytes`, `*_trimmed`, `bit_len`, `byte_len`, `try_from_{be,le}_slice` — properties C06/C08).
-/
namespace Ruint.Codec

/-- `nbytes` of `src/bytes.rs`: `Uint::BYTES`. -/
def nbytes (bits : Nat) : Nat := (bits + 7) / 8

/-- little-endian value of a byte string. -/
def leVal : List Nat → Nat
  | [] => 0
  | b :: bs => b + 256 * leVal bs

/-- big-endian value of a byte string. -/
def beVal (bs : List Nat) : Nat := leVal bs.reverse

/-- `n` little-endian bytes of `x` (`to_le_bytes` at `n = BYTES`). -/
def toLE : Nat → Nat → List Nat
  | 0, _ => []
  | n + 1, x => x % 256 :: toLE n (x / 256)

/-- `n` big-endian bytes of `x` (`to_be_bytes`). -/
def toBE (n x : Nat) : List Nat := (toLE n x).reverse

/-- `Uint::bit_len`. -/
def bitLen (x : Nat) : Nat := if x = 0 then 0 else Nat.log2 x + 1

/-- `Uint::byte_len` = `(bit_len + 7) / 8`. -/
def byteLen (x : Nat) : Nat := (bitLen x + 7) / 8

/-- minimal big-endian bytes (`to_be_bytes_trimmed_vec`): empty for zero, no leading zero byte. -/
def beTrim (x : Nat) : List Nat := toBE (byteLen x) x

/-- minimal little-endian bytes (`as_le_bytes_trimmed`): empty for zero, no trailing zero byte. -/
def leTrim (x : Nat) : List Nat := toLE (byteLen x) x

/-- `try_from_be_slice` at value level: longer than `BYTES` or value `≥ 2^bits` is `None`. -/
def tryFromBE (bits : Nat) (bs : List Nat) : Option Nat :=
  if nbytes bits < bs.length then none
  else if beVal bs < 2 ^ bits then some (beVal bs) else none

/-- `try_from_le_slice` at value level. -/
def tryFromLE (bits : Nat) (bs : List Nat) : Option Nat :=
  if nbytes bits < bs.length then none
  else if leVal bs < 2 ^ bits then some (leVal bs) else none

/-- every entry is a byte. -/
def IsBytes (bs : List Nat) : Prop := ∀ b ∈ bs, b < 256

/-- the small error enum compared by the correspondence (never messages). -/
inductive Err
  -- alloy-rlp / fastrlp
  | inputTooShort | nonCanonicalSingleByte | leadingZero | nonCanonicalSize | unexpectedList | overflow
  -- rlp (parity)
  | rlpIsTooShort | rlpDataLenWithZeroPrefix | rlpInvalidIndirection | rlpExpectedToBeData | rlpIsTooBig
  | rlpInconsistentLengthAndData | custom
  -- der
  | incomplete | tag | length | indefiniteLength | derOverflow | noncanonical | value | trailingData
  -- ssz
  | invalidByteLength | bytesInvalid
  -- borsh (io::ErrorKind)
  | unexpectedEof | invalidData
  -- bincode
  | io
  -- postgres
  | pgOverflow | pgParseError | pgOther
  -- num-bigint
  | valueNegative | valueTooLarge
  -- codecs whose error type is opaque (SCALE, serde_json, FromStr, try_from_*_slice)
  | opaque
  deriving DecidableEq, Repr

def Err.name : Err → String
  | .inputTooShort => "InputTooShort" | .nonCanonicalSingleByte => "NonCanonicalSingleByte"
  | .leadingZero => "LeadingZero" | .nonCanonicalSize => "NonCanonicalSize"
  | .unexpectedList => "UnexpectedList" | .overflow => "Overflow"
  | .rlpIsTooShort => "RlpIsTooShort" | .rlpDataLenWithZeroPrefix => "RlpDataLenWithZeroPrefix"
  | .rlpInvalidIndirection => "RlpInvalidIndirection" | .rlpExpectedToBeData => "RlpExpectedToBeData"
  | .rlpIsTooBig => "RlpIsTooBig" | .rlpInconsistentLengthAndData => "RlpInconsistentLengthAndData"
  | .custom => "Custom"
  | .incomplete => "Incomplete" | .tag => "Tag" | .length => "Length" | .indefiniteLength => "IndefiniteLength"
  | .derOverflow => "Overflow" | .noncanonical => "Noncanonical" | .value => "Value"
  | .trailingData => "TrailingData"
  | .invalidByteLength => "InvalidByteLength" | .bytesInvalid => "BytesInvalid"
  | .unexpectedEof => "UnexpectedEof" | .invalidData => "InvalidData"
  | .io => "Io"
  | .pgOverflow => "Overflow" | .pgParseError => "ParseError" | .pgOther => "Other"
  | .valueNegative => "ValueNegative" | .valueTooLarge => "ValueTooLarge"
  | .opaque => ""

/-- result of a decoder: value and number of input bytes consumed. -/
abbrev DecResult := Except Err (Nat × Nat)

end Ruint.Codec
