import Ruint.Model.Codec.Bytes
/-!
# RLP models: `src/support/{alloy_rlp,fastrlp_03,fastrlp_04,rlp}.rs`   (core Lean only)

* `enc`       — the FORMAT's definition: the integer as a minimal big-endian byte string, RLP string item.
* `encImpl`   — ruint's `Encodable::encode` for alloy-rlp / fastrlp (LIMBS ∈ {0,1,2} fast paths delegating to the
                crate's `u64`/`u128` encoder `encPrim`, `bit_len` match, 55-byte switch), `lengthImpl` = `length()`.
* `decodeHeader` / `dec` — `Header::decode` of alloy-rlp 0.3.16 and fastrlp 0.3/0.4 (identical rules; modelled from
                the vendored source, TRUSTED) followed by ruint's checks (list, leading zero, `try_from_be_slice`).
* `decParity` — ruint's `rlp::Decodable` through `Rlp::data()` (lenient by design) with the list guard.
* `decParityBits` — `Bits` through `decoder().decode_value`.
-/
namespace Ruint.Codec.Rlp
open Ruint Ruint.Codec

/-- header of a string item with `n` payload bytes (`Header::encode`, `list = false`). -/
def strHeader (n : Nat) : List Nat :=
  if n < 56 then [0x80 + n] else (0xb7 + byteLen n) :: beTrim n

/-- RLP encoding of the byte string `p` (`<[u8] as Encodable>::encode`). -/
def encStr (p : List Nat) : List Nat :=
  if p.length = 1 ∧ p.headD 0 < 0x80 then p else strHeader p.length ++ p

/-- the format's definition of an integer: minimal big-endian string. -/
def enc (v : Nat) : List Nat := encStr (beTrim v)

/-- the codec crate's own `u64`/`u128` encoder (`uint_impl!` / `encodable_uint!`). -/
def encPrim (x : Nat) : List Nat :=
  if x = 0 then [0x80] else if x < 0x80 then [x] else (0x80 + byteLen x) :: beTrim x

/-- ruint's `encode` (alloy-rlp, fastrlp 0.3, fastrlp 0.4 — the three files are identical). -/
def encImpl (bits v : Nat) : List Nat :=
  let limbs := nlimbs bits
  if limbs = 0 then [0x80]
  else if limbs ≤ 2 then encPrim v
  else
    let b := bitLen v
    if b = 0 then [0x80]
    else if b ≤ 7 then [v % 256]
    else
      let bytes := toBE (nbytes bits) v
      let trimmed := bytes.drop (nbytes bits - (b + 7) / 8)
      if b > 55 * 8 then encStr trimmed else (0x80 + trimmed.length) :: trimmed

/-- `length_of_length` of the crates: `1` below 56, else `1 + 8 - leading_zeros/8`. -/
def lengthOfLength (n : Nat) : Nat := if n < 56 then 1 else 1 + byteLen n

/-- ruint's `length()`. -/
def lengthImpl (v : Nat) : Nat :=
  let b := bitLen v
  if b ≤ 7 then 1 else (b + 7) / 8 + lengthOfLength ((b + 7) / 8)

/-- `Header::decode`: `(list, payload_length, header_length)`; a single byte `< 0x80` is its own payload
    (header length 0). -/
def decodeHeader (bs : List Nat) : Except Err (Bool × Nat × Nat) :=
  match bs with
  | [] => .error .inputTooShort
  | b :: rest =>
    if b < 0x80 then .ok (false, 1, 0)
    else if b < 0xb8 then
      let len := b - 0x80
      if len = 1 ∧ rest = [] then .error .inputTooShort
      else if len = 1 ∧ rest.headD 0 < 0x80 then .error .nonCanonicalSingleByte
      else if rest.length < len then .error .inputTooShort
      else .ok (false, len, 1)
    else if b < 0xc0 ∨ 0xf8 ≤ b then
      let list := decide (0xf8 ≤ b)
      let lol := if list then b - 0xf7 else b - 0xb7
      if rest.length < lol then .error .inputTooShort
      else
        let lb := rest.take lol
        if lb.headD 1 = 0 then .error .leadingZero
        else
          let len := beVal lb
          if len < 56 then .error .nonCanonicalSize
          else if rest.length - lol < len then .error .inputTooShort
          else .ok (list, len, 1 + lol)
    else
      let len := b - 0xc0
      if rest.length < len then .error .inputTooShort else .ok (true, len, 1)

/-- ruint's `Decodable::decode` for alloy-rlp / fastrlp: value and bytes consumed. -/
def dec (bits : Nat) (bs : List Nat) : DecResult :=
  match decodeHeader bs with
  | .error e => .error e
  | .ok (list, len, hl) =>
    if list then .error .unexpectedList
    else
      let payload := (bs.drop hl).take len
      if payload.headD 1 = 0 then .error .leadingZero
      else
        match tryFromBE bits payload with
        | none => .error .overflow
        | some v => .ok (v, hl + len)

/-! ## parity `rlp` -/

/-- the total-length check of `BasicDecoder::payload_info`. -/
def piFin (total hl vl : Nat) : Except Err (Nat × Nat) :=
  if hl + vl ≤ total then .ok (hl, vl) else .error .rlpIsTooShort

/-- `PayloadInfo::from` + the total-length check of `BasicDecoder::payload_info`: `(header_len, value_len)`. -/
def payloadInfo (bs : List Nat) : Except Err (Nat × Nat) :=
  match bs with
  | [] => .error .rlpIsTooShort
  | l :: rest =>
    let total := rest.length + 1
    if l ≤ 0x7f then piFin total 0 1
    else if l ≤ 0xb7 then piFin total 1 (l - 0x80)
    else if 0xc0 ≤ l ∧ l ≤ 0xf7 then piFin total 1 (l - 0xc0)
    else
      let lol := if l ≤ 0xbf then l - 0xb7 else l - 0xf7
      if rest = [] then .error .rlpIsTooShort
      else if rest.headD 1 = 0 then .error .rlpDataLenWithZeroPrefix
      else if total < 1 + lol then .error .rlpIsTooShort
      else
        let vl := beVal (rest.take lol)
        if vl ≤ 55 then .error .rlpInvalidIndirection else piFin total (1 + lol) vl

/-- ruint's `rlp::Decodable for Uint` AFTER the fix: a list item is rejected, then `Rlp::data()` and
    `try_from_be_slice`. (`rlp::decode` ignores trailing bytes, so nothing is reported as consumed.) -/
def decParity (bits : Nat) (bs : List Nat) : Except Err Nat :=
  if 0xc0 ≤ bs.headD 0 then .error .rlpExpectedToBeData
  else
    match payloadInfo bs with
    | .error e => .error e
    | .ok (hl, vl) =>
      match tryFromBE bits ((bs.drop hl).take vl) with
      | none => .error .custom
      | some v => .ok v

/-- the closure ruint passes to `decode_value` for `Bits`: exactly `BYTES` bytes, value in range. -/
def bitsBody (bits : Nat) (d : List Nat) : Except Err Nat :=
  if d.length < nbytes bits then .error .rlpIsTooShort
  else if nbytes bits < d.length then .error .rlpIsTooBig
  else match tryFromBE bits d with
    | none => .error .rlpIsTooBig
    | some v => .ok v

/-- `Decodable for Bits`: `decoder().decode_value` then exactly `BYTES` bytes. -/
def decParityBits (bits : Nat) (bs : List Nat) : Except Err Nat :=
  match bs with
  | [] => .error .rlpIsTooShort
  | l :: rest =>
    if l ≤ 0x7f then bitsBody bits [l]
    else if l ≤ 0xb7 then
      if rest.length < l - 0x80 then .error .rlpInconsistentLengthAndData
      else if l = 0x81 ∧ rest.headD 0 < 0x80 then .error .rlpInvalidIndirection
      else bitsBody bits (rest.take (l - 0x80))
    else if l ≤ 0xbf then
      if rest.length < l - 0xb7 then .error .rlpInconsistentLengthAndData
      else if rest.headD 1 = 0 then .error .rlpInvalidIndirection
      else
        if rest.length - (l - 0xb7) < beVal (rest.take (l - 0xb7)) then .error .rlpInconsistentLengthAndData
        else bitsBody bits ((rest.drop (l - 0xb7)).take (beVal (rest.take (l - 0xb7))))
    else .error .rlpExpectedToBeData

/-- `Encodable for Bits`: the full `BYTES`-long big-endian string. -/
def encBits (bits v : Nat) : List Nat := encStr (toBE (nbytes bits) v)

end Ruint.Codec.Rlp
