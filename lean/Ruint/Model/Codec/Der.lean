import Ruint.Model.Codec.Bytes
/-!
# DER INTEGER: `src/support/der.rs`   (core Lean only)
Header/length rules of `der` 0.7.10 are modelled from the vendored source (TRUSTED).
-/
namespace Ruint.Codec.Der
open Ruint Ruint.Codec

/-- DER definite length octets (`Length::encode`). -/
def derLen (n : Nat) : List Nat :=
  if n < 0x80 then [n]
  else if n < 0x100 then [0x81, n]
  else if n < 0x10000 then 0x82 :: toBE 2 n
  else if n < 0x1000000 then 0x83 :: toBE 3 n
  else 0x84 :: toBE 4 n

/-- content octets: minimal two's complement of a non-negative integer (`encode_value`):
    minimal big-endian bytes, preceded by `00` when the top bit is set or the string is empty. -/
def content (v : Nat) : List Nat :=
  let bs := beTrim v
  if 0x80 ≤ bs.headD 0x80 then 0 :: bs else bs

/-- the FORMAT's definition: tag `02`, minimal length of the content, content. -/
def enc (v : Nat) : List Nat := 0x02 :: (derLen (content v).length ++ content v)

/-- ruint's `value_len`. -/
def valueLen (v : Nat) : Nat := 1 + bitLen v / 8

/-- what `to_der` writes: the header is computed from `value_len()`, not from the bytes. -/
def encImpl (v : Nat) : List Nat := 0x02 :: (derLen (valueLen v) ++ content v)

/-- `Tag::try_from(u8)` accepts the byte. -/
def tagOk (b : Nat) : Bool :=
  b % 32 ≠ 31 &&
  ((b == 1 || b == 2 || b == 3 || b == 4 || b == 5 || b == 6 || b == 9 || b == 0x0a || b == 0x0c
    || (0x12 ≤ b && b ≤ 0x18) || b == 0x1a || b == 0x1e || b == 0x30 || b == 0x31)
   || (0x40 ≤ b && b ≤ 0x7e) || (0x80 ≤ b && b ≤ 0xbe) || (0xc0 ≤ b && b ≤ 0xfe))

/-- `Length::decode` as used by `Header::decode`: `(length, octets consumed)`. -/
def decLen (bs : List Nat) : DecResult :=
  match bs with
  | [] => .error .incomplete
  | l :: rest =>
    if l < 0x80 then .ok (l, 1)
    else if l = 0x80 then .error .indefiniteLength
    else if l ≤ 0x84 then
      let k := l - 0x80
      if rest.length < k then .error .incomplete
      else
        let n := beVal (rest.take k)
        if 0xfffffff < n then .error .derOverflow
        else
          let minimal : Nat := if n < 0x80 then 0 else if n < 0x100 then 1 else if n < 0x10000 then 2
            else if n < 0x1000000 then 3 else 4
          if minimal = k then .ok (n, 1 + k) else .error .length
    else .error .length

/-- ruint's `from_der_slice`. -/
def fromDerSlice (bits : Nat) (bs : List Nat) : Except Err Nat :=
  match bs with
  | [] => .error .length
  | b0 :: rest =>
    let body : Except Err (List Nat) :=
      if b0 = 0 then
        (match rest with
         | b1 :: _ => if b1 < 0x80 then .error .noncanonical else .ok rest
         | [] => .ok rest)
      else if 0x80 ≤ b0 then .error .value
      else .ok bs
    match body with
    | .error e => .error e
    | .ok p => match tryFromBE bits p with
      | none => .error .noncanonical
      | some v => .ok v

/-- ruint's `from_der_uint_slice` (`UintRef` / `asn1::Uint`: leading `00` already removed). -/
def fromDerUintSlice (bits : Nat) (bs : List Nat) : Except Err Nat :=
  match bs with
  | [] => .error .length
  | [0] => .ok 0
  | 0 :: _ => .error .noncanonical
  | _ => match tryFromBE bits bs with
    | none => .error .noncanonical
    | some v => .ok v

/-- `<Uint as der::Decode>::from_der`. -/
def dec (bits : Nat) (bs : List Nat) : Except Err Nat :=
  match bs with
  | [] => .error .incomplete
  | t :: r1 =>
    if !tagOk t then .error .tag
    else match decLen r1 with
      | .error e => .error e
      | .ok (len, k) =>
        if t ≠ 2 then .error .tag
        else if nbytes bits + 1 < len then .error .noncanonical
        else
          let body := r1.drop k
          if body.length < len then .error .incomplete
          else match fromDerSlice bits (body.take len) with
            | .error e => .error e
            | .ok v => if len < body.length then .error .trailingData else .ok v

end Ruint.Codec.Der
