import Ruint.Model.Codec.Bytes
/-!
# SCALE models: `src/support/scale.rs`   (core Lean only)

Fixed form: the value as a SCALE byte vector (`Compact<u32>` length prefix + `BYTES` little-endian bytes).
Compact form: `CompactRefUint::encode_to` / `size_hint` / `CompactUint::decode` (ruint's own code, four modes).
The `Compact<u32>` / `Vec<u8>` rules of parity-scale-codec 3.7 are modelled from the vendored source (TRUSTED).
-/
namespace Ruint.Codec.Scale
open Ruint Ruint.Codec

/-- `Compact<u32>` encoding of a length. -/
def compactU32 (n : Nat) : List Nat :=
  if n < 2 ^ 6 then [n * 4]
  else if n < 2 ^ 14 then toLE 2 (n * 4 + 1)
  else if n < 2 ^ 30 then toLE 4 (n * 4 + 2)
  else 3 :: toLE 4 n

/-- `Encode for Uint`: byte vector of the `BYTES` little-endian bytes. -/
def encFixed (bits v : Nat) : List Nat := compactU32 (nbytes bits) ++ toLE (nbytes bits) v

/-- `Encode::size_hint` of the fixed form: `size_of::<u32>() + BYTES` (an upper bound). -/
def sizeHintFixed (bits : Nat) : Nat := 4 + nbytes bits

/-- `MaxEncodedLen::max_encoded_len` AFTER the fix: compact length prefix + `BYTES`
    (the pinned tree returned `size_of::<Self>() = 8·LIMBS`, which is smaller than every encoding of an
    aligned type). -/
def maxEncodedLen (bits : Nat) : Nat := (compactU32 (nbytes bits)).length + nbytes bits

/-- `Compact<u32>::decode`: value and bytes consumed (`.opaque` = any error; SCALE errors carry only text). -/
def decCompactU32 (bs : List Nat) : DecResult :=
  match bs with
  | [] => .error .opaque
  | p :: rest =>
    if p % 4 = 0 then .ok (p / 4, 1)
    else if p % 4 = 1 then
      match rest with
      | [] => .error .opaque
      | b1 :: _ =>
        let x := (p + 256 * b1) / 4
        if 0x3f < x ∧ x ≤ 0x3fff then .ok (x, 2) else .error .opaque
    else if p % 4 = 2 then
      if rest.length < 3 then .error .opaque
      else
        let x := leVal (p :: rest.take 3) / 4
        if 0x3fff < x ∧ x ≤ 2 ^ 30 - 1 then .ok (x, 4) else .error .opaque
    else if p / 4 = 0 then
      if rest.length < 4 then .error .opaque
      else
        let x := leVal (rest.take 4)
        if 2 ^ 30 - 1 < x then .ok (x, 5) else .error .opaque
    else .error .opaque

/-- `Decode for Uint`: `Vec<u8>::decode` then `try_from_le_slice`. -/
def decFixed (bits : Nat) (bs : List Nat) : DecResult :=
  match decCompactU32 bs with
  | .error e => .error e
  | .ok (len, hl) =>
    let body := bs.drop hl
    if body.length < len then .error .opaque
    else match tryFromLE bits (body.take len) with
      | none => .error .opaque
      | some v => .ok (v, hl + len)

/-! ## compact form -/

/-- `COMPACT_BITS_LIMIT`; `assert_compact_supported` panics at type level for `BITS ≥ 536`. -/
def compactBitsLimit : Nat := 536

/-- `CompactRefUint::encode_to`. -/
def encCompact (v : Nat) : List Nat :=
  let b := bitLen v
  if b ≤ 6 then [v * 4]
  else if b ≤ 14 then toLE 2 (v * 4 + 1)
  else if b ≤ 30 then toLE 4 (v * 4 + 2)
  else (3 + (byteLen v - 4) * 4) :: leTrim v

/-- `CompactRefUint::size_hint` AFTER the fix (`byte_len() + 1` in big-integer mode). -/
def sizeHintCompact (v : Nat) : Nat :=
  let b := bitLen v
  if b ≤ 6 then 1 else if b ≤ 14 then 2 else if b ≤ 30 then 4 else byteLen v + 1

/-- the size hint of the pinned tree: `32 - leading_zeros/8 + 1` with `usize` arithmetic (`none` = underflow
    panic). Kept to state the defect as a theorem. -/
def sizeHintCompactPinned (bits v : Nat) : Option Nat :=
  let b := bitLen v
  if b ≤ 6 then some 1 else if b ≤ 14 then some 2 else if b ≤ 30 then some 4
  else if (bits - b) / 8 ≤ 32 then some (32 - (bits - b) / 8 + 1) else none

/-- `CompactUint::decode` (`bits < 536`). -/
def decCompact (bits : Nat) (bs : List Nat) : DecResult :=
  let fit (x n : Nat) : DecResult := if x < 2 ^ bits then .ok (x, n) else .error .opaque
  match bs with
  | [] => .error .opaque
  | p :: rest =>
    if p % 4 = 0 then fit (p / 4) 1
    else if p % 4 = 1 then
      match rest with
      | [] => .error .opaque
      | b1 :: _ =>
        let x := (p + 256 * b1) / 4
        if 0x3f ≤ x ∧ x ≤ 0x3fff then fit x 2 else .error .opaque
    else if p % 4 = 2 then
      if rest.length < 3 then .error .opaque
      else
        let x := leVal (p :: rest.take 3) / 4
        if 0x3fff ≤ x ∧ x ≤ 2 ^ 30 - 1 then fit x 4 else .error .opaque
    else
      let n := p / 4 + 4
      if rest.length < n then .error .opaque
      else
        let x := leVal (rest.take n)
        if n = 4 then (if 2 ^ 30 - 1 < x then fit x 5 else .error .opaque)
        else if n = 8 then (if 2 ^ 56 - 1 < x then fit x 9 else .error .opaque)
        else if n = 16 then (if 2 ^ 120 - 1 < x then fit x 17 else .error .opaque)
        else
          match tryFromLE bits (rest.take n) with
          | none => .error .opaque
          | some x => if (2 ^ (8 * n) - 1) / 2 ^ ((69 - n) * 8) < x then .ok (x, 1 + n) else .error .opaque

/-- what a compact item DENOTES under the format, read leniently (mode bits, then the mode's bytes; none of the
    canonicity conditions): value and item length. Used by the C17 predicate to judge accepted inputs. -/
def denoteCompact (bs : List Nat) : Option (Nat × Nat) :=
  match bs with
  | [] => none
  | p :: rest =>
    if p % 4 = 0 then some (p / 4, 1)
    else if p % 4 = 1 then (if rest.length < 1 then none else some (leVal (bs.take 2) / 4, 2))
    else if p % 4 = 2 then (if rest.length < 3 then none else some (leVal (bs.take 4) / 4, 4))
    else if rest.length < p / 4 + 4 then none else some (leVal (rest.take (p / 4 + 4)), 1 + (p / 4 + 4))

/-- what a SCALE byte vector denotes as a little-endian number, the length prefix read leniently. -/
def denoteFixed (bs : List Nat) : Option (Nat × Nat) :=
  match denoteCompact bs with
  | none => none
  | some (len, hl) =>
    if (bs.drop hl).length < len then none else some (leVal ((bs.drop hl).take len), hl + len)

end Ruint.Codec.Scale
