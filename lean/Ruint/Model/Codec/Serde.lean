import Ruint.Model.Codec.Bytes
/-!
# Human-readable serde (JSON text) and `FromStr`: `src/support/serde.rs`, `src/string.rs`   (core Lean only)

Text is a list of byte values (the harness passes UTF-8 bytes). `serde_json`'s tokenizer is modelled for the
fragment *whitespace, one string (with escapes) or one number, whitespace* (TRUSTED).
-/
namespace Ruint.Codec.Serde
open Ruint Ruint.Codec

def hexDigit (d : Nat) : Nat := if d < 10 then 48 + d else 87 + d

/-- `n` hex digits of `x`, most significant first. -/
def hexDigits : Nat → Nat → List Nat
  | 0, _ => []
  | n + 1, x => hexDigits n (x / 16) ++ [hexDigit (x % 16)]

/-- number of hex digits of `x` (0 for 0). -/
def hexLen (x : Nat) : Nat := (bitLen x + 3) / 4

/-- the quantity: `0x` + minimal lower-case hex, `0x0` for zero (`serialize_human_minimal`, `{:#x}`). -/
def hexMinimal (v : Nat) : List Nat :=
  if v = 0 then [48, 120, 48] else 48 :: 120 :: hexDigits (hexLen v) v

/-- JSON text of the value: the quantity as a JSON string. -/
def encJson (v : Nat) : List Nat := 34 :: (hexMinimal v ++ [34])

/-- `Bits` human readable: `0x` + all `2·BYTES` hex digits (`0x0` at `BITS = 0`). -/
def encJsonBits (bits v : Nat) : List Nat :=
  if bits = 0 then [34, 48, 120, 48, 34] else 34 :: 48 :: 120 :: (hexDigits (2 * nbytes bits) v ++ [34])

/-- digit value for radix ≤ 36: `some none` = ignored (`_`), `none` = invalid. -/
def digitOf (c : Nat) : Option (Option Nat) :=
  if 48 ≤ c ∧ c ≤ 57 then some (some (c - 48))
  else if 97 ≤ c ∧ c ≤ 122 then some (some (c - 97 + 10))
  else if 65 ≤ c ∧ c ≤ 90 then some (some (c - 65 + 10))
  else if c = 95 then some none
  else none

/-- `from_str_radix` (radix ≤ 36) on top of `from_base_be`, at value level: every failure is an error. -/
def fromStrRadix (bits radix : Nat) : List Nat → Nat → Option Nat
  | [], acc => some acc
  | c :: cs, acc =>
    match digitOf c with
    | none => none
    | some none => fromStrRadix bits radix cs acc
    | some (some d) =>
      if radix ≤ d then none
      else
        let acc' := acc * radix + d
        if acc' < 2 ^ bits then fromStrRadix bits radix cs acc' else none

/-- `FromStr`: prefix sniffing `0x 0o 0b` (either case), decimal otherwise. -/
def fromStr (bits : Nat) (s : List Nat) : Option Nat :=
  match s with
  | 48 :: c :: rest =>
    if c = 120 ∨ c = 88 then fromStrRadix bits 16 rest 0
    else if c = 111 ∨ c = 79 then fromStrRadix bits 8 rest 0
    else if c = 98 ∨ c = 66 then fromStrRadix bits 2 rest 0
    else fromStrRadix bits 10 s 0
  | _ => fromStrRadix bits 10 s 0

/-- `HrVisitor::visit_str`. -/
def visitStr (bits : Nat) (s : List Nat) : Option Nat :=
  if s = [48, 120, 48] then some 0
  else if bits = 0 then none
  else fromStr bits s

def isWs (c : Nat) : Bool := c == 32 || c == 9 || c == 10 || c == 13

def skipWs : List Nat → List Nat
  | c :: cs => if isWs c then skipWs cs else c :: cs
  | [] => []

def hexNibble (c : Nat) : Option Nat :=
  if 48 ≤ c ∧ c ≤ 57 then some (c - 48)
  else if 97 ≤ c ∧ c ≤ 102 then some (c - 87)
  else if 65 ≤ c ∧ c ≤ 70 then some (c - 55)
  else none

/-- scan a JSON string body (after the opening quote) with `serde_json`'s escape rules:
    `some (content, rest after the closing quote)`, or `none` when the text is certainly rejected
    (unterminated, raw control character, bad escape, or an escape producing a non-ASCII code point —
    no non-ASCII character is a digit, and a lone surrogate is a JSON error, so the result is an error
    whatever follows). -/
def scanStr : List Nat → List Nat → Option (List Nat × List Nat)
  | [], _ => none
  | c :: cs, acc =>
    if c = 34 then some (acc.reverse, cs)
    else if c = 92 then
      match cs with
      | [] => none
      | e :: rest =>
        if e = 34 ∨ e = 92 ∨ e = 47 then scanStr rest (e :: acc)
        else if e = 98 then scanStr rest (8 :: acc)
        else if e = 102 then scanStr rest (12 :: acc)
        else if e = 110 then scanStr rest (10 :: acc)
        else if e = 114 then scanStr rest (13 :: acc)
        else if e = 116 then scanStr rest (9 :: acc)
        else if e = 117 then
          match rest with
          | h3 :: h2 :: h1 :: h0 :: rest' =>
            match hexNibble h3, hexNibble h2, hexNibble h1, hexNibble h0 with
            | some a, some b, some c', some d =>
              let cp := ((a * 16 + b) * 16 + c') * 16 + d
              if cp < 128 then scanStr rest' (cp :: acc) else none
            | _, _, _, _ => none
          | _ => none
        else none
    else if c < 32 then none
    else scanStr cs (c :: acc)
termination_by l => l.length
decreasing_by all_goals simp_wf <;> omega

def allDigits (s : List Nat) : Bool := s.all fun c => 48 ≤ c && c ≤ 57

def decVal (s : List Nat) : Nat := s.foldl (fun a c => a * 10 + (c - 48)) 0

/-- `serde_json::from_slice::<Uint>` (`deserialize_any` + `HrVisitor`): `none` = error. -/
def decJson (bits : Nat) (inp : List Nat) : Option Nat :=
  match skipWs inp with
  | [] => none
  | c :: cs =>
    if c = 34 then
      match scanStr cs [] with
      | none => none
      | some (content, rest) =>
        if content.any (fun b => 128 ≤ b) then none
        else if skipWs rest ≠ [] then none
        else visitStr bits content
    else if 48 ≤ c ∧ c ≤ 57 then
      -- a number token: only a plain integer without sign, fraction, exponent or leading zero reaches `visit_u64`
      let tok := (c :: cs).takeWhile fun b => !isWs b
      let rest := (c :: cs).dropWhile fun b => !isWs b
      if skipWs rest ≠ [] then none
      else if !allDigits tok then none
      else if c = 48 ∧ tok.length ≠ 1 then none
      else
        let v := decVal tok
        if v < 2 ^ 64 ∧ v < 2 ^ bits then some v else none
    else none

end Ruint.Codec.Serde
