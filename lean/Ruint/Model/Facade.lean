import Ruint.Base
/-!
# Models of the facades that have logic of their own (C20)

Most facades (`src/macros.rs`, `src/bit_arr.rs`, `src/support/num_traits.rs`, `num_integer.rs`) are pure
forwards to an inherent `Uint` method; for those the model *is* the inherent model and the content of
the property is the in-process correspondence (harness `c20.rs` prints `facade|inherent`).
This file mirrors the facades that compute something themselves:

* `subtle.rs`: `ct_eq` (slice compare), `ct_gt` / `ct_lt` (big-endian limb scan with two flags),
  `conditional_select` (limb-wise), `bit_ct` — on limb lists;
* `num_integer.rs`: `is_multiple_of` (zero divisor arm), `is_even`/`is_odd` (`bit(0)`), `inc`/`dec`, and the
  trait-provided defaults `prev_multiple_of` / `next_multiple_of` built on `mod_floor` and the operators;
* `num_traits.rs`: `MulAdd` (`(self * a) + b`), `PrimInt::pow(u32)` (`self.pow(Self::from(exp))`, the
  conversion panics when the exponent does not fit), `swap_bytes` (`to_be_bytes_vec`, reverse,
  `try_from_be_slice(..).unwrap()`), `FromPrimitive`/`ToPrimitive`/`NumCast` (`try_from(..).ok()`),
  iterator `Product`

at the value level (`Nat`), composing the value-level specifications of the inherent operations
(`wrapping_add = (a+b) mod 2^bits`, … — proved for the limb-level models in C01–C03).
A panic is `none`. Core Lean only.
-/
namespace Ruint.Facade

/-! ## subtle -/

/-- `<[u64] as ConstantTimeEq>::ct_eq`: length test, then `x &= a_i.ct_eq(b_i)` over the zipped limbs. -/
def ctEq (a b : List Nat) : Bool :=
  if a.length ≠ b.length then false
  else (a.zip b).foldl (fun x p => x && decide (p.1 = p.2)) true

/-- one step of the `ct_gt` scan: `greater |= equal & l.ct_gt(r); equal &= l.ct_eq(r)`. -/
def gtStep (st : Bool × Bool) (p : Nat × Nat) : Bool × Bool :=
  (st.1 && decide (p.1 = p.2), st.2 || (st.1 && decide (p.2 < p.1)))

/-- one step of the `ct_lt` scan. -/
def ltStep (st : Bool × Bool) (p : Nat × Nat) : Bool × Bool :=
  (st.1 && decide (p.1 = p.2), st.2 || (st.1 && decide (p.1 < p.2)))

/-- `ConstantTimeGreater::ct_gt`: limbs in big-endian order, state `(equal, greater)`. -/
def ctGt (a b : List Nat) : Bool := ((a.reverse.zip b.reverse).foldl gtStep (true, false)).2

/-- `ConstantTimeLess::ct_lt`. -/
def ctLt (a b : List Nat) : Bool := ((a.reverse.zip b.reverse).foldl ltStep (true, false)).2

/-- `ConditionallySelectable::conditional_select(a, b, choice)`: limb-wise `u64::conditional_select`
    (`a` for choice 0, `b` for choice 1). -/
def conditionalSelect (a b : List Nat) (c : Bool) : List Nat :=
  List.zipWith (fun x y => if c then y else x) a b

/-- `Uint::bit` (inherent): out-of-range index reads `false`. -/
def bit (bits : Nat) (a : List Nat) (i : Nat) : Bool :=
  if i ≥ bits then false else (a.getD (i / 64) 0 &&& 2 ^ (i % 64)) != 0

/-- `Uint::bit_ct`: `assert!(index < BITS)` (panic = `none`), then
    `(limb & (1 << bits)).ct_eq(&(1 << bits))`. -/
def bitCt (bits : Nat) (a : List Nat) (i : Nat) : Option Bool :=
  if i < bits then some (decide ((a.getD (i / 64) 0 &&& 2 ^ (i % 64)) = 2 ^ (i % 64))) else none

/-! ## value-level specifications of the inherent operations used below -/

def wadd (bits a b : Nat) : Nat := (a + b) % 2 ^ bits
def wsub (bits a b : Nat) : Nat := (a + 2 ^ bits - b) % 2 ^ bits
def wmul (bits a b : Nat) : Nat := (a * b) % 2 ^ bits
/-- `wrapping_div` / `wrapping_rem` panic on a zero divisor. -/
def wdiv (a b : Nat) : Option Nat := if b = 0 then none else some (a / b)
def wrem (a b : Nat) : Option Nat := if b = 0 then none else some (a % b)
/-- `Uint::pow` (wrapping): `a^e mod 2^bits`, by squaring so that the driver can evaluate it. -/
def powMod (m : Nat) : Nat → Nat → Nat → Nat
  | 0, _, _ => 1 % m
  | fuel + 1, a, e =>
    if e = 0 then 1 % m
    else
      let h := powMod m fuel (a * a % m) (e / 2)
      if e % 2 = 1 then a * h % m else h

def wpow (bits a e : Nat) : Nat := powMod (2 ^ bits) (e + 1) a e

/-- `wrapping_shl` / `wrapping_shr` by a `usize` amount (value level): everything is shifted out from `BITS` on. -/
def wshl (bits a k : Nat) : Nat := if k ≥ bits then 0 else (a * 2 ^ k) % 2 ^ bits
def wshr (bits a k : Nat) : Nat := if k ≥ bits then 0 else a / 2 ^ k

/-- `Shl<Uint> for Uint` (`src/bits.rs`, after the C05 repair): `BITS == 0` shortcut; an amount with a
    non-zero limb above the first moves every bit out; otherwise `wrapping_shl(rhs.limbs[0] as usize)`.
    The by-reference and assign shapes forward to this one. -/
def shlUint (bits a : Nat) (rhs : List Nat) : Nat :=
  if bits = 0 then a else if rhs.tail.any (· != 0) then 0 else wshl bits a (rhs.headD 0)

/-- `Shr<Uint> for Uint`. -/
def shrUint (bits a : Nat) (rhs : List Nat) : Nat :=
  if bits = 0 then a else if rhs.tail.any (· != 0) then 0 else wshr bits a (rhs.headD 0)

/-! ## num-integer -/

/-- `Integer::is_multiple_of`: `if other.is_zero() { return self.is_zero() }; self % other == ZERO`. -/
def isMultipleOf (a b : Nat) : Bool := if b = 0 then decide (a = 0) else decide (a % b = 0)

/-- `is_even`: `!self.bit(0)`; `is_odd`: `self.bit(0)` (at width 0 bit 0 is out of range: `false`). -/
def isOdd (bits a : Nat) : Bool := if 0 ≥ bits then false else decide (a % 2 = 1)
def isEven (bits a : Nat) : Bool := !isOdd bits a

/-- `inc`: `*self += ONE`, `dec`: `*self -= ONE` (`ONE` is zero at width 0). -/
def one (bits : Nat) : Nat := 1 % 2 ^ bits
def inc (bits a : Nat) : Nat := wadd bits a (one bits)
def dec (bits a : Nat) : Nat := wsub bits a (one bits)

/-- trait default `prev_multiple_of`: `self.clone() - self.mod_floor(other)`. -/
def prevMultipleOf (bits a b : Nat) : Option Nat :=
  match wrem a b with
  | none => none
  | some m => some (wsub bits a m)

/-- trait default `next_multiple_of`:
    `let m = self.mod_floor(other); self.clone() + if m.is_zero() { zero } else { other.clone() - m }`. -/
def nextMultipleOf (bits a b : Nat) : Option Nat :=
  match wrem a b with
  | none => none
  | some m => some (wadd bits a (if m = 0 then 0 else wsub bits b m))

/-- `Integer::lcm`: `Uint::lcm(..).unwrap()`; the inherent `lcm` is `None` on overflow. -/
def lcmInh (bits a b : Nat) : Option Nat := if Nat.lcm a b < 2 ^ bits then some (Nat.lcm a b) else none

/-! ## num-traits -/

/-- `MulAdd::mul_add(self, a, b)`: `(self * a) + b` with the wrapping operators. -/
def mulAdd (bits x a b : Nat) : Nat := wadd bits (wmul bits x a) b

/-- `PrimInt::pow(self, exp: u32)`: square-and-multiply on the `u32` exponent with the wrapping operators
    (`BITS == 0` returns `self`). Before commit "fix: PrimInt::pow" it was `self.pow(Self::from(exp))`, whose
    conversion panicked whenever `exp` was not representable at the width (`BITS < 32`). -/
def powU32 (bits a e : Nat) : Nat := if bits = 0 then a else wpow bits a e

/-- `n` big-endian bytes of `v` (`to_be_bytes_vec` with `n = BYTES`). -/
def beBytes : Nat → Nat → List Nat
  | 0, _ => []
  | n + 1, v => beBytes n (v / 256) ++ [v % 256]

/-- `n` little-endian bytes of `v` (`to_le_bytes_vec`). -/
def leBytes : Nat → Nat → List Nat
  | 0, _ => []
  | n + 1, v => v % 256 :: leBytes n (v / 256)

/-- big-endian byte string to number. -/
def ofBe (l : List Nat) : Nat := l.foldl (fun acc b => acc * 256 + b) 0

def nbytes (bits : Nat) : Nat := (bits + 7) / 8

/-- `try_from_be_slice` (value level): `None` when the slice is longer than `BYTES` or the number does
    not fit. -/
def tryFromBe (bits : Nat) (l : List Nat) : Option Nat :=
  if l.length > nbytes bits then none
  else if ofBe l < 2 ^ bits then some (ofBe l) else none

/-- `PrimInt::swap_bytes`: `to_be_bytes_vec`, `reverse`, `try_from_be_slice(..).unwrap()`. -/
def swapBytes (bits v : Nat) : Option Nat := tryFromBe bits (beBytes (nbytes bits) v).reverse

/-- `FromPrimitive::from_*` / `NumCast::from`: `Self::try_from(n).ok()`, negative or too large ↦ `None`. -/
def fromPrim (bits : Nat) (n : Int) : Option Nat :=
  if 0 ≤ n ∧ n.toNat < 2 ^ bits then some n.toNat else none

/-- `ToPrimitive::to_*`: `self.try_into().ok()`; `cap` = number of value bits of the target type. -/
def toPrim (cap a : Nat) : Option Nat := if a < 2 ^ cap then some a else none

/-- iterator `Product`: `if BITS == 0 { ZERO } else { fold(ONE, wrapping_mul) }`. -/
def product (bits : Nat) (l : List Nat) : Nat :=
  if bits = 0 then 0 else l.foldl (wmul bits) (one bits)

/-- iterator `Sum`: `fold(ZERO, wrapping_add)`. -/
def sum (bits : Nat) (l : List Nat) : Nat := l.foldl (wadd bits) 0

end Ruint.Facade
