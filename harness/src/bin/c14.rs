//! C14 — limb-slice division kernels: calls the real `ruint::algorithms::div::*` functions.
//!
//! Case lines (`op len args…`): see `lean/Ruint/Drv/C14.lean`. Reciprocal arguments of `div_2x1`/`div_3x2`
//! are the library's own `reciprocal`/`reciprocal_2` (the documented precondition `v = reciprocal(d)`).
use ruint::algorithms::div as d;
use vh::*;

fn w(s: &str) -> u64 {
    u64::from_str_radix(s, 16).unwrap()
}
fn dw(s: &str) -> u128 {
    u128::from_str_radix(s, 16).unwrap()
}

fn run(p: &[&str]) -> String {
    // `g_*` ops: same real functions; the driver evaluates the source-generated Lean definitions for them
    // `r_*` ops: the REFERENCE kernels (`reciprocal_ref`, `div_2x1_ref`); the driver evaluates their generated definitions
    match p[0] {
        "r_recip" => return format!("{:x}", d::reciprocal_ref(w(p[2]))),
        "r_d2x1" => {
            let (q, r) = d::div_2x1_ref(dw(p[2]), w(p[3]));
            return format!("{q:x} {r:x}");
        }
        _ => {}
    }
    match p[0].strip_prefix("g_").unwrap_or(p[0]) {
        "recip" => format!("{:x}", d::reciprocal(w(p[2]))),
        "recip2" => format!("{:x}", d::reciprocal_2(dw(p[2]))),
        "d2x1" => {
            let dv = w(p[3]);
            let (q, r) = d::div_2x1(dw(p[2]), dv, d::reciprocal(dv));
            format!("{q:x} {r:x}")
        }
        "d3x2" => {
            let dv = dw(p[4]);
            let (q, r) = d::div_3x2(dw(p[2]), w(p[3]), dv, d::reciprocal_2(dv));
            format!("{q:x} {r:x}")
        }
        "nx1n" => {
            let mut l = parse_limbs_list(p[2]);
            let r = d::div_nx1_normalized(&mut l, w(p[3]));
            format!("{} {:x}", limbs_list(&l), r)
        }
        "nx1" => {
            let mut l = parse_limbs_list(p[2]);
            let r = d::div_nx1(&mut l, w(p[3]));
            format!("{} {:x}", limbs_list(&l), r)
        }
        "nx2n" => {
            let mut l = parse_limbs_list(p[2]);
            let r = d::div_nx2_normalized(&mut l, dw(p[3]));
            format!("{} {:x}", limbs_list(&l), r)
        }
        "nx2" => {
            let mut l = parse_limbs_list(p[2]);
            let r = d::div_nx2(&mut l, dw(p[3]));
            format!("{} {:x}", limbs_list(&l), r)
        }
        "nxm" => {
            let mut n = parse_limbs_list(p[2]);
            let mut ds = parse_limbs_list(p[3]);
            d::div_nxm(&mut n, &mut ds);
            format!("{} {}", limbs_list(&n), limbs_list(&ds))
        }
        "nxmn" => {
            let mut n = parse_limbs_list(p[2]);
            let ds = parse_limbs_list(p[3]);
            d::div_nxm_normalized(&mut n, &ds);
            limbs_list(&n)
        }
        "div" => {
            let mut n = parse_limbs_list(p[2]);
            let mut ds = parse_limbs_list(p[3]);
            ruint::algorithms::div(&mut n, &mut ds);
            format!("{} {}", limbs_list(&n), limbs_list(&ds))
        }
        _ => "bad-op".into(),
    }
}

fn main() {
    run_lines(run);
}
