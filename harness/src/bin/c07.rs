//! C07 — integer conversions: calls the real `TryFrom`/`UintTryFrom`/`UintTryTo` impls of `src/from.rs`
//! and the limb-slice constructors of `src/lib.rs`.
use std::fmt::Debug;
use vh::ruint::{FromUintError, ToUintError, UintTryFrom, UintTryTo};
use vh::*;

/// primitive values travel as signed hex (`-80`, `ff`); bool as `0`/`1`.
trait Prim: Sized + Copy {
    fn parse(s: &str) -> Self;
    fn show(self) -> String;
}
macro_rules! prim_u { ($($t:ty)*) => {$(
    impl Prim for $t {
        fn parse(s: &str) -> Self { <$t>::from_str_radix(s, 16).expect("value out of range for the source type") }
        fn show(self) -> String { format!("{:x}", self) }
    }
)*} }
macro_rules! prim_i { ($($t:ty)*) => {$(
    impl Prim for $t {
        fn parse(s: &str) -> Self {
            if let Some(m) = s.strip_prefix('-') {
                let m = u128::from_str_radix(m, 16).unwrap();
                let v = (m as i128).wrapping_neg();
                assert!(v >= <$t>::MIN as i128 && v <= 0, "value out of range for the source type");
                v as $t
            } else {
                <$t>::from_str_radix(s, 16).expect("value out of range for the source type")
            }
        }
        fn show(self) -> String {
            if self < 0 { format!("-{:x}", self.unsigned_abs()) } else { format!("{:x}", self) }
        }
    }
)*} }
prim_u!(u8 u16 u32 u64 u128 usize);
prim_i!(i8 i16 i32 i64 i128 isize);
impl Prim for bool {
    fn parse(s: &str) -> Self {
        match s { "0" => false, "1" => true, _ => panic!("bad bool") }
    }
    fn show(self) -> String { if self { "1".into() } else { "0".into() } }
}

fn to_err<const B: usize, const L: usize>(r: Result<Uint<B, L>, ToUintError<Uint<B, L>>>) -> String {
    match r {
        Ok(n) => format!("ok {}", h(&n)),
        Err(ToUintError::ValueTooLarge(b, n)) => format!("err TooLarge {} {}", b, h(&n)),
        Err(ToUintError::ValueNegative(b, n)) => format!("err Negative {} {}", b, h(&n)),
        Err(ToUintError::NotANumber(b)) => format!("err NaN {}", b),
    }
}

fn from_t<T, const B: usize, const L: usize>(op: &str, s: &str) -> String
where
    T: Prim,
    Uint<B, L>: TryFrom<T, Error = ToUintError<Uint<B, L>>> + UintTryFrom<T>,
{
    let v = T::parse(s);
    match op {
        "try_from" => to_err(<Uint<B, L> as TryFrom<T>>::try_from(v)),
        "from" => h(&Uint::<B, L>::from(v)),
        "wfrom" => h(&Uint::<B, L>::wrapping_from(v)),
        "sfrom" => h(&Uint::<B, L>::saturating_from(v)),
        _ => "bad-op".into(),
    }
}

fn from_err<T: Prim>(r: Result<T, FromUintError<T>>) -> String {
    match r {
        Ok(v) => format!("ok {}", v.show()),
        Err(FromUintError::Overflow(b, w, m)) => format!("err Overflow {} {} {}", b, w.show(), m.show()),
    }
}

fn to_t<T, const B: usize, const L: usize>(op: &str, a: Uint<B, L>) -> String
where
    T: Prim + Debug + for<'a> TryFrom<&'a Uint<B, L>, Error = FromUintError<T>> + TryFrom<Uint<B, L>, Error = FromUintError<T>>,
    Uint<B, L>: UintTryTo<T>,
{
    match op {
        "try_to" => from_err(<T as TryFrom<&Uint<B, L>>>::try_from(&a)),
        "try_to_val" => from_err(<T as TryFrom<Uint<B, L>>>::try_from(a)),
        "to" => a.to::<T>().show(),
        "wto" => a.wrapping_to::<T>().show(),
        "sto" => a.saturating_to::<T>().show(),
        _ => "bad-op".into(),
    }
}

macro_rules! by_type {
    ($name:expr, $f:ident, $B:ident, $L:ident, $args:tt) => {
        match $name {
            "bool" => $f::<bool, $B, $L> $args,
            "u8" => $f::<u8, $B, $L> $args,
            "u16" => $f::<u16, $B, $L> $args,
            "u32" => $f::<u32, $B, $L> $args,
            "u64" => $f::<u64, $B, $L> $args,
            "u128" => $f::<u128, $B, $L> $args,
            "usize" => $f::<usize, $B, $L> $args,
            "i8" => $f::<i8, $B, $L> $args,
            "i16" => $f::<i16, $B, $L> $args,
            "i32" => $f::<i32, $B, $L> $args,
            "i64" => $f::<i64, $B, $L> $args,
            "i128" => $f::<i128, $B, $L> $args,
            "isize" => $f::<isize, $B, $L> $args,
            _ => "bad-op".to_string(),
        }
    };
}

fn run<const B: usize, const L: usize>(p: &[&str]) -> String {
    let op = p[0];
    match op {
        "try_from" | "from" | "wfrom" | "sfrom" => by_type!(p[2], from_t, B, L, (op, p[3])),
        "try_to" | "try_to_val" | "to" | "wto" | "sto" => {
            let a: Uint<B, L> = u(p[3]);
            by_type!(p[2], to_t, B, L, (op, a))
        }
        "ofls" => {
            let (n, f) = Uint::<B, L>::overflowing_from_limbs_slice(&parse_limbs_list(p[2]));
            format!("{} {}", h(&n), b(f))
        }
        "fls" => h(&Uint::<B, L>::from_limbs_slice(&parse_limbs_list(p[2]))),
        "cfls" => opt(Uint::<B, L>::checked_from_limbs_slice(&parse_limbs_list(p[2]))),
        "wfls" => h(&Uint::<B, L>::wrapping_from_limbs_slice(&parse_limbs_list(p[2]))),
        "sfls" => h(&Uint::<B, L>::saturating_from_limbs_slice(&parse_limbs_list(p[2]))),
        "from_limbs" => {
            let v = parse_limbs_list(p[2]);
            let a: [u64; L] = v.try_into().expect("from_limbs needs exactly LIMBS limbs");
            h(&Uint::<B, L>::from_limbs(a))
        }
        _ => "bad-op".into(),
    }
}

/// `Uint<BD, LD>` from/to `Uint<BS, LS>`
#[allow(deprecated)]
fn run_uu<const BD: usize, const LD: usize, const BS: usize, const LS: usize>(p: &[&str]) -> String {
    let a: Uint<BS, LS> = u(p[3]);
    match p[0] {
        "uu_try" => to_err(<Uint<BD, LD> as UintTryFrom<Uint<BS, LS>>>::uint_try_from(a)),
        "uu_from" => h(&Uint::<BD, LD>::from(a)),
        "uu_wfrom" => h(&Uint::<BD, LD>::wrapping_from(a)),
        "uu_sfrom" => h(&Uint::<BD, LD>::saturating_from(a)),
        "uu_from_uint" => h(&Uint::<BD, LD>::from_uint(a)),
        "uu_cfrom_uint" => opt(Uint::<BD, LD>::checked_from_uint(a)),
        "uu_try_to" => match <Uint<BS, LS> as UintTryTo<Uint<BD, LD>>>::uint_try_to(&a) {
            Ok(n) => format!("ok {}", h(&n)),
            Err(FromUintError::Overflow(bits, w, m)) => format!("err Overflow {} {} {}", bits, h(&w), h(&m)),
        },
        "uu_to" => h(&a.to::<Uint<BD, LD>>()),
        "uu_wto" => h(&a.wrapping_to::<Uint<BD, LD>>()),
        "uu_sto" => h(&a.saturating_to::<Uint<BD, LD>>()),
        _ => "bad-op".into(),
    }
}

macro_rules! dispatch2 {
    ($d:expr, $s:expr, $f:ident, $args:tt, [$($b:literal),* $(,)?]) => {
        dispatch2!(@outer $d, $s, $f, $args, [$($b),*], [$($b),*])
    };
    (@outer $d:expr, $s:expr, $f:ident, $args:tt, [$($b:literal),*], $all:tt) => {
        match $d {
            $( $b => dispatch2!(@inner $b, $s, $f, $args, $all), )*
            _ => "unsupported-width".to_string(),
        }
    };
    (@inner $bd:literal, $s:expr, $f:ident, $args:tt, [$($b:literal),*]) => {
        match $s {
            $( $b => $f::<$bd, { ($bd + 63) / 64 }, $b, { ($b + 63) / 64 }> $args, )*
            _ => "unsupported-width".to_string(),
        }
    };
}

fn main() {
    run_lines(|p| {
        let bits: usize = p[1].parse().unwrap();
        if p[0].starts_with("uu_") {
            let src: usize = p[2].parse().unwrap();
            dispatch2!(bits, src, run_uu, (p), [0, 1, 7, 8, 12, 63, 64, 65, 100, 127, 128, 129, 192, 250, 256, 512])
        } else {
            dispatch_bits!(bits, run, (p), [0, 1, 2, 3, 4, 5, 6, 7, 8, 9, 12, 15, 16, 17, 31, 32, 33, 60, 63, 64, 65, 72,
                96, 100, 126, 127, 128, 129, 130, 160, 192, 200, 250, 255, 256, 257, 320, 384, 512, 521, 1024, 4096])
        }
    });
}
