//! C08 — byte encodings: calls the real `Uint` byte methods of `src/bytes.rs`.
use vh::*;

fn copy_out(r: usize, buf: &[u8]) -> String {
    format!("{} {}", r, bytes_hex(buf))
}

/// `B` bits, `L` limbs, `BY = BYTES`, `BY1 = BYTES + 1` (a wrong array size, must panic).
fn run<const B: usize, const L: usize, const BY: usize, const BY1: usize>(p: &[&str]) -> String {
    type U<const B: usize, const L: usize> = Uint<B, L>;
    let op = p[0];
    match op {
        "try_le" => return opt(U::<B, L>::try_from_le_slice(&parse_hex_bytes(p[2]))),
        "try_be" => return opt(U::<B, L>::try_from_be_slice(&parse_hex_bytes(p[2]))),
        "from_le_slice" => return h(&U::<B, L>::from_le_slice(&parse_hex_bytes(p[2]))),
        "from_be_slice" => return h(&U::<B, L>::from_be_slice(&parse_hex_bytes(p[2]))),
        "from_le_bytes" | "from_be_bytes" => {
            let v = parse_hex_bytes(p[2]);
            let le = op == "from_le_bytes";
            if v.len() == BY {
                let a: [u8; BY] = v.try_into().unwrap();
                return h(&if le { U::<B, L>::from_le_bytes(a) } else { U::<B, L>::from_be_bytes(a) });
            } else if v.len() == BY1 {
                let a: [u8; BY1] = v.try_into().unwrap();
                return h(&if le { U::<B, L>::from_le_bytes(a) } else { U::<B, L>::from_be_bytes(a) });
            }
            return "bad-op".into();
        }
        _ => {}
    }
    let a: U<B, L> = u(p[2]);
    if p.len() == 4 {
        let mut buf = parse_hex_bytes(p[3]);
        return match op {
            "copy_le" => { let r = a.copy_le_bytes_to(&mut buf); copy_out(r, &buf) }
            "copy_be" => { let r = a.copy_be_bytes_to(&mut buf); copy_out(r, &buf) }
            "ccopy_le" => match a.checked_copy_le_bytes_to(&mut buf) {
                Some(r) => format!("some {}", copy_out(r, &buf)),
                None => format!("none {}", bytes_hex(&buf)),
            },
            "ccopy_be" => match a.checked_copy_be_bytes_to(&mut buf) {
                Some(r) => format!("some {}", copy_out(r, &buf)),
                None => format!("none {}", bytes_hex(&buf)),
            },
            _ => "bad-op".into(),
        };
    }
    match op {
        "as_le_slice" => bytes_hex(a.as_le_slice()),
        "as_le_bytes" => bytes_hex(&a.as_le_bytes()),
        "as_le_trim" => bytes_hex(&a.as_le_bytes_trimmed()),
        "le_vec" => bytes_hex(&a.to_le_bytes_vec()),
        "be_vec" => bytes_hex(&a.to_be_bytes_vec()),
        "le_trim" => bytes_hex(&a.to_le_bytes_trimmed_vec()),
        "be_trim" => bytes_hex(&a.to_be_bytes_trimmed_vec()),
        "le_arr" => bytes_hex(&a.to_le_bytes::<BY>()),
        "be_arr" => bytes_hex(&a.to_be_bytes::<BY>()),
        "le_arr_bad" => bytes_hex(&a.to_le_bytes::<BY1>()),
        "be_arr_bad" => bytes_hex(&a.to_be_bytes::<BY1>()),
        "rt" => {
            // decode(encode(a)) through every pair; prints `a` when all agree
            let all = [
                U::<B, L>::try_from_le_slice(a.as_le_slice()),
                U::<B, L>::try_from_be_slice(&a.to_be_bytes_vec()),
                U::<B, L>::try_from_le_slice(&a.to_le_bytes_trimmed_vec()),
                U::<B, L>::try_from_be_slice(&a.to_be_bytes_trimmed_vec()),
                Some(U::<B, L>::from_le_bytes(a.to_le_bytes::<BY>())),
                Some(U::<B, L>::from_be_bytes(a.to_be_bytes::<BY>())),
                Some(U::<B, L>::from_le_slice(&a.to_le_bytes_vec())),
                Some(U::<B, L>::from_be_slice(&a.to_be_bytes_vec())),
            ];
            if all.iter().all(|x| x.as_ref().map(|v| v.as_limbs()) == Some(a.as_limbs())) {
                h(&a)
            } else {
                "mismatch".into()
            }
        }
        _ => "bad-op".into(),
    }
}

macro_rules! dispatch_bytes {
    ($bits:expr, $f:ident, $args:tt, [$($b:literal),* $(,)?]) => {
        match $bits {
            $( $b => $f::<$b, { ($b + 63) / 64 }, { ($b + 7) / 8 }, { ($b + 7) / 8 + 1 }> $args, )*
            _ => "unsupported-width".to_string(),
        }
    };
}

fn main() {
    run_lines(|p| {
        let bits: usize = p[1].parse().unwrap();
        dispatch_bytes!(bits, run, (p), [0, 1, 2, 3, 4, 5, 6, 7, 8, 9, 12, 15, 16, 17, 20, 24, 31, 32, 33, 56, 57, 60, 63, 64,
            65, 72, 96, 100, 120, 121, 127, 128, 129, 160, 192, 200, 250, 255, 256, 257, 320, 384, 440, 505, 512, 521,
            1024, 4090, 4096])
    });
}
