//! C16 — codec round trips, advertised lengths, reference encodings: calls the real integrations.
#[path = "codec_shared/mod.rs"]
mod codec_shared;

fn main() {
    vh::run_lines(codec_shared::run_case);
}
