//! C01 — add / sub / neg: calls the real `Uint` methods and operators.
use vh::*;

fn run<const B: usize, const L: usize>(p: &[&str]) -> String {
    type U<const B: usize, const L: usize> = Uint<B, L>;
    let op = p[0];
    match op {
        "sum" | "sumref" => {
            if p[2].split(',').any(|t| t == "N") {
                // `N` = the iterator returns `None` there and goes on afterwards (a non-fused iterator): only the items
                // before the first `None` belong to the sum
                let items: Vec<Option<U<B, L>>> =
                    p[2].split(',').map(|t| if t == "N" { None } else { Some(u::<B, L>(t)) }).collect();
                let mut i = 0usize;
                let r: U<B, L> = if op == "sum" {
                    std::iter::from_fn(|| { let r = items.get(i).copied().flatten(); i += 1; r }).sum()
                } else {
                    std::iter::from_fn(|| { let r = items.get(i).and_then(|o| o.as_ref()); i += 1; r }).sum()
                };
                return h(&r);
            }
            let xs: Vec<U<B, L>> =
                if p[2] == "-" { vec![] } else { p[2].split(',').map(u::<B, L>).collect() };
            let r: U<B, L> = if op == "sum" { xs.into_iter().sum() } else { xs.iter().sum() };
            return h(&r);
        }
        _ => {}
    }
    let a: U<B, L> = u(p[2]);
    if p.len() == 3 {
        return match op {
            "oneg" => { let (r, f) = a.overflowing_neg(); format!("{} {}", h(&r), b(f)) }
            "cneg" => opt(a.checked_neg()),
            "wneg" => h(&a.wrapping_neg()),
            "neg" => h(&(-a)),
            "negref" => h(&(-&a)),
            _ => "bad-op".into(),
        };
    }
    let c: U<B, L> = u(p[3]);
    match op {
        "oadd" => { let (r, f) = a.overflowing_add(c); format!("{} {}", h(&r), b(f)) }
        "osub" => { let (r, f) = a.overflowing_sub(c); format!("{} {}", h(&r), b(f)) }
        "cadd" => opt(a.checked_add(c)),
        "csub" => opt(a.checked_sub(c)),
        "sadd" => h(&a.saturating_add(c)),
        "ssub" => h(&a.saturating_sub(c)),
        "wadd" => h(&a.wrapping_add(c)),
        "wsub" => h(&a.wrapping_sub(c)),
        "absdiff" => h(&a.abs_diff(c)),
        "add0" => h(&(a + c)),
        "add1" => h(&(a + &c)),
        "add2" => h(&(&a + c)),
        "add3" => h(&(&a + &c)),
        "add4" => { let mut x = a; x += c; h(&x) }
        "add5" => { let mut x = a; x += &c; h(&x) }
        "sub0" => h(&(a - c)),
        "sub1" => h(&(a - &c)),
        "sub2" => h(&(&a - c)),
        "sub3" => h(&(&a - &c)),
        "sub4" => { let mut x = a; x -= c; h(&x) }
        "sub5" => { let mut x = a; x -= &c; h(&x) }
        _ => "bad-op".into(),
    }
}

/// word primitives (pub in ruint::algorithms): `w_cadd a b carry`, `w_bsub a b borrow`
fn word(p: &[&str]) -> String {
    let a = u64::from_str_radix(p[2], 16).unwrap();
    let c = u64::from_str_radix(p[3], 16).unwrap();
    let f = p[4] == "t";
    let (r, o) = match p[0] {
        "w_cadd" => ruint::algorithms::carrying_add(a, c, f),
        _ => ruint::algorithms::borrowing_sub(a, c, f),
    };
    format!("{:x} {}", r, b(o))
}

fn main() {
    run_lines(|p| {
        if p[0].starts_with("w_") {
            return word(p);
        }
        let bits: usize = p[1].parse().unwrap();
        dispatch_bits!(bits, run, (p), [0, 1, 2, 3, 4, 5, 6, 7, 8, 12, 16, 31, 32, 33, 60, 63, 64, 65, 72, 96,
            100, 127, 128, 129, 160, 192, 200, 250, 255, 256, 257, 320, 384, 512, 521, 1024, 4096])
    });
}
