//! C19 — `uint!` literals.
//!
//! ops:
//!   rt bits radix text   in-process: the REAL run-time parser `Uint::<bits>::from_str_radix(text, radix)` on the digit
//!                        text of a literal -> `ok <limbs csv>` | `err`   (the macro model must agree with it)
//!   fast text            the macro's private `parse_suffix` / `parse_digits` / `pad_limbs`, called directly
//!   lit text             one literal through the real `ruint::uint!` in a generated probe crate (compile + run)
//! `fast` and `lit` cannot run in this process (a proc macro runs inside rustc): the lines are batched and handed to
//! `tools/props/c19.py --batch`, which builds/compiles against the same working tree ($VERIF_REPO or /repo) and
//! returns one canonical line per case:  `pass` | `ok U|B <bits> <limbs csv>` | `err <kind> ...` | `panic`.
use std::io::{BufRead, Write};
use std::panic::{catch_unwind, AssertUnwindSafe};
use vh::*;

fn rt<const B: usize, const L: usize>(p: &[&str]) -> String {
    let radix = u64::from_str_radix(p[2], 16).unwrap();
    let s = String::from_utf8(parse_hex_bytes(p[3])).unwrap();
    match Uint::<B, L>::from_str_radix(&s, radix) {
        Ok(v) => format!("ok {}", limbs_list(v.as_limbs())),
        Err(_) => "err".to_string(),
    }
}

fn batch(kind: &str, items: &[String]) -> Vec<String> {
    let root = std::env::var("VERIF_ROOT").unwrap_or_else(|_| "/verif".to_string());
    let dir = format!("{root}/harness/target/probes_c19/batch");
    std::fs::create_dir_all(&dir).unwrap();
    let base = format!("{dir}/{}_{}", kind, std::process::id());
    std::fs::write(format!("{base}.in"), items.join("\n") + "\n").unwrap();
    let st = std::process::Command::new("python3")
        .arg(format!("{root}/tools/props/c19.py"))
        .arg("--batch")
        .arg(kind)
        .arg(format!("{base}.in"))
        .arg(format!("{base}.out"))
        .status();
    let out = std::fs::read_to_string(format!("{base}.out")).unwrap_or_default();
    let _ = std::fs::remove_file(format!("{base}.in"));
    let _ = std::fs::remove_file(format!("{base}.out"));
    let mut v: Vec<String> = out.lines().map(str::to_string).collect();
    if st.is_err() || v.len() != items.len() {
        v = vec!["batch-failed".to_string(); items.len()];
    }
    v
}

fn main() {
    std::panic::set_hook(Box::new(|_| {}));
    let lines: Vec<String> = std::io::stdin().lock().lines().map(|l| l.unwrap()).collect();
    let mut res: Vec<Option<String>> = vec![None; lines.len()];
    for kind in ["fast", "lit"] {
        let idx: Vec<usize> = (0..lines.len()).filter(|&i| lines[i].split_whitespace().next() == Some(kind)).collect();
        if idx.is_empty() {
            continue;
        }
        let items: Vec<String> =
            idx.iter().map(|&i| lines[i].split_whitespace().nth(1).unwrap_or("-").to_string()).collect();
        for (k, r) in idx.iter().zip(batch(kind, &items)) {
            res[*k] = Some(r);
        }
    }
    let stdout = std::io::stdout();
    let mut out = std::io::BufWriter::new(stdout.lock());
    for (i, line) in lines.iter().enumerate() {
        if let Some(r) = res[i].take() {
            writeln!(out, "{r}").unwrap();
            continue;
        }
        let p: Vec<&str> = line.split_whitespace().collect();
        if p.is_empty() {
            writeln!(out).unwrap();
            continue;
        }
        let r = catch_unwind(AssertUnwindSafe(|| match p[0] {
            "rt" => {
                let bits: usize = p[1].parse().unwrap();
                dispatch_bits!(bits, rt, (&p), [0, 1, 2, 3, 7, 8, 16, 63, 64, 65, 127, 128, 129, 192, 256, 257, 512, 1000, 4096])
            }
            _ => "bad-op".to_string(),
        }));
        writeln!(out, "{}", r.unwrap_or_else(|_| "panic".to_string())).unwrap();
    }
    out.flush().unwrap();
}
