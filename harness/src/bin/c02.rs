//! C02 — multiplication: calls the real `Uint` methods, operators, `widening_mul`, `inv_ring`, `Product`.
use vh::*;

fn run<const B: usize, const L: usize>(p: &[&str]) -> String {
    type U<const B: usize, const L: usize> = Uint<B, L>;
    let op = p[0];
    match op {
        "prod" | "prodref" => {
            if p[2].split(',').any(|t| t == "N") {
                // `N` = the iterator returns `None` there and goes on afterwards (a non-fused iterator): only the items
                // before the first `None` belong to the product
                let items: Vec<Option<U<B, L>>> =
                    p[2].split(',').map(|t| if t == "N" { None } else { Some(u::<B, L>(t)) }).collect();
                let mut i = 0usize;
                let r: U<B, L> = if op == "prod" {
                    std::iter::from_fn(|| { let r = items.get(i).copied().flatten(); i += 1; r }).product()
                } else {
                    std::iter::from_fn(|| { let r = items.get(i).and_then(|o| o.as_ref()); i += 1; r }).product()
                };
                return h(&r);
            }
            let xs: Vec<U<B, L>> =
                if p[2] == "-" { vec![] } else { p[2].split(',').map(u::<B, L>).collect() };
            let r: U<B, L> = if op == "prod" { xs.into_iter().product() } else { xs.iter().product() };
            return h(&r);
        }
        "inv" => {
            let a: U<B, L> = u(p[2]);
            return opt(a.inv_ring());
        }
        _ => {}
    }
    let a: U<B, L> = u(p[2]);
    let c: U<B, L> = u(p[3]);
    match op {
        "omul" => { let (r, f) = a.overflowing_mul(c); format!("{} {}", h(&r), b(f)) }
        "cmul" => opt(a.checked_mul(c)),
        "smul" => h(&a.saturating_mul(c)),
        "wmul" => h(&a.wrapping_mul(c)),
        "mul0" => h(&(a * c)),
        "mul1" => h(&(a * &c)),
        "mul2" => h(&(&a * c)),
        "mul3" => h(&(&a * &c)),
        "mul4" => { let mut x = a; x *= c; h(&x) }
        "mul5" => { let mut x = a; x *= &c; h(&x) }
        _ => "bad-op".into(),
    }
}

fn wide<
    const B1: usize,
    const L1: usize,
    const B2: usize,
    const L2: usize,
    const BR: usize,
    const LR: usize,
>(
    sa: &str,
    sb: &str,
) -> String {
    let a: Uint<B1, L1> = u(sa);
    let c: Uint<B2, L2> = u(sb);
    let r: Uint<BR, LR> = a.widening_mul(c);
    h(&r)
}

macro_rules! wide_rhs {
    ($b1:literal, $bits2:expr, $sa:expr, $sb:expr, [$($b2:literal),*]) => {
        match $bits2 {
            $( $b2 => wide::<$b1, { ($b1 + 63) / 64 }, $b2, { ($b2 + 63) / 64 }, { $b1 + $b2 }, { ($b1 + $b2 + 63) / 64 }>($sa, $sb), )*
            _ => "unsupported-width".to_string(),
        }
    };
}

macro_rules! wide_lhs {
    ($bits1:expr, $bits2:expr, $sa:expr, $sb:expr, [$($b1:literal),*], $l2:tt) => {
        match $bits1 {
            $( $b1 => wide_rhs!($b1, $bits2, $sa, $sb, $l2), )*
            _ => "unsupported-width".to_string(),
        }
    };
}

/// wrong `BITS_RES` (well-formed result type): the `assert_eq!` must fire.
fn widebad(b1: usize, b2: usize, br: usize, sa: &str, sb: &str) -> String {
    match (b1, b2, br) {
        (64, 64, 127) => wide::<64, 1, 64, 1, 127, 2>(sa, sb),
        (64, 64, 129) => wide::<64, 1, 64, 1, 129, 3>(sa, sb),
        (64, 64, 64) => wide::<64, 1, 64, 1, 64, 1>(sa, sb),
        (1, 1, 1) => wide::<1, 1, 1, 1, 1, 1>(sa, sb),
        (0, 0, 1) => wide::<0, 0, 0, 0, 1, 1>(sa, sb),
        (65, 63, 64) => wide::<65, 2, 63, 1, 64, 1>(sa, sb),
        (8, 8, 256) => wide::<8, 1, 8, 1, 256, 4>(sa, sb),
        (128, 128, 256) => wide::<128, 2, 128, 2, 256, 4>(sa, sb),
        _ => "unsupported-width".to_string(),
    }
}

fn main() {
    run_lines(|p| {
        let bits: usize = p[1].parse().unwrap();
        if p[0] == "wide" {
            let bits2: usize = p[2].parse().unwrap();
            return wide_lhs!(bits, bits2, p[3], p[4], [0, 1, 2, 3, 4, 5, 63, 64, 65, 127, 128, 192, 256],
                [0, 1, 2, 3, 4, 5, 63, 64, 65, 127, 128, 192, 256]);
        }
        if p[0] == "widebad" {
            return widebad(bits, p[2].parse().unwrap(), p[3].parse().unwrap(), p[4], p[5]);
        }
        dispatch_bits!(bits, run, (p), [0, 1, 2, 3, 4, 5, 6, 7, 8, 12, 16, 31, 32, 33, 60, 63, 64, 65, 72, 96,
            100, 127, 128, 129, 160, 192, 200, 250, 255, 256, 257, 320, 384, 512, 521, 1024, 4096])
    });
}
