//! C06 — bitwise logic, bit access, counting: calls the real `Uint` methods and operators.
//!
//! Cases: `op bits a` | `op bits a b` (binary logic ops `and0..and5`, `or0..5`, `xor0..5`) |
//! `bit|byte|cbyte bits a index` | `setbit bits a index t|f`. Counts are printed in hex.
use vh::*;

macro_rules! six_shapes {
    ($a:expr, $c:expr, $shape:expr, $op:tt, $opa:tt) => {{
        let (a, c) = ($a, $c);
        match $shape {
            "0" => h(&(a $op c)),
            "1" => h(&(a $op &c)),
            "2" => h(&(&a $op c)),
            "3" => h(&(&a $op &c)),
            "4" => { let mut x = a; x $opa c; h(&x) }
            "5" => { let mut x = a; x $opa &c; h(&x) }
            // both references point at the SAME object when the operands are equal (aliasing)
            "6" => { if a == c { let r = &a; h(&(r $op r)) } else { h(&(&a $op &c)) } }
            "7" => { if a == c { let r = &a; h(&(a $op r)) } else { h(&(a $op &c)) } }
            _ => "bad-op".into(),
        }
    }};
}

/// Second, implementation-level oracle (DESIGN §8 table): at widths 64 and 128 the primitive integer
/// intrinsics must agree with the `Uint` result. A disagreement is printed as an outcome that matches
/// neither the model nor the spec.
fn native(op: &str, bits: usize, x: u128, got: &str) -> Option<String> {
    let m: u128 = if bits == 64 { u64::MAX as u128 } else { u128::MAX };
    let lz = |v: u128| (v.leading_zeros() as usize) - (128 - bits);
    let want = match op {
        "not" | "notop" | "notref" => format!("{:x}", !x & m),
        "rev" => format!("{:x}", x.reverse_bits() >> (128 - bits)),
        "lz" => format!("{:x}", lz(x)),
        "lo" => format!("{:x}", lz(!x & m)),
        "tz" => format!("{:x}", if x == 0 { bits } else { x.trailing_zeros() as usize }),
        "to" => format!("{:x}", (x.trailing_ones() as usize).min(bits)),
        "cnt1" => format!("{:x}", x.count_ones()),
        "cnt0" => format!("{:x}", bits - x.count_ones() as usize),
        "bitlen" => format!("{:x}", bits - lz(x)),
        "ispow2" => b(x.is_power_of_two()).to_string(),
        "cnpow2" => match x.checked_next_power_of_two() {
            Some(v) if v <= m => format!("some {v:x}"),
            _ => "none".to_string(),
        },
        _ => return None,
    };
    if want == got { None } else { Some(format!("native-oracle-mismatch uint={got} native={want}")) }
}

fn run<const B: usize, const L: usize>(p: &[&str]) -> String {
    let r = run_inner::<B, L>(p);
    if (B == 64 || B == 128) && p.len() == 3 {
        if let Ok(x) = u128::from_str_radix(p[2], 16) {
            if let Some(bad) = native(p[0], B, x, &r) {
                return bad;
            }
        }
    }
    r
}

fn run_inner<const B: usize, const L: usize>(p: &[&str]) -> String {
    type U<const B: usize, const L: usize> = Uint<B, L>;
    let op = p[0];
    let a: U<B, L> = u(p[2]);
    if p.len() == 3 {
        return match op {
            "not" => h(&U::<B, L>::not(a)),
            "notop" => h(&(!a)),
            "notref" => h(&(!&a)),
            "rev" => h(&U::<B, L>::reverse_bits(a)),
            "lz" => format!("{:x}", U::<B, L>::leading_zeros(&a)),
            "lo" => format!("{:x}", U::<B, L>::leading_ones(&a)),
            "tz" => format!("{:x}", U::<B, L>::trailing_zeros(&a)),
            "to" => format!("{:x}", U::<B, L>::trailing_ones(&a)),
            "cnt1" => format!("{:x}", U::<B, L>::count_ones(&a)),
            "cnt0" => format!("{:x}", U::<B, L>::count_zeros(&a)),
            "bitlen" => format!("{:x}", U::<B, L>::bit_len(&a)),
            "bytelen" => format!("{:x}", U::<B, L>::byte_len(&a)),
            "msb" => { let (m, e) = U::<B, L>::most_significant_bits(&a); format!("{m:x} {e:x}") }
            "ispow2" => b(U::<B, L>::is_power_of_two(a)).to_string(),
            "npow2" => h(&U::<B, L>::next_power_of_two(a)),
            "cnpow2" => opt(U::<B, L>::checked_next_power_of_two(a)),
            _ => "bad-op".into(),
        };
    }
    if op == "setbit" {
        let i = usize::from_str_radix(p[3], 16).unwrap();
        let mut x = a;
        U::<B, L>::set_bit(&mut x, i, p[4] == "t");
        return h(&x);
    }
    match op {
        "bit" | "bitidx" | "byte" | "cbyte" => {
            let i = usize::from_str_radix(p[3], 16).unwrap();
            return match op {
                "bit" => b(U::<B, L>::bit(&a, i)).to_string(),
                // the `Index<usize>` operator of the `Bits` wrapper: documented as `bit(i)` (false beyond BITS, at ANY index)
                "bitidx" => b(ruint::Bits::<B, L>::from(a)[i]).to_string(),
                "byte" => format!("{:x}", U::<B, L>::byte(&a, i)),
                _ => match U::<B, L>::checked_byte(&a, i) {
                    Some(v) => format!("some {v:x}"),
                    None => "none".into(),
                },
            };
        }
        _ => {}
    }
    let c: U<B, L> = u(p[3]);
    if let Some(s) = op.strip_prefix("and") {
        six_shapes!(a, c, s, &, &=)
    } else if let Some(s) = op.strip_prefix("xor") {
        six_shapes!(a, c, s, ^, ^=)
    } else if let Some(s) = op.strip_prefix("or") {
        six_shapes!(a, c, s, |, |=)
    } else {
        "bad-op".into()
    }
}

fn main() {
    run_lines(|p| {
        let bits: usize = p[1].parse().unwrap();
        dispatch_bits!(bits, run, (p), [0, 1, 2, 3, 4, 5, 6, 7, 8, 9, 10, 12, 16, 31, 32, 33, 60, 63, 64, 65, 72, 96,
            100, 127, 128, 129, 160, 192, 200, 250, 255, 256, 257, 320, 384, 512, 521, 1024, 4096])
    });
}
