//! C17 — decoders on untrusted input: calls the real decoders of every integration.
#[path = "codec_shared/mod.rs"]
mod codec_shared;

fn main() {
    vh::run_lines(codec_shared::run_case);
}
