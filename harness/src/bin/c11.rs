//! C11 — Montgomery `mul_redc` / `square_redc`: calls the real slice-level functions
//! `ruint::algorithms::{mul_redc, square_redc}::<N>` for N = 1..=16 and the `Uint` methods.
use vh::*;

fn arr<const N: usize>(s: &str) -> [u64; N] {
    let v = hex_to_limbs_vec(s, N).expect("harness input does not fit the limb count");
    let mut a = [0u64; N];
    a.copy_from_slice(&v);
    a
}

fn word(s: &str) -> u64 {
    u64::from_str_radix(s, 16).unwrap()
}

fn slice_run<const N: usize>(p: &[&str]) -> String {
    match p[0] {
        "mulredc" => {
            let r = ruint::algorithms::mul_redc::<N>(arr(p[2]), arr(p[3]), arr(p[4]), word(p[5]));
            limbs_hex(&r)
        }
        "sqredc" => {
            let r = ruint::algorithms::square_redc::<N>(arr(p[2]), arr(p[3]), word(p[4]));
            limbs_hex(&r)
        }
        _ => "bad-op".into(),
    }
}

fn uint_run<const B: usize, const L: usize>(p: &[&str]) -> String {
    match p[0] {
        "umulredc" => {
            let (a, b, m): (Uint<B, L>, Uint<B, L>, Uint<B, L>) = (u(p[2]), u(p[3]), u(p[4]));
            h(&Uint::mul_redc(a, b, m, word(p[5])))
        }
        "usqredc" => {
            let (a, m): (Uint<B, L>, Uint<B, L>) = (u(p[2]), u(p[3]));
            h(&Uint::square_redc(a, m, word(p[4])))
        }
        _ => "bad-op".into(),
    }
}

macro_rules! dispatch_n {
    ($n:expr, $f:ident, $args:tt, [$($k:literal),*]) => {
        match $n {
            $( $k => $f::<$k> $args, )*
            _ => "unsupported-width".to_string(),
        }
    };
}

fn main() {
    run_lines(|p| {
        let n: usize = p[1].parse().unwrap();
        match p[0] {
            "mulredc" | "sqredc" => {
                dispatch_n!(n, slice_run, (p), [1, 2, 3, 4, 5, 6, 7, 8, 9, 10, 11, 12, 13, 14, 15, 16])
            }
            _ => dispatch_bits!(n, uint_run, (p), [0, 1, 2, 3, 4, 5, 6, 7, 8, 16, 31, 32, 33, 63, 64, 65, 100, 127, 128,
                129, 191, 192, 193, 255, 256, 257, 320, 384, 448, 512, 521, 576, 640, 704, 768, 832, 896, 960,
                1023, 1024]),
        }
    });
}
