//! C18 — float conversions: calls the real `TryFrom<f64/f32> for Uint`, `Uint::{from,saturating_from,
//! wrapping_from}(float)`, `f64/f32::from(Uint / &Uint)`, and (ops `hw_*`) the host FPU / libm steps
//! that the Lean IEEE-754 model relies on. Floats travel as BIT PATTERNS (hex of `to_bits()`).
use std::hint::black_box;
use vh::ruint::ToUintError;
use vh::*;

fn f64_of(s: &str) -> f64 {
    f64::from_bits(u64::from_str_radix(s, 16).unwrap())
}
fn f32_of(s: &str) -> f32 {
    f32::from_bits(u32::from_str_radix(s, 16).unwrap())
}
fn fb64(x: f64) -> String {
    if x.is_nan() { "nan".into() } else { format!("{:x}", x.to_bits()) }
}
fn fb32(x: f32) -> String {
    if x.is_nan() { "nan".into() } else { format!("{:x}", x.to_bits()) }
}

fn res<const B: usize, const L: usize>(r: Result<Uint<B, L>, ToUintError<Uint<B, L>>>) -> String {
    // the `.0` field of every error is BITS; a wrong one is made visible as `@n`
    let at = |n: usize| if n == B { String::new() } else { format!("@{n}") };
    match r {
        Ok(n) => format!("ok {}", h(&n)),
        Err(ToUintError::ValueTooLarge(k, n)) => format!("err TooLarge{} {}", at(k), h(&n)),
        Err(ToUintError::ValueNegative(k, n)) => format!("err Negative{} {}", at(k), h(&n)),
        Err(ToUintError::NotANumber(k)) => format!("err NaN{}", at(k)),
    }
}

fn run<const B: usize, const L: usize>(p: &[&str]) -> String {
    type U<const B: usize, const L: usize> = Uint<B, L>;
    match p[0] {
        "tryf64" => res(<U<B, L> as TryFrom<f64>>::try_from(f64_of(p[2]))),
        "tryf32" => res(<U<B, L> as TryFrom<f32>>::try_from(f32_of(p[2]))),
        "satf64" => h(&U::<B, L>::saturating_from(f64_of(p[2]))),
        "satf32" => h(&U::<B, L>::saturating_from(f32_of(p[2]))),
        "wrapf64" => h(&U::<B, L>::wrapping_from(f64_of(p[2]))),
        "wrapf32" => h(&U::<B, L>::wrapping_from(f32_of(p[2]))),
        "fromf64" => h(&U::<B, L>::from(f64_of(p[2]))),
        "fromf32" => h(&U::<B, L>::from(f32_of(p[2]))),
        "tof64" => { let a: U<B, L> = u(p[2]); fb64(<f64 as From<&U<B, L>>>::from(&a)) }
        "tof64v" => { let a: U<B, L> = u(p[2]); fb64(<f64 as From<U<B, L>>>::from(a)) }
        "tof32" => { let a: U<B, L> = u(p[2]); fb32(<f32 as From<&U<B, L>>>::from(&a)) }
        "tof32v" => { let a: U<B, L> = u(p[2]); fb32(<f32 as From<U<B, L>>>::from(a)) }
        "mono64" => {
            let a: U<B, L> = u(p[2]);
            let c: U<B, L> = u(p[3]);
            format!("{} {}", fb64(f64::from(&a)), fb64(f64::from(&c)))
        }
        "mono32" => {
            let a: U<B, L> = u(p[2]);
            let c: U<B, L> = u(p[3]);
            format!("{} {}", fb32(f32::from(&a)), fb32(f32::from(&c)))
        }
        "msb" => {
            let a: U<B, L> = u(p[2]);
            let (b, e) = a.most_significant_bits();
            format!("{b:x} {e:x}")
        }
        _ => "bad-op".into(),
    }
}

/// host FPU / libm steps (width argument ignored)
fn hw(p: &[&str]) -> Option<String> {
    let a = |i: usize| black_box(f64_of(p[i]));
    let s = |i: usize| black_box(f32_of(p[i]));
    let n = |i: usize| black_box(u64::from_str_radix(p[i], 16).unwrap());
    Some(match p[0] {
        "hw_addhalf" => fb64(a(2) + black_box(0.5)),
        "hw_add64" => fb64(a(2) + a(3)),
        "hw_add32" => fb32(s(2) + s(3)),
        "hw_mul64" => fb64(a(2) * a(3)),
        "hw_mul32" => fb32(s(2) * s(3)),
        "hw_fmod64" => fb64(a(2) % a(3)),
        "hw_lt64" => b(a(2) < a(3)).into(),
        "hw_ge64" => b(a(2) >= a(3)).into(),
        "hw_abs64" => fb64(a(2).abs()),
        "hw_isnormal64" => b(a(2).is_normal()).into(),
        "hw_u64f64" => fb64(n(2) as f64),
        "hw_u64f32" => fb32(n(2) as f32),
        "hw_f32f64" => fb64(s(2) as f64),
        "hw_exp2" => fb64((n(2) as usize as f64).exp2()),
        "hw_exp2f" => fb32((n(2) as usize as f32).exp2()),
        _ => return None,
    })
}

/// The float-to-Uint conversions recurse (`try_from(|value|)`, `try_from(value % modulus)`); an edit that
/// breaks the recursion's progress makes them spin forever. Those ops therefore run on a helper thread
/// with a time limit: the outcome is `timeout` (compared like any other outcome). A stuck thread cannot be
/// stopped, so after a few of them the remaining conversion cases report `timeout` at once.
fn with_limit(p: &[&str], f: fn(&[&str]) -> String) -> String {
    use std::sync::atomic::{AtomicUsize, Ordering};
    static STUCK: AtomicUsize = AtomicUsize::new(0);
    if STUCK.load(Ordering::SeqCst) >= 3 {
        return "timeout".into();
    }
    let owned: Vec<String> = p.iter().map(|s| s.to_string()).collect();
    let (tx, rx) = std::sync::mpsc::channel();
    std::thread::spawn(move || {
        let refs: Vec<&str> = owned.iter().map(|s| s.as_str()).collect();
        let r = std::panic::catch_unwind(|| f(&refs)).unwrap_or_else(|_| "panic".to_string());
        let _ = tx.send(r);
    });
    match rx.recv_timeout(std::time::Duration::from_secs(10)) {
        Ok(r) => r,
        Err(_) => {
            STUCK.fetch_add(1, Ordering::SeqCst);
            "timeout".into()
        }
    }
}

fn dispatch(p: &[&str]) -> String {
    let bits: usize = p[1].parse().unwrap();
    dispatch_bits!(bits, run, (p), [0, 1, 2, 7, 8, 12, 24, 25, 32, 52, 53, 54, 63, 64, 65, 127, 128, 129,
            256, 512, 1023, 1024, 1025, 1087, 1088, 1100, 2048, 4096])
}

fn main() {
    run_lines(|p| {
        if let Some(r) = hw(p) {
            return r;
        }
        match p[0] {
            "tryf64" | "tryf32" | "satf64" | "satf32" | "wrapf64" | "wrapf32" | "fromf64" | "fromf32" => {
                with_limit(p, dispatch)
            }
            _ => dispatch(p),
        }
    });
}
