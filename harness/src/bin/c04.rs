//! C04 — canonical values: histories of safe operations over a register file (raw limbs after every step),
//! `==`/`Hash`/`Ord` on register pairs, constructors, and the random/arbitrary generators.
use std::collections::hash_map::DefaultHasher;
use std::hash::{Hash, Hasher};
use vh::*;

/// RNG that replays a script (little-endian bytes of the given limbs), then zeros.
struct Script {
    bytes: Vec<u8>,
    pos: usize,
}
impl Script {
    fn new(limbs: &[u64]) -> Self {
        Script { bytes: limbs.iter().flat_map(|l| l.to_le_bytes()).collect(), pos: 0 }
    }
    fn fill(&mut self, dest: &mut [u8]) {
        for b in dest.iter_mut() {
            *b = self.bytes.get(self.pos).copied().unwrap_or(0);
            self.pos += 1;
        }
    }
}
impl rand_08::RngCore for Script {
    fn next_u32(&mut self) -> u32 { let mut b = [0; 4]; self.fill(&mut b); u32::from_le_bytes(b) }
    fn next_u64(&mut self) -> u64 { let mut b = [0; 8]; self.fill(&mut b); u64::from_le_bytes(b) }
    fn fill_bytes(&mut self, dest: &mut [u8]) { self.fill(dest) }
    fn try_fill_bytes(&mut self, dest: &mut [u8]) -> Result<(), rand_08::Error> { self.fill(dest); Ok(()) }
}
impl rand_09::RngCore for Script {
    fn next_u32(&mut self) -> u32 { let mut b = [0; 4]; self.fill(&mut b); u32::from_le_bytes(b) }
    fn next_u64(&mut self) -> u64 { let mut b = [0; 8]; self.fill(&mut b); u64::from_le_bytes(b) }
    fn fill_bytes(&mut self, dest: &mut [u8]) { self.fill(dest) }
}

fn parse_i(s: &str) -> i128 {
    if let Some(m) = s.strip_prefix('-') {
        (u128::from_str_radix(m, 16).unwrap() as i128).wrapping_neg()
    } else {
        u128::from_str_radix(s, 16).unwrap() as i128
    }
}

fn hash_of<T: Hash>(x: &T) -> u64 {
    let mut h = DefaultHasher::new();
    x.hash(&mut h);
    h.finish()
}

fn pair_code<const B: usize, const L: usize>(a: &Uint<B, L>, c: &Uint<B, L>) -> String {
    let o = match Ord::cmp(a, c) {
        std::cmp::Ordering::Less => 'l',
        std::cmp::Ordering::Equal => 'e',
        std::cmp::Ordering::Greater => 'g',
    };
    assert_eq!(PartialOrd::partial_cmp(a, c), Some(Ord::cmp(a, c)));
    assert_eq!(a != c, !(a == c));
    format!("{}{}{}{}{}{}{}", b(a == c), b(hash_of(a) == hash_of(c)), o, b(a < c), b(a <= c), b(a > c), b(a >= c))
}

fn via<const B: usize, const L: usize>(a: Uint<B, L>, w: usize) -> Uint<B, L> {
    macro_rules! v { ($($w:literal),*) => { match w {
        $( $w => a.wrapping_to::<Uint<$w, { ($w + 63) / 64 }>>().wrapping_to::<Uint<B, L>>(), )*
        _ => panic!("unsupported via width"),
    } } }
    v!(0, 1, 31, 64, 65, 100, 256)
}

fn wfrom<const B: usize, const L: usize>(sat: bool, ty: &str, v: i128) -> Uint<B, L> {
    macro_rules! f { ($($n:literal => $t:ty),*) => { match ty {
        $( $n => if sat { Uint::<B, L>::saturating_from(v as $t) } else { Uint::<B, L>::wrapping_from(v as $t) }, )*
        _ => panic!("bad type"),
    } } }
    if ty == "bool" {
        return if sat { Uint::saturating_from(v != 0) } else { Uint::wrapping_from(v != 0) };
    }
    f!("u8" => u8, "u16" => u16, "u32" => u32, "u64" => u64, "u128" => u128, "usize" => usize,
       "i8" => i8, "i16" => i16, "i32" => i32, "i64" => i64, "i128" => i128, "isize" => isize)
}

const NREG: usize = 6;

fn hist<const B: usize, const L: usize>(p: &[&str]) -> String {
    type U<const B: usize, const L: usize> = Uint<B, L>;
    let mut r: Vec<U<B, L>> = p[2].split(';').map(u::<B, L>).collect();
    assert_eq!(r.len(), NREG);
    let mut out: Vec<String> = Vec::new();
    for t in &p[3..] {
        let f: Vec<&str> = t.split(':').collect();
        let d: usize = f[1].parse().unwrap();
        let n = |i: usize| -> usize { f[i].parse().unwrap() };
        let x = |i: usize| -> U<B, L> { r[f[i].parse::<usize>().unwrap()] };
        let v: Option<U<B, L>> = match f[0] {
            "zero" => Some(U::ZERO),
            "one" => Some(U::ONE),
            "max" => Some(U::MAX),
            "wadd" => Some(x(2).wrapping_add(x(3))),
            "wsub" => Some(x(2).wrapping_sub(x(3))),
            "wneg" => Some(x(2).wrapping_neg()),
            "sadd" => Some(x(2).saturating_add(x(3))),
            "ssub" => Some(x(2).saturating_sub(x(3))),
            "absdiff" => Some(x(2).abs_diff(x(3))),
            "min" => Some(Ord::min(x(2), x(3))),
            "maxof" => Some(Ord::max(x(2), x(3))),
            "wfrom" => Some(wfrom::<B, L>(false, f[2], parse_i(f[3]))),
            "sfrom" => Some(wfrom::<B, L>(true, f[2], parse_i(f[3]))),
            "wfls" => Some(U::wrapping_from_limbs_slice(&parse_limbs_list(f[2]))),
            "sfls" => Some(U::saturating_from_limbs_slice(&parse_limbs_list(f[2]))),
            "via" => Some(via(x(2), n(3))),
            "tryle" => U::try_from_le_slice(&parse_hex_bytes(f[2])),
            "trybe" => U::try_from_be_slice(&parse_hex_bytes(f[2])),
            "rtle" => U::try_from_le_slice(&x(2).to_le_bytes_vec()),
            "rtbe" => U::try_from_be_slice(&x(2).to_be_bytes_vec()),
            "rtlet" => U::try_from_le_slice(&x(2).to_le_bytes_trimmed_vec()),
            "rtbet" => U::try_from_be_slice(&x(2).to_be_bytes_trimmed_vec()),
            "fill08" => {
                use rand_08::distributions::Distribution;
                let mut s = Script::new(&parse_limbs_list(f[2]));
                Some(rand_08::distributions::Standard.sample(&mut s))
            }
            "fill09" => Some(U::random_with(&mut Script::new(&parse_limbs_list(f[2])))),
            "fillmut" => {
                let mut v = r[d];
                v.randomize_with(&mut Script::new(&parse_limbs_list(f[2])));
                Some(v)
            }
            "rtlimbs" => Some(U::from_limbs(*x(2).as_limbs())),
            "copy" => Some(x(2)),
            "wmul" => Some(x(2).wrapping_mul(x(3))),
            "smul" => Some(x(2).saturating_mul(x(3))),
            "and" => Some(x(2) & x(3)),
            "or" => Some(x(2) | x(3)),
            "xor" => Some(x(2) ^ x(3)),
            "not" => Some(!x(2)),
            "div" => Some(if x(3).is_zero() { x(2) } else { x(2) / x(3) }),
            "rem" => Some(if x(3).is_zero() { x(2) } else { x(2) % x(3) }),
            "gcd" => Some(x(2).gcd(x(3))),
            "addmod" => Some(x(2).add_mod(x(3), x(4))),
            "mulmod" => Some(x(2).mul_mod(x(3), x(4))),
            "wshl" => Some(x(2).wrapping_shl(n(3))),
            "wshr" => Some(x(2).wrapping_shr(n(3))),
            "rotl" => Some(x(2).rotate_left(n(3))),
            "rotr" => Some(x(2).rotate_right(n(3))),
            "ashr" => Some(x(2).arithmetic_shr(n(3))),
            "wpow" => Some(x(2).wrapping_pow(x(3))),
            "setbit" => { let mut v = x(2); v.set_bit(n(3), n(4) == 1); Some(v) }
            "revbits" => Some(x(2).reverse_bits()),
            "npow2" => x(2).checked_next_power_of_two(),
            _ => return "bad-op".into(),
        };
        if let Some(v) = v {
            r[d] = v;
        }
        out.push(limbs_list(r[d].as_limbs()));
    }
    out.push("R".into());
    for x in &r {
        out.push(limbs_list(x.as_limbs()));
    }
    out.push("P".into());
    for i in 0..r.len() {
        for j in i + 1..r.len() {
            out.push(pair_code(&r[i], &r[j]));
        }
    }
    out.join(" ")
}

fn noncanon<const B: usize, const L: usize>(x: &Uint<B, L>) -> bool {
    if L == 0 {
        return false;
    }
    let mask: u64 = if B % 64 == 0 { u64::MAX } else { (1u64 << (B % 64)) - 1 };
    x.as_limbs()[L - 1] & !mask != 0
}

fn gen<const B: usize, const L: usize>(p: &[&str]) -> String {
    type U<const B: usize, const L: usize> = Uint<B, L>;
    let seed: u64 = p[3].parse().unwrap();
    let n: usize = p[4].parse().unwrap();
    let mut bad = 0usize;
    let mut or = [0u64; L];
    let mut and = [u64::MAX; L];
    let mut cnt = 0usize;
    let mut see = |v: U<B, L>| {
        if noncanon(&v) {
            bad += 1;
        }
        for i in 0..L {
            or[i] |= v.as_limbs()[i];
            and[i] &= v.as_limbs()[i];
        }
        cnt += 1;
    };
    match p[2] {
        "rand08" => {
            use rand_08::{Rng, SeedableRng};
            let mut r = rand_08::rngs::StdRng::seed_from_u64(seed);
            for _ in 0..n { see(r.gen::<U<B, L>>()); }
        }
        "rand09" => {
            use rand_09::SeedableRng;
            let mut r = rand_09::rngs::StdRng::seed_from_u64(seed);
            for _ in 0..n { see(U::<B, L>::random_with(&mut r)); }
        }
        "rand09d" => {
            use rand_09::{Rng, SeedableRng};
            let mut r = rand_09::rngs::StdRng::seed_from_u64(seed);
            for _ in 0..n { see(r.random::<U<B, L>>()); }
        }
        "rand09m" => {
            use rand_09::SeedableRng;
            let mut r = rand_09::rngs::StdRng::seed_from_u64(seed);
            let mut v = U::<B, L>::MAX;
            for _ in 0..n { v.randomize_with(&mut r); see(v); }
        }
        "random" => {
            for _ in 0..n { see(U::<B, L>::random()); }
        }
        "arb" => {
            use rand_09::{RngCore, SeedableRng};
            let mut r = rand_09::rngs::StdRng::seed_from_u64(seed);
            let mut pool = vec![0u8; (8 * L + 16) * n];
            r.fill_bytes(&mut pool);
            let mut un = arbitrary::Unstructured::new(&pool);
            for _ in 0..n {
                see(<U<B, L> as arbitrary::Arbitrary>::arbitrary(&mut un).expect("arbitrary failed"));
            }
        }
        "prop" => {
            use proptest::prelude::*;
            use proptest::strategy::ValueTree;
            use proptest::test_runner::{Config, RngAlgorithm, TestRng, TestRunner};
            let mut s = [0u8; 32];
            s[..8].copy_from_slice(&seed.to_le_bytes());
            let mut runner = TestRunner::new_with_rng(Config::default(), TestRng::from_seed(RngAlgorithm::ChaCha, &s));
            let st = any::<U<B, L>>();
            for _ in 0..n { see(st.new_tree(&mut runner).unwrap().current()); }
        }
        "qc" => {
            let mut g = quickcheck::Gen::new(256);
            for _ in 0..n { see(<U<B, L> as quickcheck::Arbitrary>::arbitrary(&mut g)); }
        }
        _ => return "bad-op".into(),
    }
    format!("noncanon={} n={} or={} and={}", bad, cnt, limbs_hex(&or), limbs_hex(&and))
}

/// `canon <bits> <fn> <a> <b> <c>`: more producers of the safe API (results of other properties' operations), judged for
/// canonicity only: every `Uint` the call yields is printed as its raw limb list.
fn canon<const B: usize, const L: usize>(p: &[&str]) -> String {
    type U<const B: usize, const L: usize> = Uint<B, L>;
    let a: U<B, L> = u(p[3]);
    let c: U<B, L> = u(p[4]);
    let m: U<B, L> = u(p[5]);
    let small = (c.as_limbs().first().copied().unwrap_or(0) % 1024) as usize;
    let l = |x: &U<B, L>| limbs_list(x.as_limbs());
    let o = |x: Option<U<B, L>>| x.map_or("none".to_string(), |v| limbs_list(v.as_limbs()));
    let digits: Vec<u64> = c.as_limbs().iter().chain(m.as_limbs().iter()).copied().collect();
    let base = a.as_limbs().first().copied().unwrap_or(0);
    match p[2] {
        "inv_ring" => o(a.inv_ring()),
        "inv_mod" => o(a.inv_mod(m)),
        "pow_mod" => l(&a.pow_mod(c, m)),
        "reduce_mod" => l(&a.reduce_mod(m)),
        "mul_redc" => {
            // a Montgomery setting when m is odd and a, c < m; otherwise the documented preconditions do not hold
            if L == 0 || m.as_limbs()[0] & 1 == 0 || a >= m || c >= m { return "none".into(); }
            let inv = U::<64, 1>::from(m.as_limbs()[0]).inv_ring().unwrap().wrapping_neg().as_limbs()[0];
            format!("{} {}", l(&a.mul_redc(c, m, inv)), l(&a.square_redc(m, inv)))
        }
        "root" => if small == 0 { "none".into() } else { l(&a.root(small)) },
        "lcm" => o(a.lcm(c)),
        "gcd_extended" => { let (g, x, y, _) = a.gcd_extended(c); format!("{} {} {}", l(&g), l(&x), l(&y)) }
        "div_ceil" => if c.is_zero() { "none".into() } else { l(&a.div_ceil(c)) },
        "div_rem" => if c.is_zero() { "none".into() } else { let (q, r) = a.div_rem(c); format!("{} {}", l(&q), l(&r)) },
        "cnmo" => o(a.checked_next_multiple_of(c)),
        "o_add" => l(&a.overflowing_add(c).0),
        "o_sub" => l(&a.overflowing_sub(c).0),
        "o_mul" => l(&a.overflowing_mul(c).0),
        "o_neg" => l(&a.overflowing_neg().0),
        "o_pow" => l(&a.overflowing_pow(c).0),
        "o_shl" => l(&a.overflowing_shl(small).0),
        "o_shr" => l(&a.overflowing_shr(small).0),
        "c_add" => o(a.checked_add(c)),
        "c_sub" => o(a.checked_sub(c)),
        "c_mul" => o(a.checked_mul(c)),
        "c_neg" => o(a.checked_neg()),
        "c_pow" => o(a.checked_pow(c)),
        "c_shl" => o(a.checked_shl(small)),
        "c_shr" => o(a.checked_shr(small)),
        "c_div" => o(a.checked_div(c)),
        "c_rem" => o(a.checked_rem(c)),
        "s_shl" => l(&a.saturating_shl(small)),
        "s_pow" => l(&a.saturating_pow(c)),
        "pow" => l(&a.pow(c)),
        "shl_op" => l(&(a << small)),
        "shr_op" => l(&(a >> small)),
        "shl_uint" => l(&(a << c)),
        "shr_uint" => l(&(a >> c)),
        "from_base_le" => U::<B, L>::from_base_le(base, digits.iter().copied()).map_or("none".into(), |v| l(&v)),
        "from_base_be" => U::<B, L>::from_base_be(base, digits.iter().copied()).map_or("none".into(), |v| l(&v)),
        "from_digits_rt" => {
            // digits of c in base `base` fed back in (a value that fits, unlike random digit strings)
            if base < 2 { return "none".into(); }
            let ds: Vec<u64> = c.to_base_le(base).collect();
            let be: Vec<u64> = c.to_base_be(base).collect();
            format!("{} {}", U::<B, L>::from_base_le(base, ds).map_or("none".into(), |v| l(&v)),
                    U::<B, L>::from_base_be(base, be).map_or("none".into(), |v| l(&v)))
        }
        "from_str" => {
            let radix = 2 + (base % 35);
            let text: String = c.to_base_be(radix).map(|d| std::char::from_digit(d as u32, radix as u32).unwrap()).collect();
            U::<B, L>::from_str_radix(&text, radix).map_or("none".into(), |v| l(&v))
        }
        "sat_f64" => l(&U::<B, L>::saturating_from(f64::from_bits(base))),
        "wrap_f64" => l(&U::<B, L>::wrapping_from(f64::from_bits(base))),
        "sat_f32" => l(&U::<B, L>::saturating_from(f32::from_bits(base as u32))),
        "bits_ops" => {
            let x = ruint::Bits::<B, L>::from(a);
            let y = ruint::Bits::<B, L>::from(c);
            format!("{} {} {} {}", l(&(!x).into_inner()), l(&(x ^ y).into_inner()), l(&x.rotate_left(small).into_inner()),
                    l(&(x << small).into_inner()))
        }
        "ref_ops" => {
            // the by-REFERENCE operator overloads (own impl blocks: `Not for &Uint`, `Neg for &Uint`, `&a op &b`, `a op= &b`)
            let (ra, rc) = (&a, &c);
            let mut e = a;
            e += rc;
            let mut f = a;
            f -= rc;
            let mut g = a;
            g *= rc;
            let mut hh = a;
            hh ^= rc;
            format!("{} {} {} {} {} {} {} {} {} {}", l(&!ra), l(&-ra), l(&(ra + rc)), l(&(ra - rc)), l(&(ra * rc)), l(&(ra | rc)),
                    l(&e), l(&f), l(&g), l(&hh))
        }
        "sum_product" => {
            let v = [a, c, m];
            format!("{} {}", l(&v.iter().copied().sum::<U<B, L>>()), l(&v.iter().copied().product::<U<B, L>>()))
        }
        "nt_ops" => {
            format!("{} {} {}", l(&<U<B, L> as num_traits::WrappingNeg>::wrapping_neg(&a)),
                    l(&<U<B, L> as num_traits::ops::wrapping::WrappingShl>::wrapping_shl(&a, small as u32)),
                    l(&<U<B, L> as num_traits::PrimInt>::pow(a, small as u32)))
        }
        _ => "bad-op".into(),
    }
}

fn run<const B: usize, const L: usize>(p: &[&str]) -> String {
    match p[0] {
        "canon" => canon::<B, L>(p),
        "hist" => hist::<B, L>(p),
        "gen" => gen::<B, L>(p),
        "cmp" => {
            let a: Uint<B, L> = u(p[2]);
            let c: Uint<B, L> = u(p[3]);
            format!("{} {} {} {}", pair_code(&a, &c), h(&Ord::min(a, c)), h(&Ord::max(a, c)), b(a.is_zero()))
        }
        "ofls" => {
            let (n, f) = Uint::<B, L>::overflowing_from_limbs_slice(&parse_limbs_list(p[2]));
            format!("{} {}", h(&n), b(f))
        }
        "fls" => h(&Uint::<B, L>::from_limbs_slice(&parse_limbs_list(p[2]))),
        "cfls" => opt(Uint::<B, L>::checked_from_limbs_slice(&parse_limbs_list(p[2]))),
        "wfls" => h(&Uint::<B, L>::wrapping_from_limbs_slice(&parse_limbs_list(p[2]))),
        "sfls" => h(&Uint::<B, L>::saturating_from_limbs_slice(&parse_limbs_list(p[2]))),
        "from_limbs" => {
            let v = parse_limbs_list(p[2]);
            let a: [u64; L] = v.try_into().expect("from_limbs needs exactly LIMBS limbs");
            h(&Uint::<B, L>::from_limbs(a))
        }
        // ark-ff 0.4 `From<BigInt<LIMBS>>` / `From<&BigInt<LIMBS>>`: limb-array constructors of a support module; like
        // `from_limbs` they must reject out-of-range limbs (panic), never hand out a non-canonical value
        "arkfrom" | "arkfromref" => {
            let v = parse_limbs_list(p[2]);
            let a: [u64; L] = v.try_into().expect("arkfrom needs exactly LIMBS limbs");
            let bi = ark_ff_04::BigInt::<L>(a);
            let r: Uint<B, L> = if p[0] == "arkfrom" { bi.into() } else { (&bi).into() };
            // raw limbs (not `h`): a non-canonical value must be visible
            format!("value {}", limbs_list(r.as_limbs()))
        }
        _ => "bad-op".into(),
    }
}

/// `widening_mul` into a caller-chosen (well-formed) result type: the only arithmetic producer whose result width is
/// picked by the caller. For `BITS_RES != BITS + BITS_RHS` it must panic (its asserts), never hand out a value —
/// a value here could be non-canonical. Prints the raw limbs when a value comes back.
fn widebad<const B1: usize, const L1: usize, const B2: usize, const L2: usize, const BR: usize, const LR: usize>(
    sa: &str,
    sb: &str,
) -> String {
    let a: Uint<B1, L1> = u(sa);
    let c: Uint<B2, L2> = u(sb);
    let r: Uint<BR, LR> = a.widening_mul(c);
    format!("value {}", limbs_list(r.as_limbs()))
}

fn main() {
    run_lines(|p| {
        if p[0] == "widebad" {
            let k = (p[1].parse::<usize>().unwrap(), p[2].parse::<usize>().unwrap(), p[3].parse::<usize>().unwrap());
            return match k {
                (64, 64, 127) => widebad::<64, 1, 64, 1, 127, 2>(p[4], p[5]),
                (64, 64, 65) => widebad::<64, 1, 64, 1, 65, 2>(p[4], p[5]),
                (64, 64, 129) => widebad::<64, 1, 64, 1, 129, 3>(p[4], p[5]),
                (64, 64, 64) => widebad::<64, 1, 64, 1, 64, 1>(p[4], p[5]),
                (100, 100, 193) => widebad::<100, 2, 100, 2, 193, 4>(p[4], p[5]),
                (100, 100, 256) => widebad::<100, 2, 100, 2, 256, 4>(p[4], p[5]),
                (65, 63, 127) => widebad::<65, 2, 63, 1, 127, 2>(p[4], p[5]),
                (1, 1, 1) => widebad::<1, 1, 1, 1, 1, 1>(p[4], p[5]),
                (8, 8, 15) => widebad::<8, 1, 8, 1, 15, 1>(p[4], p[5]),
                (8, 8, 64) => widebad::<8, 1, 8, 1, 64, 1>(p[4], p[5]),
                _ => "unsupported-width".to_string(),
            };
        }
        let bits: usize = p[1].parse().unwrap();
        dispatch_bits!(bits, run, (p), [0, 1, 2, 3, 7, 8, 12, 31, 33, 60, 63, 64, 65, 100, 127, 128, 129, 200, 250, 255, 256,
            257, 521])
    });
}
