//! C09 — radix conversion, parsing, formatting: calls the real `Uint` methods / trait impls.
//!
//! ops (numbers hex, text = hex of the UTF-8 bytes, `-` for empty):
//!   tole|tobe bits base value            -> `d0,d1,..` (hex digits, `-` if none) | panic
//!   fromle|frombe bits base d0,d1,..     -> `ok <hex>` | `err Overflow` | `err InvalidBase b` | `err InvalidDigit d b`
//!   fsr bits radix text                  -> `ok <hex>` | `err InvalidChar cp` | `err InvalidRadix r` | `err Base <BaseConvertError>`
//!   fs bits text                         -> same (FromStr)
//!   fmt bits spec value                  -> hex of the formatted text | `MISMATCH-PRIM <ours> <u128's>` | bad-spec
//! `fmt`: the spec is looked up in a macro-generated table of literal format strings; when the value
//! fits u128 the same literal is applied to the u128 and the two texts must be equal (implementation-level oracle).
use core::fmt::{Binary, Debug, Display, LowerHex, Octal, UpperHex};
use core::str::FromStr;
use ruint::{BaseConvertError, ParseError};
use vh::*;

macro_rules! grid_fn {
    ($name:ident, $tr:ident; $($s:literal)*) => {
        fn $name(key: &str, v: &dyn $tr) -> Option<String> {
            match key {
                $( $s => Some(format!(concat!("{:", $s, "}"), v)), )*
                _ => None,
            }
        }
    };
}

// GRID-BEGIN (generated once by a script; tools/props/c09.py reads the literals from here)
// 414 specs
grid_fn!(fmt_d, Display; "" "5" "70" "+" "+5" "+70" "#" "#5" "#70" "0" "05" "070" "+#" "+#5" "+#70" "+0" "+05" "+070" "#0" "#05" "#070" "+#0" "+#05" "+#070" "<7" "<1" "*<#0150" "*<#07" "0<+#33" "0<+#150" "é<#24" "é<#33" " <1" " <24" "^#07" "^#01" "*^+#150" "*^+#7" "0^#33" "0^#150" "é^24" "é^33" " ^#01" " ^#024" ">+#7" ">+#1" "*>#150" "*>#7" "0>33" "0>150" "é>#024" "é>#033" " >+#1" " >+#24" "<" "*^" ">#" "^+300" "😀^#12" "_>+#040" "2" "#2" "02" "+2" "#066" "0129" "#0130" "-<9" "x^+#011");
grid_fn!(fmt_g, Debug; "?" "5?" "70?" "+?" "+5?" "+70?" "#?" "#5?" "#70?" "0?" "05?" "070?" "+#?" "+#5?" "+#70?" "+0?" "+05?" "+070?" "#0?" "#05?" "#070?" "+#0?" "+#05?" "+#070?" "<+7?" "<+1?" "*<+#0150?" "*<+#07?" "0<+033?" "0<+0150?" "é<024?" "é<033?" " <+1?" " <+24?" "^+#07?" "^+#01?" "*^+0150?" "*^+07?" "0^033?" "0^0150?" "é^+24?" "é^+33?" " ^+#01?" " ^+#024?" ">+07?" ">+01?" "*>0150?" "*>07?" "0>+33?" "0>+150?" "é>+#024?" "é>+#033?" " >+01?" " >+024?" "<?" "*^?" ">#?" "^+300?" "😀^#12?" "_>+#040?" "2?" "#2?" "02?" "+2?" "#066?" "0129?" "#0130?" "-<9?" "x^+#011?");
grid_fn!(fmt_b, Binary; "b" "5b" "70b" "+b" "+5b" "+70b" "#b" "#5b" "#70b" "0b" "05b" "070b" "+#b" "+#5b" "+#70b" "+0b" "+05b" "+070b" "#0b" "#05b" "#070b" "+#0b" "+#05b" "+#070b" "<+7b" "<+1b" "*<+#0150b" "*<+#07b" "0<+033b" "0<+0150b" "é<024b" "é<033b" " <+1b" " <+24b" "^+#07b" "^+#01b" "*^+0150b" "*^+07b" "0^033b" "0^0150b" "é^+24b" "é^+33b" " ^+#01b" " ^+#024b" ">+07b" ">+01b" "*>0150b" "*>07b" "0>+33b" "0>+150b" "é>+#024b" "é>+#033b" " >+01b" " >+024b" "<b" "*^b" ">#b" "^+300b" "😀^#12b" "_>+#040b" "2b" "#2b" "02b" "+2b" "#066b" "0129b" "#0130b" "-<9b" "x^+#011b");
grid_fn!(fmt_o, Octal; "o" "5o" "70o" "+o" "+5o" "+70o" "#o" "#5o" "#70o" "0o" "05o" "070o" "+#o" "+#5o" "+#70o" "+0o" "+05o" "+070o" "#0o" "#05o" "#070o" "+#0o" "+#05o" "+#070o" "<+7o" "<+1o" "*<+#0150o" "*<+#07o" "0<+033o" "0<+0150o" "é<024o" "é<033o" " <+1o" " <+24o" "^+#07o" "^+#01o" "*^+0150o" "*^+07o" "0^033o" "0^0150o" "é^+24o" "é^+33o" " ^+#01o" " ^+#024o" ">+07o" ">+01o" "*>0150o" "*>07o" "0>+33o" "0>+150o" "é>+#024o" "é>+#033o" " >+01o" " >+024o" "<o" "*^o" ">#o" "^+300o" "😀^#12o" "_>+#040o" "2o" "#2o" "02o" "+2o" "#066o" "0129o" "#0130o" "-<9o" "x^+#011o");
grid_fn!(fmt_x, LowerHex; "x" "5x" "70x" "+x" "+5x" "+70x" "#x" "#5x" "#70x" "0x" "05x" "070x" "+#x" "+#5x" "+#70x" "+0x" "+05x" "+070x" "#0x" "#05x" "#070x" "+#0x" "+#05x" "+#070x" "<+7x" "<+1x" "*<+#0150x" "*<+#07x" "0<+033x" "0<+0150x" "é<024x" "é<033x" " <+1x" " <+24x" "^+#07x" "^+#01x" "*^+0150x" "*^+07x" "0^033x" "0^0150x" "é^+24x" "é^+33x" " ^+#01x" " ^+#024x" ">+07x" ">+01x" "*>0150x" "*>07x" "0>+33x" "0>+150x" "é>+#024x" "é>+#033x" " >+01x" " >+024x" "<x" "*^x" ">#x" "^+300x" "😀^#12x" "_>+#040x" "2x" "#2x" "02x" "+2x" "#066x" "0129x" "#0130x" "-<9x" "x^+#011x");
grid_fn!(fmt_ux, UpperHex; "X" "5X" "70X" "+X" "+5X" "+70X" "#X" "#5X" "#70X" "0X" "05X" "070X" "+#X" "+#5X" "+#70X" "+0X" "+05X" "+070X" "#0X" "#05X" "#070X" "+#0X" "+#05X" "+#070X" "<+7X" "<+1X" "*<+#0150X" "*<+#07X" "0<+033X" "0<+0150X" "é<024X" "é<033X" " <+1X" " <+24X" "^+#07X" "^+#01X" "*^+0150X" "*^+07X" "0^033X" "0^0150X" "é^+24X" "é^+33X" " ^+#01X" " ^+#024X" ">+07X" ">+01X" "*>0150X" "*>07X" "0>+33X" "0>+150X" "é>+#024X" "é>+#033X" " >+01X" " >+024X" "<X" "*^X" ">#X" "^+300X" "😀^#12X" "_>+#040X" "2X" "#2X" "02X" "+2X" "#066X" "0129X" "#0130X" "-<9X" "x^+#011X");
// GRID-END

fn fmt_any<T: Display + Debug + Binary + Octal + LowerHex + UpperHex>(key: &str, v: &T) -> Option<String> {
    fmt_d(key, v)
        .or_else(|| fmt_g(key, v))
        .or_else(|| fmt_b(key, v))
        .or_else(|| fmt_o(key, v))
        .or_else(|| fmt_x(key, v))
        .or_else(|| fmt_ux(key, v))
}

fn text(s: &str) -> String {
    String::from_utf8(parse_hex_bytes(s)).expect("harness text must be UTF-8")
}

fn base_err(e: BaseConvertError) -> String {
    match e {
        BaseConvertError::Overflow => "Overflow".to_string(),
        BaseConvertError::InvalidBase(b) => format!("InvalidBase {b:x}"),
        BaseConvertError::InvalidDigit(d, b) => format!("InvalidDigit {d:x} {b:x}"),
    }
}

fn res_base<const B: usize, const L: usize>(r: Result<Uint<B, L>, BaseConvertError>) -> String {
    match r {
        Ok(v) => format!("ok {}", h(&v)),
        Err(e) => format!("err {}", base_err(e)),
    }
}

fn res_parse<const B: usize, const L: usize>(r: Result<Uint<B, L>, ParseError>) -> String {
    match r {
        Ok(v) => format!("ok {}", h(&v)),
        Err(ParseError::InvalidDigit(c)) => format!("err InvalidChar {:x}", c as u32),
        Err(ParseError::InvalidRadix(r)) => format!("err InvalidRadix {r:x}"),
        Err(ParseError::BaseConvertError(e)) => format!("err Base {}", base_err(e)),
    }
}

fn digits_out(d: Vec<u64>) -> String {
    limbs_list(&d)
}

/// u64/u128 `from_str_radix` as a second oracle where the grammars coincide
/// (non-empty, ASCII alphanumerics only, radix 2..=36).
fn prim_parse_check(bits: usize, radix: u64, s: &str, ours: &str) -> Option<String> {
    if !(2..=36).contains(&radix) || s.is_empty() || !s.bytes().all(|c| c.is_ascii_alphanumeric()) {
        return None;
    }
    let prim = match bits {
        64 => u64::from_str_radix(s, radix as u32).ok().map(u128::from),
        128 => u128::from_str_radix(s, radix as u32).ok(),
        _ => return None,
    };
    let ours_v = ours.strip_prefix("ok ").map(|x| u128::from_str_radix(x, 16).unwrap());
    if prim != ours_v {
        return Some(format!("MISMATCH-PRIM {ours} prim={prim:x?}"));
    }
    None
}

fn run<const B: usize, const L: usize>(p: &[&str]) -> String {
    type U<const B: usize, const L: usize> = Uint<B, L>;
    match p[0] {
        "tole" | "tobe" => {
            let base = u64::from_str_radix(p[2], 16).unwrap();
            let a: U<B, L> = u(p[3]);
            if p[0] == "tole" {
                digits_out(Uint::to_base_le(&a, base).collect())
            } else {
                digits_out(Uint::to_base_be(&a, base).collect())
            }
        }
        "fromle" | "frombe" => {
            let base = u64::from_str_radix(p[2], 16).unwrap();
            let d = parse_limbs_list(p[3]);
            if p[0] == "fromle" {
                res_base(U::<B, L>::from_base_le(base, d))
            } else {
                res_base(U::<B, L>::from_base_be(base, d))
            }
        }
        "fsr" => {
            let radix = u64::from_str_radix(p[2], 16).unwrap();
            let s = text(p[3]);
            let r = res_parse(U::<B, L>::from_str_radix(&s, radix));
            prim_parse_check(B, radix, &s, &r).unwrap_or(r)
        }
        "sweep" => {
            // every Unicode scalar value in [lo, hi] as the second character of "1<c>" ("B<c>" above radix 36): the characters whose outcome is not
            // the default `Err(InvalidDigit(c))` are listed with their outcome (exhaustive over `char` for the radix)
            let radix = u64::from_str_radix(p[2], 16).unwrap();
            let (lo, hi) = p[3].split_once('-').unwrap();
            let (lo, hi) = (u32::from_str_radix(lo, 16).unwrap(), u32::from_str_radix(hi, 16).unwrap());
            let mut out: Vec<String> = Vec::new();
            for cp in lo..=hi {
                let Some(c) = char::from_u32(cp) else { continue };
                let mut s = String::from(if radix <= 36 { "1" } else { "B" });
                s.push(c);
                let r = res_parse(U::<B, L>::from_str_radix(&s, radix));
                if r != format!("err InvalidChar {cp:x}") {
                    out.push(format!("{cp:x}={}", r.replace(' ', "_")));
                }
            }
            if out.is_empty() { "-".into() } else { out.join(";") }
        }
        "fs" => {
            let s = text(p[2]);
            res_parse(<U<B, L> as FromStr>::from_str(&s))
        }
        "fmt" => {
            let key = text(p[2]);
            let a: U<B, L> = u(p[3]);
            let Some(ours) = fmt_any(&key, &a) else { return "bad-spec".into() };
            let limbs = a.as_limbs();
            if limbs.iter().skip(2).all(|&x| x == 0) {
                let lo = u128::from(*limbs.first().unwrap_or(&0));
                let hi = u128::from(*limbs.get(1).unwrap_or(&0));
                let prim = fmt_any(&key, &(lo | (hi << 64))).unwrap();
                if prim != ours {
                    return format!("MISMATCH-PRIM {} {}", bytes_hex(ours.as_bytes()), bytes_hex(prim.as_bytes()));
                }
            }
            bytes_hex(ours.as_bytes())
        }
        _ => "bad-op".into(),
    }
}

fn main() {
    run_lines(|p| {
        let bits: usize = p[1].parse().unwrap();
        dispatch_bits!(bits, run, (p), [0, 1, 2, 3, 4, 7, 8, 16, 63, 64, 65, 127, 128, 129, 192, 256, 512, 4096])
    });
}
