//! C05 — shifts and rotations: calls the real `Uint` methods and every `<<` / `>>` operator overload.
//!
//! Case: `op bits value amount`. `amount` is hex: a `usize` for the methods, the (non-negative) value
//! of the integer type for `shl_<ty>_<form>` / `shr_<ty>_<form>`, a `Uint<bits>` for `shlU_<form>` /
//! `shrU_<form>`. Forms: `v` by value, `r` by reference, `a` assign, `ar` assign by reference.
use vh::*;

/// `a << s`, `a << &s`, `a <<= s`, `a <<= &s` (and `>>`) for one amount type.
macro_rules! int_ops {
    ($a:expr, $dir:expr, $form:expr, $amt:expr, $t:ty) => {{
        let s: $t = match <$t>::try_from($amt) {
            Ok(s) => s,
            Err(_) => return "amount-out-of-range".into(),
        };
        let a = $a;
        match ($dir, $form) {
            ("shl", "v") => h(&(a << s)),
            ("shl", "r") => h(&(a << &s)),
            ("shl", "a") => { let mut x = a; x <<= s; h(&x) }
            ("shl", "ar") => { let mut x = a; x <<= &s; h(&x) }
            ("shr", "v") => h(&(a >> s)),
            ("shr", "r") => h(&(a >> &s)),
            ("shr", "a") => { let mut x = a; x >>= s; h(&x) }
            ("shr", "ar") => { let mut x = a; x >>= &s; h(&x) }
            _ => "bad-op".into(),
        }
    }};
}

/// Second, implementation-level oracle: at widths 64 and 128 the primitive integer operations must
/// agree with the `Uint` result (amounts below the width for shifts; any amount for rotations).
fn native(op: &str, bits: usize, x: u128, s: u128, got: &str) -> Option<String> {
    let m: u128 = if bits == 64 { u64::MAX as u128 } else { u128::MAX };
    let sb = s < bits as u128;
    let k = (s % bits as u128) as u32;
    let want = match op {
        "wshl" if sb => format!("{:x}", (x << s as u32) & m),
        "wshr" if sb => format!("{:x}", x >> s as u32),
        "oshl" if sb => format!("{:x} {}", (x << s as u32) & m, b(((x << s as u32) & m) >> s as u32 != x)),
        "oshr" if sb => format!("{:x} {}", x >> s as u32, b((x >> s as u32) << s as u32 != x)),
        "rotl" => format!("{:x}", if bits == 64 { (x as u64).rotate_left(k) as u128 } else { x.rotate_left(k) }),
        "rotr" => format!("{:x}", if bits == 64 { (x as u64).rotate_right(k) as u128 } else { x.rotate_right(k) }),
        "ashr" if sb => format!("{:x}", if bits == 64 { ((x as u64 as i64) >> s as u32) as u64 as u128 } else { ((x as i128) >> s as u32) as u128 }),
        _ => return None,
    };
    if want == got { None } else { Some(format!("native-oracle-mismatch uint={got} native={want}")) }
}

fn run<const B: usize, const L: usize>(p: &[&str]) -> String {
    let r = run_inner::<B, L>(p);
    if B == 64 || B == 128 {
        if let (Ok(x), Ok(s)) = (u128::from_str_radix(p[2], 16), u128::from_str_radix(p[3], 16)) {
            if let Some(bad) = native(p[0], B, x, s, &r) {
                return bad;
            }
        }
    }
    r
}

fn run_inner<const B: usize, const L: usize>(p: &[&str]) -> String {
    type U<const B: usize, const L: usize> = Uint<B, L>;
    let op = p[0];
    let a: U<B, L> = u(p[2]);
    let parts: Vec<&str> = op.split('_').collect();
    if parts.len() == 2 && (parts[0] == "shlU" || parts[0] == "shrU") {
        let t: U<B, L> = u(p[3]);
        return match (parts[0], parts[1]) {
            ("shlU", "v") => h(&(a << t)),
            ("shlU", "r") => h(&(a << &t)),
            ("shlU", "a") => { let mut x = a; x <<= t; h(&x) }
            ("shlU", "ar") => { let mut x = a; x <<= &t; h(&x) }
            ("shrU", "v") => h(&(a >> t)),
            ("shrU", "r") => h(&(a >> &t)),
            ("shrU", "a") => { let mut x = a; x >>= t; h(&x) }
            ("shrU", "ar") => { let mut x = a; x >>= &t; h(&x) }
            _ => "bad-op".into(),
        };
    }
    let amt = match u64::from_str_radix(p[3], 16) {
        Ok(v) => v,
        Err(_) => return "amount-out-of-range".into(),
    };
    if parts.len() == 3 {
        let (dir, ty, form) = (parts[0], parts[1], parts[2]);
        return match ty {
            "usize" => int_ops!(a, dir, form, amt, usize),
            "u8" => int_ops!(a, dir, form, amt, u8),
            "u16" => int_ops!(a, dir, form, amt, u16),
            "u32" => int_ops!(a, dir, form, amt, u32),
            "u64" => int_ops!(a, dir, form, amt, u64),
            "isize" => int_ops!(a, dir, form, amt, isize),
            "i8" => int_ops!(a, dir, form, amt, i8),
            "i16" => int_ops!(a, dir, form, amt, i16),
            "i32" => int_ops!(a, dir, form, amt, i32),
            "i64" => int_ops!(a, dir, form, amt, i64),
            _ => "bad-op".into(),
        };
    }
    let s = amt as usize;
    match op {
        "oshl" => { let (r, f) = a.overflowing_shl(s); format!("{} {}", h(&r), b(f)) }
        "oshr" => { let (r, f) = a.overflowing_shr(s); format!("{} {}", h(&r), b(f)) }
        "cshl" => opt(a.checked_shl(s)),
        "cshr" => opt(a.checked_shr(s)),
        "sshl" => h(&a.saturating_shl(s)),
        "wshl" => h(&a.wrapping_shl(s)),
        "wshr" => h(&a.wrapping_shr(s)),
        "ashr" => h(&a.arithmetic_shr(s)),
        "rotl" => h(&a.rotate_left(s)),
        "rotr" => h(&a.rotate_right(s)),
        _ => "bad-op".into(),
    }
}

fn main() {
    run_lines(|p| {
        let bits: usize = p[1].parse().unwrap();
        dispatch_bits!(bits, run, (p), [0, 1, 2, 3, 4, 5, 6, 7, 8, 12, 16, 31, 32, 33, 60, 63, 64, 65, 72, 96,
            100, 127, 128, 129, 160, 192, 200, 250, 255, 256, 257, 320, 384, 512, 521, 1024, 4096])
    });
}
