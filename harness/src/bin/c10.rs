//! C10 — modular arithmetic: calls the real `Uint::{reduce_mod, add_mod, mul_mod, pow_mod, inv_mod}`.
//! `invtr` additionally reports the answers of the real `LehmerMatrix::from` along the run of the
//! `inv_mod` loop (the oracle the Lean model consumes; each answer is checked against its contract there).
use ruint::algorithms::LehmerMatrix;
use vh::*;

fn trace<const B: usize, const L: usize>(num: Uint<B, L>, modulus: Uint<B, L>) -> String {
    let mut out: Vec<String> = vec![];
    if B != 0 && !modulus.is_zero() {
        let mut a = modulus;
        let mut b = num;
        if b >= a {
            b %= a;
        }
        let mut guard = 0usize;
        while b != Uint::ZERO {
            let m = LehmerMatrix::from(a, b);
            out.push(format!("{:x}:{:x}:{:x}:{:x}:{}", m.0, m.1, m.2, m.3, vh::b(m.4)));
            if m == LehmerMatrix::IDENTITY {
                a %= b;
                core::mem::swap(&mut a, &mut b);
            } else {
                m.apply(&mut a, &mut b);
            }
            guard += 1;
            if guard > 2 * B + 64 {
                out.push("runaway".into());
                break;
            }
        }
    }
    if out.is_empty() { "-".into() } else { out.join(",") }
}

fn run<const B: usize, const L: usize>(p: &[&str]) -> String {
    type U<const B: usize, const L: usize> = Uint<B, L>;
    let op = p[0];
    let a: U<B, L> = u(p[2]);
    match op {
        "reduce" => h(&Uint::reduce_mod(a, u(p[3]))),
        "add" => h(&Uint::add_mod(a, u(p[3]), u(p[4]))),
        "mul" => h(&Uint::mul_mod(a, u(p[3]), u(p[4]))),
        "pow" => h(&Uint::pow_mod(a, u(p[3]), u(p[4]))),
        "inv" => opt(Uint::inv_mod(a, u(p[3]))),
        "invtr" => {
            let m: U<B, L> = u(p[3]);
            format!("{} | {}", opt(Uint::inv_mod(a, m)), trace(a, m))
        }
        _ => "bad-op".into(),
    }
}

fn main() {
    run_lines(|p| {
        let bits: usize = p[1].parse().unwrap();
        dispatch_bits!(bits, run, (p), [0, 1, 2, 3, 4, 5, 6, 7, 8, 12, 16, 31, 32, 33, 60, 63, 64, 65, 72, 96,
            100, 127, 128, 129, 160, 192, 200, 250, 255, 256, 257, 320, 384, 512, 521, 1024, 4096])
    });
}
