//! C13 — pow / log / root: calls the real `Uint` methods.
//!
//! Output formats (the Lean driver prints the same):
//!   opow            `<hex> t|f`
//!   cpow            `some <hex>` | `none`
//!   spow wpow pow   `<hex>`
//!   log log2 log10  `<hex result> e<hex estimate | ->`      (estimate = the float-derived first guess of `log`,
//!   clog clog2 clog10 `some <hex> e<..>` | `none`            read from `verif_hooks::take_tap`; `-` = loop not reached)
//!   root            `<hex> g<hex first guess | - | !>`      (tap = raw f64 bits of `approx_log2(x)/degree`; the guess is
//!                                                            `approx_pow2` of exactly that float; `!` = approx_pow2 gave None)
//!   apow2           `some <hex>|none` then `neg|one|big|m<hex mant> s<hex shift>` (approx_pow2 of the f64 with the given raw
//!                                                            bits; the float pre-processing is recomputed in the harness)
//!   apow2i          `some <hex>` | `none`                   (approx_pow2 of the signed decimal integer argument as f64)
//!   alog2           `<hex raw f64 bits>`                    (approx_log2)
//!   l1mul l1wmul l1wadd l1div l1sshl1 l1cadd1 l1bitlen      the `Uint` operations used by the loop bodies (L1 specs of the L2 models)
use ruint::verif_hooks::take_tap;
use vh::*;

fn est() -> String {
    match take_tap() {
        Some(t) => format!("e{t:x}"),
        None => "e-".to_string(),
    }
}

fn run<const B: usize, const L: usize>(p: &[&str]) -> String {
    type U<const B: usize, const L: usize> = Uint<B, L>;
    let op = p[0];
    let _ = take_tap();
    match op {
        "opow" | "cpow" | "spow" | "wpow" | "pow" => {
            let a: U<B, L> = u(p[2]);
            let e: U<B, L> = u(p[3]);
            match op {
                "opow" => {
                    let (r, f) = a.overflowing_pow(e);
                    format!("{} {}", h(&r), b(f))
                }
                "cpow" => opt(a.checked_pow(e)),
                "spow" => h(&a.saturating_pow(e)),
                "wpow" => h(&a.wrapping_pow(e)),
                _ => h(&Uint::pow(a, e)),
            }
        }
        // the L1 operations the L2 models of pow/log/root are built on (value-level specs)
        "l1mul" | "l1div" | "l1wmul" | "l1wadd" => {
            let a: U<B, L> = u(p[2]);
            let c: U<B, L> = u(p[3]);
            match op {
                "l1mul" => {
                    let (r, f) = a.overflowing_mul(c);
                    format!("{} {}", h(&r), b(f))
                }
                "l1wmul" => h(&(a * c)),
                "l1wadd" => h(&(a + c)),
                _ => h(&(a / c)),
            }
        }
        "l1sshl1" | "l1cadd1" | "l1bitlen" => {
            let a: U<B, L> = u(p[2]);
            match op {
                "l1sshl1" => h(&a.saturating_shl(1)),
                "l1cadd1" => opt(a.checked_add(U::<B, L>::ONE)),
                _ => format!("{:x}", a.bit_len()),
            }
        }
        "log" | "clog" => {
            let x: U<B, L> = u(p[2]);
            let base: U<B, L> = u(p[3]);
            if op == "log" {
                let r = x.log(base);
                format!("{r:x} {}", est())
            } else {
                match x.checked_log(base) {
                    Some(r) => format!("some {r:x} {}", est()),
                    None => "none".to_string(),
                }
            }
        }
        "log2" | "log10" => {
            let x: U<B, L> = u(p[2]);
            let r = if op == "log2" { x.log2() } else { x.log10() };
            format!("{r:x} {}", est())
        }
        "clog2" | "clog10" => {
            let x: U<B, L> = u(p[2]);
            let r = if op == "clog2" { x.checked_log2() } else { x.checked_log10() };
            match r {
                Some(r) => format!("some {r:x} {}", est()),
                None => "none".to_string(),
            }
        }
        "root" => {
            let x: U<B, L> = u(p[2]);
            let k = usize::from_str_radix(p[3], 16).unwrap();
            let r = x.root(k);
            let g = match take_tap() {
                Some(t) => match U::<B, L>::approx_pow2(f64::from_bits(t)) {
                    Some(g) => format!("g{}", h(&g)),
                    None => "g!".to_string(),
                },
                None => "g-".to_string(),
            };
            format!("{} {}", h(&r), g)
        }
        "apow2" => {
            // result of the real approx_pow2, followed by the float pre-processing it starts with
            // (classification of `exp`, and `bits = (fract.exp2() * 2^63) as u64`, `shift = trunc`),
            // recomputed here with the same libm calls so that the driver can run the integer
            // post-processing model on it.
            let e = f64::from_bits(u64::from_str_radix(p[2], 16).unwrap());
            let r = opt(U::<B, L>::approx_pow2(e));
            #[allow(clippy::cast_precision_loss, clippy::cast_possible_truncation, clippy::cast_sign_loss)]
            let class = if e < -1.0 {
                "neg".to_string()
            } else if e < 0.584_962_500_721_156_2_f64 {
                "one".to_string()
            } else if e > B as f64 {
                "big".to_string()
            } else if e.is_nan() {
                "nan".to_string()
            } else {
                let shift = e.trunc() as usize;
                let mant = (e.fract().exp2() * 9_223_372_036_854_775_808_f64) as u64;
                format!("m{mant:x} s{shift:x}")
            };
            format!("{r} {class}")
        }
        "apow2i" => {
            let n: i64 = p[2].parse().unwrap();
            #[allow(clippy::cast_precision_loss)]
            opt(U::<B, L>::approx_pow2(n as f64))
        }
        "alog2" => {
            let x: U<B, L> = u(p[2]);
            format!("{:x}", x.approx_log2().to_bits())
        }
        _ => "bad-op".into(),
    }
}

fn dispatch(p: &[&str]) -> String {
    let bits: usize = p[1].parse().unwrap();
    dispatch_bits!(bits, run, (p), [0, 1, 2, 3, 4, 5, 6, 7, 8, 12, 16, 24, 31, 32, 33, 52, 53, 54, 60, 63, 64, 65, 72, 96,
        100, 127, 128, 129, 160, 192, 200, 250, 255, 256, 257, 320, 384, 512, 521, 1024, 4096])
}

/// utime + stime (clock ticks, USER_HZ = 100) of one thread, from `/proc/<pid>/task/<tid>/stat`.
fn thread_cpu_ticks(stat_path: &str) -> Option<u64> {
    let s = std::fs::read_to_string(stat_path).ok()?;
    let rest = s.rsplit_once(')')?.1;
    let f: Vec<&str> = rest.split_whitespace().collect();
    // `rest` starts at field 3 (state); utime is field 14, stime field 15
    Some(f.get(11)?.parse::<u64>().ok()? + f.get(12)?.parse::<u64>().ok()?)
}

/// Per-case watchdog (termination of `root`/`log` is part of C13): every case runs on a worker thread.
/// A case that has not answered after 250 ms is watched: once it has burnt `C13_CASE_TIMEOUT_MS`
/// (default 3000) of **CPU time of the worker thread** since then — so that a loaded machine cannot cause
/// a false alarm; the slowest legitimate case takes some 50 ms — or 120 s of wall time, the process flushes
/// what it has and exits, so that the orchestrator records `abort` for exactly that case and resumes with
/// the next one (same protocol as a crashed process).
/// Otherwise identical to `vh::run_lines` (catch_unwind, `panic` outcome, HOOKS line).
fn main() {
    use std::io::{BufRead, Write};
    use std::sync::mpsc;
    use std::time::{Duration, Instant};
    std::panic::set_hook(Box::new(|_| {}));
    let mut cpu_limit_ticks: u64 =
        std::env::var("C13_CASE_TIMEOUT_MS").ok().and_then(|v| v.parse::<u64>().ok()).unwrap_or(3000) / 10;
    // Escalation: all harness processes of one orchestrator run (same parent process) count their
    // time-outs in one file; after 200 of them the tree is evidently broken and the CPU limit drops to
    // 300 ms (still several times the slowest legitimate case), polled every 50 ms, so that a mutant that hangs on thousands of cases
    // does not take hours. Never triggers on a healthy tree (it needs 200 genuine time-outs first).
    let counter_path = {
        let ppid = std::os::unix::process::parent_id();
        let start = std::fs::read_to_string(format!("/proc/{ppid}/stat"))
            .ok()
            .and_then(|s| s.rsplit_once(')').map(|x| x.1.to_string()))
            .and_then(|r| r.split_whitespace().nth(19).map(str::to_string))
            .unwrap_or_default();
        format!("/tmp/vh_c13_watchdog_{ppid}_{start}")
    };
    let timeouts_so_far = |p: &str| std::fs::metadata(p).map(|m| m.len()).unwrap_or(0);
    let mut poll = Duration::from_millis(250);
    if timeouts_so_far(&counter_path) >= 200 {
        cpu_limit_ticks = cpu_limit_ticks.min(30);
        poll = Duration::from_millis(50);
    }
    let (tx_case, rx_case) = mpsc::channel::<String>();
    let (tx_res, rx_res) = mpsc::channel::<String>();
    let (tx_tid, rx_tid) = mpsc::channel::<String>();
    std::thread::Builder::new()
        .stack_size(256 << 20)
        .spawn(move || {
            let me = std::fs::read_link("/proc/thread-self")
                .map(|p| format!("/proc/{}/stat", p.display()))
                .unwrap_or_default();
            let _ = tx_tid.send(me);
            for line in rx_case {
                let parts: Vec<&str> = line.split_whitespace().collect();
                let r = std::panic::catch_unwind(std::panic::AssertUnwindSafe(|| dispatch(&parts)));
                if tx_res.send(r.unwrap_or_else(|_| "panic".to_string())).is_err() {
                    return;
                }
            }
        })
        .unwrap();
    let stat_path = rx_tid.recv().unwrap_or_default();
    let stdin = std::io::stdin();
    let stdout = std::io::stdout();
    let mut out = std::io::BufWriter::new(stdout.lock());
    for line in stdin.lock().lines() {
        let line = line.unwrap();
        if line.split_whitespace().next().is_none() {
            writeln!(out).unwrap();
            continue;
        }
        tx_case.send(line).unwrap();
        let started = Instant::now();
        let mut base_ticks: Option<u64> = None;
        let res = loop {
            match rx_res.recv_timeout(poll) {
                Ok(s) => break Some(s),
                Err(mpsc::RecvTimeoutError::Disconnected) => break None,
                Err(mpsc::RecvTimeoutError::Timeout) => {
                    let now = thread_cpu_ticks(&stat_path);
                    match (base_ticks, now) {
                        (None, Some(t)) => base_ticks = Some(t),
                        (Some(b), Some(t)) if t.saturating_sub(b) >= cpu_limit_ticks => break None,
                        // no /proc: fall back to wall time
                        (_, None) if started.elapsed() > Duration::from_millis(cpu_limit_ticks * 10 + 250) => break None,
                        _ => {}
                    }
                    if started.elapsed() > Duration::from_secs(120) {
                        break None;
                    }
                }
            }
        };
        match res {
            Some(s) => writeln!(out, "{s}").unwrap(),
            None => {
                // non-terminating (or absurdly slow) case
                out.flush().unwrap();
                if let Ok(mut f) = std::fs::OpenOptions::new().create(true).append(true).open(&counter_path) {
                    let _ = f.write_all(b"x");
                }
                std::process::exit(3);
            }
        }
    }
    let snap = ruint::verif_hooks::snapshot();
    let nz: Vec<String> =
        snap.iter().enumerate().filter(|(_, c)| **c != 0).map(|(i, c)| format!("{i}:{c}")).collect();
    eprintln!("HOOKS {}", nz.join(" "));
    out.flush().unwrap();
}
