//! C12 — gcd / lcm / gcd_extended / Lehmer matrices: calls the real `Uint` methods,
//! `ruint::algorithms::{gcd, gcd_extended, LehmerMatrix::*}`.
use ruint::algorithms::LehmerMatrix as M;
use std::sync::atomic::{AtomicU64, Ordering};
use vh::*;

// harness-side counters (evidence only): which constructor `Matrix::from` dispatches to along gcd runs,
// identity (Euclid fallback) vs Lehmer steps.
static CNT: [AtomicU64; 8] = [
    AtomicU64::new(0), AtomicU64::new(0), AtomicU64::new(0), AtomicU64::new(0),
    AtomicU64::new(0), AtomicU64::new(0), AtomicU64::new(0), AtomicU64::new(0),
];
fn cnt(i: usize) {
    CNT[i].fetch_add(1, Ordering::Relaxed);
}

fn hx64(s: &str) -> u64 {
    u64::from_str_radix(s, 16).unwrap()
}
fn hx128(s: &str) -> u128 {
    u128::from_str_radix(s, 16).unwrap()
}
fn mat(m: &M) -> String {
    format!("{:x} {:x} {:x} {:x} {}", m.0, m.1, m.2, m.3, b(m.4))
}
fn matc(m: &M) -> String {
    format!("{:x},{:x},{:x},{:x},{}", m.0, m.1, m.2, m.3, b(m.4))
}
fn pmat(p: &[&str]) -> M {
    M(hx64(p[0]), hx64(p[1]), hx64(p[2]), hx64(p[3]), p[4] == "t")
}

fn run<const B: usize, const L: usize>(p: &[&str]) -> String {
    type U<const B: usize, const L: usize> = Uint<B, L>;
    let op = p[0];
    match op {
        "gcd" => {
            let (a, c): (U<B, L>, U<B, L>) = (u(p[2]), u(p[3]));
            // method and free function must agree
            let g = a.gcd(c);
            let g2 = ruint::algorithms::gcd(a, c);
            if g != g2 {
                return "facade-mismatch".into();
            }
            h(&g)
        }
        "lcm" => {
            let (a, c): (U<B, L>, U<B, L>) = (u(p[2]), u(p[3]));
            let r = a.lcm(c);
            // the num-integer surface (`gcd`, `lcm`, the provided `gcd_lcm`) must agree with the inherent methods: the same
            // values, a panic exactly where the inherent `lcm` reports an overflow (`None`)
            use num_integer::Integer;
            let g = a.gcd(c);
            let ni_g = std::panic::catch_unwind(|| <U<B, L> as Integer>::gcd(&a, &c));
            let ni_l = std::panic::catch_unwind(|| <U<B, L> as Integer>::lcm(&a, &c));
            let ni_gl = std::panic::catch_unwind(|| <U<B, L> as Integer>::gcd_lcm(&a, &c));
            let ok = match r {
                Some(l) => ni_g.ok() == Some(g) && ni_l.ok() == Some(l) && ni_gl.ok() == Some((g, l)),
                None => ni_g.ok() == Some(g) && ni_l.is_err() && ni_gl.is_err(),
            };
            if !ok {
                return "facade-mismatch".into();
            }
            opt(r)
        }
        "gcdext" => {
            let (a, c): (U<B, L>, U<B, L>) = (u(p[2]), u(p[3]));
            let (g, x, y, s) = a.gcd_extended(c);
            let r2 = ruint::algorithms::gcd_extended(a, c);
            if (g, x, y, s) != r2 {
                return "facade-mismatch".into();
            }
            format!("{} {} {} {}", h(&g), h(&x), h(&y), b(s))
        }
        "mfrom" => {
            let (a, c): (U<B, L>, U<B, L>) = (u(p[2]), u(p[3]));
            mat(&M::from(a, c))
        }
        "apply" => {
            let m = pmat(&p[2..7]);
            let (mut a, mut c): (U<B, L>, U<B, L>) = (u(p[7]), u(p[8]));
            m.apply(&mut a, &mut c);
            format!("{} {}", h(&a), h(&c))
        }
        "gcdtrace" => {
            // replay the loop of `algorithms::gcd` with the real `LehmerMatrix::from` / `apply`,
            // printing every matrix the implementation produced
            let (mut a, mut c): (U<B, L>, U<B, L>) = (u(p[2]), u(p[3]));
            let g = a.gcd(c);
            if c > a {
                core::mem::swap(&mut a, &mut c);
            }
            let mut tr: Vec<String> = vec![];
            while c != U::<B, L>::ZERO {
                let s = a.bit_len();
                cnt(if s <= 64 { 0 } else if s <= 128 { 1 } else { 2 });
                let m = M::from(a, c);
                tr.push(matc(&m));
                if m == M::IDENTITY {
                    cnt(3);
                    a %= c;
                    core::mem::swap(&mut a, &mut c);
                } else {
                    cnt(4);
                    m.apply(&mut a, &mut c);
                }
                if tr.len() > 100_000 {
                    return "diverged".into();
                }
            }
            format!("{} {} {}", h(&g), h(&a), if tr.is_empty() { "-".to_string() } else { tr.join(";") })
        }
        _ => "bad-op".into(),
    }
}

fn main() {
    run_lines(|p| {
        let op = p[0];
        match op {
            "mu64" => return mat(&M::from_u64(hx64(p[2]), hx64(p[3]))),
            "mpre" => return mat(&M::from_u64_prefix(hx64(p[2]), hx64(p[3]))),
            "m128" => return mat(&M::from_u128_prefix(hx128(p[2]), hx128(p[3]))),
            "applyu128" => {
                let m = pmat(&p[2..7]);
                let (c, d) = m.apply_u128(hx128(p[7]), hx128(p[8]));
                return format!("{c:x} {d:x}");
            }
            "compose" => {
                let m = pmat(&p[2..7]);
                let n = pmat(&p[7..12]);
                return mat(&m.compose(n));
            }
            "capply" => {
                let m = pmat(&p[2..7]);
                let n = pmat(&p[7..12]);
                let (a, c) = (hx128(p[12]), hx128(p[13]));
                let (x, y) = m.compose(n).apply_u128(a, c);
                let (a1, c1) = n.apply_u128(a, c);
                let (x2, y2) = m.apply_u128(a1, c1);
                return format!("{x:x} {y:x} {x2:x} {y2:x}");
            }
            _ => {}
        }
        let bits: usize = p[1].parse().unwrap();
        dispatch_bits!(bits, run, (p), [0, 1, 2, 3, 4, 5, 6, 7, 8, 12, 16, 31, 32, 33, 60, 63, 64, 65, 72, 96,
            100, 127, 128, 129, 160, 192, 200, 250, 255, 256, 257, 320, 384, 512, 521, 1024, 4096])
    });
    let v: Vec<String> = CNT
        .iter()
        .enumerate()
        .filter(|(_, c)| c.load(Ordering::Relaxed) != 0)
        .map(|(i, c)| format!("{}:{}", 1200 + i, c.load(Ordering::Relaxed)))
        .collect();
    eprintln!("HOOKS {}", v.join(" "));
}
