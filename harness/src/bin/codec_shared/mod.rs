//! Shared by `c16` and `c17`: calls the REAL codec integrations of `ruint` (encoders, advertised lengths,
//! decoders) in-process. One op per line, see `run_case`.
//!
//! C16 ops (`op bits value`): print `<bytes> <advertised lengths…> <round trip>` (+ ` PRIM-MISMATCH` when the
//! codec crate's own encoding of the equal u64/u128 differs).
//! C17 ops (`d_<decoder> bits <hexbytes>`): print `ok <value> [<consumed>]` / `err <Kind>` (a panic is caught by
//! `vh::run_lines` and printed as `panic`).
//! `exh <bits> <decoder> <prefix> <depth>`: digest over all byte strings `prefix ++ s`, `|s| <= depth`.
#![allow(clippy::all)]
#![allow(dead_code)]
use std::panic::{catch_unwind, AssertUnwindSafe};
use vh::*;

type U<const B: usize, const L: usize> = Uint<B, L>;

/// first identifier of a `Debug` rendering: `Incomplete { .. }` -> `Incomplete`
fn variant<T: std::fmt::Debug>(e: &T) -> String {
    let s = format!("{e:?}");
    s.chars().take_while(|c| c.is_ascii_alphanumeric() || *c == '_').collect()
}

fn okv<const B: usize, const L: usize>(v: &U<B, L>) -> String {
    format!("ok {}", h(v))
}
fn okn<const B: usize, const L: usize>(v: &U<B, L>, n: usize) -> String {
    format!("ok {} {}", h(v), n)
}

// ------------------------------------------------------------------------------------------------
// decoders (C17). Each returns the canonical outcome line.

/// A serde `Deserializer` that drives ONE chosen entry point of the visitor (whatever `deserialize_*` the `Deserialize` impl
/// asks for), with a chosen `is_human_readable`: the visitor-method surface of `Uint`'s `Deserialize`, independent of any
/// concrete format. kinds: u64 i64 u128 i128 f64 f32 bool char str bytes seq unit none
pub struct VisitProbe<'a> {
    pub hr: bool,
    pub kind: &'a str,
    pub payload: &'a [u8],
}
struct ProbeSeq<'a>(std::slice::Iter<'a, u8>);
impl<'de, 'a> serde::de::SeqAccess<'de> for ProbeSeq<'a> {
    type Error = serde::de::value::Error;
    fn next_element_seed<T: serde::de::DeserializeSeed<'de>>(&mut self, seed: T) -> Result<Option<T::Value>, Self::Error> {
        match self.0.next() {
            Some(&b) => seed.deserialize(serde::de::value::U8Deserializer::<Self::Error>::new(b)).map(Some),
            None => Ok(None),
        }
    }
}
impl<'de, 'a> serde::Deserializer<'de> for VisitProbe<'a> {
    type Error = serde::de::value::Error;
    fn deserialize_any<V: serde::de::Visitor<'de>>(self, visitor: V) -> Result<V::Value, Self::Error> {
        let be = |n: usize| -> u128 { self.payload.iter().take(n).fold(0u128, |a, &b| (a << 8) | b as u128) };
        match self.kind {
            "u64" => visitor.visit_u64(be(8) as u64),
            "i64" => visitor.visit_i64(be(8) as u64 as i64),
            "u128" => visitor.visit_u128(be(16)),
            "i128" => visitor.visit_i128(be(16) as i128),
            "f64" => visitor.visit_f64(f64::from_bits(be(8) as u64)),
            "f32" => visitor.visit_f32(f32::from_bits(be(4) as u32)),
            "bool" => visitor.visit_bool(self.payload.first().copied().unwrap_or(0) & 1 == 1),
            "char" => visitor.visit_char(char::from_u32(be(4) as u32).unwrap_or('x')),
            "str" => visitor.visit_str(&String::from_utf8_lossy(self.payload)),
            "bytes" => visitor.visit_bytes(self.payload),
            "seq" => visitor.visit_seq(ProbeSeq(self.payload.iter())),
            "unit" => visitor.visit_unit(),
            _ => visitor.visit_none(),
        }
    }
    fn is_human_readable(&self) -> bool {
        self.hr
    }
    serde::forward_to_deserialize_any! {
        bool i8 i16 i32 i64 i128 u8 u16 u32 u64 u128 f32 f64 char str string
        bytes byte_buf option unit unit_struct newtype_struct seq tuple
        tuple_struct map struct enum identifier ignored_any
    }
}

/// an `io::Read` that returns short reads (1, 2, 3, 1, 2, 3 … bytes at a time)
pub struct Dribble<'a>(pub &'a [u8], pub usize);
impl std::io::Read for Dribble<'_> {
    fn read(&mut self, buf: &mut [u8]) -> std::io::Result<usize> {
        let n = buf.len().min(self.0.len()).min(1 + self.1 % 3);
        self.1 += 1;
        buf[..n].copy_from_slice(&self.0[..n]);
        self.0 = &self.0[n..];
        Ok(n)
    }
}

pub fn dec<const B: usize, const L: usize>(name: &str, inp: &[u8]) -> String {
    match name {
        "arlp" => {
            let mut s = inp;
            match <U<B, L> as alloy_rlp::Decodable>::decode(&mut s) {
                Ok(v) => okn(&v, inp.len() - s.len()),
                Err(e) => format!("err {}", variant(&e)),
            }
        }
        "frlp3" => {
            let mut s = inp;
            match <U<B, L> as fastrlp_03::Decodable>::decode(&mut s) {
                Ok(v) => okn(&v, inp.len() - s.len()),
                Err(e) => format!("err {}", variant(&e)),
            }
        }
        "frlp4" => {
            let mut s = inp;
            match <U<B, L> as fastrlp_04::Decodable>::decode(&mut s) {
                Ok(v) => okn(&v, inp.len() - s.len()),
                Err(e) => format!("err {}", variant(&e)),
            }
        }
        "rlp" => match rlp::decode::<U<B, L>>(inp) {
            Ok(v) => okv(&v),
            Err(e) => format!("err {}", variant(&e)),
        },
        "rlpbits" => match rlp::decode::<ruint::Bits<B, L>>(inp) {
            Ok(v) => okv(v.as_uint()),
            Err(e) => format!("err {}", variant(&e)),
        },
        "scale" => {
            let mut s = inp;
            match <U<B, L> as parity_scale_codec::Decode>::decode(&mut s) {
                Ok(v) => okn(&v, inp.len() - s.len()),
                Err(_) => "err".into(),
            }
        }
        "scalec" => {
            let mut s = inp;
            match <ruint::support::scale::CompactUint<B, L> as parity_scale_codec::Decode>::decode(&mut s) {
                Ok(v) => okn(&v.0, inp.len() - s.len()),
                Err(_) => "err".into(),
            }
        }
        "ssz" => match <U<B, L> as ssz::Decode>::from_ssz_bytes(inp) {
            Ok(v) => okv(&v),
            Err(e) => format!("err {}", variant(&e)),
        },
        "borsh" => match borsh::from_slice::<U<B, L>>(inp) {
            Ok(v) => okv(&v),
            Err(e) => format!("err {}", variant(&e.kind())),
        },
        "borshr" => {
            let mut s = inp;
            let r = match <U<B, L> as borsh::BorshDeserialize>::deserialize_reader(&mut s) {
                Ok(v) => okn(&v, inp.len() - s.len()),
                Err(e) => format!("err {}", variant(&e.kind())),
            };
            // the same bytes through a reader that delivers them in pieces of 1, 2, 3, 1, 2, 3 … bytes (short reads are
            // legal for `io::Read`): the outcome and the number of bytes consumed must not depend on it
            let mut d = Dribble(inp, 0);
            let r2 = match <U<B, L> as borsh::BorshDeserialize>::deserialize_reader(&mut d) {
                Ok(v) => okn(&v, inp.len() - d.0.len()),
                Err(e) => format!("err {}", variant(&e.kind())),
            };
            if r2 != r {
                return format!("READER-MISMATCH {r} / {r2}");
            }
            r
        }
        "borshbits" => match borsh::from_slice::<ruint::Bits<B, L>>(inp) {
            Ok(v) => okv(v.as_uint()),
            Err(e) => format!("err {}", variant(&e.kind())),
        },
        "der" => match <U<B, L> as der::Decode>::from_der(inp) {
            Ok(v) => okv(&v),
            Err(e) => format!("err {}", der_kind(&e)),
        },
        "bincode" => match bincode::deserialize::<U<B, L>>(inp) {
            Ok(v) => okv(&v),
            Err(e) => format!("err {}", variant(&*e)),
        },
        "bincodebits" => match bincode::deserialize::<ruint::Bits<B, L>>(inp) {
            Ok(v) => okv(v.as_uint()),
            Err(e) => format!("err {}", variant(&*e)),
        },
        "json" => match serde_json::from_slice::<U<B, L>>(inp) {
            Ok(v) => okv(&v),
            Err(_) => "err".into(),
        },
        "jsonbits" => match serde_json::from_slice::<ruint::Bits<B, L>>(inp) {
            Ok(v) => okv(v.as_uint()),
            Err(_) => "err".into(),
        },
        "str" => match std::str::from_utf8(inp) {
            Ok(s) => match s.parse::<U<B, L>>() {
                Ok(v) => okv(&v),
                Err(_) => "err".into(),
            },
            Err(_) => "err".into(),
        },
        "be" => match U::<B, L>::try_from_be_slice(inp) {
            Some(v) => okv(&v),
            None => "err".into(),
        },
        "le" => match U::<B, L>::try_from_le_slice(inp) {
            Some(v) => okv(&v),
            None => "err".into(),
        },
        _ => {
            if let Some(ty) = name.strip_prefix("pg_") {
                return pg_dec::<B, L>(ty, inp);
            }
            "bad-op".into()
        }
    }
}

fn der_kind(e: &der::Error) -> String {
    let k = variant(&e.kind());
    match k.as_str() {
        "TagUnknown" | "TagUnexpected" | "TagNumberInvalid" => "Tag".into(),
        _ => k,
    }
}

fn pg_type(name: &str) -> Option<postgres_types::Type> {
    use postgres_types::Type;
    Some(match name {
        "BOOL" => Type::BOOL,
        "INT2" => Type::INT2,
        "INT4" => Type::INT4,
        "OID" => Type::OID,
        "INT8" => Type::INT8,
        "FLOAT4" => Type::FLOAT4,
        "FLOAT8" => Type::FLOAT8,
        "MONEY" => Type::MONEY,
        "BYTEA" => Type::BYTEA,
        "BIT" => Type::BIT,
        "VARBIT" => Type::VARBIT,
        "CHAR" => Type::CHAR,
        "TEXT" => Type::TEXT,
        "VARCHAR" => Type::VARCHAR,
        "JSON" => Type::JSON,
        "JSONB" => Type::JSONB,
        "NUMERIC" => Type::NUMERIC,
        "TIMESTAMP" => Type::TIMESTAMP, // an unsupported type
        _ => return None,
    })
}

fn pg_dec<const B: usize, const L: usize>(ty: &str, inp: &[u8]) -> String {
    use postgres_types::FromSql;
    let Some(ty) = pg_type(ty) else { return "bad-op".into() };
    match U::<B, L>::from_sql(&ty, inp) {
        Ok(v) => okv(&v),
        Err(e) => {
            if let Some(f) = e.downcast_ref::<ruint::support::postgres::FromSqlError>() {
                format!("err {}", variant(f))
            } else {
                "err Other".into()
            }
        }
    }
}

// ------------------------------------------------------------------------------------------------
// exhaustive digest

fn fnv(hh: &mut u64, s: &str) {
    for b in s.as_bytes() {
        *hh ^= *b as u64;
        *hh = hh.wrapping_mul(0x100000001b3);
    }
    *hh ^= 0x0a;
    *hh = hh.wrapping_mul(0x100000001b3);
}

/// all strings `prefix ++ s` with `|s| <= depth` in length-then-lexicographic order of `s`.
pub fn exh<const B: usize, const L: usize>(name: &str, prefix: &[u8], depth: usize) -> String {
    let mut hh: u64 = 0xcbf29ce484222325;
    let mut nok = 0u64;
    let mut nerr = 0u64;
    let mut npanic = 0u64;
    let mut buf = prefix.to_vec();
    for d in 0..=depth {
        buf.truncate(prefix.len());
        buf.resize(prefix.len() + d, 0);
        let total: u64 = 256u64.pow(d as u32);
        for k in 0..total {
            let mut x = k;
            for i in (0..d).rev() {
                buf[prefix.len() + i] = (x & 0xff) as u8;
                x >>= 8;
            }
            let r = catch_unwind(AssertUnwindSafe(|| dec::<B, L>(name, &buf))).unwrap_or_else(|_| "panic".into());
            if r.starts_with("ok") {
                nok += 1
            } else if r.starts_with("err") {
                nerr += 1
            } else {
                npanic += 1
            }
            fnv(&mut hh, &r);
        }
    }
    format!("{hh:x} ok={nok} err={nerr} other={npanic}")
}

// ------------------------------------------------------------------------------------------------
// encoders (C16)

fn rt<T>(f: impl FnOnce() -> T) -> Option<T> {
    catch_unwind(AssertUnwindSafe(f)).ok()
}

fn colon(s: String) -> String {
    s.replace(' ', ":")
}

/// decode `bytes` with decoder `name`, outcome with `:` separators; a panic is `panic`.
fn rtd<const B: usize, const L: usize>(name: &str, bytes: &[u8]) -> String {
    colon(rt(|| dec::<B, L>(name, bytes)).unwrap_or_else(|| "panic".into()))
}

fn as_u64<const B: usize, const L: usize>(v: &U<B, L>) -> Option<u64> {
    let l = v.as_limbs();
    if l.iter().skip(1).all(|x| *x == 0) {
        Some(l.first().copied().unwrap_or(0))
    } else {
        None
    }
}
fn as_u128<const B: usize, const L: usize>(v: &U<B, L>) -> Option<u128> {
    let l = v.as_limbs();
    if l.iter().skip(2).all(|x| *x == 0) {
        Some(l.first().copied().unwrap_or(0) as u128 | ((l.get(1).copied().unwrap_or(0) as u128) << 64))
    } else {
        None
    }
}

pub fn enc<const B: usize, const L: usize>(op: &str, p: &[&str]) -> String {
    let v: U<B, L> = u(p[2]);
    let mut prim_bad = false;
    let mut app_bad = false;     // an encoder that writes into the caller's buffer did not append to what was there
    let mut out = match op {
        "arlp" => {
            let mut e = vec![];
            alloy_rlp::Encodable::encode(&v, &mut e);
            { let mut ap = vec![0xa5u8, 0x5a, 0x01]; alloy_rlp::Encodable::encode(&v, &mut ap); app_bad |= ap[..3] != [0xa5, 0x5a, 0x01] || ap[3..] != e[..]; }
            if let Some(x) = as_u64(&v) {
                let mut q = vec![];
                alloy_rlp::Encodable::encode(&x, &mut q);
                prim_bad |= q != e || alloy_rlp::Encodable::length(&x) != alloy_rlp::Encodable::length(&v);
            }
            if let Some(x) = as_u128(&v) {
                let mut q = vec![];
                alloy_rlp::Encodable::encode(&x, &mut q);
                prim_bad |= q != e;
            }
            let mut t = e.clone();
            t.push(0x5a);
            format!("{} {} {}", bytes_hex(&e), alloy_rlp::Encodable::length(&v), rtd::<B, L>("arlp", &t))
        }
        "frlp3" => {
            let mut e = vec![];
            fastrlp_03::Encodable::encode(&v, &mut e);
            { let mut ap = vec![0xa5u8, 0x5a, 0x01]; fastrlp_03::Encodable::encode(&v, &mut ap); app_bad |= ap[..3] != [0xa5, 0x5a, 0x01] || ap[3..] != e[..]; }
            if let Some(x) = as_u64(&v) {
                let mut q = vec![];
                fastrlp_03::Encodable::encode(&x, &mut q);
                prim_bad |= q != e || fastrlp_03::Encodable::length(&x) != fastrlp_03::Encodable::length(&v);
            }
            if let Some(x) = as_u128(&v) {
                let mut q = vec![];
                fastrlp_03::Encodable::encode(&x, &mut q);
                prim_bad |= q != e;
            }
            let mut t = e.clone();
            t.push(0x5a);
            format!("{} {} {}", bytes_hex(&e), fastrlp_03::Encodable::length(&v), rtd::<B, L>("frlp3", &t))
        }
        "frlp4" => {
            let mut e = vec![];
            fastrlp_04::Encodable::encode(&v, &mut e);
            { let mut ap = vec![0xa5u8, 0x5a, 0x01]; fastrlp_04::Encodable::encode(&v, &mut ap); app_bad |= ap[..3] != [0xa5, 0x5a, 0x01] || ap[3..] != e[..]; }
            if let Some(x) = as_u64(&v) {
                let mut q = vec![];
                fastrlp_04::Encodable::encode(&x, &mut q);
                prim_bad |= q != e || fastrlp_04::Encodable::length(&x) != fastrlp_04::Encodable::length(&v);
            }
            if let Some(x) = as_u128(&v) {
                let mut q = vec![];
                fastrlp_04::Encodable::encode(&x, &mut q);
                prim_bad |= q != e;
            }
            let mut t = e.clone();
            t.push(0x5a);
            format!("{} {} {}", bytes_hex(&e), fastrlp_04::Encodable::length(&v), rtd::<B, L>("frlp4", &t))
        }
        "rlp" => {
            let e = rlp::encode(&v).to_vec();
            if let Some(x) = as_u64(&v) {
                prim_bad |= rlp::encode(&x).to_vec() != e;
            }
            if let Some(x) = as_u128(&v) {
                prim_bad |= rlp::encode(&x).to_vec() != e;
            }
            format!("{} {}", bytes_hex(&e), rtd::<B, L>("rlp", &e))
        }
        "rlpbits" => {
            let e = rlp::encode(&ruint::Bits::<B, L>::from(v)).to_vec();
            format!("{} {}", bytes_hex(&e), rtd::<B, L>("rlpbits", &e))
        }
        "scale" => {
            use parity_scale_codec::{Encode, MaxEncodedLen};
            let e = Encode::encode(&v);
            { let mut ap = vec![0xa5u8, 0x5a, 0x01]; Encode::encode_to(&v, &mut ap); app_bad |= ap[..3] != [0xa5, 0x5a, 0x01] || ap[3..] != e[..]; }
            let sh = rt(|| Encode::size_hint(&v)).map(|x| x.to_string()).unwrap_or("PANIC".into());
            let es = rt(|| Encode::encoded_size(&v)).map(|x| x.to_string()).unwrap_or("PANIC".into());
            let mx = <U<B, L> as MaxEncodedLen>::max_encoded_len();
            let mut t = e.clone();
            t.push(0x5a);
            format!("{} {} {} {} {}", bytes_hex(&e), sh, es, mx, rtd::<B, L>("scale", &t))
        }
        "scalec" => {
            use parity_scale_codec::{Compact, Encode};
            use ruint::support::scale::CompactRefUint;
            let sh = rt(|| CompactRefUint(&v).size_hint()).map(|x| x.to_string()).unwrap_or("PANIC".into());
            // `Encode::encode` (what `#[codec(compact)]` fields use) calls size_hint first
            let e0 = rt(|| CompactRefUint(&v).encode());
            let mut e = vec![];
            CompactRefUint(&v).encode_to(&mut e);
            { let mut ap = vec![0xa5u8, 0x5a, 0x01]; CompactRefUint(&v).encode_to(&mut ap); app_bad |= ap[..3] != [0xa5, 0x5a, 0x01] || ap[3..] != e[..]; }
            let enc_ok = match &e0 {
                Some(x) if *x == e => "same",
                Some(_) => "DIFF",
                None => "PANIC",
            };
            if let Some(x) = as_u64(&v) {
                prim_bad |= Compact(x).encode() != e;
            }
            if let Some(x) = as_u128(&v) {
                prim_bad |= Compact(x).encode() != e;
            }
            let mut t = e.clone();
            t.push(0x5a);
            format!("{} {} {} {}", bytes_hex(&e), sh, enc_ok, rtd::<B, L>("scalec", &t))
        }
        "ssz" => {
            let e = ssz::Encode::as_ssz_bytes(&v);
            { let mut ap = vec![0xa5u8, 0x5a, 0x01]; ssz::Encode::ssz_append(&v, &mut ap); app_bad |= ap[..3] != [0xa5, 0x5a, 0x01] || ap[3..] != e[..]; }
            match B {
                8 => prim_bad |= ssz::Encode::as_ssz_bytes(&(as_u64(&v).unwrap() as u8)) != e,
                16 => prim_bad |= ssz::Encode::as_ssz_bytes(&(as_u64(&v).unwrap() as u16)) != e,
                32 => prim_bad |= ssz::Encode::as_ssz_bytes(&(as_u64(&v).unwrap() as u32)) != e,
                64 => prim_bad |= ssz::Encode::as_ssz_bytes(&as_u64(&v).unwrap()) != e,
                128 => prim_bad |= ssz::Encode::as_ssz_bytes(&as_u128(&v).unwrap()) != e,
                _ => {}
            }
            format!(
                "{} {} {} {} {} {}",
                bytes_hex(&e),
                ssz::Encode::ssz_bytes_len(&v),
                <U<B, L> as ssz::Encode>::ssz_fixed_len(),
                <U<B, L> as ssz::Decode>::ssz_fixed_len(),
                b(<U<B, L> as ssz::Encode>::is_ssz_fixed_len() && <U<B, L> as ssz::Decode>::is_ssz_fixed_len()),
                rtd::<B, L>("ssz", &e)
            )
        }
        "borsh" => {
            let e = borsh::to_vec(&v).unwrap();
            { let mut ap = vec![0xa5u8, 0x5a, 0x01]; borsh::BorshSerialize::serialize(&v, &mut ap).unwrap(); app_bad |= ap[..3] != [0xa5, 0x5a, 0x01] || ap[3..] != e[..]; }
            match B {
                8 => prim_bad |= borsh::to_vec(&(as_u64(&v).unwrap() as u8)).unwrap() != e,
                16 => prim_bad |= borsh::to_vec(&(as_u64(&v).unwrap() as u16)).unwrap() != e,
                32 => prim_bad |= borsh::to_vec(&(as_u64(&v).unwrap() as u32)).unwrap() != e,
                64 => prim_bad |= borsh::to_vec(&as_u64(&v).unwrap()).unwrap() != e,
                128 => prim_bad |= borsh::to_vec(&as_u128(&v).unwrap()).unwrap() != e,
                _ => {}
            }
            let eb = borsh::to_vec(&ruint::Bits::<B, L>::from(v)).unwrap();
            let mut t = e.clone();
            t.push(0x5a);
            format!(
                "{} {} {} {}",
                bytes_hex(&e),
                rtd::<B, L>("borsh", &e),
                rtd::<B, L>("borshr", &t),
                if eb == e { rtd::<B, L>("borshbits", &eb) } else { "BITS-DIFF".into() }
            )
        }
        "der" => {
            let e = match der::Encode::to_der(&v) {
                Ok(e) => e,
                Err(er) => return format!("encode-err {}", der_kind(&er)),
            };
            let vl = der::EncodeValue::value_len(&v).map(|l| u32::from(l).to_string()).unwrap_or("ERR".into());
            let el = der::Encode::encoded_len(&v).map(|l| u32::from(l).to_string()).unwrap_or("ERR".into());
            if let Some(x) = as_u64(&v) {
                prim_bad |= der::Encode::to_der(&x).unwrap() != e;
            }
            if let Some(x) = as_u128(&v) {
                prim_bad |= der::Encode::to_der(&x).unwrap() != e;
            }
            // the asn1 wrappers
            let any = der::asn1::Any::from(&v);
            let int = der::asn1::Int::from(&v);
            let du = der::asn1::Uint::from(&v);
            let w_any = der::Encode::to_der(&any).map(|x| x == e).unwrap_or(false);
            let w_int = der::Encode::to_der(&int).map(|x| x == e).unwrap_or(false);
            let w_du = der::Encode::to_der(&du).map(|x| x == e).unwrap_or(false);
            let b_any = U::<B, L>::try_from(&any).ok() == Some(v);
            let b_int = U::<B, L>::try_from(&int).ok() == Some(v);
            let b_du = U::<B, L>::try_from(&du).ok() == Some(v);
            format!(
                "{} {} {} {} {}",
                bytes_hex(&e),
                vl,
                el,
                rtd::<B, L>("der", &e),
                b(w_any && w_int && w_du && b_any && b_int && b_du)
            )
        }
        "json" => {
            let e = serde_json::to_string(&v).unwrap();
            let eb = serde_json::to_string(&ruint::Bits::<B, L>::from(v)).unwrap();
            format!(
                "{} {} {} {}",
                bytes_hex(e.as_bytes()),
                rtd::<B, L>("json", e.as_bytes()),
                bytes_hex(eb.as_bytes()),
                rtd::<B, L>("jsonbits", eb.as_bytes())
            )
        }
        "bincode" => {
            let e = bincode::serialize(&v).unwrap();
            let eb = bincode::serialize(&ruint::Bits::<B, L>::from(v)).unwrap();
            format!(
                "{} {} {}",
                bytes_hex(&e),
                rtd::<B, L>("bincode", &e),
                if eb == e { rtd::<B, L>("bincodebits", &eb) } else { "BITS-DIFF".into() }
            )
        }
        "bigint" => {
            let bu = num_bigint::BigUint::from(&v);
            let bi = num_bigint::BigInt::from(&v);
            let d = bu.to_u64_digits();
            let back = U::<B, L>::try_from(&bu).ok() == Some(v) && U::<B, L>::try_from(bu.clone()).ok() == Some(v);
            let backi = U::<B, L>::try_from(&bi).ok() == Some(v)
                && bi.sign() != num_bigint::Sign::Minus
                && bi.magnitude() == &bu;
            format!("{} {} {}", limbs_list(&d), b(back), b(backi))
        }
        "ark4" => {
            let a: ark_ff_04::BigInt<L> = v.into();
            let a2: ark_ff_04::BigInt<L> = (&v).into();
            let back: U<B, L> = a.into();
            let back2: U<B, L> = (&a2).into();
            format!("{} {}", limbs_list(&a.0), b(back == v && back2 == v && a.0 == a2.0))
        }
        _ => {
            if let Some(ty) = op.strip_prefix("pg_") {
                use postgres_types::ToSql;
                let Some(t) = pg_type(ty) else { return "bad-op".into() };
                let mut out = bytes::BytesMut::new();
                match v.to_sql(&t, &mut out) {
                    Ok(_) => format!("ok:{} {}", bytes_hex(&out), rtd::<B, L>(op, &out)),
                    Err(_) => "err".into(),
                }
            } else {
                "bad-op".into()
            }
        }
    };
    if prim_bad {
        out.push_str(" PRIM-MISMATCH");
    }
    if app_bad {
        out.push_str(" APPEND-MISMATCH");
    }
    out
}

/// integrations that exist only at particular widths (primitive-types, bytemuck, ark-ff 0.3)
pub fn fixed_width(op: &str, bits: usize, p: &[&str]) -> Option<String> {
    macro_rules! ptypes {
        ($b:literal, $l:literal, $t:ident) => {{
            let v: U<$b, $l> = u(p[2]);
            let t: primitive_types::$t = v.into();
            let back: U<$b, $l> = t.into();
            let dec = primitive_types::$t::from_big_endian(&v.to_be_bytes_vec());
            Some(format!("{} {} {}", limbs_list(&t.0), b(back == v), b(dec == t)))
        }};
    }
    macro_rules! hbits {
        ($b:literal, $l:literal, $t:ident) => {{
            let v: U<$b, $l> = u(p[2]);
            let bb = ruint::Bits::<$b, $l>::from(v);
            let t: primitive_types::$t = bb.into();
            let back: ruint::Bits<$b, $l> = t.into();
            Some(format!("{} {}", bytes_hex(t.as_bytes()), b(back == bb)))
        }};
    }
    macro_rules! pod {
        ($b:literal, $l:literal) => {{
            let v: U<$b, $l> = u(p[2]);
            let by = bytemuck::bytes_of(&v).to_vec();
            let back: U<$b, $l> = bytemuck::pod_read_unaligned(&by);
            let z: U<$b, $l> = bytemuck::Zeroable::zeroed();
            Some(format!("{} {} {}", bytes_hex(&by), b(back == v), b(z == U::<$b, $l>::ZERO)))
        }};
    }
    macro_rules! ark3 {
        ($b:literal, $l:literal, $t:ident) => {{
            let v: U<$b, $l> = u(p[2]);
            let a: ark_ff_03::biginteger::$t = v.into();
            let a2: ark_ff_03::biginteger::$t = (&v).into();
            let back: U<$b, $l> = a.into();
            let back2: U<$b, $l> = (&a2).into();
            Some(format!("{} {}", limbs_list(&a.0), b(back == v && back2 == v && a.0 == a2.0)))
        }};
    }
    match (op, bits) {
        ("ptypes", 128) => ptypes!(128, 2, U128),
        ("ptypes", 256) => ptypes!(256, 4, U256),
        ("ptypes", 512) => ptypes!(512, 8, U512),
        ("hbits", 128) => hbits!(128, 2, H128),
        ("hbits", 160) => hbits!(160, 3, H160),
        ("hbits", 256) => hbits!(256, 4, H256),
        ("hbits", 512) => hbits!(512, 8, H512),
        ("pod", 64) => pod!(64, 1),
        ("pod", 128) => pod!(128, 2),
        ("pod", 192) => pod!(192, 3),
        ("pod", 256) => pod!(256, 4),
        ("pod", 448) => pod!(448, 7),
        ("pod", 512) => pod!(512, 8),
        ("pod", 1024) => pod!(1024, 16),
        ("ark3", 64) => ark3!(64, 1, BigInteger64),
        ("ark3", 128) => ark3!(128, 2, BigInteger128),
        ("ark3", 256) => ark3!(256, 4, BigInteger256),
        ("ark3", 320) => ark3!(320, 5, BigInteger320),
        ("ark3", 384) => ark3!(384, 6, BigInteger384),
        ("ark3", 448) => ark3!(448, 7, BigInteger448),
        ("ark3", 768) => ark3!(768, 12, BigInteger768),
        ("ark3", 832) => ark3!(832, 13, BigInteger832),
        ("ptypes" | "hbits" | "pod" | "ark3", _) => Some("unsupported-width".into()),
        _ => None,
    }
}

fn run<const B: usize, const L: usize>(p: &[&str]) -> String {
    let op = p[0];
    if let Some(name) = op.strip_prefix("d_") {
        if name == "bigint" {
            // d_bigint bits <sign +|-> <hex magnitude>
            let mag = num_bigint::BigUint::parse_bytes(p[3].as_bytes(), 16).unwrap();
            let r = if p[2] == "-" {
                U::<B, L>::try_from(num_bigint::BigInt::from_biguint(num_bigint::Sign::Minus, mag))
            } else if p[2] == "+" {
                U::<B, L>::try_from(num_bigint::BigInt::from(mag))
            } else {
                U::<B, L>::try_from(mag)
            };
            return match r {
                Ok(v) => okv(&v),
                Err(e) => format!("err {}", variant(&e)),
            };
        }
        return dec::<B, L>(name, &parse_hex_bytes(p[2]));
    }
    if op == "sv" {
        // sv bits <hr 0|1> <kind> <hex payload>: `Uint::deserialize` driven through one visitor entry point
        use serde::Deserialize;
        let payload = parse_hex_bytes(p[4]);
        let probe = VisitProbe { hr: p[2] == "1", kind: p[3], payload: &payload };
        return match U::<B, L>::deserialize(probe) {
            Ok(v) => okv(&v),
            Err(_) => "err".into(),
        };
    }
    if op == "exh" {
        return exh::<B, L>(p[2], &parse_hex_bytes(p[3]), p[4].parse().unwrap());
    }
    enc::<B, L>(op, p)
}

pub fn run_case(p: &[&str]) -> String {
    let bits: usize = p[1].parse().unwrap();
    if let Some(r) = fixed_width(p[0], bits, p) {
        return r;
    }
    dispatch_bits!(bits, run, (p), [0, 1, 2, 7, 8, 12, 16, 32, 60, 63, 64, 65, 100, 128, 160, 192, 250, 256, 384,
        440, 448, 512, 535, 536, 832, 1024, 2048, 2056])
}
