//! C03 — Euclidean division at the `Uint` surface: calls the real methods and operators.
use vh::*;

fn run<const B: usize, const L: usize>(p: &[&str]) -> String {
    type U<const B: usize, const L: usize> = Uint<B, L>;
    let op = p[0];
    let a: U<B, L> = u(p[2]);
    let c: U<B, L> = u(p[3]);
    match op {
        "divrem" => { let (q, r) = a.div_rem(c); format!("{} {}", h(&q), h(&r)) }
        "wdiv" => h(&a.wrapping_div(c)),
        "wrem" => h(&a.wrapping_rem(c)),
        "cdiv" => opt(a.checked_div(c)),
        "crem" => opt(a.checked_rem(c)),
        "divceil" => h(&a.div_ceil(c)),
        "cnmo" => opt(a.checked_next_multiple_of(c)),
        "nmo" => h(&a.next_multiple_of(c)),
        "div0" => h(&(a / c)),
        "div1" => h(&(a / &c)),
        "div2" => h(&(&a / c)),
        "div3" => h(&(&a / &c)),
        "div4" => { let mut x = a; x /= c; h(&x) }
        "div5" => { let mut x = a; x /= &c; h(&x) }
        "rem0" => h(&(a % c)),
        "rem1" => h(&(a % &c)),
        "rem2" => h(&(&a % c)),
        "rem3" => h(&(&a % &c)),
        "rem4" => { let mut x = a; x %= c; h(&x) }
        "rem5" => { let mut x = a; x %= &c; h(&x) }
        _ => "bad-op".into(),
    }
}

fn main() {
    run_lines(|p| {
        let bits: usize = p[1].parse().unwrap();
        dispatch_bits!(bits, run, (p), [0, 1, 2, 3, 4, 5, 6, 7, 8, 12, 16, 31, 32, 33, 60, 63, 64, 65, 72, 96,
            100, 127, 128, 129, 160, 192, 200, 250, 255, 256, 257, 320, 384, 512, 521, 1024, 4096])
    });
}
