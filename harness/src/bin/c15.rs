//! C15 — limb-slice kernels: calls the real `ruint::algorithms::*` functions on run-time slices.
//! Case: `op n arg...` (`n` is informational). Limb lists `a,b,c` hex words (`-` = empty), words hex.
use ruint::algorithms as alg;
use vh::*;

fn w(s: &str) -> u64 {
    u64::from_str_radix(s, 16).unwrap()
}

fn ord(o: core::cmp::Ordering) -> &'static str {
    match o {
        core::cmp::Ordering::Less => "lt",
        core::cmp::Ordering::Equal => "eq",
        core::cmp::Ordering::Greater => "gt",
    }
}

fn run(p: &[&str]) -> String {
    let op = p[0];
    match op {
        // model-vs-spec self check of the Lean side; no implementation involved
        "selfcheck" => "ok".into(),
        "addmul" => {
            let mut lhs = parse_limbs_list(p[2]);
            let a = parse_limbs_list(p[3]);
            let c = parse_limbs_list(p[4]);
            let f = alg::addmul(&mut lhs, &a, &c);
            format!("{} {}", limbs_list(&lhs), b(f))
        }
        "addmuln" => {
            let mut lhs = parse_limbs_list(p[2]);
            let a = parse_limbs_list(p[3]);
            let c = parse_limbs_list(p[4]);
            alg::addmul_n(&mut lhs, &a, &c);
            limbs_list(&lhs)
        }
        "mulnx1" => {
            let mut lhs = parse_limbs_list(p[2]);
            let c = alg::mul_nx1(&mut lhs, w(p[3]));
            format!("{} {:x}", limbs_list(&lhs), c)
        }
        "addnx1" => {
            let mut lhs = parse_limbs_list(p[2]);
            let c = alg::add_nx1(&mut lhs, w(p[3]));
            format!("{} {:x}", limbs_list(&lhs), c)
        }
        "addmulnx1" => {
            let mut lhs = parse_limbs_list(p[2]);
            let a = parse_limbs_list(p[3]);
            let c = alg::addmul_nx1(&mut lhs, &a, w(p[4]));
            format!("{} {:x}", limbs_list(&lhs), c)
        }
        "submulnx1" => {
            let mut lhs = parse_limbs_list(p[2]);
            let a = parse_limbs_list(p[3]);
            let c = alg::submul_nx1(&mut lhs, &a, w(p[4]));
            format!("{} {:x}", limbs_list(&lhs), c)
        }
        "adcn" => {
            let mut lhs = parse_limbs_list(p[2]);
            let r = parse_limbs_list(p[3]);
            let c = alg::adc_n(&mut lhs, &r, w(p[4]));
            format!("{} {:x}", limbs_list(&lhs), c)
        }
        "sbbn" => {
            let mut lhs = parse_limbs_list(p[2]);
            let r = parse_limbs_list(p[3]);
            let c = alg::sbb_n(&mut lhs, &r, w(p[4]));
            format!("{} {:x}", limbs_list(&lhs), c)
        }
        "adc" => {
            let (lo, hi) = alg::adc(w(p[2]), w(p[3]), w(p[4]));
            format!("{lo:x} {hi:x}")
        }
        "sbb" => {
            let (lo, hi) = alg::sbb(w(p[2]), w(p[3]), w(p[4]));
            format!("{lo:x} {hi:x}")
        }
        "cadd" => {
            let (r, c) = alg::carrying_add(w(p[2]), w(p[3]), p[4] == "t");
            format!("{r:x} {}", b(c))
        }
        "bsub" => {
            let (r, c) = alg::borrowing_sub(w(p[2]), w(p[3]), p[4] == "t");
            format!("{r:x} {}", b(c))
        }
        "shl" => {
            let mut l = parse_limbs_list(p[2]);
            let c = alg::shift_left_small(&mut l, p[3].parse().unwrap());
            format!("{} {:x}", limbs_list(&l), c)
        }
        "shr" => {
            let mut l = parse_limbs_list(p[2]);
            let c = alg::shift_right_small(&mut l, p[3].parse().unwrap());
            format!("{} {:x}", limbs_list(&l), c)
        }
        "cmp" => {
            let l = parse_limbs_list(p[2]);
            let r = parse_limbs_list(p[3]);
            ord(alg::cmp(&l, &r)).into()
        }
        _ => "bad-op".into(),
    }
}

fn main() {
    run_lines(run);
}
