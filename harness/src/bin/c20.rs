//! C20 — facade parity: every alternative surface of an operation (operator impls in all shapes, the
//! `Bits` wrapper, num-traits / num-integer impls, subtle, Sum/Product, zeroize) against the
//! corresponding inherent `Uint` method (or the plain `==`, `<`, `>`, `if`).
//!
//! Output per case: `F|I` — F = canonical text of the FACADE result, I = canonical text of the INHERENT
//! counterpart, each evaluated in its own `catch_unwind` (a panic prints the word `panic` for that side).
//! The I side is chosen by the MEANING of the facade (its trait documentation), never by copying what
//! the facade body happens to call. No trait is imported: trait methods are always fully qualified,
//! inherent methods are always called as `U::method(..)`.
//!
//! Argument conventions: `a b c` = hex `Uint` values; `n` = hex u64 (cast with `as T`); `k` = hex u128
//! bit pattern (cast with `as T`); `bytes` = hex byte string (`-` empty); `list` = comma separated hex
//! values (`-` empty); `str` = text token (`EMPTY` = empty string); `c` (choice) = 0/1.
//! Canonical text: Uint `h(&x)` (from limbs); bool `t`/`f`; Option `some X`/`none`; (Uint,bool) `X t`;
//! (Uint,Uint) `X Y`; primitive integers `{:x}`; bytes `bytes_hex`; Result `ok X`/`err <Debug, no spaces>`.
//!
//! ## Op table (facade expression  |  inherent counterpart)
//!
//! Operators, `<o>` in {add sub mul div rem and or xor}, args `a b`:
//!   <o>.vv  a o b          <o>.vr  a o &b        <o>.rv  &a o b        <o>.rr  &a o &b
//!   <o>.av  x=a; x o= b    <o>.ar  x=a; x o= &b
//!     add|U::wrapping_add  sub|U::wrapping_sub  mul|U::wrapping_mul  div|U::wrapping_div
//!     rem|U::wrapping_rem  and,or,xor | limb-wise u64 op on as_limbs()
//! Shifts by primitive, `<d>` in {shl shr}, `<T>` in {usize u8 u16 u32 u64 isize i8 i16 i32 i64}, args `a n`:
//!   <d>.<T>.v  a d (n as T)     <d>.<T>.r  a d &(n as T)
//!   <d>.<T>.av x=a; x d= n      <d>.<T>.ar x=a; x d= &n
//!     | U::wrapping_shl / U::wrapping_shr (a, (n as T) as usize)
//! Shifts by Uint, args `a b`:  shlU.v a<<b  shlU.r a<<&b  shlU.av x<<=b  shlU.ar x<<=&b  (shrU.* same)
//!     | U::wrapping_shl/shr(a, amount), amount = value of b saturated to usize::MAX
//!   shlU.big.* / shrU.big.*: the same ops, generator puts amounts >= 2^64 here.
//! Unary, arg `a`:  neg.v -a  neg.r -&a | U::wrapping_neg     not.v !a  not.r !&a | U::not
//!
//! Bits wrapper (`ba = Bits::from(a)`):
//!   bits.reverse_bits a | U::reverse_bits          bits.as_le_bytes a | U::as_le_bytes
//!   bits.to_be_bytes_vec a | U::to_be_bytes_vec    bits.to_le_bytes a (::<BYTES>) | U::to_le_bytes::<BYTES>
//!   bits.to_be_bytes a | U::to_be_bytes::<BYTES>   bits.leading_zeros / leading_ones / trailing_zeros /
//!   trailing_ones a | U::same                      bits.checked_shl / checked_shr a n | U::same
//!   bits.overflowing_shl / overflowing_shr a n | U::same
//!   bits.wrapping_shl / wrapping_shr / rotate_left / rotate_right a n | U::same
//!   bits.try_from_be_slice / try_from_le_slice bytes | U::same
//!   bits.from_str_radix n str | U::from_str_radix  bits.from_str str (FromStr) | <U as FromStr>::from_str
//!   bits.from_be_bytes / from_le_bytes bytes (exactly BYTES long) | U::same::<BYTES>
//!   bits.from_limbs list | U::from_limbs           bits.as_limbs a | U::as_limbs
//!   bits.as_limbs_mut a (flip bit 0 through it) | U::as_limbs_mut (same write)
//!   bits.into_inner a | a     bits.as_uint a | a   bits.as_uint_mut a b (*x.as_uint_mut() = b) | b
//!   bits.index a n (ba[n]) | U::bit(&a, n)         bits.not.v !ba  bits.not.r !&ba | U::not
//!   bits.<and|or|xor>.<vv|vr|rv|rr|av|ar> a b | limb-wise
//!   bits.<shl|shr>.<vv|rv|vr|rr|av|ar> a n  (Bits d usize, &Bits d usize, Bits d &usize, &Bits d &usize,
//!       d= usize, d= &usize) | U::wrapping_shl / wrapping_shr
//!   bits.from_uint a (Uint -> Bits -> Uint via the two From impls) | a
//!   bits.default | U::ZERO       bits.eq a b (ba == bb) | a == b
//!   bits.consts (LIMBS BITS BYTES ZERO) | the Uint constants
//!
//! num-traits (`nt.<Trait>.<method>`):
//!   nt.Zero.zero | ZERO   nt.Zero.is_zero a | U::is_zero   nt.Zero.set_zero a (default) | ZERO
//!   nt.One.one | ONE      nt.One.is_one a (default) | a == ONE    nt.One.set_one a (default) | ONE
//!   nt.Bounded.min_value | ZERO   nt.Bounded.max_value | MAX
//!   nt.LowerBounded.min_value | ZERO   nt.UpperBounded.max_value | MAX  (blanket impls)
//!   nt.FromBytes.from_le_bytes / from_be_bytes / from_ne_bytes bytes | U::try_from_le/be/le_slice (Option) [unwrap]
//!   nt.ToBytes.to_le_bytes / to_be_bytes / to_ne_bytes a | U::to_le/be/le_bytes_vec
//!   nt.Checked{Add,Sub,Mul,Div,Rem}.checked_* a b | U::checked_*    nt.CheckedNeg.checked_neg a | U::checked_neg
//!   nt.CheckedShl.checked_shl / nt.CheckedShr.checked_shr a n (u32) | U::checked_shl/shr(a, n as usize)
//!   nt.CheckedEuclid.checked_div_euclid | U::checked_div   .checked_rem_euclid | U::checked_rem
//!   nt.CheckedEuclid.checked_div_rem_euclid (default) | checked_div zip checked_rem
//!   nt.Euclid.div_euclid | U::wrapping_div   .rem_euclid | U::wrapping_rem   .div_rem_euclid (default) | U::div_rem
//!   nt.Inv.inv a | U::inv_ring
//!   nt.MulAdd.mul_add a b c, nt.MulAddAssign.mul_add_assign a b c | wrapping_add(wrapping_mul(a,b),c)
//!   nt.Saturating.saturating_add / saturating_sub a b (by value) | U::same
//!   nt.Saturating{Add,Sub,Mul}.*, nt.Wrapping{Add,Sub,Mul}.*, nt.Overflowing{Add,Sub,Mul}.* a b | U::same
//!   nt.WrappingNeg.wrapping_neg a | U::wrapping_neg   nt.WrappingShl/Shr.wrapping_shl/shr a n (u32) | U::same
//!   nt.Num.from_str_radix n str (radix u32) | U::from_str_radix(str, radix as u64)
//!   nt.Pow.pow a b | U::pow
//!   nt.ToPrimitive.to_{i64,u64,i128,u128} and defaults to_{isize,i8,i16,i32,usize,u8,u16,u32} a
//!       | <T>::try_from(&a).ok()
//!   nt.FromPrimitive.from_{i64,u64,i128,u128} and defaults from_{isize,i8,i16,i32,usize,u8,u16,u32} k
//!       | U::try_from(k as T).ok()
//!   nt.NumCast.from.<T> k, T in {u8 u16 u32 u64 u128 usize i8 i16 i32 i64 i128 isize} | U::try_from(k as T).ok()
//!   nt.PrimInt.count_ones / count_zeros / leading_zeros / leading_ones / trailing_zeros / trailing_ones a
//!       (u32) | U::same (usize)
//!   nt.PrimInt.rotate_left / rotate_right a n (u32) | U::rotate_left/right(a, n as usize)
//!   nt.PrimInt.signed_shl / unsigned_shl a n | U::wrapping_shl   .unsigned_shr | U::wrapping_shr
//!   nt.PrimInt.signed_shr a n | U::arithmetic_shr
//!   nt.PrimInt.swap_bytes / to_be / from_be a | U::try_from_be_slice(reversed(to_be_bytes_vec)) (Option) [unwrap]
//!   nt.PrimInt.to_le / from_le a | a       nt.PrimInt.reverse_bits a | U::reverse_bits
//!   nt.PrimInt.pow a n (u32) | U::pow(a, e) with e = U::try_from(n as u32); `unrepresentable-exponent` when n does not fit
//!
//! num-integer (`ni.<method>`, args `a b` unless noted):
//!   ni.div_floor | U::wrapping_div   ni.mod_floor | U::wrapping_rem   ni.gcd | U::gcd
//!   ni.lcm | U::lcm (Option) [unwrap]     ni.gcd_lcm (default) | (U::gcd, U::lcm) (Option) [unwrap]
//!   ni.is_multiple_of, ni.divides (deprecated default) | if b==0 {a==0} else {wrapping_rem(a,b)==0}
//!   ni.is_even a | !U::bit(&a,0)   ni.is_odd a | U::bit(&a,0)
//!   ni.div_rem, ni.div_mod_floor | U::div_rem     ni.div_ceil | U::div_ceil
//!   ni.extended_gcd | first three components of U::gcd_extended
//!   ni.inc a | wrapping_add(a, ONE)    ni.dec a | wrapping_sub(a, ONE)
//!   ni.next_multiple_of (default) | U::next_multiple_of
//!   ni.prev_multiple_of (default) | wrapping_sub(a, wrapping_rem(a,b))
//!
//! subtle (`ct.*`):
//!   ct.eq a b (ct_eq) | a == b    ct.ne a b (ct_ne) | a != b    ct.gt a b | a > b    ct.lt a b | a < b
//!   ct.select a b c | if c {b} else {a}     ct.assign a b c (conditional_assign) | same
//!   ct.swap a b c (conditional_swap, prints both) | plain swap
//!   ct.negate a c (conditional_negate) | if c {wrapping_neg(a)} else {a}
//!   ct.bit a n (bit_ct) | U::bit(&a, n)
//!
//! Iterators: sum.v list (Sum<U>)  sum.r list (Sum<&U>) | fold(ZERO, wrapping_add)
//!            prod.v list  prod.r list | fold(ONE, wrapping_mul)
//! Zeroize:   zeroize.uint a | ZERO    zeroize.bits a | ZERO
#![allow(deprecated)]
#![allow(clippy::all)]

use num_integer as ni;
use num_traits as nt;
use std::panic::{catch_unwind, AssertUnwindSafe};
use vh::{b, bytes_hex, h, limbs_list, opt, parse_hex_bytes, parse_limbs_list, run_lines, u, Uint};

type U<const B: usize, const L: usize> = Uint<B, L>;
type Bt<const B: usize, const L: usize> = vh::ruint::Bits<B, L>;

// ------------------------------------------------------------------------------------------------
// plumbing

fn guard(f: &mut dyn FnMut() -> String) -> String {
    match catch_unwind(AssertUnwindSafe(|| f())) {
        Ok(s) => s,
        Err(_) => "panic".to_string(),
    }
}

fn both(f: &mut dyn FnMut() -> String, i: &mut dyn FnMut() -> String) -> String {
    let x = guard(f);
    let y = guard(i);
    format!("{x}|{y}")
}

/// `fi!(facade, inherent)`: both expressions evaluate to `String`, each in its own catch_unwind.
macro_rules! fi {
    ($f:expr, $i:expr) => {
        both(&mut || -> String { $f }, &mut || -> String { $i })
    };
}

fn bad() -> String {
    "bad-op".to_string()
}

fn hx<T: std::fmt::LowerHex>(x: T) -> String {
    format!("{x:x}")
}

fn ox<T: std::fmt::LowerHex>(x: Option<T>) -> String {
    match x {
        Some(v) => format!("some {v:x}"),
        None => "none".to_string(),
    }
}

fn fl<const B: usize, const L: usize>(x: (U<B, L>, bool)) -> String {
    format!("{} {}", h(&x.0), b(x.1))
}

fn pr<const B: usize, const L: usize>(x: (U<B, L>, U<B, L>)) -> String {
    format!("{} {}", h(&x.0), h(&x.1))
}

fn opr<const B: usize, const L: usize>(x: Option<(U<B, L>, U<B, L>)>) -> String {
    match x {
        Some(v) => format!("some {}", pr(v)),
        None => "none".to_string(),
    }
}

fn res<const B: usize, const L: usize, E: std::fmt::Debug>(x: Result<U<B, L>, E>) -> String {
    match x {
        Ok(v) => format!("ok {}", h(&v)),
        Err(e) => format!("err {}", format!("{e:?}").replace(' ', "")),
    }
}

fn hb<const B: usize, const L: usize>(x: Bt<B, L>) -> String {
    h(&x.into_inner())
}

fn optb<const B: usize, const L: usize>(x: Option<Bt<B, L>>) -> String {
    opt(x.map(Bt::into_inner))
}

fn n64(s: &str) -> u64 {
    u64::from_str_radix(s, 16).unwrap()
}

fn n128(s: &str) -> u128 {
    u128::from_str_radix(s, 16).unwrap()
}

fn text(s: &str) -> &str {
    if s == "EMPTY" {
        ""
    } else {
        s
    }
}

fn list<const B: usize, const L: usize>(s: &str) -> Vec<U<B, L>> {
    if s == "-" {
        vec![]
    } else {
        s.split(',').map(u::<B, L>).collect()
    }
}

/// limb-wise reference for `& | ^` (no inherent method exists)
fn limbwise<const B: usize, const L: usize>(x: &U<B, L>, y: &U<B, L>, f: fn(u64, u64) -> u64) -> U<B, L> {
    let mut l = [0u64; L];
    for i in 0..L {
        l[i] = f(x.as_limbs()[i], y.as_limbs()[i]);
    }
    U::from_limbs(l)
}

fn f_and(x: u64, y: u64) -> u64 {
    x & y
}
fn f_or(x: u64, y: u64) -> u64 {
    x | y
}
fn f_xor(x: u64, y: u64) -> u64 {
    x ^ y
}

/// the mathematically intended shift amount of a `Uint` operand: its value, saturated to usize::MAX
fn amount<const B: usize, const L: usize>(x: &U<B, L>) -> usize {
    let l = x.as_limbs();
    if l.iter().skip(1).any(|w| *w != 0) {
        return usize::MAX;
    }
    l.first().copied().unwrap_or(0) as usize
}

// ------------------------------------------------------------------------------------------------
// operators

fn run_bin<const B: usize, const L: usize>(p: &[&str]) -> String {
    let (name, shape) = match p[0].split_once('.') {
        Some(x) => x,
        None => return bad(),
    };
    let a: U<B, L> = u(p[2]);
    let c: U<B, L> = u(p[3]);
    macro_rules! shapes {
        ($op:tt, $opa:tt, $inh:expr) => {
            match shape {
                "vv" => fi!(h(&(a $op c)), h(&$inh)),
                "vr" => fi!({ if a == c { let r = &a; h(&(a $op r)) } else { h(&(a $op &c)) } }, h(&$inh)),
                "rv" => fi!(h(&(&a $op c)), h(&$inh)),
                // equal operands: both references point at the SAME object (aliasing)
                "rr" => fi!({ if a == c { let r = &a; h(&(r $op r)) } else { h(&(&a $op &c)) } }, h(&$inh)),
                "av" => fi!({ let mut x = a; x $opa c; h(&x) }, h(&$inh)),
                "ar" => fi!({ let mut x = a; x $opa &c; h(&x) }, h(&$inh)),
                _ => bad(),
            }
        };
    }
    match name {
        "add" => shapes!(+, +=, U::wrapping_add(a, c)),
        "sub" => shapes!(-, -=, U::wrapping_sub(a, c)),
        "mul" => shapes!(*, *=, U::wrapping_mul(a, c)),
        "div" => shapes!(/, /=, U::wrapping_div(a, c)),
        "rem" => shapes!(%, %=, U::wrapping_rem(a, c)),
        "and" => shapes!(&, &=, limbwise(&a, &c, f_and)),
        "or" => shapes!(|, |=, limbwise(&a, &c, f_or)),
        "xor" => shapes!(^, ^=, limbwise(&a, &c, f_xor)),
        _ => bad(),
    }
}

fn run_un<const B: usize, const L: usize>(p: &[&str]) -> String {
    let a: U<B, L> = u(p[2]);
    match p[0] {
        "neg.v" => fi!(h(&(-a)), h(&U::wrapping_neg(a))),
        "neg.r" => fi!(h(&(-&a)), h(&U::wrapping_neg(a))),
        "not.v" => fi!(h(&(!a)), h(&U::not(a))),
        "not.r" => fi!(h(&(!&a)), h(&U::not(a))),
        _ => bad(),
    }
}

fn run_shift<const B: usize, const L: usize>(p: &[&str]) -> String {
    let mut it = p[0].split('.');
    let (dir, ty, shape) = (it.next().unwrap_or(""), it.next().unwrap_or(""), it.next().unwrap_or(""));
    let a: U<B, L> = u(p[2]);
    let n = n64(p[3]);
    macro_rules! ty_arm {
        ($t:ty) => {{
            let k = n as $t;
            let amt = k as usize;
            match (dir, shape) {
                ("shl", "v") => fi!(h(&(a << k)), h(&U::wrapping_shl(a, amt))),
                ("shl", "r") => fi!(h(&(a << &k)), h(&U::wrapping_shl(a, amt))),
                ("shl", "av") => fi!({ let mut x = a; x <<= k; h(&x) }, h(&U::wrapping_shl(a, amt))),
                ("shl", "ar") => fi!({ let mut x = a; x <<= &k; h(&x) }, h(&U::wrapping_shl(a, amt))),
                ("shr", "v") => fi!(h(&(a >> k)), h(&U::wrapping_shr(a, amt))),
                ("shr", "r") => fi!(h(&(a >> &k)), h(&U::wrapping_shr(a, amt))),
                ("shr", "av") => fi!({ let mut x = a; x >>= k; h(&x) }, h(&U::wrapping_shr(a, amt))),
                ("shr", "ar") => fi!({ let mut x = a; x >>= &k; h(&x) }, h(&U::wrapping_shr(a, amt))),
                _ => bad(),
            }
        }};
    }
    match ty {
        "usize" => ty_arm!(usize),
        "u8" => ty_arm!(u8),
        "u16" => ty_arm!(u16),
        "u32" => ty_arm!(u32),
        "u64" => ty_arm!(u64),
        "isize" => ty_arm!(isize),
        "i8" => ty_arm!(i8),
        "i16" => ty_arm!(i16),
        "i32" => ty_arm!(i32),
        "i64" => ty_arm!(i64),
        _ => bad(),
    }
}

fn run_shiftu<const B: usize, const L: usize>(p: &[&str]) -> String {
    // shlU.<shape> or shlU.big.<shape>
    let parts: Vec<&str> = p[0].split('.').collect();
    let dir = parts[0];
    let shape = match parts.len() {
        2 => parts[1],
        3 if parts[1] == "big" => parts[2],
        _ => return bad(),
    };
    let a: U<B, L> = u(p[2]);
    let s: U<B, L> = u(p[3]);
    let amt = amount(&s);
    match (dir, shape) {
        ("shlU", "v") => fi!(h(&(a << s)), h(&U::wrapping_shl(a, amt))),
        ("shlU", "r") => fi!(h(&(a << &s)), h(&U::wrapping_shl(a, amt))),
        ("shlU", "av") => fi!({ let mut x = a; x <<= s; h(&x) }, h(&U::wrapping_shl(a, amt))),
        ("shlU", "ar") => fi!({ let mut x = a; x <<= &s; h(&x) }, h(&U::wrapping_shl(a, amt))),
        ("shrU", "v") => fi!(h(&(a >> s)), h(&U::wrapping_shr(a, amt))),
        ("shrU", "r") => fi!(h(&(a >> &s)), h(&U::wrapping_shr(a, amt))),
        ("shrU", "av") => fi!({ let mut x = a; x >>= s; h(&x) }, h(&U::wrapping_shr(a, amt))),
        ("shrU", "ar") => fi!({ let mut x = a; x >>= &s; h(&x) }, h(&U::wrapping_shr(a, amt))),
        _ => bad(),
    }
}

// ------------------------------------------------------------------------------------------------
// Bits wrapper

fn run_bits<const B: usize, const L: usize, const BY: usize>(p: &[&str]) -> String {
    let name = &p[0][5..];
    // ops without a Uint first operand
    match name {
        "try_from_be_slice" => {
            let v = parse_hex_bytes(p[2]);
            return fi!(optb(Bt::<B, L>::try_from_be_slice(&v)), opt(U::<B, L>::try_from_be_slice(&v)));
        }
        "try_from_le_slice" => {
            let v = parse_hex_bytes(p[2]);
            return fi!(optb(Bt::<B, L>::try_from_le_slice(&v)), opt(U::<B, L>::try_from_le_slice(&v)));
        }
        "from_str_radix" => {
            let r = n64(p[2]);
            let s = text(p[3]);
            return fi!(
                res(Bt::<B, L>::from_str_radix(s, r).map(Bt::into_inner)),
                res(U::<B, L>::from_str_radix(s, r))
            );
        }
        "from_str" => {
            let s = text(p[2]);
            return fi!(
                res(<Bt<B, L> as core::str::FromStr>::from_str(s).map(Bt::into_inner)),
                res(<U<B, L> as core::str::FromStr>::from_str(s))
            );
        }
        "from_be_bytes" | "from_le_bytes" => {
            let v = parse_hex_bytes(p[2]);
            let arr: [u8; BY] = v.as_slice().try_into().expect("bits.from_*_bytes needs exactly BYTES bytes");
            return if name == "from_be_bytes" {
                fi!(hb(Bt::<B, L>::from_be_bytes::<BY>(arr)), h(&U::<B, L>::from_be_bytes::<BY>(arr)))
            } else {
                fi!(hb(Bt::<B, L>::from_le_bytes::<BY>(arr)), h(&U::<B, L>::from_le_bytes::<BY>(arr)))
            };
        }
        "from_limbs" => {
            let v = parse_limbs_list(p[2]);
            let arr: [u64; L] = v.as_slice().try_into().expect("bits.from_limbs needs exactly LIMBS limbs");
            return fi!(hb(Bt::<B, L>::from_limbs(arr)), h(&U::<B, L>::from_limbs(arr)));
        }
        "default" => {
            return fi!(hb(<Bt<B, L> as Default>::default()), h(&U::<B, L>::ZERO));
        }
        "consts" => {
            return fi!(
                format!("{:x} {:x} {:x} {}", Bt::<B, L>::LIMBS, Bt::<B, L>::BITS, Bt::<B, L>::BYTES, hb(Bt::<B, L>::ZERO)),
                format!("{:x} {:x} {:x} {}", U::<B, L>::LIMBS, U::<B, L>::BITS, U::<B, L>::BYTES, h(&U::<B, L>::ZERO))
            );
        }
        _ => {}
    }
    let a: U<B, L> = u(p[2]);
    let ba: Bt<B, L> = Bt::from(a);
    // unary
    match name {
        "reverse_bits" => return fi!(hb(ba.reverse_bits()), h(&U::reverse_bits(a))),
        "as_le_bytes" => return fi!(bytes_hex(&ba.as_le_bytes()), bytes_hex(&U::as_le_bytes(&a))),
        "to_be_bytes_vec" => return fi!(bytes_hex(&ba.to_be_bytes_vec()), bytes_hex(&U::to_be_bytes_vec(&a))),
        "to_le_bytes" => return fi!(bytes_hex(&ba.to_le_bytes::<BY>()), bytes_hex(&U::to_le_bytes::<BY>(&a))),
        "to_be_bytes" => return fi!(bytes_hex(&ba.to_be_bytes::<BY>()), bytes_hex(&U::to_be_bytes::<BY>(&a))),
        "leading_zeros" => return fi!(hx(ba.leading_zeros()), hx(U::leading_zeros(&a))),
        "leading_ones" => return fi!(hx(ba.leading_ones()), hx(U::leading_ones(&a))),
        "trailing_zeros" => return fi!(hx(ba.trailing_zeros()), hx(U::trailing_zeros(&a))),
        "trailing_ones" => return fi!(hx(ba.trailing_ones()), hx(U::trailing_ones(&a))),
        "as_limbs" => return fi!(limbs_list(ba.as_limbs()), limbs_list(U::as_limbs(&a))),
        "as_limbs_mut" => {
            return fi!(
                {
                    let mut x = ba;
                    {
                        let l = unsafe { x.as_limbs_mut() };
                        if let Some(w) = l.first_mut() {
                            *w ^= 1;
                        }
                    }
                    hb(x)
                },
                {
                    let mut y = a;
                    {
                        let l = unsafe { U::as_limbs_mut(&mut y) };
                        if let Some(w) = l.first_mut() {
                            *w ^= 1;
                        }
                    }
                    h(&y)
                }
            )
        }
        "into_inner" => return fi!(h(&ba.into_inner()), h(&a)),
        "as_uint" => return fi!(h(ba.as_uint()), h(&a)),
        "not.v" => return fi!(hb(!ba), h(&U::not(a))),
        "not.r" => return fi!(hb(!&ba), h(&U::not(a))),
        "from_uint" => {
            return fi!(
                h(&<U<B, L> as From<Bt<B, L>>>::from(<Bt<B, L> as From<U<B, L>>>::from(a))),
                h(&a)
            )
        }
        _ => {}
    }
    // (Bits, usize)
    match name {
        "checked_shl" | "checked_shr" | "overflowing_shl" | "overflowing_shr" | "wrapping_shl" | "wrapping_shr"
        | "rotate_left" | "rotate_right" | "index" | "shl.vv" | "shl.rv" | "shl.vr" | "shl.rr" | "shl.av"
        | "shl.ar" | "shr.vv" | "shr.rv" | "shr.vr" | "shr.rr" | "shr.av" | "shr.ar" => {
            let n = n64(p[3]) as usize;
            return match name {
                "checked_shl" => fi!(optb(ba.checked_shl(n)), opt(U::checked_shl(a, n))),
                "checked_shr" => fi!(optb(ba.checked_shr(n)), opt(U::checked_shr(a, n))),
                "overflowing_shl" => fi!(
                    {
                        let (v, f) = ba.overflowing_shl(n);
                        fl((v.into_inner(), f))
                    },
                    fl(U::overflowing_shl(a, n))
                ),
                "overflowing_shr" => fi!(
                    {
                        let (v, f) = ba.overflowing_shr(n);
                        fl((v.into_inner(), f))
                    },
                    fl(U::overflowing_shr(a, n))
                ),
                "wrapping_shl" => fi!(hb(ba.wrapping_shl(n)), h(&U::wrapping_shl(a, n))),
                "wrapping_shr" => fi!(hb(ba.wrapping_shr(n)), h(&U::wrapping_shr(a, n))),
                "rotate_left" => fi!(hb(ba.rotate_left(n)), h(&U::rotate_left(a, n))),
                "rotate_right" => fi!(hb(ba.rotate_right(n)), h(&U::rotate_right(a, n))),
                "index" => fi!(b(ba[n]).to_string(), b(U::bit(&a, n)).to_string()),
                "shl.vv" => fi!(hb(ba << n), h(&U::wrapping_shl(a, n))),
                "shl.rv" => fi!(hb(&ba << n), h(&U::wrapping_shl(a, n))),
                "shl.vr" => fi!(hb(ba << &n), h(&U::wrapping_shl(a, n))),
                "shl.rr" => fi!(hb(&ba << &n), h(&U::wrapping_shl(a, n))),
                "shl.av" => fi!({ let mut x = ba; x <<= n; hb(x) }, h(&U::wrapping_shl(a, n))),
                "shl.ar" => fi!({ let mut x = ba; x <<= &n; hb(x) }, h(&U::wrapping_shl(a, n))),
                "shr.vv" => fi!(hb(ba >> n), h(&U::wrapping_shr(a, n))),
                "shr.rv" => fi!(hb(&ba >> n), h(&U::wrapping_shr(a, n))),
                "shr.vr" => fi!(hb(ba >> &n), h(&U::wrapping_shr(a, n))),
                "shr.rr" => fi!(hb(&ba >> &n), h(&U::wrapping_shr(a, n))),
                "shr.av" => fi!({ let mut x = ba; x >>= n; hb(x) }, h(&U::wrapping_shr(a, n))),
                "shr.ar" => fi!({ let mut x = ba; x >>= &n; hb(x) }, h(&U::wrapping_shr(a, n))),
                _ => bad(),
            };
        }
        _ => {}
    }
    // (Bits, Bits)
    let c: U<B, L> = u(p[3]);
    let bc: Bt<B, L> = Bt::from(c);
    macro_rules! shapes {
        ($shape:expr, $op:tt, $opa:tt, $f:expr) => {
            match $shape {
                "vv" => fi!(hb(ba $op bc), h(&limbwise(&a, &c, $f))),
                "vr" => fi!(hb(ba $op &bc), h(&limbwise(&a, &c, $f))),
                "rv" => fi!(hb(&ba $op bc), h(&limbwise(&a, &c, $f))),
                "rr" => fi!(hb(&ba $op &bc), h(&limbwise(&a, &c, $f))),
                "av" => fi!({ let mut x = ba; x $opa bc; hb(x) }, h(&limbwise(&a, &c, $f))),
                "ar" => fi!({ let mut x = ba; x $opa &bc; hb(x) }, h(&limbwise(&a, &c, $f))),
                _ => bad(),
            }
        };
    }
    match name {
        "as_uint_mut" => fi!(
            {
                let mut x = ba;
                *x.as_uint_mut() = c;
                hb(x)
            },
            h(&c)
        ),
        "eq" => fi!(b(ba == bc).to_string(), b(a == c).to_string()),
        _ => match name.split_once('.') {
            Some(("and", s)) => shapes!(s, &, &=, f_and),
            Some(("or", s)) => shapes!(s, |, |=, f_or),
            Some(("xor", s)) => shapes!(s, ^, ^=, f_xor),
            _ => bad(),
        },
    }
}

// ------------------------------------------------------------------------------------------------
// num-traits: arithmetic traits

fn run_nt_arith<const B: usize, const L: usize>(p: &[&str]) -> String {
    let name = &p[0][3..];
    let a: U<B, L> = u(p[2]);
    // unary and (Uint, u32)
    match name {
        "CheckedNeg.checked_neg" => {
            return fi!(opt(<U<B, L> as nt::CheckedNeg>::checked_neg(&a)), opt(U::checked_neg(a)))
        }
        "WrappingNeg.wrapping_neg" => {
            return fi!(h(&<U<B, L> as nt::WrappingNeg>::wrapping_neg(&a)), h(&U::wrapping_neg(a)))
        }
        "Inv.inv" => return fi!(opt(<U<B, L> as nt::Inv>::inv(a)), opt(U::inv_ring(a))),
        "CheckedShl.checked_shl" => {
            let n = n64(p[3]) as u32;
            return fi!(opt(<U<B, L> as nt::CheckedShl>::checked_shl(&a, n)), opt(U::checked_shl(a, n as usize)));
        }
        "CheckedShr.checked_shr" => {
            let n = n64(p[3]) as u32;
            return fi!(opt(<U<B, L> as nt::CheckedShr>::checked_shr(&a, n)), opt(U::checked_shr(a, n as usize)));
        }
        "WrappingShl.wrapping_shl" => {
            let n = n64(p[3]) as u32;
            return fi!(h(&<U<B, L> as nt::WrappingShl>::wrapping_shl(&a, n)), h(&U::wrapping_shl(a, n as usize)));
        }
        "WrappingShr.wrapping_shr" => {
            let n = n64(p[3]) as u32;
            return fi!(h(&<U<B, L> as nt::WrappingShr>::wrapping_shr(&a, n)), h(&U::wrapping_shr(a, n as usize)));
        }
        _ => {}
    }
    let c: U<B, L> = u(p[3]);
    // by-reference binary traits
    macro_rules! r2o {
        ($tr:path, $m:ident, $inh:ident) => {
            fi!(opt(<U<B, L> as $tr>::$m(&a, &c)), opt(U::$inh(a, c)))
        };
    }
    macro_rules! r2v {
        ($tr:path, $m:ident, $inh:ident) => {
            fi!(h(&<U<B, L> as $tr>::$m(&a, &c)), h(&U::$inh(a, c)))
        };
    }
    macro_rules! r2f {
        ($tr:path, $m:ident, $inh:ident) => {
            fi!(fl(<U<B, L> as $tr>::$m(&a, &c)), fl(U::$inh(a, c)))
        };
    }
    match name {
        "CheckedAdd.checked_add" => return r2o!(nt::CheckedAdd, checked_add, checked_add),
        "CheckedSub.checked_sub" => return r2o!(nt::CheckedSub, checked_sub, checked_sub),
        "CheckedMul.checked_mul" => return r2o!(nt::CheckedMul, checked_mul, checked_mul),
        "CheckedDiv.checked_div" => return r2o!(nt::CheckedDiv, checked_div, checked_div),
        "CheckedRem.checked_rem" => return r2o!(nt::CheckedRem, checked_rem, checked_rem),
        "CheckedEuclid.checked_div_euclid" => return r2o!(nt::CheckedEuclid, checked_div_euclid, checked_div),
        "CheckedEuclid.checked_rem_euclid" => return r2o!(nt::CheckedEuclid, checked_rem_euclid, checked_rem),
        "CheckedEuclid.checked_div_rem_euclid" => {
            return fi!(
                opr(<U<B, L> as nt::CheckedEuclid>::checked_div_rem_euclid(&a, &c)),
                opr(U::checked_div(a, c).zip(U::checked_rem(a, c)))
            )
        }
        "Euclid.div_euclid" => return r2v!(nt::Euclid, div_euclid, wrapping_div),
        "Euclid.rem_euclid" => return r2v!(nt::Euclid, rem_euclid, wrapping_rem),
        "Euclid.div_rem_euclid" => {
            return fi!(pr(<U<B, L> as nt::Euclid>::div_rem_euclid(&a, &c)), pr(U::div_rem(a, c)))
        }
        "Saturating.saturating_add" => {
            return fi!(h(&<U<B, L> as nt::Saturating>::saturating_add(a, c)), h(&U::saturating_add(a, c)))
        }
        "Saturating.saturating_sub" => {
            return fi!(h(&<U<B, L> as nt::Saturating>::saturating_sub(a, c)), h(&U::saturating_sub(a, c)))
        }
        "SaturatingAdd.saturating_add" => return r2v!(nt::SaturatingAdd, saturating_add, saturating_add),
        "SaturatingSub.saturating_sub" => return r2v!(nt::SaturatingSub, saturating_sub, saturating_sub),
        "SaturatingMul.saturating_mul" => return r2v!(nt::SaturatingMul, saturating_mul, saturating_mul),
        "WrappingAdd.wrapping_add" => return r2v!(nt::WrappingAdd, wrapping_add, wrapping_add),
        "WrappingSub.wrapping_sub" => return r2v!(nt::WrappingSub, wrapping_sub, wrapping_sub),
        "WrappingMul.wrapping_mul" => return r2v!(nt::WrappingMul, wrapping_mul, wrapping_mul),
        "OverflowingAdd.overflowing_add" => {
            return r2f!(nt::ops::overflowing::OverflowingAdd, overflowing_add, overflowing_add)
        }
        "OverflowingSub.overflowing_sub" => {
            return r2f!(nt::ops::overflowing::OverflowingSub, overflowing_sub, overflowing_sub)
        }
        "OverflowingMul.overflowing_mul" => {
            return r2f!(nt::ops::overflowing::OverflowingMul, overflowing_mul, overflowing_mul)
        }
        "Pow.pow" => return fi!(h(&<U<B, L> as nt::Pow<U<B, L>>>::pow(a, c)), h(&U::pow(a, c))),
        _ => {}
    }
    let d: U<B, L> = u(p[4]);
    match name {
        "MulAdd.mul_add" => fi!(
            h(&<U<B, L> as nt::MulAdd>::mul_add(a, c, d)),
            h(&U::wrapping_add(U::wrapping_mul(a, c), d))
        ),
        "MulAddAssign.mul_add_assign" => fi!(
            {
                let mut x = a;
                <U<B, L> as nt::MulAddAssign>::mul_add_assign(&mut x, c, d);
                h(&x)
            },
            h(&U::wrapping_add(U::wrapping_mul(a, c), d))
        ),
        _ => bad(),
    }
}

// ------------------------------------------------------------------------------------------------
// num-traits: identities, bounds, casts, bytes, strings

fn run_nt_conv<const B: usize, const L: usize>(p: &[&str]) -> String {
    let name = &p[0][3..];
    match name {
        "Zero.zero" => return fi!(h(&<U<B, L> as nt::Zero>::zero()), h(&U::<B, L>::ZERO)),
        "One.one" => return fi!(h(&<U<B, L> as nt::One>::one()), h(&U::<B, L>::ONE)),
        "Bounded.min_value" => return fi!(h(&<U<B, L> as nt::Bounded>::min_value()), h(&U::<B, L>::ZERO)),
        "Bounded.max_value" => return fi!(h(&<U<B, L> as nt::Bounded>::max_value()), h(&U::<B, L>::MAX)),
        "LowerBounded.min_value" => {
            return fi!(h(&<U<B, L> as nt::bounds::LowerBounded>::min_value()), h(&U::<B, L>::ZERO))
        }
        "UpperBounded.max_value" => {
            return fi!(h(&<U<B, L> as nt::bounds::UpperBounded>::max_value()), h(&U::<B, L>::MAX))
        }
        "FromBytes.from_le_bytes" => {
            let v = parse_hex_bytes(p[2]);
            return fi!(h(&<U<B, L> as nt::FromBytes>::from_le_bytes(&v)), opt(U::<B, L>::try_from_le_slice(&v)));
        }
        "FromBytes.from_be_bytes" => {
            let v = parse_hex_bytes(p[2]);
            return fi!(h(&<U<B, L> as nt::FromBytes>::from_be_bytes(&v)), opt(U::<B, L>::try_from_be_slice(&v)));
        }
        "FromBytes.from_ne_bytes" => {
            let v = parse_hex_bytes(p[2]);
            return fi!(
                h(&<U<B, L> as nt::FromBytes>::from_ne_bytes(&v)),
                if cfg!(target_endian = "little") {
                    opt(U::<B, L>::try_from_le_slice(&v))
                } else {
                    opt(U::<B, L>::try_from_be_slice(&v))
                }
            );
        }
        "Num.from_str_radix" => {
            let r = n64(p[2]) as u32;
            let s = text(p[3]);
            return fi!(
                res(<U<B, L> as nt::Num>::from_str_radix(s, r)),
                res(U::<B, L>::from_str_radix(s, r as u64))
            );
        }
        _ => {}
    }
    if let Some(m) = name.strip_prefix("FromPrimitive.") {
        let n = n128(p[2]);
        macro_rules! frpr {
            ($m:ident, $t:ty) => {{
                let k = n as $t;
                fi!(opt(<U<B, L> as nt::FromPrimitive>::$m(k)), opt(U::<B, L>::try_from(k).ok()))
            }};
        }
        return match m {
            "from_i64" => frpr!(from_i64, i64),
            "from_u64" => frpr!(from_u64, u64),
            "from_i128" => frpr!(from_i128, i128),
            "from_u128" => frpr!(from_u128, u128),
            "from_isize" => frpr!(from_isize, isize),
            "from_i8" => frpr!(from_i8, i8),
            "from_i16" => frpr!(from_i16, i16),
            "from_i32" => frpr!(from_i32, i32),
            "from_usize" => frpr!(from_usize, usize),
            "from_u8" => frpr!(from_u8, u8),
            "from_u16" => frpr!(from_u16, u16),
            "from_u32" => frpr!(from_u32, u32),
            _ => bad(),
        };
    }
    if let Some(t) = name.strip_prefix("NumCast.from.") {
        let n = n128(p[2]);
        macro_rules! cast {
            ($t:ty) => {{
                let k = n as $t;
                fi!(opt(<U<B, L> as nt::NumCast>::from(k)), opt(U::<B, L>::try_from(k).ok()))
            }};
        }
        return match t {
            "u8" => cast!(u8),
            "u16" => cast!(u16),
            "u32" => cast!(u32),
            "u64" => cast!(u64),
            "u128" => cast!(u128),
            "usize" => cast!(usize),
            "i8" => cast!(i8),
            "i16" => cast!(i16),
            "i32" => cast!(i32),
            "i64" => cast!(i64),
            "i128" => cast!(i128),
            "isize" => cast!(isize),
            _ => bad(),
        };
    }
    let a: U<B, L> = u(p[2]);
    if let Some(m) = name.strip_prefix("ToPrimitive.") {
        macro_rules! topr {
            ($m:ident, $t:ty) => {
                fi!(ox(<U<B, L> as nt::ToPrimitive>::$m(&a)), ox(<$t>::try_from(&a).ok()))
            };
        }
        return match m {
            "to_i64" => topr!(to_i64, i64),
            "to_u64" => topr!(to_u64, u64),
            "to_i128" => topr!(to_i128, i128),
            "to_u128" => topr!(to_u128, u128),
            "to_isize" => topr!(to_isize, isize),
            "to_i8" => topr!(to_i8, i8),
            "to_i16" => topr!(to_i16, i16),
            "to_i32" => topr!(to_i32, i32),
            "to_usize" => topr!(to_usize, usize),
            "to_u8" => topr!(to_u8, u8),
            "to_u16" => topr!(to_u16, u16),
            "to_u32" => topr!(to_u32, u32),
            _ => bad(),
        };
    }
    match name {
        "Zero.is_zero" => fi!(b(<U<B, L> as nt::Zero>::is_zero(&a)).to_string(), b(U::is_zero(&a)).to_string()),
        "Zero.set_zero" => fi!(
            {
                let mut x = a;
                <U<B, L> as nt::Zero>::set_zero(&mut x);
                h(&x)
            },
            h(&U::<B, L>::ZERO)
        ),
        "One.is_one" => fi!(b(<U<B, L> as nt::One>::is_one(&a)).to_string(), b(a == U::<B, L>::ONE).to_string()),
        "One.set_one" => fi!(
            {
                let mut x = a;
                <U<B, L> as nt::One>::set_one(&mut x);
                h(&x)
            },
            h(&U::<B, L>::ONE)
        ),
        "ToBytes.to_le_bytes" => {
            fi!(bytes_hex(&<U<B, L> as nt::ToBytes>::to_le_bytes(&a)), bytes_hex(&U::to_le_bytes_vec(&a)))
        }
        "ToBytes.to_be_bytes" => {
            fi!(bytes_hex(&<U<B, L> as nt::ToBytes>::to_be_bytes(&a)), bytes_hex(&U::to_be_bytes_vec(&a)))
        }
        "ToBytes.to_ne_bytes" => fi!(
            bytes_hex(&<U<B, L> as nt::ToBytes>::to_ne_bytes(&a)),
            if cfg!(target_endian = "little") {
                bytes_hex(&U::to_le_bytes_vec(&a))
            } else {
                bytes_hex(&U::to_be_bytes_vec(&a))
            }
        ),
        _ => bad(),
    }
}

// ------------------------------------------------------------------------------------------------
// num-traits: PrimInt

fn run_nt_prim<const B: usize, const L: usize>(p: &[&str]) -> String {
    let name = &p[0][3..];
    let a: U<B, L> = u(p[2]);
    let swapped = |x: &U<B, L>| -> String {
        let mut v = U::to_be_bytes_vec(x);
        v.reverse();
        opt(U::<B, L>::try_from_be_slice(&v))
    };
    match name {
        "PrimInt.count_ones" => return fi!(hx(<U<B, L> as nt::PrimInt>::count_ones(a)), hx(U::count_ones(&a))),
        "PrimInt.count_zeros" => return fi!(hx(<U<B, L> as nt::PrimInt>::count_zeros(a)), hx(U::count_zeros(&a))),
        "PrimInt.leading_zeros" => {
            return fi!(hx(<U<B, L> as nt::PrimInt>::leading_zeros(a)), hx(U::leading_zeros(&a)))
        }
        "PrimInt.leading_ones" => return fi!(hx(<U<B, L> as nt::PrimInt>::leading_ones(a)), hx(U::leading_ones(&a))),
        "PrimInt.trailing_zeros" => {
            return fi!(hx(<U<B, L> as nt::PrimInt>::trailing_zeros(a)), hx(U::trailing_zeros(&a)))
        }
        "PrimInt.trailing_ones" => {
            return fi!(hx(<U<B, L> as nt::PrimInt>::trailing_ones(a)), hx(U::trailing_ones(&a)))
        }
        "PrimInt.swap_bytes" => return fi!(h(&<U<B, L> as nt::PrimInt>::swap_bytes(a)), swapped(&a)),
        "PrimInt.to_be" => {
            return fi!(
                h(&<U<B, L> as nt::PrimInt>::to_be(a)),
                if cfg!(target_endian = "little") { swapped(&a) } else { opt(Some(a)) }
            )
        }
        "PrimInt.from_be" => {
            return fi!(
                h(&<U<B, L> as nt::PrimInt>::from_be(a)),
                if cfg!(target_endian = "little") { swapped(&a) } else { opt(Some(a)) }
            )
        }
        "PrimInt.to_le" => {
            return fi!(
                h(&<U<B, L> as nt::PrimInt>::to_le(a)),
                if cfg!(target_endian = "little") { h(&a) } else { "big-endian-host".to_string() }
            )
        }
        "PrimInt.from_le" => {
            return fi!(
                h(&<U<B, L> as nt::PrimInt>::from_le(a)),
                if cfg!(target_endian = "little") { h(&a) } else { "big-endian-host".to_string() }
            )
        }
        "PrimInt.reverse_bits" => return fi!(h(&<U<B, L> as nt::PrimInt>::reverse_bits(a)), h(&U::reverse_bits(a))),
        _ => {}
    }
    let n = n64(p[3]) as u32;
    match name {
        "PrimInt.rotate_left" => fi!(h(&<U<B, L> as nt::PrimInt>::rotate_left(a, n)), h(&U::rotate_left(a, n as usize))),
        "PrimInt.rotate_right" => {
            fi!(h(&<U<B, L> as nt::PrimInt>::rotate_right(a, n)), h(&U::rotate_right(a, n as usize)))
        }
        "PrimInt.signed_shl" => fi!(h(&<U<B, L> as nt::PrimInt>::signed_shl(a, n)), h(&U::wrapping_shl(a, n as usize))),
        "PrimInt.unsigned_shl" => {
            fi!(h(&<U<B, L> as nt::PrimInt>::unsigned_shl(a, n)), h(&U::wrapping_shl(a, n as usize)))
        }
        "PrimInt.signed_shr" => fi!(h(&<U<B, L> as nt::PrimInt>::signed_shr(a, n)), h(&U::arithmetic_shr(a, n as usize))),
        "PrimInt.unsigned_shr" => {
            fi!(h(&<U<B, L> as nt::PrimInt>::unsigned_shr(a, n)), h(&U::wrapping_shr(a, n as usize)))
        }
        // the inherent `pow` takes a `Uint` exponent: when `n` is not representable at this width the
        // I side says so, and the driver judges F against the value `a^n mod 2^BITS` instead
        "PrimInt.pow" => fi!(
            h(&<U<B, L> as nt::PrimInt>::pow(a, n)),
            match <U<B, L> as TryFrom<u32>>::try_from(n) {
                Ok(e) => h(&U::pow(a, e)),
                Err(_) => "unrepresentable-exponent".to_string(),
            }
        ),
        _ => bad(),
    }
}

// ------------------------------------------------------------------------------------------------
// num-integer

fn run_ni<const B: usize, const L: usize>(p: &[&str]) -> String {
    let name = &p[0][3..];
    let a: U<B, L> = u(p[2]);
    match name {
        "is_even" => return fi!(b(<U<B, L> as ni::Integer>::is_even(&a)).to_string(), b(!U::bit(&a, 0)).to_string()),
        "is_odd" => return fi!(b(<U<B, L> as ni::Integer>::is_odd(&a)).to_string(), b(U::bit(&a, 0)).to_string()),
        "inc" => {
            return fi!(
                {
                    let mut x = a;
                    <U<B, L> as ni::Integer>::inc(&mut x);
                    h(&x)
                },
                h(&U::wrapping_add(a, U::<B, L>::ONE))
            )
        }
        "dec" => {
            return fi!(
                {
                    let mut x = a;
                    <U<B, L> as ni::Integer>::dec(&mut x);
                    h(&x)
                },
                h(&U::wrapping_sub(a, U::<B, L>::ONE))
            )
        }
        _ => {}
    }
    let c: U<B, L> = u(p[3]);
    let mult = |x: U<B, L>, y: U<B, L>| -> bool {
        if y == U::<B, L>::ZERO {
            x == U::<B, L>::ZERO
        } else {
            U::wrapping_rem(x, y) == U::<B, L>::ZERO
        }
    };
    match name {
        "div_floor" => fi!(h(&<U<B, L> as ni::Integer>::div_floor(&a, &c)), h(&U::wrapping_div(a, c))),
        "mod_floor" => fi!(h(&<U<B, L> as ni::Integer>::mod_floor(&a, &c)), h(&U::wrapping_rem(a, c))),
        "gcd" => fi!(h(&<U<B, L> as ni::Integer>::gcd(&a, &c)), h(&U::gcd(a, c))),
        "lcm" => fi!(h(&<U<B, L> as ni::Integer>::lcm(&a, &c)), opt(U::lcm(a, c))),
        "gcd_lcm" => fi!(
            pr(<U<B, L> as ni::Integer>::gcd_lcm(&a, &c)),
            {
                let g = U::gcd(a, c);
                opr(U::lcm(a, c).map(|l| (g, l)))
            }
        ),
        "is_multiple_of" => {
            fi!(b(<U<B, L> as ni::Integer>::is_multiple_of(&a, &c)).to_string(), b(mult(a, c)).to_string())
        }
        "divides" => fi!(b(<U<B, L> as ni::Integer>::divides(&a, &c)).to_string(), b(mult(a, c)).to_string()),
        "div_rem" => fi!(pr(<U<B, L> as ni::Integer>::div_rem(&a, &c)), pr(U::div_rem(a, c))),
        "div_mod_floor" => fi!(pr(<U<B, L> as ni::Integer>::div_mod_floor(&a, &c)), pr(U::div_rem(a, c))),
        "div_ceil" => fi!(h(&<U<B, L> as ni::Integer>::div_ceil(&a, &c)), h(&U::div_ceil(a, c))),
        "extended_gcd" => fi!(
            {
                let e = <U<B, L> as ni::Integer>::extended_gcd(&a, &c);
                format!("{} {} {}", h(&e.gcd), h(&e.x), h(&e.y))
            },
            {
                let (g, x, y, _s) = U::gcd_extended(a, c);
                format!("{} {} {}", h(&g), h(&x), h(&y))
            }
        ),
        "next_multiple_of" => {
            fi!(h(&<U<B, L> as ni::Integer>::next_multiple_of(&a, &c)), h(&U::next_multiple_of(a, c)))
        }
        "prev_multiple_of" => fi!(
            h(&<U<B, L> as ni::Integer>::prev_multiple_of(&a, &c)),
            h(&U::wrapping_sub(a, U::wrapping_rem(a, c)))
        ),
        _ => bad(),
    }
}

// ------------------------------------------------------------------------------------------------
// subtle

fn run_ct<const B: usize, const L: usize>(p: &[&str]) -> String {
    let name = &p[0][3..];
    let a: U<B, L> = u(p[2]);
    let choice = |s: &str| -> (subtle::Choice, bool) {
        let c = n64(s) != 0;
        (subtle::Choice::from(c as u8), c)
    };
    match name {
        "bit" => {
            let i = n64(p[3]) as usize;
            return fi!(b(bool::from(U::bit_ct(&a, i))).to_string(), b(U::bit(&a, i)).to_string());
        }
        "negate" => {
            let (ch, c) = choice(p[3]);
            return fi!(
                {
                    let mut x = a;
                    <U<B, L> as subtle::ConditionallyNegatable>::conditional_negate(&mut x, ch);
                    h(&x)
                },
                h(&if c { U::wrapping_neg(a) } else { a })
            );
        }
        _ => {}
    }
    let c: U<B, L> = u(p[3]);
    match name {
        "eq" => {
            return fi!(
                b(<U<B, L> as subtle::ConstantTimeEq>::ct_eq(&a, &c).unwrap_u8() == 1).to_string(),
                b(a == c).to_string()
            )
        }
        "ne" => {
            return fi!(
                b(<U<B, L> as subtle::ConstantTimeEq>::ct_ne(&a, &c).unwrap_u8() == 1).to_string(),
                b(a != c).to_string()
            )
        }
        "gt" => {
            return fi!(
                b(bool::from(<U<B, L> as subtle::ConstantTimeGreater>::ct_gt(&a, &c))).to_string(),
                b(a > c).to_string()
            )
        }
        "lt" => {
            return fi!(
                b(bool::from(<U<B, L> as subtle::ConstantTimeLess>::ct_lt(&a, &c))).to_string(),
                b(a < c).to_string()
            )
        }
        _ => {}
    }
    let (ch, cb) = choice(p[4]);
    match name {
        "select" => fi!(
            h(&<U<B, L> as subtle::ConditionallySelectable>::conditional_select(&a, &c, ch)),
            h(&if cb { c } else { a })
        ),
        "assign" => fi!(
            {
                let mut x = a;
                <U<B, L> as subtle::ConditionallySelectable>::conditional_assign(&mut x, &c, ch);
                h(&x)
            },
            h(&if cb { c } else { a })
        ),
        "swap" => fi!(
            {
                let (mut x, mut y) = (a, c);
                <U<B, L> as subtle::ConditionallySelectable>::conditional_swap(&mut x, &mut y, ch);
                pr((x, y))
            },
            pr(if cb { (c, a) } else { (a, c) })
        ),
        _ => bad(),
    }
}

// ------------------------------------------------------------------------------------------------
// Sum / Product / Zeroize

fn run_misc<const B: usize, const L: usize>(p: &[&str]) -> String {
    match p[0] {
        "zeroize.uint" => {
            let a: U<B, L> = u(p[2]);
            return fi!(
                {
                    let mut x = a;
                    <U<B, L> as zeroize::Zeroize>::zeroize(&mut x);
                    h(&x)
                },
                h(&U::<B, L>::ZERO)
            );
        }
        "zeroize.bits" => {
            let a: U<B, L> = u(p[2]);
            return fi!(
                {
                    let mut x: Bt<B, L> = Bt::from(a);
                    <Bt<B, L> as zeroize::Zeroize>::zeroize(&mut x);
                    hb(x)
                },
                h(&U::<B, L>::ZERO)
            );
        }
        _ => {}
    }
    let xs: Vec<U<B, L>> = list(p[2]);
    let isum = |xs: &[U<B, L>]| h(&xs.iter().fold(U::<B, L>::ZERO, |s, x| U::wrapping_add(s, *x)));
    let iprod = |xs: &[U<B, L>]| h(&xs.iter().fold(U::<B, L>::ONE, |s, x| U::wrapping_mul(s, *x)));
    match p[0] {
        "sum.v" => fi!(h(&<U<B, L> as core::iter::Sum<U<B, L>>>::sum(xs.clone().into_iter())), isum(&xs)),
        "sum.r" => fi!(h(&<U<B, L> as core::iter::Sum<&U<B, L>>>::sum(xs.iter())), isum(&xs)),
        "prod.v" => fi!(h(&<U<B, L> as core::iter::Product<U<B, L>>>::product(xs.clone().into_iter())), iprod(&xs)),
        "prod.r" => fi!(h(&<U<B, L> as core::iter::Product<&U<B, L>>>::product(xs.iter())), iprod(&xs)),
        _ => bad(),
    }
}

// ------------------------------------------------------------------------------------------------

macro_rules! disp {
    ($bits:expr, $f:ident, $p:expr) => {
        vh::dispatch_bits!($bits, $f, ($p), [0, 1, 7, 8, 12, 60, 63, 64, 65, 100, 128, 160, 250, 256, 512])
    };
}

macro_rules! disp3 {
    ($bits:expr, $f:ident, $p:expr, [$($b:literal),*]) => {
        match $bits {
            $( $b => $f::<$b, { ($b + 63) / 64 }, { ($b + 7) / 8 }>($p), )*
            _ => "unsupported-width".to_string(),
        }
    };
}

fn main() {
    run_lines(|p| {
        if p.len() < 2 {
            return bad();
        }
        let bits: usize = match p[1].parse() {
            Ok(x) => x,
            Err(_) => return bad(),
        };
        let mut it = p[0].split('.');
        let fam = it.next().unwrap_or("");
        let second = it.next().unwrap_or("");
        match fam {
            "add" | "sub" | "mul" | "div" | "rem" | "and" | "or" | "xor" => disp!(bits, run_bin, p),
            "neg" | "not" => disp!(bits, run_un, p),
            "shl" | "shr" => disp!(bits, run_shift, p),
            "shlU" | "shrU" => disp!(bits, run_shiftu, p),
            "bits" => disp3!(bits, run_bits, p, [0, 1, 7, 8, 12, 60, 63, 64, 65, 100, 128, 160, 250, 256, 512]),
            "nt" => match second {
                "PrimInt" => disp!(bits, run_nt_prim, p),
                "Zero" | "One" | "Bounded" | "LowerBounded" | "UpperBounded" | "FromBytes" | "ToBytes" | "Num"
                | "ToPrimitive" | "FromPrimitive" | "NumCast" => disp!(bits, run_nt_conv, p),
                _ => disp!(bits, run_nt_arith, p),
            },
            "ni" => disp!(bits, run_ni, p),
            "ct" => disp!(bits, run_ct, p),
            "sum" | "prod" | "zeroize" => disp!(bits, run_misc, p),
            _ => bad(),
        }
    });
}
