//! Shared plumbing for the correspondence harness binaries (one per property).
//!
//! Protocol: one case per stdin line, `op bits arg...`; one canonical result line per case on stdout.
//! Numbers travel as big-endian hex without prefix. A `Uint` result is always printed from
//! `as_limbs()` (never via `Display`), so a non-canonical top limb is visible as a value >= 2^BITS.

use std::io::{BufRead, Write};
use std::panic::{catch_unwind, AssertUnwindSafe};

pub use ruint;
pub use ruint::Uint;

/// Parse big-endian hex into `n` little-endian limbs; `None` if it does not fit.
pub fn hex_to_limbs_vec(s: &str, n: usize) -> Option<Vec<u64>> {
    let s = s.trim_start_matches('0');
    let mut out = vec![0u64; n];
    let bytes = s.as_bytes();
    let mut end = bytes.len();
    let mut i = 0;
    while end > 0 {
        let start = end.saturating_sub(16);
        let w = u64::from_str_radix(std::str::from_utf8(&bytes[start..end]).unwrap(), 16).unwrap();
        if i >= n {
            if w != 0 {
                return None;
            }
        } else {
            out[i] = w;
        }
        i += 1;
        end = start;
    }
    Some(out)
}

/// Parse hex into a `Uint` (must be canonical; harness inputs always are).
pub fn u<const B: usize, const L: usize>(s: &str) -> Uint<B, L> {
    let v = hex_to_limbs_vec(s, L).expect("harness input does not fit the limb count");
    let mut a = [0u64; L];
    a.copy_from_slice(&v);
    Uint::from_limbs(a)
}

/// Big-endian hex of a little-endian limb slice (`0` for zero / empty).
pub fn limbs_hex(l: &[u64]) -> String {
    let mut s = String::new();
    for w in l.iter().rev() {
        if s.is_empty() {
            if *w != 0 {
                s = format!("{w:x}");
            }
        } else {
            s.push_str(&format!("{w:016x}"));
        }
    }
    if s.is_empty() {
        s.push('0');
    }
    s
}

/// Hex of a `Uint` straight from its limbs.
pub fn h<const B: usize, const L: usize>(x: &Uint<B, L>) -> String {
    limbs_hex(x.as_limbs())
}

pub fn b(x: bool) -> &'static str {
    if x { "t" } else { "f" }
}

pub fn opt<const B: usize, const L: usize>(x: Option<Uint<B, L>>) -> String {
    match x {
        Some(v) => format!("some {}", h(&v)),
        None => "none".to_string(),
    }
}

/// comma-separated hex limb list, `-` for empty
pub fn limbs_list(l: &[u64]) -> String {
    if l.is_empty() {
        "-".to_string()
    } else {
        l.iter().map(|w| format!("{w:x}")).collect::<Vec<_>>().join(",")
    }
}

pub fn parse_limbs_list(s: &str) -> Vec<u64> {
    if s == "-" {
        vec![]
    } else {
        s.split(',').map(|w| u64::from_str_radix(w, 16).unwrap()).collect()
    }
}

pub fn parse_hex_bytes(s: &str) -> Vec<u8> {
    if s == "-" {
        return vec![];
    }
    (0..s.len() / 2).map(|i| u8::from_str_radix(&s[2 * i..2 * i + 2], 16).unwrap()).collect()
}

pub fn bytes_hex(b: &[u8]) -> String {
    if b.is_empty() {
        "-".to_string()
    } else {
        b.iter().map(|x| format!("{x:02x}")).collect()
    }
}

/// Read cases from stdin, run `f` on the split line inside `catch_unwind`, print one line per case.
/// A panic is the outcome `panic`.
pub fn run_lines(f: impl Fn(&[&str]) -> String) {
    std::panic::set_hook(Box::new(|_| {}));
    let stdin = std::io::stdin();
    let stdout = std::io::stdout();
    let mut out = std::io::BufWriter::new(stdout.lock());
    // VH_FLUSH=1: flush after every case, so that after a hang or abort the orchestrator knows the culprit
    let flush_each = std::env::var("VH_FLUSH").map(|v| v == "1").unwrap_or(false);
    for line in stdin.lock().lines() {
        let line = line.unwrap();
        let parts: Vec<&str> = line.split_whitespace().collect();
        if parts.is_empty() {
            writeln!(out).unwrap();
            continue;
        }
        let r = catch_unwind(AssertUnwindSafe(|| f(&parts)));
        match r {
            Ok(s) => writeln!(out, "{s}").unwrap(),
            Err(_) => writeln!(out, "panic").unwrap(),
        }
        if flush_each {
            out.flush().unwrap();
        }
    }
    // coverage counters (evidence only)
    let snap = ruint::verif_hooks::snapshot();
    let nz: Vec<String> =
        snap.iter().enumerate().filter(|(_, c)| **c != 0).map(|(i, c)| format!("{i}:{c}")).collect();
    eprintln!("HOOKS {}", nz.join(" "));
    out.flush().unwrap();
}

/// Dispatch a run-time bit width to a const-generic function over a fixed grid.
#[macro_export]
macro_rules! dispatch_bits {
    ($bits:expr, $f:ident, $args:tt, [$($b:literal),* $(,)?]) => {
        match $bits {
            $( $b => $f::<$b, { ($b + 63) / 64 }> $args, )*
            _ => "unsupported-width".to_string(),
        }
    };
}
