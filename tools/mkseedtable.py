#!/usr/bin/env python3
"""Render the table of seeded changes (seeded/*/meta.json) and the latest verdict of each registered check on them
(seeded/results.jsonl) as markdown, and splice it into DESIGN.md between the SEEDS markers."""
import json, os, re
ROOT = os.path.dirname(os.path.dirname(os.path.abspath(__file__)))
res = {}
for l in open(os.path.join(ROOT, 'seeded', 'results.jsonl')):
    r = json.loads(l)
    res[(r['seed'], r['property'])] = r
rows = []
for d in sorted(os.listdir(os.path.join(ROOT, 'seeded'))):
    mp = os.path.join(ROOT, 'seeded', d, 'meta.json')
    if not os.path.exists(mp):
        continue
    m = json.load(open(mp))
    prop = m.get('property') or m.get('breaks_property')
    r = res.get((d, prop))
    verdict = (r['verdict'] + (' (no-failing-input-found)' if 'no-failing-input-found' in r.get('line', '') else '')) if r else 'not run'
    summ = re.sub(r'\s+', ' ', m.get('summary', ''))[:170].replace('|', '\\|')
    need = re.sub(r'\s+', ' ', m.get('needs_to_manifest', ''))[:170].replace('|', '\\|')
    rows.append('| %s | %s | %s | %s | `./check %s` — %s |' % (d, prop, summ, need, prop, verdict))
table = ('| seed | property | change | needs to manifest | caught by |\n|---|---|---|---|---|\n' + '\n'.join(rows) + '\n')
n_c = sum(1 for r in rows if 'CAUGHT' in r)
head = '%d seeded changes, %d caught by the registered quick check of the property they break.\n\n' % (len(rows), n_c)
p = os.path.join(ROOT, 'DESIGN.md')
s = open(p).read()
a, b = '<!-- SEEDS:BEGIN -->', '<!-- SEEDS:END -->'
if a in s:
    s = s[:s.index(a) + len(a)] + '\n' + head + table + s[s.index(b):]
    open(p, 'w').write(s)
print(head)
