"""Shared structured value generators (all randomness from one random.Random instance)."""

GRID_ALL = [0, 1, 2, 3, 4, 5, 6, 7, 8, 12, 16, 31, 32, 33, 60, 63, 64, 65, 72, 96, 100, 127, 128, 129,
            160, 192, 200, 250, 255, 256, 257, 320, 384, 512, 521, 1024, 4096]
GRID_SMALL_EXH = [0, 1, 2, 3, 4, 5, 6]


def hx(v):
    return format(v, 'x')


def nlimbs(bits):
    return (bits + 63) // 64


def rand_bits(rng, k):
    return rng.getrandbits(k) if k > 0 else 0


def limb_pattern(rng, bits):
    """value built limb by limb from {0, all-ones, 1, 2^63, random}"""
    n = nlimbs(bits)
    v = 0
    for i in range(n):
        c = rng.randrange(6)
        w = [0, 2**64 - 1, 1, 2**63, rng.getrandbits(64), 2**64 - 1][c]
        v |= w << (64 * i)
    return v & ((1 << bits) - 1)


def value(rng, bits):
    """one value in [0, 2^bits) from the structured classes"""
    if bits == 0:
        return 0
    m = 1 << bits
    c = rng.randrange(15)
    if c == 14:
        # the same word (single bit, small, all-ones or random) replicated in a random subset of the limbs
        n = nlimbs(bits)
        w = rng.choice([1 << rng.randrange(64), rng.randrange(1, 9), 2**64 - 1, 2**63, rng.getrandbits(64) | 1])
        v = 0
        k = 0
        for i in range(n):
            if rng.random() < 0.6:
                v |= w << (64 * i)
                k += 1
        if k == 0:
            v = w
        return v & (m - 1)
    if c == 0:
        return 0
    if c == 1:
        return 1 % m
    if c == 2:
        return m - 1
    if c == 3:
        return (m - 2) % m
    if c == 4:
        return 1 << rng.randrange(bits)
    if c == 5:
        return ((1 << rng.randrange(bits)) - 1) % m
    if c == 6:
        return ((1 << rng.randrange(bits)) + 1) % m
    if c == 7:  # log-uniform magnitude
        return rand_bits(rng, rng.randrange(bits + 1))
    if c == 8 or c == 9:
        return limb_pattern(rng, bits)
    if c == 10:  # all ones low part (carry chains)
        k = rng.randrange(bits + 1)
        return ((1 << k) - 1) | (rand_bits(rng, bits) & ~((1 << min(bits, k + 64)) - 1)) & (m - 1)
    if c == 11:  # zero low limbs
        k = 64 * rng.randrange(nlimbs(bits) + 1)
        return (rand_bits(rng, bits) >> k << k) & (m - 1)
    if c == 12:  # zero high limbs
        k = rng.randrange(bits + 1)
        return rand_bits(rng, bits) >> k
    return rand_bits(rng, bits)


def near(rng, bits, a):
    """a value related to `a`: equal, +-1, +-2^k, complement, negation"""
    if bits == 0:
        return 0
    m = 1 << bits
    c = rng.randrange(8)
    if c == 0:
        return a
    if c == 1:
        return (a + 1) % m
    if c == 2:
        return (a - 1) % m
    if c == 3:
        return (a + (1 << rng.randrange(bits))) % m
    if c == 4:
        return (a - (1 << rng.randrange(bits))) % m
    if c == 5:
        return (m - a) % m
    if c == 6:
        return (m - 1 - a) % m
    return (m - a + rng.choice([-1, 1])) % m


def pair(rng, bits):
    a = value(rng, bits)
    if rng.random() < 0.4:
        return a, near(rng, bits, a)
    return a, value(rng, bits)
