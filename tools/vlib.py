"""Orchestrator library: rebuild harness + Lean obligations, audit axioms, run the three-column
correspondence (impl | model | spec), shrink, decide, write evidence/replay."""
import concurrent.futures
import hashlib
import itertools
import importlib
import json
import os
import random
import re
import subprocess
import sys
import time

ROOT = os.path.dirname(os.path.dirname(os.path.abspath(__file__)))
LEAN = os.path.join(ROOT, 'lean')
HARNESS = os.path.join(ROOT, 'harness')
REPO = os.environ.get('VERIF_REPO', '/repo')
ALLOWED_AXIOMS = {'propext', 'Classical.choice', 'Quot.sound'}
FORBIDDEN = re.compile(r'\bsorry\b|\badmit\b|^axiom |native_decide|bv_decide|implemented_by|\bunsafe |maxHeartbeats 0')
NCPU = min(16, os.cpu_count() or 4)
ENV = dict(os.environ, CARGO_NET_OFFLINE='true')


class MachineryError(Exception):
    pass


def log(*a):
    print(*a, flush=True)


def sh(cmd, cwd=None, timeout=None, inp=None):
    p = subprocess.run(cmd, cwd=cwd, env=ENV, input=inp, capture_output=True, text=True, timeout=timeout)
    return p.returncode, p.stdout, p.stderr


# ----------------------------------------------------------------------------------------------
# build steps

def harness_dir():
    """the harness crate; for VERIF_REPO != /repo a shadow copy with the path dependency rewritten
    (own target dir), so experiments on scratch worktrees never touch /repo or the main target dir."""
    if REPO == '/repo':
        return HARNESS
    d = '/tmp/vh_' + re.sub(r'[^A-Za-z0-9]', '_', REPO.strip('/'))
    os.makedirs(os.path.join(d, '.cargo'), exist_ok=True)
    toml = open(os.path.join(HARNESS, 'Cargo.toml')).read().replace('path = "/repo"', 'path = "%s"' % REPO)
    old = open(os.path.join(d, 'Cargo.toml')).read() if os.path.exists(os.path.join(d, 'Cargo.toml')) else None
    if old != toml:
        open(os.path.join(d, 'Cargo.toml'), 'w').write(toml)
    for f in ('Cargo.lock', '.cargo/config.toml'):
        subprocess.run(['cp', os.path.join(HARNESS, f), os.path.join(d, f)], check=True)
    if not os.path.exists(os.path.join(d, 'src')):
        os.symlink(os.path.join(HARNESS, 'src'), os.path.join(d, 'src'))
    return d


def build_harness(binname, release=False):
    """cargo build of one harness bin against /repo's working tree (path dependency, hooks on)."""
    t = time.time()
    HARNESS = harness_dir()
    cmd = ['cargo', 'build', '--offline', '--bin', binname]
    if release:
        cmd.append('--release')
    rc, out, err = sh(cmd, cwd=HARNESS, timeout=3600)
    if rc != 0:
        raise MachineryError('harness build failed (the harness or /repo does not compile):\n' + err[-4000:])
    path = os.path.join(HARNESS, 'target', 'release' if release else 'debug', binname)
    return path, time.time() - t


def lake_build(targets):
    t = time.time()
    rc, out, err = sh(['lake', 'build'] + targets, cwd=LEAN, timeout=7200)
    return rc, out + err, time.time() - t


def theorem_names(prop):
    """theorems declared in Props/<prop>.lean (namespace Ruint.<prop>)"""
    src = open(os.path.join(LEAN, 'Ruint', 'Props', prop + '.lean')).read()
    src_nc = strip_comments(src)
    names = re.findall(r'^\s*(?:private\s+)?theorem\s+([A-Za-z_][A-Za-z0-9_\.\']*)', src_nc, re.M)
    return ['Ruint.%s.%s' % (prop, n) for n in names]


def strip_comments(src):
    out = []
    i = 0
    depth = 0
    n = len(src)
    while i < n:
        if src.startswith('/-', i):
            depth += 1
            i += 2
        elif depth and src.startswith('-/', i):
            depth -= 1
            i += 2
        elif depth:
            if src[i] == '\n':
                out.append('\n')
            i += 1
        elif src.startswith('--', i):
            j = src.find('\n', i)
            i = n if j < 0 else j
        else:
            out.append(src[i])
            i += 1
    return ''.join(out)


def import_closure(mods):
    """source files of the project's own modules transitively imported by `mods`"""
    seen = {}
    todo = list(mods)
    while todo:
        m = todo.pop()
        if m in seen:
            continue
        path = os.path.join(LEAN, *m.split('.')) + '.lean'
        if not os.path.exists(path):
            continue
        seen[m] = path
        for im in re.findall(r'^import\s+(Ruint\.[A-Za-z0-9_.]+)', open(path).read(), re.M):
            todo.append(im)
    return sorted(seen.values())


def audit(prop, extra_modules=()):
    """#print axioms for every property theorem; grep sources for forbidden constructs."""
    names = theorem_names(prop)
    os.makedirs(os.path.join(LEAN, '.lake', 'audit'), exist_ok=True)
    path = os.path.join(LEAN, '.lake', 'audit', 'Audit_%s.lean' % prop)
    with open(path, 'w') as f:
        f.write('import Ruint.Props.%s\n' % prop)
        for n in names:
            f.write('#print axioms %s\n' % n)
    rc, out, err = sh(['lake', 'env', 'lean', path], cwd=LEAN, timeout=1800)
    res = {}
    text = out + err
    for m in re.finditer(r"'([^']+)' depends on axioms: \[([^\]]*)\]", text, re.S):
        res[m.group(1)] = set(x.strip() for x in m.group(2).replace('\n', ' ').split(',') if x.strip())
    for m in re.finditer(r"'([^']+)' does not depend on any axioms", text):
        res[m.group(1)] = set()
    bad = {}
    for n in names:
        if n not in res:
            bad[n] = 'not found in the compiled module'
        elif not res[n] <= ALLOWED_AXIOMS:
            bad[n] = 'axioms ' + ','.join(sorted(res[n] - ALLOWED_AXIOMS))
    # forbidden constructs anywhere in the Lean sources
    hits = []
    for p in import_closure(['Ruint.Props.' + prop, 'Ruint.Drv.' + prop]):
        for k, line in enumerate(strip_comments(open(p).read()).split('\n')):
            if FORBIDDEN.search(line):
                hits.append('%s:%d: %s' % (os.path.relpath(p, LEAN), k + 1, line.strip()[:80]))
    axioms_used = sorted(set().union(*res.values())) if res else []
    return names, bad, hits, axioms_used, rc, text


# ----------------------------------------------------------------------------------------------
# running the two sides

def _run_chunk(binpath, lines, timeout):
    """run one process over lines; an abort or hang marks the culprit case (`abort` / `timeout`) and resumes
    after it. First attempt is block-buffered; after a failure the remainder is re-run with VH_FLUSH=1 (one
    flush per case) so the number of completed lines identifies the culprit."""
    outs = []
    hooks = {}
    flush = False
    while len(outs) < len(lines):
        chunk = lines[len(outs):]
        to = timeout if not flush else max(20, min(timeout, 90))
        culprit = None
        try:
            p = subprocess.run([binpath], input='\n'.join(chunk) + '\n', capture_output=True, text=True,
                               timeout=to, env=dict(ENV, VH_FLUSH='1' if flush else '0'))
            got = p.stdout.split('\n')
            if got and got[-1] == '':
                got.pop()
            for m in re.finditer(r'^HOOKS (.*)$', p.stderr, re.M):
                for kv in m.group(1).split():
                    k, v = kv.split(':')
                    hooks[int(k)] = hooks.get(int(k), 0) + int(v)
            if len(got) >= len(chunk):
                outs.extend(got[:len(chunk)])
                break
            culprit = 'abort'      # process died before finishing
        except subprocess.TimeoutExpired as e:
            so = e.stdout or b''
            if isinstance(so, bytes):
                so = so.decode(errors='replace')
            got = so.split('\n')[:-1]   # the last piece may be partial
            culprit = 'timeout'
        if not flush:
            # output was block-buffered: what we got is a lower bound only; re-run the rest flushing per case
            outs.extend(got[:max(0, len(got) - 1)])
            flush = True
            continue
        outs.extend(got)
        outs.append(culprit)
    return outs[:len(lines)], hooks


def run_parallel(binpath, lines, timeout=600, jobs=None):
    jobs = jobs or NCPU
    if len(lines) < 2000:
        jobs = 1
    n = len(lines)
    size = (n + jobs - 1) // jobs if n else 1
    chunks = [lines[i:i + size] for i in range(0, n, size)]
    outs = []
    hooks = {}
    with concurrent.futures.ThreadPoolExecutor(max_workers=jobs) as ex:
        for o, hk in ex.map(lambda c: _run_chunk(binpath, c, timeout), chunks):
            outs.extend(o)
            for k, v in hk.items():
                hooks[k] = hooks.get(k, 0) + v
    return outs, hooks


def run_impl(binpath, cases, timeout=600):
    return run_parallel(binpath, cases, timeout)


def run_model(drvpath, cases, impl, timeout=1200):
    lines = [c + '\t' + i for c, i in zip(cases, impl)]
    outs, _ = run_parallel(drvpath, lines, timeout)
    res = []
    for o in outs:
        if '\t' in o:
            m, s = o.split('\t', 1)
        else:
            m, s = o, o
        res.append((m, s))
    return res


# ----------------------------------------------------------------------------------------------
# comparison

def spec_ok(impl, spec):
    """spec column: either the exact expected output, or `pred:true` / `pred:false ...` (a decidable
    predicate evaluated by the driver on the implementation's actual output), or `any` (unconstrained)."""
    if spec.startswith('pred:'):
        return spec.startswith('pred:true')
    if spec == 'any':
        return True
    return impl == spec


def classify(case, impl, model, spec):
    """-> None (agree) | 'impl-violation' | 'both-violate' | 'model-error' | 'corr-broken'"""
    so = spec_ok(impl, spec)
    pred = spec.startswith('pred:') or spec == 'any'
    if model == 'skip':
        return None if so else 'impl-violation'
    if impl == model and so:
        return None
    if not so:
        if pred:
            return 'impl-violation'
        return 'impl-violation' if model == spec else 'both-violate'
    # spec satisfied by impl but impl != model
    if pred:
        return 'corr-broken'
    return 'model-error'


class Findings:
    def __init__(self):
        p = os.path.join(ROOT, 'known_findings.json')
        self.items = json.load(open(p)) if os.path.exists(p) else []

    def match(self, prop, tag):
        for it in self.items:
            if it.get('status') == 'finding' and it.get('property') == prop and it.get('id') == tag:
                return it
        return None


# ----------------------------------------------------------------------------------------------

def cap_hist(h, n=80):
    """keep the n most frequent keys of a histogram (evidence files must stay small)"""
    if len(h) <= n:
        return h
    items = sorted(h.items(), key=lambda kv: -kv[1])
    out = dict(items[:n])
    out['(other: %d keys)' % (len(items) - n)] = sum(v for _, v in items[n:])
    return out


def write_json(path, obj):
    os.makedirs(os.path.dirname(path), exist_ok=True)
    tmp = path + '.tmp'
    with open(tmp, 'w') as f:
        json.dump(obj, f, indent=1, sort_keys=True)
        f.write('\n')
    os.replace(tmp, path)


def shrink(mod, binpath, drvpath, case, kind):
    """greedy shrinking of hex / decimal tokens while the same kind of failure persists."""
    def fails(c):
        i, _ = run_impl(binpath, [c], timeout=60)
        ms = run_model(drvpath, [c], i, timeout=60)
        if 'unsupported-width' in i[0] or 'bad-op' in i[0] or 'bad-op' in ms[0][0]:
            return False
        return classify(c, i[0], ms[0][0], ms[0][1]) == kind
    if hasattr(mod, 'shrink_candidates'):
        cand_fn = mod.shrink_candidates
    else:
        def cand_fn(c):
            toks = c.split(' ')
            for k in range(2, len(toks)):
                t = toks[k]
                if re.fullmatch(r'[0-9a-f]+', t) and t != '0':
                    v = int(t, 16)
                    for nv in (0, 1, v >> 64, v >> 1, v & (v - 1), v - 1):
                        if nv != v and nv >= 0:
                            yield ' '.join(toks[:k] + [format(nv, 'x')] + toks[k + 1:])
    cur = case
    t_end = time.time() + getattr(mod, 'SHRINK_BUDGET_S', 120)
    for _ in range(200):
        progressed = False
        for c in cand_fn(cur):
            if time.time() > t_end:     # shrinking is a convenience, never worth minutes
                return cur
            try:
                if fails(c):
                    cur = c
                    progressed = True
                    break
            except Exception:
                pass
        if not progressed:
            break
    return cur


def translate_others(prop, notes):
    """run every other property's (G) translator (idempotent: files are rewritten only when their content changes)"""
    out = {}
    pdir = os.path.join(ROOT, 'tools', 'props')
    for name in sorted(os.listdir(pdir)):
        m = re.fullmatch(r'(c\d\d)\.py', name)
        if not m or m.group(1) == prop.lower():
            continue
        try:
            other = importlib.import_module('props.' + m.group(1))
            fn = getattr(other, 'translate_only', None) or getattr(other, 'translate', None)
            if fn is None:
                continue
            info = fn(REPO, LEAN) or {}
            out[m.group(1).upper()] = {'changed': bool(info.get('changed'))}
        except Exception as e:   # reported as a broken obligation by the caller (the generated files may be stale)
            notes.append('translator of %s failed: %r' % (m.group(1).upper(), e))
            out[m.group(1).upper()] = {'changed': False, 'failed': repr(e)[:300]}
    return out


# properties whose own `extra_checks` already contains a release rerun (run on demand through VERIF_RELEASE_RERUN)
OWN_RELEASE_RERUN = ('C02', 'C05', 'C06', 'C08', 'C10', 'C11', 'C12', 'C13', 'C15', 'C19')


def release_rerun(mod, prop, rng, limit=60000, keep=None):
    """run the corpus and a quick-tier sample against the harness built with the RELEASE profile (debug assertions and overflow
    checks off) and classify against model and spec again -> (violations, coverage)"""
    import itertools
    binpath, secs = build_harness(mod.BIN, release=True)
    drv = os.path.join(LEAN, '.lake', 'build', 'bin', mod.DRV)
    cases = []
    cpath = os.path.join(ROOT, 'corpus', prop + '.cases')
    if os.path.exists(cpath):
        cases += [l.strip() for l in open(cpath) if l.strip() and not l.startswith('#')]
    # a stride sample of the WHOLE quick generator (its sections come one after the other: the first N cases would be one section)
    allc = list(itertools.islice(mod.gen(random.Random(rng.getrandbits(32)), 'quick'), 3000000))
    if keep:
        allc = [c for c in allc if keep(c)]
    cases += allc[::max(1, len(allc) // limit)]
    impl, _ = run_impl(binpath, cases)
    ms = run_model(drv, cases, impl)
    viol = []
    for c, i, (m, s) in zip(cases, impl, ms):
        k = classify(c, i, m, s)
        if k:
            viol.append(('impl-violation' if k == 'model-error' else k, c + '   [release profile]', i, m, s))
    return viol[:50], {'release_profile': {'cases': len(cases), 'mismatches': len(viol), 'build_s': round(secs, 1),
                                          'profile': 'release: debug-assertions=off, overflow-checks=off'}}


def unavailable_ties(info, path=''):
    """the ties a property's translator reported as unavailable (`unavailable` / `words_unavailable` keys with a reason, or
    a `table: 'unavailable: …'` entry), searched through nested result dicts (not through `other_generated`)"""
    out = []
    if not isinstance(info, dict):
        return out
    for k, v in info.items():
        if k == 'other_generated':
            continue
        if k in ('unavailable', 'words_unavailable') and v:
            out.append('%s%s' % (path, v if isinstance(v, str) else '; '.join(map(str, v)) if isinstance(v, (list, tuple)) else repr(v)))
        elif k == 'table' and isinstance(v, str) and v.startswith('unavailable'):
            out.append(path + v)
        elif isinstance(v, dict):
            out += unavailable_ties(v, path + k + ': ')
    return out


def run_check(prop, tier='quick', seed=None, replay=None):
    gen_dir = os.path.join(LEAN, 'Ruint', 'Gen')

    def snap():
        out = {}
        for dp, dn, fn in os.walk(gen_dir):
            for x in fn:
                p = os.path.join(dp, x)
                out[p] = hashlib.sha256(open(p, 'rb').read()).hexdigest()
        return out
    before = snap() if REPO != '/repo' else {}
    try:
        return _run_check(prop, tier, seed, replay)
    finally:
        if REPO != '/repo':
            # a scratch-tree run regenerated some lean/Ruint/Gen files from that tree: restore exactly those
            after = snap()
            touched = [p for p in after if before.get(p) != after[p]]
            if touched:
                sh(['git', 'checkout', '--'] + [os.path.relpath(p, ROOT) for p in touched], cwd=ROOT)


def _classify_stage(mod, prop, findings, cases, impl, ms, viol, known, model_errors, opcount, widthcount, outcome, distinct,
                    nontrivial):
    for c, i, (m, s) in zip(cases, impl, ms):
        toks = c.split(' ')
        opcount[toks[0]] = opcount.get(toks[0], 0) + 1
        if len(toks) > 1 and toks[1].isdigit() and len(toks[1]) <= 6:
            widthcount[toks[1]] = widthcount.get(toks[1], 0) + 1
        oc = i.split(' ')[0] if i else ''
        oc = oc if oc in ('some', 'none', 'panic', 'err', 'ok', 'abort', 'timeout') else 'value'
        outcome[oc] = outcome.get(oc, 0) + 1
        if i in ('unsupported-width', 'bad-op') or m == 'bad-op':
            model_errors.append((c, i, m, s))
            continue
        if nontrivial(c, i):
            distinct.add(hashlib.blake2b(c.encode(), digest_size=8).digest())
        k = classify(c, i, m, s)
        if k is None:
            continue
        if k == 'model-error':
            model_errors.append((c, i, m, s))
            continue
        tag = mod.finding_tag(c, i, m, s) if hasattr(mod, 'finding_tag') else None
        f = findings.match(prop, tag) if tag else None
        if f:
            known.setdefault(tag, []).append((c, i, m, s))
        else:
            viol.append((k, c, i, m, s))



COMMON_SOURCES = ('src/lib.rs', 'src/macros.rs', 'src/utils.rs', 'src/const_for.rs', 'src/algorithms/mod.rs', 'src/algorithms/ops.rs',
                  'src/cmp.rs', 'src/from.rs', 'src/bytes.rs')
KERNEL_USERS = ('C02', 'C03', 'C09', 'C10', 'C11', 'C12', 'C13', 'C14', 'C15')


def changed_sources(prop):
    """source files relevant to `prop` whose content differs from the tree the machinery was last run green on
    (tools/baseline_hashes.json): the property's anchor files, the shared core files and — for the properties built on the limb
    kernels — src/algorithms/**. Only used to decide how long to search; never a verdict."""
    bp = os.path.join(ROOT, 'tools', 'baseline_hashes.json')
    if not os.path.exists(bp):
        return []
    base = json.load(open(bp))['files']
    cur = {}
    for root in ('src', 'ruint-macro/src'):
        for dp, _, fn in os.walk(os.path.join(REPO, root)):
            for f in fn:
                if f.endswith('.rs'):
                    q = os.path.join(dp, f)
                    cur[os.path.relpath(q, REPO)] = hashlib.sha256(open(q, 'rb').read()).hexdigest()
    diff = sorted(f for f in set(base) | set(cur) if base.get(f) != cur.get(f))
    if not diff:
        return []
    anchors = set()
    for l in open(os.path.join(ROOT, 'properties.jsonl')):
        pj = json.loads(l)
        if pj['id'] == prop:
            a = pj.get('anchors')
            anchors = set(a.get('files', [])) if isinstance(a, dict) else set()
    return [f for f in diff if f in anchors or f in COMMON_SOURCES
            or (prop in KERNEL_USERS and f.startswith('src/algorithms/'))
            or (prop in ('C16', 'C17', 'C20') and f.startswith('src/support/'))]


def _run_check(prop, tier='quick', seed=None, replay=None):
    t0 = time.time()
    mod = importlib.import_module('props.' + prop.lower())
    seed = int(os.environ.get('VERIF_SEED', '20260926')) if seed is None else seed
    ev_path = os.path.join(ROOT, 'evidence' if REPO == '/repo' else 'replays/scratch_evidence', prop + '.json')
    if os.path.exists(ev_path) and not replay:
        os.remove(ev_path)
    findings = Findings()
    timings = {}
    notes = []

    # 1. regenerate source-derived facts (G), rebuild the harness from the working tree
    gen_info = {}
    if hasattr(mod, 'translate'):
        gen_info = mod.translate(REPO, LEAN)
    # the other properties' generated files too: this property's theorems may rest on them (C03/C04/C10 import the
    # division, addition, Lehmer ... developments), so a change there must break this property's obligations as well
    others = translate_others(prop, notes)
    if others:
        gen_info['other_generated'] = others
        if any(v.get('changed') for v in others.values()):
            gen_info['changed'] = True
    binpath, timings['cargo_s'] = build_harness(mod.BIN)

    # 2. proof obligations
    targets = ['Ruint.Props.' + prop, mod.DRV]
    rc, text, timings['lake_s'] = lake_build(targets)
    proof_broken = None
    if rc != 0:
        # a Gen-dependent theorem no longer checks against the current source?
        gen_related = bool(gen_info.get('changed')) or 'Ruint/Gen/' in text or 'Ruint.Gen.' in text
        if not gen_related:
            raise MachineryError('lake build failed for reasons unrelated to generated facts:\n' + text[-4000:])
        m = re.search(r'error: (Ruint/[^:]+):(\d+):', text)
        proof_broken = {'where': m.group(0) if m else 'unknown', 'log': text[-3000:]}
        notes.append('proof obligation broken: ' + proof_broken['where'])
        # the driver must still be buildable to run the search
        rc2, text2, _ = lake_build([mod.DRV])
        if rc2 != 0:
            # the regenerated model itself does not compile (translator could not follow the new source):
            # fall back to the committed generated files so that the search can still run with the old model
            sh(['git', 'checkout', '--', 'lean/Ruint/Gen'], cwd=ROOT)
            notes.append('regenerated model does not build; search runs with the committed Ruint/Gen files')
            proof_broken['regenerated_model_builds'] = False
            rc2, text2, _ = lake_build([mod.DRV])
            if rc2 != 0:
                raise MachineryError('driver does not build:\n' + text2[-3000:])
    if not proof_broken:
        # a source-derived tie of this property whose anchors vanished: its generated file was not rewritten, so the theorems
        # over it speak about the committed (stale) facts — the obligation is no longer discharged against the current source
        ua = unavailable_ties(gen_info)
        # another property's translator raised: the generated files this property's theorems may rest on were not refreshed
        ua += ['translator of %s failed: %s' % (k, v['failed']) for k, v in (gen_info.get('other_generated') or {}).items()
               if isinstance(v, dict) and v.get('failed')]
        if ua:
            proof_broken = {'where': 'tie unavailable: ' + '; '.join(ua)[:600], 'log': '', 'tie_unavailable': ua}
            notes.append('source-derived tie unavailable (anchors not found): ' + '; '.join(ua)[:300])
    drvpath = os.path.join(LEAN, '.lake', 'build', 'bin', mod.DRV)

    names, bad, hits, axioms_used = [], {}, [], []
    if not proof_broken:
        ta = time.time()
        names, bad, hits, axioms_used, arc, atext = audit(prop)
        timings['audit_s'] = time.time() - ta
        if bad or hits:
            raise MachineryError('axiom/sorry audit failed: %s %s' % (bad, hits))
        if tier == 'thorough' and os.environ.get('VERIF_LEANCHECKER', '1') == '1':
            tc = time.time()
            rc3, o3, e3 = sh(['lake', 'env', 'leanchecker', 'Ruint.Props.' + prop], cwd=LEAN, timeout=7200)
            timings['leanchecker_s'] = time.time() - tc
            if rc3 != 0:
                raise MachineryError('leanchecker rejected Ruint.Props.%s:\n%s' % (prop, (o3 + e3)[-2000:]))
            notes.append('leanchecker re-checked Ruint.Props.' + prop)

    # 3. correspondence
    rng = random.Random(seed)
    if replay:
        rp = json.load(open(replay))
        cases = [rp['case']] if 'case' in rp else rp.get('cases', [])
    else:
        cases = []
        cpath = os.path.join(ROOT, 'corpus', prop + '.cases')
        if os.path.exists(cpath):
            cases += [l.strip() for l in open(cpath) if l.strip() and not l.startswith('#')]
        ncorpus = len(cases)
        # a broken proof obligation turns the run into a search for a failing input: the quick generator first (a change that
        # breaks a tie usually shows on ordinary inputs, and the report should not wait for the deep search), then the
        # thorough generator if that found nothing
        cases += list(mod.gen(rng, 'thorough' if tier == 'thorough' else 'quick'))
    viol = []          # (kind, case, impl, model, spec)
    known = {}
    model_errors = []
    opcount = {}
    widthcount = {}
    outcome = {}
    distinct = set()
    nontrivial = getattr(mod, 'nontrivial', lambda c, i: True)
    timings['impl_s'] = 0.0
    timings['model_s'] = 0.0
    all_cases = []
    all_impl = []
    all_ms = []
    hooks = {}
    stage_cases = cases
    esc_state = None
    while True:
        tr = time.time()
        impl, hk = run_impl(binpath, stage_cases, timeout=getattr(mod, 'TIMEOUT', 900))
        for k_, v_ in (hk or {}).items():
            hooks[k_] = hooks.get(k_, 0) + v_ if isinstance(v_, (int, float)) else v_
        timings['impl_s'] += time.time() - tr
        tr = time.time()
        ms = run_model(drvpath, stage_cases, impl)
        timings['model_s'] += time.time() - tr
        _classify_stage(mod, prop, findings, stage_cases, impl, ms, viol, known, model_errors, opcount, widthcount, outcome,
                        distinct, nontrivial)
        all_cases += stage_cases
        all_impl += impl
        all_ms += ms
        real_found = any(v[0] in ('impl-violation', 'both-violate') for v in viol)
        if proof_broken and not replay and tier != 'thorough' and not real_found and not model_errors and stage_cases is cases:
            notes.append('proof obligation broken and the quick generator found no failing input: thorough generator run')
            stage_cases = list(mod.gen(rng, 'thorough'))
            continue
        if (not proof_broken and not replay and tier != 'thorough' and not viol and not model_errors
                and os.environ.get('VERIF_ESCALATE', '1') == '1'):
            # the sources this property rests on differ from the tree the machinery last ran green on: search longer (the
            # thorough generator, streamed in chunks under a wall-clock budget) before concluding that the property held
            if esc_state is None:
                ch = changed_sources(prop)
                if ch:
                    esc_state = {'files': ch, 'budget_s': float(os.environ.get('VERIF_ESCALATE_S', '150')), 't0': time.time(),
                                 'cases': 0, 'it': iter(mod.gen(random.Random(seed + 1), 'thorough'))}
                    notes.append('sources changed since the recorded baseline (%s): deeper search under a %.0f s budget'
                                 % (', '.join(ch[:6]), esc_state['budget_s']))
                else:
                    esc_state = False
            if esc_state and time.time() - esc_state['t0'] < esc_state['budget_s'] \
                    and esc_state['cases'] < int(os.environ.get('VERIF_ESCALATE_MAX', '2000000')):
                stage_cases = list(itertools.islice(esc_state['it'], 60000))
                if stage_cases:
                    esc_state['cases'] += len(stage_cases)
                    continue
        break
    cases = all_cases
    impl = all_impl
    ms = all_ms
    if esc_state:
        notes.append('deeper search: %d further cases in %.0f s' % (esc_state['cases'], time.time() - esc_state['t0']))
    extra = {}
    if hasattr(mod, 'extra_checks') and not replay:
        # property-specific checks beyond the line protocol (compile probes etc.)
        # sources changed since the baseline (the escalation ran): also ask for the checks that depend on the BUILD PROFILE
        # (release reruns: debug assertions and overflow checks off), which the quick tier skips on an unchanged tree
        if esc_state or proof_broken:
            os.environ['VERIF_RELEASE_RERUN'] = '1'
        try:
            extra = mod.extra_checks(tier, rng, findings) or {}
        finally:
            os.environ.pop('VERIF_RELEASE_RERUN', None)
        for v in extra.get('violations', []):
            viol.append(v)
        for tag, items in extra.get('known', {}).items():
            known.setdefault(tag, []).extend(items)

    if (esc_state or proof_broken) and not replay and prop not in OWN_RELEASE_RERUN \
            and not any(v[0] in ('impl-violation', 'both-violate') for v in viol) \
            and os.environ.get('VERIF_GENERIC_RELEASE', '1') == '1':
        # sources changed: the corpus and a quick sample once more against the RELEASE profile (debug assertions and overflow
        # checks off) — a documented panic must not be a `debug_assert!`, an `assert!` must not hide in the dev profile only
        try:
            rv, rcov = release_rerun(mod, prop, rng, limit=40000)
            for v in rv:
                tag = mod.finding_tag(v[1].split('   [release profile]')[0], v[2], v[3], v[4]) if hasattr(mod, 'finding_tag') else None
                if tag and findings.match(prop, tag):
                    known.setdefault(tag, []).append(v[1:])
                else:
                    viol.append(v)
            extra.setdefault('coverage', {}).update(rcov)
        except MachineryError as e:     # the release build is a bonus: never an alarm when it cannot be built
            notes.append('release rerun unavailable: ' + str(e)[:200])
    status = 0
    replay_path = None
    if model_errors:
        c, i, m, s = model_errors[0]
        log('MODEL-ERROR property=%s case=%r impl=%r model=%r spec=%r (%d such cases)' % (prop, c, i, m, s, len(model_errors)))
        status = 2
    for tag, items in sorted(known.items()):
        f = findings.match(prop, tag)
        log('KNOWN-FINDING: property=%s %s [%s; %d case(s) this run, e.g. %s -> %s]' % (
            prop, f['what'], tag, len(items), items[0][0], items[0][1]))
    if viol:
        # prefer a real property failure over a broken correspondence, then the shortest case
        viol.sort(key=lambda v: (v[0] == 'corr-broken', len(v[1])))
        kind, c, i, m, s = viol[0]
        shrunk = c
        if kind in ('impl-violation', 'both-violate', 'corr-broken') and not replay:
            try:
                shrunk = shrink(mod, binpath, drvpath, c, kind)
            except Exception as e:
                notes.append('shrink failed: %r' % (e,))
        if shrunk != c:
            i2, _ = run_impl(binpath, [shrunk], timeout=60)
            m2 = run_model(drvpath, [shrunk], i2, timeout=60)
            c0 = c
            c, i, (m, s) = shrunk, i2[0], m2[0]
        else:
            c0 = None
        kinds = set(v[0] for v in viol)
        real = kinds & {'impl-violation', 'both-violate'} or kinds - {'corr-broken'}
        replay_path = os.path.join(ROOT, 'replays', '%s_%d.json' % (prop, seed))
        rp = {'property': prop, 'kind': kind, 'case': c, 'impl': i, 'model': m, 'spec': s, 'seed': seed,
              'shrunk_from': c0, 'n_failing_cases': len(viol),
              'other_failing_cases': [v[1] for v in viol[1:20]]}
        if proof_broken:
            rp['theorem'] = proof_broken
        suffix = ''
        if not real:
            # correspondence broken (impl != model) while the spec predicate still holds everywhere explored
            rp['correspondence'] = 'impl differs from the model on op %s; no input found on which the property fails' % c.split(' ')[0]
            suffix = ' no-failing-input-found'
        write_json(replay_path, rp)
        log('VIOLATION property=%s replay=%s%s' % (prop, replay_path, suffix))
        log('  kind=%s case=%r impl=%r model=%r spec=%r (%d failing cases)' % (kind, c[:300], i[:200], m[:200], s[:200], len(viol)))
        status = 1
    elif proof_broken and status == 0:
        replay_path = os.path.join(ROOT, 'replays', '%s_%d.json' % (prop, seed))
        write_json(replay_path, {'property': prop, 'kind': 'proof-broken', 'theorem': proof_broken, 'seed': seed,
                                 'searched_cases': len(cases), 'gen': gen_info})
        log('VIOLATION property=%s replay=%s no-failing-input-found' % (prop, replay_path))
        status = 1

    # 4. evidence
    samples = []
    step = max(1, len(cases) // 6)
    for k in range(0, len(cases), step):
        samples.append({'case': cases[k], 'impl': impl[k][:200], 'model': ms[k][0][:200], 'spec': ms[k][1][:200]})
    samples = samples[:8]
    coverage = {
        'obligations': max(1, len(names) + len(gen_info.get('obligations', []))),
        'discharged': (len(names) + len(gen_info.get('obligations', []))) if not proof_broken else 0,
        'checker_cmd': 'cd lean && lake build Ruint.Props.%s && lake env lean .lake/audit/Audit_%s.lean  (#print axioms on every theorem; thorough: lake env leanchecker Ruint.Props.%s)' % (prop, prop, prop),
        'trusted_base': ['Lean 4.33.0 kernel', 'Mathlib v4.33.0 (as checked by the kernel)',
                         'axioms: ' + ', '.join(axioms_used or ['none']),
                         'statements in lean/Ruint/Props/%s.lean' % prop,
                         'correspondence check: tools/vlib.py, tools/props/%s.py, harness/src/bin/%s.rs, lean/Ruint/Drv/%s.lean' % (prop.lower(), mod.BIN, prop)]
        + list(getattr(mod, 'TRUSTED', [])),
        'theorems': names,
        'generated_facts': gen_info,
        'evaluations': len(cases),
        'distinct_nontrivial': len(distinct),
        'rule': getattr(mod, 'RULE', 'structured generator (value classes x widths x ops), corpus first; a case is non-trivial when its operands are not all zero and the width is > 0; distinct by hash of the case line'),
        'samples': samples,
        'traces_validated_against_impl': len(cases),
        'ops': cap_hist(opcount), 'widths': cap_hist(widthcount), 'impl_outcomes': cap_hist(outcome),
        'hook_counters': {str(k): v for k, v in sorted(hooks.items())},
        'known_findings_seen': {k: len(v) for k, v in known.items()},
        'profile': 'dev: opt-level=1, debug-assertions=on, overflow-checks=on',
        'timings_s': {k: round(v, 2) for k, v in timings.items()},
        'notes': notes,
    }
    for k, v in extra.get('coverage', {}).items():
        coverage[k] = v
    ev = {
        'property_id': prop, 'tier': tier, 'seed': seed, 'level': 'proof',
        'coverage': coverage,
        'assumptions': list(getattr(mod, 'ASSUMPTIONS', [])) + [
            'the theorem is about the Lean model; the tie to the Rust code is the differential correspondence on the cases of this run (plus generated facts where listed)'],
        'wall_s': round(time.time() - t0, 2),
        'violations': len(viol) + (1 if proof_broken and not viol else 0),
    }
    if not replay:
        write_json(ev_path, ev)
    log('%s %s: %d cases, %d distinct non-trivial, %d theorems audited, %d violation(s), %d known, %.1fs' % (
        prop, tier, len(cases), len(distinct), len(names), len(viol), sum(len(v) for v in known.values()), time.time() - t0))
    return status
