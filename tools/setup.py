"""setup: build every claimed property's Lean targets and harness bin (reads MANIFEST.json)."""
import json, os, subprocess, sys
ROOT = os.path.dirname(os.path.dirname(os.path.abspath(__file__)))
sys.path.insert(0, os.path.join(ROOT, 'tools'))
import importlib
man = json.load(open(os.path.join(ROOT, 'MANIFEST.json')))
props = [c['property_id'] for c in man['checks']]
targets, bins = [], []
for p in props:
    mod = importlib.import_module('props.' + p.lower())
    if hasattr(mod, 'translate'):
        mod.translate('/repo', os.path.join(ROOT, 'lean'))
    targets += ['Ruint.Props.' + p, mod.DRV]
    bins.append(mod.BIN)
env = dict(os.environ, CARGO_NET_OFFLINE='true')
r = subprocess.run(['lake', 'build'] + targets, cwd=os.path.join(ROOT, 'lean'), env=env)
if r.returncode != 0:
    sys.exit('lake build failed')
cmd = ['cargo', 'build', '--offline']
for b in sorted(set(bins)):
    cmd += ['--bin', b]
r = subprocess.run(cmd, cwd=os.path.join(ROOT, 'harness'), env=env)
if r.returncode != 0:
    sys.exit('cargo build failed')
print('setup ok: %d properties' % len(props))
