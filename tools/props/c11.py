"""C11 — Montgomery mul_redc / square_redc: case generator + translator of the carry thresholds."""
import os
import re

import gentie

from vgen import *

BIN = 'c11'
DRV = 'drv_c11'
W = 1 << 64
RULE = ('corpus, then structured cases over the slice functions for N = 1..16 and the Uint methods at 37 widths '
        '(LIMBS = 0..16): odd moduli >= 3 whose top limb sits at {1, 2^62-2, 2^62-1, 2^62, 2^63-2, 2^63-1, 2^63, 2^64-1, random} '
        '(for Uint widths additionally at the top of the masked limb), lower limbs all-ones / zero / random, 2^(64N)-c, '
        'composite moduli p*q with a = p*x, b = q*y (the unreduced accumulator lands exactly on m), squares p^2; '
        'operands from {0, 1, 2, m-1, m-2, m/2, R mod m, R^2 mod m, random, limb patterns}; inv = -m^-1 mod 2^64 '
        'computed here; spec = a*b*R^-1 mod m on N by extended Euclid. non-trivial = operands non-zero; distinct by case hash')
TRUSTED = ['translator tools/props/c11.py: regex extraction of the two threshold comparisons from src/algorithms/mul_redc.rs '
           '(echoed in generated_facts)',
           'python generator computes inv = -m^-1 mod 2^64 (checked again by the Lean driver: pre-condition of the spec column)']
ASSUMPTIONS = ['harness profile has debug-assertions on: the model mirrors the debug_assert!s of mul_redc.rs / modular.rs '
               '(proved never to fire under the stated preconditions), only precondition-satisfying cases are generated']
UINT_WIDTHS = [1, 2, 3, 7, 8, 16, 31, 32, 33, 63, 64, 65, 100, 127, 128, 129, 191, 192, 193, 255, 256, 257, 320, 384,
               448, 512, 521, 576, 640, 704, 768, 832, 896, 960, 1023, 1024]
TOPS = [1, 2**62 - 2, 2**62 - 1, 2**62, 2**62 + 1, 2**63 - 2, 2**63 - 1, 2**63, 2**63 + 1, 2**64 - 2, 2**64 - 1]


def inv64(m):
    return (-pow(m % W, -1, W)) % W


def nontrivial(c, i):
    t = c.split(' ')
    return all(x != '0' for x in t[2:-2])


def low_limbs(rng, n):
    """value of n limbs from {all-ones, zero, random, pattern}"""
    if n <= 0:
        return 0
    c = rng.randrange(5)
    if c == 0:
        return (1 << (64 * n)) - 1
    if c == 1:
        return 0
    if c == 2:
        return limb_pattern(rng, 64 * n)
    return rng.getrandbits(64 * n)


def modulus(rng, n, bits=None):
    """odd modulus >= 3 of exactly n limbs (top limb non-zero unless tiny), < 2^bits when bits is given"""
    full = 64 * n if bits is None else bits
    topbits = full - 64 * (n - 1)
    c = rng.randrange(10)
    if c == 0:
        m = (1 << full) - rng.choice([1, 3, 5, 159, 189, 2**32 + 1, 2**64 - 1, 2**64 + 1])
    elif c == 1 and n > 1:
        # short modulus: zero top limbs (top limb 0 is below every threshold)
        k = rng.randrange(1, n)
        m = rng.getrandbits(64 * k) | 1
    elif c == 2:
        m = value(rng, full)
    else:
        tops = [t for t in TOPS if t < (1 << topbits)] + [(1 << topbits) - 1, (1 << topbits) - 2, 1 << (topbits - 1)]
        top = rng.choice(tops) if rng.random() < 0.85 else rng.getrandbits(topbits)
        m = (top << (64 * (n - 1))) | low_limbs(rng, n - 1)
    m |= 1
    m %= (1 << full)
    if m < 3:
        m = 3 if full >= 2 else 1
    return m


def operand(rng, n, m):
    r = 1 << (64 * n)
    c = rng.randrange(14)
    if c == 0:
        return 0
    if c == 1:
        return 1 % m
    if c == 2:
        return m - 1
    if c == 3:
        return (m - 2) % m
    if c == 4:
        return m // 2
    if c == 5:
        return (m // 2 + 1) % m
    if c == 6:
        return r % m
    if c == 7:
        return (r * r) % m
    if c == 8:
        return limb_pattern(rng, 64 * n) % m
    if c == 9:
        return 2 % m
    if c == 10:
        return (m - rng.randrange(1, 1 << 16)) % m
    if c == 11:
        return (r - 1) % m
    return rng.randrange(m)


def rand_odd(rng, bits):
    return (rng.getrandbits(bits) | 1 | (1 << (bits - 1))) if bits > 1 else 1


def on_modulus(rng, n, bits=None):
    """(a, b, m) with a*b = c*m, 0 < a, b < m: the accumulator before the final subtraction is exactly m"""
    full = 64 * n if bits is None else bits
    if full < 4:
        return None
    pb = rng.randrange(2, full - 1)
    qb = full - pb
    c = rng.randrange(3)
    p = rand_odd(rng, pb)
    q = rand_odd(rng, qb)
    if c == 0:
        # biggest primes-like factors: all ones
        p = (1 << pb) - 1
        q = (1 << qb) - 1
    m = p * q
    if m >= (1 << full) or m < 3 or p == 1 or q == 1:
        return None
    x = rng.randrange(1, q)
    y = rng.randrange(1, p)
    if rng.random() < 0.5:
        x, y = 1, 1
    return p * x, q * y, m


def square_on_modulus(rng, n, bits=None):
    full = 64 * n if bits is None else bits
    if full < 4:
        return None
    pb = full // 2
    p = rand_odd(rng, pb) if rng.random() < 0.6 else (1 << pb) - 1
    if p < 3:
        return None
    m = p * p
    if m >= (1 << full):
        return None
    return p * rng.randrange(1, p), m


def slice_cases(rng, n):
    m = modulus(rng, n)
    inv = inv64(m)
    out = []
    r = rng.random()
    if r < 0.12:
        t = on_modulus(rng, n)
        if t:
            a, b, m = t
            return ['mulredc %d %s %s %s %s' % (n, hx(a), hx(b), hx(m), hx(inv64(m)))]
    elif r < 0.2:
        t = square_on_modulus(rng, n)
        if t:
            a, m = t
            return ['sqredc %d %s %s %s' % (n, hx(a), hx(m), hx(inv64(m))),
                    'mulredc %d %s %s %s %s' % (n, hx(a), hx(a), hx(m), hx(inv64(m)))]
    a = operand(rng, n, m)
    b = operand(rng, n, m)
    out.append('mulredc %d %s %s %s %s' % (n, hx(a), hx(b), hx(m), hx(inv)))
    out.append('sqredc %d %s %s %s' % (n, hx(a), hx(m), hx(inv)))
    return out


def uint_cases(rng, bits):
    n = nlimbs(bits)
    m = modulus(rng, n, bits)
    inv = inv64(m)
    r = rng.random()
    if r < 0.1:
        t = on_modulus(rng, n, bits)
        if t:
            a, b, m = t
            return ['umulredc %d %s %s %s %s' % (bits, hx(a), hx(b), hx(m), hx(inv64(m)))]
    elif r < 0.18:
        t = square_on_modulus(rng, n, bits)
        if t:
            a, m = t
            return ['usqredc %d %s %s %s' % (bits, hx(a), hx(m), hx(inv64(m)))]
    a = operand(rng, n, m)
    b = operand(rng, n, m)
    return ['umulredc %d %s %s %s %s' % (bits, hx(a), hx(b), hx(m), hx(inv)),
            'usqredc %d %s %s %s' % (bits, hx(a), hx(m), hx(inv))]


def gen(rng, tier):
    n_cases = 30000 if tier == 'quick' else 5000000
    # BITS = 0: the wrappers return ZERO before touching anything
    yield 'umulredc 0 0 0 0 0'
    yield 'usqredc 0 0 0 0'
    # the full grid top-limb class x operand class at every N, both functions
    for n in range(1, 17):
        for top in TOPS + [0]:
            for lowc in range(3):
                low = [(1 << (64 * (n - 1))) - 1, 0, rng.getrandbits(64 * (n - 1)) if n > 1 else 0][lowc]
                m = ((top << (64 * (n - 1))) | low | 1)
                if m < 3:
                    continue
                inv = inv64(m)
                ops = [0, 1 % m, m - 1, (m - 2) % m, rng.randrange(m), m // 2, ((1 << (64 * n)) - 1) % m]
                for a in ops:
                    for b in (ops if lowc == 0 else [m - 1, rng.randrange(m)]):
                        yield 'mulredc %d %s %s %s %s' % (n, hx(a), hx(b), hx(m), hx(inv))
                    yield 'sqredc %d %s %s %s' % (n, hx(a), hx(m), hx(inv))
    # exhaustive tiny Uint widths: every odd modulus, every operand pair
    for bits in range(1, 6 if tier == 'quick' else 8):
        for m in range(1, 1 << bits, 2):
            inv = inv64(m)
            for a in range(m):
                yield 'usqredc %d %s %s %s' % (bits, hx(a), hx(m), hx(inv))
                for b in range(m):
                    yield 'umulredc %d %s %s %s %s' % (bits, hx(a), hx(b), hx(m), hx(inv))
    k = 0
    while k < n_cases:
        if rng.random() < 0.6:
            cs = slice_cases(rng, rng.randrange(1, 17) if rng.random() < 0.7 else rng.choice([1, 2, 3, 4]))
        else:
            cs = uint_cases(rng, rng.choice(UINT_WIDTHS))
        for c in cs:
            yield c
            k += 1


# ----------------------------------------------------------------------------------------------
# (G) generated facts: the two carry thresholds and their comparison operators

OPS = {'>=': '>=', '>': '>', '<=': '<=', '<': '<', '==': '=', '!=': '≠'}
HEADER = '''/-! GENERATED by `tools/props/c11.py: translate` from `src/algorithms/mul_redc.rs` — do not edit.
    The carry thresholds of `mul_redc` / `square_redc` and the comparisons they are used in, as they appear in
    the source. The facts the C11 theorems assume about them are proved in `Ruint/Gen/RedcFacts.lean`
    (re-checked on every run against this file). Core Lean only: the driver links it. -/
namespace Ruint.Gen.RedcConsts

/-- `mul_redc`: `%s` -/
def T_mul : Nat := 0x%x
/-- `square_redc`: `%s` -/
def T_sq : Nat := 0x%x

/-- the condition under which `mul_redc` keeps the extra carry bit, as a function of `modulus[N-1]`. -/
def keepMul (top : Nat) : Bool := decide (top %s T_mul)
/-- the condition under which `square_redc` takes the wide-carry arm. -/
def keepSq (top : Nat) : Bool := decide (top %s T_sq)

end Ruint.Gen.RedcConsts
'''


def fn_body(src, name):
    """text of `pub fn <name>` up to the matching closing brace"""
    m = re.search(r'pub fn %s\b' % name, src)
    if not m:
        return None
    i = src.find('{', src.find(')', m.end()))
    # skip the return type: first `{` after the `->` clause
    i = src.find('{', src.find('->', m.end()))
    depth = 0
    for j in range(i, len(src)):
        if src[j] == '{':
            depth += 1
        elif src[j] == '}':
            depth -= 1
            if depth == 0:
                return src[i:j + 1]
    return None


def threshold(body):
    """the `if modulus[N - 1] <op> <literal> {` comparison of a function body"""
    if body is None:
        return None
    ms = re.findall(r'if\s+modulus\s*\[\s*N\s*-\s*1\s*\]\s*(>=|<=|==|!=|>|<)\s*(0x[0-9a-fA-F_]+|[0-9_]+)(?:_?u64)?\s*\{', body)
    if len(ms) != 1:
        return None
    op, lit = ms[0]
    lit = lit.replace('_', '')
    return op, int(lit, 16) if lit.startswith('0x') else int(lit), 'if modulus[N - 1] %s %s' % (op, ms[0][1])


def translate(repo, lean):
    info = translate_thresholds(repo, lean)
    # word helpers (carrying_mul_add, carrying_double_mul_add, carrying_add, borrowing_sub) regenerated from the
    # source; Props/C11.word_primitives_match_source proves the model's primitives equal to them
    try:
        w = gentie.gen_words(repo, lean)
        info['words'] = w
        info['changed'] = bool(info.get('changed')) or bool(w.get('changed'))
    except Exception as e:  # translator could not parse the (reorganised) source: tie unavailable, not a violation
        info['words_unavailable'] = repr(e)
    return info


def translate_thresholds(repo, lean):
    path = os.path.join(repo, 'src', 'algorithms', 'mul_redc.rs')
    out = os.path.join(lean, 'Ruint', 'Gen', 'RedcConsts.lean')
    info = {'changed': False, 'obligations': [], 'source': 'src/algorithms/mul_redc.rs'}
    try:
        src = open(path).read()
    except OSError:
        info['unavailable'] = 'mul_redc.rs not found'
        return info
    tm = threshold(fn_body(src, 'mul_redc'))
    ts = threshold(fn_body(src, 'square_redc'))
    if not tm or not ts:
        # the code was reorganised: the tie is unavailable (not a violation); the committed file is kept
        info['unavailable'] = 'threshold comparison not found in mul_redc / square_redc (anchor `if modulus[N - 1] <op> <literal> {`)'
        return info
    text = HEADER % (tm[2], tm[1], ts[2], ts[1], OPS[tm[0]], OPS[ts[0]])
    old = open(out).read() if os.path.exists(out) else None
    if old != text:
        with open(out, 'w') as f:
            f.write(text)
        info['changed'] = True
    info['T_mul'] = hex(tm[1])
    info['T_sq'] = hex(ts[1])
    info['keepMul'] = 'modulus[N-1] %s T_mul' % tm[0]
    info['keepSq'] = 'modulus[N-1] %s T_sq' % ts[0]
    info['obligations'] = ['Ruint.Gen.RedcFacts.keepMul_sound', 'Ruint.Gen.RedcFacts.keepSq_sound']
    return info


# ----------------------------------------------------------------------------------------------
# thorough tier: the corpus and a structured sample again under --release (debug_assert!s compiled out: a dropped
# carry is then a wrong value instead of a panic); judged against python big-integer arithmetic

def py_spec(case):
    t = case.split(' ')
    op = t[0]
    if op in ('mulredc', 'umulredc'):
        n, a, b, m = int(t[1]), int(t[2], 16), int(t[3], 16), int(t[4], 16)
    else:
        n, a, m = int(t[1]), int(t[2], 16), int(t[3], 16)
        b = a
    if op[0] == 'u':
        if n == 0:
            return '0'
        n = nlimbs(n)
    r = 1 << (64 * n)
    return hx(a * b * pow(r, -1, m) % m) if m > 1 else '0'


def extra_checks(tier, rng, findings):
    if tier != 'thorough' and __import__('os').environ.get('VERIF_RELEASE_RERUN') != '1':
        return {}
    import vlib
    binpath, secs = vlib.build_harness(BIN, release=True)
    cases = []
    cpath = os.path.join(vlib.ROOT, 'corpus', 'C11.cases')
    if os.path.exists(cpath):
        cases += [l.strip() for l in open(cpath) if l.strip() and not l.startswith('#')]
    g = gen(rng, 'quick')
    for k, c in enumerate(g):
        cases.append(c)
        if k > 60000:
            break
    impl, _ = vlib.run_impl(binpath, cases, timeout=900)
    viol = []
    for c, i in zip(cases, impl):
        want = py_spec(c)
        if i != want:
            viol.append(('impl-violation', c, i + ' (release profile)', 'skip', want))
    return {'violations': viol[:50],
            'coverage': {'release_profile_rerun': {'cases': len(cases), 'mismatches': len(viol), 'build_s': round(secs, 1),
                                                   'oracle': 'python big integers: a*b*R^-1 mod m'}}}
