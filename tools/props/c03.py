"""C03 — Euclidean division at the Uint surface: case generator (C14's (q,d,r) constructions pushed through the Uint API)."""
from vgen import *
from props import c14

BIN = 'c03'
DRV = 'drv_c03'
W = 1 << 64
OPS = ['divrem', 'wdiv', 'wrem', 'cdiv', 'crem', 'divceil', 'cnmo', 'nmo',
       'div0', 'div1', 'div2', 'div3', 'div4', 'div5', 'rem0', 'rem1', 'rem2', 'rem3', 'rem4', 'rem5']
CORE = ['divrem', 'cdiv', 'crem', 'divceil', 'cnmo', 'nmo']
RULE = ('corpus, then exhaustive (n, d) pairs at widths 0..5 (0..7 thorough) for the 6 core ops, then per width of the 37-width grid and per '
        'divisor limb-length 1..LIMBS: structured divisors (every shift class, zero low limbs, 2^k, MAX, normalised / un-normalised top limb) '
        'x numerators n = q*d + r with extreme q, r; n = k*d - eps (add-back); remainder just below d followed by one more limb (forced digit); '
        'numerator leading limbs = divisor leading limbs; d > n; d = 0; next-multiple overflow boundary (largest multiple that fits, +-1); '
        'over 20 entry points (methods + 6 operand shapes of / and %). non-trivial = width > 0, d != 0, n >= d; distinct by case hash')
TRUSTED = ['div_ceil / checked_next_multiple_of are L2 models: `q + ONE`, `checked_add`, `checked_mul` enter by their value-level meaning (C01/C02)']
ASSUMPTIONS = ['operands are canonical Uint values (the harness constructs them with from_limbs from values < 2^BITS)']
TIMEOUT = 900


def nontrivial(c, i):
    t = c.split(' ')
    if t[1] == '0':
        return False
    n, d = int(t[2], 16), int(t[3], 16)
    return d != 0 and n >= d


def uint_divisor(rng, bits, n):
    """divisor with exactly n limbs, < 2^bits"""
    L = nlimbs(bits)
    topbits = bits - 64 * (n - 1) if n == L else 64   # usable bits of the top limb
    topbits = min(64, topbits)
    c = rng.randrange(10)
    if c == 0:
        return 1 << (64 * (n - 1) + rng.randrange(topbits))          # 2^k
    if c == 1 and n == L:
        return (1 << bits) - 1                                        # MAX
    if c == 2:
        return (1 << (64 * (n - 1) + topbits)) - 1                    # all ones, n limbs
    shift = 64 - topbits + (0 if rng.random() < 0.5 else rng.randrange(topbits))
    return c14.divisor(rng, n, shift)


def uint_pairs(rng, bits, n):
    """(N, d) pairs at this width for a divisor of n limbs"""
    m = 1 << bits
    d = uint_divisor(rng, bits, n)
    assert 0 < d < m
    qbits = bits - d.bit_length()
    out = []

    def q_of():
        c = rng.randrange(6)
        if qbits <= 0:
            return rng.choice([0, 1]) if d * 1 < m else 0
        if c == 0:
            return (1 << qbits) - 1
        if c == 1:
            return 1 << rng.randrange(qbits)
        if c == 2:
            return c14.digits(rng, (qbits + 63) // 64) & ((1 << qbits) - 1)
        if c == 3:
            return rng.choice([0, 1])
        return rng.getrandbits(qbits)
    # q*d + r
    q = q_of()
    r = rng.choice([0, 1 % d, d - 1, max(0, d - 2), rng.randrange(d)])
    out.append((q * d + r, d))
    # k*d - eps
    k = max(1, q_of())
    out.append((k * d - c14.small_eps(rng, d), d))
    # remainder just below d, then one more limb (forced digit)
    if qbits >= 64:
        qh = q_of() >> 64
        v = qh * d + (d - c14.small_eps(rng, d))
        v = (v << 64) | c14.word(rng)
        if v < m:
            out.append((v, d))
    # leading limbs equal
    sh = 64 * rng.randrange(0, max(1, (bits - d.bit_length()) // 64 + 1))
    v = d << sh
    if v < m:
        out.append((v + (rng.getrandbits(sh) if sh and rng.random() < 0.5 else 0), d))
        out.append((v - 1, d))
    # d > n, n = 0, n = MAX
    out.append((rng.randrange(d), d))
    out.append((m - 1, d))
    out.append((rng.choice([0, d, d + 1 if d + 1 < m else d, 2 * d if 2 * d < m else d]), d))
    # next-multiple overflow boundary
    kmax = (m - 1) // d
    out.append((kmax * d, d))
    if kmax * d + 1 < m:
        out.append((kmax * d + 1, d))
    if kmax * d >= 1:
        out.append((kmax * d - 1, d))
    out.append((value(rng, bits), d))
    return [(N % m, d) for N, d in out if N >= 0]


def translate(repo, lean):
    """C03's theorems rest on the C14 division model, which uses the reciprocal table and the word kernels
    regenerated from the source: regenerate them here too, so that a change there breaks C03's obligations as well."""
    import props.c14 as c14
    info = c14.translate(repo, lean)
    info['note'] = 'delegated to tools/props/c14.py: translate (reciprocal TABLE + rs2lean word kernels)'
    return info


def suspect_row_uint_cases(rng):
    """table rows whose per-row facts fail: divisors found by C14's row scan (a search aid), pushed through the Uint API
    as the top limb of 1-, 2- and 3-limb divisors (the reciprocal of the normalised top limb(s) is what the kernels use)."""
    import props.c14 as c14
    out = []
    W = 1 << 64
    for i in c14.SUSPECT_ROWS:
        ds = []
        for c in c14.suspect_row_cases(rng, i, scan=400000, emit=200):
            t = c.split(' ')
            if t[0] == 'recip':
                ds.append(int(t[2], 16))
        for d in ds[:4000]:
            sh = rng.randrange(0, 64)
            for bits, dv in ((64, d), (64, d >> sh if d >> sh else d), (128, d), (128, (d << 64) | rng.getrandbits(64)),
                             (192, (d << 64) | rng.getrandbits(64)), (256, (d << 128) | rng.getrandbits(128)), (256, d)):
                m = (1 << bits) - 1
                for N in (m, rng.getrandbits(bits), (dv * rng.getrandbits(max(bits - dv.bit_length(), 1)) + dv - 1) & m):
                    out.append('divrem %d %x %x' % (bits, N, dv))
    return out


def gen(rng, tier):
    thorough = tier != 'quick'
    exh = 7 if thorough else 5
    for c in suspect_row_uint_cases(rng):
        yield c
    for bits in range(0, exh + 1):
        for a in range(1 << bits):
            for b in range(1 << bits):
                for op in CORE:
                    yield '%s %d %x %x' % (op, bits, a, b)
    # zero divisor at every width through every entry point
    for bits in GRID_ALL:
        for op in OPS:
            yield '%s %d %x 0' % (op, bits, value(rng, bits))
    reps = 100 if thorough else 1
    for _ in range(reps):
        for bits in GRID_ALL:
            if bits == 0:
                continue
            L = nlimbs(bits)
            for n in range(1, L + 1):
                # every divisor limb length at each width (cap the very wide ones in the quick tier)
                if L > 16 and not thorough and n not in (1, 2, 3, 4, 5, 8, 16, 31, 32, 33, 48, 62, 63, 64):
                    continue
                for N, d in uint_pairs(rng, bits, n):
                    ops = [rng.choice(OPS), rng.choice(CORE)] if L > 2 else [rng.choice(OPS) for _ in range(3)] + ['divrem']
                    for op in ops:
                        yield '%s %d %x %x' % (op, bits, N, d)
    total = 3000000 if thorough else 25000
    k = 0
    while k < total:
        bits = rng.choice(GRID_ALL[1:])
        L = nlimbs(bits)
        n = rng.randrange(1, L + 1) if rng.random() < 0.7 else rng.randrange(1, min(L, 4) + 1)
        for N, d in uint_pairs(rng, bits, n):
            yield '%s %d %x %x' % (rng.choice(OPS), bits, N, d)
            k += 1
        if rng.random() < 0.2:
            a, b = pair(rng, bits)
            yield '%s %d %x %x' % (rng.choice(OPS), bits, a, b)
            k += 1
