"""Shared by c16.py / c17.py: reference encoders (Python, written from the format definitions), structured
values at every mode boundary, and field-aware mutation operators for every decoder."""
from vgen import *

# widths instantiated in harness/src/bin/codec_shared/mod.rs
WIDTHS = [0, 1, 2, 7, 8, 12, 16, 32, 60, 63, 64, 65, 100, 128, 160, 192, 250, 256, 384, 440, 448, 512, 535, 536,
          832, 1024, 2048, 2056]   # 2048/2056: RLP payloads of 256 / 257 bytes (two-byte length-of-length)
# always-included classes: BYTES%8=0 and BITS%64!=0 (60, 250, 440, 832?), BITS%8!=0 (1, 7, 12, 63, 65, 100, 250, 535)
W_FAST_PARTIAL = [w for w in WIDTHS if w and ((w + 7) // 8) % 8 == 0 and w % 64 != 0]   # 60, 63, 250, 440, 512? no
W_NONBYTE = [w for w in WIDTHS if w % 8 != 0]
W_SMALL = [0, 1, 2, 7, 8, 12, 16]
PG_TYPES = ['BOOL', 'INT2', 'INT4', 'OID', 'INT8', 'MONEY', 'BYTEA', 'BIT', 'VARBIT', 'CHAR', 'TEXT', 'VARCHAR',
            'JSON', 'JSONB', 'NUMERIC']


def nbytes(bits):
    return (bits + 7) // 8


def hb(b):
    return bytes(b).hex() if len(b) else '-'


def be(v, n=None):
    if n is None:
        n = (v.bit_length() + 7) // 8
    return v.to_bytes(n, 'big')


def le(v, n=None):
    if n is None:
        n = (v.bit_length() + 7) // 8
    return v.to_bytes(n, 'little')


# ---------------------------------------------------------------------------------------------
# reference encoders

def rlp_str(p):
    p = bytes(p)
    if len(p) == 1 and p[0] < 0x80:
        return p
    if len(p) < 56:
        return bytes([0x80 + len(p)]) + p
    lb = be(len(p))
    return bytes([0xb7 + len(lb)]) + lb + p


def rlp_enc(v):
    return rlp_str(be(v))


def scale_len(n):
    if n < 1 << 6:
        return bytes([n << 2])
    if n < 1 << 14:
        return le((n << 2) | 1, 2)
    if n < 1 << 30:
        return le((n << 2) | 2, 4)
    return bytes([3]) + le(n, 4)


def scale_fixed(bits, v):
    return scale_len(nbytes(bits)) + le(v, nbytes(bits))


def scale_compact(v):
    if v < 1 << 6:
        return bytes([v << 2])
    if v < 1 << 14:
        return le((v << 2) | 1, 2)
    if v < 1 << 30:
        return le((v << 2) | 2, 4)
    p = le(v)
    return bytes([(3 + ((len(p) - 4) << 2)) & 0xff]) + p


def der_len(n):
    if n < 0x80:
        return bytes([n])
    b = be(n)
    return bytes([0x80 + len(b)]) + b


def der_content(v):
    p = be(v)
    if not p or p[0] >= 0x80:
        p = b'\0' + p
    return p


def der_enc(v):
    c = der_content(v)
    return b'\x02' + der_len(len(c)) + c


def bincode_enc(bits, v):
    return le(nbytes(bits), 8) + be(v, nbytes(bits))


def json_enc(v):
    return ('"0x%x"' % v).encode()


def pg_enc(ty, bits, v):
    """to_sql reference; None if the value does not fit the column type"""
    if ty == 'BOOL':
        return bytes([v]) if v <= 1 else None
    if ty == 'INT2':
        return be(v, 2) if v < 1 << 15 else None
    if ty == 'INT4':
        return be(v, 4) if v < 1 << 31 else None
    if ty == 'OID':
        return be(v, 4) if v < 1 << 32 else None
    if ty == 'INT8':
        return be(v, 8) if v < 1 << 63 else None
    if ty == 'MONEY':
        return be(v * 100, 8) if v * 100 < 1 << 63 else None
    if ty == 'BYTEA':
        return be(v, nbytes(bits))
    if ty in ('BIT', 'VARBIT'):
        if bits == 0:
            return None if ty == 'BIT' else b'\0\0\0\0'
        pad = 8 - ((bits - 1) % 8 + 1)
        return be(bits, 4) + be(v << pad, nbytes(bits))
    if ty in ('CHAR', 'TEXT', 'VARCHAR'):
        return ('0x%x' % v).encode()
    if ty == 'JSON':
        return json_enc(v)
    if ty == 'JSONB':
        return b'\x01' + json_enc(v)
    if ty == 'NUMERIC':
        ds = []
        x = v
        while x:
            ds.append(x % 10000)
            x //= 10000
        ds.reverse()
        exp = max(len(ds) - 1, 0)
        while ds and ds[-1] == 0:
            ds.pop()
        return be(len(ds), 2) + be(exp, 2) + b'\0\0\0\0' + b''.join(be(d, 2) for d in ds)
    return None


# ---------------------------------------------------------------------------------------------
# values

_BV_CACHE = {}


def boundary_values(bits):
    """every format's mode boundaries +-1, small values in wide types, full width"""
    if bits in _BV_CACHE:
        return _BV_CACHE[bits]
    s = {0, 1, 2, 0x3f, 0x40, 0x41, 0x7f, 0x80, 0x81, 0xff, 0x100, 0x101, (1 << 14) - 1, 1 << 14, (1 << 14) + 1,
         (1 << 15) - 1, 1 << 15, (1 << 30) - 1, 1 << 30, (1 << 30) + 1, (1 << 31) - 1, 1 << 31, (1 << 32) - 1, 1 << 32,
         (1 << 56) - 1, 1 << 56, (1 << 63) - 1, 1 << 63, (1 << 64) - 1, 1 << 64, (1 << 120) - 1, 1 << 120,
         (1 << 128) - 1, 1 << 128, 92233720368547758, 92233720368547759, 9999, 10000, 10001, 99999999, 100000000,
         10000 ** 3, 10000 ** 3 + 1, 10000 ** 5 * 7, 18446744073709551615, 18446744073709551616,
         (1 << 439) - 1, 1 << 439, (1 << 440) - 1, 1 << 440, (1 << 440) + 1, (1 << 447), (1 << 448) - 1, 1 << 448,
         (1 << 520) - 1, 1 << 520, (1 << 528) - 1, 1 << 528, (1 << 535) - 1}
    for k in range(1, nbytes(bits) + 2):
        for d in (-1, 0, 1):
            s.add((1 << (8 * k)) + d)
            s.add((1 << (8 * k - 1)) + d)
    if bits:
        m = 1 << bits
        s |= {m - 1, m - 2, m >> 1, (m >> 1) - 1, (m >> 1) + 1}
    _BV_CACHE[bits] = sorted(x for x in s if 0 <= x < (1 << bits) or (bits == 0 and x == 0))
    return _BV_CACHE[bits]


def struct_value(rng, bits):
    if bits == 0:
        return 0
    r = rng.random()
    if r < 0.45:
        return rng.choice(boundary_values(bits))
    if r < 0.6:   # small value in a wide type
        return rand_bits(rng, rng.choice([1, 3, 6, 7, 8, 14, 15, 16, 30, 31, 32, 56, 64]) ) % (1 << bits)
    return value(rng, bits)


# ---------------------------------------------------------------------------------------------
# mutations

def mut_generic(rng, b):
    """format-agnostic single mutations"""
    b = bytearray(b)
    c = rng.randrange(9)
    if c == 0 and b:
        del b[rng.randrange(len(b)):]                     # truncation at a random offset
    elif c == 1 and b:
        i = rng.randrange(len(b)); b[i] = rng.choice([0, 1, 0x7f, 0x80, 0x81, 0xff, b[i] ^ (1 << rng.randrange(8))])
    elif c == 2:
        b += bytes(rng.choice([0, 0x5a, 0xff, 0x80]) for _ in range(rng.randrange(1, 4)))   # trailing bytes
    elif c == 3:
        i = rng.randrange(len(b) + 1); b.insert(i, rng.choice([0, 0xff, 0x80, 0x7f]))
    elif c == 4 and b:
        del b[rng.randrange(len(b))]
    elif c == 5 and b:
        b[0] = (b[0] + rng.choice([1, -1, 0x40, 0x38, 0x80])) & 0xff                       # tag / mode / list-vs-string
    elif c == 6 and b:
        b[-1] = (b[-1] + rng.choice([1, -1])) & 0xff
    elif c == 7 and b:
        for i in range(len(b)):
            if rng.random() < 0.3:
                b[i] = 0xff
    else:
        b = bytearray(rng.getrandbits(8) for _ in range(rng.randrange(0, 12)))
    return bytes(b)


def all_truncations(b):
    return [bytes(b[:i]) for i in range(len(b))]


def over_values(rng, bits):
    """values just outside the type: 2^bits, 2^bits + small, top bits set inside the top byte / top limb"""
    m = 1 << bits
    out = [m, m + 1, m | rand_bits(rng, bits), (1 << (8 * nbytes(bits))) - 1 if bits % 8 else (m << 8) - 1,
           (1 << (64 * nlimbs(bits))) - 1 if bits % 64 else (m << 64) - 1, m << 1, m << 7, m << 8]
    return [x for x in out if x >= m]


def rlp_mutants(rng, bits, v):
    """field-aware RLP mutations of the canonical encoding of v (v may be >= 2^bits: excess high bits)"""
    p = be(v)
    out = []
    e = rlp_str(p)
    out.append(e)
    # leading zero payload byte (length adjusted) and more zeros up to BYTES+1
    for z in (1, 2, max(0, nbytes(bits) - len(p)), max(0, nbytes(bits) - len(p) + 1)):
        if z:
            out.append(rlp_str(b'\0' * z + p))
    # single byte wrapped / unwrapped
    if len(p) == 1:
        out.append(bytes([0x81]) + p)
        out.append(p)
    if len(p) == 0:
        out.append(b'\x00')
        out.append(b'\x81\x00')
    # short payload in long form (non-canonical size), long-form length with leading zero
    if len(p) < 56:
        out.append(bytes([0xb8, len(p)]) + p)
        out.append(bytes([0xb9, 0, len(p)]) + p)
    else:
        lb = be(len(p))
        out.append(bytes([0xb7 + len(lb) + 1, 0]) + lb + p)
        out.append(bytes([0xb7 + len(lb)]) + be(len(p) + 1) + p)
        out.append(bytes([0xb7 + len(lb)]) + be(len(p) - 1) + p)
        out.append(bytes([0x80 + min(len(p), 0x37)]) + p)
    # length byte +-1
    if e and e[0] >= 0x80:
        for d in (1, -1):
            out.append(bytes([(e[0] + d) & 0xff]) + e[1:])
    # list instead of string
    if e[0] >= 0x80:
        out.append(bytes([(e[0] + 0x40) & 0xff]) + e[1:])
    else:
        out.append(bytes([0xc1]) + e)
    # trailing bytes
    out.append(e + b'\x00')
    out.append(e + bytes([rng.getrandbits(8)]) * 2)
    # huge declared length
    out.append(bytes([0xbf]) + b'\xff' * 8 + p)
    out.append(bytes([0xbb, 0xff, 0xff, 0xff, 0xff]) + p)
    # truncation at every offset
    out += all_truncations(e)
    return out


def scale_fixed_mutants(rng, bits, v):
    n = nbytes(bits)
    p = le(v, max(n, (v.bit_length() + 7) // 8))
    out = [scale_len(len(p)) + p]
    # shorter vectors (valid, non-canonical) and longer ones with zero padding
    q = le(v)
    out.append(scale_len(len(q)) + q)
    out.append(scale_len(len(p) + 1) + p + b'\0')
    # non-minimal length prefix modes
    L = len(p)
    out.append(le((L << 2) | 1, 2) + p)
    out.append(le((L << 2) | 2, 4) + p)
    out.append(bytes([3]) + le(L, 4) + p)
    out.append(bytes([7]) + le(L, 8)[:5] + p)
    # length +-1
    out.append(scale_len(L + 1) + p)
    if L:
        out.append(scale_len(L - 1) + p)
    out.append(scale_len(L) + p + b'\x5a')
    out += all_truncations(scale_len(L) + p)
    return out


def scale_compact_mutants(rng, bits, v):
    e = scale_compact(v)
    out = [e, e + b'\x00']
    # the value in every wider mode (non-canonical)
    if v < 1 << 14:
        out.append(le((v << 2) | 1, 2))
    if v < 1 << 30:
        out.append(le((v << 2) | 2, 4))
    for n in (4, 5, 7, 8, 9, 15, 16, 17, 32, 33, 67, nbytes(bits), nbytes(bits) + 1):
        if 4 <= n <= 67 and v < 1 << (8 * n):
            out.append(bytes([3 + ((n - 4) << 2)]) + le(v, n))
    # prefix length field +-1
    if e[0] & 3 == 3:
        out.append(bytes([(e[0] + 4) & 0xff]) + e[1:])
        out.append(bytes([(e[0] - 4) & 0xff]) + e[1:])
        out.append(bytes([(e[0] + 4) & 0xff]) + e[1:] + b'\0')
    out += all_truncations(e)
    return out


def fixed_le_mutants(rng, bits, v):
    n = nbytes(bits)
    p = le(v, max(n, (v.bit_length() + 7) // 8))
    out = [p, p + b'\0', p + b'\x5a', p[:-1] if p else b'\0', b'\xff' * n, b'\xff' * (n + 1), b'']
    out += all_truncations(p)
    return out


def der_mutants(rng, bits, v):
    c = der_content(v)
    e = der_enc(v)
    out = [e, e + b'\0']
    p = be(v)
    # sign byte: missing, redundant, negative
    out.append(b'\x02' + der_len(len(p)) + p)
    out.append(b'\x02' + der_len(len(c) + 1) + b'\0' + c)
    out.append(b'\x02' + der_len(len(c)) + bytes([c[0] | 0x80]) + c[1:])
    out.append(b'\x02' + der_len(len(c) + 1) + b'\xff' + c)
    # zero padded up to / beyond BYTES+1
    for z in (nbytes(bits) + 1 - len(c), nbytes(bits) + 2 - len(c)):
        if z > 0:
            out.append(b'\x02' + der_len(len(c) + z) + b'\0' * z + c)
    # length forms
    L = len(c)
    out.append(b'\x02\x81' + bytes([L & 0xff]) + c)
    out.append(b'\x02\x82' + be(L, 2) + c)
    out.append(b'\x02\x83' + be(L, 3) + c)
    out.append(b'\x02\x84' + be(L, 4) + c)
    out.append(b'\x02\x85' + be(L, 5) + c)
    out.append(b'\x02\x80' + c)
    out.append(b'\x02\x84\x10\x00\x00\x00' + c)
    out.append(b'\x02\x84\xff\xff\xff\xff' + c)
    out.append(b'\x02' + der_len(L + 1) + c)
    if L > 1:
        out.append(b'\x02' + der_len(L - 1) + c)
    out.append(b'\x02\x00')
    # tags
    for t in (0x03, 0x04, 0x22, 0x1f, 0x00, 0x82, 0xff, 0x30, 0x0a):
        out.append(bytes([t]) + e[1:])
    out += all_truncations(e)
    return out


def bincode_mutants(rng, bits, v):
    n = nbytes(bits)
    p = be(v, max(n, (v.bit_length() + 7) // 8))
    out = [le(len(p), 8) + p, le(len(p), 8) + p + b'\x5a']
    out.append(le(n + 1, 8) + b'\0' + p)
    out.append(le(len(p) + 1, 8) + p)
    if p:
        out.append(le(len(p) - 1, 8) + p)
        out.append(le(len(p) - 1, 8) + p[1:])
    out.append(le((1 << 64) - 1, 8) + p)
    out.append(le(1 << 32, 8) + p)
    out.append(le(n, 8) + b'\xff' * n)
    out += all_truncations(le(len(p), 8) + p)
    return out


TEXT_ALPHABET = '0123456789abcdefABCDEFxXoObB_gzZ -+."\\u /,=\n'


def text_forms(rng, bits, v):
    """texts around the quantity: prefixes, case, leading zeros, underscores, other radices, junk"""
    out = ['0x%x' % v, '0X%X' % v, '0x%064x' % v, '%d' % v, '0o%o' % v, '0b' + bin(v)[2:], '0B' + bin(v)[2:], '0O%o' % v,
           '0x' + '_'.join('%x' % v), '0x%x_' % v, '_0x%x' % v, '0x', '', '0', '0x0', '0x00', '00', '_', '0x_',
           '0x%xg' % v, '0x%x ' % v, ' 0x%x' % v, '-%d' % v, '+%d' % v, '0x-%x' % v, '%x' % v, 'x%x' % v,
           '0x%x' % (1 << bits), '%d' % (1 << bits), '0x%x' % ((1 << bits) - 1 if bits else 0), '%d' % ((1 << bits) - 1 if bits else 0),
           '0x1%s' % ('0' * ((bits + 3) // 4)), '0b1%s' % ('0' * bits), '0o%o' % (1 << bits), '9' * (bits // 3 + 2),
           '0x%xé' % v, '٠', '0z12', '0x%xz' % v, '1e3', '1.0', '0b102', '0o8', '12a',
           # a multi-byte character straddling byte offset 2 (prefix sniffing must test is_char_boundary(2)), and neighbours
           '1é', '€', '_ß', '7😀', '0€', '0é1', 'é', 'éé', '12é', 'é1', '😀', '%d€' % (v % 10)]
    s = list('0x%x' % v)
    if s:
        i = rng.randrange(len(s)); s[i] = rng.choice(TEXT_ALPHABET); out.append(''.join(s))
    return out


def json_forms(rng, bits, v):
    out = []
    for t in text_forms(rng, bits, v):
        if '\\' in t or '"' in t:
            continue
        out.append('"%s"' % t)
    q = '"0x%x"' % v
    out += [q, ' ' + q + '\n', q + ' x', q + q, q[:-1], q[1:], '"', '""', '"\\"', '"\\u0030x%x"' % v, '"0x\\u00e9"',
            '"\\u00"', '"\\ud800"', '"0x%x\\n"' % v, '"\\/"', '"0x\\u0031"', '"\\x30"', '"0x1\t"',
            '%d' % v, ' %d ' % v, '%d.0' % v, '%de0' % v, '-%d' % v, '-0', '0%d' % v, '%d' % (1 << bits),
            '18446744073709551615', '18446744073709551616', '1' + '0' * 30, 'null', 'true', '[]', '{}', '[%s]' % q,
            '', ' ', '0x10', 'x', '%d,' % v, '%d %d' % (v, v)]
    return out


def pg_mutants(rng, ty, bits, v):
    """field-aware mutations of the to_sql image (or of a plausible image when the value does not fit)"""
    e = pg_enc(ty, bits, v % (1 << bits) if bits else 0)
    out = []
    if e is not None:
        out.append(e)
    if ty in ('BOOL',):
        out += [b'', b'\0', b'\1', b'\2', b'\xff', b'\0\0', b'\1\0']
    elif ty in ('INT2', 'INT4', 'OID', 'INT8', 'MONEY'):
        n = {'INT2': 2, 'INT4': 4, 'OID': 4, 'INT8': 8, 'MONEY': 8}[ty]
        w = v & ((1 << (8 * n)) - 1)
        out += [be(w, n), be(w, n)[:-1], be(w, n) + b'\0', b'\xff' * n, b'\x80' + b'\0' * (n - 1), b'\x7f' + b'\xff' * (n - 1),
                b'', be((1 << bits) % (1 << (8 * n)), n), be(((1 << bits) - 1) % (1 << (8 * n)), n)]
        if ty == 'MONEY':
            for x in (v * 100 + 99, v * 100 + 100, (1 << 64) - 1, (1 << 64) - 99, (1 << 64) - 100, (1 << 64) - 101, 99, 100,
                      ((1 << bits) * 100) - 1, (1 << bits) * 100):
                out.append(be(x & ((1 << 64) - 1), 8))
    elif ty == 'BYTEA':
        n = nbytes(bits)
        for x in over_values(rng, bits)[:4]:
            out.append(be(x, max(n, (x.bit_length() + 7) // 8)))
        out += [b'\0' + be(v % (1 << bits) if bits else 0, n), be(v)[:n], b'\xff' * n, b'\xff' * (n + 1), b'']
    elif ty in ('BIT', 'VARBIT'):
        vv = v % (1 << bits) if bits else 0
        for ln in (bits, bits - 1, bits + 1, bits + 7, bits + 8, bits - 8, 0, 1, 4, 7, 8, 9, 64, 60):
            if ln < 0:
                continue
            pad = (8 - ln % 8) % 8
            x = vv & ((1 << ln) - 1) if ln else 0
            body = be(x << pad, (ln + 7) // 8)
            out.append(be(ln, 4) + body)
            out.append(be(ln, 4) + body + b'\0')
            if body:
                out.append(be(ln, 4) + body[:-1])
            out.append(be(ln, 4) + b'\xff' * ((ln + 7) // 8))
        out += [be(4, 4), be(bits, 4), b'\xff\xff\xff\xfc' + b'\x10', b'\x80\0\0\0', b'\0\0\0', b'', be(12, 4) + b'\xff\xff']
    elif ty in ('CHAR', 'TEXT', 'VARCHAR'):
        out += [t.encode() for t in text_forms(rng, bits, v)]
        out += [b'\xff', b'0x\xc3']
    elif ty in ('JSON', 'JSONB'):
        pre = b'\x01' if ty == 'JSONB' else b''
        for t in text_forms(rng, bits, v):
            out.append(pre + t.encode())
            out.append(pre + b'"' + t.encode() + b'"')
        out += [pre, pre + b'"', pre + b'""', pre + b'"0x1', pre + b'0x1"', pre + b'"\xff"', b'', b'\x00"0x1"', b'\x02"0x1"',
                b'"0x1"', b'\x01', b'\x01\x01"0x1"']
    elif ty == 'NUMERIC':
        vv = v % (1 << bits) if bits else 0
        ds = []
        x = vv
        while x:
            ds.append(x % 10000); x //= 10000
        ds.reverse()
        exp = max(len(ds) - 1, 0)
        full = list(ds)
        while ds and ds[-1] == 0:
            ds.pop()

        def img(nd, ex, sign, dscale, digs):
            return be(nd & 0xffff, 2) + be(ex & 0xffff, 2) + be(sign, 2) + be(dscale, 2) + b''.join(be(d & 0xffff, 2) for d in digs)
        out += [img(len(ds), exp, 0, 0, ds), img(len(full), exp, 0, 0, full), img(len(ds) + 1, exp, 0, 0, ds + [0]),
                img(len(ds), exp + 1, 0, 0, ds), img(len(ds), exp - 1, 0, 0, ds), img(len(ds), 0x7fff, 0, 0, ds),
                img(len(ds), 0x7ffe, 0, 0, ds), img(0, 0x7fff, 0, 0, []), img(0, 0x7ffe, 0, 0, []), img(0, 300, 0, 0, []),
                img(len(ds), exp, 0x4000, 0, ds), img(len(ds), exp, 0xc000, 0, ds), img(len(ds), exp, 0, 1, ds),
                img(len(ds) + 1, exp, 0, 0, ds), img(len(ds) - 1, exp, 0, 0, ds), img(-1, exp, 0, 0, ds),
                img(len(ds), -1, 0, 0, ds), img(len(ds), exp, 0, 0, ds)[:-1], img(len(ds), exp, 0, 0, ds) + b'\0',
                img(len(ds), exp + 40, 0, 0, ds), img(len(ds), exp + 400, 0, 0, ds)]
        if ds:
            for bad in (10000, 9999, -1, 0x7fff, 0x8000):
                k = rng.randrange(len(ds))
                d2 = list(ds); d2[k] = bad
                out.append(img(len(d2), exp, 0, 0, d2))
                out.append(img(len(d2), exp + 300, 0, 0, d2))
        # a value one base-10000 digit too large
        big = [1] + [0] * ((bits * 3 // 40) + 1)
        out.append(img(1, len(big) - 1, 0, 0, [1]))
        out.append(img(len(big), len(big) - 1, 0, 0, big))
        out += [b'', b'\0' * 7, b'\0' * 8, b'\0' * 9]
    return out


# ------------------------------------------------------------------------------------------------
# (G) mode boundaries and prefix constants of the hand-written codec logic, as data

def _num(tok):
    tok = tok.strip().replace('_', '')
    return int(tok, 0)


def translate_codec_tables(repo, lean):
    """SCALE compact (`src/support/scale.rs`): the bit-length ranges of `size_hint` and `encode_to` with their sizes / integer
    widths / mode tags, the big-integer prefix constants, `COMPACT_BITS_LIMIT`, the two range tests of the decoder; alloy-rlp
    (`src/support/alloy_rlp.rs`): the single-byte threshold of `length()` and `encode()`, `MAX_BITS`. Emitted as
    `Gen/CodecTable.lean`; `Gen/CodecTableFacts.lean` re-proves on every run that they are the constants the codec models were
    proved with (`Props/C16.gen_codec_tables`)."""
    import os, re
    tpath = os.path.join(lean, 'Ruint', 'Gen', 'CodecTable.lean')
    fpath = os.path.join(lean, 'Ruint', 'Gen', 'CodecTableFacts.lean')
    try:
        sc = open(os.path.join(repo, 'src', 'support', 'scale.rs')).read()
        sc = re.sub(r'//[^\n]*', '', sc)
        limit = _num(re.search(r'const COMPACT_BITS_LIMIT: usize = ([^;]+);', sc).group(1))
        hint = sc[sc.index('fn size_hint(&self) -> usize {\n        match self.0.bit_len()'):]
        hint = hint[:hint.index('\n    }\n')]
        hint_modes = [(_num(a), _num(b), _num(c)) for a, b, c in re.findall(r'(\d+)\.\.=(\d+) => (\d+),', hint)]
        if not re.search(r'_ => self\.0\.byte_len\(\) \+ 1,', hint):
            raise ValueError('size_hint default arm')
        enc = sc[sc.index('fn encode_to<T: Output + ?Sized>(&self, dest: &mut T)'):]
        enc = enc[:enc.index('\n    }\n')]
        enc = enc[enc.rindex('match self.0.bit_len() {'):]
        arms = re.findall(r'(\d+)\.\.=(\d+) => (.*?),\n', enc)
        enc_modes = []
        for lo, hi, rhs in arms:
            m1 = re.fullmatch(r'dest\.push_byte\(\(self\.0\.to::<u(\d+)>\(\)\) << (\d+)\)', rhs.strip())
            m2 = re.fullmatch(r'\(\(self\.0\.to::<u(\d+)>\(\) << (\d+)\) \| (0b[01]+|\d+)\)\.encode_to\(dest\)', rhs.strip())
            if m1:
                enc_modes.append((_num(lo), _num(hi), int(m1.group(1)), int(m1.group(2)), 0))
            elif m2:
                enc_modes.append((_num(lo), _num(hi), int(m2.group(1)), int(m2.group(2)), _num(m2.group(3))))
            else:
                raise ValueError('encode_to arm not understood: %r' % rhs)
        mb = re.search(r'assert!\(\s*bytes_needed >= (\d+),', enc)
        mp = re.search(r'dest\.push_byte\((0b[01]+|\d+) \+ \(\(bytes_needed - (\d+)\) << (\d+)\) as u8\);', enc)
        big = (_num(mb.group(1)), _num(mp.group(1)), _num(mp.group(2)), _num(mp.group(3)))
        dec = sc[sc.index('impl<const BITS: usize, const LIMBS: usize> Decode for CompactUint<BITS, LIMBS>'):]
        r1 = re.search(r'if \((0b[01_]+)\.\.=(0b[01_]+)\)\.contains\(&x\)', dec)
        r2 = re.search(r'if \((0b[01_]+)\.\.=u32::MAX >> (\d+)\)\.contains\(&x\)', dec)
        r3 = re.search(r'if x > u32::MAX >> (\d+) \{', dec)
        dec_consts = (_num(r1.group(1)), _num(r1.group(2)), _num(r2.group(1)), _num(r2.group(2)), _num(r3.group(1)))
        al = open(os.path.join(repo, 'src', 'support', 'alloy_rlp.rs')).read()
        al = re.sub(r'//[^\n]*', '', al)
        mx = re.search(r'const MAX_BITS: usize = (\d+) \* (\d+);', al)
        max_bits = int(mx.group(1)) * int(mx.group(2))
        ln = re.search(r'fn length\(&self\) -> usize \{\s*let bits = self\.bit_len\(\);\s*if bits <= (\d+) \{\s*1\s*\} else \{\s*let bytes = \(bits \+ (\d+)\) / (\d+);\s*bytes \+ length_of_length\(bytes\)', al)
        rlp_len = (int(ln.group(1)), int(ln.group(2)), int(ln.group(3)))
        en = re.search(r'match self\.bit_len\(\) \{\s*0 => out\.put_u8\(EMPTY_STRING_CODE\),\s*(\d+)\.\.=(\d+) => \{', al)
        rlp_single = (int(en.group(1)), int(en.group(2)))
        cmp_max = re.search(r'if bits (>|>=|<|<=) MAX_BITS \{', al).group(1)

        def lst(rows):
            return '[' + ', '.join('(' + ', '.join(str(x) for x in r) + ')' for r in rows) + ']'
        new = '\n'.join([
            '/-! GENERATED by tools/props/codec_common.py (`translate_codec_tables`) from `src/support/scale.rs` and',
            '    `src/support/alloy_rlp.rs` — do not edit. -/',
            'namespace Ruint.Gen.CodecTable', '',
            '/-- `CompactRefUint::size_hint`: (bit_len lo, hi, size); other bit lengths: `byte_len() + 1` -/',
            'def scaleHintModes : List (Nat × Nat × Nat) := ' + lst(hint_modes),
            '/-- `CompactRefUint::encode_to`: (bit_len lo, hi, width of the `to::<uN>()`, left shift, mode tag OR-ed in) -/',
            'def scaleEncModes : List (Nat × Nat × Nat × Nat × Nat) := ' + lst(enc_modes),
            '/-- big-integer mode: (asserted minimum of bytes_needed, prefix constant, subtracted offset, left shift) -/',
            'def scaleBig : Nat × Nat × Nat × Nat := (%d, %d, %d, %d)' % big,
            'def scaleBitsLimit : Nat := %d' % limit,
            '/-- decoder: mode-1 accepted range (lo, hi), mode-2 lower bound and the shift of `u32::MAX >> k`, shift of the 4-byte big-integer test -/',
            'def scaleDec : Nat × Nat × Nat × Nat × Nat := (%d, %d, %d, %d, %d)' % dec_consts,
            '/-- alloy-rlp `length()`: (single-byte threshold on bit_len, rounding addend, divisor) -/',
            'def rlpLen : Nat × Nat × Nat := (%d, %d, %d)' % rlp_len,
            '/-- alloy-rlp `encode()`: the single-byte arm `lo..=hi` on bit_len -/',
            'def rlpSingle : Nat × Nat := (%d, %d)' % rlp_single,
            'def rlpMaxBits : Nat := %d' % max_bits,
            '/-- the comparison of `bits` with MAX_BITS that selects the long form: 0 `>`, 1 `>=`, 2 `<`, 3 `<=` -/',
            'def rlpLongCmp : Nat := %d' % {'>': 0, '>=': 1, '<': 2, '<=': 3}[cmp_max], '',
            'end Ruint.Gen.CodecTable', ''])
        newf = '\n'.join([
            'import Ruint.Gen.CodecTable',
            '/-! GENERATED by tools/props/codec_common.py — do not edit. Re-proved on every run: the constants extracted from the',
            '    current sources are the ones the codec models (Model/Codec/Scale.lean, Rlp.lean) were proved with. -/',
            'namespace Ruint.Gen.CodecTable', '',
            'theorem tables_expected :',
            '    scaleHintModes = [(0, 6, 1), (7, 14, 2), (15, 30, 4)]',
            '    ∧ scaleEncModes = [(0, 6, 8, 2, 0), (7, 14, 16, 2, 1), (15, 30, 32, 2, 2)]',
            '    ∧ scaleBig = (4, 3, 4, 2) ∧ scaleBitsLimit = 536',
            '    ∧ scaleDec = (63, 16383, 16383, 2, 2)',
            '    ∧ rlpLen = (7, 7, 8) ∧ rlpSingle = (1, 7) ∧ rlpMaxBits = 440 ∧ rlpLongCmp = 0 := by decide', '',
            'end Ruint.Gen.CodecTable', ''])
        changed = False
        for pth, txt in ((tpath, new), (fpath, newf)):
            old = open(pth).read() if os.path.exists(pth) else ''
            if old != txt:
                open(pth, 'w').write(txt)
                changed = True
        return {'changed': changed, 'obligations': ['Ruint.Gen.CodecTable.tables_expected'],
                'tables': {'scale_hint': hint_modes, 'scale_enc': enc_modes, 'scale_big': big, 'scale_limit': limit,
                           'scale_dec': dec_consts, 'rlp_len': rlp_len, 'rlp_single': rlp_single, 'rlp_max_bits': max_bits,
                           'rlp_long_cmp': cmp_max}}
    except Exception as e:  # anchor vanished: the tie is unavailable
        return {'changed': False, 'unavailable': 'codec table anchors not found: %r' % (e,), 'obligations': []}
