"""C13 — pow / log / root are exact: case generator.

Case lines:  `opow|cpow|spow|wpow|pow bits a e`, `log|clog bits x base`, `log2|log10|clog2|clog10 bits x`,
`root bits x degree` (all numbers hex), `apow2i bits n` (approx_pow2 of the signed decimal integer n), `apow2 bits <raw f64 bits>`, `alog2 bits x`.  The harness prints the float-derived first guess of log/root next to
the result; the Lean driver runs the model from that guess and evaluates the theorems' hypotheses on it."""
import math
import os
import random
import struct

from vgen import *

BIN = 'c13'
DRV = 'drv_c13'
TIMEOUT = 600
POW_OPS = ['opow', 'cpow', 'spow', 'wpow', 'pow']
LOG1_OPS = ['log2', 'log10', 'clog2', 'clog10']
RULE = ('corpus (defect witnesses, doc examples, slow-convergence root example), then exhaustive (a,e) / (x,base) / (x,degree 0..bits+2) '
        'at widths 0..8 (quick: pow/log pairs to width 6 for all ops and to width 8 for opow/clog, root to width 8), then structured cases over '
        '37 widths: pow with a^e straddling 2^bits (largest non-overflowing exponent +-1, largest non-overflowing base +-1), bases '
        '0,1,2,3,10,2^32,MAX, exponents 0,1,2,63,64,65,bits+-1,huge; log with value = base^k-1/base^k/base^k+1, half-way values '
        '(estimate near x.5), base >= value, base = 2^k, bases 2,3,10,2^32,MAX, zero/one operands; root with value = r^k-1/r^k/r^k+1, '
        'MAX, degree in 1..bits+2, degree 0, degree >= bits, huge degree; approx_pow2 on all integer exponents -3..bits+3 and on fractional exponents at the thresholds / rounding boundaries '
        '(integer post-processing model, float pre-processing recomputed in the harness), approx_log2 bracket checks; the L1 operations of the loop bodies (overflowing_mul, *, +, /, saturating_shl(1), checked_add(1), bit_len) against their value-level specs; '
        'all cases shuffled; non-trivial = width>0 and not all operands zero; distinct by case hash')
TRUSTED = ['libm (log2, exp2) and the host FPU: NOT modelled; the float-derived first guess of log/root is a parameter of the model, '
           'read back from the implementation through verif_hooks::tap and checked against the theorems\' hypothesis on every case',
           'root: the integer first guess is obtained in the harness by calling the real Uint::approx_pow2 on the tapped f64',
           'apow2: the float pre-processing of approx_pow2 (threshold comparisons, trunc, fract, exp2, cast to u64) is recomputed in the harness '
           'with the same libm calls; only the integer post-processing is modelled and proved',
           'apow2i assumes exp2(0.0) = 1.0 and exact i64 -> f64 conversion for |n| < 2^53; alog2 only checks floor(log2 x) <= result <= floor(log2 x)+1']
ASSUMPTIONS = ['log_spec assumes est < 2^bits and (est <= floor_log+1 or base^est < 2^bits) for the float estimate; monitored per case',
               'root_spec assumes guessOk (first guess >= 1 and (k-1)*max(g,2s) + x / min(g,s)^(k-1) < 2^bits); monitored per case',
               'L2 model: loop bodies use the value-level specs of overflowing_mul / checked_add / div / cmp / shl (C02, C01, C03, C05)']


def nontrivial(c, i):
    t = c.split(' ')
    return t[1] != '0' and any(x not in ('0', '-') for x in t[2:])


def finding_tag(case, impl, model, spec):
    t = case.split(' ')
    bits = int(t[1])
    if impl == 'panic' and (
            (t[0] in ('clog', 'clog2', 'log2') and bits < 2) or (t[0] in ('clog10', 'log10') and bits < 4)):
        return 'c13_log_small_width_panic'
    return None


# ---- integer helpers ---------------------------------------------------------------------------

def iroot(x, k):
    """floor(x^(1/k))"""
    if x < 2:
        return x
    lo, hi = 1, 1 << (x.bit_length() // k + 1)
    while hi - lo > 1:
        mid = (lo + hi) // 2
        if mid ** k <= x:
            lo = mid
        else:
            hi = mid
    return lo


def ilog(base, x):
    l, p = 0, 1
    while p * base <= x:
        p *= base
        l += 1
    return l


def isqrt(n):
    return iroot(n, 2)


def fits(bits, *vs):
    return all(0 <= v < (1 << bits) for v in vs)


# ---- structured generators ---------------------------------------------------------------------

def pow_bases(rng, bits):
    m = 1 << bits
    c = [0, 1, 2, 3, 10, 1 << 32, (1 << 32) + 1, m - 1, m - 2, 1 << rng.randrange(max(bits, 1)),
         (1 << rng.randrange(max(bits, 1))) + 1, (1 << rng.randrange(max(bits, 1))) - 1,
         rng.randrange(2, 100), value(rng, bits), rand_bits(rng, rng.randrange(1, min(bits, 40) + 1))]
    return [v for v in c if 0 <= v < m]


def pow_exps(rng, bits):
    m = 1 << bits
    c = [0, 1, 2, 3, 63, 64, 65, bits - 1, bits, bits + 1, m - 1, m - 2, value(rng, bits),
         rng.randrange(0, 2 * bits + 2), 1 << rng.randrange(max(bits, 1))]
    return [v for v in c if 0 <= v < m]


def gen_pow(rng, bits):
    m = 1 << bits
    if bits == 0:
        return [(0, 0)]
    out = []
    r = rng.random()
    if r < 0.35:
        # a^e straddling 2^bits: largest non-overflowing exponent for a base
        a = rng.choice([v for v in pow_bases(rng, bits) if v >= 2] or [1])
        if a >= 2:
            e0 = ilog(a, m - 1)          # a^e0 <= MAX < a^(e0+1)
            for e in (e0 - 1, e0, e0 + 1, e0 + 2):
                if 0 <= e < m:
                    out.append((a, e))
    elif r < 0.6:
        # largest non-overflowing base for an exponent
        e = rng.choice([2, 3, 4, 5, 7, rng.randrange(2, bits + 2), rng.randrange(2, bits + 2)])
        if e < m:
            a0 = iroot(m - 1, e)
            for a in (a0 - 1, a0, a0 + 1, a0 + 2):
                if 0 <= a < m:
                    out.append((a, e))
    elif r < 0.8:
        out.append((rng.choice(pow_bases(rng, bits)), rng.choice(pow_exps(rng, bits))))
    else:
        a, e = pair(rng, bits)
        out.append((a, e))
    return out


def log_bases(rng, bits):
    m = 1 << bits
    c = [2, 3, 10, 1 << 32, (1 << 32) - 1, m - 1, m - 2, 1 << rng.randrange(max(bits, 1)),
         (1 << rng.randrange(max(bits, 1))) + 1, (1 << rng.randrange(max(bits, 1))) - 1, rng.randrange(2, 100),
         rand_bits(rng, rng.randrange(2, min(bits, 70) + 1)) if bits >= 2 else 0, 4, 5, 7, 16, 255, 256, 0, 1]
    return [v for v in c if 0 <= v < m]


def gen_log(rng, bits):
    """(x, base) pairs"""
    m = 1 << bits
    if bits == 0:
        return [(0, 0)]
    out = []
    r = rng.random()
    base = rng.choice(log_bases(rng, bits))
    if r < 0.45 and base >= 2:
        kmax = ilog(base, m - 1)
        k = rng.choice([0, 1, kmax, kmax - 1, rng.randrange(kmax + 1), rng.randrange(kmax + 1)])
        k = max(0, k)
        p = base ** k
        top = min(p * base, m)
        cand = [p - 1, p, p + 1, p * base - 1]
        if top > p:
            d = top - p
            cand += [p + rng.randrange(d), p + rand_bits(rng, rng.randrange(d.bit_length() + 1)) % d,
                     top - 1 - rand_bits(rng, rng.randrange(d.bit_length() + 1)) % d]
        for x in cand:
            if 0 <= x < m:
                out.append((x, base))
    elif r < 0.6 and base >= 2:
        # half-way values: log_base x ~ k + 1/2 (the estimate is rounded to nearest)
        kmax = ilog(base, m - 1)
        k = rng.randrange(kmax + 1)
        hval = isqrt(base ** (2 * k + 1))
        for x in (hval - 1, hval, hval + 1, hval + rng.randrange(-5, 6)):
            if 0 <= x < m:
                out.append((x, base))
    elif r < 0.75:
        # base >= value, base = value +- 1
        x = value(rng, bits)
        for b in (x, x + 1, x - 1, m - 1, near(rng, bits, x)):
            if 0 <= b < m:
                out.append((x, b))
    elif r < 0.85:
        out.append((rng.choice([0, 1, m - 1, m - 2, 2 % m, 3 % m]), base))
    else:
        out.append((value(rng, bits), base))
    return out


def gen_log1(rng, bits):
    """values for log2/log10 and checked forms"""
    m = 1 << bits
    if bits == 0:
        return [0]
    out = []
    r = rng.random()
    if r < 0.5:
        base = rng.choice([2, 10])
        kmax = ilog(base, m - 1)
        k = rng.choice([0, 1, kmax, rng.randrange(kmax + 1)])
        p = base ** k
        top = min(p * base, m)
        cand = [p - 1, p, p + 1]
        if top > p:
            cand += [p + rng.randrange(top - p), top - 1 - rand_bits(rng, rng.randrange((top - p).bit_length() + 1)) % (top - p)]
        out += [x for x in cand if 0 <= x < m]
    elif r < 0.6:
        kmax = ilog(10, m - 1)
        hval = isqrt(10 ** (2 * rng.randrange(kmax + 1) + 1))
        out += [x for x in (hval - 1, hval, hval + 1) if 0 <= x < m]
    elif r < 0.75:
        out += [0, 1, m - 1, m - 2]
    else:
        out.append(value(rng, bits))
    return out


def gen_root(rng, bits):
    """(x, degree) pairs"""
    m = 1 << bits
    out = []
    r = rng.random()
    k = rng.choice([1, 2, 3, 4, 5, 7, 8, 16, 63, 64, 65, bits - 2, bits - 1, bits, bits + 1, bits + 2,
                    rng.randrange(1, bits + 3), rng.randrange(1, bits + 3), rng.randrange(1, bits + 3)])
    k = max(1, k)
    if bits == 0:
        return [(0, rng.choice([0, 1, 2, 3]))]
    if r < 0.5:
        rmax = iroot(m - 1, k)
        rr = rng.choice([1, 2, 3, rmax, rmax - 1, rng.randrange(1, rmax + 1), rng.randrange(1, rmax + 1),
                         1 << rng.randrange(max(1, rmax.bit_length()))])
        rr = max(1, min(rr, rmax + 1))
        p = rr ** k
        top = min((rr + 1) ** k, m)
        cand = [p - 1, p, p + 1]
        if top > p:
            # somewhere inside [r^k, (r+1)^k): uniform, and log-uniform distance from either end
            d = top - p
            cand += [p + rng.randrange(d), p + rand_bits(rng, rng.randrange(d.bit_length() + 1)) % d,
                     top - 1 - rand_bits(rng, rng.randrange(d.bit_length() + 1)) % d]
        for x in cand:
            if 0 <= x < m:
                out.append((x, k))
    elif r < 0.65:
        for x in (m - 1, m - 2, 1, 0, 1 << (bits - 1), (1 << (bits - 1)) - 1):
            if 0 <= x < m:
                out.append((x, k))
    elif r < 0.72:
        out.append((value(rng, bits), rng.choice([0, (1 << 64) - 1, 1 << 63, 1 << 32, 10 ** 6])))
    else:
        out.append((value(rng, bits), k))
    return out


def exhaustive(tier):
    full = 8 if tier == 'thorough' else 6
    for bits in range(0, 9):
        n = 1 << bits
        for a in range(n):
            for b in range(n):
                if bits <= full:
                    for op in POW_OPS:
                        yield '%s %d %x %x' % (op, bits, a, b)
                    yield 'log %d %x %x' % (bits, a, b)
                    yield 'clog %d %x %x' % (bits, a, b)
                else:
                    yield 'opow %d %x %x' % (bits, a, b)
                    yield 'clog %d %x %x' % (bits, a, b)
            for op in LOG1_OPS:
                yield '%s %d %x' % (op, bits, a)
            for k in range(0, bits + 3):
                yield 'root %d %x %x' % (bits, a, k)


def approx_cases(rng, tier):
    """approx_pow2 on integer exponents (exact: 2^n / None from n = bits on; exercises try_from + checked_shl),
    approx_log2 bracket check"""
    for bits in GRID_ALL:
        ns = set(range(-3, min(bits, 70) + 4)) | {bits - 2, bits - 1, bits, bits + 1, bits + 2, 62, 63, 64, 65, 127, 128, 129}
        if tier == 'thorough' or bits <= 521:
            ns |= set(range(0, bits + 3))
        else:
            ns |= set(rng.randrange(0, bits + 3) for _ in range(200))
        for n in sorted(ns):
            yield 'apow2i %d %d' % (bits, n)
        m = 1 << bits
        xs = {0, 1 % m, 2 % m, 3 % m, m - 1, (m - 2) % m}
        for k in range(bits):
            xs |= {1 << k, ((1 << k) - 1) % m, ((1 << k) + 1) % m}
        for _ in range(30):
            xs.add(value(rng, bits))
        for x in sorted(xs):
            if 0 <= x < max(m, 1):
                yield 'alog2 %d %x' % (bits, x)


def f64bits(x):
    return struct.unpack('<Q', struct.pack('<d', x))[0]


def bits_f64(b):
    return struct.unpack('<d', struct.pack('<Q', b))[0]


def apow2_cases(rng, tier):
    """approx_pow2 on fractional exponents: thresholds -1, log2(1.5), BITS; rounding boundaries 2^exp ~ n + 1/2;
    exponents around 63 (the two integer paths); doc examples; random"""
    n = 150 if tier == 'quick' else 3000
    for bits in GRID_ALL:
        es = [-2.0, -1.0, -0.9999999999999999, -1.0000000000000002, -0.0, 0.0, 0.5, 0.5849625007211562, 0.5849625007211561,
              0.5849625007211563, 1.0, 1.6, 2.0, 10.385, 62.5, 62.99999999999999, 63.0, 63.00000000000001, 63.5, 64.0,
              float(bits), bits - 0.5, bits + 0.5, bits - 1e-9, bits + 1e-9, bits - 1.0, bits / 2.0, bits / 3.0]
        for _ in range(n):
            c = rng.randrange(5)
            if c == 0:
                es.append(rng.uniform(-3, bits + 2))
            elif c == 1:          # rounding boundary: 2^e close to k + 1/2
                k = rng.randrange(1, 1 << rng.randrange(1, min(max(bits, 2), 50)))
                e = math.log2(k + 0.5)
                es.append(bits_f64(max(0, f64bits(e) + rng.randrange(-3, 4))))
            elif c == 2:          # near an integer exponent
                k = rng.randrange(0, bits + 2)
                es.append(bits_f64(max(0, f64bits(float(k) if k else 0.0) + rng.randrange(-2, 3))) if k else rng.uniform(0, 1e-9))
            elif c == 3:
                es.append(rng.uniform(60, 66))
            else:
                es.append(rng.uniform(0, min(bits + 1, 64)))
        for e in es:
            yield 'apow2 %d %x' % (bits, f64bits(e))


def l1_cases(rng, tier):
    """the Uint operations the loop bodies use, straight against their value-level specs"""
    n = 12000 if tier == 'quick' else 300000
    for _ in range(n):
        bits = rng.choice(GRID_ALL)
        m = 1 << bits
        c = rng.randrange(7)
        if c <= 1:
            a, b = pair(rng, bits)
            if rng.random() < 0.4 and bits > 1:      # product straddling 2^bits
                a = max(1, value(rng, bits))
                b = (m // a + rng.choice([-1, 0, 1])) % m
            yield '%s %d %x %x' % (rng.choice(['l1mul', 'l1mul', 'l1wmul']), bits, a, b)
        elif c == 2:
            a, b = pair(rng, bits)
            yield 'l1wadd %d %x %x' % (bits, a, b)
        elif c == 3:
            a, b = pair(rng, bits)
            if b:
                yield 'l1div %d %x %x' % (bits, a, b)
        else:
            x = value(rng, bits)
            if rng.random() < 0.3 and bits:
                x = rng.choice([m >> 1, (m >> 1) - 1, (m >> 1) + 1, m - 1]) % m
            yield '%s %d %x' % (rng.choice(['l1sshl1', 'l1cadd1', 'l1bitlen']), bits, x)


# widths around the f64 / f32 mantissa sizes (a float fast path or estimate is exact below them and not above)
GRID_ALL = sorted(set(GRID_ALL) | {24, 52, 53, 54})


def decimal_sweep(rng, tier):
    """every power of ten (and its predecessor) at the wide widths, through log10 / checked_log10 / log(·, 10): an estimate
    that is off by one only in a sliver below some 10^k of a wide type is met deterministically; plus the top squares /
    cubes ± 1 at the mantissa widths for root"""
    for bits in (200, 521, 1024, 4096):
        m = 1 << bits
        kmax = ilog(10, m - 1)
        step = 1 if (tier != 'quick' or bits <= 1024) else 3
        for k in range(0, kmax + 1, step):
            p = 10 ** k
            for x in (p - 1, p):
                if 0 < x < m:
                    yield 'log10 %d %x' % (bits, x)
                    yield 'clog10 %d %x' % (bits, x)
                    if k % 4 == 0:
                        yield 'log %d %x a' % (bits, x)
    for bits in (24, 52, 53, 54, 63, 64):
        m = 1 << bits
        for d in (2, 3):
            top = iroot(m - 1, d)
            for r in [top - i for i in range(0, 40)] + [top - rng.randrange(top // 2) for _ in range(200)]:
                for x in (r ** d - 1, r ** d, r ** d + 1):
                    if 0 <= x < m:
                        yield 'root %d %x %x' % (bits, x, d)


def gen(rng, tier):
    """all cases, shuffled (deterministically): non-terminating cases of a broken `root`/`log` cost a
    time-out each, so they must be spread evenly over the parallel chunks"""
    out = list(exhaustive(tier))
    out += list(approx_cases(rng, tier))
    out += list(apow2_cases(rng, tier))
    out += list(l1_cases(rng, tier))
    out += list(decimal_sweep(rng, tier))
    n = 80000 if tier == 'quick' else 5000000
    k = 0
    big = [b for b in GRID_ALL if b > 8]
    while k < n:
        # widths <= 8 are enumerated exhaustively above; keep a thin sample of them for the other ops
        bits = rng.choice(big) if rng.random() < 0.93 else rng.choice(GRID_ALL)
        if bits in (1024, 4096) and rng.random() < 0.5:
            bits = rng.choice(big)               # thin out the most expensive widths
        r = rng.random()
        if r < 0.3:
            for a, e in gen_pow(rng, bits):
                out.append('%s %d %x %x' % (rng.choice(POW_OPS), bits, a, e))
                k += 1
        elif r < 0.55:
            for x, b in gen_log(rng, bits):
                out.append('%s %d %x %x' % (rng.choice(['log', 'clog', 'clog']), bits, x, b))
                k += 1
        elif r < 0.65:
            for x in gen_log1(rng, bits):
                out.append('%s %d %x' % (rng.choice(LOG1_OPS), bits, x))
                k += 1
        else:
            for x, d in gen_root(rng, bits):
                out.append('root %d %x %x' % (bits, x, d))
                k += 1
    rng.shuffle(out)
    return out


def extra_checks(tier, rng, findings):
    """thorough: repeat the corpus and a quick-tier sample against a `--release` build of the harness
    (debug assertions and overflow checks off: `assume!` becomes unreachable_unchecked, wrapping is silent)."""
    if tier != 'thorough' and __import__('os').environ.get('VERIF_RELEASE_RERUN') != '1':
        return {}
    import vlib
    binpath, secs = vlib.build_harness(BIN, release=True)
    drv = os.path.join(vlib.LEAN, '.lake', 'build', 'bin', DRV)
    cases = []
    cpath = os.path.join(vlib.ROOT, 'corpus', 'C13.cases')
    if os.path.exists(cpath):
        cases += [l.strip() for l in open(cpath) if l.strip() and not l.startswith('#')]
    cases += gen(random.Random(rng.getrandbits(32)), 'quick')
    impl, _ = vlib.run_impl(binpath, cases, timeout=TIMEOUT)
    ms = vlib.run_model(drv, cases, impl)
    viol = []
    known = {}
    for c, i, (m, sp) in zip(cases, impl, ms):
        k = vlib.classify(c, i, m, sp)
        if k is None:
            continue
        tag = finding_tag(c, i, m, sp)
        if tag and findings.match('C13', tag):
            known.setdefault(tag, []).append((c, i, m, sp))
        else:
            viol.append((k, c, i + '   [release profile]', m, sp))
    return {'violations': viol, 'known': known,
            'coverage': {'release_profile': {'cases': len(cases), 'build_s': round(secs, 1), 'mismatches': len(viol)}}}
