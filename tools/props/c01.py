"""C01 — add/sub/neg exact mod 2^BITS: case generator."""
from vgen import *

import gentie

BIN = 'c01'
DRV = 'drv_c01'
OPS2 = ['oadd', 'osub', 'cadd', 'csub', 'sadd', 'ssub', 'wadd', 'wsub', 'absdiff',
        'add0', 'add1', 'add2', 'add3', 'add4', 'add5', 'sub0', 'sub1', 'sub2', 'sub3', 'sub4', 'sub5']
CORE2 = ['oadd', 'osub', 'cadd', 'csub', 'sadd', 'ssub', 'absdiff']
OPS1 = ['oneg', 'cneg', 'wneg', 'neg', 'negref']
RULE = ('corpus, then exhaustive operand pairs at widths 0..5 (0..7 thorough) for the 7 core ops, then structured pairs '
        '(value classes, carry chains through all-ones limbs, sums landing on 2^bits, 2^bits+-1, 2^(64*LIMBS)) over 37 widths x 26 ops; '
        'non-trivial = width>0 and some operand non-zero; distinct by case hash')


def nontrivial(c, i):
    t = c.split(' ')
    return t[1] != '0' and any(x not in ('0', '-') for x in t[2:])


def special_pairs(rng, bits):
    """pairs whose sum/difference lands on the overflow boundaries"""
    if bits == 0:
        return [(0, 0)]
    m = 1 << bits
    a = value(rng, bits)
    full = 1 << (64 * nlimbs(bits))
    out = [(a, (m - a) % m), (a, (m - a - 1) % m), (a, (m - a + 1) % m), (a, a), (a, (a + 1) % m), ((a + 1) % m, a)]
    # carry chain: low part all ones + 1
    k = rng.randrange(bits + 1)
    out.append((((1 << k) - 1) | (rand_bits(rng, bits) >> k << k) & (m - 1), 1 % m))
    # sum reaching exactly 2^(64*LIMBS) is impossible for a,b < m unless m = full/.. ; use top values
    out.append((m - 1, m - 1))
    out.append((m - 1, 1 % m))
    out.append((0, m - 1))
    out.append((0, 1 % m))
    if full > m:
        # sum has a bit above BITS but inside the top limb
        out.append((m - 1, rand_bits(rng, bits)))
    return [(x % m, y % m) for x, y in out]


def gen(rng, tier):
    n = 40000 if tier == 'quick' else 1500000
    exh = 5 if tier == 'quick' else 7
    for bits in range(0, exh + 1):
        for a in range(1 << bits):
            for b in range(1 << bits):
                for op in CORE2:
                    yield '%s %d %s %s' % (op, bits, hx(a), hx(b))
            for op in OPS1:
                yield '%s %d %s' % (op, bits, hx(a))
    # word primitives (generated model vs real function): boundary words x carry-in
    ws = [0, 1, 2, 2**63 - 1, 2**63, 2**64 - 2, 2**64 - 1] + [rng.getrandbits(64) for _ in range(20)]
    for a in ws:
        for b in ws + [(2**64 - a) % 2**64, (2**64 - 1 - a), a]:
            for c in 'tf':
                yield 'w_cadd 64 %x %x %s' % (a, b, c)
                yield 'w_bsub 64 %x %x %s' % (a, b, c)
    k = 0
    while k < n:
        bits = rng.choice(GRID_ALL)
        r = rng.random()
        if r < 0.3:
            for a, b in special_pairs(rng, bits):
                yield '%s %d %s %s' % (rng.choice(OPS2), bits, hx(a), hx(b))
                k += 1
        elif r < 0.8:
            a, b = pair(rng, bits)
            yield '%s %d %s %s' % (rng.choice(OPS2), bits, hx(a), hx(b))
            k += 1
        elif r < 0.93:
            yield '%s %d %s' % (rng.choice(OPS1), bits, hx(value(rng, bits)))
            k += 1
        else:
            cnt = rng.choice([0, 1, 2, 3, 5, 17])
            xs = [value(rng, bits) for _ in range(cnt)]
            toks = [hx(x) for x in xs]
            if rng.random() < 0.35:
                # a non-fused iterator: `None` somewhere (also first / last), items after it must not count
                for _ in range(rng.choice([1, 1, 2])):
                    toks.insert(rng.randrange(len(toks) + 1), 'N')
            yield '%s %d %s' % (rng.choice(['sum', 'sumref']), bits, ','.join(toks) if toks else '-')
            k += 1


def translate(repo, lean):
    """(G) regenerate Ruint/Gen/Words.lean from the current source; Props/C01 proves the hand-written
    word primitives equal to the generated `carrying_add` / `borrowing_sub`."""
    info = gentie.gen_words(repo, lean)
    info['obligations'] = []  # the tie theorems are ordinary theorems of Props/C01.lean (already counted)
    return info
