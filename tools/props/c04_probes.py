"""C04 compile probes: for each constant/constructor x ill-formed (BITS, LIMBS) build a tiny program against the
working tree and observe rustc + the program: outcome in {compile-error, panic, none, value}.
`value` on an ill-formed type is a violation of the "no obtainable value" clause (the probe source is the replay)."""
import hashlib
import os
import re
import shutil
import subprocess

ROOT = os.path.dirname(os.path.dirname(os.path.dirname(os.path.abspath(__file__))))
ILL = [(64, 2), (65, 1), (0, 1), (100, 3), (128, 1)]
CONTROL = [(65, 2), (64, 1), (0, 0)]

# name -> expression of type Option<T>  (T = Uint<B, L>; BY = (B+7)/8; arguments denote zero wherever possible)
ITEMS = [
    ('MAX', 'Some(T::MAX)'),
    ('ZERO', 'Some(T::ZERO)'),
    ('ONE', 'Some(T::ONE)'),
    ('MIN', 'Some(T::MIN)'),
    ('from_limbs', 'Some(T::from_limbs([0; L]))'),
    ('default', 'Some(<T as Default>::default())'),
    ('from_u64', 'Some(T::from(0u64))'),
    ('from_le_bytes', 'Some(T::from_le_bytes([0u8; BY]))'),
    ('rand09_random_with', '{ use rand_09::SeedableRng; let mut r = rand_09::rngs::StdRng::seed_from_u64(1); Some(T::random_with(&mut r)) }'),
    ('proptest_any', '{ use proptest::{prelude::*, strategy::ValueTree, test_runner::TestRunner}; let mut r = TestRunner::deterministic(); Some(any::<T>().new_tree(&mut r).unwrap().current()) }'),
    ('arbitrary', '{ let mut u = arbitrary::Unstructured::new(&[0u8; 64]); <T as arbitrary::Arbitrary>::arbitrary(&mut u).ok() }'),
    ('bytemuck_zeroed', 'Some(<T as bytemuck::Zeroable>::zeroed())'),
    # ---- the rest runs in the thorough tier (and a rotating slice of it in quick)
    ('from_limbs_slice', 'Some(T::from_limbs_slice(&[]))'),
    ('checked_from_limbs_slice', 'T::checked_from_limbs_slice(&[])'),
    ('wrapping_from_limbs_slice', 'Some(T::wrapping_from_limbs_slice(&[]))'),
    ('overflowing_from_limbs_slice', 'Some(T::overflowing_from_limbs_slice(&[]).0)'),
    ('saturating_from_limbs_slice', 'Some(T::saturating_from_limbs_slice(&[]))'),
    ('saturating_from_limbs_slice_big', 'Some(T::saturating_from_limbs_slice(&[1u64; 80]))'),
    ('try_from_u64', 'T::try_from(0u64).ok()'),
    ('try_from_u128', 'T::try_from(0u128).ok()'),
    ('try_from_u128_big', 'match T::try_from(u128::MAX) { Ok(n) => Some(n), Err(ruint::ToUintError::ValueTooLarge(_, n)) => Some(n), _ => None }'),
    ('try_from_u8', 'T::try_from(0u8).ok()'),
    ('try_from_bool', 'T::try_from(false).ok()'),
    ('try_from_i64', 'T::try_from(0i64).ok()'),
    ('try_from_i128_neg', 'match T::try_from(-1i128) { Err(ruint::ToUintError::ValueNegative(_, n)) => Some(n), _ => None }'),
    ('try_from_usize', 'T::try_from(0usize).ok()'),
    ('wrapping_from_u64', 'Some(T::wrapping_from(0u64))'),
    ('saturating_from_u128', 'Some(T::saturating_from(u128::MAX))'),
    ('saturating_from_i8_neg', 'Some(T::saturating_from(-1i8))'),
    ('from_uint', 'Some(T::from(Uint::<64, 1>::ZERO))'),
    ('wrapping_from_uint', 'Some(T::wrapping_from(Uint::<256, 4>::MAX))'),
    ('saturating_from_uint', 'Some(T::saturating_from(Uint::<4096, 64>::MAX))'),
    ('uint_to', 'Some(Uint::<64, 1>::ZERO.to::<T>())'),
    ('uint_wrapping_to', 'Some(Uint::<256, 4>::MAX.wrapping_to::<T>())'),
    ('uint_saturating_to', 'Some(Uint::<4096, 64>::MAX.saturating_to::<T>())'),
    ('from_uint_deprecated', 'Some(T::from_uint(Uint::<64, 1>::ZERO))'),
    ('checked_from_uint_deprecated', 'T::checked_from_uint(Uint::<64, 1>::ZERO)'),
    ('from_be_bytes', 'Some(T::from_be_bytes([0u8; BY]))'),
    ('from_le_slice', 'Some(T::from_le_slice(&[]))'),
    ('from_be_slice', 'Some(T::from_be_slice(&[]))'),
    ('try_from_le_slice', 'T::try_from_le_slice(&[])'),
    ('try_from_be_slice', 'T::try_from_be_slice(&[])'),
    ('try_from_le_slice_full', 'T::try_from_le_slice(&[0u8; BY])'),
    ('try_from_be_slice_full', 'T::try_from_be_slice(&[0u8; BY])'),
    ('from_str_radix', 'T::from_str_radix("0", 10).ok()'),
    ('from_str', '"0".parse::<T>().ok()'),
    ('from_str_hex', '"0x0".parse::<T>().ok()'),
    ('from_base_le', 'T::from_base_le(10, [0u64]).ok()'),
    ('from_base_be', 'T::from_base_be(10, [0u64]).ok()'),
    ('from_base_be_empty', 'T::from_base_be(10, core::iter::empty()).ok()'),
    ('try_from_f64', 'T::try_from(0.0f64).ok()'),
    ('try_from_f32', 'T::try_from(0.0f32).ok()'),
    ('try_from_f64_big', 'match T::try_from(1e300f64) { Ok(n) => Some(n), Err(ruint::ToUintError::ValueTooLarge(_, n)) => Some(n), _ => None }'),
    ('sum_empty', 'Some(core::iter::empty::<T>().sum::<T>())'),
    ('product_empty', 'Some(core::iter::empty::<T>().product::<T>())'),
    ('rand09_random', 'Some(T::random())'),
    ('rand09_distr', '{ use rand_09::{Rng, SeedableRng}; let mut r = rand_09::rngs::StdRng::seed_from_u64(1); Some(r.random::<T>()) }'),
    ('rand08_standard', '{ use rand_08::{Rng, SeedableRng}; let mut r = rand_08::rngs::StdRng::seed_from_u64(1); Some(r.gen::<T>()) }'),
    ('quickcheck_arbitrary', '{ let mut g = quickcheck::Gen::new(10); Some(<T as quickcheck::Arbitrary>::arbitrary(&mut g)) }'),
    ('proptest_bits_any', '{ use proptest::{prelude::*, strategy::ValueTree, test_runner::TestRunner}; let mut r = TestRunner::deterministic(); Some(any::<ruint::Bits<B, L>>().new_tree(&mut r).unwrap().current().into_inner()) }'),
    ('bits_zero', 'Some(ruint::Bits::<B, L>::ZERO.into_inner())'),
    ('bits_default', 'Some(<ruint::Bits<B, L> as Default>::default().into_inner())'),
    ('num_zero', 'Some(<T as num_traits::Zero>::zero())'),
    ('num_one', 'Some(<T as num_traits::One>::one())'),
    ('num_bounded_max', 'Some(<T as num_traits::Bounded>::max_value())'),
    ('num_bounded_min', 'Some(<T as num_traits::Bounded>::min_value())'),
    ('num_from_str_radix', '<T as num_traits::Num>::from_str_radix("0", 10).ok()'),
    ('num_from_u64', '<T as num_traits::FromPrimitive>::from_u64(0)'),
    # decoders (all route through the slice/limb constructors)
    ('serde_json_str', 'serde_json::from_str::<T>("\\"0x0\\"").ok()'),
    ('serde_json_num', 'serde_json::from_str::<T>("0").ok()'),
    ('bincode', 'bincode::deserialize::<T>(&bincode::serialize(&Uint::<65, 2>::ZERO).unwrap()).ok()'),
    ('alloy_rlp_decode', '<T as alloy_rlp::Decodable>::decode(&mut &[0x80u8][..]).ok()'),
    ('rlp_decode', 'rlp::decode::<T>(&[0x80u8]).ok()'),
    ('scale_decode', '<T as parity_scale_codec::Decode>::decode(&mut &[0u8][..]).ok()'),
    ('ssz_decode', '<T as ssz::Decode>::from_ssz_bytes(&[0u8; BY]).ok()'),
    ('borsh_decode', '<T as borsh::BorshDeserialize>::try_from_slice(&[0u8; BY]).ok()'),
    ('num_bigint_try_from', 'T::try_from(num_bigint::BigUint::from(0u8)).ok()'),
]
QUICK_FIXED = 12   # the first QUICK_FIXED items always run in the quick tier

MAIN = '''#![allow(unused_imports, deprecated, dead_code)]
use ruint::Uint;
const B: usize = %(B)d;
const L: usize = %(L)d;
const BY: usize = (B + 7) / 8;
type T = Uint<B, L>;
fn main() {
    let v: Option<T> = %(expr)s;
    match v {
        Some(v) => println!("VALUE {:?}", v.as_limbs()),
        None => println!("NONE"),
    }
}
'''

CARGO = '''[package]
name = "g4probe"
version = "0.0.0"
edition = "2021"
publish = false
autobins = false

[workspace]

[dependencies]
ruint = { path = "%(repo)s", features = ["std", "rand", "rand-09", "arbitrary", "proptest", "quickcheck", "bytemuck", "num-traits",
    "serde", "alloy-rlp", "rlp", "parity-scale-codec", "ssz", "borsh", "num-bigint"] }
serde_json = "1"
bincode = "1.3"
alloy-rlp = "0.3"
rlp = "0.5"
parity-scale-codec = "3"
ssz = { package = "ethereum_ssz", version = "0.5.3" }
borsh = "1.5"
num-bigint = "0.4"
rand_08 = { package = "rand", version = "0.8" }
rand_09 = { package = "rand", version = "0.9" }
arbitrary = "1"
proptest = "1"
quickcheck = "1"
bytemuck = "1.13"
num-traits = "0.2"

[profile.dev]
opt-level = 0
debug = false
incremental = false

%(bins)s
'''


def source(name, expr, B, L):
    return MAIN % {'B': B, 'L': L, 'expr': expr}


def run_probes(repo, probes, tag='q', jobs=16):
    """probes: list of (name, expr, B, L). Returns {(name,B,L): (outcome, detail, source)}."""
    key = hashlib.blake2b((repo + '|' + tag).encode(), digest_size=5).hexdigest()
    d = '/tmp/g4_probe_' + key
    tgt = os.path.join(ROOT, 'harness', 'target', 'probes')
    os.makedirs(tgt, exist_ok=True)
    shutil.rmtree(d, ignore_errors=True)
    os.makedirs(os.path.join(d, 'src', 'bin'))
    os.makedirs(os.path.join(d, '.cargo'))
    open(os.path.join(d, '.cargo', 'config.toml'), 'w').write('[net]\noffline = true\n')
    shutil.copy(os.path.join(ROOT, 'harness', 'Cargo.lock'), os.path.join(d, 'Cargo.lock'))
    bins = []
    srcs = {}
    for name, expr, B, L in probes:
        bn = 'p_%s_%d_%d' % (re.sub(r'[^a-z0-9_]', '_', name.lower()), B, L)
        src = source(name, expr, B, L)
        srcs[(name, B, L)] = (bn, src)
        open(os.path.join(d, 'src', 'bin', bn + '.rs'), 'w').write(src)
        bins.append('[[bin]]\nname = "%s"\npath = "src/bin/%s.rs"\n' % (bn, bn))
        try:
            os.remove(os.path.join(tgt, 'debug', bn))
        except OSError:
            pass
    open(os.path.join(d, 'Cargo.toml'), 'w').write(CARGO % {'repo': repo, 'bins': '\n'.join(bins)})
    env = dict(os.environ, CARGO_NET_OFFLINE='true', CARGO_TARGET_DIR=tgt)
    # the library (and all dependencies) must build, otherwise every probe would read as compile-error
    p = subprocess.run(['cargo', 'build', '--offline', '--lib', '-p', 'ruint', '-j', str(jobs)], cwd=d, env=env,
                       capture_output=True, text=True, timeout=3600)
    if p.returncode != 0:
        shutil.rmtree(d, ignore_errors=True)
        return None, 'probe crate: ruint does not build for the probes:\n' + p.stderr[-2000:]
    p = subprocess.run(['cargo', 'build', '--offline', '--bins', '--keep-going', '-j', str(jobs), '--message-format=json'],
                       cwd=d, env=env, capture_output=True, text=True, timeout=7200)
    err = p.stderr
    res = {}
    # per-bin diagnostics from cargo's JSON messages (first error of each bin target)
    import json
    why = {}
    for line in p.stdout.split('\n'):
        if not line.startswith('{'):
            continue
        try:
            o = json.loads(line)
        except ValueError:
            continue
        if o.get('reason') != 'compiler-message' or o.get('message', {}).get('level') != 'error':
            continue
        bn = o.get('target', {}).get('name')
        if bn in why:
            continue
        msg = o['message'].get('message', '')
        rendered = o['message'].get('rendered') or ''
        b = re.search(r'evaluation of `([^`]*)` failed', rendered)
        why[bn] = re.sub(r'^evaluation panicked: ', '', msg) + (' [evaluating %s]' % b.group(1) if b else '')
    for k, (bn, src) in srcs.items():
        exe = os.path.join(tgt, 'debug', bn)
        if not os.path.exists(exe):
            res[k] = ('compile-error', why.get(bn, 'compile error')[:200], src)
            continue
        try:
            q = subprocess.run([exe], capture_output=True, text=True, timeout=60)
            if q.returncode == 0 and q.stdout.startswith('VALUE'):
                res[k] = ('value', q.stdout.strip()[:200], src)
            elif q.returncode == 0 and q.stdout.startswith('NONE'):
                res[k] = ('none', '', src)
            else:
                m = re.search(r"panicked at [^\n]*\n([^\n]*)", q.stderr)
                res[k] = ('panic', (m.group(1) if m else q.stderr.strip()[-150:])[:200], src)
        except subprocess.TimeoutExpired:
            res[k] = ('timeout', '', src)
        try:
            os.remove(exe)
        except OSError:
            pass
    shutil.rmtree(d, ignore_errors=True)
    return res, err[-1500:] if not res else ''


def select(tier, rng):
    """(items x pairs) for this tier"""
    if tier == 'quick':
        rest = ITEMS[QUICK_FIXED:]
        rot = rng.sample(rest, 4)
        sel = []
        for k, (n, e) in enumerate(ITEMS[:QUICK_FIXED]):
            # one ill-formed pair per fixed item (rotating), MAX on all of them
            pairs = ILL if n in ('MAX',) else [ILL[(k + rng.randrange(len(ILL))) % len(ILL)]]
            sel += [(n, e, b, l) for b, l in pairs]
        sel += [(n, e) + rng.choice(ILL) for n, e in rot]
        # controls: the same expressions on a well-formed type must yield a value (else the probe itself is broken
        # and its compile error would be misread as a rejection)
        names = []
        for n, e, b, l in sel:
            if n not in names:
                names.append(n)
        sel += [(n, dict(ITEMS)[n], 65, 2) for n in names]
        return sel
    sel = [(n, e, b, l) for n, e in ITEMS for b, l in ILL]
    sel += [(n, e, b, l) for n, e in ITEMS for b, l in CONTROL[:1]]
    sel += [(n, e, b, l) for n, e in ITEMS[:8] for b, l in CONTROL[1:]]
    return sel
