"""C02 — multiplication, widening product, ring inverse, Product: case generator."""
from vgen import *

BIN = 'c02'
DRV = 'drv_c02'
OPS2 = ['omul', 'cmul', 'smul', 'wmul', 'mul0', 'mul1', 'mul2', 'mul3', 'mul4', 'mul5']
CORE2 = ['omul', 'cmul', 'smul', 'wmul']
WIDE = [0, 1, 2, 3, 4, 5, 63, 64, 65, 127, 128, 192, 256]
WIDEBAD = [(64, 64, 127), (64, 64, 129), (64, 64, 64), (1, 1, 1), (0, 0, 1), (65, 63, 64), (8, 8, 256), (128, 128, 256)]
M64 = (1 << 64) - 1
RULE = ('corpus, then exhaustive operand pairs at widths 0..5 (0..6 thorough) for overflowing/checked/saturating/wrapping mul, '
        'every value for inv_ring at widths 0..8, every Product list of length <= 3 at widths 0..3, exhaustive widening_mul on (BITS,BITS_RHS) in {0..5}^2; then structured pairs over '
        '37 widths x 10 ops: value classes, limb-structured operands (zero low / high / middle limbs, all-ones limbs, single bit), '
        'products landing on 2^bits-1, 2^bits, 2^bits+1, just below/above 2^bits (b = floor/ceil(2^bits/a)), on 2^(64*LIMBS); '
        'widening_mul on a 13x13 width grid (0,1,2,3,4,5,63,64,65,127,128,192,256) incl. wrong BITS_RES (assert); inv_ring on odd/even '
        'values of all classes; Product over lists of 0..6 values; non-trivial = width>0 and some operand non-zero; distinct by case hash')
ASSUMPTIONS = ['Wrapping<u64> arithmetic and ^ of the inv_ring seed are modelled by Nat arithmetic % 2^64 and Nat.xor']


def nontrivial(c, i):
    t = c.split(' ')
    return t[1] != '0' and any(ch not in '0-,' for x in t[2:] for ch in x)


def limb_value(rng, bits):
    """operand built limb-wise: zero low / high / middle limbs, all-ones runs, single bit"""
    if bits == 0:
        return 0
    n = nlimbs(bits)
    m = (1 << bits) - 1
    base = [rng.getrandbits(64) if rng.random() < 0.6 else rng.choice([0, 1, M64, 1 << 63, M64 - 1]) for _ in range(n)]
    c = rng.randrange(8)
    if c == 0:
        k = rng.randrange(n + 1)
        base = [0] * k + base[k:]
    elif c == 1:
        k = rng.randrange(n + 1)
        base = base[:n - k] + [0] * k
    elif c == 2:
        i = rng.randrange(n)
        j = rng.randrange(i, n)
        base = base[:i] + [0] * (j - i) + base[j:]
    elif c == 3:
        i = rng.randrange(n + 1)
        j = rng.randrange(n + 1 - i)
        base = [0] * i + base[i:n - j] + [0] * j
    elif c == 4:
        i = rng.randrange(n)
        j = rng.randrange(i, n + 1)
        base = base[:i] + [M64] * (j - i) + base[j:]
    elif c == 5:
        return 1 << rng.randrange(bits)
    elif c == 6:
        base = [rng.choice([0, M64]) for _ in range(n)]
    v = 0
    for i, x in enumerate(base):
        v |= x << (64 * i)
    return v & m


def opnd(rng, bits):
    return limb_value(rng, bits) if rng.random() < 0.5 else value(rng, bits)


def boundary_pairs(rng, bits):
    """pairs whose product lands on / next to 2^bits and 2^(64*LIMBS)"""
    if bits == 0:
        return [(0, 0)]
    m = 1 << bits
    out = []
    a = opnd(rng, bits) or 1
    q = m // a
    for b in (q, q + 1, q - 1, -(-m // a)):
        if 0 <= b < m:
            out.append((a, b))
    # exactly 2^bits, and 2^j for j around bits
    k = rng.randrange(bits + 1)
    for j in (bits, bits - 1, bits + 1, 64 * nlimbs(bits), 64 * nlimbs(bits) - 1):
        if 0 <= j - k < bits and k < bits:
            out.append((1 << k, 1 << (j - k)))
    # 2^bits - 1 and 2^bits + 1 through their algebraic factors
    divs = [d for d in range(1, bits) if bits % d == 0]
    if divs:
        d = rng.choice(divs)
        out.append(((1 << d) - 1, (m - 1) // ((1 << d) - 1)))
        if (bits // d) % 2 == 1:
            out.append(((1 << d) + 1, (m + 1) // ((1 << d) + 1)))
    out.append((m - 1, m - 1))
    out.append((m - 1, 1))
    out.append((m - 1, 2 % m))
    # sqrt boundary
    h = bits // 2
    out.append(((1 << h) % m, (1 << (bits - h)) % m))
    out.append((((1 << h) - 1) % m, ((1 << (bits - h)) + 1) % m))
    return [(x % m, y % m) for x, y in out]


def gen(rng, tier):
    quick = tier == 'quick'
    n = 40000 if quick else 5000000
    exh = 5 if quick else 6
    for bits in range(0, exh + 1):
        for a in range(1 << bits):
            for b in range(1 << bits):
                for op in CORE2:
                    yield '%s %d %s %s' % (op, bits, hx(a), hx(b))
    for bits in range(0, 9):
        for a in range(1 << bits):
            yield 'inv %d %s' % (bits, hx(a))
    for b1 in range(6):
        for b2 in range(6):
            for a in range(1 << b1):
                for b in range(1 << b2):
                    yield 'wide %d %d %s %s' % (b1, b2, hx(a), hx(b))
    for bits in range(0, 4):
        vals = list(range(1 << bits))
        for cnt in range(0, 4):
            import itertools
            for xs in itertools.product(vals, repeat=cnt):
                for op in ('prod', 'prodref'):
                    yield '%s %d %s' % (op, bits, ','.join(hx(x) for x in xs) if xs else '-')
                    if bits >= 2 and cnt >= 1:
                        for gap in range(cnt + 1):
                            t = [hx(x) for x in xs]
                            t.insert(gap, 'N')
                            yield '%s %d %s' % (op, bits, ','.join(t))
    for b1, b2, br in WIDEBAD:
        for _ in range(3):
            yield 'widebad %d %d %d %s %s' % (b1, b2, br, hx(value(rng, b1)), hx(value(rng, b2)))
    k = 0
    while k < n:
        r = rng.random()
        if r < 0.2:
            bits = rng.choice(GRID_ALL)
            for a, b in boundary_pairs(rng, bits):
                if rng.random() < 0.5:
                    a, b = b, a
                yield '%s %d %s %s' % (rng.choice(OPS2), bits, hx(a), hx(b))
                k += 1
        elif r < 0.6:
            bits = rng.choice(GRID_ALL)
            if rng.random() < 0.5:
                a, b = opnd(rng, bits), opnd(rng, bits)
            else:
                a, b = pair(rng, bits)
            yield '%s %d %s %s' % (rng.choice(OPS2), bits, hx(a), hx(b))
            k += 1
        elif r < 0.78:
            b1, b2 = rng.choice(WIDE), rng.choice(WIDE)
            q = rng.random()
            if q < 0.3:
                a, b = (1 << b1) - 1, (1 << b2) - 1
                if rng.random() < 0.5 and b1:
                    a = opnd(rng, b1)
            else:
                a, b = opnd(rng, b1), opnd(rng, b2)
            yield 'wide %d %d %s %s' % (b1, b2, hx(a), hx(b))
            k += 1
        elif r < 0.92:
            bits = rng.choice(GRID_ALL)
            a = opnd(rng, bits)
            if rng.random() < 0.8:
                a |= 1 if bits else 0
            yield 'inv %d %s' % (bits, hx(a))
            k += 1
        else:
            bits = rng.choice(GRID_ALL)
            cnt = rng.choice([0, 1, 2, 3, 4, 6])
            xs = [opnd(rng, bits) if rng.random() < 0.7 else rng.choice([1, 2, 3]) % (1 << bits) for _ in range(cnt)]
            toks = [hx(x) for x in xs]
            if rng.random() < 0.35:
                # a non-fused iterator: `None` somewhere (also first / last), items after it must not count
                for _ in range(rng.choice([1, 1, 2])):
                    toks.insert(rng.randrange(len(toks) + 1), 'N')
            yield '%s %d %s' % (rng.choice(['prod', 'prodref']), bits, ','.join(toks) if toks else '-')
            k += 1


def shrink_candidates(c):
    import re
    toks = c.split(' ')
    first = 3 if toks[0] == 'wide' else (4 if toks[0] == 'widebad' else 2)
    for k in range(first, len(toks)):
        t = toks[k]
        if ',' in t:
            xs = t.split(',')
            for i in range(len(xs)):
                yield ' '.join(toks[:k] + [','.join(xs[:i] + xs[i + 1:]) or '-'] + toks[k + 1:])
            continue
        if re.fullmatch(r'[0-9a-f]+', t) and t != '0':
            v = int(t, 16)
            for nv in (0, 1, v >> 64, v >> 1, v & (v - 1), v - 1):
                if nv != v and nv >= 0:
                    yield ' '.join(toks[:k] + [format(nv, 'x')] + toks[k + 1:])


def extra_checks(tier, rng, findings):
    """thorough tier: repeat the corpus and a structured sample against a --release build of the harness."""
    if tier != 'thorough' and __import__('os').environ.get('VERIF_RELEASE_RERUN') != '1':
        return {}
    import itertools
    import os
    import vlib
    binpath, secs = vlib.build_harness(BIN, release=True)
    drv = os.path.join(vlib.LEAN, '.lake', 'build', 'bin', DRV)
    cases = []
    cpath = os.path.join(vlib.ROOT, 'corpus', 'C02.cases')
    if os.path.exists(cpath):
        cases += [l.strip() for l in open(cpath) if l.strip() and not l.startswith('#')]
    cases += list(itertools.islice(gen(rng, 'quick'), 90000))
    impl, _ = vlib.run_impl(binpath, cases)
    ms = vlib.run_model(drv, cases, impl)
    viol = []
    for c, i, (m, s) in zip(cases, impl, ms):
        k = vlib.classify(c, i, m, s)
        if k is not None:
            viol.append((k if k != 'model-error' else 'impl-violation', c + '   [release build]', i, m, s))
    return {'violations': viol[:50], 'coverage': {'release_rerun': {'cases': len(cases), 'mismatches': len(viol), 'cargo_s': round(secs, 1)}}}


# ----------------------------------------------------------------------------------------------
# (G) generated facts: the first-limb block of `inv_ring` (seed constants, number of Newton steps)

GEN_REL = 'Ruint/Gen/InvRingConsts.lean'


def _extract_inv(src):
    import re
    m = re.search(r'pub fn inv_ring\(self\) -> Option<Self> \{(.*?)\n    \}\n', src, re.S)
    if not m:
        return None
    body = m.group(1)
    c2 = re.search(r'const W2: Wrapping<u64> = Wrapping\((\d+)\);', body)
    c3 = re.search(r'const W3: Wrapping<u64> = Wrapping\((\d+)\);', body)
    seed = re.search(r'let mut inv = \(n \* W3\) \^ W2;', body)
    steps = len(re.findall(r'^\s*inv \*= W2 - n \* inv;', body, re.M))
    if not (c2 and c3 and seed and steps):
        return None
    return {'W2': int(c2.group(1)), 'W3': int(c3.group(1)), 'steps': steps}


def translate(repo, lean):
    import os
    path = os.path.join(lean, GEN_REL)
    try:
        ex = _extract_inv(open(os.path.join(repo, 'src', 'mul.rs')).read())
    except OSError:
        ex = None
    if ex is None:
        return {'changed': False, 'obligations': [], 'unavailable': ['inv_ring first-limb block: anchors not found in src/mul.rs (tie skipped, committed Gen file kept)']}
    L = ['import Ruint.Base',
         '/-! GENERATED by tools/props/c02.py (`translate`) from `src/mul.rs` (`inv_ring`) on every check run — do not edit. -/',
         'namespace Ruint.Gen.InvRing', 'open Ruint', '',
         '/-- `W2`, `W3` of the source -/',
         'def w2 : Nat := %d' % ex['W2'], 'def w3 : Nat := %d' % ex['W3'], '',
         '/-- `inv *= W2 - n * inv` on `Wrapping<u64>` -/',
         'def step (n inv : Nat) : Nat := (inv * ((w2 + W - (n * inv) % W) % W)) % W', '',
         '/-- `let mut inv = (n * W3) ^ W2;` followed by the %d Newton lines of the source -/' % ex['steps'],
         'def inv64 (n : Nat) : Nat :=', '  let inv := ((n * w3) % W) ^^^ w2']
    L += ['  let inv := step n inv'] * ex['steps']
    L += ['  inv', '', 'end Ruint.Gen.InvRing']
    text = '\n'.join(L) + '\n'
    old = open(path).read() if os.path.exists(path) else None
    if old != text:
        os.makedirs(os.path.dirname(path), exist_ok=True)
        open(path, 'w').write(text)
    return {'changed': old is not None and old != text, 'obligations': [], 'extracted': ex, 'file': GEN_REL}
