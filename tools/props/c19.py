"""C19 — `uint!` literals: generator, probe crates (compile + run), fast path (private parsers of the proc macro).

Also a small CLI used by harness/src/bin/c19.rs:   c19.py --batch fast|lit <in> <out>
(<in>: one hex-encoded literal text per line; <out>: one canonical outcome per line).
"""
import fcntl
import hashlib
import json
import os
import re
import shutil
import subprocess
import sys

_HERE = os.path.dirname(os.path.abspath(__file__))
sys.path.insert(0, os.path.dirname(_HERE))
from vgen import *  # noqa: E402

BIN = 'c19'
DRV = 'drv_c19'
TIMEOUT = 3000
ROOT = os.environ.get('VERIF_ROOT', os.path.dirname(os.path.dirname(_HERE)))
REPO = os.environ.get('VERIF_REPO', '/repo')
TARGET = os.path.join(ROOT, 'harness', 'target', 'probes_c19')
def repo_tag():
    return hashlib.blake2b(REPO.encode(), digest_size=4).hexdigest()


# one cargo target directory per checked tree: artifacts of equally named scratch crates built against different
# trees (VERIF_REPO runs, possibly concurrent) must never be mistaken for one another
ENV = dict(os.environ, CARGO_NET_OFFLINE='true', CARGO_TARGET_DIR=os.path.join(TARGET, 'td_' + repo_tag()))
RULE = ('corpus; `lit`: literals compiled through the real ruint::uint! in generated probe crates (each inside a nesting wrapper of '
        'groups / ordinary literals / strings containing "U8"; limbs and width printed at run time and compared with the model, '
        'with positional notation and, in the probe itself, with run-time from_str_radix of the same digits; compile_error! '
        'diagnostics collected from cargo --message-format=json): 4 bases x digit strings up to ~1300 digits x widths 0..4096 x U/B '
        'x underscore placements, values 2^n-1 / 2^n / 2^n+1, digits >= base, pass-through tokens; `fast`: the private '
        'parse_suffix/parse_digits/pad_limbs called directly on structured + random literal texts; `rt`: the real run-time parser on the '
        'digit text vs the macro model; non-trivial = the literal text contains a digit other than 0; distinct by case hash')
TRUSTED = ['rustc (lexer, macro expansion, const evaluation) observed through cargo build --message-format=json and the run of the probe binary',
           'tools/props/c19.py: probe-crate generation, diagnostic classification (message prefix -> error kind)',
           'fast path glue: the 12-line composition parse_suffix -> parse_digits -> pad_limbs in the appended test module replicates transform_literal']
ASSUMPTIONS = ['suffix widths with bits + 63 >= 2^64 (usize overflow inside pad_limbs) and widths whose limb vector does not fit in memory are outside the model',
               'literal texts are what rustc\'s lexer can produce as one Literal token; texts containing `+` are not judged (spec `any`)']

WIDTHS = [0, 1, 2, 3, 7, 8, 16, 63, 64, 65, 127, 128, 129, 192, 256, 257, 512, 1000, 4096]
PFX = {10: '', 16: '0x', 8: '0o', 2: '0b'}
DIG = '0123456789abcdef'


def tx(s):
    b = s.encode('utf-8')
    return b.hex() if b else '-'


def untx(h):
    return '' if h == '-' else bytes.fromhex(h).decode('utf-8')


def digits_str(rng, v, base, upper=None):
    if v == 0:
        s = '0'
    else:
        s = ''
        while v:
            s = DIG[v % base] + s
            v //= base
    if base == 16:
        if upper is None:
            upper = rng.random() < 0.5
        if upper:
            s = s.upper()
        elif rng.random() < 0.3:
            s = ''.join(c.upper() if rng.random() < 0.5 else c for c in s)
    return s


def underscores(rng, s, p=0.1):
    out = []
    for k, c in enumerate(s):
        if k and rng.random() < p:
            out.append('_' * rng.choice([1, 1, 2]))
        out.append(c)
    return ''.join(out)


def lexable(lit):
    """conservative: is this text a single token rustc's lexer accepts without error (so that a probe line compiles as far as the macro)?"""
    m = re.fullmatch(r'(0x[0-9a-fA-F_]*[0-9a-fA-F][0-9a-fA-F_]*|0o[0-7_]*[0-7][0-7_]*|0b[01_]*[01][01_]*|[0-9][0-9_]*)([A-Za-z_][A-Za-z0-9_]*)?', lit)
    if not m:
        return False
    body, suf = m.group(1), m.group(2) or ''
    if not body.startswith('0') or body[:2] not in ('0x', '0o', '0b'):
        # decimal: a suffix starting with e/E makes it an exponent
        if suf[:1] in ('e', 'E'):
            return False
    return True


def lit_structured(rng, tier):
    """literal texts for the compile probes"""
    out = []
    nrep = 1 if tier == 'quick' else 12
    for rep in range(nrep):
        for base in (10, 16, 8, 2):
            for bits in WIDTHS:
                m = 1 << bits
                ty = rng.choice('UB')
                sep = rng.choice(['_', '_', '', '__'])
                if ty == 'B' and base == 16 and sep == '':
                    sep = '_'
                if base == 10 and sep == '' and ty == 'B':
                    pass
                vals = [m - 1, m, value(rng, bits), 0 if rng.random() < 0.3 else m + 1 + rand_bits(rng, rng.randrange(1, 40))]
                if rep == 0 and bits in (0, 64, 256):
                    vals += [m * (1 << 64), (m << 64) - 1, 1]
                for v in vals:
                    s = digits_str(rng, v, base)
                    if rng.random() < 0.3:
                        s = '0' * rng.randrange(1, 4) + s
                    s = underscores(rng, s, 0.05)
                    if base != 16 and sep == '' and ty == 'B':
                        pass
                    # a decimal literal directly followed by U/B is one token for rustc (suffix)
                    out.append(PFX[base] + s + sep + ty + str(bits))
        # several hundred digits
        for base in (10, 16, 8, 2):
            for bits in (4096, 1000, 512):
                m = 1 << bits
                for v in (m - 1, m - 1 - rand_bits(rng, bits - 1), m):
                    out.append(PFX[base] + underscores(rng, digits_str(rng, v, base), 0.02) + '_' + rng.choice('UB') + str(bits))
        # invalid digits for the base (decimal letters reach the macro; octal/binary are stopped by the lexer)
        for _ in range(10):
            bits = rng.choice([8, 64, 65, 256])
            s = list(digits_str(rng, rand_bits(rng, min(bits, 30)), 10))
            k = rng.randrange(1, len(s) + 1)
            s.insert(k, rng.choice('abcdfABCDF'))
            out.append(''.join(s) + '_' + rng.choice('UB') + str(bits))
        out += ['1a_U64', '1A_U64', '9a_U8', '1f_U64', '1F_B64', '0a_U8', '1a1_U64', '12b_U16', '1aU64', '0o8_U8', '0o17_8_U16', '0b2_U8', '0b102_B8', '0b1a_U8']
    # pass-through tokens and literals that only look like ours
    out += ['0xAB5', '0xB8', '0xAB_CB64', '0xA_B5', '0xB_B8', '0x_B8', '0xaB16', '0xBB', '0xB_1', '12u8', '0b1u8', '7usize', '255u8', '1_000', '0xffu64', '0xABu8',
            '1.5f32', '2.5', '1e3', '"1_U8"', '"U8"', '"B8 and U16"', "'U'", "'B'", "b'B'", 'b"U8"', 'r"1_U8"', 'r#"B64"#', '"é U8"', 'true', '12B5', '0B8', '1B1', '2B1',
            '0b1B8', '0o7B8', '0o7_B3', '0b11_B2', '0b11_B1', '0U0', '0_U0', '1_U0', '0B0', '00_B0', '0x0_U0', '0x1_U0', '1U1', '2U1', '0x1U1', '0x2U1',
            '1_U08', '1_U008', '255_U8', '256_U8', '0xff_U8', '0x100_U8', '1u64', '1_u8', '1U8', '1_B8', '1__U8', '0x__1__U8', '0x1_U0064',
            # `0`, underscores, then a base letter: a DECIMAL literal for rustc ("Invalid character"), never a prefixed one
            '0_x10U8', '0_x10_U8', '0__x1f_U16', '0_b101U8', '0_b101_U8', '0_o17_U8', '0__o7_U8', '0_b1_B8', '0_xff_B8', '00x1_U8', '0_0x1_U8',
            '0_X10_U8', '1_x10_U8', '0_x_U8', '0_b_U8']  # (`0XFF` is not a Rust token: upper-case prefixes are rejected by the lexer)
    return out


def fast_random(rng):
    """one random literal-like text for the direct parser calls"""
    c = rng.randrange(12)
    base = rng.choice([10, 16, 8, 2])
    bits = rng.choice(WIDTHS + [rng.randrange(0, 300), rng.randrange(0, 5000)])
    m = 1 << bits
    if c < 4:
        v = rng.choice([m - 1, m, m + 1, value(rng, bits), rand_bits(rng, bits + rng.randrange(0, 70)), 0, (m << rng.randrange(0, 130)) - rng.randrange(0, 2)])
        v = max(v, 0)
        s = underscores(rng, digits_str(rng, v, base), 0.08)
        if rng.random() < 0.2:
            s = '0' * rng.randrange(1, 70) + s
        return PFX[base] + s + rng.choice(['_', '', '__']) + rng.choice('UB') + rng.choice(['', '0', '00']) + str(bits)
    if c == 4:
        # a digit of a larger base somewhere (incl. digit == base)
        s = list(digits_str(rng, rand_bits(rng, rng.randrange(1, min(bits, 200) + 2)), base))
        k = rng.randrange(len(s) + 1)
        d = rng.choice([base, base, base + 1, 15, rng.randrange(base, 16)]) if base < 16 else rng.choice([16, 17, 35])
        ch = (DIG + 'ghijklmnopqrstuvwxyz')[d]
        s.insert(k, ch.upper() if rng.random() < 0.5 else ch)
        return PFX[base] + ''.join(s) + rng.choice(['_', '']) + rng.choice('UB') + str(bits)
    if c == 5:
        # suffix oddities
        body = PFX[base] + digits_str(rng, rand_bits(rng, 20), base)
        suf = rng.choice(['U', 'B', 'u', 'b', 'U_', 'UU', 'BU', 'UB', '_U_', 'U+', 'U-', 'U 8', 'U8_', 'U8u', 'U0x8', 'U18446744073709551616', 'B99999999999999999999',
                          'U18446744073709551615999', 'U٣', 'Ué', 'U1é', 'i32', 'u8', 'usize', 'U8U', 'U8B', 'B8U', 'U8U16', 'B8B8', 'U+8', 'U++8', 'U+', 'U-8'])
        return body + rng.choice(['', '_']) + suf + rng.choice(['', '8', '64', '0'])
    if c == 5 and rng.random() < 0.5:
        # `0`, underscores, then a base letter (x / o / b): a decimal literal with an invalid character
        return '0' + '_' * rng.randrange(1, 3) + rng.choice('xob') + digits_str(rng, rand_bits(rng, 12), rng.choice([2, 8, 16])) + \
            rng.choice(['', '_']) + rng.choice('UB') + str(rng.choice([8, 16, 64]))
    if c == 6:
        # hexadecimal + B
        s = digits_str(rng, rand_bits(rng, rng.randrange(1, 64)), 16)
        return rng.choice(['0x', '0X', '0x_', '']) + s + rng.choice(['', '_', 'B', '_B', 'b']) + 'B' + str(rng.choice([0, 1, 5, 8, 64, 256])) + rng.choice(['', '', '_'])
    if c == 7:
        # other token kinds
        return rng.choice(['"%sU8"', "'%s'", 'b"%sB8"', '1.%s5U8', '1e5%s_U8', '"%s"U8', '"a%s"', '%s', 'r"%sU8"', '0x', '0', '', 'U8', 'B8', '_U8', '0xU8', '0x_U8', 'é%sU8',
                           '"é"U8', '1é_U8', 'é', 'éé_U8', '0é', '€_U8', '0€1_U8', 'aé_U8']) .replace('%s', rng.choice(['', 'U', 'B', '1_U8', 'x', 'é', '0x1']))
    if c == 8:
        # random soup over the literal alphabet
        n = rng.randrange(0, 12)
        return ''.join(rng.choice('0123456789abcdefABCDEFxobUB__ugG.é+') for _ in range(n))
    if c == 9:
        # exact limb boundaries: 2^(64k) - 1, 2^(64k) in every base, width just below / at / above
        k = rng.randrange(1, 6)
        v = (1 << (64 * k)) - rng.randrange(0, 2)
        w = 64 * k + rng.choice([-1, 0, 1, 64])
        return PFX[base] + digits_str(rng, v, base) + '_' + rng.choice('UB') + str(max(w, 0))
    if c == 10:
        # prefix oddities: upper-case prefix, prefix without digits, prefix after underscore
        s = digits_str(rng, rand_bits(rng, 16), rng.choice([2, 8, 10]))
        return rng.choice(['0X', '0O', '0B', '0x', '0o', '0b', '_0x', '00x', '0', '']) + s + '_U' + str(rng.choice([8, 16, 64]))
    # long digit strings
    v = rand_bits(rng, rng.randrange(200, 4200))
    return PFX[base] + digits_str(rng, v, base) + '_U' + str(rng.choice([256, 512, 4096, 1000]))


def rt_cases(rng, tier):
    n = 1 if tier == 'quick' else 15
    for _ in range(n):
        for bits in WIDTHS:
            m = 1 << bits
            for base in (10, 16, 8, 2):
                for v in (0, m - 1, m, m + 1, value(rng, bits), value(rng, bits), rand_bits(rng, bits + rng.randrange(1, 66)), m << 64):
                    s = underscores(rng, digits_str(rng, v, base), 0.1)
                    if rng.random() < 0.2:
                        s = '0' * rng.randrange(1, 5) + s
                    if rng.random() < 0.2:
                        s += '_'
                    yield 'rt %d %x %s' % (bits, base, tx(s))
                yield 'rt %d %x -' % (bits, base)
                yield 'rt %d %x %s' % (bits, base, tx('_'))


def nontrivial(c, i):
    t = c.split(' ')
    s = untx(t[-1])
    return any(ch in '123456789abcdefABCDEF' for ch in s)


def gen(rng, tier):
    lits = lit_structured(rng, tier)
    seen = set()
    for s in lits:
        if s not in seen:
            seen.add(s)
            yield 'lit ' + tx(s)
    for c in rt_cases(rng, tier):
        yield c
    # the structured literals also go through the direct path
    for s in sorted(seen):
        yield 'fast ' + tx(s)
    n = 40000 if tier == 'quick' else 1500000
    for _ in range(n):
        yield 'fast ' + tx(fast_random(rng))


def shrink_candidates(c):
    t = c.split(' ')
    if t[0] in ('fast', 'lit', 'rt'):
        k = len(t) - 1
        s = untx(t[k])
        for i in range(len(s)):
            yield ' '.join(t[:k] + [tx(s[:i] + s[i + 1:])])


# ------------------------------------------------------------------------------------------------
# fast path: the proc macro's source + a test module, built as a scratch proc-macro crate

FAST_MOD = r'''

#[cfg(test)]
mod verif_fast {
    use super::*;

    fn unhex(s: &str) -> String {
        if s == "-" {
            return String::new();
        }
        let b: Vec<u8> = (0..s.len() / 2).map(|i| u8::from_str_radix(&s[2 * i..2 * i + 2], 16).unwrap()).collect();
        String::from_utf8(b).unwrap()
    }

    fn csv(l: &[u64]) -> String {
        if l.is_empty() { "-".to_string() } else { l.iter().map(|w| format!("{w:x}")).collect::<Vec<_>>().join(",") }
    }

    /// error message -> kind (messages themselves are not compared)
    fn kind(msg: &str) -> String {
        if let Some(r) = msg.strip_prefix("Invalid character '") {
            return format!("err char {:x}", r.chars().next().unwrap() as u32);
        }
        if let Some(r) = msg.strip_prefix("Invalid digit ") {
            let c = r.chars().next().unwrap();
            let b = r.split(" in base ").nth(1).unwrap_or("?").split(' ').next().unwrap_or("?").to_string();
            return format!("err digit {:x} {}", c as u32, b);
        }
        format!("err other {msg}")
    }

    /// the same composition as `Transformer::transform_literal` (which needs a live proc-macro bridge)
    fn one(lit: &str) -> String {
        match parse_suffix(lit) {
            None => "pass".to_string(),
            Some((ty, bits, value)) => match parse_digits(value) {
                Err(e) => kind(&e),
                Ok(l) => match pad_limbs(bits, l) {
                    None => "err large".to_string(),
                    Some(l) => format!("ok {} {} {}", if ty == LiteralBaseType::Uint { "U" } else { "B" }, bits, csv(&l)),
                },
            },
        }
    }

    #[test]
    fn drive() {
        let inp = std::env::var("VERIF_FAST_IN").expect("VERIF_FAST_IN");
        let outp = std::env::var("VERIF_FAST_OUT").expect("VERIF_FAST_OUT");
        std::panic::set_hook(Box::new(|_| {}));
        let mut out = String::new();
        for line in std::fs::read_to_string(inp).unwrap().lines() {
            let lit = unhex(line.trim());
            let r = std::panic::catch_unwind(|| one(&lit)).unwrap_or_else(|_| "panic".to_string());
            out.push_str(&r);
            out.push('\n');
        }
        std::fs::write(outp, out).unwrap();
    }
}
'''


class Lock:
    def __init__(self, name):
        os.makedirs(TARGET, exist_ok=True)
        self.path = os.path.join(TARGET, name + '.lock')

    def __enter__(self):
        self.f = open(self.path, 'w')
        fcntl.flock(self.f, fcntl.LOCK_EX)

    def __exit__(self, *a):
        fcntl.flock(self.f, fcntl.LOCK_UN)
        self.f.close()


def fast_build():
    """-> (path of the test executable, None) or (None, reason)"""
    src_path = os.path.join(REPO, 'ruint-macro', 'src', 'lib.rs')
    if not os.path.exists(src_path):
        return None, 'ruint-macro/src/lib.rs not found'
    src = open(src_path).read() + FAST_MOD
    d = os.path.join(TARGET, 'fast_' + repo_tag())
    os.makedirs(os.path.join(d, 'src'), exist_ok=True)
    h = hashlib.blake2b(src.encode(), digest_size=8).hexdigest()
    stamp = os.path.join(d, 'built.json')
    with Lock('fast_' + repo_tag()):
        if os.path.exists(stamp):
            st = json.load(open(stamp))
            if st.get('hash') == h and (st.get('exe') is None or
                                        (os.path.exists(st['exe']) and os.path.getmtime(st['exe']) == st.get('mtime'))):
                return st.get('exe'), st.get('why')
        open(os.path.join(d, 'src', 'lib.rs'), 'w').write(src)
        open(os.path.join(d, 'README.md'), 'w').write('stub\n')
        open(os.path.join(d, 'Cargo.toml'), 'w').write(
            '[package]\nname = "c19fast"\nversion = "0.0.0"\nedition = "2021"\npublish = false\n\n[lib]\nproc-macro = true\npath = "src/lib.rs"\n\n[workspace]\n')
        p = subprocess.run(['cargo', 'test', '--offline', '--no-run', '--lib', '--message-format=json'], cwd=d, env=ENV, capture_output=True, text=True)
        exe, why = None, None
        for line in p.stdout.splitlines():
            try:
                j = json.loads(line)
            except ValueError:
                continue
            if j.get('reason') == 'compiler-artifact' and j.get('profile', {}).get('test') and j.get('executable'):
                exe = j['executable']
        if p.returncode != 0 or not exe:
            exe = None
            why = 'fast path unavailable (private names of ruint-macro changed or it does not build): ' + (p.stderr[-600:] or p.stdout[-600:])
        json.dump({'hash': h, 'exe': exe, 'why': why, 'mtime': os.path.getmtime(exe) if exe else None}, open(stamp, 'w'))
        return exe, why


def fast_run(items):
    exe, why = fast_build()
    if not exe:
        return ['unavailable'] * len(items)
    d = os.path.join(TARGET, 'batch')
    os.makedirs(d, exist_ok=True)
    base = os.path.join(d, 'fastrun_%d' % os.getpid())
    open(base + '.in', 'w').write('\n'.join(items) + '\n')
    # a proc-macro test binary links libstd dynamically (cargo test would set this up)
    libdir = subprocess.run(['rustc', '--print', 'target-libdir'], capture_output=True, text=True).stdout.strip()
    ld = libdir + ':' + os.environ.get('LD_LIBRARY_PATH', '')
    p = subprocess.run([exe, '--test-threads=1', 'drive'], env=dict(ENV, VERIF_FAST_IN=base + '.in', VERIF_FAST_OUT=base + '.out', LD_LIBRARY_PATH=ld),
                       capture_output=True, text=True)
    out = open(base + '.out').read().split('\n') if os.path.exists(base + '.out') else []
    for e in ('.in', '.out'):
        if os.path.exists(base + e):
            os.remove(base + e)
    if out and out[-1] == '':
        out.pop()
    if len(out) != len(items):
        return ['batch-failed'] * len(items)
    return out


# ------------------------------------------------------------------------------------------------
# compile probes

PROBE_HEAD = r'''#![allow(unused, clippy::all, overflowing_literals, unused_parens, unused_braces)]
use ruint::{uint, Bits, Uint};

macro_rules! via_expr { ($e:expr) => { uint!($e) }; }
macro_rules! via_expr2 { ($e:expr) => { uint!({ let v = ($e, 1u8); v.0 }) }; }
macro_rules! via_tt { ($t:tt) => { uint!($t) }; }

fn csv(l: &[u64]) -> String {
    if l.is_empty() { "-".to_string() } else { l.iter().map(|w| format!("{w:x}")).collect::<Vec<_>>().join(",") }
}
/// run-time parse of the same digits with the real `from_str_radix`
fn rt<const B: usize, const L: usize>(x: &Uint<B, L>, digits: &str, radix: u64) -> String {
    if radix == 0 {
        return String::new();
    }
    match Uint::<B, L>::from_str_radix(digits, radix) {
        Ok(v) if v == *x => String::new(),
        other => format!(" MISMATCH-RT {other:?}"),
    }
}
trait Show {
    fn show(&self, digits: &str, radix: u64) -> String;
}
impl<const B: usize, const L: usize> Show for Uint<B, L> {
    fn show(&self, digits: &str, radix: u64) -> String {
        format!("ok U {} {}{}", B, csv(self.as_limbs()), rt(self, digits, radix))
    }
}
impl<const B: usize, const L: usize> Show for Bits<B, L> {
    fn show(&self, digits: &str, radix: u64) -> String {
        format!("ok B {} {}{}", B, csv(self.as_uint().as_limbs()), rt(self.as_uint(), digits, radix))
    }
}
macro_rules! prim {
    ($($t:ty),*) => { $(impl Show for $t {
        fn show(&self, _: &str, _: u64) -> String { format!("prim {} {:?}", stringify!($t), self) }
    })* };
}
prim!(u8, u16, u32, u64, u128, usize, i8, i16, i32, i64, i128, isize, f32, f64, char, bool, &str, &[u8]);
impl<const N: usize> Show for &[u8; N] {
    fn show(&self, _: &str, _: u64) -> String { format!("prim bytes {:?}", &self[..]) }
}
fn p<T: Show>(i: usize, x: T, digits: &str, radix: u64) {
    println!("P {} {}", i, x.show(digits, radix));
}
fn q<T: Show>(i: usize, x: T) {
    println!("Q {} {}", i, x.show("", 0));
}
'''

WRAPS = [
    'uint!(@)',
    'uint!((@))',
    'uint!{ { @ } }',
    'uint!([@][0])',
    'uint!((((@))))',
    'uint!({ let _s = "7_U8 U8 0xB8"; let _c = \'U\'; let _o = (12u8, 0xB8, 1.5f32); (@) })',
    'uint!((@, 5u16, "1_U8").0)',
    'uint!({ [(@,)][0].0 })',
    'ruint::uint!(@)',
    'ruint::__private::ruint_macro::uint_with_path!([ruint] (@))',
    'uint!({ let t = [(0x1_U8, [2_U8, 3_U8]), (4_U8, [5_U8, 6_U8])]; let _ = t[1].1[0]; { { (@) } } })',
    # "at any nesting depth": 70 and 130 nested groups, and 40 alternating brace/paren pairs (depth 80)
    'uint!(' + '(' * 70 + '@' + ')' * 70 + ')',
    'uint!(' + '(' * 130 + '@' + ')' * 130 + ')',
    'uint!(' + '{ (' * 40 + '@' + ') }' * 40 + ')',
    # the literal reaches `uint!` through a `macro_rules!` fragment capture, i.e. inside an invisible (`Delimiter::None`) group
    'via_expr!(@)',
    'via_expr2!((@))',
    'via_tt!(@)',
]


def own_digits(lit):
    """for the in-probe run-time check: (digit text, radix) when the text has the documented shape with valid digits, else ('', 0)"""
    m = re.fullmatch(r'(0x|0o|0b)?([0-9a-fA-F_]*?)_*[UB]([0-9]+)', lit)
    if not m:
        return '', 0
    radix = {'0x': 16, '0o': 8, '0b': 2, None: 10}[m.group(1)]
    ds = m.group(2)
    try:
        if ds.replace('_', ''):
            int(ds.replace('_', ''), radix)
    except ValueError:
        return '', 0
    if radix == 16 and re.fullmatch(r'.*B[0-9]+', lit) and not re.fullmatch(r'.*_B[0-9]+', lit):
        return '', 0
    return ds, radix


def standalone_ok(lit):
    """can this token be written outside the macro as an ordinary Rust expression (to compare the passed-through value)?"""
    m = re.fullmatch(r'(0x[0-9a-fA-F_]+|0o[0-7_]+|0b[01_]+|[0-9][0-9_]*)(u8|u16|u32|u64|u128|usize|i8|i16|i32|i64|i128|isize)?', lit)
    if m:
        if re.fullmatch(r'0[xob]_*', m.group(1)):
            return False
        b = m.group(1).replace('_', '')
        v = int(b[2:], {'0x': 16, '0o': 8, '0b': 2}[b[:2]]) if b[:2] in ('0x', '0o', '0b') else int(b)
        return v < 2 ** 128   # rustc: "integer literal is too large" beyond u128
    if re.fullmatch(r'[0-9]+\.[0-9]+(f32|f64)?|[0-9]+e[0-9]+', lit):
        return True
    if lit in ('true', 'false'):
        return True
    return bool(re.fullmatch(r'b?"[^"\\]*"|b?\'[^\'\\]\'|r"[^"]*"|r#"[^"]*"#', lit))


def classify_diag(msg):
    if msg.startswith("Invalid character '"):
        return 'err char %x' % ord(msg[len("Invalid character '"):][0])
    if msg.startswith('Invalid digit '):
        r = msg[len('Invalid digit '):]
        b = r.split(' in base ')[1].split(' ')[0] if ' in base ' in r else '?'
        return 'err digit %x %s' % (ord(r[0]), b)
    if msg.startswith('Value too large for '):
        return 'err large'
    return None


def lit_run(lits, tag='lit'):
    """compile all literals through the real macro (one per source line), collect compile_error! diagnostics by line,
    drop the failing lines, recompile, run. -> canonical outcome per literal"""
    d = os.path.join(TARGET, 'probe_' + repo_tag())
    res = [None] * len(lits)
    with Lock('lit_' + repo_tag()):
        os.makedirs(os.path.join(d, 'src'), exist_ok=True)
        open(os.path.join(d, 'Cargo.toml'), 'w').write(
            '[package]\nname = "c19probe"\nversion = "0.0.0"\nedition = "2021"\npublish = false\n\n[dependencies]\nruint = { path = "%s" }\n\n[workspace]\n' % REPO)
        shutil.copy(os.path.join(REPO, 'Cargo.lock'), os.path.join(d, 'Cargo.lock'))
        compiles = 0
        for attempt in range(4):
            body = []
            lineof = {}
            for i, lit in enumerate(lits):
                if res[i] is not None:
                    continue
                w = WRAPS[int(hashlib.blake2b(lit.encode(), digest_size=2).hexdigest(), 16) % len(WRAPS)]
                ds, radix = own_digits(lit)
                body.append('    p(%d, %s, "%s", %d);' % (i, w.replace('@', lit), ds, radix))
                lineof[len(body)] = i
                if standalone_ok(lit):
                    body.append('    q(%d, %s);' % (i, lit))
            head_lines = PROBE_HEAD.count('\n') + 1   # + "fn main() {"
            src = PROBE_HEAD + 'fn main() {\n' + '\n'.join(body) + '\n}\n'
            open(os.path.join(d, 'src', 'main.rs'), 'w').write(src)
            pr = subprocess.run(['cargo', 'build', '--offline', '--message-format=json'], cwd=d, env=ENV, capture_output=True, text=True)
            compiles += 1
            exe = None
            errs = {}
            for line in pr.stdout.splitlines():
                try:
                    j = json.loads(line)
                except ValueError:
                    continue
                if j.get('reason') == 'compiler-artifact' and j.get('executable') and j.get('target', {}).get('name') == 'c19probe':
                    exe = j['executable']
                if j.get('reason') == 'compiler-message' and j['message'].get('level') == 'error':
                    msg = j['message']['message']
                    for sp in j['message'].get('spans', []):
                        # follow the macro-expansion chain out to the probe's own source line
                        while sp is not None:
                            if sp.get('file_name', '').endswith('src/main.rs'):
                                k = sp['line_start'] - head_lines
                                if k in lineof:
                                    errs.setdefault(lineof[k], []).append(msg)
                            sp = (sp.get('expansion') or {}).get('span')
            if pr.returncode == 0 and exe:
                out = subprocess.run([exe], capture_output=True, text=True).stdout
                P, Q = {}, {}
                for line in out.splitlines():
                    t = line.split(' ', 2)
                    if len(t) == 3 and t[0] in 'PQ':
                        (P if t[0] == 'P' else Q)[int(t[1])] = t[2]
                for i in range(len(lits)):
                    if res[i] is None:
                        v = P.get(i, 'no-output')
                        if v.startswith('prim '):
                            v = 'pass' if (i not in Q or Q[i] == v) else 'CHANGED-VALUE %s (ordinary: %s)' % (v, Q[i])
                        res[i] = v
                break
            if not errs:
                for i in range(len(lits)):
                    if res[i] is None:
                        res[i] = 'probe-build-failed'
                sys.stderr.write(pr.stderr[-2000:])
                break
            for i, msgs in errs.items():
                kinds = [classify_diag(m) for m in msgs]
                kinds = [k for k in kinds if k]
                res[i] = kinds[0] if kinds else 'err rustc ' + re.sub(r'\s+', ' ', msgs[0])[:80]
        for i in range(len(lits)):
            if res[i] is None:
                res[i] = 'probe-build-failed'
    return res, compiles


def batch(kind, items):
    if kind == 'fast':
        return fast_run(items)
    texts = [untx(h) for h in items]
    out = [None] * len(texts)
    idx = [i for i, s in enumerate(texts) if lexable(s) or standalone_ok(s)]
    r, _ = lit_run([texts[i] for i in idx]) if idx else ([], 0)
    for i, v in zip(idx, r):
        out[i] = v
    for i in range(len(out)):
        if out[i] is None:
            out[i] = 'unavailable'
    return out


# ------------------------------------------------------------------------------------------------
# token-walk / program probe (not a line protocol): one program, expected output computed here

PROGRAM = r'''
const A: ruint::aliases::U256 = uint!(0x00006f85d6f68a85ec10345351a23a3aaf07f38af8c952a7bceca70bd2af7ad5_U256);
static S: [Uint<12, 1>; 3] = uint!([1_U12, 0xfff_U12, 0o7777_U12]);
uint! {
    const B3: Bits<3, 1> = 0b101_B3;
    fn nested() -> (Uint<65, 2>, [u8; 2], &'static str, i32, char) {
        let r = { ( [ (36893488147419103231_U65, [0xB8u8, 12u8], "1_U8 stays U8", 0xAB5, 'U') ] ) };
        r[0]
    }
    mod inner { pub fn f() -> ruint::Uint<0, 0> { 0_U0 } pub const K: usize = 0xB8; }
}
fn program() {
    println!("G A {}", csv(A.as_limbs()));
    println!("G S {} {} {}", csv(S[0].as_limbs()), csv(S[1].as_limbs()), csv(S[2].as_limbs()));
    println!("G B3 {}", csv(B3.as_uint().as_limbs()));
    let n = nested();
    println!("G N {} {:?} {} {} {}", csv(n.0.as_limbs()), n.1, n.2, n.3, n.4);
    println!("G I {} {}", csv(inner::f().as_limbs()), inner::K);
    let x = uint!(1_U8 + 2_U8 * (3_U8 + { 4_U8 }));
    println!("G X {}", csv(x.as_limbs()));
    let v: Vec<Uint<256, 4>> = uint!(vec![1_U256, 2_U256, if true { 3_U256 } else { 4_U256 }]);
    println!("G V {}", v.iter().map(|e| csv(e.as_limbs())).collect::<Vec<_>>().join(" "));
}
'''
PROGRAM_EXPECT = [
    'G A bceca70bd2af7ad5,af07f38af8c952a7,ec10345351a23a3a,6f85d6f68a85',
    'G S 1 fff fff',
    'G B3 5',
    'G N ffffffffffffffff,1 [184, 12] 1_U8 stays U8 2741 U',
    'G I - 184',
    'G X f',
    'G V 1,0,0,0 2,0,0,0 3,0,0,0',
]


def program_probe():
    d = os.path.join(TARGET, 'program_' + repo_tag())
    with Lock('lit_' + repo_tag()):
        os.makedirs(os.path.join(d, 'src'), exist_ok=True)
        open(os.path.join(d, 'Cargo.toml'), 'w').write(
            '[package]\nname = "c19program"\nversion = "0.0.0"\nedition = "2021"\npublish = false\n\n[dependencies]\nruint = { path = "%s" }\n\n[workspace]\n' % REPO)
        shutil.copy(os.path.join(REPO, 'Cargo.lock'), os.path.join(d, 'Cargo.lock'))
        open(os.path.join(d, 'src', 'main.rs'), 'w').write(PROBE_HEAD + PROGRAM + 'fn main() { program(); }\n')
        pr = subprocess.run(['cargo', 'build', '--offline', '--message-format=json'], cwd=d, env=ENV, capture_output=True, text=True)
        exe = None
        for line in pr.stdout.splitlines():
            try:
                j = json.loads(line)
            except ValueError:
                continue
            if j.get('reason') == 'compiler-artifact' and j.get('executable'):
                exe = j['executable']
        if pr.returncode != 0 or not exe:
            return None, 'program probe does not compile: ' + pr.stderr[-1500:]
        out = [l for l in subprocess.run([exe], capture_output=True, text=True).stdout.splitlines() if l.startswith('G ')]
        return out, None


def extra_checks(tier, rng, findings):
    viol = []
    cov = {}
    out, why = program_probe()
    if out is None:
        viol.append(('impl-violation', 'program-probe', why[:300], 'compiles', 'compiles'))
    else:
        for got, exp in zip(out + [''] * len(PROGRAM_EXPECT), PROGRAM_EXPECT):
            if got != exp:
                viol.append(('impl-violation', 'program-probe ' + exp.split(' ')[1], got, exp, exp))
    exe, whyf = fast_build()
    cov['c19_program_probe_lines'] = len(out or [])
    cov['c19_fast_path'] = 'available' if exe else whyf
    return {'violations': viol, 'known': {}, 'coverage': cov}


if __name__ == '__main__':
    if len(sys.argv) == 5 and sys.argv[1] == '--batch':
        items = [l.strip() for l in open(sys.argv[3]) if l.strip()]
        res = batch(sys.argv[2], items)
        open(sys.argv[4], 'w').write('\n'.join(res) + '\n')
    else:
        print(__doc__)
