"""C06 — bitwise logic, bit access, counting: case generator.

Case lines: `op bits a` | `andK|orK|xorK bits a b` (K = operator shape 0..5) | `bit|byte|cbyte bits a index`
| `setbit bits a index t|f`."""
from vgen import *

BIN = 'c06'
DRV = 'drv_c06'
UN = ['not', 'notop', 'notref', 'rev', 'lz', 'lo', 'tz', 'to', 'cnt1', 'cnt0', 'bitlen', 'bytelen', 'msb', 'ispow2',
      'npow2', 'cnpow2']
BIN2 = ['%s%d' % (o, k) for o in ('and', 'or', 'xor') for k in range(8)]
IDX = ['bit', 'bitidx', 'byte', 'cbyte']
RULE = ('corpus, then exhaustive at widths 0..8 (0..10 thorough): every value x every unary op, every value x every index '
        '0..bits+64 for bit/set_bit/byte/checked_byte, all operand pairs at widths 0..4 for and/or/xor; then structured cases over 37 '
        'widths: shared value classes plus top-limb-zero values, MAX, 2^k, 2^k-1, 2^k+1, all-ones low limbs, single-limb patterns at '
        'every limb position, values around powers of two for next_power_of_two, indices 0..BITS+64 and limb/byte boundaries; '
        'at widths 64 and 128 the harness additionally compares the Uint result with the u64/u128 primitive operation (second oracle, outcome `native-oracle-mismatch`); '
        'non-trivial = width>0 and value non-zero; distinct by case hash')
TRUSTED = ['word primitives (u64 leading_zeros/trailing_zeros/trailing_ones/count_ones/reverse_bits, !) are modelled by small Lean '
           'functions with proved specs; that the Rust intrinsics match them is checked only by the correspondence']
ASSUMPTIONS = ['little-endian host (byte() uses as_le_slice on little-endian targets)']


def nontrivial(c, i):
    t = c.split(' ')
    return t[1] != '0' and t[2] != '0'


def bit_value(rng, bits):
    """values targeted at the counting / scanning functions"""
    if bits == 0:
        return 0
    m = 1 << bits
    n = nlimbs(bits)
    c = rng.randrange(18)
    if c >= 16:
        # sparse multi-limb values: a few set bits spread over several limbs, in particular the SAME bit position
        # (or the same word) in two or more limbs — what a limb-folding predicate (is_power_of_two, count, scans) confuses
        w = (1 << rng.randrange(64)) if c == 16 else rng.choice([1 << rng.randrange(64), 3, 2**64 - 1, rng.getrandbits(64) | 1])
        v = 0
        for i in range(n):
            if rng.random() < 0.55:
                v |= w << (64 * i)
        if v == 0:
            v = w | (w << (64 * (n - 1)))
        if rng.random() < 0.3:
            v ^= 1 << rng.randrange(bits)
        return v % m
    if c == 0:
        return m - 1
    if c == 1:
        return 1 << rng.randrange(bits)
    if c == 2:
        return (1 << rng.randrange(bits + 1)) - 1
    if c == 3:
        return ((1 << rng.randrange(bits)) + 1) % m
    if c == 4:                      # top limb(s) zero
        k = 64 * rng.randrange(n)
        return rand_bits(rng, k)
    if c == 5:                      # low limb(s) zero
        k = 64 * rng.randrange(n + 1)
        return (rand_bits(rng, bits) >> k << k) % m
    if c == 6:                      # all-ones low limbs then something else
        k = 64 * rng.randrange(n + 1)
        return (((1 << k) - 1) | (rand_bits(rng, bits) >> k << k)) % m
    if c == 7:                      # leading ones
        k = rng.randrange(bits + 1)
        return (m - 1) >> k << k
    if c == 8:                      # leading ones then a zero then noise
        k = rng.randrange(bits)
        return (((m - 1) >> k << k) | rand_bits(rng, max(k - 1, 0))) % m
    if c == 9:                      # single non-zero limb at a random position
        j = rng.randrange(n)
        w = rng.choice([1, 2**63, 2**64 - 1, rng.getrandbits(64), 2**32])
        return (w << (64 * j)) % m
    if c == 10:                     # single limb that is not all-ones
        j = rng.randrange(n)
        w = rng.choice([0, 2**63 - 1, 2**64 - 2, rng.getrandbits(64)])
        return ((m - 1) & ~(((1 << 64) - 1) << (64 * j)) | (w << (64 * j))) % m
    if c == 11:                     # 2^k - 1 + 2^j
        return (((1 << rng.randrange(bits + 1)) - 1) ^ (1 << rng.randrange(bits))) % m
    if c == 12:                     # MAX - 1, MAX - 2^k
        return (m - 1 - (1 << rng.randrange(bits))) % m
    return value(rng, bits)


def indices(rng, bits):
    out = [0, 1, 7, 8, 63, 64, 65, max(bits - 1, 0), bits, bits + 1, bits + 63, bits + 64, (bits + 7) // 8,
           max((bits + 7) // 8 - 1, 0), (bits + 7) // 8 + 1, 8 * nlimbs(bits), 8 * nlimbs(bits) - 1 if bits else 0,
           64 * nlimbs(bits), 64 * nlimbs(bits) - 1 if bits else 0]
    out += [rng.randrange(bits + 65) for _ in range(4)]
    out += [rng.randrange((bits + 7) // 8 + 2) for _ in range(3)]
    if rng.random() < 0.05:
        out.append(rng.choice([2**32, 2**63, 2**64 - 1, 2**16]))
    return out


def gen(rng, tier):
    n = 60000 if tier == 'quick' else 5000000
    exh = 8 if tier == 'quick' else 10
    for bits in range(0, exh + 1):
        for a in range(1 << bits):
            for op in UN:
                yield '%s %d %s' % (op, bits, hx(a))
            for i in range(bits + 65):
                yield 'bit %d %s %s' % (bits, hx(a), hx(i))
                yield 'bitidx %d %s %s' % (bits, hx(a), hx(i))
                if i < (bits + 7) // 8 + 3:
                    yield 'byte %d %s %s' % (bits, hx(a), hx(i))
                    yield 'cbyte %d %s %s' % (bits, hx(a), hx(i))
                if bits <= 6 or i <= bits + 1:
                    yield 'setbit %d %s %s t' % (bits, hx(a), hx(i))
                    yield 'setbit %d %s %s f' % (bits, hx(a), hx(i))
    k = 0
    for bits in range(0, 5):
        for a in range(1 << bits):
            for b in range(1 << bits):
                for o in ('and', 'or', 'xor'):
                    yield '%s%d %d %s %s' % (o, k % 6, bits, hx(a), hx(b))
                    k += 1
                    if a == b:
                        # equal operands through ONE object (`&x op &x`, `x op &x`): aliasing
                        yield '%s6 %d %s %s' % (o, bits, hx(a), hx(b))
                        yield '%s7 %d %s %s' % (o, bits, hx(a), hx(b))
    k = 0
    while k < n:
        bits = rng.choice(GRID_ALL)
        r = rng.random()
        if r < 0.5:
            a = bit_value(rng, bits)
            yield '%s %d %s' % (rng.choice(UN), bits, hx(a))
        elif r < 0.65:
            a, b = pair(rng, bits) if rng.random() < 0.5 else (bit_value(rng, bits), bit_value(rng, bits))
            if rng.random() < 0.15:
                b = a                                   # equal operands (shapes 6 / 7 pass ONE object twice)
            yield '%s %d %s %s' % (rng.choice(BIN2), bits, hx(a), hx(b))
        elif r < 0.9:
            a = bit_value(rng, bits)
            i = rng.choice(indices(rng, bits))
            yield '%s %d %s %s' % (rng.choice(IDX), bits, hx(a), hx(i))
        else:
            a = bit_value(rng, bits)
            i = rng.choice(indices(rng, bits))
            yield 'setbit %d %s %s %s' % (bits, hx(a), hx(i), rng.choice('tf'))
        k += 1


def extra_checks(tier, rng, findings):
    """thorough tier: re-run the corpus and a quick-size sample against the harness built with the
    release profile (debug assertions and overflow checks off: `<<`/`>>` amounts wrap instead of panicking,
    `debug_assert!`s vanish), compare with model and spec again."""
    if tier != 'thorough' and __import__('os').environ.get('VERIF_RELEASE_RERUN') != '1':
        return {}
    import os
    import random
    import vlib
    binpath, secs = vlib.build_harness(BIN, release=True)
    drv = os.path.join(vlib.LEAN, '.lake', 'build', 'bin', DRV)
    cases = []
    cpath = os.path.join(vlib.ROOT, 'corpus', 'C06.cases')
    if os.path.exists(cpath):
        cases += [l.strip() for l in open(cpath) if l.strip() and not l.startswith('#')]
    cases += list(gen(random.Random(rng.getrandbits(32)), 'quick'))
    impl, _ = vlib.run_impl(binpath, cases)
    ms = vlib.run_model(drv, cases, impl)
    viol = []
    for c, i, (m, s) in zip(cases, impl, ms):
        k = vlib.classify(c, i, m, s)
        if k:
            viol.append(('impl-violation' if k == 'model-error' else k, c + '   [release profile]', i, m, s))
    return {'violations': viol,
            'coverage': {'release_profile': {'cases': len(cases), 'mismatches': len(viol), 'build_s': round(secs, 1),
                                             'profile': 'release: opt-level=2, debug-assertions=off, overflow-checks=off'}}}
