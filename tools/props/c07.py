"""C07 — integer conversions: case generator (full boundary product type x width x 2^k-1,2^k,2^k+1)."""
from vgen import *

BIN = 'c07'
DRV = 'drv_c07'
WIDTHS = [0, 1, 2, 3, 4, 5, 6, 7, 8, 9, 12, 15, 16, 17, 31, 32, 33, 60, 63, 64, 65, 72, 96, 100, 126, 127, 128, 129, 130,
          160, 192, 200, 250, 255, 256, 257, 320, 384, 512, 521, 1024, 4096]
UU = [0, 1, 7, 8, 12, 63, 64, 65, 100, 127, 128, 129, 192, 250, 256, 512]
# name -> (width, signed)
TYPES = {'bool': (1, False), 'u8': (8, False), 'u16': (16, False), 'u32': (32, False), 'u64': (64, False),
         'u128': (128, False), 'usize': (64, False), 'i8': (8, True), 'i16': (16, True), 'i32': (32, True),
         'i64': (64, True), 'i128': (128, True), 'isize': (64, True)}
KS = [8, 16, 32, 63, 64, 127, 128]
FROM_OPS = ['try_from', 'from', 'wfrom', 'sfrom']
TO_OPS = ['try_to', 'try_to_val', 'to', 'wto', 'sto']
LIMB_OPS = ['ofls', 'fls', 'cfls', 'wfls', 'sfls']
UU_OPS = ['uu_try', 'uu_from', 'uu_wfrom', 'uu_sfrom', 'uu_from_uint', 'uu_cfrom_uint', 'uu_try_to', 'uu_to', 'uu_wto', 'uu_sto']
RULE = ('corpus; exhaustive: every u8 / i8 value into 16 widths and every value of the widths 0..8 into every primitive type (thorough: every u16 / i16 value); full boundary product: every (primitive type x width) at MIN,-1,0,1,MAX and +-(2^k-1, 2^k, 2^k+1) for '
        'k in {bits, bits-1, 7,8,15,16,31,32,63,64,127,128}, q*2^bits+r payload values, through try_from/from/wrapping_from/saturating_from; '
        'Uint->T at T::MAX-1,MAX,MAX+1, 2^k boundaries, sign-bit patterns in the low limb, through try_from(&)/try_from(val)/to/wrapping_to/saturating_to; '
        'limb slices of length 0..LIMBS+2 with zero/non-zero tails and top-limb excess; Uint->Uint on a 16x16 width grid; plus structured random; '
        'non-trivial = width>0 and a non-zero value; distinct by case hash')


def rng_of(t):
    w, s = TYPES[t]
    if t == 'bool':
        return 0, 1
    return (-(1 << (w - 1)), (1 << (w - 1)) - 1) if s else (0, (1 << w) - 1)


def sx(v):
    return '-%x' % -v if v < 0 else '%x' % v


def nontrivial(c, i):
    t = c.split(' ')
    return t[1] != '0' and any(x.strip('0,') not in ('', '-') for x in t[-1:])


def finding_tag(case, impl, model, spec):
    return None


def src_values(rng, t, bits, extra):
    """boundary values of source type t relevant to a `bits`-wide target"""
    lo, hi = rng_of(t)
    ks = sorted(set(KS + [7, 15, 31, bits, max(bits - 1, 0), bits + 1]))
    vals = {lo, lo + 1, -1, 0, 1, 2, hi - 1, hi}
    for k in ks:
        for d in (-1, 0, 1):
            vals.add((1 << k) + d)
            vals.add(-(1 << k) + d)
    m = 1 << bits
    for _ in range(extra):
        # q * 2^bits + r : the wrapped payload must be r
        q = rng.choice([1, 2, 3, 5, rng.getrandbits(8) | 1, rng.getrandbits(64)])
        r = value(rng, bits)
        vals.add(q * m + r)
        vals.add(-(q * m + r))
        vals.add(-r)
        # structured random over the type's width
        w = TYPES[t][0]
        vals.add(value(rng, w))
        vals.add(-value(rng, w))
        vals.add(value(rng, w) - (1 << (w - 1)))
        # two-limb shapes for the 128-bit sources: (hi, lo) with hi around the mask
        if w == 128 and bits > 64:
            mk = (1 << (bits - 64)) - 1 if bits < 128 else (1 << 64) - 1
            for h in (mk, mk + 1, mk + 2, 2 * mk + 1, 3 * mk, rng.getrandbits(64), (mk + 1) | rng.getrandbits(64)):
                vals.add(((h & ((1 << 64) - 1)) << 64) | rng.choice([0, 5, (1 << 64) - 1, rng.getrandbits(64)]))
    return sorted(v for v in vals if lo <= v <= hi)


def dst_values(rng, t, bits, extra):
    """Uint values relevant to target type t"""
    w, s = TYPES[t]
    lo, hi = rng_of(t)
    vals = {0, 1, 2, hi - 1, hi, hi + 1, hi + 2, 2 * hi + 1, 2 * hi + 2}
    for k in sorted(set(KS + [7, 15, 31, w, w - 1, w + 1, bits - 1])):
        if k >= 0:
            for d in (-1, 0, 1):
                vals.add((1 << k) + d)
    m = 1 << bits
    vals.add(m - 1)
    for _ in range(extra):
        v = value(rng, bits)
        vals.add(v)
        # sign-bit patterns of the low limb / low 128 bits with junk above
        low = rng.choice([1 << (w - 1), (1 << w) - 1, (1 << (w - 1)) - 1, (1 << (w - 1)) + 1, rng.getrandbits(w), 0])
        vals.add(((v >> w) << w | low) % m)
        vals.add(low % m)
        vals.add(value(rng, min(bits, w)))
        vals.add(value(rng, min(bits, max(w - 1, 0))))
    return sorted(v for v in vals if 0 <= v < m)


def limb_slices(rng, bits):
    n = nlimbs(bits)
    mk = ((1 << (bits % 64)) - 1 if bits % 64 else (1 << 64) - 1) if bits else 0
    W1 = (1 << 64) - 1
    out = []
    for ln in range(0, n + 3):
        for _ in range(2):
            l = [rng.choice([0, 1, W1, rng.getrandbits(64), 1 << 63]) for _ in range(ln)]
            if ln >= n and n > 0:
                l[n - 1] = rng.choice([mk, (mk + 1) & W1, mk >> 1, W1, 0, rng.getrandbits(64), rng.getrandbits(64) & mk])
                tail = rng.choice(['z', 'nz', 'last'])
                for j in range(n, ln):
                    l[j] = 0 if tail == 'z' else (rng.choice([1, W1, rng.getrandbits(64)]) if tail == 'nz' or j == ln - 1 else 0)
            out.append(l)
    return out


def ll(l):
    return ','.join('%x' % x for x in l) if l else '-'


def gen(rng, tier):
    extra = 2 if tier == 'quick' else 40
    for bits in WIDTHS:
        m = 1 << bits
        for t in TYPES:
            for v in src_values(rng, t, bits, extra):
                for op in FROM_OPS:
                    yield '%s %d %s %s' % (op, bits, t, sx(v))
            for x in dst_values(rng, t, bits, extra):
                for op in TO_OPS:
                    yield '%s %d %s %x' % (op, bits, t, x)
        for rep in range(2 if tier == 'quick' else 60):
            for l in limb_slices(rng, bits):
                for op in LIMB_OPS:
                    yield '%s %d %s' % (op, bits, ll(l))
                if len(l) == nlimbs(bits):
                    yield 'from_limbs %d %s' % (bits, ll(l))
        # from_limbs at the mask boundary
        n = nlimbs(bits)
        if n:
            mk = ((1 << (bits % 64)) - 1 if bits % 64 else (1 << 64) - 1)
            for top in {mk, (mk + 1) & ((1 << 64) - 1), 0, (1 << 64) - 1, 1 << 63}:
                yield 'from_limbs %d %s' % (bits, ll([rng.getrandbits(64) for _ in range(n - 1)] + [top]))
        else:
            yield 'from_limbs 0 -'
    for dst in UU:
        for src in UU:
            ms, md = 1 << src, 1 << dst
            vals = {0, 1, ms - 1, md - 1, md, md + 1, 2 * md - 1, 2 * md, ms >> 1, (ms >> 1) + 1}
            for _ in range(3 if tier == 'quick' else 100):
                vals.add(value(rng, src))
                vals.add(value(rng, min(src, dst)))
                vals.add((value(rng, src) | md) % ms)
                vals.add((rng.choice([1, 2, 3, rng.getrandbits(64)]) << (64 * nlimbs(dst))) % ms)
            for v in sorted(x for x in vals if 0 <= x < ms):
                for op in UU_OPS:
                    yield '%s %d %d %x' % (op, dst, src, v)


def _random_part(rng, n):
    """uniformly structured random (type, width, value) tuples on top of the boundary product (thorough tier)"""
    types = list(TYPES)
    for _ in range(n):
        bits = rng.choice(WIDTHS)
        t = rng.choice(types)
        lo, hi = rng_of(t)
        if rng.random() < 0.5:
            w = TYPES[t][0]
            v = value(rng, w) if rng.random() < 0.6 else rng.getrandbits(w)
            if TYPES[t][1] and rng.random() < 0.5:
                v = v - (1 << w) if v >= (1 << (w - 1)) else -v
            v = max(lo, min(hi, v))
            yield '%s %d %s %s' % (rng.choice(FROM_OPS), bits, t, sx(v))
        else:
            x = value(rng, bits)
            if rng.random() < 0.5 and bits:
                x = (x >> TYPES[t][0] << TYPES[t][0] | rng.getrandbits(TYPES[t][0])) % (1 << bits)
            yield '%s %d %s %x' % (rng.choice(TO_OPS), bits, t, x)


def _exhaustive(tier):
    """every value of the 8-bit source types into a grid of widths, and every value of the widths 0..8 into every primitive type
    (thorough: every 16-bit source value too)"""
    for bits in [0, 1, 2, 3, 4, 5, 6, 7, 8, 9, 12, 16, 63, 64, 65, 128]:
        for t in ('u8', 'i8'):
            lo, hi = rng_of(t)
            for v in range(lo, hi + 1):
                for op in FROM_OPS:
                    yield '%s %d %s %s' % (op, bits, t, sx(v))
    for bits in range(0, 9):
        for x in range(1 << bits):
            for t in TYPES:
                for op in TO_OPS:
                    yield '%s %d %s %x' % (op, bits, t, x)
    if tier != 'quick':
        for bits in (0, 7, 8, 15, 16, 17, 64):
            for t in ('u16', 'i16'):
                lo, hi = rng_of(t)
                for v in range(lo, hi + 1):
                    for op in ('try_from', 'wfrom'):
                        yield '%s %d %s %s' % (op, bits, t, sx(v))


_gen_boundary = gen


def gen(rng, tier):
    yield from _gen_boundary(rng, tier)
    yield from _exhaustive(tier)
    if tier != 'quick':
        yield from _random_part(rng, 1500000)
